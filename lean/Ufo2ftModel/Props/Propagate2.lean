import Ufo2ftModel.Props.Propagate
import Ufo2ftModel.Spec.C15
import Std.Data.String.ToNat
/-!
PropagateAnchorsFilter, the remaining clauses of C15 for ALL inputs:
placement (every added anchor lies at T(base anchor) of a component's base in the FINAL set, never under a name the glyph
already had), completeness (a composite of non-mark bases gets every base anchor it lacks), idempotence (a second run adds
nothing).  The proofs go through a closed-form description of a processed glyph (`finalGlyph`): once a glyph is in
`processed` (and no longer on the recursion stack) it is never modified again, and it equals its original with the anchors
computed from the final records of its components' bases appended.
-/
namespace Ufo2ft
open List

variable {bnd : Comp → Option (Q × Q)}

/-! ### strings: prefixes and numbered names -/

theorem startsWith_append (a b : String) : (a ++ b).startsWith a = true := by
  rw [String.startsWith_string_iff, String.toList_append]; exact List.prefix_append _ _

theorem startsWith_self (a : String) : a.startsWith a = true := by
  rw [String.startsWith_string_iff]; exact List.prefix_refl _

theorem numbered_eq (a : String) (i : Nat) : s!"{a}_{i + 1}" = (a ++ "_") ++ Nat.repr (i + 1) := rfl

theorem nameMatches_self (a : String) : C15.nameMatches a a = true := by
  simp [C15.nameMatches]

theorem nameMatches_numbered (a : String) (i : Nat) : C15.nameMatches (s!"{a}_{i + 1}") a = true := by
  rw [numbered_eq]
  unfold C15.nameMatches
  rw [startsWith_append]
  have : ((a ++ "_" ++ (i + 1).repr).drop (a.length + 1)).toString = (i + 1).repr := by
    apply String.toList_inj.mp
    show ((a ++ "_" ++ (i + 1).repr).drop (a.length + 1)).copy.toList = _
    rw [String.toList_copy_drop]
    simp only [String.toList_append]
    have hl : a.length + 1 = (a.toList ++ "_".toList).length := by simp [String.length_toList]
    rw [hl, List.drop_left]
  rw [this, Nat.toNat?_repr]
  simp

/-- the key under which an anchor named `an` is propagated: `an` itself, or `an_N` -/
def KeyOf (key an : String) : Prop := key = an ∨ ∃ i : Nat, key = s!"{an}_{i + 1}"

theorem KeyOf.nameMatches {key an : String} (h : KeyOf key an) : C15.nameMatches key an = true := by
  rcases h with rfl | ⟨i, rfl⟩
  · exact nameMatches_self _
  · exact nameMatches_numbered _ _

theorem KeyOf.startsWith {key an : String} (h : KeyOf key an) : key.startsWith an = true := by
  rcases h with rfl | ⟨i, rfl⟩
  · exact startsWith_self _
  · rw [numbered_eq, String.append_assoc]; exact startsWith_append _ _

/-! ### `adSet` (dict assignment) -/

theorem mem_adSet {d : AnchorData} {k : String} {v : Q × Q} {e : String × (Q × Q)} (h : e ∈ adSet d k v) :
    e ∈ d ∨ e = (k, v) := by
  unfold adSet at h
  split at h
  · simp only [mem_map] at h
    obtain ⟨e', he', rfl⟩ := h
    by_cases c : (e'.1 == k) = true
    · right; rw [if_pos c]
    · left; rw [if_neg c]; exact he'
  · simp only [mem_append, mem_singleton] at h; exact h

theorem adSet_has_key (d : AnchorData) (k : String) (v : Q × Q) : ∃ e ∈ adSet d k v, e.1 = k := by
  unfold adSet
  split
  · rename_i h
    obtain ⟨e, he, hk⟩ := List.any_eq_true.mp h
    exact ⟨(k, v), mem_map.mpr ⟨e, he, by rw [if_pos hk]⟩, rfl⟩
  · exact ⟨(k, v), by simp, rfl⟩

theorem adSet_keys_mono (d : AnchorData) (k : String) (v : Q × Q) : ∀ e ∈ d, ∃ e' ∈ adSet d k v, e'.1 = e.1 := by
  intro e he
  unfold adSet
  split
  · by_cases c : (e.1 == k) = true
    · exact ⟨(k, v), mem_map.mpr ⟨e, he, by rw [if_pos c]⟩, (by simpa using c : e.1 = k).symm⟩
    · exact ⟨e, mem_map.mpr ⟨e, he, by rw [if_neg c]⟩, rfl⟩
  · exact ⟨e, mem_append_left _ he, rfl⟩

theorem adSet_forall (Qe : String × (Q × Q) → Prop) (d : AnchorData) (k : String) (v : Q × Q)
    (hd : ∀ e ∈ d, Qe e) (hn : Qe (k, v)) : ∀ e ∈ adSet d k v, Qe e := by
  intro e he
  rcases mem_adSet he with h | h
  · exact hd e h
  · rw [h]; exact hn

/-! ### `_get_anchor_data` -/

theorem mem_found (comps : List (Comp × Glyph)) (name : String) :
    ∀ x ∈ comps.filterMap (fun (k, b) => (b.anchors.find? (fun a => a.name == name)).map (fun a => (a, k))),
      ∃ b, (x.2, b) ∈ comps ∧ x.1 ∈ b.anchors ∧ x.1.name = name := by
  intro x hx
  rw [mem_filterMap] at hx
  obtain ⟨⟨k, b⟩, hkb, hx⟩ := hx
  dsimp only at hx
  cases hf : b.anchors.find? (fun a => a.name == name) with
  | none => rw [hf] at hx; cases hx
  | some a =>
    rw [hf] at hx
    have := Option.some.inj hx; subst this
    exact ⟨b, hkb, List.mem_of_find?_eq_some hf, by simpa using List.find?_some hf⟩

theorem found_ne_nil (comps : List (Comp × Glyph)) (name : String) (k : Comp) (b : Glyph) (a : Anchor)
    (hkb : (k, b) ∈ comps) (ha : a ∈ b.anchors) (hn : a.name = name) :
    comps.filterMap (fun (k, b) => (b.anchors.find? (fun a => a.name == name)).map (fun a => (a, k))) ≠ [] := by
  intro h
  rw [filterMap_eq_nil_iff] at h
  have := h (k, b) hkb
  dsimp only at this
  cases hf : b.anchors.find? (fun a => a.name == name) with
  | none =>
    rw [find?_eq_none] at hf
    exact hf a ha (by simpa using hn)
  | some a' => rw [hf] at this; cases this

theorem foldl_adSet_forall {α : Type} (Qe : String × (Q × Q) → Prop) (key : α → String) (val : α → Q × Q) :
    ∀ (l : List α) (d : AnchorData), (∀ e ∈ d, Qe e) → (∀ x ∈ l, Qe (key x, val x)) →
      ∀ e ∈ l.foldl (fun d x => adSet d (key x) (val x)) d, Qe e := by
  intro l
  induction l with
  | nil => intro d hd _; exact hd
  | cons x l ih =>
    intro d hd hl
    rw [foldl_cons]
    exact ih _ (adSet_forall Qe d _ _ hd (hl x mem_cons_self)) (fun y hy => hl y (mem_cons_of_mem _ hy))

theorem foldl_adSet_mono {α : Type} (key : α → String) (val : α → Q × Q) :
    ∀ (l : List α) (d : AnchorData), ∀ e ∈ d, ∃ e' ∈ l.foldl (fun d x => adSet d (key x) (val x)) d, e'.1 = e.1 := by
  intro l
  induction l with
  | nil => intro d e he; exact ⟨e, he, rfl⟩
  | cons x l ih =>
    intro d e he
    rw [foldl_cons]
    obtain ⟨e1, he1, h1⟩ := adSet_keys_mono d (key x) (val x) e he
    obtain ⟨e2, he2, h2⟩ := ih _ e1 he1
    exact ⟨e2, he2, h2.trans h1⟩

theorem getAnchorData_forall (Qe : String × (Q × Q) → Prop) (d : AnchorData) (comps : List (Comp × Glyph)) (name : String)
    (hd : ∀ e ∈ d, Qe e)
    (hnew : ∀ k b a, (k, b) ∈ comps → a ∈ b.anchors → a.name = name →
      ∀ key, KeyOf key name → Qe (key, k.t.apply (a.x, a.y))) :
    ∀ e ∈ getAnchorData d comps name, Qe e := by
  unfold getAnchorData
  have hf := mem_found comps name
  generalize List.filterMap _ comps = found at hf
  dsimp only
  match found, hf with
  | [], _ => exact hd
  | [(a, k)], hf =>
    obtain ⟨b, hkb, ha, hn⟩ := hf (a, k) mem_cons_self
    exact adSet_forall Qe d _ _ hd (hnew k b a hkb ha hn _ (Or.inl hn))
  | x :: y :: rest, hf =>
    dsimp only
    apply foldl_adSet_forall Qe (fun (x : (Anchor × Comp) × Nat) => s!"{x.1.1.name}_{x.2 + 1}")
      (fun x => x.1.2.t.apply (x.1.1.x, x.1.1.y)) _ d hd
    intro z hz
    obtain ⟨⟨a, k⟩, i⟩ := z
    have hm : (a, k) ∈ x :: y :: rest := (List.mem_zipIdx hz).2.2 ▸ List.getElem_mem _
    obtain ⟨b, hkb, ha, hn⟩ := hf (a, k) hm
    exact hnew k b a hkb ha hn _ (Or.inr ⟨i, by rw [hn]⟩)

theorem getAnchorData_mono (d : AnchorData) (comps : List (Comp × Glyph)) (name : String) :
    ∀ e ∈ d, ∃ e' ∈ getAnchorData d comps name, e'.1 = e.1 := by
  unfold getAnchorData
  generalize List.filterMap _ comps = found
  dsimp only
  match found with
  | [] => intro e he; exact ⟨e, he, rfl⟩
  | [(a, k)] => exact adSet_keys_mono d _ _
  | x :: y :: rest =>
    dsimp only
    exact foldl_adSet_mono (fun (x : (Anchor × Comp) × Nat) => s!"{x.1.1.name}_{x.2 + 1}")
      (fun x => x.1.2.t.apply (x.1.1.x, x.1.1.y)) _ d

/-- if some base component carries an anchor called `name`, the data afterwards has a key for it (`name` or `name_1`) -/
theorem getAnchorData_has_key (d : AnchorData) (comps : List (Comp × Glyph)) (name : String) (k : Comp) (b : Glyph)
    (a : Anchor) (hkb : (k, b) ∈ comps) (ha : a ∈ b.anchors) (hn : a.name = name) :
    ∃ e ∈ getAnchorData d comps name, KeyOf e.1 name := by
  unfold getAnchorData
  have hf := mem_found comps name
  have hne := found_ne_nil comps name k b a hkb ha hn
  generalize List.filterMap _ comps = found at hf hne
  dsimp only
  match found, hf, hne with
  | [], _, hne => exact absurd rfl hne
  | [(a, k)], hf, _ =>
    obtain ⟨b, hkb, ha, hn⟩ := hf (a, k) mem_cons_self
    obtain ⟨e, he, hk⟩ := adSet_has_key d a.name (k.t.apply (a.x, a.y))
    exact ⟨e, he, Or.inl (hk.trans hn)⟩
  | x :: y :: rest, hf, _ =>
    dsimp only
    obtain ⟨b, hkb, ha, hn⟩ := hf x mem_cons_self
    rw [zipIdx_cons, foldl_cons]
    obtain ⟨e, he, hk⟩ := adSet_has_key d s!"{x.1.name}_{0 + 1}" (x.2.t.apply (x.1.x, x.1.y))
    obtain ⟨e', he', hk'⟩ := foldl_adSet_mono (fun (x : (Anchor × Comp) × Nat) => s!"{x.1.1.name}_{x.2 + 1}")
      (fun x => x.1.2.t.apply (x.1.1.x, x.1.1.y)) ((y :: rest).zipIdx (0 + 1)) _ e he
    exact ⟨e', he', Or.inr ⟨0, by rw [hk', hk, hn]⟩⟩


/-! ### the anchors computed for one composite, as a function of the split of its components -/

/-- the `for anchor_name in sorted(anchor_names)` loop of `_propagate_glyph_anchors` -/
def namesFold (g : Glyph) (comps : List (Comp × Glyph)) (l : List String) (d : AnchorData) : AnchorData :=
  l.foldl (fun d an => if g.anchors.any (fun a => a.name.startsWith an) then d else getAnchorData d comps an) d

/-- `to_add` of `_propagate_glyph_anchors`, from the glyph and the split of its components into bases and marks -/
def toAddOf (g : Glyph) (sp : PSplit) : AnchorData :=
  sp.markComps.foldl (fun d (k, b) => adjustAnchors d k b) (namesFold g sp.baseComps (sortStr sp.names) [])

/-- the anchors appended to the composite -/
def newAnchors (g : Glyph) (sp : PSplit) : List Anchor :=
  ((toAddOf g sp).mergeSort (fun a b => strLe a.1 b.1)).map (fun e => (⟨e.1, e.2.1, e.2.2⟩ : Anchor))

/-- what is true of every entry of `to_add`: it is the transformed position of an anchor (of matching name) of one of the
    component bases in `W`, and its key comes from a name no anchor of the composite starts with -/
def EntryOK (g : Glyph) (W : List (Comp × Glyph)) (e : String × (Q × Q)) : Prop :=
  (∃ kb ∈ W, ∃ ba ∈ kb.2.anchors, C15.nameMatches e.1 ba.name = true ∧ kb.1.t.apply (ba.x, ba.y) = e.2) ∧
  (∃ an, g.anchors.any (fun a => a.name.startsWith an) = false ∧ KeyOf e.1 an)

theorem namesFold_forall (g : Glyph) (W comps : List (Comp × Glyph)) (hW : ∀ kb ∈ comps, kb ∈ W) :
    ∀ (l : List String) (d : AnchorData), (∀ e ∈ d, EntryOK g W e) → ∀ e ∈ namesFold g comps l d, EntryOK g W e := by
  intro l
  induction l with
  | nil => intro d hd; exact hd
  | cons an l ih =>
    intro d hd
    unfold namesFold
    rw [foldl_cons]
    by_cases hs : (g.anchors.any fun a => a.name.startsWith an) = true
    · rw [if_pos hs]; exact ih d hd
    · rw [if_neg hs]
      apply ih
      apply getAnchorData_forall (EntryOK g W) d comps an hd
      intro k b a hkb ha hn key hkey
      refine ⟨⟨(k, b), hW _ hkb, a, ha, ?_, rfl⟩, ⟨an, by simpa using hs, hkey⟩⟩
      rw [hn]; exact hkey.nameMatches

theorem namesFold_mono (g : Glyph) (comps : List (Comp × Glyph)) :
    ∀ (l : List String) (d : AnchorData), ∀ e ∈ d, ∃ e' ∈ namesFold g comps l d, e'.1 = e.1 := by
  intro l
  induction l with
  | nil => intro d e he; exact ⟨e, he, rfl⟩
  | cons an l ih =>
    intro d e he
    unfold namesFold
    rw [foldl_cons]
    by_cases hs : (g.anchors.any fun a => a.name.startsWith an) = true
    · rw [if_pos hs]; exact ih d e he
    · rw [if_neg hs]
      obtain ⟨e1, he1, h1⟩ := getAnchorData_mono d comps an e he
      obtain ⟨e2, he2, h2⟩ := ih _ e1 he1
      exact ⟨e2, he2, h2.trans h1⟩

theorem namesFold_has_key (g : Glyph) (comps : List (Comp × Glyph)) (an : String) (k : Comp) (b : Glyph) (a : Anchor)
    (hkb : (k, b) ∈ comps) (ha : a ∈ b.anchors) (hn : a.name = an)
    (hs : (g.anchors.any fun a => a.name.startsWith an) = false) :
    ∀ (l : List String) (d : AnchorData), an ∈ l → ∃ e ∈ namesFold g comps l d, KeyOf e.1 an := by
  intro l
  induction l with
  | nil => intro d h; cases h
  | cons x l ih =>
    intro d h
    by_cases hx : x = an
    · subst hx
      unfold namesFold
      rw [foldl_cons, if_neg (by rw [hs]; simp)]
      obtain ⟨e1, he1, h1⟩ := getAnchorData_has_key d comps x k b a hkb ha hn
      obtain ⟨e2, he2, h2⟩ := namesFold_mono g comps l _ e1 he1
      exact ⟨e2, he2, by rw [h2]; exact h1⟩
    · have hl : an ∈ l := by
        rcases mem_cons.mp h with h | h
        · exact absurd h.symm hx
        · exact h
      unfold namesFold
      rw [foldl_cons]
      exact ih _ hl

theorem namesFold_skip (g : Glyph) (comps : List (Comp × Glyph)) :
    ∀ (l : List String) (d : AnchorData), (∀ an ∈ l, (g.anchors.any fun a => a.name.startsWith an) = true) →
      namesFold g comps l d = d := by
  intro l
  induction l with
  | nil => intro d _; rfl
  | cons x l ih =>
    intro d h
    unfold namesFold
    rw [foldl_cons, if_pos (h x mem_cons_self)]
    exact ih d (fun an han => h an (mem_cons_of_mem _ han))

/-! ### `_adjust_anchors` -/

theorem adjustAnchors_forall (g : Glyph) (W : List (Comp × Glyph)) (k : Comp) (b : Glyph) (hW : (k, b) ∈ W)
    (d : AnchorData) (hd : ∀ e ∈ d, EntryOK g W e) : ∀ e ∈ adjustAnchors d k b, EntryOK g W e := by
  unfold adjustAnchors
  have key : ∀ (l : List Anchor), (∀ a ∈ l, a ∈ b.anchors) → ∀ (d : AnchorData), (∀ e ∈ d, EntryOK g W e) →
      ∀ e ∈ l.foldl (fun d a =>
        if (d.any (fun e => e.1 == a.name) && b.anchors.any (fun a' => a'.name == "_" ++ a.name)) = true
        then adSet d a.name (k.t.apply (a.x, a.y)) else d) d, EntryOK g W e := by
    intro l
    induction l with
    | nil => intro _ d hd; exact hd
    | cons a l ih =>
      intro hl d hd
      rw [foldl_cons]
      apply ih (fun a' ha' => hl a' (mem_cons_of_mem _ ha'))
      by_cases hc : (d.any (fun e => e.1 == a.name) && b.anchors.any (fun a' => a'.name == "_" ++ a.name)) = true
      · rw [if_pos hc]
        apply adSet_forall _ d _ _ hd
        rw [Bool.and_eq_true] at hc
        obtain ⟨e0, he0, hk0⟩ := List.any_eq_true.mp hc.1
        have hk0' : e0.1 = a.name := by simpa using hk0
        obtain ⟨_, an, hs, hkey⟩ := hd e0 he0
        exact ⟨⟨(k, b), hW, a, hl a mem_cons_self, nameMatches_self _, rfl⟩, ⟨an, hs, by rw [← hk0']; exact hkey⟩⟩
      · rw [if_neg hc]; exact hd
  exact key b.anchors (fun a ha => ha) d hd

theorem adjustAnchors_mono (k : Comp) (b : Glyph) (d : AnchorData) :
    ∀ e ∈ d, ∃ e' ∈ adjustAnchors d k b, e'.1 = e.1 := by
  unfold adjustAnchors
  generalize b.anchors.any = anyb
  have key : ∀ (l : List Anchor) (d : AnchorData), ∀ e ∈ d, ∃ e' ∈ l.foldl (fun d a =>
        if (d.any (fun e => e.1 == a.name) && anyb (fun a' => a'.name == "_" ++ a.name)) = true
        then adSet d a.name (k.t.apply (a.x, a.y)) else d) d, e'.1 = e.1 := by
    intro l
    induction l with
    | nil => intro d e he; exact ⟨e, he, rfl⟩
    | cons a l ih =>
      intro d e he
      rw [foldl_cons]
      by_cases hc : (d.any (fun e => e.1 == a.name) && anyb (fun a' => a'.name == "_" ++ a.name)) = true
      · rw [if_pos hc]
        obtain ⟨e1, he1, h1⟩ := adSet_keys_mono d a.name (k.t.apply (a.x, a.y)) e he
        obtain ⟨e2, he2, h2⟩ := ih _ e1 he1
        exact ⟨e2, he2, h2.trans h1⟩
      · rw [if_neg hc]; exact ih d e he
  exact key b.anchors d

theorem adjustAnchors_nil (k : Comp) (b : Glyph) : adjustAnchors [] k b = [] := by
  unfold adjustAnchors
  generalize b.anchors.any = anyb
  induction b.anchors with
  | nil => rfl
  | cons a l ih => rw [foldl_cons]; simpa using ih

theorem markFold_forall (g : Glyph) (W : List (Comp × Glyph)) :
    ∀ (ms : List (Comp × Glyph)), (∀ kb ∈ ms, kb ∈ W) → ∀ (d : AnchorData), (∀ e ∈ d, EntryOK g W e) →
      ∀ e ∈ ms.foldl (fun d (k, b) => adjustAnchors d k b) d, EntryOK g W e := by
  intro ms
  induction ms with
  | nil => intro _ d hd; exact hd
  | cons m ms ih =>
    intro hW d hd
    obtain ⟨k, b⟩ := m
    rw [foldl_cons]
    exact ih (fun kb h => hW kb (mem_cons_of_mem _ h)) _ (adjustAnchors_forall g W k b (hW _ mem_cons_self) d hd)

theorem markFold_mono :
    ∀ (ms : List (Comp × Glyph)) (d : AnchorData), ∀ e ∈ d, ∃ e' ∈ ms.foldl (fun d (k, b) => adjustAnchors d k b) d, e'.1 = e.1 := by
  intro ms
  induction ms with
  | nil => intro d e he; exact ⟨e, he, rfl⟩
  | cons m ms ih =>
    intro d e he
    obtain ⟨k, b⟩ := m
    rw [foldl_cons]
    obtain ⟨e1, he1, h1⟩ := adjustAnchors_mono k b d e he
    obtain ⟨e2, he2, h2⟩ := ih _ e1 he1
    exact ⟨e2, he2, h2.trans h1⟩

theorem markFold_nil : ∀ (ms : List (Comp × Glyph)), ms.foldl (fun d (k, b) => adjustAnchors d k b) [] = [] := by
  intro ms
  induction ms with
  | nil => rfl
  | cons m ms ih => obtain ⟨k, b⟩ := m; rw [foldl_cons]; dsimp only; rw [adjustAnchors_nil]; exact ih

/-! ### soundness, completeness and idempotence of `to_add` -/

theorem toAddOf_sound (g : Glyph) (sp : PSplit) : ∀ e ∈ toAddOf g sp, EntryOK g (sp.baseComps ++ sp.markComps) e := by
  unfold toAddOf
  apply markFold_forall g _ sp.markComps (fun kb h => mem_append_right _ h)
  apply namesFold_forall g _ sp.baseComps (fun kb h => mem_append_left _ h)
  intro e he; cases he

theorem toAddOf_complete (g : Glyph) (sp : PSplit) (an : String) (k : Comp) (b : Glyph) (a : Anchor)
    (hkb : (k, b) ∈ sp.baseComps) (ha : a ∈ b.anchors) (hn : a.name = an) (hin : an ∈ sp.names)
    (hs : (g.anchors.any fun a => a.name.startsWith an) = false) : ∃ e ∈ toAddOf g sp, KeyOf e.1 an := by
  unfold toAddOf
  obtain ⟨e1, he1, h1⟩ := namesFold_has_key g sp.baseComps an k b a hkb ha hn hs (sortStr sp.names) []
    ((sortStr_perm sp.names).mem_iff.mpr hin)
  obtain ⟨e2, he2, h2⟩ := markFold_mono sp.markComps _ e1 he1
  exact ⟨e2, he2, by rw [h2]; exact h1⟩

theorem mem_newAnchors {g : Glyph} {sp : PSplit} {a : Anchor} :
    a ∈ newAnchors g sp ↔ ∃ e ∈ toAddOf g sp, a = ⟨e.1, e.2.1, e.2.2⟩ := by
  unfold newAnchors
  rw [mem_map]
  constructor
  · rintro ⟨e, he, rfl⟩; exact ⟨e, (mergeSort_perm _ _).mem_iff.mp he, rfl⟩
  · rintro ⟨e, he, rfl⟩; exact ⟨e, (mergeSort_perm _ _).mem_iff.mpr he, rfl⟩

/-- every name collected from the base components is carried by one of them -/
def NamesCovered (sp : PSplit) : Prop :=
  ∀ an ∈ sp.names, ∃ kb ∈ sp.baseComps, ∃ a ∈ kb.2.anchors, a.name = an

/-- **idempotence of one glyph**: once the computed anchors are appended, computing again (same split) yields nothing -/
theorem toAddOf_idem (g g1 : Glyph) (sp : PSplit) (hc : NamesCovered sp)
    (h1 : g1.anchors = g.anchors ++ newAnchors g sp) : toAddOf g1 sp = [] := by
  unfold toAddOf
  rw [namesFold_skip, markFold_nil]
  intro an han
  have han' : an ∈ sp.names := (sortStr_perm sp.names).mem_iff.mp han
  rw [h1, any_append, Bool.or_eq_true]
  by_cases hs : (g.anchors.any fun a => a.name.startsWith an) = true
  · exact Or.inl hs
  · right
    obtain ⟨⟨k, b⟩, hkb, a, ha, hn⟩ := hc an han'
    obtain ⟨e, he, hk⟩ := toAddOf_complete g sp an k b a hkb ha hn han' (by simpa using hs)
    exact List.any_eq_true.mpr ⟨⟨e.1, e.2.1, e.2.2⟩, mem_newAnchors.mpr ⟨e, he, rfl⟩, hk.startsWith⟩

/-! ### the split of a composite's components, read off a glyph set -/

/-- one component classified by its base's record `b`: mark component (the base has a `_` anchor) or base component -/
def splitStep (sp : PSplit) (k : Comp) (b : Glyph) : PSplit :=
  if b.anchors.any (fun a => a.name.startsWith "_") then { sp with markComps := sp.markComps ++ [(k, b)] }
  else { sp with baseComps := sp.baseComps ++ [(k, b)],
                 names := b.anchors.foldl (fun l a => addMod l a.name) sp.names }

/-- the component loop of `_propagate_glyph_anchors` without its recursive calls: every base is looked up in `gs` -/
def splitComps (gs : GlyphSet) : List Comp → PSplit → PSplit
  | [], sp => sp
  | k :: ks, sp =>
    match gs.get? k.base with
    | none => splitComps gs ks sp
    | some b => splitComps gs ks (splitStep sp k b)

/-- `if not composite.components or (composite.name in categories.mark and composite.anchors): return` -/
def skipCond (marks : List String) (name : String) (g : Glyph) : Bool :=
  g.comps.isEmpty || (marks.contains name && !g.anchors.isEmpty)

/-- inversion of one call of `_propagate_glyph_anchors` -/
theorem propagate_inv (fuel : Nat) (marks : List String) (st : FState) (name : String) (st' : FState)
    (h : propagate (fuel + 1) bnd marks st name = .ok st') :
    (st.processed.contains name = true ∧ st' = st) ∨
    (st.processed.contains name = false ∧ ∃ g, st.gs.get? name = some g ∧
      ((skipCond marks name g = true ∧ st' = { st with processed := st.processed ++ [name] }) ∨
       (skipCond marks name g = false ∧ ∃ st1 sp0 sp,
          propagateComps fuel bnd marks { st with processed := st.processed ++ [name] } g.comps ⟨[], [], []⟩ = .ok (st1, sp0) ∧
          promoteSplit bnd name sp0 = .ok sp ∧
          ((toAddOf g sp = [] ∧ st' = st1) ∨
           (toAddOf g sp ≠ [] ∧ st' = { st1 with gs := st1.gs.set name { g with anchors := g.anchors ++ newAnchors g sp },
                                                 modified := addMod st1.modified name }))))) := by
  unfold propagate at h
  by_cases hpr : st.processed.contains name = true
  · rw [if_pos hpr] at h
    exact Or.inl ⟨hpr, (Except.ok.inj h).symm⟩
  · rw [if_neg hpr] at h
    dsimp only at h
    refine Or.inr ⟨by simpa using hpr, ?_⟩
    cases hg : st.gs.get? name with
    | none => rw [hg] at h; cases h
    | some g =>
      rw [hg] at h
      dsimp only at h
      refine ⟨g, rfl, ?_⟩
      by_cases hskip : (g.comps.isEmpty || (marks.contains name && !g.anchors.isEmpty)) = true
      · rw [if_pos hskip] at h
        exact Or.inl ⟨hskip, (Except.ok.inj h).symm⟩
      · rw [if_neg hskip] at h
        refine Or.inr ⟨by simpa [skipCond] using hskip, ?_⟩
        cases hc : propagateComps fuel bnd marks { st with processed := st.processed ++ [name] } g.comps ⟨[], [], []⟩ with
        | error e => rw [hc] at h; cases h
        | ok res =>
          obtain ⟨st1, sp0⟩ := res
          rw [hc] at h
          dsimp only at h
          cases hpm : promoteSplit bnd name sp0 with
          | error e => rw [hpm] at h; cases h
          | ok sp =>
            rw [hpm] at h
            dsimp only at h
            refine ⟨st1, sp0, sp, rfl, hpm, ?_⟩
            have h' := Except.ok.inj h
            by_cases he : toAddOf g sp = []
            · left
              refine ⟨he, ?_⟩
              have he' : (toAddOf g sp).isEmpty = true := by rw [he]; rfl
              rw [← h']
              exact if_pos he'
            · right
              refine ⟨he, ?_⟩
              have he' : ¬ (toAddOf g sp).isEmpty = true := by rwa [List.isEmpty_iff]
              rw [← h']
              exact if_neg he'

theorem propagateComps_nil (fuel : Nat) (marks : List String) (st : FState) (sp : PSplit) :
    propagateComps fuel bnd marks st [] sp = .ok (st, sp) := by
  unfold propagateComps; rfl

/-- inversion of one round of the component loop -/
theorem propagateComps_inv (fuel : Nat) (marks : List String) (st : FState) (k : Comp) (ks : List Comp) (sp : PSplit)
    (r : FState × PSplit) (h : propagateComps fuel bnd marks st (k :: ks) sp = .ok r) :
    (st.gs.get? k.base = none ∧ propagateComps fuel bnd marks st ks sp = .ok r) ∨
    (∃ b0 st1 b, st.gs.get? k.base = some b0 ∧ propagate fuel bnd marks st k.base = .ok st1 ∧
      st1.gs.get? k.base = some b ∧ propagateComps fuel bnd marks st1 ks (splitStep sp k b) = .ok r) := by
  unfold propagateComps at h
  cases hb : st.gs.get? k.base with
  | none => rw [hb] at h; exact Or.inl ⟨rfl, h⟩
  | some b0 =>
    rw [hb] at h
    dsimp only at h
    cases hp : propagate fuel bnd marks st k.base with
    | error e => rw [hp] at h; cases h
    | ok st1 =>
      rw [hp] at h
      dsimp only at h
      cases hb1 : st1.gs.get? k.base with
      | none => rw [hb1] at h; cases h
      | some b =>
        rw [hb1] at h
        dsimp only at h
        refine Or.inr ⟨b0, st1, b, rfl, rfl, hb1, ?_⟩
        unfold splitStep
        by_cases hm : (b.anchors.any fun a => a.name.startsWith "_") = true
        · rw [if_pos hm] at h ⊢; exact h
        · rw [if_neg hm] at h ⊢; exact h


/-! ### the mark-ligature promotion -/

/-- the split the anchors are computed from: after the promotion step (the split itself where that raises) -/
def promoteD (bnd : Comp → Option (Q × Q)) (name : String) (sp : PSplit) : PSplit :=
  match promoteSplit bnd name sp with
  | .ok sp' => sp'
  | .error _ => sp

theorem promoteD_of_ok {name : String} {sp0 sp : PSplit} (h : promoteSplit bnd name sp0 = .ok sp) :
    promoteD bnd name sp0 = sp := by
  unfold promoteD; rw [h]

/-- what `promoteD` can be: the split itself, or one mark component (index `i`) moved to the (empty) base list -/
theorem promoteD_cases (name : String) (sp0 : PSplit) :
    promoteD bnd name sp0 = sp0 ∨
    ∃ i k b, sp0.markComps[i]? = some (k, b) ∧ sp0.baseComps = [] ∧
      promoteD bnd name sp0 = ⟨[(k, b)], sp0.markComps.eraseIdx i, b.anchors.foldl (fun l a => addMod l a.name) sp0.names⟩ := by
  unfold promoteD promoteSplit
  by_cases hc : (!sp0.markComps.isEmpty && sp0.baseComps.isEmpty && isLigatureMark name) = true
  · rw [if_pos hc]
    cases hk : distKeys bnd sp0.markComps with
    | none => left; rfl
    | some keys =>
      dsimp only
      cases hf : firstMin keys with
      | none => left; rfl
      | some im =>
        obtain ⟨i, m⟩ := im
        dsimp only
        cases hg : sp0.markComps[i]? with
        | none => left; rfl
        | some kb =>
          obtain ⟨k, b⟩ := kb
          right
          have hb : sp0.baseComps = [] := by
            simp only [Bool.and_eq_true] at hc
            exact List.isEmpty_iff.mp hc.1.2
          exact ⟨i, k, b, hg, hb, by dsimp only; rw [hb]; rfl⟩
  · rw [if_neg hc]; left; rfl

theorem promoteD_mem (name : String) (sp0 : PSplit) :
    ∀ kb ∈ (promoteD bnd name sp0).baseComps ++ (promoteD bnd name sp0).markComps, kb ∈ sp0.baseComps ++ sp0.markComps := by
  intro kb h
  rcases promoteD_cases (bnd := bnd) name sp0 with e | ⟨i, k, b, hi, hb, e⟩
  · rw [e] at h; exact h
  · rw [e] at h
    dsimp only at h
    rcases mem_append.mp h with h | h
    · rw [mem_singleton] at h
      rw [h]; exact mem_append_right _ (List.mem_of_getElem? hi)
    · exact mem_append_right _ ((List.eraseIdx_sublist _ _).subset h)

theorem promoteD_mono (name : String) (sp0 : PSplit) :
    (∀ kb ∈ sp0.baseComps, kb ∈ (promoteD bnd name sp0).baseComps) ∧ (∀ x ∈ sp0.names, x ∈ (promoteD bnd name sp0).names) := by
  rcases promoteD_cases (bnd := bnd) name sp0 with e | ⟨i, k, b, hi, hb, e⟩
  · rw [e]; exact ⟨fun _ h => h, fun _ h => h⟩
  · rw [e]
    dsimp only
    refine ⟨?_, fun x h => ?_⟩
    · intro kb h; rw [hb] at h; cases h
    have key : ∀ (anchors : List Anchor) (l : List String), x ∈ l → x ∈ anchors.foldl (fun l a => addMod l a.name) l := by
      intro anchors
      induction anchors with
      | nil => intro l h; exact h
      | cons a as ih =>
        intro l h
        rw [foldl_cons]
        refine ih _ ?_
        unfold addMod
        split
        · exact h
        · exact mem_append_left _ h
    exact key b.anchors sp0.names h

/-! ### frame: a call only touches glyphs that were not yet in `processed` -/

theorem names_set (gs : GlyphSet) (n : String) (g : Glyph) : (gs.set n g).names = gs.names := by
  unfold GlyphSet.set GlyphSet.names
  rw [map_map]
  apply map_congr_left
  intro e _
  by_cases c : (e.1 == n) = true
  · simp only [Function.comp, if_pos c]; exact (by simpa using c : e.1 = n).symm
  · simp only [Function.comp, if_neg c]

theorem mem_addMod {l : List String} {n m : String} (h : m ∈ addMod l n) : m ∈ l ∨ m = n := by
  unfold addMod at h
  split at h
  · exact Or.inl h
  · simpa using h

theorem mem_addMod_self (l : List String) (n : String) : n ∈ addMod l n := by
  unfold addMod
  split
  · rename_i h; simpa using h
  · simp

theorem mem_addMod_of_mem {l : List String} {m : String} (n : String) (h : m ∈ l) : m ∈ addMod l n := by
  unfold addMod
  split
  · exact h
  · exact mem_append_left _ h

structure FrameRel (st st' : FState) : Prop where
  keep : ∀ n ∈ st.processed, st'.gs.get? n = st.gs.get? n
  proc : ∀ n ∈ st.processed, n ∈ st'.processed
  none : ∀ n, st.gs.get? n = none → st'.gs.get? n = none
  names : st'.gs.names = st.gs.names
  fresh : ∀ n, n ∉ st'.processed → st'.gs.get? n = st.gs.get? n
  mods : ∀ m ∈ st'.modified, m ∈ st.modified ∨ m ∈ st'.processed

theorem FrameRel.refl (st : FState) : FrameRel st st :=
  ⟨fun _ _ => rfl, fun _ h => h, fun _ h => h, rfl, fun _ _ => rfl, fun _ h => Or.inl h⟩

theorem FrameRel.trans {a b c : FState} (h1 : FrameRel a b) (h2 : FrameRel b c) : FrameRel a c := by
  refine ⟨?_, ?_, ?_, ?_, ?_, ?_⟩
  · intro n hn; rw [h2.keep n (h1.proc n hn), h1.keep n hn]
  · intro n hn; exact h2.proc n (h1.proc n hn)
  · intro n hn; exact h2.none n (h1.none n hn)
  · rw [h2.names, h1.names]
  · intro n hn
    have hb : n ∉ b.processed := fun h => hn (h2.proc n h)
    rw [h2.fresh n hn, h1.fresh n hb]
  · intro m hm
    rcases h2.mods m hm with h | h
    · rcases h1.mods m h with h | h
      · exact Or.inl h
      · exact Or.inr (h2.proc m h)
    · exact Or.inr h

/-- marking `name` as processed -/
theorem FrameRel.mark (st : FState) (name : String) : FrameRel st { st with processed := st.processed ++ [name] } :=
  ⟨fun _ _ => rfl, fun _ h => mem_append_left _ h, fun _ h => h, rfl, fun _ _ => rfl, fun _ h => Or.inl h⟩

/-- writing the glyph `name` (which is in `processed`, and was not at the start `st0`) -/
theorem FrameRel.write (st0 st1 : FState) (name : String) (g g' : Glyph) (h01 : FrameRel st0 st1)
    (hnot : name ∉ st0.processed) (hin : name ∈ st1.processed) (hget : st1.gs.get? name = some g) :
    FrameRel st0 { st1 with gs := st1.gs.set name g', modified := addMod st1.modified name } := by
  refine ⟨?_, h01.proc, ?_, ?_, ?_, ?_⟩
  · intro n hn
    have hne : n ≠ name := fun e => hnot (e ▸ hn)
    show (st1.gs.set name g').get? n = _
    rw [get?_set st1.gs name n g g' hget, if_neg hne]; exact h01.keep n hn
  · intro n hn
    show (st1.gs.set name g').get? n = _
    have h1 := h01.none n hn
    have hne : n ≠ name := by intro e; rw [e, hget] at h1; cases h1
    rw [get?_set st1.gs name n g g' hget, if_neg hne]; exact h1
  · show (st1.gs.set name g').names = _
    rw [names_set]; exact h01.names
  · intro n hn
    have hne : n ≠ name := fun e => hn (e ▸ hin)
    show (st1.gs.set name g').get? n = _
    rw [get?_set st1.gs name n g g' hget, if_neg hne]; exact h01.fresh n hn
  · intro m hm
    rcases mem_addMod hm with h | h
    · exact h01.mods m h
    · exact Or.inr (h ▸ hin)

def FrameOne (fuel : Nat) : Prop :=
  ∀ bnd marks st name st', propagate fuel bnd marks st name = .ok st' → FrameRel st st' ∧ name ∈ st'.processed
def FrameMany (fuel : Nat) : Prop :=
  ∀ bnd marks st ks sp r, propagateComps fuel bnd marks st ks sp = .ok r → FrameRel st r.1

theorem frameMany_of_frameOne (fuel : Nat) (h1 : FrameOne fuel) : FrameMany fuel := by
  intro bnd marks st ks
  induction ks generalizing st with
  | nil =>
    intro sp r h
    rw [propagateComps_nil] at h
    rw [← Except.ok.inj h]; exact FrameRel.refl _
  | cons k ks ih =>
    intro sp r h
    rcases propagateComps_inv fuel marks st k ks sp r h with ⟨_, h⟩ | ⟨b0, st1, b, _, hp, _, h⟩
    · exact ih st sp r h
    · exact (h1 bnd marks st k.base st1 hp).1.trans (ih st1 _ r h)

theorem frameOne_succ (fuel : Nat) (h2 : FrameMany fuel) : FrameOne (fuel + 1) := by
  intro bnd marks st name st' h
  rcases propagate_inv fuel marks st name st' h with ⟨hpr, rfl⟩ | ⟨hpr, g, hg, hrest⟩
  · exact ⟨FrameRel.refl _, by simpa using hpr⟩
  · have hnot : name ∉ st.processed := by simpa using hpr
    rcases hrest with ⟨_, rfl⟩ | ⟨_, st1, sp0, sp, hc, _, hrest⟩
    · exact ⟨FrameRel.mark st name, by simp⟩
    · have f1 : FrameRel { st with processed := st.processed ++ [name] } st1 := h2 bnd marks _ g.comps _ _ hc
      have f01 : FrameRel st st1 := (FrameRel.mark st name).trans f1
      have hin : name ∈ st1.processed := f1.proc name (by simp)
      rcases hrest with ⟨_, rfl⟩ | ⟨_, rfl⟩
      · exact ⟨f01, hin⟩
      · have hget : st1.gs.get? name = some g := by rw [f1.keep name (by simp)]; exact hg
        exact ⟨FrameRel.write st st1 name g _ f01 hnot hin hget, hin⟩

theorem propagate_frame : ∀ fuel, FrameOne fuel ∧ FrameMany fuel := by
  intro fuel
  induction fuel with
  | zero =>
    have h0 : FrameOne 0 := by intro bnd marks st name st' h; simp only [propagate] at h; cases h
    exact ⟨h0, frameMany_of_frameOne 0 h0⟩
  | succ n ih =>
    have h1 := frameOne_succ n ih.2
    exact ⟨h1, frameMany_of_frameOne (n + 1) h1⟩

theorem splitComps_congr (gs gs' : GlyphSet) :
    ∀ (ks : List Comp) (sp : PSplit), (∀ k ∈ ks, gs'.get? k.base = gs.get? k.base) →
      splitComps gs' ks sp = splitComps gs ks sp := by
  intro ks
  induction ks with
  | nil => intro sp _; rfl
  | cons k ks ih =>
    intro sp h
    unfold splitComps
    rw [h k mem_cons_self]
    cases gs.get? k.base with
    | none => exact ih sp (fun k' hk' => h k' (mem_cons_of_mem _ hk'))
    | some b => exact ih _ (fun k' hk' => h k' (mem_cons_of_mem _ hk'))

/-- closed form of a processed glyph: the original with the anchors computed from the (current = final) records of its
    components' bases appended -/
def finalGlyph (bnd : Comp → Option (Q × Q)) (marks : List String) (gs : GlyphSet) (n : String) (g0 : Glyph) : Glyph :=
  if skipCond marks n g0 then g0
  else { g0 with anchors := g0.anchors ++ newAnchors g0 (promoteD bnd n (splitComps gs g0.comps ⟨[], [], []⟩)) }

theorem finalGlyph_congr (bnd : Comp → Option (Q × Q)) (marks : List String) (gs gs' : GlyphSet) (n : String) (g0 : Glyph)
    (h : skipCond marks n g0 = false → ∀ k ∈ g0.comps, gs'.get? k.base = gs.get? k.base) :
    finalGlyph bnd marks gs' n g0 = finalGlyph bnd marks gs n g0 := by
  unfold finalGlyph
  by_cases hs : skipCond marks n g0 = true
  · rw [if_pos hs, if_pos hs]
  · rw [if_neg hs, if_neg hs, splitComps_congr gs gs' g0.comps _ (h (by simpa using hs))]

/-- glyph `n` is finished: it has its closed form, and the bases it was computed from are finished too
    (`P` = the glyphs still on the recursion stack) -/
def Done (bnd : Comp → Option (Q × Q)) (marks : List String) (gs0 : GlyphSet) (P : String → Prop) (st : FState) (n : String) : Prop :=
  ∃ g0, gs0.get? n = some g0 ∧ st.gs.get? n = some (finalGlyph bnd marks st.gs n g0) ∧
    (skipCond marks n g0 = false → ∀ k ∈ g0.comps, st.gs.get? k.base ≠ none → k.base ∈ st.processed ∧ ¬ P k.base) ∧
    (skipCond marks n g0 = false → ∃ sp, promoteSplit bnd n (splitComps st.gs g0.comps ⟨[], [], []⟩) = .ok sp)

theorem Done.transfer {marks : List String} {gs0 : GlyphSet} {P P2 : String → Prop} {st st2 : FState} {n : String}
    (hd : Done bnd marks gs0 P st n) (hn : n ∈ st.processed) (hP : ¬ P n)
    (hkeep : ∀ m ∈ st.processed, ¬ P m → st2.gs.get? m = st.gs.get? m)
    (hnone : ∀ m, st.gs.get? m = none → st2.gs.get? m = none)
    (hproc : ∀ m ∈ st.processed, m ∈ st2.processed)
    (hP2 : ∀ m ∈ st.processed, ¬ P m → ¬ P2 m) : Done bnd marks gs0 P2 st2 n := by
  obtain ⟨g0, h0, hfin, hcl, hok⟩ := hd
  have hsame : skipCond marks n g0 = false → ∀ k ∈ g0.comps, st2.gs.get? k.base = st.gs.get? k.base := by
    intro hs k hk
    cases hb : st.gs.get? k.base with
    | none => exact hnone _ hb
    | some b =>
      have := hcl hs k hk (by rw [hb]; simp)
      rw [hkeep k.base this.1 this.2, hb]
  refine ⟨g0, h0, ?_, ?_, ?_⟩
  · rw [hkeep n hn hP, hfin, finalGlyph_congr bnd marks st.gs st2.gs n g0 hsame]
  · intro hs k hk hne
    have hne' : st.gs.get? k.base ≠ none := by rw [← hsame hs k hk]; exact hne
    have := hcl hs k hk hne'
    exact ⟨hproc _ this.1, hP2 _ this.1 this.2⟩
  · intro hs
    rw [splitComps_congr st.gs st2.gs g0.comps _ (hsame hs)]
    exact hok hs

structure Inv (bnd : Comp → Option (Q × Q)) (marks : List String) (gs0 : GlyphSet) (P : String → Prop) (st : FState) : Prop where
  fresh : ∀ n, (n ∉ st.processed ∨ P n) → st.gs.get? n = gs0.get? n
  pend : ∀ n, P n → n ∈ st.processed
  done : ∀ n ∈ st.processed, ¬ P n → Done bnd marks gs0 P st n

/-- entering a glyph: it joins `processed` and the recursion stack -/
theorem Inv.enter {marks : List String} {gs0 : GlyphSet} {P : String → Prop} {st : FState} (name : String)
    (hi : Inv bnd marks gs0 P st) (hnot : name ∉ st.processed) :
    Inv bnd marks gs0 (fun n => P n ∨ n = name) { st with processed := st.processed ++ [name] } := by
  refine ⟨?_, ?_, ?_⟩
  · intro n hn
    apply hi.fresh
    rcases hn with hn | hn | hn
    · exact Or.inl (fun h => hn (mem_append_left _ h))
    · exact Or.inr hn
    · exact Or.inl (hn ▸ hnot)
  · intro n hn
    rcases hn with hn | hn
    · exact mem_append_left _ (hi.pend n hn)
    · simp [hn]
  · intro n hn hP
    have hPn : ¬ P n := fun h => hP (Or.inl h)
    have hne : n ≠ name := fun h => hP (Or.inr h)
    have hn' : n ∈ st.processed := by
      rcases mem_append.mp hn with h | h
      · exact h
      · exact absurd (by simpa using h) hne
    apply Done.transfer (st2 := { st with processed := st.processed ++ [name] }) (hi.done n hn' hPn) hn' hPn
      (fun _ _ _ => rfl) (fun _ h => h) (fun m h => mem_append_left _ h)
    intro m hm hPm h
    rcases h with h | h
    · exact hPm h
    · exact hnot (h ▸ hm)

/-- leaving a glyph: its record becomes its closed form and it leaves the recursion stack -/
theorem Inv.leave {marks : List String} {gs0 : GlyphSet} {P : String → Prop} {st1 st' : FState} (name : String) (g : Glyph)
    (hi : Inv bnd marks gs0 (fun n => P n ∨ n = name) st1) (hP : ¬ P name)
    (hg1 : st1.gs.get? name = some g)
    (hcl : skipCond marks name g = false →
      ∀ k ∈ g.comps, st1.gs.get? k.base ≠ none → k.base ∈ st1.processed ∧ ¬ (P k.base ∨ k.base = name))
    (hself : ∀ k ∈ g.comps, k.base ≠ name)
    (hok : skipCond marks name g = false → ∃ sp, promoteSplit bnd name (splitComps st1.gs g.comps ⟨[], [], []⟩) = .ok sp)
    (hproc : st'.processed = st1.processed)
    (hget : ∀ m, st'.gs.get? m = if m = name then some (finalGlyph bnd marks st1.gs name g) else st1.gs.get? m) :
    Inv bnd marks gs0 P st' := by
  have hin : name ∈ st1.processed := hi.pend name (Or.inr rfl)
  have hg0 : gs0.get? name = some g := by rw [← hi.fresh name (Or.inr (Or.inr rfl))]; exact hg1
  have hkeep : ∀ m, m ≠ name → st'.gs.get? m = st1.gs.get? m := fun m hm => by rw [hget m, if_neg hm]
  have hnone : ∀ m, st1.gs.get? m = none → st'.gs.get? m = none := by
    intro m hm
    have : m ≠ name := by intro e; rw [e, hg1] at hm; cases hm
    rw [hkeep m this]; exact hm
  refine ⟨?_, ?_, ?_⟩
  · intro n hn
    have hne : n ≠ name := by
      rcases hn with hn | hn
      · intro e; exact hn (by rw [hproc, e]; exact hin)
      · intro e; exact hP (e ▸ hn)
    rw [hkeep n hne]
    apply hi.fresh
    rcases hn with hn | hn
    · exact Or.inl (by rw [← hproc]; exact hn)
    · exact Or.inr (Or.inl hn)
  · intro n hn; rw [hproc]; exact hi.pend n (Or.inl hn)
  · intro n hn hPn
    rw [hproc] at hn
    by_cases hne : n = name
    · subst hne
      refine ⟨g, hg0, ?_, ?_, ?_⟩
      · rw [hget n, if_pos rfl]
        congr 1
        apply (finalGlyph_congr bnd marks st1.gs st'.gs n g _).symm
        intro _ k hk
        exact hkeep _ (hself k hk)
      · intro hs k hk hne
        rw [hkeep _ (hself k hk)] at hne
        have := hcl hs k hk hne
        exact ⟨by rw [hproc]; exact this.1, fun h => this.2 (Or.inl h)⟩
      · intro hs
        rw [splitComps_congr st1.gs st'.gs g.comps _ (fun k hk => hkeep _ (hself k hk))]
        exact hok hs
    · have hP' : ¬ (P n ∨ n = name) := fun h => h.elim hPn hne
      apply (hi.done n hn hP').transfer hn hP'
      · intro m _ hm
        exact hkeep m (fun e => hm (Or.inr e))
      · exact hnone
      · intro m hm; rw [hproc]; exact hm
      · intro m _ hm h; exact hm (Or.inl h)


theorem newAnchors_nil {g : Glyph} {sp : PSplit} (h : toAddOf g sp = []) : newAnchors g sp = [] := by
  unfold newAnchors; rw [h]; simp

theorem finalGlyph_eq (bnd : Comp → Option (Q × Q)) (marks : List String) (gs : GlyphSet) (n : String) (g : Glyph) (hs : skipCond marks n g = false) :
    finalGlyph bnd marks gs n g = { g with anchors := g.anchors ++ newAnchors g (promoteD bnd n (splitComps gs g.comps ⟨[], [], []⟩)) } := by
  unfold finalGlyph; rw [if_neg (by rw [hs]; simp)]

def InvOne (fuel : Nat) : Prop :=
  ∀ bnd marks gs0 rank P st name st', Ranked gs0 rank → Inv bnd marks gs0 P st → (∀ p, P p → rank name < rank p) →
    propagate fuel bnd marks st name = .ok st' → Inv bnd marks gs0 P st'
def InvMany (fuel : Nat) : Prop :=
  ∀ bnd marks gs0 rank P st ks sp r, Ranked gs0 rank → Inv bnd marks gs0 P st → (∀ k ∈ ks, ∀ p, P p → rank k.base < rank p) →
    propagateComps fuel bnd marks st ks sp = .ok r →
    Inv bnd marks gs0 P r.1 ∧ r.2 = splitComps r.1.gs ks sp ∧
    (∀ k ∈ ks, r.1.gs.get? k.base ≠ none → k.base ∈ r.1.processed ∧ ¬ P k.base)

theorem invMany_of_invOne (fuel : Nat) (h1 : InvOne fuel) : InvMany fuel := by
  intro bnd marks gs0 rank P st ks
  induction ks generalizing st with
  | nil =>
    intro sp r hr hi _ h
    rw [propagateComps_nil] at h
    rw [← Except.ok.inj h]
    exact ⟨hi, rfl, fun k hk => by cases hk⟩
  | cons k ks ih =>
    intro sp r hr hi hrank h
    have hrank' : ∀ k' ∈ ks, ∀ p, P p → rank k'.base < rank p := fun k' hk' => hrank k' (mem_cons_of_mem _ hk')
    rcases propagateComps_inv fuel marks st k ks sp r h with ⟨hb, h⟩ | ⟨b0, st1, b, _, hp, hb1, h⟩
    · obtain ⟨i1, i2, i3⟩ := ih st sp r hr hi hrank' h
      have hnone : r.1.gs.get? k.base = none := ((propagate_frame fuel).2 bnd marks st ks sp r h).none _ hb
      refine ⟨i1, ?_, ?_⟩
      · unfold splitComps; rw [hnone]; exact i2
      · intro k' hk' hne
        rcases mem_cons.mp hk' with e | hk'
        · rw [e] at hne; exact absurd hnone hne
        · exact i3 k' hk' hne
    · have hi1 : Inv bnd marks gs0 P st1 := h1 bnd marks gs0 rank P st k.base st1 hr hi (hrank k mem_cons_self) hp
      obtain ⟨i1, i2, i3⟩ := ih st1 _ r hr hi1 hrank' h
      have hin1 : k.base ∈ st1.processed := ((propagate_frame fuel).1 bnd marks st k.base st1 hp).2
      have fr := (propagate_frame fuel).2 bnd marks st1 ks _ r h
      have hb : r.1.gs.get? k.base = some b := by rw [fr.keep _ hin1]; exact hb1
      refine ⟨i1, ?_, ?_⟩
      · unfold splitComps; rw [hb]; exact i2
      · intro k' hk' hne
        rcases mem_cons.mp hk' with e | hk'
        · rw [e]
          exact ⟨fr.proc _ hin1, fun hP => Nat.lt_irrefl _ (hrank k mem_cons_self _ hP)⟩
        · exact i3 k' hk' hne

theorem invOne_succ (fuel : Nat) (h2 : InvMany fuel) : InvOne (fuel + 1) := by
  intro bnd marks gs0 rank P st name st' hr hi hrank h
  rcases propagate_inv fuel marks st name st' h with ⟨_, rfl⟩ | ⟨hpr, g, hg, hrest⟩
  · exact hi
  · have hnot : name ∉ st.processed := by simpa using hpr
    have hP : ¬ P name := fun hP => Nat.lt_irrefl _ (hrank _ hP)
    have hg0 : gs0.get? name = some g := by rw [← hi.fresh name (Or.inl hnot)]; exact hg
    have hi' := hi.enter name hnot
    rcases hrest with ⟨hs, rfl⟩ | ⟨hs, st1, sp0, sp, hc, hpm, hrest⟩
    · -- nothing to do for this glyph: it is its own closed form
      have hself : ∀ k ∈ g.comps, k.base ≠ name := fun k hk e => by
        have := hr name g hg0 k hk; rw [e] at this; exact Nat.lt_irrefl _ this
      apply Inv.leave name g hi' hP hg (fun hs' => by rw [hs] at hs'; cases hs') hself
        (fun hs' => by rw [hs] at hs'; cases hs') rfl (fun m => ?_)
      by_cases e : m = name
      · rw [if_pos e, e]; unfold finalGlyph; rw [if_pos hs]; exact hg
      · rw [if_neg e]
    · have hself : ∀ k ∈ g.comps, k.base ≠ name := fun k hk e => by
        have := hr name g hg0 k hk; rw [e] at this; exact Nat.lt_irrefl _ this
      have hrank' : ∀ k ∈ g.comps, ∀ p, (P p ∨ p = name) → rank k.base < rank p := by
        intro k hk p hp
        have hlt := hr name g hg0 k hk
        rcases hp with hp | hp
        · exact Nat.lt_trans hlt (hrank p hp)
        · rw [hp]; exact hlt
      obtain ⟨i1, i2, i3⟩ := h2 bnd marks gs0 rank _ _ g.comps _ (st1, sp0) hr hi' hrank' hc
      have fr := (propagate_frame fuel).2 bnd marks _ g.comps _ _ hc
      have hg1 : st1.gs.get? name = some g := by rw [fr.keep name (by simp)]; exact hg
      dsimp only at i1 i2 i3
      have key : ∀ st2 : FState, st2.processed = st1.processed →
          (∀ m, st2.gs.get? m = if m = name then some (finalGlyph bnd marks st1.gs name g) else st1.gs.get? m) →
          Inv bnd marks gs0 P st2 :=
        fun st2 hp hgm => Inv.leave name g i1 hP hg1 (fun _ => i3) hself (fun _ => ⟨sp, by rw [← i2]; exact hpm⟩) hp hgm
      rcases hrest with ⟨he, hst⟩ | ⟨he, hst⟩
      · rw [hst]
        apply key st1 rfl
        intro m
        by_cases e : m = name
        · rw [if_pos e, e, finalGlyph_eq bnd marks _ _ _ hs, ← i2, promoteD_of_ok hpm, newAnchors_nil he, hg1]
          simp
        · rw [if_neg e]
      · rw [hst]
        refine key _ ?_ ?_
        · rfl
        intro m
        show (st1.gs.set name _).get? m = _
        rw [get?_set st1.gs name m g _ hg1, finalGlyph_eq bnd marks _ _ _ hs, ← i2, promoteD_of_ok hpm]

theorem propagate_inv_all : ∀ fuel, InvOne fuel ∧ InvMany fuel := by
  intro fuel
  induction fuel with
  | zero =>
    have h0 : InvOne 0 := by intro bnd marks gs0 rank P st name st' _ _ _ h; simp only [propagate] at h; cases h
    exact ⟨h0, invMany_of_invOne 0 h0⟩
  | succ n ih =>
    have h1 := invOne_succ n ih.2
    exact ⟨h1, invMany_of_invOne (n + 1) h1⟩

/-! ### what the split contains -/

theorem mem_foldl_addMod (anchors : List Anchor) : ∀ (l : List String),
    (∀ x ∈ l, x ∈ anchors.foldl (fun l a => addMod l a.name) l) ∧
    (∀ a ∈ anchors, a.name ∈ anchors.foldl (fun l a => addMod l a.name) l) ∧
    (∀ x ∈ anchors.foldl (fun l a => addMod l a.name) l, x ∈ l ∨ ∃ a ∈ anchors, a.name = x) := by
  induction anchors with
  | nil =>
    intro l
    refine ⟨fun x h => h, ?_, fun x h => Or.inl h⟩
    intro a h; cases h
  | cons a as ih =>
    intro l
    rw [foldl_cons]
    obtain ⟨i1, i2, i3⟩ := ih (addMod l a.name)
    refine ⟨fun x h => i1 x (mem_addMod_of_mem _ h), ?_, ?_⟩
    · intro a' ha'
      rcases mem_cons.mp ha' with e | h
      · rw [e]; exact i1 _ (mem_addMod_self _ _)
      · exact i2 a' h
    · intro x hx
      rcases i3 x hx with h | ⟨a', ha', e⟩
      · rcases mem_addMod h with h | h
        · exact Or.inl h
        · exact Or.inr ⟨a, mem_cons_self, h.symm⟩
      · exact Or.inr ⟨a', mem_cons_of_mem _ ha', e⟩

theorem splitStep_mono (sp : PSplit) (k : Comp) (b : Glyph) :
    (∀ kb ∈ sp.baseComps, kb ∈ (splitStep sp k b).baseComps) ∧ (∀ x ∈ sp.names, x ∈ (splitStep sp k b).names) := by
  unfold splitStep
  split
  · exact ⟨fun _ h => h, fun _ h => h⟩
  · exact ⟨fun _ h => mem_append_left _ h, fun x h => (mem_foldl_addMod b.anchors sp.names).1 x h⟩

theorem splitComps_mono (gs : GlyphSet) : ∀ (ks : List Comp) (sp : PSplit),
    (∀ kb ∈ sp.baseComps, kb ∈ (splitComps gs ks sp).baseComps) ∧ (∀ x ∈ sp.names, x ∈ (splitComps gs ks sp).names) := by
  intro ks
  induction ks with
  | nil => intro sp; exact ⟨fun _ h => h, fun _ h => h⟩
  | cons k ks ih =>
    intro sp
    unfold splitComps
    cases gs.get? k.base with
    | none => exact ih sp
    | some b =>
      dsimp only
      have m := splitStep_mono sp k b
      have i := ih (splitStep sp k b)
      exact ⟨fun kb h => i.1 kb (m.1 kb h), fun x h => i.2 x (m.2 x h)⟩

/-- every recorded (component, base record) pair is a component of the list with its record in `gs` -/
theorem splitComps_mem (gs : GlyphSet) : ∀ (ks : List Comp) (sp : PSplit),
    ∀ kb ∈ (splitComps gs ks sp).baseComps ++ (splitComps gs ks sp).markComps,
      kb ∈ sp.baseComps ++ sp.markComps ∨ (kb.1 ∈ ks ∧ gs.get? kb.1.base = some kb.2) := by
  intro ks
  induction ks with
  | nil => intro sp kb h; exact Or.inl h
  | cons k ks ih =>
    intro sp kb h
    unfold splitComps at h
    cases hb : gs.get? k.base with
    | none =>
      rw [hb] at h
      rcases ih sp kb h with h | h
      · exact Or.inl h
      · exact Or.inr ⟨mem_cons_of_mem _ h.1, h.2⟩
    | some b =>
      rw [hb] at h
      dsimp only at h
      rcases ih _ kb h with h | h
      · unfold splitStep at h
        split at h
        · simp only [mem_append, mem_singleton] at h
          rcases h with h | h | h
          · exact Or.inl (mem_append_left _ h)
          · exact Or.inl (mem_append_right _ h)
          · right; rw [h]; exact ⟨mem_cons_self, hb⟩
        · simp only [mem_append, mem_singleton] at h
          rcases h with (h | h) | h
          · exact Or.inl (mem_append_left _ h)
          · right; rw [h]; exact ⟨mem_cons_self, hb⟩
          · exact Or.inl (mem_append_right _ h)
      · exact Or.inr ⟨mem_cons_of_mem _ h.1, h.2⟩

/-- a component whose base record has no `_` anchor is recorded as a base component, with all its anchor names -/
theorem splitComps_base (gs : GlyphSet) : ∀ (ks : List Comp) (sp : PSplit) (k : Comp) (b : Glyph),
    k ∈ ks → gs.get? k.base = some b → (b.anchors.any fun a => a.name.startsWith "_") = false →
      (k, b) ∈ (splitComps gs ks sp).baseComps ∧ ∀ ba ∈ b.anchors, ba.name ∈ (splitComps gs ks sp).names := by
  intro ks
  induction ks with
  | nil => intro sp k b h; cases h
  | cons k0 ks ih =>
    intro sp k b hk hb hm
    by_cases e : k = k0
    · subst e
      unfold splitComps
      rw [hb]
      dsimp only
      have mono := splitComps_mono gs ks (splitStep sp k b)
      have h1 : (k, b) ∈ (splitStep sp k b).baseComps := by
        unfold splitStep; rw [if_neg (by rw [hm]; simp)]; simp
      have h2 : ∀ ba ∈ b.anchors, ba.name ∈ (splitStep sp k b).names := by
        intro ba hba
        unfold splitStep; rw [if_neg (by rw [hm]; simp)]
        exact (mem_foldl_addMod b.anchors sp.names).2.1 ba hba
      exact ⟨mono.1 _ h1, fun ba hba => mono.2 _ (h2 ba hba)⟩
    · have hk' : k ∈ ks := by
        rcases mem_cons.mp hk with h | h
        · exact absurd h e
        · exact h
      unfold splitComps
      cases gs.get? k0.base with
      | none => exact ih sp k b hk' hb hm
      | some b0 => exact ih _ k b hk' hb hm

theorem splitStep_covered (sp : PSplit) (k : Comp) (b : Glyph) (h : NamesCovered sp) : NamesCovered (splitStep sp k b) := by
  unfold splitStep
  split
  · exact h
  · intro an han
    rcases (mem_foldl_addMod b.anchors sp.names).2.2 an han with h' | ⟨a, ha, e⟩
    · obtain ⟨kb, hkb, r⟩ := h an h'
      exact ⟨kb, mem_append_left _ hkb, r⟩
    · exact ⟨(k, b), by simp, a, ha, e⟩

theorem splitComps_covered (gs : GlyphSet) : ∀ (ks : List Comp) (sp : PSplit), NamesCovered sp →
    NamesCovered (splitComps gs ks sp) := by
  intro ks
  induction ks with
  | nil => intro sp h; exact h
  | cons k ks ih =>
    intro sp h
    unfold splitComps
    cases gs.get? k.base with
    | none => exact ih sp h
    | some b => exact ih _ (splitStep_covered sp k b h)

theorem covered_empty : NamesCovered ⟨[], [], []⟩ := by intro an h; cases h

theorem promoteD_covered (name : String) (sp0 : PSplit) (h : NamesCovered sp0) : NamesCovered (promoteD bnd name sp0) := by
  rcases promoteD_cases (bnd := bnd) name sp0 with e | ⟨i, k, b, hi, hb, e⟩
  · rw [e]; exact h
  · rw [e]
    intro an han
    dsimp only at han ⊢
    rcases (mem_foldl_addMod b.anchors sp0.names).2.2 an han with h' | ⟨a, ha, e'⟩
    · obtain ⟨kb, hkb, _⟩ := h an h'
      rw [hb] at hkb; cases hkb
    · exact ⟨(k, b), by simp, a, ha, e'⟩


/-! ### the traversal of `BaseFilter.__call__` -/

theorem finalGlyph_fields (bnd : Comp → Option (Q × Q)) (marks : List String) (gs : GlyphSet) (n : String) (g0 : Glyph) :
    (finalGlyph bnd marks gs n g0).name = g0.name ∧ (finalGlyph bnd marks gs n g0).comps = g0.comps ∧
    (finalGlyph bnd marks gs n g0).contours = g0.contours ∧ (finalGlyph bnd marks gs n g0).width = g0.width ∧
    (finalGlyph bnd marks gs n g0).height = g0.height := by
  unfold finalGlyph
  split <;> exact ⟨rfl, rfl, rfl, rfl, rfl⟩

abbrev NoP : String → Prop := fun _ => False

/-- under the invariant every current record is the original or its closed form -/
theorem Inv.cur {marks : List String} {gs0 : GlyphSet} {st : FState} (hi : Inv bnd marks gs0 NoP st) (n : String) (g : Glyph)
    (hg : st.gs.get? n = some g) :
    ∃ g0, gs0.get? n = some g0 ∧ (g = g0 ∨ (n ∈ st.processed ∧ g = finalGlyph bnd marks st.gs n g0)) := by
  by_cases hn : n ∈ st.processed
  · obtain ⟨g0, h0, hf, _⟩ := hi.done n hn (fun h => h)
    rw [hg] at hf
    exact ⟨g0, h0, Or.inr ⟨hn, Option.some.inj hf⟩⟩
  · have := hi.fresh n (Or.inl hn)
    rw [hg] at this
    exact ⟨g, this.symm, Or.inl rfl⟩

theorem Inv.init (marks : List String) (gs : GlyphSet) : Inv bnd marks gs NoP ⟨gs, [], []⟩ :=
  ⟨fun _ _ => rfl, fun _ h => h.elim, fun n h => by cases h⟩

theorem propagateStep_spec (marks : List String) (gs0 : GlyphSet) (rank : String → Nat) (hr : Ranked gs0 rank)
    (st st1 : FState) (g : Glyph) (r : Bool) (hs : propagateStep bnd marks st g = .ok (st1, r)) (hi : Inv bnd marks gs0 NoP st) :
    Inv bnd marks gs0 NoP st1 ∧ FrameRel st st1 ∧ (g.comps ≠ [] → g.name ∈ st1.processed) ∧ (r = true → g.comps ≠ []) := by
  unfold propagateStep at hs
  by_cases he : g.comps.isEmpty = true
  · rw [if_pos he] at hs
    have := Prod.mk.inj (Except.ok.inj hs)
    rw [← this.1, ← this.2]
    exact ⟨hi, FrameRel.refl _, fun h => absurd (by simpa using he) h, fun h => by cases h⟩
  · rw [if_neg he] at hs
    cases hp : propagate (st.gs.length + 1) bnd marks st g.name with
    | error e => rw [hp] at hs; cases hs
    | ok st2 =>
      rw [hp] at hs
      have := Prod.mk.inj (Except.ok.inj hs)
      rw [← this.1]
      have fr := (propagate_frame _).1 bnd marks st g.name st2 hp
      exact ⟨(propagate_inv_all _).1 bnd marks gs0 rank NoP st g.name st2 hr hi (fun p hp => hp.elim) hp, fr.1,
        fun _ => fr.2, fun _ => by simpa using he⟩

theorem propagateLoop_inv (marks : List String) (incl : String → Bool) (gs0 : GlyphSet) (rank : String → Nat)
    (hr : Ranked gs0 rank) (hn : Named gs0) :
    ∀ (order : List String) (st st' : FState), filterLoop (propagateStep bnd marks) incl order st = .ok st' →
      Inv bnd marks gs0 NoP st → (∀ m ∈ st.modified, m ∈ st.processed) →
      Inv bnd marks gs0 NoP st' ∧ FrameRel st st' ∧ (∀ m ∈ st'.modified, m ∈ st'.processed) ∧
      (∀ n ∈ order, incl n = true → ∀ g0, gs0.get? n = some g0 → g0.comps ≠ [] → n ∈ st'.processed) := by
  intro order
  induction order with
  | nil =>
    intro st st' h hi hm
    simp only [filterLoop] at h
    have := Except.ok.inj h; subst this
    exact ⟨hi, FrameRel.refl _, hm, fun n h => by cases h⟩
  | cons n ns ih =>
    intro st st' h hi hmod
    unfold filterLoop at h
    by_cases hm : st.modified.contains n = true
    · rw [if_pos hm] at h
      obtain ⟨i1, i2, i3, i4⟩ := ih st st' h hi hmod
      refine ⟨i1, i2, i3, ?_⟩
      intro n' hn' hincl g0 hg0 hc
      rcases mem_cons.mp hn' with e | hn'
      · rw [e]; exact i2.proc n (hmod n (by simpa using hm))
      · exact i4 n' hn' hincl g0 hg0 hc
    · rw [if_neg hm] at h
      cases hget : st.gs.get? n with
      | none => rw [hget] at h; cases h
      | some g =>
        rw [hget] at h
        dsimp only at h
        obtain ⟨g0, hg0, hcur⟩ := hi.cur n g hget
        have hname : g.name = n := by
          rcases hcur with e | ⟨_, e⟩
          · rw [e]; exact hn n g0 hg0
          · rw [e, (finalGlyph_fields bnd marks st.gs n g0).1]; exact hn n g0 hg0
        have hcomps : g.comps = g0.comps := by
          rcases hcur with e | ⟨_, e⟩
          · rw [e]
          · rw [e, (finalGlyph_fields bnd marks st.gs n g0).2.1]
        by_cases hi' : incl n = true
        · rw [if_pos hi'] at h
          cases hs : propagateStep bnd marks st g with
          | error e => rw [hs] at h; cases h
          | ok res =>
            obtain ⟨st1, r⟩ := res
            rw [hs] at h
            dsimp only at h
            obtain ⟨s1, s2, s3, s4⟩ := propagateStep_spec marks gs0 rank hr st st1 g r hs hi
            rw [hname] at s3
            have hmod1 : ∀ m ∈ st1.modified, m ∈ st1.processed := by
              intro m hm1
              rcases s2.mods m hm1 with h' | h'
              · exact s2.proc m (hmod m h')
              · exact h'
            -- the state handed to the rest of the loop
            have key : ∀ st2 : FState, st2.gs = st1.gs → st2.processed = st1.processed →
                (∀ m ∈ st2.modified, m ∈ st1.modified ∨ m = n ∧ r = true) →
                filterLoop (propagateStep bnd marks) incl ns st2 = .ok st' →
                Inv bnd marks gs0 NoP st' ∧ FrameRel st st' ∧ (∀ m ∈ st'.modified, m ∈ st'.processed) ∧
                (∀ n' ∈ n :: ns, incl n' = true → ∀ g0, gs0.get? n' = some g0 → g0.comps ≠ [] → n' ∈ st'.processed) := by
              intro st2 e1 e2 e3 h2
              have hmod2 : ∀ m ∈ st2.modified, m ∈ st2.processed := by
                intro m hm2
                rw [e2]
                rcases e3 m hm2 with h' | ⟨h', hr'⟩
                · exact hmod1 m h'
                · rw [h']; exact s3 (s4 hr')
              have hi2 : Inv bnd marks gs0 NoP st2 := by
                refine ⟨?_, fun _ h => h.elim, ?_⟩
                · intro m hm; rw [e1]; exact s1.fresh m (by rw [← e2]; exact hm)
                · intro m hm hP
                  rw [e2] at hm
                  exact (s1.done m hm hP).transfer hm hP (fun _ _ _ => by rw [e1]) (fun _ h => by rw [e1]; exact h)
                    (fun _ h => by rw [e2]; exact h) (fun _ _ h => h)
              have fr12 : FrameRel st st2 := by
                refine ⟨?_, ?_, ?_, ?_, ?_, ?_⟩
                · intro m hm; rw [e1]; exact s2.keep m hm
                · intro m hm; rw [e2]; exact s2.proc m hm
                · intro m hm; rw [e1]; exact s2.none m hm
                · rw [e1]; exact s2.names
                · intro m hm; rw [e1]; exact s2.fresh m (by rw [← e2]; exact hm)
                · intro m hm; exact Or.inr (hmod2 m hm)
              obtain ⟨i1, i2, i3, i4⟩ := ih st2 st' h2 hi2 hmod2
              refine ⟨i1, fr12.trans i2, i3, ?_⟩
              intro n' hn' hincl g0' hg0' hc
              rcases mem_cons.mp hn' with e | hn'
              · rw [e] at hg0' ⊢
                rw [hg0] at hg0'
                have e' := Option.some.inj hg0'
                apply i2.proc n
                rw [e2]
                exact s3 (by rw [hcomps, e']; exact hc)
              · exact i4 n' hn' hincl g0' hg0' hc
            by_cases hr' : r = true
            · rw [if_pos hr'] at h
              exact key { st1 with modified := addMod st1.modified n } rfl rfl
                (fun m hm' => (mem_addMod hm').elim Or.inl (fun e => Or.inr ⟨e, hr'⟩)) h
            · rw [if_neg hr'] at h
              exact key st1 rfl rfl (fun m hm' => Or.inl hm') h
        · rw [if_neg hi'] at h
          obtain ⟨i1, i2, i3, i4⟩ := ih st st' h hi hmod
          refine ⟨i1, i2, i3, ?_⟩
          intro n' hn' hincl g0' hg0' hc
          rcases mem_cons.mp hn' with e | hn'
          · rw [e] at hincl; exact absurd hincl hi'
          · exact i4 n' hn' hincl g0' hg0' hc

theorem get?_mem_names : ∀ (gs : GlyphSet) (n : String) (g : Glyph), gs.get? n = some g → n ∈ gs.names := by
  intro gs
  induction gs with
  | nil => intro n g h; cases h
  | cons e gs ih =>
    intro n g h
    obtain ⟨k, v⟩ := e
    simp only [GlyphSet.get?, alookup] at h
    simp only [GlyphSet.names, map_cons, mem_cons]
    by_cases hk : (k == n) = true
    · left; exact (by simpa using hk : k = n).symm
    · rw [if_neg hk] at h; right; exact ih n g h

theorem depthsOf_names (gs : GlyphSet) : ∀ (l : List (String × Glyph)) (ds : List (String × Nat)),
    depthsOf gs l = .ok ds → ds.map (·.1) = l.map (·.1) := by
  intro l
  induction l with
  | nil => intro ds h; simp only [depthsOf] at h; rw [← Except.ok.inj h]; rfl
  | cons e l ih =>
    intro ds h
    obtain ⟨n, g⟩ := e
    unfold depthsOf at h
    cases h1 : maxComponentDepth gs g with
    | error e => rw [h1] at h; cases h
    | ok d =>
      cases h2 : depthsOf gs l with
      | error e => rw [h1, h2] at h; cases h
      | ok r =>
        rw [h1, h2] at h
        rw [← Except.ok.inj h, map_cons, map_cons, ih r h2]

theorem orderedGlyphs_mem (gs : GlyphSet) (order : List String) (h : orderedGlyphs gs = .ok order) :
    ∀ n ∈ gs.names, n ∈ order := by
  unfold orderedGlyphs at h
  cases hd : depthsOf gs gs with
  | error e => rw [hd] at h; cases h
  | ok ds =>
    rw [hd] at h
    intro n hn
    rw [← Except.ok.inj h]
    have := depthsOf_names gs gs ds hd
    unfold GlyphSet.names at hn
    rw [← this] at hn
    obtain ⟨e, he, rfl⟩ := mem_map.mp hn
    exact mem_map.mpr ⟨e, (mergeSort_perm _ _).mem_iff.mpr he, rfl⟩

/-- everything the first run establishes -/
theorem runFilter_propagate_inv (marks : List String) (incl : String → Bool) (gs : GlyphSet) (rank : String → Nat)
    (st : FState) (hr : Ranked gs rank) (hn : Named gs) (h : runFilter (propagateStep bnd marks) incl gs = .ok st) :
    Inv bnd marks gs NoP st ∧ st.gs.names = gs.names ∧
    (∀ n g0, gs.get? n = some g0 → incl n = true → g0.comps ≠ [] → n ∈ st.processed) := by
  unfold runFilter at h
  cases ho : orderedGlyphs gs with
  | error e => rw [ho] at h; cases h
  | ok order =>
    rw [ho] at h
    obtain ⟨i1, i2, _, i4⟩ := propagateLoop_inv marks incl gs rank hr hn order ⟨gs, [], []⟩ st h (Inv.init (bnd := bnd) marks gs)
      (fun m hm => by cases hm)
    exact ⟨i1, i2.names, fun n g0 hg0 hincl hc =>
      i4 n (orderedGlyphs_mem gs order ho n (get?_mem_names gs n g0 hg0)) hincl g0 hg0 hc⟩

/-! ### Target 1: placement -/

/-- **placement (soundness)**: after the filter, every glyph is its original with anchors appended, and every appended
    anchor lies at `k.t.apply (ba.x, ba.y)` for a component `k` of the glyph and an anchor `ba` (of matching, possibly
    numbered, name) of `k`'s base **in the final glyph set**; no appended anchor has the name of an anchor the glyph had. -/
theorem propagate_placed (marks : List String) (incl : String → Bool) (gs : GlyphSet) (rank : String → Nat)
    (st : FState) (hr : Ranked gs rank) (hn : Named gs) (h : runFilter (propagateStep bnd marks) incl gs = .ok st)
    (n : String) (g g' : Glyph) (hg : gs.get? n = some g) (hg' : st.gs.get? n = some g') :
    ∃ added, g' = { g with anchors := g.anchors ++ added } ∧
      ∀ a ∈ added,
        (∃ k ∈ g.comps, ∃ b, st.gs.get? k.base = some b ∧ ∃ ba ∈ b.anchors,
          C15.nameMatches a.name ba.name = true ∧ k.t.apply (ba.x, ba.y) = (a.x, a.y)) ∧
        (∀ o ∈ g.anchors, o.name ≠ a.name) := by
  obtain ⟨hi, _, _⟩ := runFilter_propagate_inv marks incl gs rank st hr hn h
  obtain ⟨g0, hg0, hcur⟩ := hi.cur n g' hg'
  rw [hg] at hg0
  have := Option.some.inj hg0; subst this
  have hnil : ∃ added, g = { g with anchors := g.anchors ++ added } ∧
      ∀ a ∈ added,
        (∃ k ∈ g.comps, ∃ b, st.gs.get? k.base = some b ∧ ∃ ba ∈ b.anchors,
          C15.nameMatches a.name ba.name = true ∧ k.t.apply (ba.x, ba.y) = (a.x, a.y)) ∧
        (∀ o ∈ g.anchors, o.name ≠ a.name) := ⟨[], by simp, fun a ha => by cases ha⟩
  rcases hcur with e | ⟨_, e⟩
  · rw [e]; exact hnil
  · by_cases hs : skipCond marks n g = true
    · rw [e]; unfold finalGlyph; rw [if_pos hs]; exact hnil
    · have hs' : skipCond marks n g = false := by simpa using hs
      rw [e, finalGlyph_eq bnd marks st.gs n g hs']
      refine ⟨_, rfl, ?_⟩
      intro a ha
      obtain ⟨en, hen, rfl⟩ := mem_newAnchors.mp ha
      obtain ⟨⟨kb, hkb, ba, hba, hnm, hpos⟩, ⟨an, hsk, hkey⟩⟩ := toAddOf_sound g _ en hen
      constructor
      · rcases splitComps_mem st.gs g.comps _ kb (promoteD_mem n _ kb hkb) with h' | ⟨h1, h2⟩
        · simp at h'
        · exact ⟨kb.1, h1, kb.2, h2, ba, hba, hnm, hpos⟩
      · intro o ho heq
        have : (g.anchors.any fun a => a.name.startsWith an) = true :=
          List.any_eq_true.mpr ⟨o, ho, by rw [heq]; exact hkey.startsWith⟩
        rw [hsk] at this; cases this

/-! ### Target 2: completeness -/

/-- **completeness**: an included composite (not a mark that already has anchors) has, for every anchor `ba` of every
    component base without `_` anchors, either an own anchor whose name starts with `ba.name` (then nothing is added) or a
    propagated anchor named `ba.name` / `ba.name_N`. -/
theorem propagate_complete (marks : List String) (incl : String → Bool) (gs : GlyphSet) (rank : String → Nat)
    (st : FState) (hr : Ranked gs rank) (hn : Named gs) (h : runFilter (propagateStep bnd marks) incl gs = .ok st)
    (n : String) (g g' : Glyph) (hg : gs.get? n = some g) (hg' : st.gs.get? n = some g')
    (hincl : incl n = true) (hs : skipCond marks n g = false)
    (k : Comp) (hk : k ∈ g.comps) (b : Glyph) (hb : st.gs.get? k.base = some b)
    (hm : (b.anchors.any fun a => a.name.startsWith "_") = false) (ba : Anchor) (hba : ba ∈ b.anchors) :
    (g.anchors.any fun o => o.name.startsWith ba.name) = true ∨
    ∃ a ∈ g'.anchors, C15.nameMatches a.name ba.name = true := by
  obtain ⟨hi, _, hvis⟩ := runFilter_propagate_inv marks incl gs rank st hr hn h
  have hc : g.comps ≠ [] := by
    intro e; unfold skipCond at hs; rw [e] at hs; simp at hs
  have hproc := hvis n g hg hincl hc
  obtain ⟨g0, hg0, hfin, _⟩ := hi.done n hproc (fun h => h)
  rw [hg] at hg0
  have := Option.some.inj hg0; subst this
  rw [hg'] at hfin
  have e := Option.some.inj hfin
  rw [finalGlyph_eq bnd marks st.gs n g hs] at e
  by_cases hown : (g.anchors.any fun o => o.name.startsWith ba.name) = true
  · exact Or.inl hown
  · right
    obtain ⟨h1, h2⟩ := splitComps_base st.gs g.comps ⟨[], [], []⟩ k b hk hb hm
    have pm := promoteD_mono (bnd := bnd) n (splitComps st.gs g.comps ⟨[], [], []⟩)
    obtain ⟨en, hen, hkey⟩ := toAddOf_complete g _ ba.name k b ba (pm.1 _ h1) hba rfl (pm.2 _ (h2 ba hba)) (by simpa using hown)
    refine ⟨⟨en.1, en.2.1, en.2.2⟩, ?_, hkey.nameMatches⟩
    rw [e]
    exact mem_append_right _ (mem_newAnchors.mpr ⟨en, hen, rfl⟩)

/-- **a glyph in `processed` is final**: no call of `_propagate_glyph_anchors` (whatever the fuel, marks, glyph) modifies the
    record of a glyph that was already in `processed` when the call started; `processed` only grows, the key list is kept. -/
theorem processed_final (fuel : Nat) (marks : List String) (st st' : FState) (name : String)
    (h : propagate fuel bnd marks st name = .ok st') :
    (∀ n ∈ st.processed, st'.gs.get? n = st.gs.get? n) ∧ (∀ n ∈ st.processed, n ∈ st'.processed) ∧
    name ∈ st'.processed ∧ st'.gs.names = st.gs.names :=
  have f := (propagate_frame fuel).1 bnd marks st name st' h
  ⟨f.1.keep, f.1.proc, f.2, f.1.names⟩

/-! ### Target 3: idempotence -/

/-- the glyphs in `S` are fixed points of the propagation step in `gs1`, and `S` is closed under "base of" -/
def Settled (bnd : Comp → Option (Q × Q)) (marks : List String) (gs1 : GlyphSet) (S : String → Prop) : Prop :=
  ∀ n, S n → ∀ g, gs1.get? n = some g → skipCond marks n g = false →
    (∀ k ∈ g.comps, gs1.get? k.base ≠ none → S k.base) ∧ toAddOf g (promoteD bnd n (splitComps gs1 g.comps ⟨[], [], []⟩)) = []

def IdemOne (fuel : Nat) : Prop :=
  ∀ bnd marks gs1 S st name st', Settled bnd marks gs1 S → S name → st.gs = gs1 →
    propagate fuel bnd marks st name = .ok st' → st'.gs = gs1 ∧ st'.modified = st.modified
def IdemMany (fuel : Nat) : Prop :=
  ∀ bnd marks gs1 S st ks sp r, Settled bnd marks gs1 S → (∀ k ∈ ks, gs1.get? k.base ≠ none → S k.base) → st.gs = gs1 →
    propagateComps fuel bnd marks st ks sp = .ok r → r.1.gs = gs1 ∧ r.1.modified = st.modified ∧ r.2 = splitComps gs1 ks sp

theorem idemMany_of_idemOne (fuel : Nat) (h1 : IdemOne fuel) : IdemMany fuel := by
  intro bnd marks gs1 S st ks
  induction ks generalizing st with
  | nil =>
    intro sp r _ _ hgs h
    rw [propagateComps_nil] at h
    rw [← Except.ok.inj h]
    exact ⟨hgs, rfl, rfl⟩
  | cons k ks ih =>
    intro sp r hS hks hgs h
    have hks' : ∀ k' ∈ ks, gs1.get? k'.base ≠ none → S k'.base := fun k' hk' => hks k' (mem_cons_of_mem _ hk')
    rcases propagateComps_inv fuel marks st k ks sp r h with ⟨hb, h⟩ | ⟨b0, st1, b, hb0, hp, hb1, h⟩
    · obtain ⟨i1, i2, i3⟩ := ih st sp r hS hks' hgs h
      refine ⟨i1, i2, ?_⟩
      unfold splitComps; rw [← hgs, hb]; rw [hgs]; exact i3
    · have hSk : S k.base := hks k mem_cons_self (by rw [← hgs, hb0]; simp)
      obtain ⟨j1, j2⟩ := h1 bnd marks gs1 S st k.base st1 hS hSk hgs hp
      obtain ⟨i1, i2, i3⟩ := ih st1 _ r hS hks' j1 h
      refine ⟨i1, i2.trans j2, ?_⟩
      unfold splitComps; rw [← j1, hb1]; rw [j1]; exact i3

theorem idemOne_succ (fuel : Nat) (h2 : IdemMany fuel) : IdemOne (fuel + 1) := by
  intro bnd marks gs1 S st name st' hS hname hgs h
  rcases propagate_inv fuel marks st name st' h with ⟨_, rfl⟩ | ⟨_, g, hg, hrest⟩
  · exact ⟨hgs, rfl⟩
  · rcases hrest with ⟨_, rfl⟩ | ⟨hs, st1, sp0, sp, hc, hpm, hrest⟩
    · exact ⟨hgs, rfl⟩
    · rw [hgs] at hg
      obtain ⟨s1, s2⟩ := hS name hname g hg hs
      obtain ⟨i1, i2, i3⟩ := h2 bnd marks gs1 S { st with processed := st.processed ++ [name] } g.comps _ (st1, sp0) hS s1 hgs hc
      dsimp only at i1 i2 i3
      rcases hrest with ⟨_, rfl⟩ | ⟨he, _⟩
      · exact ⟨i1, i2⟩
      · rw [← i3, promoteD_of_ok hpm] at s2; exact absurd s2 he

theorem propagate_idem : ∀ fuel, IdemOne fuel ∧ IdemMany fuel := by
  intro fuel
  induction fuel with
  | zero =>
    have h0 : IdemOne 0 := by intro bnd marks gs1 S st name st' _ _ _ h; simp only [propagate] at h; cases h
    exact ⟨h0, idemMany_of_idemOne 0 h0⟩
  | succ n ih =>
    have h1 := idemOne_succ n ih.2
    exact ⟨h1, idemMany_of_idemOne (n + 1) h1⟩

theorem propagateLoop_idem (marks : List String) (incl : String → Bool) (gs1 : GlyphSet) (S : String → Prop)
    (hS : Settled bnd marks gs1 S) (hn : Named gs1)
    (hvis : ∀ n g, gs1.get? n = some g → incl n = true → g.comps ≠ [] → S n) :
    ∀ (order : List String) (st st' : FState), filterLoop (propagateStep bnd marks) incl order st = .ok st' →
      st.gs = gs1 → st'.gs = gs1 ∧ st'.modified = st.modified := by
  intro order
  induction order with
  | nil =>
    intro st st' h hgs
    simp only [filterLoop] at h
    have := Except.ok.inj h; subst this
    exact ⟨hgs, rfl⟩
  | cons n ns ih =>
    intro st st' h hgs
    unfold filterLoop at h
    by_cases hm : st.modified.contains n = true
    · rw [if_pos hm] at h; exact ih st st' h hgs
    · rw [if_neg hm] at h
      cases hget : st.gs.get? n with
      | none => rw [hget] at h; cases h
      | some g =>
        rw [hget] at h
        dsimp only at h
        by_cases hi : incl n = true
        · rw [if_pos hi] at h
          cases hs : propagateStep bnd marks st g with
          | error e => rw [hs] at h; cases h
          | ok res =>
            obtain ⟨st1, r⟩ := res
            rw [hs] at h
            dsimp only at h
            have hget1 : gs1.get? n = some g := by rw [← hgs]; exact hget
            have hname : g.name = n := hn n g hget1
            have key : st1.gs = gs1 ∧ st1.modified = st.modified ∧ r = false := by
              unfold propagateStep at hs
              by_cases he : g.comps.isEmpty = true
              · rw [if_pos he] at hs
                have := Prod.mk.inj (Except.ok.inj hs)
                rw [← this.1, ← this.2]; exact ⟨hgs, rfl, rfl⟩
              · rw [if_neg he] at hs
                cases hp : propagate (st.gs.length + 1) bnd marks st g.name with
                | error e => rw [hp] at hs; cases hs
                | ok st2 =>
                  rw [hp] at hs
                  have := Prod.mk.inj (Except.ok.inj hs)
                  have hSn : S g.name := by rw [hname]; exact hvis n g hget1 hi (by simpa using he)
                  obtain ⟨j1, j2⟩ := (propagate_idem _).1 bnd marks gs1 S st g.name st2 hS hSn hgs hp
                  rw [← this.1, ← this.2]
                  refine ⟨j1, j2, ?_⟩
                  rw [j1, hname, hget1]
                  simp
            obtain ⟨k1, k2, k3⟩ := key
            rw [k3] at h
            simp only [Bool.false_eq_true, if_false] at h
            have := ih st1 st' h k1
            exact ⟨this.1, this.2.trans k2⟩
        · rw [if_neg hi] at h; exact ih st st' h hgs

/-- **idempotence**: a second run of the filter (same marks, same include predicate) on the result of a first run
    changes no glyph and reports no glyph as modified. -/
theorem propagate_idempotent (marks : List String) (incl : String → Bool) (gs : GlyphSet) (rank : String → Nat)
    (st st2 : FState) (hr : Ranked gs rank) (hn : Named gs) (h : runFilter (propagateStep bnd marks) incl gs = .ok st)
    (h2 : runFilter (propagateStep bnd marks) incl st.gs = .ok st2) : st2.gs = st.gs ∧ st2.modified = [] := by
  obtain ⟨hi, _, hvis⟩ := runFilter_propagate_inv marks incl gs rank st hr hn h
  have hnamed : Named st.gs := by
    intro n g hg
    obtain ⟨g0, hg0, hcur⟩ := hi.cur n g hg
    rcases hcur with e | ⟨_, e⟩
    · rw [e]; exact hn n g0 hg0
    · rw [e, (finalGlyph_fields bnd marks st.gs n g0).1]; exact hn n g0 hg0
  have hS : Settled bnd marks st.gs (fun n => n ∈ st.processed) := by
    intro n hproc g hg hs
    obtain ⟨g0, hg0, hfin, hcl, _⟩ := hi.done n hproc (fun h => h)
    rw [hg] at hfin
    have e := Option.some.inj hfin
    have hs0 : skipCond marks n g0 = false := by
      cases h0 : skipCond marks n g0 with
      | false => rfl
      | true =>
        unfold finalGlyph at e; rw [if_pos h0] at e
        rw [e, h0] at hs; cases hs
    rw [finalGlyph_eq bnd marks st.gs n g0 hs0] at e
    have hcomps : g.comps = g0.comps := by rw [e]
    constructor
    · intro k hk hne
      rw [hcomps] at hk
      exact (hcl hs0 k hk hne).1
    · rw [hcomps]
      apply toAddOf_idem g0 g _ (promoteD_covered n _ (splitComps_covered st.gs g0.comps _ covered_empty))
      rw [e]
  have hvis' : ∀ n g, st.gs.get? n = some g → incl n = true → g.comps ≠ [] → n ∈ st.processed := by
    intro n g hg hincl hc
    obtain ⟨g0, hg0, hcur⟩ := hi.cur n g hg
    have hcomps : g.comps = g0.comps := by
      rcases hcur with e | ⟨_, e⟩
      · rw [e]
      · rw [e, (finalGlyph_fields bnd marks st.gs n g0).2.1]
    exact hvis n g0 hg0 hincl (by rw [← hcomps]; exact hc)
  unfold runFilter at h2
  cases ho : orderedGlyphs st.gs with
  | error e => rw [ho] at h2; cases h2
  | ok order =>
    rw [ho] at h2
    exact propagateLoop_idem marks incl st.gs _ hS hnamed hvis' order ⟨st.gs, [], []⟩ st2 h2 rfl


/-- Python's `min`: the result is the FIRST element with the minimal key -/
theorem firstMin_spec : ∀ (keys : List Q) (i : Nat) (m : Q), firstMin keys = some (i, m) →
    keys[i]? = some m ∧ (∀ (j : Nat) d, keys[j]? = some d → m ≤ d) ∧ (∀ (j : Nat) d, j < i → keys[j]? = some d → m < d) := by
  intro keys
  induction keys with
  | nil => intro i m h; simp only [firstMin] at h; cases h
  | cons d ds ih =>
    intro i m h
    unfold firstMin at h
    cases hr : firstMin ds with
    | none =>
      rw [hr] at h
      have e := Option.some.inj h
      obtain ⟨e1, e2⟩ := Prod.mk.inj e
      subst e1; subst e2
      have hds : ds = [] := by
        cases ds with
        | nil => rfl
        | cons x xs =>
          unfold firstMin at hr
          cases h2 : firstMin xs with
          | none => rw [h2] at hr; cases hr
          | some im => rw [h2] at hr; dsimp only at hr; split at hr <;> cases hr
      subst hds
      refine ⟨rfl, ?_, ?_⟩
      · intro j d' hj
        cases j with
        | zero => simp only [getElem?_cons_zero] at hj; rw [← Option.some.inj hj]; exact Rat.le_refl
        | succ j => simp at hj
      · intro j d' hj; omega
    | some im =>
      obtain ⟨i0, m0⟩ := im
      rw [hr] at h
      dsimp only at h
      obtain ⟨a1, a2, a3⟩ := ih i0 m0 hr
      by_cases hlt : m0 < d
      · rw [if_pos hlt] at h
        have e := Option.some.inj h
        obtain ⟨e1, e2⟩ := Prod.mk.inj e
        subst e1; subst e2
        refine ⟨by simpa using a1, ?_, ?_⟩
        · intro j d' hj
          cases j with
          | zero => simp only [getElem?_cons_zero] at hj; rw [← Option.some.inj hj]; exact Rat.le_of_lt hlt
          | succ j => exact a2 j d' (by simpa using hj)
        · intro j d' hji hj
          cases j with
          | zero => simp only [getElem?_cons_zero] at hj; rw [← Option.some.inj hj]; exact hlt
          | succ j => exact a3 j d' (by omega) (by simpa using hj)
      · rw [if_neg hlt] at h
        have e := Option.some.inj h
        obtain ⟨e1, e2⟩ := Prod.mk.inj e
        subst e1; subst e2
        have hle : d ≤ m0 := Rat.not_lt.mp hlt
        refine ⟨rfl, ?_, ?_⟩
        · intro j d' hj
          cases j with
          | zero => simp only [getElem?_cons_zero] at hj; rw [← Option.some.inj hj]; exact Rat.le_refl
          | succ j => exact Rat.le_trans hle (a2 j d' (by simpa using hj))
        · intro j d' hj; omega

theorem firstMin_isSome : ∀ (keys : List Q), keys ≠ [] → ∃ r, firstMin keys = some r := by
  intro keys h
  cases keys with
  | nil => exact absurd rfl h
  | cons d ds =>
    unfold firstMin
    cases firstMin ds with
    | none => exact ⟨_, rfl⟩
    | some im => dsimp only; split <;> exact ⟨_, rfl⟩

theorem distKeys_spec : ∀ (ms : List (Comp × Glyph)) (keys : List Q), distKeys bnd ms = some keys →
    keys.length = ms.length ∧
    ∀ (j : Nat) k b, ms[j]? = some (k, b) → ∃ p, bnd k = some p ∧ keys[j]? = some (dist2 p) := by
  intro ms
  induction ms with
  | nil =>
    intro keys h
    simp only [distKeys] at h
    rw [← Option.some.inj h]
    exact ⟨rfl, fun j k b hj => by simp at hj⟩
  | cons kb ms ih =>
    intro keys h
    obtain ⟨k0, b0⟩ := kb
    unfold distKeys at h
    cases hb : bnd k0 with
    | none => rw [hb] at h; cases h
    | some p =>
      cases hr : distKeys bnd ms with
      | none => rw [hb, hr] at h; cases h
      | some r =>
        rw [hb, hr] at h
        dsimp only at h
        rw [← Option.some.inj h]
        obtain ⟨i1, i2⟩ := ih r hr
        refine ⟨by simp [i1], ?_⟩
        intro j k b hj
        cases j with
        | zero =>
          simp only [getElem?_cons_zero] at hj
          obtain ⟨e1, _⟩ := Prod.mk.inj (Option.some.inj hj)
          subst e1
          exact ⟨p, hb, rfl⟩
        | succ j =>
          obtain ⟨p', h1, h2⟩ := i2 j k b (by simpa using hj)
          exact ⟨p', h1, by simpa using h2⟩

theorem distKeys_none : ∀ (ms : List (Comp × Glyph)), distKeys bnd ms = none ↔ ∃ kb ∈ ms, bnd kb.1 = none := by
  intro ms
  induction ms with
  | nil => simp [distKeys]
  | cons kb ms ih =>
    obtain ⟨k0, b0⟩ := kb
    unfold distKeys
    cases hb : bnd k0 with
    | none => simp [hb]
    | some p =>
      cases hr : distKeys bnd ms with
      | none =>
        simp only [true_iff]
        obtain ⟨kb, hkb, h⟩ := ih.mp hr
        exact ⟨kb, mem_cons_of_mem _ hkb, h⟩
      | some r =>
        simp only [reduceCtorEq, false_iff]
        rintro ⟨kb, hkb, h⟩
        rcases mem_cons.mp hkb with e | hkb
        · rw [e] at h; rw [hb] at h; cases h
        · have := ih.mpr ⟨kb, hkb, h⟩
          rw [hr] at this; cases this

/-- the condition of the promotion branch -/
def PromoCond (name : String) (sp0 : PSplit) : Prop :=
  sp0.markComps ≠ [] ∧ sp0.baseComps = [] ∧ isLigatureMark name = true

theorem promoCond_iff (name : String) (sp0 : PSplit) :
    (!sp0.markComps.isEmpty && sp0.baseComps.isEmpty && isLigatureMark name) = true ↔ PromoCond name sp0 := by
  unfold PromoCond
  simp only [Bool.and_eq_true, Bool.not_eq_true', List.isEmpty_iff, ne_eq]
  constructor
  · rintro ⟨⟨h1, h2⟩, h3⟩
    refine ⟨?_, h2, h3⟩
    intro e; rw [e] at h1; cases h1
  · rintro ⟨h1, h2, h3⟩
    refine ⟨⟨?_, h2⟩, h3⟩
    cases h : sp0.markComps with
    | nil => exact absurd h h1
    | cons a l => rfl

/-- outside the branch nothing happens -/
theorem promoteSplit_unchanged (name : String) (sp0 : PSplit) (h : ¬ PromoCond name sp0) :
    promoteSplit bnd name sp0 = .ok sp0 := by
  unfold promoteSplit
  rw [if_neg (fun hc => h ((promoCond_iff name sp0).mp hc))]

/-- **the promotion**: in the branch, a successful step moves exactly ONE mark component to the (empty) base list — the
    FIRST one, in component order, whose bounds' lower-left corner has minimal squared distance to the origin; all other
    components stay mark components, in order; the collected names become those of the promoted base. -/
theorem promoteSplit_promotes (name : String) (sp0 sp : PSplit) (hc : PromoCond name sp0)
    (h : promoteSplit bnd name sp0 = .ok sp) :
    ∃ i k b p, sp0.markComps[i]? = some (k, b) ∧ bnd k = some p ∧
      sp.baseComps = [(k, b)] ∧ sp.markComps = sp0.markComps.eraseIdx i ∧
      sp.markComps.length + 1 = sp0.markComps.length ∧
      sp.names = b.anchors.foldl (fun l a => addMod l a.name) sp0.names ∧
      ∀ (j : Nat) k' b', sp0.markComps[j]? = some (k', b') →
        ∃ p', bnd k' = some p' ∧ dist2 p ≤ dist2 p' ∧ (j < i → dist2 p < dist2 p') := by
  unfold promoteSplit at h
  rw [if_pos ((promoCond_iff name sp0).mpr hc)] at h
  cases hk : distKeys bnd sp0.markComps with
  | none => rw [hk] at h; cases h
  | some keys =>
    rw [hk] at h
    dsimp only at h
    obtain ⟨hlen, hkeys⟩ := distKeys_spec sp0.markComps keys hk
    cases hf : firstMin keys with
    | none => rw [hf] at h; cases h
    | some im =>
      obtain ⟨i, m⟩ := im
      rw [hf] at h
      dsimp only at h
      obtain ⟨f1, f2, f3⟩ := firstMin_spec keys i m hf
      cases hg : sp0.markComps[i]? with
      | none => rw [hg] at h; cases h
      | some kb =>
        obtain ⟨k, b⟩ := kb
        rw [hg] at h
        dsimp only at h
        have e := (Except.ok.inj h).symm
        obtain ⟨p, hp, hkp⟩ := hkeys i k b hg
        rw [f1] at hkp
        have hm : m = dist2 p := Option.some.inj hkp
        have hi : i < sp0.markComps.length := (List.getElem?_eq_some_iff.mp hg).1
        refine ⟨i, k, b, p, hg, hp, by rw [e, hc.2.1]; rfl, by rw [e], ?_, by rw [e], ?_⟩
        · rw [e]; dsimp only; rw [List.length_eraseIdx_of_lt hi]; omega
        · intro j k' b' hj
          obtain ⟨p', hp', hkp'⟩ := hkeys j k' b' hj
          exact ⟨p', hp', hm ▸ f2 j _ hkp', fun hji => hm ▸ f3 j _ hji hkp'⟩

/-- in the branch the step raises (`Exception`) exactly when some mark component has no bounds -/
theorem promoteSplit_raises (name : String) (sp0 : PSplit) (hc : PromoCond name sp0) :
    (∃ kb ∈ sp0.markComps, bnd kb.1 = none) ↔ promoteSplit bnd name sp0 = .error .exception := by
  unfold promoteSplit
  rw [if_pos ((promoCond_iff name sp0).mpr hc)]
  cases hk : distKeys bnd sp0.markComps with
  | none => simp only [iff_true]; exact (distKeys_none _).mp hk
  | some keys =>
    dsimp only
    have hno : ¬ ∃ kb ∈ sp0.markComps, bnd kb.1 = none := by
      intro hex; have := (distKeys_none _).mpr hex; rw [hk] at this; cases this
    obtain ⟨hlen, hkeys⟩ := distKeys_spec sp0.markComps keys hk
    have hne : keys ≠ [] := by
      intro e; rw [e] at hlen
      exact hc.1 (List.length_eq_zero_iff.mp hlen.symm)
    obtain ⟨⟨i, m⟩, hf⟩ := firstMin_isSome keys hne
    rw [hf]
    dsimp only
    obtain ⟨f1, _, _⟩ := firstMin_spec keys i m hf
    have hi : i < sp0.markComps.length := by rw [← hlen]; exact (List.getElem?_eq_some_iff.mp f1).1
    rw [List.getElem?_eq_getElem hi]
    simp only [hno, false_iff]
    intro h; cases h


/-! ### the promotion branch at run level -/

theorem splitStep_marks_mono (sp : PSplit) (k : Comp) (b : Glyph) :
    ∀ kb ∈ sp.markComps, kb ∈ (splitStep sp k b).markComps := by
  intro kb h
  unfold splitStep
  split
  · exact mem_append_left _ h
  · exact h

theorem splitComps_marks_mono (gs : GlyphSet) : ∀ (ks : List Comp) (sp : PSplit),
    ∀ kb ∈ sp.markComps, kb ∈ (splitComps gs ks sp).markComps := by
  intro ks
  induction ks with
  | nil => intro sp kb h; exact h
  | cons k ks ih =>
    intro sp kb h
    unfold splitComps
    cases gs.get? k.base with
    | none => exact ih sp kb h
    | some b => exact ih _ kb (splitStep_marks_mono sp k b kb h)

/-- a component whose base record has a `_` anchor is recorded as a mark component -/
theorem splitComps_mark (gs : GlyphSet) : ∀ (ks : List Comp) (sp : PSplit) (k : Comp) (b : Glyph),
    k ∈ ks → gs.get? k.base = some b → (b.anchors.any fun a => a.name.startsWith "_") = true →
      (k, b) ∈ (splitComps gs ks sp).markComps := by
  intro ks
  induction ks with
  | nil => intro sp k b h; cases h
  | cons k0 ks ih =>
    intro sp k b hk hb hm
    by_cases e : k = k0
    · subst e
      unfold splitComps
      rw [hb]
      dsimp only
      apply splitComps_marks_mono
      unfold splitStep; rw [if_pos hm]; simp
    · have hk' : k ∈ ks := by
        rcases mem_cons.mp hk with h | h
        · exact absurd h e
        · exact h
      unfold splitComps
      cases gs.get? k0.base with
      | none => exact ih sp k b hk' hb hm
      | some b0 => exact ih _ k b hk' hb hm

/-- components whose bases are all marks leave the base list as it was -/
theorem splitComps_allmarks (gs : GlyphSet) : ∀ (ks : List Comp) (sp : PSplit),
    (∀ k ∈ ks, ∀ b, gs.get? k.base = some b → (b.anchors.any fun a => a.name.startsWith "_") = true) →
      (splitComps gs ks sp).baseComps = sp.baseComps := by
  intro ks
  induction ks with
  | nil => intro sp _; rfl
  | cons k ks ih =>
    intro sp h
    unfold splitComps
    cases hb : gs.get? k.base with
    | none => exact ih sp (fun k' hk' => h k' (mem_cons_of_mem _ hk'))
    | some b =>
      dsimp only
      rw [ih _ (fun k' hk' => h k' (mem_cons_of_mem _ hk'))]
      unfold splitStep
      rw [if_pos (h k mem_cons_self b hb)]

theorem adjustAnchors_keys (K : String → Prop) (k : Comp) (b : Glyph) (d : AnchorData) (hd : ∀ e ∈ d, K e.1) :
    ∀ e ∈ adjustAnchors d k b, K e.1 := by
  unfold adjustAnchors
  generalize b.anchors.any = anyb
  have key : ∀ (l : List Anchor) (d : AnchorData), (∀ e ∈ d, K e.1) → ∀ e ∈ l.foldl (fun d a =>
        if (d.any (fun e => e.1 == a.name) && anyb (fun a' => a'.name == "_" ++ a.name)) = true
        then adSet d a.name (k.t.apply (a.x, a.y)) else d) d, K e.1 := by
    intro l
    induction l with
    | nil => intro d hd; exact hd
    | cons a l ih =>
      intro d hd
      rw [foldl_cons]
      apply ih
      by_cases hc : (d.any (fun e => e.1 == a.name) && anyb (fun a' => a'.name == "_" ++ a.name)) = true
      · rw [if_pos hc]
        rw [Bool.and_eq_true] at hc
        obtain ⟨e0, he0, hk0⟩ := List.any_eq_true.mp hc.1
        have hk0' : e0.1 = a.name := by simpa using hk0
        exact adSet_forall (fun e => K e.1) d _ _ hd (hk0' ▸ hd e0 he0)
      · rw [if_neg hc]; exact hd
  exact key b.anchors d hd

/-- every key of `to_add` is `an` or `an_N` for a collected name `an` -/
theorem toAddOf_keys (g : Glyph) (sp : PSplit) : ∀ e ∈ toAddOf g sp, ∃ an ∈ sp.names, KeyOf e.1 an := by
  unfold toAddOf
  have h1 : ∀ (l : List String) (d : AnchorData), (∀ an ∈ l, an ∈ sp.names) → (∀ e ∈ d, ∃ an ∈ sp.names, KeyOf e.1 an) →
      ∀ e ∈ namesFold g sp.baseComps l d, ∃ an ∈ sp.names, KeyOf e.1 an := by
    intro l
    induction l with
    | nil => intro d _ hd; exact hd
    | cons an l ih =>
      intro d hl hd
      unfold namesFold
      rw [foldl_cons]
      by_cases hs : (g.anchors.any fun a => a.name.startsWith an) = true
      · rw [if_pos hs]; exact ih d (fun x hx => hl x (mem_cons_of_mem _ hx)) hd
      · rw [if_neg hs]
        apply ih _ (fun x hx => hl x (mem_cons_of_mem _ hx))
        apply getAnchorData_forall (fun e => ∃ an ∈ sp.names, KeyOf e.1 an) d sp.baseComps an hd
        intro k b a _ _ _ key hkey
        exact ⟨an, hl an mem_cons_self, hkey⟩
  have h2 : ∀ (ms : List (Comp × Glyph)) (d : AnchorData), (∀ e ∈ d, ∃ an ∈ sp.names, KeyOf e.1 an) →
      ∀ e ∈ ms.foldl (fun d (k, b) => adjustAnchors d k b) d, ∃ an ∈ sp.names, KeyOf e.1 an := by
    intro ms
    induction ms with
    | nil => intro d hd; exact hd
    | cons m ms ih =>
      intro d hd
      obtain ⟨k, b⟩ := m
      rw [foldl_cons]
      exact ih _ (adjustAnchors_keys (fun key => ∃ an ∈ sp.names, KeyOf key an) k b d hd)
  apply h2
  apply h1 _ _ (fun an han => (sortStr_perm sp.names).mem_iff.mp han)
  intro e he; cases he

/-- **the promotion at run level**: after the filter, an included composite with a ligature name whose existing components
    are all mark glyphs (and that was not skipped) got the anchors of the component `k` whose bounds' corner is closest to
    the origin: `k` has bounds, no component with an existing base is closer, every anchor of `k`'s base is there (own, or
    propagated under its possibly numbered name), and every added anchor bears the name of an anchor of `k`'s base. -/
theorem propagate_promoted (marks : List String) (incl : String → Bool) (gs : GlyphSet) (rank : String → Nat)
    (st : FState) (hr : Ranked gs rank) (hn : Named gs) (h : runFilter (propagateStep bnd marks) incl gs = .ok st)
    (n : String) (g g' : Glyph) (hg : gs.get? n = some g) (hg' : st.gs.get? n = some g')
    (hincl : incl n = true) (hs : skipCond marks n g = false) (hlig : isLigatureMark n = true)
    (hex : ∃ k ∈ g.comps, st.gs.get? k.base ≠ none)
    (hmarks : ∀ k ∈ g.comps, ∀ b, st.gs.get? k.base = some b → (b.anchors.any fun a => a.name.startsWith "_") = true) :
    ∃ k ∈ g.comps, ∃ b p, st.gs.get? k.base = some b ∧ bnd k = some p ∧
      (∀ k' ∈ g.comps, ∀ b', st.gs.get? k'.base = some b' → ∃ p', bnd k' = some p' ∧ dist2 p ≤ dist2 p') ∧
      (∀ ba ∈ b.anchors, (g.anchors.any fun o => o.name.startsWith ba.name) = true ∨
        ∃ a ∈ g'.anchors, C15.nameMatches a.name ba.name = true) ∧
      ∃ added, g'.anchors = g.anchors ++ added ∧ ∀ a ∈ added, ∃ ba ∈ b.anchors, C15.nameMatches a.name ba.name = true := by
  obtain ⟨hi, _, hvis⟩ := runFilter_propagate_inv marks incl gs rank st hr hn h
  have hc : g.comps ≠ [] := by
    intro e; unfold skipCond at hs; rw [e] at hs; simp at hs
  have hproc := hvis n g hg hincl hc
  obtain ⟨g0, hg0, hfin, _, hok⟩ := hi.done n hproc (fun h => h)
  rw [hg] at hg0
  have := Option.some.inj hg0; subst this
  rw [hg'] at hfin
  have e := Option.some.inj hfin
  rw [finalGlyph_eq bnd marks st.gs n g hs] at e
  obtain ⟨sp, hpm⟩ := hok hs
  rw [promoteD_of_ok hpm] at e
  -- the split before the promotion: no base components, the existing components as marks
  have hb0 : (splitComps st.gs g.comps ⟨[], [], []⟩).baseComps = [] := splitComps_allmarks st.gs g.comps _ hmarks
  have hm0 : (splitComps st.gs g.comps ⟨[], [], []⟩).markComps ≠ [] := by
    obtain ⟨k, hk, hne⟩ := hex
    cases hb : st.gs.get? k.base with
    | none => exact absurd hb hne
    | some b =>
      have := splitComps_mark st.gs g.comps ⟨[], [], []⟩ k b hk hb (hmarks k hk b hb)
      intro e0; rw [e0] at this; cases this
  have hn0 : (splitComps st.gs g.comps ⟨[], [], []⟩).names = [] := by
    cases hnm : (splitComps st.gs g.comps ⟨[], [], []⟩).names with
    | nil => rfl
    | cons x xs =>
      obtain ⟨kb, hkb, _⟩ := splitComps_covered st.gs g.comps _ covered_empty x (by rw [hnm]; exact mem_cons_self)
      rw [hb0] at hkb; cases hkb
  obtain ⟨i, k, b, p, hik, hp, hbase, _, _, hnames, hmin⟩ :=
    promoteSplit_promotes n _ sp ⟨hm0, hb0, hlig⟩ hpm
  have hkmem : (k, b) ∈ (splitComps st.gs g.comps ⟨[], [], []⟩).baseComps ++ (splitComps st.gs g.comps ⟨[], [], []⟩).markComps :=
    mem_append_right _ (List.mem_of_getElem? hik)
  have hk : k ∈ g.comps ∧ st.gs.get? k.base = some b := by
    rcases splitComps_mem st.gs g.comps _ (k, b) hkmem with h' | h'
    · simp at h'
    · exact h'
  rw [hn0] at hnames
  refine ⟨k, hk.1, b, p, hk.2, hp, ?_, ?_, ?_⟩
  · intro k' hk' b' hb'
    have hmem := splitComps_mark st.gs g.comps ⟨[], [], []⟩ k' b' hk' hb' (hmarks k' hk' b' hb')
    obtain ⟨j, hj⟩ := List.mem_iff_getElem?.mp hmem
    obtain ⟨p', h1, h2, _⟩ := hmin j k' b' hj
    exact ⟨p', h1, h2⟩
  · intro ba hba
    by_cases hown : (g.anchors.any fun o => o.name.startsWith ba.name) = true
    · exact Or.inl hown
    · right
      have hin : ba.name ∈ sp.names := by rw [hnames]; exact (mem_foldl_addMod b.anchors []).2.1 ba hba
      obtain ⟨en, hen, hkey⟩ := toAddOf_complete g sp ba.name k b ba (by rw [hbase]; simp) hba rfl hin (by simpa using hown)
      refine ⟨⟨en.1, en.2.1, en.2.2⟩, ?_, hkey.nameMatches⟩
      rw [e]
      exact mem_append_right _ (mem_newAnchors.mpr ⟨en, hen, rfl⟩)
  · refine ⟨newAnchors g sp, by rw [e], ?_⟩
    intro a ha
    obtain ⟨en, hen, rfl⟩ := mem_newAnchors.mp ha
    obtain ⟨an, han, hkey⟩ := toAddOf_keys g sp en hen
    rw [hnames] at han
    rcases (mem_foldl_addMod b.anchors []).2.2 an han with h' | ⟨ba, hba, e'⟩
    · cases h'
    · exact ⟨ba, hba, by rw [e']; exact hkey.nameMatches⟩

theorem minQ_spec : ∀ (l : List Q) (m : Q), minQ m l ≤ m ∧ (∀ x ∈ l, minQ m l ≤ x) ∧ (minQ m l = m ∨ minQ m l ∈ l) := by
  intro l
  induction l with
  | nil =>
    intro m
    refine ⟨Rat.le_refl, ?_, Or.inl rfl⟩
    intro x hx; cases hx
  | cons x xs ih =>
    intro m
    unfold minQ
    by_cases h : x < m
    · rw [if_pos h]
      obtain ⟨a, b, c⟩ := ih x
      refine ⟨Rat.le_trans a (Rat.le_of_lt h), ?_, ?_⟩
      · intro y hy
        rcases mem_cons.mp hy with e | hy
        · rw [e]; exact a
        · exact b y hy
      · rcases c with c | c
        · right; rw [c]; exact mem_cons_self
        · right; exact mem_cons_of_mem _ c
    · rw [if_neg h]
      obtain ⟨a, b, c⟩ := ih m
      refine ⟨a, ?_, ?_⟩
      · intro y hy
        rcases mem_cons.mp hy with e | hy
        · rw [e]; exact Rat.le_trans a (Rat.not_lt.mp h)
        · exact b y hy
      · rcases c with c | c
        · exact Or.inl c
        · right; exact mem_cons_of_mem _ c

/-- `lowerLeft` is the lower-left corner of the bounding box of the points: below/left of every point, and both
    coordinates are attained -/
theorem lowerLeft_spec (pts : List (Q × Q)) (c : Q × Q) (h : lowerLeft pts = some c) :
    (∀ p ∈ pts, c.1 ≤ p.1 ∧ c.2 ≤ p.2) ∧ (∃ p ∈ pts, p.1 = c.1) ∧ (∃ p ∈ pts, p.2 = c.2) := by
  cases pts with
  | nil => simp only [lowerLeft] at h; cases h
  | cons p ps =>
    simp only [lowerLeft] at h
    have e := (Option.some.inj h).symm
    obtain ⟨a1, b1, c1⟩ := minQ_spec (ps.map (·.1)) p.1
    obtain ⟨a2, b2, c2⟩ := minQ_spec (ps.map (·.2)) p.2
    rw [e]
    refine ⟨?_, ?_, ?_⟩
    · intro q hq
      rcases mem_cons.mp hq with e' | hq
      · rw [e']; exact ⟨a1, a2⟩
      · exact ⟨b1 _ (mem_map_of_mem (f := (·.1)) hq), b2 _ (mem_map_of_mem (f := (·.2)) hq)⟩
    · rcases c1 with c1 | c1
      · exact ⟨p, mem_cons_self, c1.symm⟩
      · obtain ⟨q, hq, e'⟩ := mem_map.mp c1
        exact ⟨q, mem_cons_of_mem _ hq, e'⟩
    · rcases c2 with c2 | c2
      · exact ⟨p, mem_cons_self, c2.symm⟩
      · obtain ⟨q, hq, e'⟩ := mem_map.mp c2
        exact ⟨q, mem_cons_of_mem _ hq, e'⟩

theorem lowerLeft_none (pts : List (Q × Q)) : lowerLeft pts = none ↔ pts = [] := by
  cases pts <;> simp [lowerLeft]

end Ufo2ft
