import Ufo2ftModel.Spec.C09Hyp
import Ufo2ftModel.Props.C09Names
import Ufo2ftModel.Props.C09Reach
import Ufo2ftModel.Props.C09Sign
import Ufo2ftModel.Props.C09Two
import Ufo2ftModel.Props.C09Inst
set_option linter.unusedSectionVars false
/-!
C09, pipeline level: the main theorems.

* `C09_sparse`   — the model's full interpolatable pipeline (TrueType or CFF, with or without Instantiator) satisfies
                   `holdsSparse`: what a (sparse) master ends up containing.
-/
namespace Ufo2ft.C09
open Ufo2ft List

/-! ### the height invariant: nothing but ufo2ft's own stand-ins has the sentinel advance -/

def HOk (n : String) (g : Glyph) : Prop := g.name = n ∧ g.height < sentinel

theorem decomposeGlyph_height (gs : GlyphSet) (nested : Bool) (incl : Option (List String)) (g g' : Glyph)
    (h : decomposeGlyph gs nested incl g = .ok g') : g'.height = g.height := by
  unfold decomposeGlyph at h
  cases hd : addComps (gs.length + 1) gs true nested incl Affine.id g.comps with
  | error e => rw [hd] at h; cases h
  | ok d => rw [hd] at h; have := Except.ok.inj h; subst this; rfl

theorem lerp_lt (a b c s : Q) (ha : a < c) (hb : b < c) (h0 : 0 < s) (h1 : s < 1) : lerp a b s < c := by
  unfold lerp
  have e : a + s * (b - a) = (1 - s) * a + s * b := by grind
  rw [e]
  have t1 : (1 - s) * a < (1 - s) * c := Rat.mul_lt_mul_of_pos_left ha (by grind)
  have t2 : s * b < s * c := Rat.mul_lt_mul_of_pos_left hb h0
  grind

theorem lerpGlyph_height (s : Q) (a b g : Glyph) (h : lerpGlyph s a b = some g) : g.height = lerp a.height b.height s := by
  unfold lerpGlyph at h
  split at h
  · simp only [Option.some.injEq] at h; rw [← h]
  · cases h

theorem hOk_GInv : GInv HOk where
  name := fun n g h => h.1
  lerp := by
    intro n s a b g h0 h1 ha hb hl
    exact ⟨by rw [lerpGlyph_name s a b g hl]; exact ha.1,
      by rw [lerpGlyph_height s a b g hl]; exact lerp_lt _ _ _ _ ha.2 hb.2 h0 h1⟩
  decomp := by
    intro layer nested incl n g g' _ hg hd
    exact ⟨by rw [decomposeGlyph_name layer nested incl g g' hd]; exact hg.1,
      by rw [decomposeGlyph_height layer nested incl g g' hd]; exact hg.2⟩
  flat := fun layer n g cs f _ hg _ => hg
  rev := fun n g h => h

theorem not_isSentinel_of_hOk (n : String) (g : Glyph) (h : HOk n g) : isSentinel g = false := by
  have : ¬ g.height = sentinel := by intro e; have := h.2; rw [e] at this; exact absurd this (by decide)
  simp [isSentinel, this]

theorem isSentinel_emptyGlyph (n : String) : isSentinel (emptyGlyph n) = true := by
  simp [isSentinel, glyphEmpty, emptyGlyph]

/-! ### transferring a glyph predicate across cu2qu (which keeps the skeleton) -/

theorem skel_setQ (G : String → Glyph → Prop)
    (hG : ∀ n g g', g.name = g'.name → g.height = g'.height → g.comps = g'.comps → G n g → G n g') :
    ∀ (m1 m2 : GlyphSet), skel m1 = skel m2 → SetQ G m2 → SetQ G m1 := by
  intro m1
  induction m1 with
  | nil => intro m2 _ _ e he; cases he
  | cons a m1 ih =>
    intro m2 hs h2
    cases m2 with
    | nil => simp [skel] at hs
    | cons b m2 =>
      simp only [skel, List.map_cons, List.cons.injEq, Prod.mk.injEq] at hs
      obtain ⟨⟨h1, h2n, _, h4, h5, _⟩, hrest⟩ := hs
      intro e he
      rcases List.mem_cons.mp he with rfl | he
      · rw [h1]
        exact hG b.1 b.2 e.2 h2n.symm h4.symm h5.symm (h2 b List.mem_cons_self)
      · exact ih m2 hrest (fun x hx => h2 x (List.mem_cons_of_mem _ hx)) e he

theorem skel_mastersQ (G : String → Glyph → Prop)
    (hG : ∀ n g g', g.name = g'.name → g.height = g'.height → g.comps = g'.comps → G n g → G n g') :
    ∀ (q pre : Masters), q.map skel = pre.map skel → MastersQ G pre → MastersQ G q := by
  intro q
  induction q with
  | nil => intro pre _ _ m hm; cases hm
  | cons a q ih =>
    intro pre hs hp
    cases pre with
    | nil => simp at hs
    | cons b pre =>
      simp only [List.map_cons, List.cons.injEq] at hs
      intro m hm
      rcases List.mem_cons.mp hm with rfl | hm
      · exact skel_setQ G hG m b hs.1 (hp b List.mem_cons_self)
      · exact ih pre hs.2 (fun x hx => hp x (List.mem_cons_of_mem _ hx)) m hm

theorem skel_names (m1 m2 : GlyphSet) (h : skel m1 = skel m2) : m1.names = m2.names := by
  have : (skel m1).map (·.1) = (skel m2).map (·.1) := by rw [h]
  simpa [skel, GlyphSet.names, List.map_map, Function.comp_def] using this

theorem skel_namesOf : ∀ (q pre : Masters), q.map skel = pre.map skel → namesOf q = namesOf pre := by
  intro q
  induction q with
  | nil => intro pre h; cases pre with | nil => rfl | cons b pre => simp at h
  | cons a q ih =>
    intro pre h
    cases pre with
    | nil => simp at h
    | cons b pre =>
      simp only [List.map_cons, List.cons.injEq] at h
      simp only [namesOf, List.map_cons]
      rw [skel_names a b h.1]
      have := ih pre h.2
      simp only [namesOf] at this
      rw [this]

theorem cu2quKeeps_eq (pre q : Masters) (h : cu2quKeeps pre q = true) : q.map skel = pre.map skel := by
  simpa [cu2quKeeps] using h

/-! ### the state predicate carried through the pipeline for `C09_sparse` -/

section sparse
variable (src : Masters) (canAdd : Bool)

def SP (K : List String) (s : St) : Prop := RN src (Refp src) canAdd K s ∧ StQ HOk s

theorem refp_trans : ∀ a b c, Refp src a b → Refp src b c → Refp src a c := fun _ _ _ h1 h2 => Refp.trans h1 h2

theorem src_refOk (hwf : wfSrc src = true) : MastersQ (RefOk (Refp src)) src := by
  intro m hm e he
  simp only [wfSrc, List.all_eq_true, Bool.and_eq_true, decide_eq_true_eq] at hwf
  obtain ⟨hnd, hnames⟩ := hwf m hm
  refine ⟨by simpa using hnames e he, ?_⟩
  intro k hk
  refine Refp.one ⟨e.2, ?_, k, hk, rfl⟩
  simp only [glyphsNamed, List.mem_filterMap]
  exact ⟨m, hm, get?_of_mem_nodup m e.1 e.2 hnd he⟩

theorem src_hOk (hwf : wfSrc src = true) (hh : heightsBelow src = true) : MastersQ HOk src := by
  intro m hm e he
  simp only [wfSrc, List.all_eq_true, Bool.and_eq_true, decide_eq_true_eq] at hwf
  simp only [heightsBelow, List.all_eq_true, decide_eq_true_eq] at hh
  exact ⟨by simpa using (hwf m hm).2 e he, hh m hm e he⟩

theorem SP_init (orders : List (List String)) (hwf : wfSrc src = true) (hh : heightsBelow src = true) :
    SP src canAdd [] ⟨src, none, [], orders⟩ := by
  refine ⟨⟨⟨src_refOk src hwf, src_refOk src hwf, fun e he => by cases he⟩, ?_⟩,
    ⟨src_hOk src hwf hh, src_hOk src hwf hh, fun e he => by cases he⟩⟩
  refine ⟨by simp [namesOf], ?_⟩
  intro i
  rw [namesOf_getD]
  exact ⟨fun n hn => ⟨Or.inl hn, by simp⟩, fun n hn _ => hn⟩

theorem SP_curves (cfg : Cfg) (K : List String) (s s' : St) (b : Option Masters) (hs : SP src canAdd K s)
    (hcu : cu2quOk cfg b = true) (h : curvesStep cfg s = .ok (b, s')) : SP src canAdd K s' := by
  have hq : ∀ q, cfg.cu2qu = some q → cfg.convertCubics = true → q.map skel = s.ms.map skel := by
    intro q hq hc
    have hb := curvesStep_before cfg s s' b h hc
    rw [hb] at hcu
    simp only [cu2quOk, hq] at hcu
    exact cu2quKeeps_eq _ _ hcu
  constructor
  · apply curvesStep_RN src (Refp src) (refp_trans src) canAdd K cfg s s' b hs.1 _ h
    intro q hc hqq hm
    exact ⟨skel_mastersQ _ (fun n g g' h1 _ h3 hg => ⟨by rw [← h1]; exact hg.1, by rw [← h3]; exact hg.2⟩) q s.ms (hq q hqq hc) hm,
      skel_namesOf q s.ms (hq q hqq hc)⟩
  · apply curvesStep_Q hOk_GInv cfg s s' b hs.2 _ h
    intro q hc hqq hm
    exact skel_mastersQ _ (fun n g g' h1 h2 _ hg => ⟨by rw [← h1]; exact hg.1, by rw [← h2]; exact hg.2⟩) q s.ms (hq q hqq hc) hm


/-- the pre-processors keep the invariant (TrueType and CFF) -/
theorem SP_preprocess (cfg : Cfg) (o : PreOut) (hcan : cfg.inst.isSome = true → canAdd = true)
    (hwf : wfSrc src = true) (hh : heightsBelow src = true) (hlocs : locsOk cfg = true)
    (hcu : cu2quOk cfg o.beforeCu2qu = true)
    (h : (if cfg.ttf then preprocessTTF cfg src else preprocessOTF cfg src) = .ok o) :
    ∃ s, SP src canAdd cfg.skip s ∧ s.ms = o.final := by
  have hl : ∀ I, cfg.inst = some I → I.locs.Nodup := by
    intro I hI; simp only [locsOk, hI, decide_eq_true_eq] at hlocs; exact hlocs
  have ht := refp_trans src
  have hskip : ∀ s s', SP src canAdd [] s → skipI cfg.inst cfg.skip s = .ok s' → SP src canAdd cfg.skip s' :=
    fun s s' hs hh => ⟨skipI_RN src _ ht canAdd cfg.inst hcan hl cfg.skip s s' hs.1 hh, skipI_Q hOk_GInv _ _ s s' hs.2 hh⟩
  have hcustom : ∀ pre s s', SP src canAdd cfg.skip s → runCustom cfg pre s = .ok s' → SP src canAdd cfg.skip s' :=
    fun pre s s' hs hh => ⟨runCustom_RN src _ ht canAdd cfg.skip cfg hcan hl pre s s' hs.1 hh, runCustom_Q hOk_GInv cfg pre s s' hs.2 hh⟩
  split at h
  · exact preprocessTTF_chain (SP src canAdd []) (SP src canAdd cfg.skip) (SP src canAdd cfg.skip) (SP src canAdd cfg.skip)
      (SP src canAdd cfg.skip) (SP src canAdd cfg.skip) (SP src canAdd cfg.skip) cfg src o
      (SP_init src canAdd cfg.orders hwf hh) hskip (hcustom true)
      (fun s s' hs hh => ⟨decomposeNeeded_RN src _ ht canAdd cfg.skip cfg.inst hcan hl s s' hs.1 hh, decomposeNeeded_Q hOk_GInv _ s s' hs.2 hh⟩)
      (fun s s' b hs hh hb => SP_curves src canAdd cfg cfg.skip s s' b hs (by rw [← hb]; exact hcu) hh)
      (fun _ s s' hs hh => ⟨flattenI_RN src _ ht canAdd cfg.skip cfg.inst s s' hs.1 hh, flattenI_Q hOk_GInv _ s s' hs.2 hh⟩)
      (fun s hs => hs) (hcustom false) h
  · exact preprocessOTF_chain (SP src canAdd []) (SP src canAdd cfg.skip) (SP src canAdd cfg.skip) (SP src canAdd cfg.skip)
      (SP src canAdd cfg.skip) cfg src o
      (SP_init src canAdd cfg.orders hwf hh) hskip (hcustom true)
      (fun s s' hs hh => ⟨runIU_RN src _ canAdd cfg.skip _ _ (decomposeIStep_RN src _ ht canAdd cfg.skip cfg.inst hcan hl) s s' hs.1 hh,
        runIU_Q hOk_GInv _ _ (decomposeIStep_Q hOk_GInv cfg.inst) s s' hs.2 hh⟩)
      (hcustom false) h

end sparse

/-! ### `makeMissingRequiredGlyphs` -/

theorem referencedIn_mono (m o : GlyphSet) (n : String) (hsub : ∀ e ∈ m, e ∈ o) (h : referencedIn m n = true) :
    referencedIn o n = true := by
  simp only [referencedIn, List.any_eq_true] at h ⊢
  obtain ⟨e, he, hx⟩ := h
  exact ⟨e, hsub e he, hx⟩

/-- what `makeMissingRequiredGlyphs` does to one glyph set: nothing is lost; what is new is `.notdef`, or — TrueType,
    non-default master only — an empty stand-in for a referenced base -/
theorem addRequired_spec (cfg : Cfg) (i : Nat) (m : GlyphSet) :
    (∀ e ∈ m, e ∈ addRequired cfg i m) ∧
    ∀ e ∈ addRequired cfg i m, e ∈ m ∨ (e.1 = ".notdef" ∧ m.get? ".notdef" = none ∧ (cfg.notdefFallback = true → e.2 = emptyGlyph ".notdef")) ∨
      ((cfg.ttf = true ∧ ∃ I, cfg.inst = some I ∧ i ≠ I.defaultIdx) ∧ e.2 = emptyGlyph e.1 ∧
        referencedIn (addRequired cfg i m) e.1 = true) := by
  -- first stage: `.notdef`
  let m1 : GlyphSet := if (m.get? ".notdef").isSome then m
    else if cfg.notdefFallback then m ++ [(".notdef", emptyGlyph ".notdef")]
    else match cfg.stubs.getD i none with
      | some g => m ++ [(".notdef", g)]
      | none => m
  have h1a : ∀ e ∈ m, e ∈ m1 := by
    intro e he
    show e ∈ (if (m.get? ".notdef").isSome then m else _)
    split
    · exact he
    · split
      · exact List.mem_append_left _ he
      · split
        · exact List.mem_append_left _ he
        · exact he
  have h1b : ∀ e ∈ m1, e ∈ m ∨ (e.1 = ".notdef" ∧ m.get? ".notdef" = none ∧ (cfg.notdefFallback = true → e.2 = emptyGlyph ".notdef")) := by
    intro e he
    have he' : e ∈ (if (m.get? ".notdef").isSome then m
      else if cfg.notdefFallback then m ++ [(".notdef", emptyGlyph ".notdef")]
      else match cfg.stubs.getD i none with
        | some g => m ++ [(".notdef", g)]
        | none => m) := he
    split at he'
    · exact Or.inl he'
    · rename_i hn
      have hnone : m.get? ".notdef" = none := by
        cases hx : m.get? ".notdef" with
        | none => rfl
        | some v => rw [hx] at hn; simp at hn
      split at he'
      · rcases List.mem_append.mp he' with h | h
        · exact Or.inl h
        · simp only [List.mem_singleton] at h; subst h; exact Or.inr ⟨rfl, hnone, fun _ => rfl⟩
      · rename_i hf
        split at he'
        · rcases List.mem_append.mp he' with h | h
          · exact Or.inl h
          · simp only [List.mem_singleton] at h; subst h; exact Or.inr ⟨rfl, hnone, fun hf' => absurd hf' hf⟩
        · exact Or.inl he'
  have hdef : addRequired cfg i m =
      (if cfg.ttf && !(match cfg.inst with | some I => i == I.defaultIdx | none => true) then addPlaceholders m1 else m1) := rfl
  rw [hdef]
  by_cases hc : (cfg.ttf && !(match cfg.inst with | some I => i == I.defaultIdx | none => true)) = true
  · rw [if_pos hc]
    simp only [Bool.and_eq_true, Bool.not_eq_true'] at hc
    have hI : ∃ I, cfg.inst = some I ∧ i ≠ I.defaultIdx := by
      cases hinst : cfg.inst with
      | none => rw [hinst] at hc; simp at hc
      | some I => rw [hinst] at hc; exact ⟨I, rfl, by simpa using hc.2⟩
    obtain ⟨hp1, hp2⟩ := C09_placeholders m1
    refine ⟨fun e he => hp1 e (h1a e he), ?_⟩
    intro e he
    rcases hp2 e he with h | ⟨h2, h3, _⟩
    · rcases h1b e h with h | h
      · exact Or.inl h
      · exact Or.inr (Or.inl h)
    · exact Or.inr (Or.inr ⟨⟨hc.1, hI⟩, h2, referencedIn_mono m1 _ e.1 hp1 h3⟩)
  · rw [if_neg hc]
    refine ⟨h1a, ?_⟩
    intro e he
    rcases h1b e he with h | h
    · exact Or.inl h
    · exact Or.inr (Or.inl h)

theorem addRequired_notdef (cfg : Cfg) (i : Nat) (m : GlyphSet)
    (h : (m.get? ".notdef").isSome = true ∨ cfg.notdefFallback = true ∨ (cfg.stubs.getD i none).isSome = true) :
    (addRequired cfg i m).any (fun e => e.1 == ".notdef") = true := by
  let m1 : GlyphSet := if (m.get? ".notdef").isSome then m
    else if cfg.notdefFallback then m ++ [(".notdef", emptyGlyph ".notdef")]
    else match cfg.stubs.getD i none with
      | some g => m ++ [(".notdef", g)]
      | none => m
  have h1 : ∃ e ∈ m1, e.1 = ".notdef" := by
    show ∃ e ∈ (if (m.get? ".notdef").isSome then m else _), e.1 = ".notdef"
    split
    · rename_i hs
      cases hg : m.get? ".notdef" with
      | none => rw [hg] at hs; cases hs
      | some g => exact ⟨(".notdef", g), get?_mem m _ g hg, rfl⟩
    · rename_i hs
      split
      · exact ⟨(".notdef", emptyGlyph ".notdef"), List.mem_append_right _ List.mem_cons_self, rfl⟩
      · rename_i hf
        rcases h with h | h | h
        · exact absurd h hs
        · exact absurd h hf
        · cases hst : cfg.stubs.getD i none with
          | none => rw [hst] at h; cases h
          | some g => exact ⟨(".notdef", g), List.mem_append_right _ List.mem_cons_self, rfl⟩
  have hdef : addRequired cfg i m =
      (if cfg.ttf && !(match cfg.inst with | some I => i == I.defaultIdx | none => true) then addPlaceholders m1 else m1) := rfl
  obtain ⟨e, he, hn⟩ := h1
  rw [hdef, List.any_eq_true]
  by_cases hc : (cfg.ttf && !(match cfg.inst with | some I => i == I.defaultIdx | none => true)) = true
  · rw [if_pos hc]; exact ⟨e, (C09_placeholders m1).1 e he, by simp [hn]⟩
  · rw [if_neg hc]; exact ⟨e, he, by simp [hn]⟩

/-! ### C09_sparse -/

/-- **C09_sparse** (whole pipeline, all inputs).  For the model's full interpolatable compilation — skipExportGlyphs, custom
    filters (interpolatable or one by one), joint decomposition, cu2qu / reversal, flattening, then
    `makeMissingRequiredGlyphs` — TrueType or CFF, with or without an Instantiator, whatever set-iteration orders it is given:
    every master's final glyph set is `.notdef` + the glyphs of its source layer (minus the skipped ones) + for a sparse
    source only glyphs tied to its layer's glyphs by chains of component references of the SOURCES (the interpolated
    composites) + (TrueType, non-default source) EMPTY stand-ins for referenced bases; nothing skipped survives except as
    such a stand-in; i.e. `holdsSparse` holds of the model's output.
    Of the interpolation (`lerpGlyph`, whatever its coefficients) only this is used: the interpolated glyph keeps the name
    of its first operand, its components' base names are among the first operand's, and its vertical advance lies strictly
    between the operands' when `0 < s < 1` (`lerpGlyph_name`, `lerpGlyph_comps` + `pairComps_fst`, `lerp_lt`).
    Hypotheses (all decidable, reported per family by the driver): glyph sets are dicts keyed by glyph name (`wfSrc`);
    no source glyph has vertical advance ≥ 0xFFFF (`heightsBelow` — else a real glyph could be taken for a stand-in);
    designspace sources have pairwise different locations (`locsOk`); non-sparse designspace sources have all glyphs
    (`fullMastersFull` — otherwise ufo2ft adds interpolated composites to them as well); `.notdef` is not skipped and is
    present, or the fallback / a stub is available (`notdefOk`); cu2qu keeps keys, names, advances and components
    (`cu2quOk`). -/
theorem C09_sparse (cfg : Cfg) (src : Masters) (o : PreOut)
    (hwf : wfSrc src = true) (hh : heightsBelow src = true) (hlocs : locsOk cfg = true)
    (hfull : fullMastersFull cfg src = true) (hnd : notdefOk cfg src = true)
    (hcu : cu2quOk cfg o.beforeCu2qu = true)
    (h : compileFamily cfg src = .ok o) :
    holdsSparse cfg.sparse (cfg.inst.map (·.defaultIdx)) cfg.skip src o.final = true := by
  unfold compileFamily at h
  cases hp : (if cfg.ttf = true then preprocessTTF cfg src else preprocessOTF cfg src) with
  | error e => rw [hp] at h; cases h
  | ok o' =>
    rw [hp] at h
    simp only [Except.ok.injEq] at h
    have hb : o.beforeCu2qu = o'.beforeCu2qu := by rw [← h]
    have hfin : o.final = (List.range o'.final.length).zipWith (fun i m => addRequired cfg i m) o'.final := by rw [← h]
    obtain ⟨s, hs, hsm⟩ := SP_preprocess src cfg.inst.isSome cfg o' (fun x => x) hwf hh hlocs (by rw [← hb]; exact hcu) hp
    obtain ⟨⟨hRef, hN⟩, hH⟩ := hs
    rw [hsm] at hN
    have hHm : MastersQ HOk o'.final := by rw [← hsm]; exact hH.ms
    simp only [notdefOk, Bool.and_eq_true, Bool.not_eq_true', List.all_eq_true, List.mem_range, Bool.or_eq_true] at hnd
    obtain ⟨hnskip, hndi⟩ := hnd
    have hnskip' : ".notdef" ∉ cfg.skip := by simpa using hnskip
    unfold holdsSparse
    rw [List.all_eq_true]
    intro x hx
    obtain ⟨⟨⟨layer, out⟩, sp⟩, i⟩ := x
    have hx1 := List.mem_zipIdx_iff_getElem?.mp hx
    dsimp only at hx1
    obtain ⟨hx2, hsp⟩ := List.getElem?_zip_eq_some.mp hx1
    obtain ⟨hlayer, hout⟩ := List.getElem?_zip_eq_some.mp hx2
    dsimp only at hlayer hout hsp
    -- identify the pieces
    have hil : i < src.length := by
      rcases Nat.lt_or_ge i src.length with h | h
      · exact h
      · rw [List.getElem?_eq_none h] at hlayer; cases hlayer
    have hlayer' : src.getD i [] = layer := by simp only [List.getD_eq_getElem?_getD, hlayer, Option.getD_some]
    have hifin : i < o'.final.length := by
      have := hN.1; simp only [namesOf, List.length_map] at this; omega
    have hout' : out = addRequired cfg i (o'.final.getD i []) := by
      rw [hfin, List.getElem?_zipWith, List.getElem?_range hifin, List.getElem?_eq_getElem hifin] at hout
      simp only [Option.some.injEq] at hout
      rw [← hout]
      simp only [List.getD_eq_getElem?_getD, List.getElem?_eq_getElem hifin, Option.getD_some]
    have hNi := hN.2 i
    rw [namesOf_getD, hlayer'] at hNi
    obtain ⟨hF1, hF2⟩ := hNi
    have hF3 : SetQ HOk (o'.final.getD i []) := getD_setQ hHm i
    obtain ⟨hA1, hA2⟩ := addRequired_spec cfg i (o'.final.getD i [])
    rw [← hout'] at hA1 hA2
    have hmemnames : ∀ e ∈ o'.final.getD i [], e.1 ∈ (o'.final.getD i []).names :=
      fun e he => List.mem_map.mpr ⟨e, he, rfl⟩
    simp only [Bool.and_eq_true]
    refine ⟨⟨⟨?c1, ?c2⟩, ?c3⟩, ?c4⟩
    case c1 =>
      rw [List.all_eq_true]
      intro e he
      rcases hA2 e he with hm | ⟨hn, _, _⟩ | ⟨⟨_, I, hI, hne⟩, hempty, href⟩
      · -- a glyph that came out of the pre-processor
        have hok := hF1 e.1 (hmemnames e hm)
        unfold NameOkAt at hok
        rw [hlayer'] at hok
        have hns : isSentinel e.2 = false := not_isSentinel_of_hOk e.1 e.2 (hF3 e hm)
        rcases hok.1 with hin | ⟨hcan, b, hb, hR⟩
        · have : (layer.get? e.1).isSome = true := (get?_isSome_iff_names layer e.1).mpr hin
          split
          · simp [sparseGlyphOk, this]
          · simp [this]
        · have hreach := reaches_of_refp src layer.names e.1 b hR hb
          split
          · simp [sparseGlyphOk, hns, hreach]
          · rename_i hspf
            have hspf' : sp = false := by simpa using hspf
            -- a full source of a designspace has every glyph
            have hinst : cfg.inst.isNone = false := by
              cases hi : cfg.inst with
              | none => rw [hi] at hcan; cases hcan
              | some _ => rfl
            simp only [fullMastersFull, hinst, Bool.false_or, List.all_eq_true] at hfull
            have hz : (layer, sp) ∈ src.zip cfg.sparse :=
              List.mem_iff_getElem?.mpr ⟨i, List.getElem?_zip_eq_some.mpr ⟨hlayer, hsp⟩⟩
            have := hfull (layer, sp) hz
            simp only [hspf', Bool.false_or, List.all_eq_true] at this
            have hin : e.1 ∈ layer.names := by simpa using this e.1 (Refp.left_mem hR)
            simp [(get?_isSome_iff_names layer e.1).mpr hin]
      · have : (e.1 == ".notdef") = true := by simp [hn]
        split
        · simp [sparseGlyphOk, this]
        · simp [this]
      · have hsent : isSentinel e.2 = true := by rw [hempty]; exact isSentinel_emptyGlyph _
        split
        · simp [sparseGlyphOk, hsent, href]
        · simp [hsent, href, hI, hne]
    case c2 =>
      rw [hout']
      apply addRequired_notdef
      rcases hndi i hil with (h1 | h2) | h3
      · left
        rw [hlayer'] at h1
        have hin := (get?_isSome_iff_names layer ".notdef").mp h1
        exact (get?_isSome_iff_names _ ".notdef").mpr (hF2 ".notdef" hin hnskip')
      · exact Or.inr (Or.inl h2)
      · exact Or.inr (Or.inr h3)
    case c3 =>
      rw [List.all_eq_true]
      intro e he
      by_cases hsk : cfg.skip.contains e.1 = true
      · rw [hsk]; rfl
      · have hin : e.1 ∈ layer.names := List.mem_map.mpr ⟨e, he, rfl⟩
        have hm := hF2 e.1 hin (by simpa using hsk)
        obtain ⟨e', he', hk⟩ := List.mem_map.mp hm
        have : (out.get? e.1).isSome = true := by
          rw [← hk]; exact alookup_isSome_of_mem e'.1 out e'.2 (hA1 e' he')
        simp [this]
    case c4 =>
      rw [List.all_eq_true]
      intro e he
      rcases hA2 e he with hm | ⟨hn, _, _⟩ | ⟨_, hempty, _⟩
      · have := (hF1 e.1 (hmemnames e hm)).2
        simp [this]
      · rw [hn]; simp [hnskip']
      · have hsent : isSentinel e.2 = true := by rw [hempty]; exact isSentinel_emptyGlyph _
        simp [hsent]

/-! ### C09_twoByTwo -/

theorem uniformCustom_prop (cfg : Cfg) (h : uniformCustom cfg = true) : UniformCustom cfg := by
  intro pre
  simp only [uniformCustom, List.all_cons, List.all_nil, Bool.and_true, Bool.and_eq_true, Bool.or_eq_true] at h
  cases pre
  · exact h.2
  · exact h.1

theorem allEq_mem {α} [BEq α] [LawfulBEq α] (l : List α) (h : allEq l = true) : ∀ x ∈ l, ∀ y ∈ l, x = y := by
  cases l with
  | nil => intro x hx; cases hx
  | cons a l =>
    simp only [allEq, List.all_eq_true] at h
    have ha : ∀ x ∈ a :: l, x = a := by
      intro x hx
      rcases List.mem_cons.mp hx with rfl | hx
      · rfl
      · exact eq_of_beq (h x hx)
    intro x hx y hy
    rw [ha x hx, ha y hy]

theorem allEq_of_pairwise {α} [BEq α] [LawfulBEq α] (l : List α) (h : ∀ x ∈ l, ∀ y ∈ l, x = y) : allEq l = true := by
  cases l with
  | nil => rfl
  | cons a l => exact allEq_of_const (a :: l) a (fun x hx => h x hx a List.mem_cons_self)

/-- sources that agree on component lists (and contain no look-alike of ufo2ft's stand-ins) agree on component names -/
theorem src_alikeN (src : Masters) (hc : compCompatible src = true) (hns : noSentinels src = true) :
    AlikeB (abG absN) src := by
  intro m1 hm1 m2 hm2 n g1 g2 h1 h2
  simp only [compCompatible, List.all_eq_true] at hc
  simp only [noSentinels, List.all_eq_true, Bool.not_eq_true'] at hns
  have hn : n ∈ allNames src := (mem_allNames src n).mpr ⟨m1, hm1, (get?_isSome_iff_names m1 n).mp (by rw [h1]; rfl)⟩
  have hin : ∀ (m : GlyphSet) (g : Glyph), m ∈ src → m.get? n = some g → g.comps.map (fun k => k.base) ∈ compSeqsOf src n := by
    intro m g hm hg
    simp only [compSeqsOf, List.mem_map, List.mem_filter, glyphsNamed, List.mem_filterMap]
    exact ⟨g, ⟨⟨m, hm, hg⟩, by simp [hns m hm _ (get?_mem m n g hg)]⟩, rfl⟩
  have := allEq_mem _ (hc n hn) _ (hin m1 g1 hm1 h1) _ (hin m2 g2 hm2 h2)
  simp only [abG, absN, Prod.mk.injEq, true_and]
  have e : ∀ g : Glyph, g.comps.map (abK absN) = (g.comps.map (fun k => k.base)).map (fun b => (b, ())) := by
    intro g; simp [abK, absN, List.map_map, Function.comp_def]
  show g1.comps.map (abK absN) = g2.comps.map (abK absN)
  rw [e, e, this]

theorem src_kOk (src : Masters) (hwf : wfSrc src = true) : MastersQ KOk src := by
  intro m hm e he
  simp only [wfSrc, List.all_eq_true, Bool.and_eq_true, decide_eq_true_eq] at hwf
  show e.2.name = e.1
  simpa using (hwf m hm).2 e he

/-- state predicates of the two halves of the TrueType pre-processor -/
def PA (names : List String) (L : List (List String)) (s : St) : Prop :=
  StQ KOk s ∧ AlikeB (abG absN) s.ms ∧ Meta names L s

def PC (L : List (List String)) (s : St) : Prop := AlikeB (abF absL) s.ms ∧ namesOf s.ms = L

theorem curvesStep_PC (cfg : Cfg) (L : List (List String)) (s s' : St) (b : Option Masters) (hs : PC L s)
    (hcu : cu2quOk cfg b = true) (h : curvesStep cfg s = .ok (b, s')) : PC L s' := by
  have hbefore := curvesStep_before cfg s s' b h
  unfold curvesStep at h
  split at h
  · rename_i hcc
    cases hq : cfg.cu2qu with
    | none => rw [hq] at h; cases h
    | some q =>
      rw [hq] at h
      simp only [Except.ok.injEq, Prod.mk.injEq] at h
      rw [← h.2]
      have hsk : q.map skel = s.ms.map skel := by
        rw [hbefore hcc] at hcu
        simp only [cu2quOk, hq] at hcu
        exact cu2quKeeps_eq _ _ hcu
      exact ⟨by rw [updated_ms]; exact skel_alikeF absL q s.ms hsk hs.1,
        by rw [updated_ms]; dsimp only; rw [skel_namesOf q s.ms hsk]; exact hs.2⟩
  · split at h
    · simp only [Except.ok.injEq, Prod.mk.injEq] at h
      rw [← h.2]
      exact ⟨by rw [updated_ms]; exact reverseAll_alike (abF absL) (abF_rev absL) s.ms hs.1,
        by rw [updated_ms]; dsimp only; rw [namesOf_reverseAll]; exact hs.2⟩
    · simp only [Except.ok.injEq, Prod.mk.injEq] at h
      rw [← h.2]; exact hs

/-- `makeMissingRequiredGlyphs` without designspace: at most a `.notdef` is appended -/
theorem addRequired_none_get? (cfg : Cfg) (hi : cfg.inst = none) (i : Nat) (m : GlyphSet) (n : String) (g : Glyph)
    (h : (addRequired cfg i m).get? n = some g) :
    m.get? n = some g ∨ (n = ".notdef" ∧ m.get? ".notdef" = none ∧ (cfg.notdefFallback = true → g = emptyGlyph ".notdef")) := by
  have hdef : addRequired cfg i m = (if (m.get? ".notdef").isSome then m
      else if cfg.notdefFallback then m ++ [(".notdef", emptyGlyph ".notdef")]
      else match cfg.stubs.getD i none with
        | some g => m ++ [(".notdef", g)]
        | none => m) := by
    unfold addRequired
    rw [hi]
    simp only [Bool.not_true, Bool.and_false, Bool.false_eq_true, if_false]
    rfl
  rw [hdef] at h
  have happ : ∀ x : Glyph, GlyphSet.get? (m ++ [(".notdef", x)]) n = some g →
      m.get? n = some g ∨ (n = ".notdef" ∧ m.get? n = none ∧ g = x) := by
    intro x hx
    simp only [GlyphSet.get?] at hx ⊢
    rw [alookup_append] at hx
    cases hm : alookup n m with
    | some v => rw [hm] at hx; exact Or.inl hx
    | none =>
      rw [hm] at hx
      simp only [alookup] at hx
      by_cases hk : ((".notdef" : String) == n) = true
      · rw [if_pos hk] at hx
        exact Or.inr ⟨(by simpa using hk : ".notdef" = n).symm, rfl, (Option.some.inj hx).symm⟩
      · rw [if_neg hk] at hx; cases hx
  split at h
  · exact Or.inl h
  · split at h
    · rcases happ _ h with h | ⟨h1, h2, h3⟩
      · exact Or.inl h
      · subst h1; exact Or.inr ⟨rfl, h2, fun _ => h3⟩
    · rename_i hf
      split at h
      · rcases happ _ h with h | ⟨h1, h2, _⟩
        · exact Or.inl h
        · subst h1; exact Or.inr ⟨rfl, h2, fun hf' => absurd hf' hf⟩
      · exact Or.inl h

/-- **C09_twoByTwo** (TrueType pipeline without Instantiator, all inputs).  If the source masters agree on every glyph's
    component list (`compCompatible`), then in the model's output of `compileFamily` — skipExportGlyphs, uniform custom
    filters, `check_for_nonmatching_components` + joint decomposition, cu2qu / reversal, flattening, custom post filters,
    `makeMissingRequiredGlyphs` — every glyph that is still a composite has THE SAME 2×2 part on each component in all
    masters that have it: `holdsTwoByTwo` holds.  Mechanism proved: a name outside `needs_decomposition` has matching 2×2
    parts and is nowhere mixed (`notNeeded_agree`); a name inside is decomposed in every master (`needLoop`);
    flattening and the custom decomposition respect agreement on (simple-or-mixed?, names, 2×2) (`flattenOp_relF`).
    Hypotheses (decidable, reported by the driver): glyph sets are dicts keyed by name (`wfSrc`); no source glyph looks like an
    empty stand-in (`noSentinels`: `compCompatible` ignores those); custom filters are uniform per phase (`uniformCustom`,
    else ufo2ft filters each UFO alone "and hopes for the best"); the set-iteration orders given to the model mention
    every glyph (`ordersCover`); cu2qu keeps keys / names / components / emptiness (`cu2quOk`); `.notdef` is added to all
    masters or to none, or as the empty fallback (`notdefJoint`; the stub finding otherwise). -/
theorem C09_twoByTwo (cfg : Cfg) (src : Masters) (o : PreOut) (httf : cfg.ttf = true) (hi : cfg.inst = none)
    (hu : uniformCustom cfg = true) (hwf : wfSrc src = true) (hns : noSentinels src = true)
    (hord : ordersCover cfg src = true) (hcu : cu2quOk cfg o.beforeCu2qu = true) (hnd : notdefJoint cfg src = true)
    (h : compileFamily cfg src = .ok o) : holdsTwoByTwo src o.final = true := by
  unfold holdsTwoByTwo
  cases hcc : compCompatible src with
  | false => rfl
  | true =>
    simp only [Bool.not_true, Bool.false_or]
    have hU := uniformCustom_prop cfg hu
    unfold compileFamily at h
    rw [if_pos httf] at h
    cases hp : preprocessTTF cfg src with
    | error e => rw [hp] at h; cases h
    | ok o' =>
      rw [hp] at h
      simp only [Except.ok.injEq] at h
      have hb : o.beforeCu2qu = o'.beforeCu2qu := by rw [← h]
      have hfin : o.final = (List.range o'.final.length).zipWith (fun i m => addRequired cfg i m) o'.final := by rw [← h]
      let L1 := (namesOf src).map (List.filter (fun n => !cfg.skip.contains n))
      let N1 := (allNames src).filter (fun n => !cfg.skip.contains n)
      have hsub : ∀ L ∈ L1, ∀ n ∈ L, n ∈ N1 := by
        intro L hL n hn
        obtain ⟨L0, hL0, rfl⟩ := List.mem_map.mp hL
        obtain ⟨m, hm, rfl⟩ := List.mem_map.mp hL0
        exact List.mem_filter.mpr ⟨(mem_allNames src n).mpr ⟨m, hm, (List.mem_filter.mp hn).1⟩, (List.mem_filter.mp hn).2⟩
      have hk0 := src_kOk src hwf
      have hinit : PA N1 (namesOf src) ⟨src, none, [], cfg.orders⟩ := by
        refine ⟨⟨hk0, hk0, fun e he => by cases he⟩, src_alikeN src hcc hns, ?_, rfl⟩
        intro ord hord' n hn
        simp only [ordersCover, List.all_eq_true, Bool.or_eq_true] at hord
        obtain ⟨hn1, hn2⟩ := List.mem_filter.mp hn
        rcases hord ord hord' n hn1 with h | h
        · rw [h] at hn2; cases hn2
        · simpa using h
      obtain ⟨s, hs, hsm⟩ := preprocessTTF_chain (PA N1 (namesOf src)) (PA N1 L1) (PA N1 L1) (PC L1) (PC L1) (PC L1) (PC L1)
        cfg src o' hinit
        (fun s s' hs hh => by
          rw [hi] at hh
          exact ⟨skipI_Q kOk_GInv none _ s s' hs.1 hh,
            skipI_alike (abG absN) cfg.skip (decomposeOp_rel absN false (some cfg.skip)) s s' hs.2.1 hh,
            skipI_meta _ _ cfg.skip s s' hs.2.2 hh⟩)
        (fun s s' hs hh => ⟨runCustom_Q kOk_GInv cfg true s s' hs.1 hh,
            runCustom_alike (abG absN) (decomposeOp_rel absN true none) cfg hi hU true s s' hs.2.1 hh,
            runCustom_meta _ _ cfg hi hU true s s' hs.2.2 hh⟩)
        (fun s s' hs hh => by
          rw [hi] at hh
          have := decomposeNeeded_two s s' hs.1 hs.2.1 (by
            intro ord hord' n hn
            obtain ⟨m, hm, hnm⟩ := (mem_allNames s.ms n).mp hn
            have : m.names ∈ L1 := by rw [← hs.2.2.2]; exact List.mem_map.mpr ⟨m, hm, rfl⟩
            exact hs.2.2.1 ord hord' n (hsub _ this n hnm)) hh
          exact ⟨this.1, by rw [this.2]; exact hs.2.2.2⟩)
        (fun s s' b hs hh hbb => curvesStep_PC cfg L1 s s' b hs (by rw [← hbb, ← hb]; exact hcu) hh)
        (fun _ s s' hs hh => by
          rw [hi] at hh
          exact ⟨flattenI_alike (abF absL) (flattenOp_relF absL) s s' hs.1 hh,
            (runIU_meta [] L1 _ _ flattenIStep_none_meta s s' ⟨(fun _ _ _ hn => by cases hn), hs.2⟩ hh).2⟩)
        (fun s hs => hs)
        (fun s s' hs hh => ⟨runCustom_alike (abF absL) (decomposeOp_relF absL) cfg hi hU false s s' hs.1 hh,
            (runCustom_meta [] L1 cfg hi hU false s s' ⟨(fun _ _ _ hn => by cases hn), hs.2⟩ hh).2⟩)
        hp
      obtain ⟨hAl, hNames⟩ := hs
      rw [hsm] at hAl hNames
      -- every real glyph of an output master is a glyph of the pre-processor's output
      have hback : ∀ mo ∈ o.final, ∃ m ∈ o'.final, ∀ n g, mo.get? n = some g → isSentinel g = false → m.get? n = some g := by
        intro mo hmo
        rw [hfin] at hmo
        obtain ⟨idx, hidx⟩ := List.mem_iff_getElem?.mp hmo
        rw [List.getElem?_zipWith] at hidx
        cases hr : (List.range o'.final.length)[idx]? with
        | none => rw [hr] at hidx; simp at hidx
        | some i =>
          cases hm : o'.final[idx]? with
          | none => rw [hr, hm] at hidx; simp at hidx
          | some m =>
            rw [hr, hm] at hidx
            simp only [Option.some.injEq] at hidx
            have hmm : m ∈ o'.final := List.mem_of_getElem? hm
            refine ⟨m, hmm, ?_⟩
            intro n g hg hsent
            rw [← hidx] at hg
            rcases addRequired_none_get? cfg hi i m n g hg with h1 | ⟨h1, h2, h3⟩
            · exact h1
            · exfalso
              simp only [notdefJoint, Bool.or_eq_true, Bool.and_eq_true, Bool.not_eq_true', List.all_eq_true] at hnd
              rcases hnd with hf | ⟨hsk, hall⟩
              · rw [h3 hf, isSentinel_emptyGlyph] at hsent; cases hsent
              · have : m.names ∈ L1 := by rw [← hNames]; exact List.mem_map.mpr ⟨m, hmm, rfl⟩
                obtain ⟨L0, hL0, hL⟩ := List.mem_map.mp this
                obtain ⟨m0, hm0, rfl⟩ := List.mem_map.mp hL0
                have hin0 : ".notdef" ∈ m0.names := (get?_isSome_iff_names m0 ".notdef").mp (hall m0 hm0)
                have hin : ".notdef" ∈ m.names := by
                  rw [← hL]; exact List.mem_filter.mpr ⟨hin0, by simpa using hsk⟩
                have := (get?_isSome_iff_names m ".notdef").mpr hin
                rw [h2] at this; cases this
      rw [List.all_eq_true]
      intro n _
      apply allEq_of_pairwise
      intro x hx y hy
      simp only [twoByTwosOf, List.mem_map, List.mem_filter, glyphsNamed, List.mem_filterMap] at hx hy
      obtain ⟨g1, ⟨⟨mo1, hmo1, hg1⟩, hs1⟩, rfl⟩ := hx
      obtain ⟨g2, ⟨⟨mo2, hmo2, hg2⟩, hs2⟩, rfl⟩ := hy
      obtain ⟨m1, hm1, hb1⟩ := hback mo1 hmo1
      obtain ⟨m2, hm2, hb2⟩ := hback mo2 hmo2
      have e := hAl m1 hm1 m2 hm2 n g1 g2 (hb1 n g1 hg1 (by simpa using hs1)) (hb2 n g2 hg2 (by simpa using hs2))
      simp only [abF, Prod.mk.injEq] at e
      have := congrArg (List.map (·.2)) e.2
      simpa [abK, absL, List.map_map, Function.comp_def] using this

/-! ### C09_pipeline_inst_partial -/

theorem absGlyph_iff (g1 g2 : Glyph) : absGlyph g1 = absGlyph g2 ↔ abG absS g1 = abG absS g2 := by
  have e1 : ∀ g : Glyph, g.comps.map absComp = (g.comps.map (abK absS)).map (fun p => (⟨p.1, p.2⟩ : AComp)) := by
    intro g; simp [absComp, abK, absS, List.map_map, Function.comp_def]
  have e2 : ∀ g : Glyph, g.comps.map (abK absS) = (g.comps.map absComp).map (fun k => (k.base, k.s)) := by
    intro g; simp [absComp, abK, absS, List.map_map, Function.comp_def]
  constructor
  · intro h
    simp only [absGlyph, AGlyph.mk.injEq] at h
    simp only [abG, Prod.mk.injEq]
    exact ⟨h.1, by rw [e2, e2, h.2]⟩
  · intro h
    simp only [abG, Prod.mk.injEq] at h
    simp only [absGlyph, AGlyph.mk.injEq]
    exact ⟨h.1, by rw [e1, e1, h.2]⟩

/-- the decidable `alike` is the relation `AlikeB (abG absS)` -/
theorem alike_iff (ms : Masters) : alike ms = true ↔ AlikeB (abG absS) ms := by
  constructor
  · intro h m1 hm1 m2 hm2 n g1 g2 h1 h2
    simp only [alike, List.all_eq_true] at h
    have hn : n ∈ allNames ms := (mem_allNames ms n).mpr ⟨m1, hm1, (get?_isSome_iff_names m1 n).mp (by rw [h1]; rfl)⟩
    have hin : ∀ (m : GlyphSet) (g : Glyph), m ∈ ms → m.get? n = some g → absGlyph g ∈ (glyphsNamed ms n).map absGlyph := by
      intro m g hm hg
      exact List.mem_map.mpr ⟨g, by simp only [glyphsNamed, List.mem_filterMap]; exact ⟨m, hm, hg⟩, rfl⟩
    exact (absGlyph_iff g1 g2).mp (allEq_mem _ (h n hn) _ (hin m1 g1 hm1 h1) _ (hin m2 g2 hm2 h2))
  · intro h
    simp only [alike, List.all_eq_true]
    intro n _
    apply allEq_of_pairwise
    intro x hx y hy
    obtain ⟨g1, hg1, rfl⟩ := List.mem_map.mp hx
    obtain ⟨g2, hg2, rfl⟩ := List.mem_map.mp hy
    obtain ⟨m1, hm1, h1⟩ := glyphsNamed_mem ms n g1 hg1
    obtain ⟨m2, hm2, h2⟩ := glyphsNamed_mem ms n g2 hg2
    exact (absGlyph_iff g1 g2).mpr (h m1 hm1 m2 hm2 n g1 g2 h1 h2)

/-- a family that is alike is point-compatible in the sense of the specification -/
theorem compatible_of_alikeS (ms : Masters) (h : AlikeB (abG absS) ms) : compatible ms = true := by
  simp only [compatible, List.all_eq_true]
  intro n _
  apply allEq_of_pairwise
  intro x hx y hy
  simp only [shapesOf, List.mem_map, List.mem_filter] at hx hy
  obtain ⟨g1, ⟨hg1, _⟩, rfl⟩ := hx
  obtain ⟨g2, ⟨hg2, _⟩, rfl⟩ := hy
  obtain ⟨m1, hm1, h1⟩ := glyphsNamed_mem ms n g1 hg1
  obtain ⟨m2, hm2, h2⟩ := glyphsNamed_mem ms n g2 hg2
  have := h m1 hm1 m2 hm2 n g1 g2 h1 h2
  simp only [abG, Prod.mk.injEq] at this
  have hb : g1.comps.map (fun k => k.base) = g2.comps.map (fun k => k.base) := by
    have := congrArg (List.map (·.1)) this.2
    simpa [abK, List.map_map, Function.comp_def] using this
  simp only [shape, Prod.mk.injEq]
  exact ⟨this.1, hb⟩

theorem srcOK_of (src : Masters) (hwf : wfSrc src = true) (hal : alike src = true) (hst : signStable src = true) :
    SrcOK src := by
  refine ⟨?_, (alike_iff src).mp hal, ?_⟩
  · intro m hm
    simp only [wfSrc, List.all_eq_true, Bool.and_eq_true, decide_eq_true_eq] at hwf
    exact (hwf m hm).1
  · intro m1 hm1 m2 hm2 n g1 g2 h1 h2
    simp only [signStable, List.all_eq_true] at hst
    have hn : n ∈ allNames src := (mem_allNames src n).mpr ⟨m1, hm1, (get?_isSome_iff_names m1 n).mp (by rw [h1]; rfl)⟩
    exact hst n hn g1 (by simp only [glyphsNamed, List.mem_filterMap]; exact ⟨m1, hm1, h1⟩)
      g2 (by simp only [glyphsNamed, List.mem_filterMap]; exact ⟨m2, hm2, h2⟩)

theorem runCustom_none (cfg : Cfg) (hc : cfg.custom.all Option.isNone = true) (pre : Bool) (s : St) :
    runCustom cfg pre s = .ok s := by
  unfold runCustom
  dsimp only
  have : ((customPhase cfg pre).filterMap id).isEmpty = true := by
    rw [List.isEmpty_iff]
    apply List.filterMap_eq_nil_iff.mpr
    intro c hcm
    simp only [customPhase, List.mem_map] at hcm
    obtain ⟨c0, hc0, rfl⟩ := hcm
    have := List.all_eq_true.mp hc c0 hc0
    cases c0 with
    | none => rfl
    | some v => simp at this
  rw [if_pos this]

theorem skipI_nil (inst : Option Inst) (skip : List String) (h : skip.isEmpty = true) (s : St) :
    skipI inst skip s = .ok s := by
  unfold skipI; rw [if_pos h]

theorem topoB_sound (src : Masters) : ∀ (order seen : List String), topoB src seen order = true →
    TopoFrom (Refp src) seen order := by
  intro order
  induction order with
  | nil => intro seen _; trivial
  | cons n ns ih =>
    intro seen h
    simp only [topoB, Bool.and_eq_true, Bool.not_eq_true'] at h
    refine ⟨?_, ih (n :: seen) h.2⟩
    intro x hx
    have hnot : x ∉ n :: seen := by
      intro hmem
      have := reaches_of_refp src (n :: seen) n x hx hmem
      rw [h.1] at this; cases this
    exact ⟨fun hm => hnot (List.mem_cons_of_mem _ hm), fun e => hnot (e ▸ List.mem_cons_self)⟩

theorem runIU_live (I : Inst) (P : Masters) (hP : SrcOK P) (hwf : wfSrc P = true) (incl : Glyph → Bool)
    (ords : List (List String)) (s' : St)
    (htopo : ∀ order, orderI P (runNames ⟨P, none, [], ords⟩) = .ok order → topoB P [] order = true)
    (h : runIU incl (decomposeIStep (some I)) ⟨P, none, [], ords⟩ = .ok s') : AlikeB (abG absS) s'.ms := by
  unfold runIU at h
  cases hr : runI incl (decomposeIStep (some I)) ⟨P, none, [], ords⟩ with
  | error e => rw [hr] at h; cases h
  | ok res =>
    obtain ⟨s1, md⟩ := res
    rw [hr] at h
    simp only [Except.ok.injEq] at h
    rw [← h, updated_ms]
    exact runI_live I P hP (Refp P) (refp_trans P) (src_refOk P hwf) incl ords s1 md
      (fun order ho => topoB_sound P order [] (htopo order ho)) hr

/-- **C09_pipeline_inst_partial** (designspace builds: WITH an Instantiator).  Let the sources — full or sparse — be alike
    (same point types, component names and determinant signs for same-named glyphs) and `signStable` (for every glyph
    and every two sources that have it, each component's 2×2 determinant has the same NON-ZERO sign in both AND on the
    whole segment between the two matrices; exactly: `mixDet ≥ 0` on the sign's side, or `mixDet² < 4·det·det`).  Then the
    pre-processors — CFF: unconditional joint decomposition; TrueType: `check_for_nonmatching_components` + joint decomposition,
    then cu2qu (contract `cu2quAlike`: alike in ⇒ alike out) or per-master reversal — leave a family that is alike, hence
    point-compatible: composites that `ensureCompositeDefinedAtComponentLocations` interpolates into sparse masters, and
    the base glyphs a sparse master's `InterpolatedLayer` interpolates on the fly, look like the sources' because a
    sign-stable interpolation keeps the sign of every component determinant (`lerpGlyph_alike`).
    PARTIAL — (a) covered configurations (`instPlain`): no skipExportGlyphs, no custom filters, and for TrueType no
    flattenComponents, so that there is ONE decomposing run and it starts from the sources; (b) hypothesis `orderTopo`
    (decidable, reported per family): the depth-sorted iteration order of that run visits no glyph after one of its
    (transitive) bases — ufo2ft computes the depth in the first glyph set that has the glyph, which does not guarantee
    it; then every base a step looks up is still original, in the live glyph sets and in the cached Variators.
    Missing for the rest: once a base has been modified before its user is visited, a master that has the base sees the
    modified glyph while a sparse master interpolates a stale (cached) or a fresh Variator — the views no longer agree
    glyph by glyph (agreement of the final outlines would need confluence of nested decomposition); and matrices composed
    by an earlier filter need not be sign-stable even if the sources' are (`signStable` is not closed under composition).
    `C09_signStable_witness` shows the hypothesis cannot be weakened to "equal non-zero signs". -/
theorem C09_pipeline_inst_partial (cfg : Cfg) (src : Masters) (o : PreOut) (I : Inst) (hI : cfg.inst = some I)
    (hplain : instPlain cfg = true) (hwf : wfSrc src = true) (hal : alike src = true) (hst : signStable src = true)
    (htopo : orderTopo cfg src = true) (hcu : cu2quAlike cfg o.beforeCu2qu = true)
    (h : (if cfg.ttf then preprocessTTF cfg src else preprocessOTF cfg src) = .ok o) :
    AlikeB (abG absS) o.final ∧ compatible o.final = true := by
  have hP := srcOK_of src hwf hal hst
  simp only [instPlain, Bool.and_eq_true, Bool.or_eq_true, Bool.not_eq_true'] at hplain
  obtain ⟨⟨hskip, hcustom⟩, hflat⟩ := hplain
  let s0 : St := ⟨src, none, [], cfg.orders⟩
  have htopo' : ∀ order, orderI src (runNames ⟨src, none, [], cfg.orders⟩) = .ok order → topoB src [] order = true := by
    intro order ho
    unfold orderTopo at htopo
    rw [ho] at htopo
    exact htopo
  have key : ∃ s : St, AlikeB (abG absS) s.ms ∧ s.ms = o.final := by
    split at h
    · rename_i httf
      have hnofl : cfg.flatten = false := by
        rcases hflat with h1 | h1
        · rw [httf] at h1; cases h1
        · exact h1
      apply preprocessTTF_chain (fun s => s = s0) (fun s => s = s0) (fun s => s = s0)
        (fun s => AlikeB (abG absS) s.ms) (fun s => AlikeB (abG absS) s.ms) (fun s => AlikeB (abG absS) s.ms)
        (fun s => AlikeB (abG absS) s.ms) cfg src o rfl
      · intro s s' hs hh; rw [hs, skipI_nil _ _ hskip] at hh; exact (Except.ok.inj hh).symm
      · intro s s' hs hh; rw [hs, runCustom_none cfg hcustom] at hh; exact (Except.ok.inj hh).symm
      · intro s s' hs hh
        rw [hs, hI] at hh
        unfold decomposeNeeded at hh
        dsimp only at hh
        split at hh
        · simp only [Except.ok.injEq] at hh; rw [← hh]; exact hP.alike
        · exact runIU_live I src hP hwf _ cfg.orders s' htopo' hh
      · intro s s' b hs hh hb
        have hbefore := curvesStep_before cfg s s' b hh
        unfold curvesStep at hh
        split at hh
        · rename_i hcc
          cases hq : cfg.cu2qu with
          | none => rw [hq] at hh; cases hh
          | some q =>
            rw [hq] at hh
            simp only [Except.ok.injEq, Prod.mk.injEq] at hh
            rw [← hh.2, updated_ms]
            rw [hb, hbefore hcc] at hcu
            simp only [cu2quAlike, hq, Bool.or_eq_true, Bool.not_eq_true'] at hcu
            rcases hcu with hc | hc
            · have := (alike_iff s.ms).mpr hs
              rw [hc] at this; cases this
            · exact (alike_iff q).mp hc
        · split at hh
          · simp only [Except.ok.injEq, Prod.mk.injEq] at hh
            rw [← hh.2, updated_ms]
            apply reverseAll_alike (abG absS) _ s.ms hs
            intro g1 g2 hg
            simp only [abG, Prod.mk.injEq] at hg ⊢
            exact ⟨absS.Γ_rev _ _ hg.1, hg.2⟩
          · simp only [Except.ok.injEq, Prod.mk.injEq] at hh
            rw [← hh.2]; exact hs
      · intro hfl; rw [hnofl] at hfl; cases hfl
      · intro s hs; exact hs
      · intro s s' hs hh; rw [runCustom_none cfg hcustom] at hh; rw [← Except.ok.inj hh]; exact hs
      · exact h
    · apply preprocessOTF_chain (fun s => s = s0) (fun s => s = s0) (fun s => s = s0)
        (fun s => AlikeB (abG absS) s.ms) (fun s => AlikeB (abG absS) s.ms) cfg src o rfl
      · intro s s' hs hh; rw [hs, skipI_nil _ _ hskip] at hh; exact (Except.ok.inj hh).symm
      · intro s s' hs hh; rw [hs, runCustom_none cfg hcustom] at hh; exact (Except.ok.inj hh).symm
      · intro s s' hs hh
        rw [hs, hI] at hh
        exact runIU_live I src hP hwf _ cfg.orders s' htopo' hh
      · intro s s' hs hh; rw [runCustom_none cfg hcustom] at hh; rw [← Except.ok.inj hh]; exact hs
      · exact h
  obtain ⟨s, hs, hsm⟩ := key
  rw [hsm] at hs
  exact ⟨hs, compatible_of_alikeS o.final hs⟩

/-! ### the witness: equal non-zero determinant signs are not enough -/

def wA (k : Q) : Glyph :=
  ⟨"A", 500, 0, [[⟨0, 0, some .line⟩, ⟨100 + k, 0, some .line⟩, ⟨100 + k, 100, some .line⟩, ⟨60, 140, none⟩,
     ⟨0, 100, some .qcurve⟩]], [], []⟩
def wB (t : Affine) : Glyph := ⟨"B", 500, 0, [], [⟨"A", t⟩], []⟩
/-- source 0 (location 0): `B` = `A` mirrored in x -/
def wM0 : GlyphSet := [("A", wA 0), ("B", wB ⟨-1, 0, 0, 1, 100, 0⟩)]
/-- source 1 (location 1): `B` = `A` mirrored in y (determinant −1 as well) -/
def wM1 : GlyphSet := [("A", wA 8), ("B", wB ⟨1, 0, 0, -1, 0, 100⟩)]
/-- sparse source 2 (location 1/2): only `A` -/
def wM2 : GlyphSet := [("A", wA 4)]
def wSrc : Masters := [wM0, wM1, wM2]

/-- **`signStable` cannot be weakened to "every component's determinant has the same non-zero sign in all masters"**
    (the task's first formulation; finding C09-component-flipped-in-one-master, second half: "mirror-x in one master,
    mirror-y in the other: zero matrix half-way").  The family is alike, all determinants of `B`'s component are −1, but
    it is not sign-stable: the sparse source at 1/2 gets `B` with the ZERO matrix; decomposed, `B` is the reversed `A` in
    sources 0 and 1 and the un-reversed `A` in the sparse source — different point-type sequences. -/
theorem C09_signStable_witness :
    alike wSrc = true ∧ signsEqualNonzero wSrc = true ∧ signStable wSrc = false ∧
    collectMasters ⟨[0, 1, 1/2], 0⟩ wSrc "B" = some [((0 : Q), wB ⟨-1, 0, 0, 1, 100, 0⟩), (1, wB ⟨1, 0, 0, -1, 0, 100⟩)] ∧
    interpAt [((0 : Q), wB ⟨-1, 0, 0, 1, 100, 0⟩), (1, wB ⟨1, 0, 0, -1, 0, 100⟩)] (1/2) = some (wB ⟨0, 0, 0, 0, 50, 50⟩) ∧
    mapExcept absGlyph (decomposeGlyph wM0 true none (wB ⟨-1, 0, 0, 1, 100, 0⟩))
      = .ok ⟨[[some .line, some .line, none, some .qcurve, some .line]], []⟩ ∧
    mapExcept absGlyph (decomposeGlyph wM2 true none (wB ⟨0, 0, 0, 0, 50, 50⟩))
      = .ok ⟨[[some .line, some .line, some .line, none, some .qcurve]], []⟩ := by
  refine ⟨by decide +kernel, by decide +kernel, by decide +kernel, by decide +kernel, by decide +kernel, ?_, ?_⟩
  · rw [decomposeGlyph_shape]
    simp [aDecomposeGlyph, absSet, wM0, wA, wB, absGlyph, absComp, aAddComps, aAddComp, isIncluded, alookup, inclNested,
      ADrawn.append, aDrawContours, contourShape, reverseShape, retypeS, firstOnS, sgn, Affine.det]
    decide +kernel
  · rw [decomposeGlyph_shape]
    simp [aDecomposeGlyph, absSet, wM2, wA, wB, absGlyph, absComp, aAddComps, aAddComp, isIncluded, alookup, inclNested,
      ADrawn.append, aDrawContours, contourShape, sgn, Affine.det]
    intro h; exfalso; revert h; decide +kernel

/-! ### non-vacuity: the hypotheses of the three pipeline theorems are met by concrete families -/

def xA (k : Q) : Glyph :=
  ⟨"A", 500, 0, [[⟨0, 0, some .line⟩, ⟨100 + k, 0, some .line⟩, ⟨100 + k, 100, some .line⟩, ⟨60, 140, none⟩,
     ⟨0, 100, some .qcurve⟩]], [], []⟩
def xB (t : Affine) : Glyph := ⟨"B", 500, 0, [], [⟨"A", t⟩], []⟩
def xN : Glyph := ⟨".notdef", 500, 0, [[⟨0, 0, some .line⟩, ⟨10, 0, some .line⟩, ⟨10, 10, some .line⟩]], [], []⟩
def xS0 : GlyphSet := [(".notdef", xN), ("A", xA 0), ("B", xB ⟨1/2, 0, 0, 1/2, 0, 0⟩)]
def xS1 : GlyphSet := [(".notdef", xN), ("A", xA 8), ("B", xB ⟨1/2, 0, 0, 1/2, 20, 0⟩)]
/-- a sparse source at 1/2 holding only the composite `B` (its base `A` is missing there) -/
def xS2 : GlyphSet := [("B", xB ⟨1/2, 0, 0, 1/2, 10, 0⟩)]
def xSrc : Masters := [xS0, xS1, xS2]
/-- a TrueType designspace build: default source first, the third source sparse, `.notdef` fallback -/
def xCfg : Cfg :=
  ⟨true, some ⟨[0, 1, 1/2], 0⟩, [false, false, true], [], false, false, false, [none, none, none], none, false, true, [], []⟩

theorem xCfg_cu2quOk (b : Option Masters) : cu2quOk xCfg b = true := by cases b <;> rfl
theorem xCfg_cu2quAlike (b : Option Masters) : cu2quAlike xCfg b = true := by cases b <;> rfl

/-- `C09_sparse` applies to a designspace family with a sparse source; the sparse master comes out with its own `B`, the
    empty `.notdef` fallback and an empty placeholder for the missing base `A` -/
example : (match compileFamily xCfg xSrc with
    | .ok o => namesOf o.final == [[".notdef", "A", "B"], [".notdef", "A", "B"], ["B", ".notdef", "A"]] &&
               holdsSparse xCfg.sparse (xCfg.inst.map (·.defaultIdx)) xCfg.skip xSrc o.final
    | .error _ => false) = true := by
  cases h : compileFamily xCfg xSrc with
  | error e =>
    have hok : isOk (compileFamily xCfg xSrc) = true := by decide +kernel
    rw [h] at hok; cases hok
  | ok o =>
    have h1 : namesOf o.final = [[".notdef", "A", "B"], [".notdef", "A", "B"], ["B", ".notdef", "A"]] := by
      have : (match compileFamily xCfg xSrc with | .ok o => namesOf o.final | .error _ => []) =
          [[".notdef", "A", "B"], [".notdef", "A", "B"], ["B", ".notdef", "A"]] := by decide +kernel
      rw [h] at this; exact this
    have h2 := C09_sparse xCfg xSrc o (by decide +kernel) (by decide +kernel) (by decide +kernel) (by decide +kernel)
      (by decide +kernel) (xCfg_cu2quOk _) h
    simp only [h1, h2, beq_self_eq_true, Bool.and_self]

theorem xOrder : orderI xSrc (runNames ⟨xSrc, none, [], xCfg.orders⟩) = .ok ["B", ".notdef", "A"] := by
  simp [runNames, xCfg, orderI, depthsI, compDepth, maxComponentDepth, depthGlyph, depthComps, allNames, dedupFirst, dedupAux,
    GlyphSet.names, xSrc, xS0, xS1, xS2, xA, xB, xN, GlyphSet.get?, alookup, List.mergeSort]

theorem xTopo : orderTopo xCfg xSrc = true := by
  unfold orderTopo
  rw [xOrder]
  decide +kernel

/-- `C09_pipeline_inst_partial` applies to the same family (alike, sign-stable, plain configuration) -/
example : ∃ o, preprocessTTF xCfg xSrc = .ok o ∧ AlikeB (abG absS) o.final ∧ compatible o.final = true := by
  cases h : preprocessTTF xCfg xSrc with
  | error e =>
    have hok : isOk (preprocessTTF xCfg xSrc) = true := by decide +kernel
    rw [h] at hok; cases hok
  | ok o =>
    exact ⟨o, rfl, C09_pipeline_inst_partial xCfg xSrc o ⟨[0, 1, 1/2], 0⟩ rfl (by decide +kernel) (by decide +kernel)
      (by decide +kernel) (by decide +kernel) xTopo (xCfg_cu2quAlike _) (by simpa [xCfg] using h)⟩

/-- a real interpolation to which `lerpGlyph_alike` applies: half-way between the identity and a scaling by 1/2 -/
example : abG absS (xB ⟨1, 0, 0, 1, 0, 0⟩) = abG absS (xB ⟨1/2, 0, 0, 1/2, 10, 0⟩) ∧
    signStableG (xB ⟨1, 0, 0, 1, 0, 0⟩) (xB ⟨1/2, 0, 0, 1/2, 10, 0⟩) = true ∧
    lerpGlyph (1/2) (xB ⟨1, 0, 0, 1, 0, 0⟩) (xB ⟨1/2, 0, 0, 1/2, 10, 0⟩) = some (xB ⟨3/4, 0, 0, 3/4, 5, 0⟩) := by
  refine ⟨?_, by decide +kernel, by decide +kernel⟩
  rw [← absGlyph_iff]; decide +kernel

/-- two full masters whose composite `B` keeps its (equal) 2×2 part: TrueType build without designspace -/
def yS0 : GlyphSet := [(".notdef", xN), ("A", xA 0), ("B", xB ⟨1/2, 0, 0, 1/2, 0, 0⟩)]
def yS1 : GlyphSet := [(".notdef", xN), ("A", xA 8), ("B", xB ⟨1/2, 0, 0, 1/2, 20, 0⟩)]
def yCfg : Cfg := ⟨true, none, [false, false], [], false, false, true, [none, none], none, false, false, [], []⟩

/-- `C09_twoByTwo` applies (and the composite survives, so the statement is not empty) -/
example : (match compileFamily yCfg [yS0, yS1] with
    | .ok o => twoByTwosOf o.final "B" == [[((1:Q)/2, (0:Q), (0:Q), (1:Q)/2)], [(1/2, 0, 0, 1/2)]] && holdsTwoByTwo [yS0, yS1] o.final
    | .error _ => false) = true := by
  cases h : compileFamily yCfg [yS0, yS1] with
  | error e =>
    have hok : isOk (compileFamily yCfg [yS0, yS1]) = true := by decide +kernel
    rw [h] at hok; cases hok
  | ok o =>
    have h1 : twoByTwosOf o.final "B" = [[((1:Q)/2, (0:Q), (0:Q), (1:Q)/2)], [(1/2, 0, 0, 1/2)]] := by
      have : (match compileFamily yCfg [yS0, yS1] with | .ok o => twoByTwosOf o.final "B" | .error _ => []) =
          [[((1:Q)/2, (0:Q), (0:Q), (1:Q)/2)], [(1/2, 0, 0, 1/2)]] := by decide +kernel
      rw [h] at this; exact this
    have hcu : cu2quOk yCfg o.beforeCu2qu = true := by cases o.beforeCu2qu <;> rfl
    have h2 := C09_twoByTwo yCfg [yS0, yS1] o rfl rfl (by decide +kernel) (by decide +kernel) (by decide +kernel)
      (by decide +kernel) hcu (by decide +kernel) h
    simp only [h1, h2, beq_self_eq_true, Bool.and_self]

end Ufo2ft.C09
