import Ufo2ftModel.Props.C01
import Ufo2ftModel.Props.C03
import Ufo2ftModel.Spec.C13
/-! Property C13 theorems: non-exported glyphs vanish without altering the remaining glyphs. -/
namespace Ufo2ft.C13
open Ufo2ft List

/-! ### the decomposing pen with include = skip list, nested = False passes through no skipped base -/

def PassOne (gs : GlyphSet) (skip : List String) (fuel : Nat) : Prop :=
  ∀ base t D, addComp fuel gs true false (some skip) base t = .ok D → ∀ k ∈ D.comps, skip.contains k.base = false
def PassMany (gs : GlyphSet) (skip : List String) (fuel : Nat) : Prop :=
  ∀ t ks D, addComps fuel gs true false (some skip) t ks = .ok D → ∀ k ∈ D.comps, skip.contains k.base = false

theorem passMany_of_passOne (gs : GlyphSet) (skip : List String) (fuel : Nat)
    (h1 : PassOne gs skip fuel) : PassMany gs skip fuel := by
  intro t ks
  induction ks with
  | nil => intro D hD k hk; simp only [addComps] at hD; cases hD; cases hk
  | cons k0 ks ih =>
    intro D hD k hk
    simp only [addComps] at hD
    cases h0 : addComp fuel gs true false (some skip) k0.base (t.compose k0.t) with
    | error e => rw [h0] at hD; cases hD
    | ok d =>
      rw [h0] at hD
      cases hr : addComps fuel gs true false (some skip) t ks with
      | error e => rw [hr] at hD; cases hD
      | ok d' =>
        rw [hr] at hD
        have hD' := Except.ok.inj hD
        subst hD'
        simp only [Drawn.append, mem_append] at hk
        rcases hk with hk | hk
        · exact h1 k0.base _ d h0 k hk
        · exact ih d' hr k hk

theorem passOne_succ (gs : GlyphSet) (skip : List String) (fuel : Nat)
    (h2 : PassMany gs skip fuel) : PassOne gs skip (fuel + 1) := by
  intro base t D hD k hk
  unfold addComp at hD
  by_cases hi : isIncluded (some skip) base = true
  · rw [if_pos hi] at hD
    cases hb : gs.get? base with
    | none => rw [hb] at hD; cases hD
    | some b =>
      rw [hb] at hD
      dsimp only at hD
      have hin : inclNested false (some skip) = some skip := by simp [inclNested]
      rw [hin] at hD
      cases hd : addComps fuel gs true false (some skip) t b.comps with
      | error e => rw [hd] at hD; cases hD
      | ok d =>
        rw [hd] at hD
        have hD' := Except.ok.inj hD
        subst hD'
        exact h2 t b.comps d hd k hk
  · rw [if_neg hi] at hD
    have hD' := Except.ok.inj hD
    subst hD'
    simp only [mem_singleton] at hk
    subst hk
    simpa [isIncluded] using hi

theorem pen_pass (gs : GlyphSet) (skip : List String) : ∀ fuel, PassOne gs skip fuel ∧ PassMany gs skip fuel := by
  intro fuel
  induction fuel with
  | zero =>
    have h0 : PassOne gs skip 0 := by
      intro base t D hD; simp only [addComp] at hD; cases hD
    exact ⟨h0, passMany_of_passOne gs skip 0 h0⟩
  | succ n ih =>
    have h1 := passOne_succ gs skip n ih.2
    exact ⟨h1, passMany_of_passOne gs skip (n + 1) h1⟩

/-- the glyph stored under `n` references no skipped glyph -/
def NoSkipAt (skip : List String) (gs : GlyphSet) (n : String) : Prop :=
  ∀ g, gs.get? n = some g → ∀ k ∈ g.comps, skip.contains k.base = false

/-- metrics-like data of glyph `n` agree in the two sets -/
def SameData (a b : GlyphSet) : Prop :=
  ∀ n ga gb, a.get? n = some ga → b.get? n = some gb →
    ga.width = gb.width ∧ ga.height = gb.height ∧ ga.anchors = gb.anchors

theorem decomposeGlyph_data (gs : GlyphSet) (nested : Bool) (incl : Option (List String)) (g g' : Glyph)
    (h : decomposeGlyph gs nested incl g = .ok g') :
    g'.width = g.width ∧ g'.height = g.height ∧ g'.anchors = g.anchors := by
  unfold decomposeGlyph at h
  cases hd : addComps (gs.length + 1) gs true nested incl Affine.id g.comps with
  | error e => rw [hd] at h; cases h
  | ok d => rw [hd] at h; have := Except.ok.inj h; subst this; exact ⟨rfl, rfl, rfl⟩

/-- the decomposition phase of SkipExportGlyphsFilter over any visiting order: afterwards every visited glyph references
    no skipped glyph, and widths / heights / anchors are untouched -/
theorem skipLoop (skip : List String) :
    ∀ (order : List String) (st st' : FState), filterLoop (skipExportStep skip) (fun _ => true) order st = .ok st' →
      Named st.gs → (∀ n ∈ st.modified, NoSkipAt skip st.gs n) →
      Named st'.gs ∧ (∀ n ∈ st'.modified, NoSkipAt skip st'.gs n) ∧ (∀ n ∈ order, NoSkipAt skip st'.gs n) ∧
      (∀ n, NoSkipAt skip st.gs n → NoSkipAt skip st'.gs n) ∧ SameData st'.gs st.gs ∧
      (∀ n, (st'.gs.get? n).isSome = (st.gs.get? n).isSome) := by
  intro order
  induction order with
  | nil =>
    intro st st' h hn hm
    simp only [filterLoop] at h
    have := Except.ok.inj h; subst this
    refine ⟨hn, hm, fun n hn' => (by cases hn'), fun n h => h, ?_, fun n => rfl⟩
    intro n ga gb ha hb; rw [ha] at hb; rw [Option.some.inj hb]; exact ⟨rfl, rfl, rfl⟩
  | cons n ns ih =>
    intro st st' h hn hm
    unfold filterLoop at h
    by_cases hmod : st.modified.contains n = true
    · rw [if_pos hmod] at h
      obtain ⟨a, b, c, d, e, f⟩ := ih st st' h hn hm
      refine ⟨a, b, ?_, d, e, f⟩
      intro x hx
      rcases mem_cons.mp hx with rfl | hx
      · exact d x (hm x (by simpa using hmod))
      · exact c x hx
    · rw [if_neg hmod] at h
      cases hget : st.gs.get? n with
      | none => rw [hget] at h; cases h
      | some g =>
        rw [hget] at h
        dsimp only at h
        rw [if_pos rfl] at h
        have hname : g.name = n := hn n g hget
        unfold skipExportStep at h
        by_cases he : (g.comps.isEmpty || !(g.comps.any (fun k => skip.contains k.base))) = true
        · rw [if_pos he] at h
          dsimp only at h
          rw [if_neg (by simp)] at h
          obtain ⟨a, b, c, d, e, f⟩ := ih st st' h hn hm
          refine ⟨a, b, ?_, d, e, f⟩
          intro x hx
          rcases mem_cons.mp hx with rfl | hx
          · apply d x
            intro g0 hg0 k hk
            rw [hget] at hg0; rw [← Option.some.inj hg0] at hk
            simp only [Bool.or_eq_true, List.isEmpty_iff, Bool.not_eq_true', List.any_eq_false] at he
            rcases he with he | he
            · rw [he] at hk; cases hk
            · simpa using he k hk
          · exact c x hx
        · rw [if_neg he] at h
          cases hd : decomposeGlyph st.gs false (some skip) g with
          | error err => rw [hd] at h; cases h
          | ok g' =>
            rw [hd] at h
            dsimp only at h
            rw [if_pos rfl] at h
            rw [hname] at h
            have hn1 := named_set st.gs hn n g g' hget (by rw [decomposeGlyph_name st.gs false (some skip) g g' hd, hname])
            have hpass : ∀ k ∈ g'.comps, skip.contains k.base = false := by
              unfold decomposeGlyph at hd
              cases hdd : addComps (st.gs.length + 1) st.gs true false (some skip) Affine.id g.comps with
              | error e => rw [hdd] at hd; cases hd
              | ok d =>
                rw [hdd] at hd
                have := Except.ok.inj hd; subst this
                exact (pen_pass st.gs skip (st.gs.length + 1)).2 Affine.id g.comps d hdd
            have keep : ∀ x, NoSkipAt skip st.gs x → NoSkipAt skip (st.gs.set n g') x := by
              intro x hx g0 hg0
              rw [get?_set st.gs n x g g' hget] at hg0
              by_cases ex : x = n
              · rw [if_pos ex] at hg0; rw [← Option.some.inj hg0]; exact hpass
              · rw [if_neg ex] at hg0; exact hx g0 hg0
            have hnat : NoSkipAt skip (st.gs.set n g') n := by
              intro g0 hg0
              rw [get?_set st.gs n n g g' hget] at hg0
              simp only [if_true] at hg0
              rw [← Option.some.inj hg0]; exact hpass
            have hm1 : ∀ x ∈ addMod st.modified n, NoSkipAt skip (st.gs.set n g') x := by
              intro x hx
              unfold addMod at hx
              split at hx
              · exact keep x (hm x hx)
              · rcases mem_append.mp hx with hx | hx
                · exact keep x (hm x hx)
                · simp only [mem_singleton] at hx; subst hx; exact hnat
            obtain ⟨a, b, c, d, e, f⟩ := ih _ st' h hn1 hm1
            refine ⟨a, b, ?_, fun x hx => d x (keep x hx), ?_, ?_⟩
            · intro x hx
              rcases mem_cons.mp hx with rfl | hx
              · exact d x hnat
              · exact c x hx
            · intro x ga gb ha hb
              have hdat := decomposeGlyph_data st.gs false (some skip) g g' hd
              cases hmid : (st.gs.set n g').get? x with
              | none =>
                have := f x; rw [ha, hmid] at this; cases this
              | some gm =>
                obtain ⟨w1, h1, a1⟩ := e x ga gm ha hmid
                rw [get?_set st.gs n x g g' hget] at hmid
                by_cases ex : x = n
                · rw [if_pos ex] at hmid
                  have := Option.some.inj hmid; subst this
                  rw [ex, hget] at hb
                  have := Option.some.inj hb; subst this
                  exact ⟨w1.trans hdat.1, h1.trans hdat.2.1, a1.trans hdat.2.2⟩
                · rw [if_neg ex] at hmid
                  rw [hmid] at hb
                  have := Option.some.inj hb; subst this
                  exact ⟨w1, h1, a1⟩
            · intro x
              rw [f x, get?_set st.gs n x g g' hget]
              by_cases ex : x = n
              · rw [if_pos ex, ex, hget]; rfl
              · rw [if_neg ex]

/-! ### deleting the skipped glyphs -/

theorem alookup_filter (skip : List String) (n : String) (h : skip.contains n = false) :
    ∀ gs : GlyphSet, alookup n (gs.filter (fun e => !skip.contains e.1)) = alookup n gs := by
  intro gs
  induction gs with
  | nil => rfl
  | cons e gs ih =>
    obtain ⟨k, v⟩ := e
    by_cases hk : skip.contains k = true
    · have hkn : (k == n) = false := by
        cases hkn : (k == n) with
        | false => rfl
        | true => have : k = n := by simpa using hkn
                  rw [this, h] at hk; cases hk
      simp only [List.filter_cons, hk, Bool.not_true, Bool.false_eq_true, if_false, alookup, hkn, ih]
    · simp only [List.filter_cons, hk, Bool.not_false, if_true, alookup, ih]

/-- removing glyphs nobody references (any more) changes no remaining glyph's drawing: exact equality -/
theorem render_filter (skip : List String) (gs : GlyphSet) (hall : ∀ n, NoSkipAt skip gs n) :
    ∀ (f : Nat) (S : Affine) (g : Glyph), (∀ k ∈ g.comps, skip.contains k.base = false) →
      render f (gs.filter (fun e => !skip.contains e.1)) S g = render f gs S g := by
  intro f
  induction f with
  | zero => intro S g _; simp [render]
  | succ f ih =>
    intro S g hg
    rw [render_succ, render_succ]
    congr 1
    apply flatMap_congr'
    intro k hk
    unfold renderOne GlyphSet.get?
    rw [alookup_filter skip k.base (hg k hk) gs]
    cases hb : alookup k.base gs with
    | none => rfl
    | some b => exact ih _ b (hall k.base b hb)

theorem names_filter (skip : List String) (gs : GlyphSet) :
    GlyphSet.names (gs.filter (fun e => !skip.contains e.1)) = (GlyphSet.names gs).filter (fun n => !skip.contains n) := by
  simp only [GlyphSet.names, List.filter_map, Function.comp_def]

theorem set_names (gs : GlyphSet) (n : String) (g : Glyph) : (gs.set n g).names = gs.names := by
  simp only [GlyphSet.names, GlyphSet.set, List.map_map]
  apply List.map_congr_left
  intro e _
  simp only [Function.comp]
  by_cases h : (e.1 == n) = true
  · simp only [h, if_true]; exact (by simpa using h : e.1 = n).symm
  · rw [if_neg h]

end Ufo2ft.C13

namespace Ufo2ft.C13
open Ufo2ft List

theorem loop_names (step : FState → Glyph → Except GErr (FState × Bool)) (hstep : IsDecompStep step)
    (incl : String → Bool) :
    ∀ (order : List String) (st st' : FState), filterLoop step incl order st = .ok st' →
      Named st.gs → GlyphSet.names st'.gs = GlyphSet.names st.gs ∧ Named st'.gs := by
  intro order
  induction order with
  | nil =>
    intro st st' h hn
    simp only [filterLoop] at h
    have := Except.ok.inj h; subst this; exact ⟨rfl, hn⟩
  | cons n ns ih =>
    intro st st' h hn
    unfold filterLoop at h
    by_cases hm : st.modified.contains n = true
    · rw [if_pos hm] at h; exact ih st st' h hn
    · rw [if_neg hm] at h
      cases hget : st.gs.get? n with
      | none => rw [hget] at h; cases h
      | some g =>
        rw [hget] at h
        dsimp only at h
        by_cases hi : incl n = true
        · rw [if_pos hi] at h
          cases hs : step st g with
          | error e => rw [hs] at h; cases h
          | ok res =>
            obtain ⟨st1, r⟩ := res
            rw [hs] at h
            dsimp only at h
            have hname : g.name = n := hn n g hget
            have key : GlyphSet.names st1.gs = GlyphSet.names st.gs ∧ Named st1.gs := by
              rcases hstep st g st1 r hs with e | ⟨nested, incl', g', hd, e⟩
              · rw [e]; exact ⟨rfl, hn⟩
              · rw [e, set_names]
                exact ⟨rfl, named_set st.gs hn g.name g g' (by rw [hname]; exact hget)
                  (decomposeGlyph_name st.gs nested incl' g g' hd)⟩
            by_cases hr : r = true
            · rw [if_pos hr] at h
              have := ih _ st' h key.2
              exact ⟨this.1.trans key.1, this.2⟩
            · rw [if_neg hr] at h
              have := ih _ st' h key.2
              exact ⟨this.1.trans key.1, this.2⟩
        · rw [if_neg hi] at h; exact ih st st' h hn

/-- **C13_render**: with any skip list, over any acyclic glyph set with non-singular components and closed contours:
    the reduced glyph set holds exactly the non-skipped names in the same relative order; every remaining glyph keeps its
    advance, height and anchors, references no skipped glyph any more, and draws the same multiset of contours
    (mirrored components reversed) as before. -/
theorem C13_render (skip : List String) (gs : GlyphSet) (st : FState) (rank : String → Nat)
    (hg : Good gs rank) (hn : Named gs) (h : skipExport skip (fun _ => true) gs = .ok st) :
    GlyphSet.names st.gs = (GlyphSet.names gs).filter (fun n => !skip.contains n) ∧
    ∀ n g, skip.contains n = false → gs.get? n = some g →
      ∃ g', st.gs.get? n = some g' ∧ g'.width = g.width ∧ g'.height = g.height ∧ g'.anchors = g.anchors ∧
        (∀ k ∈ g'.comps, skip.contains k.base = false) ∧
        ∀ S f, S.det ≠ 0 → rank n < f → (render f st.gs S g').Perm (render f gs S g) := by
  unfold skipExport at h
  cases hr : runFilter (skipExportStep skip) (fun _ => true) gs with
  | error e => rw [hr] at h; cases h
  | ok st0 =>
    rw [hr] at h
    have := Except.ok.inj h; subst this
    dsimp only
    have hsame := runFilter_sameRender (skipExportStep skip) rank
      (stepOK_of_isDecomp rank _ (skipExportStep_isDecomp skip)) (fun _ => true) gs st0 hr hg hn
    unfold runFilter at hr
    cases ho : orderedGlyphs gs with
    | error e => rw [ho] at hr; cases hr
    | ok order =>
      rw [ho] at hr
      obtain ⟨_, _, hvis, _, hdata, hsome⟩ := skipLoop skip order ⟨gs, [], []⟩ st0 hr hn (fun x hx => (by cases hx))
      obtain ⟨hnames, _⟩ := loop_names (skipExportStep skip) (skipExportStep_isDecomp skip) (fun _ => true) order
        ⟨gs, [], []⟩ st0 hr hn
      have hall : ∀ n, NoSkipAt skip st0.gs n := by
        intro n g0 hg0
        cases hgn : gs.get? n with
        | none => have := hsome n; rw [hg0] at this; simp only [hgn] at this; cases this
        | some g => exact hvis n (C01.orderedGlyphs_mem gs order ho n g hgn) g0 hg0
      refine ⟨by rw [names_filter, hnames], ?_⟩
      intro n g hsk hget
      cases hp : st0.gs.get? n with
      | none => have := hsome n; rw [hp] at this; simp only [hget] at this; cases this
      | some g' =>
        obtain ⟨hw, hh, ha⟩ := hdata n g' g hp hget
        refine ⟨g', ?_, hw, hh, ha, hall n g' hp, ?_⟩
        · unfold GlyphSet.get?; rw [alookup_filter skip n hsk]; exact hp
        · intro S f hS hf
          rw [render_filter skip st0.gs hall f S g' (hall n g' hp)]
          exact (hsame.2.2 n).2 g' g hp hget S f hS hf

/-- **C13_resolve**: an explicit argument beats the lib lists; without one the lists of all UFOs are united;
    a designspace uses its own lib only. -/
theorem C13_resolve (arg : Option (List String)) (libs : List (List String)) (dsLib : List String) :
    (∀ a, arg = some a → resolveSkip arg libs = a) ∧
    (arg = none → ∀ n, n ∈ resolveSkip arg libs ↔ ∃ l ∈ libs, n ∈ l) ∧
    resolveSkipDS dsLib libs = dsLib := by
  refine ⟨?_, ?_, rfl⟩
  · intro a h; subst h; rfl
  · intro h n; subst h
    simp [resolveSkip, mem_eraseDups, mem_flatMap]

theorem eraseDups_filter (p : String → Bool) : ∀ (l : List String), (l.filter p).eraseDups = l.eraseDups.filter p := by
  intro l
  generalize hlen : l.length = k
  induction k using Nat.strongRecOn generalizing l with
  | _ k ih =>
    cases l with
    | nil => rfl
    | cons a t =>
      have hl : (t.filter fun b => !b == a).length < k := by
        subst hlen; simp only [length_cons]; exact Nat.lt_succ_of_le (length_filter_le _ _)
      have h2 := ih _ hl (t.filter fun b => !b == a) rfl
      by_cases hp : p a = true
      · have e0 : (a :: t).filter p = a :: t.filter p := by simp [filter_cons, hp]
        have e1 : (t.filter p).filter (fun b => !b == a) = (t.filter (fun b => !b == a)).filter p := by
          rw [filter_filter, filter_filter]; apply filter_congr; intro x _; exact Bool.and_comm _ _
        rw [e0, eraseDups_cons, eraseDups_cons, e1, h2]
        simp [filter_cons, hp]
      · have hpf : p a = false := by simpa using hp
        have e0 : (a :: t).filter p = t.filter p := by simp [filter_cons, hpf]
        have e2 : t.filter p = (t.filter (fun b => !b == a)).filter p := by
          rw [filter_filter]; apply filter_congr; intro x _
          by_cases hx : x = a
          · subst hx; simp [hpf]
          · simp [hx]
        rw [e0, eraseDups_cons, e2, h2]
        simp [filter_cons, hpf]

/-- **C13_order** (listed part): the glyphs named by the requested order that survive are the listed glyphs of the full
    set with the skipped names filtered out — relative order unchanged. -/
theorem C13_order_listed (skip names go : List String) :
    C03.listed (names.filter (fun n => !skip.contains n)) go
      = (C03.listed names go).filter (fun n => !skip.contains n) := by
  unfold C03.listed
  rw [← eraseDups_filter, filter_filter]
  congr 1
  apply filter_congr
  intro x _
  by_cases hx : x ∈ skip <;> by_cases hxn : x ∈ names <;> by_cases hxd : x = C03.ND <;>
    simp [hx, hxn, hxd, mem_filter]

end Ufo2ft.C13

namespace Ufo2ft.C13
open Ufo2ft List

/-- sorting commutes with filtering (both sides are sorted permutations of the same list) -/
theorem sortStr_filter (p : String → Bool) (l : List String) : sortStr (l.filter p) = (sortStr l).filter p := by
  apply Perm.eq_of_pairwise (le := fun a b => a ≤ b)
  · intro a b _ _ h1 h2; exact String.le_antisymm h1 h2
  · exact sortStr_sorted _
  · exact (sortStr_sorted l).filter _
  · exact (sortStr_perm _).trans ((sortStr_perm l).filter p).symm

/-- **C13_order**: the compiled glyph order of the reduced glyph set (names not in the skip list) is the order of the full
    glyph set with the skipped names filtered out — the relative order of the remaining glyphs is unchanged — provided
    `.notdef` itself is not skipped. -/
theorem C13_order (skip names go : List String) (hnd : skip.contains C03.ND = false) :
    C03.specOrder (names.filter (fun n => !skip.contains n)) go
      = (C03.specOrder names go).filter (fun n => !skip.contains n) := by
  unfold C03.specOrder
  have hkeep : (!skip.contains C03.ND) = true := by rw [hnd]; rfl
  have hmem : ∀ x, ((C03.listed names go).filter (fun n => !skip.contains n)).contains x
      = ((C03.listed names go).contains x && !skip.contains x) := by
    intro x; rw [Bool.eq_iff_iff]; simp [mem_filter]
  rw [filter_cons, if_pos hkeep, filter_append, C13_order_listed, ← sortStr_filter, filter_filter, filter_filter]
  congr 3
  apply filter_congr
  intro x _
  rw [hmem]
  cases (C03.listed names go).contains x <;> cases skip.contains x <;> cases (x != C03.ND) <;> rfl

end Ufo2ft.C13
