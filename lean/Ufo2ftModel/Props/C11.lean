import Ufo2ftModel.Spec.C11
/-! Property C11: theorems about the model of postProcessor.py. -/
namespace Ufo2ft.C11
open List

/-! ### dict lemmas -/

theorem alookup_isSome_iff [BEq κ] [LawfulBEq κ] {k : κ} {d : List (κ × ν)} :
    (alookup k d).isSome = true ↔ k ∈ keys d := by
  induction d with
  | nil => simp [alookup, keys]
  | cons e d ih =>
    obtain ⟨k', v⟩ := e
    unfold alookup
    by_cases h : (k' == k) = true
    · have : k' = k := by simpa using h
      simp [keys, this]
    · have hne : ¬ k' = k := by simpa using h
      simp only [h, if_false, Bool.false_eq_true]
      rw [ih]
      simp only [keys, map_cons, mem_cons]
      constructor
      · intro hh; exact Or.inr hh
      · rintro (hh | hh)
        · exact absurd hh.symm hne
        · exact hh

theorem alookup_eq_none_iff [BEq κ] [LawfulBEq κ] {k : κ} {d : List (κ × ν)} :
    alookup k d = none ↔ k ∉ keys d := by
  rw [← alookup_isSome_iff (ν := ν)]
  cases alookup k d <;> simp

theorem mem_keys_dset [BEq κ] [LawfulBEq κ] {k k' : κ} {v : ν} {d : List (κ × ν)} :
    k' ∈ keys (dset k v d) ↔ k' = k ∨ k' ∈ keys d := by
  induction d with
  | nil => simp [dset, keys]
  | cons e d ih =>
    obtain ⟨k₀, v₀⟩ := e
    unfold dset
    by_cases h : (k₀ == k) = true
    · have : k₀ = k := by simpa using h
      subst this
      simp [keys]
    · simp only [h, if_false, Bool.false_eq_true]
      simp only [keys, map_cons, mem_cons] at ih ⊢
      rw [ih]
      constructor
      · rintro (hh | hh | hh)
        · exact Or.inr (Or.inl hh)
        · exact Or.inl hh
        · exact Or.inr (Or.inr hh)
      · rintro (hh | hh | hh)
        · exact Or.inr (Or.inl hh)
        · exact Or.inl hh
        · exact Or.inr (Or.inr hh)

/-- assigning a new key appends (Python dicts keep insertion order) -/
theorem dset_of_not_mem [BEq κ] [LawfulBEq κ] {k : κ} {v : ν} {d : List (κ × ν)} (h : k ∉ keys d) :
    dset k v d = d ++ [(k, v)] := by
  induction d with
  | nil => rfl
  | cons e d ih =>
    obtain ⟨k₀, v₀⟩ := e
    simp only [keys, map_cons, mem_cons, not_or] at h
    have hne : (k₀ == k) = false := by
      simp only [beq_eq_false_iff_ne, ne_eq]; exact fun e => h.1 e.symm
    unfold dset
    simp only [hne, Bool.false_eq_true, if_false, cons_append]
    rw [ih h.2]

/-! ### `".%d" % n` -/

theorem suffixed_inj {name : Name} {n m : Nat} (h : suffixed name n = suffixed name m) : n = m := by
  unfold suffixed at h
  have h1 := List.append_cancel_left h
  have h2 : Nat.toDigits 10 n = Nat.toDigits 10 m := by simpa using h1
  have := congrArg (fun l => Nat.ofDigitChars 10 l 0) h2
  simpa [Nat.ofDigitChars_ten_toDigits] using this

/-! ### the `while` loop of `_unique_name` terminates within `|seen| + 1` iterations -/

theorem findFree_fresh_aux (seen : Seen) (name : Name) :
    ∀ (f n : Nat) (S : List Name), S.length < f →
      (∀ m, n ≤ m → suffixed name m ∈ keys seen → suffixed name m ∈ S) →
      suffixed name (findFree seen name f n) ∉ keys seen := by
  intro f
  induction f with
  | zero => intro n S h; exact absurd h (Nat.not_lt_zero _)
  | succ f ih =>
    intro n S hlen hS
    unfold findFree
    by_cases h : (alookup (suffixed name n) seen).isSome = true
    · simp only [h, if_true]
      have hin : suffixed name n ∈ keys seen := alookup_isSome_iff.mp h
      have hinS : suffixed name n ∈ S := hS n (Nat.le_refl _) hin
      apply ih (n + 1) (S.erase (suffixed name n))
      · rw [length_erase_of_mem hinS]
        have : 0 < S.length := length_pos_of_mem hinS
        omega
      · intro m hm hmem
        have hne : suffixed name m ≠ suffixed name n := by
          intro e; have := suffixed_inj e; omega
        exact (mem_erase_of_ne hne).mpr (hS m (by omega) hmem)
    · simp only [h, if_false, Bool.false_eq_true]
      intro hin
      exact h (alookup_isSome_iff.mpr hin)

/-- **termination of `_unique_name`**: with a budget of `|seen| + 1` iterations the loop has found an
    unused suffix (pigeonhole: the `|seen| + 1` candidate names are pairwise different). -/
theorem findFree_fresh (seen : Seen) (name : Name) (n0 : Nat) :
    suffixed name (findFree seen name (seen.length + 1) n0) ∉ keys seen :=
  findFree_fresh_aux seen name (seen.length + 1) n0 (keys seen) (by simp [keys]) (fun _ _ h => h)

/-- every suffix number the loop skipped was taken: the result is the least free one from `n0` on -/
theorem findFree_least (seen : Seen) (name : Name) :
    ∀ (f n0 m : Nat), n0 ≤ m → m < findFree seen name f n0 → suffixed name m ∈ keys seen := by
  intro f
  induction f with
  | zero => intro n0 m h1 h2; simp only [findFree] at h2; omega
  | succ f ih =>
    intro n0 m h1 h2
    unfold findFree at h2
    by_cases h : (alookup (suffixed name n0) seen).isSome = true
    · simp only [h, if_true] at h2
      by_cases hm : m = n0
      · subst hm; exact alookup_isSome_iff.mp h
      · exact ih (n0 + 1) m (by omega) h2
    · simp only [h, if_false, Bool.false_eq_true] at h2; omega

theorem findFree_ge (seen : Seen) (name : Name) : ∀ (f n0 : Nat), n0 ≤ findFree seen name f n0 := by
  intro f
  induction f with
  | zero => intro n0; simp [findFree]
  | succ f ih =>
    intro n0; unfold findFree
    split
    · exact Nat.le_trans (Nat.le_succ _) (ih (n0 + 1))
    · exact Nat.le_refl _

/-- once the loop has stopped on a free name, a larger budget changes nothing: the bounded loop
    computes what Python's unbounded `while` computes -/
theorem findFree_fuel_stable (seen : Seen) (name : Name) :
    ∀ (f f' n0 : Nat), f ≤ f' → suffixed name (findFree seen name f n0) ∉ keys seen →
      findFree seen name f' n0 = findFree seen name f n0 := by
  intro f
  induction f with
  | zero =>
    intro f' n0 _ h
    simp only [findFree] at h ⊢
    cases f' with
    | zero => rfl
    | succ f' =>
      unfold findFree
      have : ¬ (alookup (suffixed name n0) seen).isSome = true := fun e => h (alookup_isSome_iff.mp e)
      simp [this]
  | succ f ih =>
    intro f' n0 hle h
    cases f' with
    | zero => omega
    | succ f' =>
      unfold findFree at h ⊢
      by_cases hc : (alookup (suffixed name n0) seen).isSome = true
      · simp only [hc, if_true] at h ⊢
        exact ih f' (n0 + 1) (by omega) h
      · simp only [hc, if_false, Bool.false_eq_true]

theorem findFree_fuel_irrelevant (seen : Seen) (name : Name) (n0 f : Nat) (h : seen.length + 1 ≤ f) :
    findFree seen name f n0 = findFree seen name (seen.length + 1) n0 :=
  findFree_fuel_stable seen name _ _ n0 h (findFree_fresh seen name n0)

/-! ### `_unique_name` -/

/-- the returned name was not in `seen` -/
theorem uniqueName_fresh (c : Name) (seen : Seen) : (uniqueName c seen).1 ∉ keys seen := by
  unfold uniqueName
  cases h : alookup c seen with
  | none => exact alookup_eq_none_iff.mp h
  | some n0 => exact findFree_fresh seen c n0

/-- afterwards `seen` holds exactly the old names and the returned one -/
theorem uniqueName_keys (c : Name) (seen : Seen) (k : Name) :
    k ∈ keys (uniqueName c seen).2 ↔ k = (uniqueName c seen).1 ∨ k ∈ keys seen := by
  unfold uniqueName
  cases h : alookup c seen with
  | none => simp only; exact mem_keys_dset
  | some n0 =>
    simp only
    have hc : c ∈ keys seen := alookup_isSome_iff.mp (by simp [h])
    rw [mem_keys_dset, mem_keys_dset]
    constructor
    · rintro (hh | hh | hh)
      · exact Or.inl hh
      · exact Or.inr (hh ▸ hc)
      · exact Or.inr hh
    · rintro (hh | hh)
      · exact Or.inl hh
      · exact Or.inr (Or.inr hh)

/-- the returned name is the candidate itself when that is free, else the candidate plus `.N` -/
theorem uniqueName_shape (c : Name) (seen : Seen) :
    (c ∉ keys seen ∧ (uniqueName c seen).1 = c) ∨
    (c ∈ keys seen ∧ ∃ n, (uniqueName c seen).1 = suffixed c n) := by
  unfold uniqueName
  cases h : alookup c seen with
  | none => exact Or.inl ⟨alookup_eq_none_iff.mp h, rfl⟩
  | some n0 => exact Or.inr ⟨alookup_isSome_iff.mp (by simp [h]), _, rfl⟩

/-! ### uniqueness for ANY list of candidates -/

/-- `_unique_name` applied along a list of candidates, threading `seen` -/
def uniqueAll : List Name → Seen → List Name
  | [], _ => []
  | c :: cs, seen => (uniqueName c seen).1 :: uniqueAll cs (uniqueName c seen).2

theorem uniqueAll_length (cs : List Name) (seen : Seen) : (uniqueAll cs seen).length = cs.length := by
  induction cs generalizing seen with
  | nil => rfl
  | cons c cs ih => simp [uniqueAll, ih]

theorem uniqueAll_fresh (cs : List Name) (seen : Seen) : ∀ o ∈ uniqueAll cs seen, o ∉ keys seen := by
  induction cs generalizing seen with
  | nil => intro o h; simp [uniqueAll] at h
  | cons c cs ih =>
    intro o h
    simp only [uniqueAll, mem_cons] at h
    rcases h with h | h
    · subst h; exact uniqueName_fresh c seen
    · intro hin
      exact ih _ o h ((uniqueName_keys c seen o).mpr (Or.inr hin))

/-- **C11_unique**: whatever the candidates (duplicates, names that look like generated suffixes, empty
    names, …) and whatever `seen` starts as, the names given out are pairwise distinct. -/
theorem C11_unique (cs : List Name) (seen : Seen) : (uniqueAll cs seen).Nodup := by
  induction cs generalizing seen with
  | nil => simp [uniqueAll]
  | cons c cs ih =>
    simp only [uniqueAll, nodup_cons]
    refine ⟨?_, ih _⟩
    intro hin
    exact uniqueAll_fresh cs _ _ hin ((uniqueName_keys c seen _).mpr (Or.inl rfl))

theorem isSuffixedOf_suffixed (c : Name) (n : Nat) : isSuffixedOf c (suffixed c n) = true := by
  unfold isSuffixedOf suffixed
  have hp : (c ++ ['.']).isPrefixOf (c ++ '.' :: Nat.toDigits 10 n) = true := by
    rw [isPrefixOf_iff_prefix]
    exact ⟨Nat.toDigits 10 n, by simp⟩
  have hd : (c ++ '.' :: Nat.toDigits 10 n).drop (c.length + 1) = Nat.toDigits 10 n := by
    have : c ++ '.' :: Nat.toDigits 10 n = (c ++ ['.']) ++ Nat.toDigits 10 n := by simp
    rw [this, drop_append_of_le_length (by simp)]
    simp
  simp only [hp, hd, Bool.true_and, Bool.and_eq_true, Bool.not_eq_true', all_eq_true]
  refine ⟨?_, fun ch h => Nat.isDigit_of_mem_toDigits (by decide) (by decide) h⟩
  cases h : Nat.toDigits 10 n with
  | nil => exact absurd h Nat.toDigits_ne_nil
  | cons a l => rfl

/-- the run of `_unique_name` along the candidates meets the declarative description `okAll`:
    a candidate is used unchanged exactly when it is still free, otherwise it gets `.N` and is free -/
theorem uniqueAll_ok (cs : List Name) (seen : Seen) (prev : List Name)
    (h : ∀ k, k ∈ prev ↔ k ∈ keys seen) : okAll prev cs (uniqueAll cs seen) = true := by
  induction cs generalizing seen prev with
  | nil => rfl
  | cons c cs ih =>
    simp only [uniqueAll, okAll, Bool.and_eq_true]
    constructor
    · unfold okUnique
      have hfresh : ¬ (uniqueName c seen).1 ∈ prev := fun hh => uniqueName_fresh c seen ((h _).mp hh)
      rcases uniqueName_shape c seen with ⟨hc, he⟩ | ⟨hc, n, he⟩
      · have : ¬ c ∈ prev := fun hh => hc ((h _).mp hh)
        simp [this, he]
      · have : c ∈ prev := (h _).mpr hc
        simp only [contains_eq_mem, this, decide_true, if_true, Bool.and_eq_true, Bool.not_eq_true',
          decide_eq_false_iff_not]
        exact ⟨he ▸ isSuffixedOf_suffixed c n, hfresh⟩
    · apply ih
      intro k
      rw [uniqueName_keys, mem_cons, h]

/-- what `okAll` buys: names described by it are pairwise distinct and avoid `prev` -/
theorem okAll_nodup : ∀ (prev cs os : List Name), okAll prev cs os = true →
    os.Nodup ∧ ∀ o ∈ os, o ∉ prev := by
  intro prev cs
  induction cs generalizing prev with
  | nil =>
    intro os h
    cases os with
    | nil => simp
    | cons o os => simp [okAll] at h
  | cons c cs ih =>
    intro os h
    cases os with
    | nil => simp [okAll] at h
    | cons o os =>
      simp only [okAll, Bool.and_eq_true] at h
      obtain ⟨h1, h2⟩ := h
      obtain ⟨hnd, hav⟩ := ih _ _ h2
      have ho : o ∉ prev := by
        unfold okUnique at h1
        by_cases hc : prev.contains c = true
        · simp only [hc, if_true, Bool.and_eq_true, Bool.not_eq_true'] at h1
          intro hh
          have : prev.contains o = true := by simpa using hh
          rw [this] at h1; exact absurd h1.2 (by simp)
        · simp only [hc, if_false, Bool.false_eq_true] at h1
          have : o = c := by simpa using h1
          subst this
          simpa using hc
      refine ⟨nodup_cons.mpr ⟨fun hin => hav o hin (mem_cons_self), hnd⟩, ?_⟩
      intro x hx
      rcases mem_cons.mp hx with hx | hx
      · subst hx; exact ho
      · intro hp; exact hav x hx (mem_cons_of_mem _ hp)

/-! ### legality -/

theorem invalidChar_eq (c : Char) : invalidChar c = !legalChar c := by
  unfold invalidChar legalChar Char.isAlphanum Char.isAlpha Char.isUpper Char.isLower Char.isDigit
  have e1 : (c == '_') = (c.toNat == 95) := by
    rw [Bool.eq_iff_iff]; simp only [beq_iff_eq]
    constructor
    · intro h; subst h; rfl
    · intro h; apply Char.ext; apply UInt32.toNat_inj.mp; exact h
  have e2 : (c == '.') = (c.toNat == 46) := by
    rw [Bool.eq_iff_iff]; simp only [beq_iff_eq]
    constructor
    · intro h; subst h; rfl
    · intro h; apply Char.ext; apply UInt32.toNat_inj.mp; exact h
  rw [e1, e2]
  simp only [Char.toNat, UInt32.le_iff_toNat_le, ge_iff_le]
  have nA : ('A'.val).toNat = 65 := rfl
  have nZ : ('Z'.val).toNat = 90 := rfl
  have na : ('a'.val).toNat = 97 := rfl
  have nz : ('z'.val).toNat = 122 := rfl
  have n0 : ('0'.val).toNat = 48 := rfl
  have n9 : ('9'.val).toNat = 57 := rfl
  simp only [nA, nZ, na, nz, n0, n9]
  rw [Bool.eq_iff_iff]
  simp only [Bool.not_eq_true', Bool.or_eq_false_iff,
    Bool.and_eq_false_iff, decide_eq_false_iff_not, beq_eq_false_iff_ne, Bool.decide_and]
  omega

/-- the regex substitution keeps exactly the legal characters -/
theorem sanitize_eq_clean (n : Name) : sanitize n = clean n := by
  unfold sanitize clean
  apply filter_congr
  intro c _
  rw [invalidChar_eq]; simp

theorem clean_legal (n : Name) : legalName (clean n) = true := by
  simp [legalName, clean]

theorem suffixed_legal {c : Name} (h : legalName c = true) (n : Nat) : legalName (suffixed c n) = true := by
  unfold legalName suffixed at *
  simp only [all_append, all_cons, Bool.and_eq_true, all_eq_true] at *
  refine ⟨h, by decide, ?_⟩
  intro ch hch
  have := Nat.isDigit_of_mem_toDigits (b := 10) (by decide) (by decide) hch
  simp [legalChar, Char.isAlphanum, this]

theorem uniqueName_legal {c : Name} (h : legalName c = true) (seen : Seen) :
    legalName (uniqueName c seen).1 = true := by
  rcases uniqueName_shape c seen with ⟨_, he⟩ | ⟨_, n, he⟩
  · rw [he]; exact h
  · rw [he]; exact suffixed_legal h n

theorem uniqueAll_legal (cs : List Name) (seen : Seen) (h : ∀ c ∈ cs, legalName c = true) :
    ∀ o ∈ uniqueAll cs seen, legalName o = true := by
  induction cs generalizing seen with
  | nil => intro o ho; simp [uniqueAll] at ho
  | cons c cs ih =>
    intro o ho
    simp only [uniqueAll, mem_cons] at ho
    rcases ho with ho | ho
    · subst ho; exact uniqueName_legal (h c mem_cons_self) seen
    · exact ih _ (fun c' hc' => h c' (mem_cons_of_mem _ hc')) o ho

/-! ### the loop of `_build_production_names` in closed form -/

/-- the glyphs that get a new name, in glyph order -/
def cov (i : Input) (order : List Name) : List Name := order.filter (renames i)

/-- the loop = give the candidates of the covered glyphs to `_unique_name` in order and record the
    results with successive dict assignments -/
theorem buildLoop_eq (i : Input) (order : List Name) (seen : Seen) (rm : List (Name × Name)) :
    buildLoop i order seen rm =
      ((cov i order).zip (uniqueAll ((cov i order).map (validName i)) seen)).foldl
        (fun rm p => dset p.1 p.2 rm) rm := by
  induction order generalizing seen rm with
  | nil => rfl
  | cons n order ih =>
    unfold buildLoop
    by_cases h : renames i n = true
    · simp only [h, Bool.not_true, Bool.false_eq_true, if_false, cov, filter_cons_of_pos, map_cons,
        uniqueAll, zip_cons_cons, foldl_cons]
      exact ih _ _
    · have h' : renames i n = false := by simpa using h
      simp only [h', Bool.not_false, if_true, cov, filter_cons, Bool.false_eq_true, if_false]
      exact ih _ _

theorem foldl_dset_fresh (ks : List Name) : ∀ (vs : List Name) (rm : List (Name × Name)),
    ks.Nodup → (∀ k ∈ ks, k ∉ keys rm) →
    (ks.zip vs).foldl (fun rm p => dset p.1 p.2 rm) rm = rm ++ ks.zip vs := by
  induction ks with
  | nil => intro vs rm _ _; simp
  | cons k ks ih =>
    intro vs rm hnd hk
    cases vs with
    | nil => simp
    | cons v vs =>
      simp only [zip_cons_cons, foldl_cons]
      rw [dset_of_not_mem (hk k mem_cons_self)]
      rw [ih vs _ (nodup_cons.mp hnd).2]
      · simp
      · intro k' hk' hin
        simp only [keys, map_append, map_cons, map_nil, mem_append, mem_singleton] at hin
        rcases hin with hin | hin
        · exact hk k' (mem_cons_of_mem _ hk') hin
        · subst hin; exact (nodup_cons.mp hnd).1 hk'

theorem mem_keys_foldl_dset (l : List Name) : ∀ (d : Seen) (k : Name),
    k ∈ keys (l.foldl (fun d n => dset n 1 d) d) ↔ k ∈ l ∨ k ∈ keys d := by
  induction l with
  | nil => intro d k; simp
  | cons a l ih =>
    intro d k
    simp only [foldl_cons, ih, mem_keys_dset, mem_cons]
    constructor
    · rintro (h | h | h)
      · exact Or.inl (Or.inr h)
      · exact Or.inl (Or.inl h)
      · exact Or.inr h
    · rintro ((h | h) | h)
      · exact Or.inr (Or.inl h)
      · exact Or.inl h
      · exact Or.inr (Or.inr h)

/-- the initial `seen` holds exactly the names of the glyphs that are not renamed -/
theorem keys_seenInit (i : Input) (k : Name) : k ∈ unrenamed i ↔ k ∈ keys (seenInit i) := by
  unfold seenInit unrenamed
  rw [mem_keys_foldl_dset]; simp [keys]

/-- with distinct glyph names the rename map is exactly (covered glyph ↦ its unique name) -/
theorem buildProductionNames_eq (i : Input) (h : i.order.Nodup) :
    buildProductionNames i =
      (cov i i.order).zip (uniqueAll ((cov i i.order).map (validName i)) (seenInit i)) := by
  unfold buildProductionNames
  rw [buildLoop_eq]
  have := foldl_dset_fresh (cov i i.order) (uniqueAll ((cov i i.order).map (validName i)) (seenInit i)) []
    (by unfold cov; exact h.filter _) (by simp [keys])
  simpa using this

theorem alookup_zip_of_not_mem (ks vs : List Name) (k : Name) (h : k ∉ ks) :
    alookup k (ks.zip vs) = none := by
  apply alookup_eq_none_iff.mpr
  intro hin
  simp only [keys] at hin
  obtain ⟨p, hp, rfl⟩ := mem_map.mp hin
  exact h (of_mem_zip hp).1

theorem map_alookup_zip (ks : List Name) : ∀ (vs : List Name), ks.Nodup → ks.length = vs.length →
    ks.map (fun k => (alookup k (ks.zip vs)).getD k) = vs := by
  induction ks with
  | nil => intro vs _ h; cases vs with | nil => rfl | cons _ _ => simp at h
  | cons k ks ih =>
    intro vs hnd hlen
    cases vs with
    | nil => simp at hlen
    | cons v vs =>
      simp only [zip_cons_cons, map_cons, alookup, beq_self_eq_true, if_true, Option.getD_some, cons.injEq,
        true_and]
      rw [← ih vs (nodup_cons.mp hnd).2 (by simpa using hlen)]
      apply map_congr_left
      intro k' hk'
      have : (k == k') = false := by
        simp only [beq_eq_false_iff_ne, ne_eq]
        intro e; subst e; exact (nodup_cons.mp hnd).1 hk'
      simp only [this, Bool.false_eq_true, if_false]
      rw [ih vs (nodup_cons.mp hnd).2 (by simpa using hlen)]

theorem zip_map_filter (f : Name → Name) (p : Name → Bool) (l : List Name) :
    (l.zip (l.map f)).filter (fun q => p q.1) = (l.filter p).map (fun n => (n, f n)) := by
  induction l with
  | nil => rfl
  | cons a l ih =>
    simp only [map_cons, zip_cons_cons, filter_cons]
    by_cases h : p a = true
    · simp [h, ih]
    · simp [h, ih]

theorem mem_zip_map_self (f : Name → Name) (l : List Name) (p : Name × Name)
    (h : p ∈ l.zip (l.map f)) : p.2 = f p.1 := by
  induction l with
  | nil => simp at h
  | cons a l ih =>
    simp only [map_cons, zip_cons_cons, mem_cons] at h
    rcases h with h | h
    · subst h; rfl
    · exact ih h


theorem covered_final (i : Input) (h : i.order.Nodup) :
    (covered i (finalOrder i)).map (·.1) = cov i i.order ∧
    (covered i (finalOrder i)).map (·.2) = uniqueAll ((cov i i.order).map (validName i)) (seenInit i) := by
  unfold covered finalOrder
  rw [zip_map_filter]
  simp only [map_map]
  constructor
  · have : ((fun x : Name × Name => x.1) ∘ fun n => (n, applyMap (buildProductionNames i) n)) = id := rfl
    rw [this]; simp [cov]
  · have : ((fun x : Name × Name => x.2) ∘ fun n => (n, applyMap (buildProductionNames i) n))
        = fun k => (alookup k (buildProductionNames i)).getD k := rfl
    rw [this, buildProductionNames_eq i h]
    exact map_alookup_zip _ _ (h.filter _) (by simp [uniqueAll_length, cov])

/-! ### where each name comes from -/

theorem buildProductionName_eq (i : Input) (g : Name) : buildProductionName i g = specProd i g := by
  unfold buildProductionName specProd mappedName autoName
  cases i.psNames with
  | none => rfl
  | some m =>
    cases m with
    | nil => rfl
    | cons e m =>
      simp only [isEmpty_cons, Bool.not_false, if_true, reduceCtorEq, if_false]
      cases alookup g (e :: m) with
      | none => rfl
      | some p => cases p <;> rfl

/-- **C11_source (candidate)**: the name handed to the uniqueness step is the cleaned production name,
    or the cleaned original name when that would be longer than 63 characters -/
theorem validName_eq (i : Input) (g : Name) : validName i g = specCand i g := by
  unfold validName specCand
  simp only [buildProductionName_eq, sanitize_eq_clean]
  by_cases h : g = specProd i g
  · have hb : (g != specProd i g) = false := by rw [bne_eq_false_iff_eq]; exact h
    simp only [hb, Bool.false_eq_true, if_false]
    rw [← h]; simp
  · have hb : (g != specProd i g) = true := by rw [bne_iff_ne]; exact h
    simp only [hb, if_true, maxLen]
    rfl

theorem specCand_legal (i : Input) (g : Name) : legalName (specCand i g) = true := by
  unfold specCand
  simp only
  split <;> exact clean_legal _

/-- **C11_renamed** (uniqueness among renamed glyphs + source + legality + positions): for every font
    whose glyph names are distinct, the model's final glyph order satisfies the per-glyph predicate. -/
theorem C11_renamed (i : Input) (h : i.order.Nodup) : holdsRenamed i (finalOrder i) = true := by
  obtain ⟨h1, h2⟩ := covered_final i h
  unfold holdsRenamed holdsRenamedFrom
  simp only [Bool.and_eq_true]
  refine ⟨⟨⟨by simp [finalOrder], ?_⟩, ?_⟩, ?_⟩
  · rw [all_eq_true]
    intro p hp
    have hp2 : p.2 = applyMap (buildProductionNames i) p.1 := mem_zip_map_self _ _ _ hp
    by_cases hg : renames i p.1 = true
    · simp [hg]
    · have hnc : p.1 ∉ cov i i.order := by
        intro hin; exact hg (mem_filter.mp hin).2
      have : applyMap (buildProductionNames i) p.1 = p.1 := by
        unfold applyMap
        rw [buildProductionNames_eq i h, alookup_zip_of_not_mem _ _ _ hnc]; rfl
      simp [hp2, this]
  · rw [h2]
    have e : (covered i (finalOrder i)).map (fun p => specCand i p.1)
        = ((covered i (finalOrder i)).map (·.1)).map (specCand i) := by simp
    rw [e, h1]
    have e2 : (cov i i.order).map (validName i) = (cov i i.order).map (specCand i) :=
      map_congr_left (fun g _ => validName_eq i g)
    rw [e2]
    exact uniqueAll_ok _ (seenInit i) (unrenamed i) (keys_seenInit i)
  · rw [all_eq_true]
    intro p hp
    have : p.2 ∈ (covered i (finalOrder i)).map (·.2) := mem_map.mpr ⟨p, hp, rfl⟩
    rw [h2] at this
    refine uniqueAll_legal _ _ ?_ _ this
    intro c hc
    obtain ⟨g, _, rfl⟩ := mem_map.mp hc
    rw [validName_eq]; exact specCand_legal i g

theorem nodup_map_inj (f : Name → Name) (l : List Name) (h : (l.map f).Nodup) :
    ∀ a ∈ l, ∀ b ∈ l, f a = f b → a = b := by
  induction l with
  | nil => intro a ha; simp at ha
  | cons x l ih =>
    simp only [map_cons, nodup_cons, mem_map, not_exists, not_and] at h
    intro a ha b hb e
    rcases mem_cons.mp ha with ha' | ha' <;> rcases mem_cons.mp hb with hb' | hb'
    · rw [ha', hb']
    · rw [ha'] at e; exact absurd e.symm (h.1 b hb')
    · rw [hb'] at e; exact absurd e (h.1 a ha')
    · exact ih h.2 a ha' b hb' e

/-- what the renaming does to one glyph of the font: an unsourced glyph keeps its name, which is
    reserved; a sourced glyph gets one of the names given out, none of which is reserved -/
theorem applyMap_cases (i : Input) (h : i.order.Nodup) (a : Name) (ha : a ∈ i.order) :
    (renames i a = false ∧ applyMap (buildProductionNames i) a = a ∧ a ∈ keys (seenInit i)) ∨
    (renames i a = true ∧ a ∈ cov i i.order ∧
      applyMap (buildProductionNames i) a ∈ uniqueAll ((cov i i.order).map (validName i)) (seenInit i)) := by
  by_cases hg : renames i a = true
  · right
    have hc : a ∈ cov i i.order := mem_filter.mpr ⟨ha, hg⟩
    refine ⟨hg, hc, ?_⟩
    have hm := map_alookup_zip (cov i i.order) (uniqueAll ((cov i i.order).map (validName i)) (seenInit i))
      (by unfold cov; exact h.filter _) (by simp [uniqueAll_length])
    rw [← hm]
    unfold applyMap
    rw [buildProductionNames_eq i h]
    exact mem_map.mpr ⟨a, hc, rfl⟩
  · left
    have hg' : renames i a = false := by simpa using hg
    have hnc : a ∉ cov i i.order := fun hin => hg (mem_filter.mp hin).2
    refine ⟨hg', ?_, ?_⟩
    · unfold applyMap
      rw [buildProductionNames_eq i h, alookup_zip_of_not_mem _ _ _ hnc]; rfl
    · exact (keys_seenInit i a).mp (mem_filter.mpr ⟨ha, by simp [hg']⟩)

/-- **C11_perm_injective**: for ANY glyph order with distinct names and ANY glyph set - including
    glyphs the post-processor has no source for, such as a synthesised '.notdef' - the renaming is
    injective on the glyphs of the font: no two glyphs end up with the same name. -/
theorem C11_perm_injective (i : Input) (h : i.order.Nodup) :
    ∀ a ∈ i.order, ∀ b ∈ i.order,
      applyMap (buildProductionNames i) a = applyMap (buildProductionNames i) b → a = b := by
  have hm := map_alookup_zip (cov i i.order) (uniqueAll ((cov i i.order).map (validName i)) (seenInit i))
    (by unfold cov; exact h.filter _) (by simp [uniqueAll_length])
  have hnd := C11_unique ((cov i i.order).map (validName i)) (seenInit i)
  have hfresh := uniqueAll_fresh ((cov i i.order).map (validName i)) (seenInit i)
  have hinj := nodup_map_inj (fun k => (alookup k ((cov i i.order).zip
      (uniqueAll ((cov i i.order).map (validName i)) (seenInit i)))).getD k) (cov i i.order) (by rw [hm]; exact hnd)
  intro a ha b hb e
  rcases applyMap_cases i h a ha with ⟨_, ea, ka⟩ | ⟨_, ca, ma⟩ <;>
    rcases applyMap_cases i h b hb with ⟨_, eb, kb⟩ | ⟨_, cb, mb⟩
  · rw [ea, eb] at e; exact e
  · rw [ea] at e; rw [← e] at mb; exact absurd ka (hfresh _ mb)
  · rw [eb] at e; rw [e] at ma; exact absurd kb (hfresh _ ma)
  · apply hinj a ca b cb
    have := e
    unfold applyMap at this
    rw [buildProductionNames_eq i h] at this
    exact this

/-- **C11_distinct**: for ANY glyph order with distinct names and ANY glyph set, the final glyph names
    are pairwise distinct (no side condition on unsourced glyphs any more: their names are reserved). -/
theorem C11_distinct (i : Input) (h : i.order.Nodup) : holdsDistinct (finalOrder i) = true := by
  have hnd : (finalOrder i).Nodup := by
    unfold finalOrder Nodup
    rw [pairwise_map]
    refine Pairwise.imp_of_mem ?_ h
    intro a b ha hb hne e
    exact hne (C11_perm_injective i h a ha b hb e)
  exact decide_eq_true hnd

/-- **C11_notdef_kept**: for ANY glyph order with distinct names, ANY glyph set and ANY
    `public.postscriptNames` map (including one with an entry for '.notdef'), the glyph called '.notdef' in the
    source order is still called '.notdef' afterwards, at the same index. -/
theorem C11_notdef_kept (i : Input) (h : i.order.Nodup) (k : Nat) (hk : i.order[k]? = some notdef) :
    (finalOrder i)[k]? = some notdef := by
  have hmem : notdef ∈ i.order := mem_of_getElem? hk
  have hr : renames i notdef = false := by simp [renames]
  rcases applyMap_cases i h notdef hmem with ⟨_, e, _⟩ | ⟨ht, _, _⟩
  · simp [finalOrder, hk, e]
  · rw [hr] at ht; cases ht

/-- …and nobody else gets that name: a glyph whose production name would be '.notdef' receives a suffixed one -/
theorem C11_notdef_unique (i : Input) (h : i.order.Nodup) (hmem : notdef ∈ i.order) (a : Name) (ha : a ∈ i.order)
    (e : applyMap (buildProductionNames i) a = notdef) : a = notdef := by
  have hr : renames i notdef = false := by simp [renames]
  have e0 : applyMap (buildProductionNames i) notdef = notdef := by
    rcases applyMap_cases i h notdef hmem with ⟨_, e, _⟩ | ⟨ht, _, _⟩
    · exact e
    · rw [hr] at ht; cases ht
  exact C11_perm_injective i h a ha notdef hmem (by rw [e, e0])

/-- the function as it was BEFORE '.notdef' was exempted (`buildProductionNamesOldNotdef`) did not have this
    property: `public.postscriptNames = {'.notdef': 'nd'}` renamed the first glyph, after which fontTools cannot
    write a 'CFF ' table (`assert charset[0] == ".notdef"`); the current function keeps the name, and gives a glyph
    that asks for '.notdef' the name '.notdef.1'. -/
theorem C11_old_notdef_renamed :
    ∃ i : Input, i.order.Nodup ∧ (finalOrderOldNotdef i).head? ≠ some notdef ∧
      holdsRenamed i (finalOrderOldNotdef i) = false ∧
      finalOrder i = [".notdef".toList, ".notdef.1".toList, "b".toList] :=
  ⟨{ order := [".notdef".toList, "a".toList, "b".toList],
     glyphSet := [(".notdef".toList, none), ("a".toList, some 0x61), ("b".toList, none)],
     psNames := some [(".notdef".toList, "nd".toList), ("a".toList, ".notdef".toList)] },
   by decide, by decide, by decide, by decide⟩

/-- the OLD function (`seen = {}`) did not have this property: a glyph that is not in the glyph set
    kept its name without being recorded, so a renamed glyph could take the same name (variable-font
    builds pass the default source as glyph set, which lacks the synthesised '.notdef').  The new
    function gives the second glyph `.notdef.1`. -/
theorem C11_old_collision :
    ∃ i : Input, i.order.Nodup ∧ holdsDistinct (finalOrderOld i) = false ∧ holdsDistinct (finalOrder i) = true ∧
      finalOrder i = [".notdef".toList, ".notdef.1".toList] :=
  ⟨{ order := [".notdef".toList, "a".toList], glyphSet := [("a".toList, none)],
     psNames := some [("a".toList, ".notdef".toList)] }, by decide, by decide, by decide, by decide⟩

/-! ### string splitting: the Python-shaped model functions against their declarative reading -/

theorem takeWhile_append_cons_stop (p : Char → Bool) (l1 : Name) (x : Char) (l2 : Name)
    (h1 : ∀ y ∈ l1, p y = true) (hx : p x = false) : (l1 ++ x :: l2).takeWhile p = l1 := by
  induction l1 with
  | nil => simp [hx]
  | cons a l1 ih =>
    simp only [cons_append, takeWhile_cons, h1 a mem_cons_self, if_true]
    rw [ih (fun y hy => h1 y (mem_cons_of_mem _ hy))]

theorem dropWhile_append_cons_stop (p : Char → Bool) (l1 : Name) (x : Char) (l2 : Name)
    (h1 : ∀ y ∈ l1, p y = true) (hx : p x = false) : (l1 ++ x :: l2).dropWhile p = x :: l2 := by
  induction l1 with
  | nil => simp [hx]
  | cons a l1 ih =>
    simp only [cons_append, dropWhile_cons, h1 a mem_cons_self, if_true]
    exact ih (fun y hy => h1 y (mem_cons_of_mem _ hy))

theorem splitFirst_some (c : Char) : ∀ (l a b : Name), splitFirst c l = some (a, b) →
    l = a ++ c :: b ∧ c ∉ a := by
  intro l
  induction l with
  | nil => intro a b h; simp [splitFirst] at h
  | cons x xs ih =>
    intro a b h
    unfold splitFirst at h
    by_cases hx : x = c
    · simp only [hx, if_true, Option.some.injEq, Prod.mk.injEq] at h
      obtain ⟨rfl, rfl⟩ := h
      simp [hx]
    · simp only [hx, if_false] at h
      cases hs : splitFirst c xs with
      | none => simp [hs] at h
      | some ab =>
        obtain ⟨a', b'⟩ := ab
        simp only [hs, Option.some.injEq, Prod.mk.injEq] at h
        obtain ⟨rfl, rfl⟩ := h
        obtain ⟨e, hn⟩ := ih a' b' hs
        refine ⟨by rw [e]; simp, ?_⟩
        intro hin
        rcases mem_cons.mp hin with hin | hin
        · exact hx hin.symm
        · exact hn hin

theorem splitFirst_none (c : Char) : ∀ (l : Name), splitFirst c l = none → c ∉ l := by
  intro l
  induction l with
  | nil => intro _; simp
  | cons x xs ih =>
    intro h
    unfold splitFirst at h
    by_cases hx : x = c
    · simp [hx] at h
    · simp only [hx, if_false] at h
      cases hs : splitFirst c xs with
      | none =>
        intro hin
        rcases mem_cons.mp hin with hin | hin
        · exact hx hin.symm
        · exact ih hs hin
      | some ab => simp [hs] at h

theorem splitLast_some (c : Char) : ∀ (l a b : Name), splitLast c l = some (a, b) →
    l = a ++ c :: b ∧ c ∉ b := by
  intro l
  induction l with
  | nil => intro a b h; simp [splitLast] at h
  | cons x xs ih =>
    intro a b h
    unfold splitLast at h
    cases hs : splitLast c xs with
    | some ab =>
      obtain ⟨a', b'⟩ := ab
      simp only [hs, Option.some.injEq, Prod.mk.injEq] at h
      obtain ⟨rfl, rfl⟩ := h
      obtain ⟨e, hn⟩ := ih a' b' hs
      exact ⟨by rw [e]; simp, hn⟩
    | none =>
      simp only [hs] at h
      by_cases hx : x = c
      · simp only [hx, if_true, Option.some.injEq, Prod.mk.injEq] at h
        obtain ⟨rfl, rfl⟩ := h
        refine ⟨by simp [hx], ?_⟩
        clear ih
        revert hs
        induction xs with
        | nil => intro _; simp
        | cons y ys ih2 =>
          intro hs
          unfold splitLast at hs
          cases hs2 : splitLast c ys with
          | some ab => simp [hs2] at hs
          | none =>
            simp only [hs2] at hs
            by_cases hy : y = c
            · simp [hy] at hs
            · intro hin
              rcases mem_cons.mp hin with hin | hin
              · exact hy hin.symm
              · exact ih2 hs2 hin
      · simp [hx] at h

theorem splitLast_none (c : Char) : ∀ (l : Name), splitLast c l = none → c ∉ l := by
  intro l
  induction l with
  | nil => intro _; simp
  | cons y ys ih2 =>
    intro hs
    unfold splitLast at hs
    cases hs2 : splitLast c ys with
    | some ab => simp [hs2] at hs
    | none =>
      simp only [hs2] at hs
      by_cases hy : y = c
      · simp [hy] at hs
      · intro hin
        rcases mem_cons.mp hin with hin | hin
        · exact hy hin.symm
        · exact ih2 hs2 hin

/-- `name.split(c, 1)`, declaratively: everything before the first `c` / everything after it -/
theorem splitFirst_spec (c : Char) (l : Name) :
    splitFirst c l = if l.contains c then some (beforeFirst c l, afterFirst c l) else none := by
  cases h : splitFirst c l with
  | none =>
    have := splitFirst_none c l h
    simp [this]
  | some ab =>
    obtain ⟨a, b⟩ := ab
    obtain ⟨e, hn⟩ := splitFirst_some c l a b h
    have hc : l.contains c = true := by rw [e]; simp
    have h1 : ∀ y ∈ a, (y != c) = true := by
      intro y hy; simp only [bne_iff_ne, ne_eq]; intro e'; subst e'; exact hn hy
    simp only [beforeFirst, afterFirst, e]
    rw [takeWhile_append_cons_stop _ a c b h1 (by simp), dropWhile_append_cons_stop _ a c b h1 (by simp)]
    simp

/-- `name.rsplit(c, 1)`, declaratively: everything before the last `c` / everything after it -/
theorem splitLast_spec (c : Char) (l : Name) :
    splitLast c l = if l.contains c then some (beforeLast c l, afterLast c l) else none := by
  cases h : splitLast c l with
  | none =>
    have := splitLast_none c l h
    simp [this]
  | some ab =>
    obtain ⟨a, b⟩ := ab
    obtain ⟨e, hn⟩ := splitLast_some c l a b h
    have hc : l.contains c = true := by rw [e]; simp
    have h1 : ∀ y ∈ b.reverse, (y != c) = true := by
      intro y hy; simp only [bne_iff_ne, ne_eq]; intro e'; subst e'; exact hn (mem_reverse.mp hy)
    have hr : l.reverse = b.reverse ++ c :: a.reverse := by rw [e]; simp
    simp only [hc, if_true, beforeLast, afterLast, hr]
    rw [takeWhile_append_cons_stop _ _ c _ h1 (by simp), dropWhile_append_cons_stop _ _ c _ h1 (by simp)]
    simp

theorem splitAll_ne_nil (c : Char) (l : Name) : splitAll c l ≠ [] := by
  induction l with
  | nil => simp [splitAll]
  | cons x xs ih =>
    unfold splitAll
    by_cases hx : x = c
    · simp [hx]
    · simp only [hx, if_false]
      cases h : splitAll c xs with
      | nil => exact absurd h ih
      | cons a t => simp

/-- `c.join(name.split(c)) == name` -/
theorem splitAll_join (c : Char) (l : Name) : joinWith c (splitAll c l) = l := by
  induction l with
  | nil => rfl
  | cons x xs ih =>
    unfold splitAll
    by_cases hx : x = c
    · simp only [hx, if_true]
      cases h : splitAll c xs with
      | nil => exact absurd h (splitAll_ne_nil c xs)
      | cons a t => rw [h] at ih; simp [joinWith, ih]
    · simp only [hx, if_false]
      cases h : splitAll c xs with
      | nil => exact absurd h (splitAll_ne_nil c xs)
      | cons a t =>
        rw [h] at ih
        cases t with
        | nil => simp only [joinWith] at ih ⊢; rw [ih]
        | cons b t => simp only [joinWith, cons_append] at ih ⊢; rw [ih]

/-- no piece of `name.split(c)` contains `c` -/
theorem splitAll_noSep (c : Char) (l : Name) : ∀ p ∈ splitAll c l, c ∉ p := by
  induction l with
  | nil => intro p hp; simp [splitAll] at hp; subst hp; simp
  | cons x xs ih =>
    intro p hp
    unfold splitAll at hp
    by_cases hx : x = c
    · simp only [hx, if_true, mem_cons] at hp
      rcases hp with hp | hp
      · subst hp; simp
      · exact ih p hp
    · simp only [hx, if_false] at hp
      cases h : splitAll c xs with
      | nil => exact absurd h (splitAll_ne_nil c xs)
      | cons a t =>
        rw [h] at hp ih
        rcases mem_cons.mp hp with hp | hp
        · subst hp
          intro hin
          rcases mem_cons.mp hin with hin | hin
          · exact hx hin.symm
          · exact ih a mem_cons_self hin
        · exact ih p (mem_cons_of_mem _ hp)

theorem splitAll_piece_length (c : Char) (l : Name) :
    ∀ p ∈ splitAll c l, p.length + (splitAll c l).length ≤ l.length + 1 := by
  induction l with
  | nil => intro p hp; simp [splitAll] at hp ⊢; subst hp; simp
  | cons x xs ih =>
    intro p hp
    cases h : splitAll c xs with
    | nil => exact absurd h (splitAll_ne_nil c xs)
    | cons a t =>
      have iha := ih a (by rw [h]; exact mem_cons_self)
      unfold splitAll at hp ⊢
      rw [h] at ih
      by_cases hx : x = c
      · simp only [hx, if_true, mem_cons, h, length_cons] at hp ⊢
        rcases hp with hp | hp
        · subst hp; simp only [length_nil]; rw [h] at iha; simp only [length_cons] at iha; omega
        · have := ih p (mem_cons.mpr hp); simp only [length_cons] at this; omega
      · simp only [hx, if_false, h, mem_cons, length_cons] at hp ⊢
        rcases hp with hp | hp
        · subst hp; rw [h] at iha; simp only [length_cons] at iha ⊢; omega
        · have := ih p (mem_cons_of_mem _ hp); simp only [length_cons] at this; omega


/-! ### `_build_production_name`: the recursion is on strictly shorter names -/

theorem splitLast_lt {n base suf : Name} (h : splitLast '.' n = some (base, suf)) :
    base.length < n.length := by
  obtain ⟨e, _⟩ := splitLast_some '.' n base suf h
  rw [e]; simp only [length_append, length_cons]; omega

theorem ligaParts_lt {n p : Name} (hp : p ∈ ligaParts n) (hl : (ligaParts n).length > 1) :
    p.length < n.length := by
  unfold ligaParts at hp hl
  cases hs : splitFirst '.' n with
  | none =>
    simp only [hs] at hp hl
    have := splitAll_piece_length '_' n p hp
    omega
  | some ab =>
    obtain ⟨stem, suf⟩ := ab
    simp only [hs, length_map] at hp hl
    obtain ⟨q, hq, rfl⟩ := mem_map.mp hp
    obtain ⟨e, _⟩ := splitFirst_some '.' n stem suf hs
    have := splitAll_piece_length '_' stem q hq
    rw [e]; simp only [length_append, length_cons]; omega

/-- **fuel is sufficient**: any two budgets larger than the length of the name give the same result,
    i.e. the bounded recursion never runs out before Python's recursion would have returned -/
theorem prodName_fuel (gs : GlyphSet) : ∀ (f1 f2 : Nat) (n : Name), n.length < f1 → n.length < f2 →
    prodName gs f1 n = prodName gs f2 n := by
  intro f1
  induction f1 with
  | zero => intro f2 n h; omega
  | succ a ih =>
    intro f2 n h1 h2
    cases f2 with
    | zero => omega
    | succ b =>
      have hrec : ∀ m : Name, m.length < n.length → prodName gs a m = prodName gs b m :=
        fun m hm => ih b m (by omega) (by omega)
      rw [prodName, prodName]
      cases unicodeOf gs n with
      | some v => rfl
      | none =>
        simp only
        have hliga : (if (decide ((ligaParts n).length > 1) && (ligaParts n).all (inGs gs)) = true then
              if (map (unicodeOf gs) (ligaParts n)).all bmpNonzero = true then
                ['u', 'n', 'i'] ++ (map (fun v => hex4 (v.getD 0)) (map (unicodeOf gs) (ligaParts n))).flatten
              else joinWith '_' (map (prodName gs a) (ligaParts n))
            else n) =
            (if (decide ((ligaParts n).length > 1) && (ligaParts n).all (inGs gs)) = true then
              if (map (unicodeOf gs) (ligaParts n)).all bmpNonzero = true then
                ['u', 'n', 'i'] ++ (map (fun v => hex4 (v.getD 0)) (map (unicodeOf gs) (ligaParts n))).flatten
              else joinWith '_' (map (prodName gs b) (ligaParts n))
            else n) := by
          by_cases hp : (decide ((ligaParts n).length > 1) && (ligaParts n).all (inGs gs)) = true
          · simp only [hp, if_true]
            have hl : (ligaParts n).length > 1 := by
              simp only [Bool.and_eq_true, decide_eq_true_eq] at hp; exact hp.1
            have : (ligaParts n).map (prodName gs a) = (ligaParts n).map (prodName gs b) :=
              map_congr_left (fun p hp' => hrec p (ligaParts_lt hp' hl))
            rw [this]
          · simp only [hp, if_false, Bool.false_eq_true]
        cases hs : splitLast '.' n with
        | none => simp only; exact hliga
        | some ab =>
          obtain ⟨base, suf⟩ := ab
          simp only
          by_cases hb : inGs gs base = true
          · simp only [hb, if_true]
            rw [hrec base (splitLast_lt hs)]
          · simp only [hb, if_false, Bool.false_eq_true]
            exact hliga

theorem ligaParts_spec (n : Name) :
    ligaParts n = if n.contains '.'
      then (splitAll '_' (beforeFirst '.' n)).map (fun p => p ++ '.' :: afterFirst '.' n)
      else splitAll '_' n := by
  unfold ligaParts
  rw [splitFirst_spec]
  by_cases hc : n.contains '.' = true
  · simp only [hc, if_true]
  · simp only [hc, if_false, Bool.false_eq_true]

/-- **C11_source (automatic names)**: the fuel-free recursion equation of the automatic name.
    Reading: first code point → `uniXXXX`/`uXXXXX`; else `base.suffix` with `base` a glyph →
    auto(base) + "." + suffix (split at the LAST dot); else a ligature `p1_p2…[.suffix]` whose parts
    `pi[.suffix]` are all glyphs → `uni` + the parts' code points if all are in 1..0xFFFF, otherwise the
    parts' automatic names joined by `_`; else the name itself. -/
theorem autoName_unfold (gs : GlyphSet) (n : Name) :
    autoName gs n =
      match unicodeOf gs n with
      | some v => uniName v
      | none =>
        if n.contains '.' && inGs gs (beforeLast '.' n) then
          autoName gs (beforeLast '.' n) ++ '.' :: afterLast '.' n
        else if decide ((ligaParts n).length > 1) && (ligaParts n).all (inGs gs) then
          if ((ligaParts n).map (unicodeOf gs)).all bmpNonzero then
            ['u', 'n', 'i'] ++ (((ligaParts n).map (unicodeOf gs)).map (fun v => hex4 (v.getD 0))).flatten
          else joinWith '_' ((ligaParts n).map (autoName gs))
        else n := by
  unfold autoName
  rw [prodName]
  cases unicodeOf gs n with
  | some v => rfl
  | none =>
    simp only
    rw [splitLast_spec]
    by_cases hc : n.contains '.' = true
    · simp only [hc, if_true, Bool.true_and]
      have hlt : (beforeLast '.' n).length < n.length := by
        have := splitLast_spec '.' n
        simp only [hc, if_true] at this
        exact splitLast_lt this
      by_cases hb : inGs gs (beforeLast '.' n) = true
      · simp only [hb, if_true]
        rw [prodName_fuel gs n.length ((beforeLast '.' n).length + 1) _ hlt (by omega)]
      · simp only [hb, if_false, Bool.false_eq_true]
        by_cases hp : (decide ((ligaParts n).length > 1) && (ligaParts n).all (inGs gs)) = true
        · simp only [hp, if_true]
          have hl : (ligaParts n).length > 1 := by
            simp only [Bool.and_eq_true, decide_eq_true_eq] at hp; exact hp.1
          have : (ligaParts n).map (prodName gs n.length) = (ligaParts n).map (fun g => prodName gs (g.length + 1) g) :=
            map_congr_left (fun p hp' => prodName_fuel gs _ _ p (ligaParts_lt hp' hl) (by omega))
          rw [this]
        · simp only [hp, if_false, Bool.false_eq_true]
    · simp only [hc, if_false, Bool.false_eq_true, Bool.false_and]
      by_cases hp : (decide ((ligaParts n).length > 1) && (ligaParts n).all (inGs gs)) = true
      · simp only [hp, if_true]
        have hl : (ligaParts n).length > 1 := by
          simp only [Bool.and_eq_true, decide_eq_true_eq] at hp; exact hp.1
        have : (ligaParts n).map (prodName gs n.length) = (ligaParts n).map (fun g => prodName gs (g.length + 1) g) :=
          map_congr_left (fun p hp' => prodName_fuel gs _ _ p (ligaParts_lt hp' hl) (by omega))
        rw [this]
      · simp only [hp, if_false, Bool.false_eq_true]


/-! ### the rules of the automatic names, one by one -/

/-- a glyph with a code point is named after its FIRST code point -/
theorem auto_uni (gs : GlyphSet) (n : Name) (v : Nat) (h : unicodeOf gs n = some v) :
    autoName gs n = uniName v := by
  rw [autoName_unfold, h]

/-- `base.suffix` (split at the last dot) with `base` a glyph: the suffix is kept -/
theorem auto_suffix (gs : GlyphSet) (n : Name) (h : unicodeOf gs n = none)
    (hd : n.contains '.' = true) (hb : inGs gs (beforeLast '.' n) = true) :
    autoName gs n = autoName gs (beforeLast '.' n) ++ '.' :: afterLast '.' n := by
  rw [autoName_unfold, h]; simp only [hd, hb, Bool.and_self, if_true]

/-- the suffix rule does not apply -/
def noBase (gs : GlyphSet) (n : Name) : Bool := !(n.contains '.' && inGs gs (beforeLast '.' n))
/-- the name is a ligature of existing glyphs -/
def isLiga (gs : GlyphSet) (n : Name) : Bool :=
  decide ((ligaParts n).length > 1) && (ligaParts n).all (inGs gs)

/-- ligature whose parts all have a code point in 1..0xFFFF: `uni` + the code points -/
theorem auto_liga_uni (gs : GlyphSet) (n : Name) (h : unicodeOf gs n = none) (hb : noBase gs n = true)
    (hl : isLiga gs n = true) (hu : ((ligaParts n).map (unicodeOf gs)).all bmpNonzero = true) :
    autoName gs n =
      ['u', 'n', 'i'] ++ (((ligaParts n).map (unicodeOf gs)).map (fun v => hex4 (v.getD 0))).flatten := by
  rw [autoName_unfold, h]
  simp only [noBase, Bool.not_eq_true'] at hb
  simp only [isLiga] at hl
  simp only [hb, hl, hu, if_true, if_false, Bool.false_eq_true]

/-- any other ligature of existing glyphs: the parts' automatic names joined by `_` -/
theorem auto_liga_join (gs : GlyphSet) (n : Name) (h : unicodeOf gs n = none) (hb : noBase gs n = true)
    (hl : isLiga gs n = true) (hu : ((ligaParts n).map (unicodeOf gs)).all bmpNonzero = false) :
    autoName gs n = joinWith '_' ((ligaParts n).map (autoName gs)) := by
  rw [autoName_unfold, h]
  simp only [noBase, Bool.not_eq_true'] at hb
  simp only [isLiga] at hl
  simp only [hb, hl, hu, if_true, if_false, Bool.false_eq_true]

/-- everything else keeps its name -/
theorem auto_keep (gs : GlyphSet) (n : Name) (h : unicodeOf gs n = none) (hb : noBase gs n = true)
    (hl : isLiga gs n = false) : autoName gs n = n := by
  rw [autoName_unfold, h]
  simp only [noBase, Bool.not_eq_true'] at hb
  simp only [isLiga] at hl
  simp only [hb, hl, if_false, Bool.false_eq_true]

theorem hexChar_legal (d : Nat) : legalChar (hexChar d) = true := by
  unfold hexChar; split <;> decide

theorem hexAux_legal : ∀ (f n : Nat) (acc : Name), (∀ c ∈ acc, legalChar c = true) →
    ∀ c ∈ hexAux f n acc, legalChar c = true := by
  intro f
  induction f with
  | zero => intro n acc h; simpa [hexAux] using h
  | succ f ih =>
    intro n acc h
    unfold hexAux
    split
    · intro c hc
      rcases mem_cons.mp hc with hc | hc
      · subst hc; exact hexChar_legal _
      · exact h c hc
    · apply ih
      intro c hc
      rcases mem_cons.mp hc with hc | hc
      · subst hc; exact hexChar_legal _
      · exact h c hc

/-- `uniXXXX` / `uXXXXX` names have at least four hex digits and only legal characters -/
theorem uniName_legal (v : Nat) : legalName (uniName v) = true ∧ 4 ≤ (hex4 v).length := by
  constructor
  · unfold legalName uniName hex4 hex
    rw [all_eq_true]
    intro c hc
    simp only [mem_append, mem_replicate] at hc
    rcases hc with hc | hc | hc
    · split at hc
      · simp at hc; subst hc; decide
      · simp at hc; rcases hc with rfl | rfl | rfl <;> decide
    · rw [hc.2]; decide
    · exact hexAux_legal _ _ [] (by simp) c hc
  · unfold hex4; simp only [length_append, length_replicate]; omega

/-! ### rename_glyphs: indices are untouched -/

/-- **C11_perm**: `rename_glyphs` maps the glyph order pointwise: the glyph at every index is the source
    glyph of that index under its new name; nothing is added, dropped or moved.  Same for the CFF
    charset.  `post.extraNames` is recomputed from the new order. -/
theorem C11_perm (rm : List (Name × Name)) (order : List Name) (cs : List (Name × Nat)) (charset : List Name) :
    let r := renameGlyphs rm order cs charset
    r.order.length = order.length ∧
    (∀ k : Nat, r.order[k]? = (order[k]?).map (applyMap rm)) ∧
    (∀ k : Nat, r.charset[k]? = (charset[k]?).map (applyMap rm)) ∧
    (∀ g, g ∈ r.extraNames ↔ g ∈ r.order ∧ isStandard g = false) := by
  simp only [renameGlyphs, length_map, getElem?_map, implies_true, true_and, extraNames, mem_filter,
    Bool.not_eq_true']

theorem foldl_dset_pairs (l : List (Name × Nat)) : ∀ (d : List (Name × Nat)),
    (keys l).Nodup → (∀ k ∈ keys l, k ∉ keys d) →
    l.foldl (fun d e => dset e.1 e.2 d) d = d ++ l := by
  induction l with
  | nil => intro d _ _; simp
  | cons e l ih =>
    intro d hnd hk
    simp only [keys, map_cons, nodup_cons] at hnd
    simp only [foldl_cons]
    rw [dset_of_not_mem (hk e.1 (by simp [keys]))]
    rw [ih _ hnd.2]
    · simp
    · intro k hk' hin
      simp only [keys, map_append, map_cons, map_nil, mem_append, mem_singleton] at hin
      rcases hin with hin | hin
      · exact hk k (by simp only [keys, map_cons, mem_cons]; exact Or.inr hk') hin
      · subst hin; exact hnd.1 hk'

/-- with new names that are pairwise distinct, every CFF charstring keeps its position and content and
    only its key changes (with a clash a charstring would be overwritten: the dict comprehension) -/
theorem C11_perm_charStrings (rm : List (Name × Name)) (order : List Name) (cs : List (Name × Nat))
    (charset : List Name) (h : ((keys cs).map (applyMap rm)).Nodup) :
    (renameGlyphs rm order cs charset).charStrings = cs.map (fun e => (applyMap rm e.1, e.2)) := by
  simp only [renameGlyphs]
  have e : cs.foldl (fun d e => dset (applyMap rm e.1) e.2 d) []
      = (cs.map (fun e => (applyMap rm e.1, e.2))).foldl (fun d e => dset e.1 e.2 d) [] := by
    rw [foldl_map]
  rw [e, foldl_dset_pairs _ [] (by simp only [keys, map_map] at h ⊢; exact h) (by simp [keys])]
  simp

/-- What "every other table is byte-identical" rests on: a table compiler that sees glyph names only
    through their index (hypothesis `indexBased`, a statement about fontTools that is MEASURED on every
    generated font, not proved) produces the same bytes before and after renaming, because renaming
    keeps the number and the positions of the glyphs. -/
theorem C11_tables_of_indexBased {Bytes : Type} (compile : List Name → Bytes)
    (indexBased : ∀ o₁ o₂ : List Name, o₁.length = o₂.length → compile o₁ = compile o₂)
    (i : Input) : compile (finalOrder i) = compile i.order :=
  indexBased _ _ (by simp [finalOrder])

/-! ### the decision table of `process_glyph_names` -/

def postFormatOf (a : PostAction) (before : Nat) : Nat :=
  match a with | .set2 => 20 | .set3 => 30 | .leave => before

/-- **C11_decide**: for every combination of argument, lib keys, map presence and outline flavour the
    coded decision equals the documented one (324 combinations, each by evaluation). -/
theorem C11_decide (s : Switches) (before : Nat) :
    (decide' s).rename = specRename s ∧ postFormatOf (decide' s).post before = specPostFormat s before := by
  obtain ⟨arg, libUse, libDont, libKeep, hasPs, cff1⟩ := s
  rcases arg with _ | _ | _ <;> rcases libUse with _ | _ | _ <;> rcases libDont with _ | _ | _ <;>
    rcases libKeep with _ | _ | _ <;> cases hasPs <;> cases cff1 <;> exact ⟨rfl, rfl⟩

theorem processOk_eq (s : Switches) (i : Input) (before : Nat) :
    (processOk s i before).order = (if specRename s then finalOrder i else i.order) ∧
    (processOk s i before).postFormat = specPostFormat s before ∧
    (processOk s i before).extraNames =
      (if specPostFormat s before == 20 then some (extraNames (processOk s i before).order) else none) := by
  obtain ⟨hr, hp⟩ := C11_decide s before
  have hp' : (processOk s i before).postFormat = specPostFormat s before := hp
  refine ⟨?_, hp', ?_⟩
  · simp only [processOk, hr, finalOrder]
  · rw [← hp']; rfl

/-- the components of the output predicate one by one -/
theorem C11_output_partial (s : Switches) (i : Input) (before : Nat) (h : i.order.Nodup) :
    (if specRename s then holdsRenamed i (processOk s i before).order
      else (processOk s i before).order == i.order) = true ∧
    (processOk s i before).postFormat = specPostFormat s before ∧
    holdsExtra (processOk s i before).order (processOk s i before).postFormat
      (processOk s i before).extraNames = true := by
  obtain ⟨e1, e2, e3⟩ := processOk_eq s i before
  refine ⟨?_, e2, ?_⟩
  · rw [e1]
    by_cases hs : specRename s = true
    · simp only [hs, if_true]; exact C11_renamed i h
    · simp only [hs, if_false, Bool.false_eq_true, beq_self_eq_true]
  · rw [e3, e2]
    unfold holdsExtra extraNames
    split <;> simp

theorem C11_output (s : Switches) (i : Input) (before : Nat) (h : i.order.Nodup) :
    holdsOutput s i before (processOk s i before) = true := by
  obtain ⟨h1, h2, h3⟩ := C11_output_partial s i before h
  obtain ⟨e1, _, _⟩ := processOk_eq s i before
  unfold holdsOutput
  simp only [Bool.and_eq_true, beq_iff_eq]
  refine ⟨⟨?_, h2⟩, h3⟩
  by_cases hs : specRename s = true
  · simp only [hs, if_true, Bool.and_eq_true] at h1 ⊢
    refine ⟨h1, ?_⟩
    rw [e1]; simp only [hs, if_true]; exact C11_distinct i h
  · simp only [hs, if_false, Bool.false_eq_true] at h1 ⊢
    exact h1

/-- **C11 (whole call)**: for every font with distinct glyph names, every glyph set (sourced or not),
    every switch combination and every previous 'post' format: an accepted input gives a
    result, and that result satisfies the property predicate. -/
theorem C11_process (s : Switches) (i : Input) (before : Nat) (h : i.order.Nodup)
    (ha : accepts s i = true) :
    (∃ o, processGlyphNames s i before = .ok o) ∧
    holdsProcess s i before (processGlyphNames s i before) = true := by
  have hr := (C11_decide s before).1
  have : ((decide' s).rename && !i.order.all latin1Name) = false := by
    rw [hr]; simp only [accepts, Bool.or_eq_true, Bool.not_eq_true'] at ha
    rcases ha with ha | ha <;> simp [ha]
  unfold processGlyphNames
  simp only [this, Bool.false_eq_true, if_false]
  exact ⟨⟨_, rfl⟩, C11_output s i before h⟩

/-- **C11_reject**: inputs outside the accepted domain (renaming requested, a source glyph name outside
    Latin-1) are rejected with the encoding error, and the predicate accepts exactly that. -/
theorem C11_reject (s : Switches) (i : Input) (before : Nat) (ha : accepts s i = false) :
    processGlyphNames s i before = .error .unicodeEncode ∧
    holdsProcess s i before (processGlyphNames s i before) = true := by
  have hr := (C11_decide s before).1
  have : ((decide' s).rename && !i.order.all latin1Name) = true := by
    rw [hr]; simp only [accepts, Bool.or_eq_false_iff, Bool.not_eq_false'] at ha
    simp [ha.1, ha.2]
  unfold processGlyphNames
  simp only [this, if_true, holdsProcess, ha, Bool.not_false, and_self]

/-! ### `uniXXXX` really encodes the code point -/

theorem hexDigitVal_hexChar (d : Nat) (h : d < 16) : hexDigitVal (hexChar d) = d := by
  have : d = 0 ∨ d = 1 ∨ d = 2 ∨ d = 3 ∨ d = 4 ∨ d = 5 ∨ d = 6 ∨ d = 7 ∨ d = 8 ∨ d = 9 ∨ d = 10 ∨ d = 11 ∨
      d = 12 ∨ d = 13 ∨ d = 14 ∨ d = 15 := by omega
  rcases this with h | h | h | h | h | h | h | h | h | h | h | h | h | h | h | h <;> subst h <;> decide

theorem hexValAux_append (a : Nat) (l1 l2 : Name) :
    hexValAux a (l1 ++ l2) = hexValAux (hexValAux a l1) l2 := by
  induction l1 generalizing a with
  | nil => rfl
  | cons c l1 ih => simp only [cons_append, hexValAux]; exact ih _

theorem hexAux_digits : ∀ (f n : Nat) (acc : Name), n < f →
    ∃ ds : Name, hexAux f n acc = ds ++ acc ∧ ∀ a, hexValAux a ds = a * 16 ^ ds.length + n := by
  intro f
  induction f with
  | zero => intro n acc h; omega
  | succ f ih =>
    intro n acc h
    unfold hexAux
    by_cases hn : n < 16
    · simp only [hn, if_true]
      refine ⟨[hexChar n], rfl, ?_⟩
      intro a
      simp only [hexValAux, hexDigitVal_hexChar n hn, length_singleton, Nat.pow_one]
    · simp only [hn, if_false]
      obtain ⟨ds, e, hv⟩ := ih (n / 16) (hexChar (n % 16) :: acc) (by omega)
      refine ⟨ds ++ [hexChar (n % 16)], by rw [e]; simp, ?_⟩
      intro a
      rw [hexValAux_append, hv a]
      simp only [hexValAux, hexDigitVal_hexChar (n % 16) (Nat.mod_lt _ (by decide)), length_append,
        length_singleton, Nat.pow_succ]
      have h1 : a * (16 ^ ds.length * 16) = a * 16 ^ ds.length * 16 := by rw [Nat.mul_assoc]
      rw [h1]
      have h2 := Nat.div_add_mod n 16
      generalize a * 16 ^ ds.length = X at *
      omega

theorem hexValAux_zeros (k : Nat) (l : Name) : hexValAux 0 (replicate k '0' ++ l) = hexValAux 0 l := by
  induction k with
  | zero => rfl
  | succ k ih =>
    simp only [replicate_succ, cons_append, hexValAux]
    exact ih

/-- **C11_source (code points)**: the digits of `uniXXXX` / `uXXXXX` read back as the code point -/
theorem hexVal_hex4 (n : Nat) : hexVal (hex4 n) = n := by
  unfold hexVal hex4
  rw [hexValAux_zeros]
  obtain ⟨ds, e, hv⟩ := hexAux_digits (n + 1) n [] (by omega)
  unfold hex
  rw [e, append_nil, hv 0]; simp

/-- the prefix is `uni` up to 0xFFFF and `u` above, followed by at least four hex digits that spell the
    code point -/
theorem uniName_spec (v : Nat) :
    (v ≤ 0xFFFF → uniName v = ['u', 'n', 'i'] ++ hex4 v) ∧ (v > 0xFFFF → uniName v = ['u'] ++ hex4 v) ∧
    hexVal (hex4 v) = v ∧ 4 ≤ (hex4 v).length := by
  refine ⟨?_, ?_, hexVal_hex4 v, (uniName_legal v).2⟩
  · intro h; unfold uniName; simp [Nat.not_lt.mpr h]
  · intro h; unfold uniName; simp [h]

/-- **C11_legal**: every renamed glyph's final name consists of `[0-9A-Za-z_.]` only -/
theorem C11_legal (i : Input) (h : i.order.Nodup) :
    ∀ p ∈ covered i (finalOrder i), legalName p.2 = true := by
  have := C11_renamed i h
  simp only [holdsRenamed, holdsRenamedFrom, Bool.and_eq_true, all_eq_true] at this
  exact this.2

/-- **C11_source**: along the glyph order, every renamed glyph receives its candidate (`specCand`: the
    cleaned map entry / automatic name, or the cleaned source name when that is longer than 63) -
    unchanged exactly when no earlier glyph received it and no unrenamed glyph bears it, else with a
    numeric suffix that is unused -/
theorem C11_source (i : Input) (h : i.order.Nodup) :
    okAll (unrenamed i) ((covered i (finalOrder i)).map (fun p => specCand i p.1))
      ((covered i (finalOrder i)).map (·.2)) = true := by
  have := C11_renamed i h
  simp only [holdsRenamed, holdsRenamedFrom, Bool.and_eq_true] at this
  exact this.1.2

/-! ### non-vacuity: the hypotheses are met by concrete, non-trivial inputs and the functions compute
    what one expects on them -/

private def n (s : String) : Name := s.toList

/-- a map with duplicate values, a value that looks like a generated suffix, illegal characters -/
private def exMap : Input :=
  { order := [n ".notdef", n "a", n "b", n "x.1", n "a-b", n "ab", n "c"],
    glyphSet := [(n ".notdef", none), (n "a", some 97), (n "b", none), (n "x.1", none), (n "a-b", none),
                 (n "ab", none), (n "c", none)],
    psNames := some [(n "a", n "x"), (n "b", n "x"), (n "c", n "")] }

example : exMap.order.Nodup ∧ covers exMap = true := by decide
example : finalOrder exMap = [n ".notdef", n "x", n "x.1", n "x.1.1", n "ab", n "ab.1", n "c"] := by decide
example : holdsRenamed exMap (finalOrder exMap) = true ∧ holdsDistinct (finalOrder exMap) = true := by decide
/-- the predicate is not trivially true: a duplicate, an illegal character, a moved glyph are rejected -/
example : holdsRenamed exMap [n ".notdef", n "x", n "x", n "x.1", n "ab", n "ab.1", n "c"] = false := by decide
example : holdsRenamed exMap [n ".notdef", n "x", n "x.1", n "x.1.1", n "a-b", n "ab", n "c"] = false := by decide
example : holdsRenamed exMap [n ".notdef", n "x.1", n "x", n "x.1.1", n "ab", n "ab.1", n "c"] = false := by decide

/-- a synthesised '.notdef' that is not in the glyph set (variable builds): its name is reserved -/
private def exUnsourced : Input :=
  { order := [n ".notdef", n "a", n "b"], glyphSet := [(n "a", none), (n "b", none)],
    psNames := some [(n "a", n ".notdef"), (n "b", n ".notdef")] }

example : exUnsourced.order.Nodup ∧ covers exUnsourced = false := by decide
example : finalOrder exUnsourced = [n ".notdef", n ".notdef.1", n ".notdef.2"] := by decide
example : holdsRenamed exUnsourced (finalOrder exUnsourced) = true := by decide
example : holdsRenamed exUnsourced (finalOrderOld exUnsourced) = false ∧
    holdsDistinct (finalOrderOld exUnsourced) = false := by decide

/-- automatic names: code points, suffixes, ligatures, a name colliding with a generated one -/
private def exAuto : Input :=
  { order := [n "a", n "a.alt", n "f", n "i", n "f_i", n "f_i.alt", n "f.alt", n "i.alt", n "uni0061", n "emoji",
              n "f_emoji", n "q.x.y"],
    glyphSet := [(n "a", some 0x61), (n "a.alt", none), (n "f", some 0x66), (n "i", some 0x69), (n "f_i", none),
                 (n "f_i.alt", none), (n "f.alt", none), (n "i.alt", none), (n "uni0061", none),
                 (n "emoji", some 0x1F600), (n "f_emoji", none), (n "q.x.y", none)],
    psNames := none }

example : exAuto.order.Nodup ∧ covers exAuto = true := by decide
example : finalOrder exAuto =
    [n "uni0061", n "uni0061.alt", n "uni0066", n "uni0069", n "uni00660069", n "uni00660069.alt", n "uni0066.alt",
     n "uni0069.alt", n "uni0061.1", n "u1F600", n "uni0066_u1F600", n "q.x.y"] := by decide
example : holdsRenamed exAuto (finalOrder exAuto) = true := by decide
example : unicodeOf exAuto.glyphSet (n "a.alt") = none ∧ (n "a.alt").contains '.' = true ∧
    inGs exAuto.glyphSet (beforeLast '.' (n "a.alt")) = true := by decide
example : noBase exAuto.glyphSet (n "f_i") = true ∧ isLiga exAuto.glyphSet (n "f_i") = true ∧
    ((ligaParts (n "f_i")).map (unicodeOf exAuto.glyphSet)).all bmpNonzero = true := by decide
example : isLiga exAuto.glyphSet (n "f_emoji") = true ∧
    ((ligaParts (n "f_emoji")).map (unicodeOf exAuto.glyphSet)).all bmpNonzero = false := by decide
example : noBase exAuto.glyphSet (n "q.x.y") = true ∧ isLiga exAuto.glyphSet (n "q.x.y") = false := by decide

/-- the loop of `_unique_name` really iterates: three suffixes are taken, the budget `|seen|+1 = 5` is enough -/
example : uniqueName (n "x") [(n "x", 1), (n "x.1", 1), (n "x.2", 1), (n "x.3", 1)] =
    (n "x.4", [(n "x", 5), (n "x.1", 1), (n "x.2", 1), (n "x.3", 1), (n "x.4", 1)]) := by decide

example : uniName 0x61 = n "uni0061" ∧ uniName 0xFFFF = n "uniFFFF" ∧ uniName 0x10000 = n "u10000" ∧
    uniName 0 = n "uni0000" ∧ hexVal (n "1F600") = 0x1F600 := by decide

/-- acceptance: a Greek letter in a source name is fine without renaming, rejected with it -/
example : accepts ⟨some false, none, none, none, false, false⟩ ⟨[n "α"], [(n "α", none)], none⟩ = true ∧
    accepts ⟨some true, none, none, none, false, false⟩ ⟨[n "α"], [(n "α", none)], none⟩ = false ∧
    accepts ⟨some true, none, none, none, false, false⟩ ⟨[n "é-"], [(n "é-", none)], none⟩ = true := by decide

/-- decision table: the legacy key forbids, the ufo2ft key overrides it, dropping names wins over both -/
example : specRename ⟨none, none, some true, none, true, false⟩ = false ∧
    specRename ⟨none, some true, some true, none, true, false⟩ = true ∧
    specRename ⟨none, some true, none, some false, true, false⟩ = false ∧
    specPostFormat ⟨none, some true, none, some false, true, false⟩ 20 = 30 ∧
    specPostFormat ⟨none, some true, none, some false, true, true⟩ 30 = 30 := by decide

end Ufo2ft.C11
