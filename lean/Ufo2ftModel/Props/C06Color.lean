import Ufo2ftModel.Props.C06Pipe
/-! C06, part 10: colorGraph / firstAvailable / _groupMarkClasses — the greedy colouring is proper and total. -/
namespace Ufo2ft.C06
open List

/-- firstAvailable returns a colour that is not used, and the smallest such -/
theorem firstAvail_spec (f : Nat) (used : List Nat) (c : Nat) (hf : used.length ≤ f) :
    firstAvail f used c ∉ used ∧ c ≤ firstAvail f used c ∧ ∀ x, c ≤ x → x < firstAvail f used c → x ∈ used := by
  induction f generalizing used c with
  | zero =>
    have : used = [] := by cases used with | nil => rfl | cons _ _ => simp at hf
    subst this
    simp [firstAvail]
  | succ f ih =>
    simp only [firstAvail]
    split
    · rename_i hc
      have hc' : c ∈ used := by simpa using hc
      have hlen : (used.erase c).length ≤ f := by rw [length_erase_of_mem hc']; omega
      obtain ⟨h1, h2, h3⟩ := ih (used.erase c) (c + 1) hlen
      have hne : firstAvail f (used.erase c) (c + 1) ≠ c := by omega
      refine ⟨fun hm => h1 ((mem_erase_of_ne hne).mpr hm), by omega, ?_⟩
      intro x hx1 hx2
      by_cases hxc : x = c
      · subst hxc; exact hc'
      · exact (mem_erase_of_ne hxc).mp (h3 x (by omega) hx2)
    · rename_i hc
      refine ⟨by simpa using hc, Nat.le_refl _, ?_⟩
      intro x h1 h2; omega

section Graph
variable (nodes : List String) (R : String → String → Bool)
variable (hsymm : ∀ a b, R a b = R b a) (hirr : ∀ a, R a a = false)

/-- the colouring so far: every node once, adjacent nodes differ -/
def ColInv (colors : List (String × Nat)) : Prop :=
  (colors.map (·.1)).Nodup ∧ ∀ p ∈ colors, ∀ q ∈ colors, R p.1 q.1 = true → p.2 ≠ q.2

include hsymm hirr in
theorem colorStep_inv {colors : List (String × Nat)} (h : ColInv R colors) (hin : ∀ p ∈ colors, p.1 ∈ nodes)
    {x : String} (hx : x ∉ colors.map (·.1)) :
    ColInv R (colorStep (fun c => nodes.filter (R c)) colors x) := by
  obtain ⟨hnd, hpr⟩ := h
  unfold colorStep
  simp only
  generalize hused : (nodes.filter (R x)).filterMap (fun nb => alookup nb colors) = used
  have hcx := (firstAvail_spec used.length used 0 (Nat.le_refl _)).1
  -- the colour of every coloured neighbour is in `used`
  have hnb : ∀ p ∈ colors, R x p.1 = true → p.2 ∈ used := by
    intro p hp hr
    rw [← hused]
    refine mem_filterMap.mpr ⟨p.1, mem_filter.mpr ⟨hin p hp, hr⟩, ?_⟩
    exact alookup_of_mem_nodup hnd (by simpa using hp)
  constructor
  · rw [map_append, nodup_append]
    refine ⟨hnd, by simp, ?_⟩
    intro a ha b hb
    simp only [map_cons, map_nil, mem_singleton] at hb
    subst hb; intro e; subst e; exact hx ha
  · intro p hp q hq hr
    rcases mem_append.mp hp with hp | hp <;> rcases mem_append.mp hq with hq | hq
    · exact hpr p hp q hq hr
    · simp only [mem_singleton] at hq; subst hq
      simp only at hr ⊢
      intro e
      rw [hsymm] at hr
      exact hcx (e ▸ hnb p hp hr)
    · simp only [mem_singleton] at hp; subst hp
      simp only at hr ⊢
      intro e
      exact hcx (e ▸ hnb q hq hr)
    · simp only [mem_singleton] at hp hq; subst hp; subst hq
      simp only at hr
      rw [hirr] at hr; simp at hr

include hsymm hirr in
theorem colorFold_inv (l : List String) (colors : List (String × Nat)) (h : ColInv R colors)
    (hin : ∀ p ∈ colors, p.1 ∈ nodes) (hl : ∀ x ∈ l, x ∈ nodes) (hnd : (colors.map (·.1) ++ l).Nodup) :
    ColInv R (l.foldl (colorStep (fun c => nodes.filter (R c))) colors) ∧
      (l.foldl (colorStep (fun c => nodes.filter (R c))) colors).map (·.1) = colors.map (·.1) ++ l := by
  induction l generalizing colors with
  | nil => simpa using h
  | cons x l ih =>
    simp only [foldl_cons]
    have hx : x ∉ colors.map (·.1) := by
      intro hm
      exact (nodup_append.mp hnd).2.2 x hm x (by simp) rfl
    have hinv := colorStep_inv nodes R hsymm hirr h hin hx
    have hkeys : (colorStep (fun c => nodes.filter (R c)) colors x).map (·.1) = colors.map (·.1) ++ [x] := by
      simp [colorStep]
    obtain ⟨i1, i2⟩ := ih (colorStep (fun c => nodes.filter (R c)) colors x) hinv
      (by
        intro p hp
        unfold colorStep at hp
        rcases mem_append.mp hp with hp | hp
        · exact hin p hp
        · simp only [mem_singleton] at hp; subst hp; exact hl x (by simp))
      (fun y hy => hl y (by simp [hy]))
      (by rw [hkeys]; simpa using hnd)
    exact ⟨i1, by rw [i2, hkeys]; simp⟩

include hsymm hirr in
/-- colorGraph: adjacent nodes get different colours, and every node gets exactly one -/
theorem colorGraph_proper (hnd : nodes.Nodup) :
    ColInv R (colorGraph nodes (fun c => nodes.filter (R c))) ∧
      (colorGraph nodes (fun c => nodes.filter (R c))).map (·.1) = sortStr nodes := by
  have := colorFold_inv nodes R hsymm hirr (sortStr nodes) [] ⟨by simp, by simp⟩ (by simp)
    (fun x hx => mem_sortStr.mp hx) (by simpa using nodup_sortStr hnd)
  simpa [colorGraph] using this

end Graph

theorem mem_colorGroups {colors : List (String × Nat)} {g : List String} :
    g ∈ colorGroups colors ↔ ∃ c, c ∈ colors.map (·.2) ∧ g = (colors.filter (fun e => e.2 == c)).map (·.1) := by
  simp only [colorGroups, mem_map, mem_dedupFirst]
  constructor
  · rintro ⟨c, ⟨p, hp, rfl⟩, rfl⟩; exact ⟨p.2, ⟨p, hp, rfl⟩, rfl⟩
  · rintro ⟨c, ⟨p, hp, rfl⟩, rfl⟩; exact ⟨p.2, ⟨p, hp, rfl⟩, rfl⟩

/-- two nodes of one colour group are not adjacent -/
theorem colorGroups_proper {R : String → String → Bool} {colors : List (String × Nat)} (h : ColInv R colors)
    {g : List String} (hg : g ∈ colorGroups colors) {a b : String} (ha : a ∈ g) (hb : b ∈ g) : R a b = false := by
  obtain ⟨c, _, rfl⟩ := mem_colorGroups.mp hg
  obtain ⟨p, hp, rfl⟩ := mem_map.mp ha
  obtain ⟨q, hq, rfl⟩ := mem_map.mp hb
  obtain ⟨hp1, hp2⟩ := mem_filter.mp hp
  obtain ⟨hq1, hq2⟩ := mem_filter.mp hq
  cases hr : R p.1 q.1 with
  | false => rfl
  | true =>
    exfalso
    exact h.2 p hp1 q hq1 hr (by rw [beq_iff_eq.mp hp2, beq_iff_eq.mp hq2])

/-- every coloured node is in some colour group -/
theorem colorGroups_cover {colors : List (String × Nat)} {n : String} (hn : n ∈ colors.map (·.1)) :
    ∃ g ∈ colorGroups colors, n ∈ g := by
  obtain ⟨p, hp, rfl⟩ := mem_map.mp hn
  refine ⟨_, mem_colorGroups.mpr ⟨p.2, mem_map.mpr ⟨p, hp, rfl⟩, rfl⟩, ?_⟩
  exact mem_map.mpr ⟨p, mem_filter.mpr ⟨hp, by simp⟩, rfl⟩

theorem conflict_symm (cl : Classes) (a b : String) : conflict cl a b = conflict cl b a := by
  unfold conflict
  have h1 : (a != b) = (b != a) := by
    by_cases e : a = b
    · subst e; rfl
    · have e' : b ≠ a := fun h => e h.symm
      rw [bne_iff_ne.mpr e, bne_iff_ne.mpr e']
  have h2 : (members cl a).any (fun g => (members cl b).contains g) = (members cl b).any (fun g => (members cl a).contains g) := by
    rw [Bool.eq_iff_iff]
    simp only [any_eq_true, contains_iff_mem]
    constructor
    · rintro ⟨g, h1, h2⟩; exact ⟨g, h2, h1⟩
    · rintro ⟨g, h1, h2⟩; exact ⟨g, h2, h1⟩
  rw [h1, h2]

theorem conflict_irrefl (cl : Classes) (a : String) : conflict cl a a = false := by simp [conflict]

theorem mem_groupMarkClasses {cl : Classes} {used : List String} {grp : List String} :
    grp ∈ groupMarkClasses cl used ↔
      ∃ g ∈ colorGroups (colorGraph (dedupFirst (used.filter (fun c => !(members cl c).isEmpty)))
        (fun c => (dedupFirst (used.filter (fun c => !(members cl c).isEmpty))).filter (conflict cl c))), grp = sortStr g := by
  unfold groupMarkClasses
  simp only
  rw [(mergeSort_perm _ _).mem_iff, mem_map]
  constructor
  · rintro ⟨g, hg, rfl⟩; exact ⟨g, hg, rfl⟩
  · rintro ⟨g, hg, rfl⟩; exact ⟨g, hg, rfl⟩

/-- _groupMarkClasses: no lookup group holds two mark classes that share a mark glyph -/
theorem groupMarkClasses_proper (cl : Classes) (used : List String) {grp : List String} (h : grp ∈ groupMarkClasses cl used)
    {c1 c2 : String} (h1 : c1 ∈ grp) (h2 : c2 ∈ grp) : conflict cl c1 c2 = false := by
  obtain ⟨g, hg, rfl⟩ := mem_groupMarkClasses.mp h
  have hinv := (colorGraph_proper (dedupFirst (used.filter (fun c => !(members cl c).isEmpty))) (conflict cl)
    (conflict_symm cl) (conflict_irrefl cl) (nodup_dedupFirst _)).1
  exact colorGroups_proper hinv hg (mem_sortStr.mp h1) (mem_sortStr.mp h2)

/-- every referenced, non-empty mark class is in some lookup group -/
theorem groupMarkClasses_cover (cl : Classes) (used : List String) {c : String} (hc : c ∈ used) (hm : members cl c ≠ []) :
    ∃ grp ∈ groupMarkClasses cl used, c ∈ grp := by
  have hkeys := (colorGraph_proper (dedupFirst (used.filter (fun c => !(members cl c).isEmpty))) (conflict cl)
    (conflict_symm cl) (conflict_irrefl cl) (nodup_dedupFirst _)).2
  have hcn : c ∈ dedupFirst (used.filter (fun c => !(members cl c).isEmpty)) := by
    rw [mem_dedupFirst, mem_filter]
    exact ⟨hc, by cases hh : members cl c with | nil => exact absurd hh hm | cons _ _ => rfl⟩
  obtain ⟨g, hg, hcg⟩ := colorGroups_cover (by rw [hkeys]; exact mem_sortStr.mpr hcn)
  exact ⟨sortStr g, mem_groupMarkClasses.mpr ⟨g, hg, rfl⟩, mem_sortStr.mpr hcg⟩

/-- the groups only hold referenced classes -/
theorem groupMarkClasses_sub (cl : Classes) (used : List String) {grp : List String} (h : grp ∈ groupMarkClasses cl used)
    {c : String} (hc : c ∈ grp) : c ∈ used := by
  obtain ⟨g, hg, rfl⟩ := mem_groupMarkClasses.mp h
  have hkeys := (colorGraph_proper (dedupFirst (used.filter (fun c => !(members cl c).isEmpty))) (conflict cl)
    (conflict_symm cl) (conflict_irrefl cl) (nodup_dedupFirst _)).2
  obtain ⟨col, _, rfl⟩ := mem_colorGroups.mp hg
  obtain ⟨p, hp, rfl⟩ := mem_map.mp (mem_sortStr.mp hc)
  have : p.1 ∈ sortStr (dedupFirst (used.filter (fun c => !(members cl c).isEmpty))) := by
    rw [← hkeys]; exact mem_map.mpr ⟨p, (mem_filter.mp hp).1, rfl⟩
  exact (mem_filter.mp (mem_dedupFirst.mp (mem_sortStr.mp this))).1

end Ufo2ft.C06
