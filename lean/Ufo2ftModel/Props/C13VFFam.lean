import Ufo2ftModel.Props.C13VFInterp
import Ufo2ftModel.Props.C13VFStatic
/-!
C13 (variable fonts), part 5: families.  Well-formedness, the masters of one glyph, what `glyphAt` / `instanceAt` are.
-/
namespace Ufo2ft.C13
open Ufo2ft Ufo2ft.C09 List

/-! ### sources = glyph sets zipped with their locations -/

theorem mem_zip_iff {α β} (l1 : List α) (l2 : List β) (a : α) (b : β) :
    (a, b) ∈ l1.zip l2 ↔ ∃ i : Nat, l1[i]? = some a ∧ l2[i]? = some b := by
  rw [List.mem_iff_getElem?]
  constructor
  · rintro ⟨i, hi⟩; exact ⟨i, List.getElem?_zip_eq_some.mp hi⟩
  · rintro ⟨i, h1, h2⟩; exact ⟨i, List.getElem?_zip_eq_some.mpr ⟨h1, h2⟩⟩

theorem zip_right_inj {α β} (l1 : List α) (l2 : List β) (hnd : l2.Nodup) (a1 a2 : α) (b : β)
    (h1 : (a1, b) ∈ l1.zip l2) (h2 : (a2, b) ∈ l1.zip l2) : a1 = a2 := by
  obtain ⟨i, hi1, hi2⟩ := (mem_zip_iff _ _ _ _).mp h1
  obtain ⟨j, hj1, hj2⟩ := (mem_zip_iff _ _ _ _).mp h2
  have hi : i < l2.length := (List.getElem?_eq_some_iff.mp hi2).1
  have : i = j := (List.getElem?_inj hi hnd).mp (by rw [hi2, hj2])
  subst this
  rw [hi1] at hj1
  exact Option.some.inj hj1

/-- the masters of glyph `n`: (location, glyph) of every source that has it -/
def ptsOf (I : Inst) (ms : Masters) (n : String) : List (Q × Glyph) :=
  (ms.zip I.locs).filterMap (fun (m, l) => (m.get? n).map (fun g => (l, g)))

theorem mem_ptsOf (I : Inst) (ms : Masters) (n : String) (l : Q) (g : Glyph) :
    (l, g) ∈ ptsOf I ms n ↔ ∃ m, (m, l) ∈ ms.zip I.locs ∧ m.get? n = some g := by
  simp only [ptsOf, List.mem_filterMap, Option.map_eq_some_iff, Prod.mk.injEq, Prod.exists]
  constructor
  · rintro ⟨m, l', hm, g', hg', rfl, rfl⟩; exact ⟨m, hm, hg'⟩
  · rintro ⟨m, hm, hg⟩; exact ⟨m, l, hm, g, hg, rfl, rfl⟩

theorem mem_sourceLocs (I : Inst) (ms : Masters) (n : String) (l : Q) :
    l ∈ sourceLocs I ms n ↔ ∃ m, (m, l) ∈ ms.zip I.locs ∧ (m.get? n).isSome = true := by
  simp only [sourceLocs, List.mem_filterMap, Prod.exists]
  constructor
  · rintro ⟨m, l', hm, h⟩
    split at h
    · rename_i hs
      have := Option.some.inj h; subst this
      exact ⟨m, hm, hs⟩
    · cases h
  · rintro ⟨m, hm, hs⟩
    exact ⟨m, l, hm, by rw [if_pos hs]⟩

theorem mem_sourceLocs_iff_pts (I : Inst) (ms : Masters) (n : String) (l : Q) :
    l ∈ sourceLocs I ms n ↔ ∃ g, (l, g) ∈ ptsOf I ms n := by
  rw [mem_sourceLocs]
  constructor
  · rintro ⟨m, hm, hs⟩
    obtain ⟨g, hg⟩ := Option.isSome_iff_exists.mp hs
    exact ⟨g, (mem_ptsOf _ _ _ _ _).mpr ⟨m, hm, hg⟩⟩
  · rintro ⟨g, hg⟩
    obtain ⟨m, hm, hg'⟩ := (mem_ptsOf _ _ _ _ _).mp hg
    exact ⟨m, hm, by rw [hg']; rfl⟩

/-! ### well-formed families -/

/-- the default source's glyph set -/
def dflt (I : Inst) (ms : Masters) : GlyphSet := ms.getD I.defaultIdx []

/-- `t` lies between the sources -/
def InHull (I : Inst) (t : Q) : Prop := (∃ l ∈ I.locs, l ≤ t) ∧ (∃ l ∈ I.locs, t ≤ l)

/-- a well-formed one-axis family:
    one location per source, no two sources at one place, the default source at 0 and holding every glyph of the family;
    same-named glyphs are *alike* in all sources (same point types, same component bases **with the same 2×2 part** —
    offsets free —, same anchor names: "compatible masters"); no component cycle (`rank`), no singular component matrix,
    closed contours; every glyph is present at sources spanning the whole axis range (e.g. in the outermost sources) -/
structure WF (I : Inst) (ms : Masters) (rank : String → Nat) : Prop where
  len : I.locs.length = ms.length
  locsNodup : I.locs.Nodup
  default : I.defaultIdx < ms.length ∧ I.locs[I.defaultIdx]? = some 0
  defaultFull : ∀ m ∈ ms, ∀ n, (m.get? n).isSome = true → ((dflt I ms).get? n).isSome = true
  alike : ∀ m1 ∈ ms, ∀ m2 ∈ ms, ∀ n g1 g2, m1.get? n = some g1 → m2.get? n = some g2 → sh g1 = sh g2
  ranked : ∀ m ∈ ms, Ranked m rank
  nonsing : ∀ m ∈ ms, ∀ n g, m.get? n = some g → ∀ k ∈ g.comps, k.t.det ≠ 0
  closed : ∀ m ∈ ms, ∀ n g, m.get? n = some g → ∀ c ∈ g.contours, ∀ p ∈ c, p.seg ≠ some Seg.move
  span : ∀ n, ((dflt I ms).get? n).isSome = true → ∀ l ∈ I.locs,
    (∃ l' ∈ sourceLocs I ms n, l' ≤ l) ∧ (∃ l' ∈ sourceLocs I ms n, l ≤ l')

theorem mem_of_mem_zip_left {α β} {l1 : List α} {l2 : List β} {a : α} {b : β} (h : (a, b) ∈ l1.zip l2) : a ∈ l1 :=
  (List.of_mem_zip h).1
theorem mem_of_mem_zip_right {α β} {l1 : List α} {l2 : List β} {a : α} {b : β} (h : (a, b) ∈ l1.zip l2) : b ∈ l2 :=
  (List.of_mem_zip h).2

section
variable {I : Inst} {ms : Masters} {rank : String → Nat}

theorem WF.dflt_mem (h : WF I ms rank) : (dflt I ms, (0 : Q)) ∈ ms.zip I.locs := by
  apply (mem_zip_iff _ _ _ _).mpr
  refine ⟨I.defaultIdx, ?_, h.default.2⟩
  unfold dflt
  rw [List.getD_eq_getElem?_getD, List.getElem?_eq_getElem h.default.1]
  rfl

theorem alikePts_ptsOf (h : WF I ms rank) (n : String) : AlikePts (ptsOf I ms n) := by
  intro e1 h1 e2 h2
  obtain ⟨l1, g1⟩ := e1
  obtain ⟨l2, g2⟩ := e2
  obtain ⟨m1, hm1, hg1⟩ := (mem_ptsOf _ _ _ _ _).mp h1
  obtain ⟨m2, hm2, hg2⟩ := (mem_ptsOf _ _ _ _ _).mp h2
  exact h.alike m1 (mem_of_mem_zip_left hm1) m2 (mem_of_mem_zip_left hm2) n g1 g2 hg1 hg2

theorem locInj_ptsOf (hnd : I.locs.Nodup) (n : String) : LocInj (ptsOf I ms n) := by
  intro e1 h1 e2 h2 hl
  obtain ⟨l1, g1⟩ := e1
  obtain ⟨l2, g2⟩ := e2
  simp only at hl
  subst hl
  obtain ⟨m1, hm1, hg1⟩ := (mem_ptsOf _ _ _ _ _).mp h1
  obtain ⟨m2, hm2, hg2⟩ := (mem_ptsOf _ _ _ _ _).mp h2
  have := zip_right_inj _ _ hnd m1 m2 l1 hm1 hm2
  subst this
  rw [hg1] at hg2
  rw [Option.some.inj hg2]

theorem default_ptsOf (h : WF I ms rank) (n : String) (d : Glyph) (hd : (dflt I ms).get? n = some d) :
    (0, d) ∈ ptsOf I ms n :=
  (mem_ptsOf _ _ _ _ _).mpr ⟨dflt I ms, h.dflt_mem, hd⟩

/-- `collect_glyph_masters`: with alike masters nothing is filtered out -/
theorem collectMasters_eq (n : String) (d : Glyph) (hd : (dflt I ms).get? n = some d)
    (hal : AlikePts (ptsOf I ms n)) (hdm : (0, d) ∈ ptsOf I ms n) :
    collectMasters I ms n = some (ptsOf I ms n) := by
  unfold collectMasters
  unfold dflt at hd
  rw [hd]
  dsimp only
  have hc : (!glyphEmpty d && (ptsOf I ms n).any (fun e => glyphEmpty e.2)) = false := by
    cases hge : glyphEmpty d with
    | true => rfl
    | false =>
      simp only [Bool.not_false, Bool.true_and, List.any_eq_false]
      intro e he
      have := glyphEmpty_sh (hal e he (0, d) hdm)
      simp only at this
      rw [this, hge]
      simp
  unfold ptsOf at hc ⊢
  rw [if_neg (by rw [hc]; simp)]

theorem glyphAt_eq (h : WF I ms rank) (n : String) (d : Glyph) (hd : (dflt I ms).get? n = some d) (t : Q) :
    glyphAt I ms n t = interpAt (ptsOf I ms n) t := by
  unfold glyphAt
  rw [collectMasters_eq n d hd (alikePts_ptsOf h n) (default_ptsOf h n d hd)]

theorem glyphAt_none (n : String) (hd : (dflt I ms).get? n = none) (t : Q) : glyphAt I ms n t = none := by
  unfold glyphAt collectMasters
  unfold dflt at hd
  rw [hd]

/-- at a source that has the glyph, `glyphAt` is that source's glyph -/
theorem glyphAt_master (h : WF I ms rank) (m : GlyphSet) (l : Q) (hm : (m, l) ∈ ms.zip I.locs) (n : String) (g : Glyph)
    (hg : m.get? n = some g) : glyphAt I ms n l = some g := by
  have hsome : ((dflt I ms).get? n).isSome = true := h.defaultFull m (mem_of_mem_zip_left hm) n (by rw [hg]; rfl)
  obtain ⟨d, hd⟩ := Option.isSome_iff_exists.mp hsome
  rw [glyphAt_eq h n d hd]
  have hmem : (l, g) ∈ ptsOf I ms n := (mem_ptsOf _ _ _ _ _).mpr ⟨m, hm, hg⟩
  obtain ⟨e', he', hloc, hv⟩ := interpAt_master (ptsOf I ms n) l (l, g) hmem rfl
  have : e' = (l, g) := locInj_ptsOf h.locsNodup n e' he' (l, g) hmem hloc
  rw [hv, this]

/-- the masters of a glyph span the hull -/
theorem span_pts (h : WF I ms rank) (n : String) (hn : ((dflt I ms).get? n).isSome = true) (t : Q) (ht : InHull I t) :
    (∃ e ∈ ptsOf I ms n, e.1 ≤ t) ∧ (∃ e ∈ ptsOf I ms n, t ≤ e.1) := by
  obtain ⟨⟨l1, hl1, h1⟩, ⟨l2, hl2, h2⟩⟩ := ht
  obtain ⟨⟨a, ha, hal⟩, _⟩ := h.span n hn l1 hl1
  obtain ⟨_, ⟨b, hb, hbl⟩⟩ := h.span n hn l2 hl2
  obtain ⟨ga, hga⟩ := (mem_sourceLocs_iff_pts _ _ _ _).mp ha
  obtain ⟨gb, hgb⟩ := (mem_sourceLocs_iff_pts _ _ _ _).mp hb
  exact ⟨⟨(a, ga), hga, by simp only; grind⟩, ⟨(b, gb), hgb, by simp only; grind⟩⟩

/-- inside the hull a glyph of the family exists at every location and is alike to its masters -/
theorem glyphAt_sh (h : WF I ms rank) (n : String) (d : Glyph) (hd : (dflt I ms).get? n = some d) (t : Q) (ht : InHull I t) :
    ∃ g, glyphAt I ms n t = some g ∧ ∀ e ∈ ptsOf I ms n, sh g = sh e.2 := by
  rw [glyphAt_eq h n d hd]
  have hal := alikePts_ptsOf h n
  have hdm := default_ptsOf h n d hd
  by_cases hmaster : ∃ e ∈ ptsOf I ms n, e.1 = t
  · obtain ⟨e, he, het⟩ := hmaster
    obtain ⟨e', he', _, hv⟩ := interpAt_master _ t e he het
    exact ⟨e'.2, hv, fun e2 he2 => hal e' he' e2 he2⟩
  · have hnot : ∀ e ∈ ptsOf I ms n, e.1 ≠ t := fun e he het => hmaster ⟨e, he, het⟩
    obtain ⟨⟨a, ha, hat⟩, ⟨b, hb, htb⟩⟩ := span_pts h n (by rw [hd]; rfl) t ht
    have hull : (0 < t ∧ ∃ e ∈ ptsOf I ms n, t ≤ e.1) ∨ (t < 0 ∧ ∃ e ∈ ptsOf I ms n, e.1 ≤ t) := by
      have := hnot (0, d) hdm
      simp only at this
      by_cases h0 : 0 < t
      · exact Or.inl ⟨h0, b, hb, htb⟩
      · exact Or.inr ⟨by grind, a, ha, hat⟩
    obtain ⟨lo, lom, hi, him, _, _, _, hv⟩ := interpAt_off _ t hal ⟨(0, d), hdm, rfl⟩ hnot hull
    refine ⟨_, hv, ?_⟩
    intro e he
    rw [sh_mix _ _ _ (hal lo lom hi him)]
    exact hal lo lom e he


/-! ### the family instantiated at a location -/

theorem alookup_filterMap_key {β} (f : String → Option β) : ∀ (l : List String) (n : String),
    alookup n (l.filterMap (fun x => (f x).map (fun g => (x, g)))) = if n ∈ l then f n else none := by
  intro l n
  induction l with
  | nil => simp [alookup]
  | cons x l ih =>
    simp only [List.filterMap_cons]
    cases hfx : f x with
    | none =>
      simp only [Option.map_none]
      rw [ih]
      by_cases hxn : x = n
      · subst hxn
        simp only [mem_cons, true_or, if_true, hfx]
        split <;> rfl
      · have : (n ∈ x :: l) ↔ n ∈ l := by
          simp only [mem_cons]
          constructor
          · rintro (h | h)
            · exact absurd h.symm hxn
            · exact h
          · exact Or.inr
        simp only [this]
    | some g =>
      simp only [Option.map_some, alookup]
      by_cases hxn : x = n
      · subst hxn
        simp only [beq_self_eq_true, if_true, mem_cons, true_or, hfx]
      · have h1 : (x == n) = false := by simpa using hxn
        have : (n ∈ x :: l) ↔ n ∈ l := by
          simp only [mem_cons]
          constructor
          · rintro (h | h)
            · exact absurd h.symm hxn
            · exact h
          · exact Or.inr
        simp only [h1, Bool.false_eq_true, if_false, ih, this]

theorem mem_allNames_of_get (m : GlyphSet) (hm : m ∈ ms) (n : String) (g : Glyph) (hg : m.get? n = some g) :
    n ∈ allNames ms := by
  unfold allNames
  rw [C09.mem_dedupFirst]
  apply List.mem_flatMap.mpr
  refine ⟨m, hm, ?_⟩
  have := alookup_mem hg
  exact List.mem_map.mpr ⟨(n, g), this, rfl⟩

theorem glyphAt_some_mem (n : String) (t : Q) (g : Glyph) (h : glyphAt I ms n t = some g) : n ∈ allNames ms := by
  unfold glyphAt collectMasters at h
  cases hd : (ms.getD I.defaultIdx []).get? n with
  | none => rw [hd] at h; cases h
  | some d =>
    by_cases hi : I.defaultIdx < ms.length
    · have hm : ms.getD I.defaultIdx [] ∈ ms := by
        rw [List.getD_eq_getElem?_getD, List.getElem?_eq_getElem hi]
        exact List.getElem_mem hi
      exact mem_allNames_of_get _ hm n d hd
    · rw [List.getD_eq_getElem?_getD, List.getElem?_eq_none (by omega)] at hd
      cases hd

/-- looking a glyph up in the instantiated family = interpolating it -/
theorem instanceAt_get (I : Inst) (ms : Masters) (t : Q) (n : String) :
    (instanceAt I ms t).get? n = glyphAt I ms n t := by
  unfold instanceAt GlyphSet.get?
  rw [alookup_filterMap_key (fun n => glyphAt I ms n t)]
  by_cases hn : n ∈ allNames ms
  · rw [if_pos hn]
  · rw [if_neg hn]
    cases hg : glyphAt I ms n t with
    | none => rfl
    | some g => exact absurd (glyphAt_some_mem n t g hg) hn

theorem mem_comps_of_sh {g g0 : Glyph} (h : sh g = sh g0) {k : Comp} (hk : k ∈ g.comps) :
    ∃ k0 ∈ g0.comps, ksh k0 = ksh k := by
  have : ksh k ∈ g.comps.map ksh := List.mem_map.mpr ⟨k, hk, rfl⟩
  rw [sh_comps h] at this
  obtain ⟨k0, hk0, he⟩ := List.mem_map.mp this
  exact ⟨k0, hk0, he⟩

theorem closed_of_sh {g g0 : Glyph} (h : sh g = sh g0)
    (h0 : ∀ c ∈ g0.contours, ∀ p ∈ c, p.seg ≠ some Seg.move) : ∀ c ∈ g.contours, ∀ p ∈ c, p.seg ≠ some Seg.move := by
  intro c hc p hp
  have : contourShape c ∈ g.contours.map contourShape := List.mem_map.mpr ⟨c, hc, rfl⟩
  rw [sh_contours h] at this
  obtain ⟨c0, hc0, he⟩ := List.mem_map.mp this
  have hp' : p.seg ∈ contourShape c := List.mem_map.mpr ⟨p, hp, rfl⟩
  rw [← he] at hp'
  obtain ⟨p0, hp0, hs⟩ := List.mem_map.mp hp'
  rw [← hs]
  exact h0 c0 hc0 p0 hp0

/-- a glyph of the instantiated family is alike to a glyph of some source -/
theorem instance_like_master (h : WF I ms rank) (t : Q) (ht : InHull I t) (n : String) (g : Glyph)
    (hg : glyphAt I ms n t = some g) : ∃ m ∈ ms, ∃ g0, m.get? n = some g0 ∧ sh g = sh g0 := by
  cases hd : (dflt I ms).get? n with
  | none => rw [glyphAt_none n hd] at hg; cases hg
  | some d =>
    obtain ⟨g', hg', hsh⟩ := glyphAt_sh h n d hd t ht
    rw [hg] at hg'
    have := Option.some.inj hg'; subst this
    exact ⟨dflt I ms, mem_of_mem_zip_left h.dflt_mem, d, hd, hsh (0, d) (default_ptsOf h n d hd)⟩

/-- the instantiated family is a good glyph set: acyclic, non-singular components, reversal-involutive contours -/
theorem good_instance (h : WF I ms rank) (t : Q) (ht : InHull I t) : Good (instanceAt I ms t) rank := by
  constructor
  · intro n g hg k hk
    rw [instanceAt_get] at hg
    obtain ⟨m, hm, g0, hg0, hsh⟩ := instance_like_master h t ht n g hg
    obtain ⟨k0, hk0, he⟩ := mem_comps_of_sh hsh hk
    rw [← ksh_base he]
    exact h.ranked m hm n g0 hg0 k0 hk0
  · intro n g hg k hk
    rw [instanceAt_get] at hg
    obtain ⟨m, hm, g0, hg0, hsh⟩ := instance_like_master h t ht n g hg
    obtain ⟨k0, hk0, he⟩ := mem_comps_of_sh hsh hk
    rw [← det_of_linear (ksh_linear he)]
    exact h.nonsing m hm n g0 hg0 k0 hk0
  · intro n g hg c hc
    rw [instanceAt_get] at hg
    obtain ⟨m, hm, g0, hg0, hsh⟩ := instance_like_master h t ht n g hg
    exact reverseContour_involutive c (closed_of_sh hsh (h.closed m hm n g0 hg0) c hc)

end

end Ufo2ft.C13
