import Ufo2ftModel.Props.C20
/-! Property C20, `mergeScripts` continued: the merged buckets contain only scripts of the input keys (nothing invented),
and the `raise AssertionError` of the re-assignment loop ("Shouldn't happen, but just in case") is reached exactly when
some bucket key is empty - never on the keys `splitKerning` produces (they are non-empty). -/
namespace Ufo2ft.C20
open List

/-! ### nothing invented -/

theorem mem_sunion_iff {a b : SSet} {x : Tag} : x ∈ sunion a b ↔ x ∈ a ∨ x ∈ b := by
  by_cases h : x ∈ a <;> simp [sunion, h]

theorem absorb_sound (c : SSet) (rest : List SSet) :
    (∀ x ∈ (absorb c rest).1, x ∈ c ∨ ∃ s ∈ rest, x ∈ s) ∧ ∀ s ∈ (absorb c rest).2.1, s ∈ rest := by
  induction rest generalizing c with
  | nil => simp [absorb]
  | cons s r ih =>
    unfold absorb
    by_cases hd : sdisjoint s c = true
    · simp only [hd, if_true]
      obtain ⟨h1, h2⟩ := ih c
      refine ⟨?_, ?_⟩
      · intro x hx
        rcases h1 x hx with h | ⟨t, ht, hxt⟩
        · exact Or.inl h
        · exact Or.inr ⟨t, mem_cons_of_mem _ ht, hxt⟩
      · intro t ht
        rcases mem_cons.mp ht with rfl | ht
        · exact mem_cons_self
        · exact mem_cons_of_mem _ (h2 t ht)
    · simp only [hd]
      obtain ⟨h1, h2⟩ := ih (sunion c s)
      refine ⟨?_, fun t ht => mem_cons_of_mem _ (h2 t ht)⟩
      intro x hx
      rcases h1 x hx with h | ⟨t, ht, hxt⟩
      · rcases mem_sunion_iff.mp h with h | h
        · exact Or.inl h
        · exact Or.inr ⟨s, mem_cons_self, h⟩
      · exact Or.inr ⟨t, mem_cons_of_mem _ ht, hxt⟩

theorem mergePass_sound (n : Nat) (sets : List SSet) :
    ∀ b ∈ (mergePass n sets).1, ∀ x ∈ b, ∃ s ∈ sets, x ∈ s := by
  induction n generalizing sets with
  | zero => simp [mergePass]
  | succ n ih =>
    cases sets with
    | nil => simp [mergePass]
    | cons c rest =>
      obtain ⟨h1, h2⟩ := absorb_sound c rest
      intro b hb x hx
      simp only [mergePass] at hb
      rcases mem_cons.mp hb with rfl | hb
      · rcases h1 x hx with h | ⟨t, ht, hxt⟩
        · exact ⟨c, mem_cons_self, h⟩
        · exact ⟨t, mem_cons_of_mem _ ht, hxt⟩
      · obtain ⟨t, ht, hxt⟩ := ih _ b hb x hx
        exact ⟨t, mem_cons_of_mem _ (h2 t ht), hxt⟩

theorem mergeLoop_sound (n : Nat) (sets : List SSet) :
    ∀ b ∈ mergeLoop n sets, ∀ x ∈ b, ∃ s ∈ sets, x ∈ s := by
  induction n generalizing sets with
  | zero => intro b hb x hx; exact ⟨b, hb, hx⟩
  | succ n ih =>
    intro b hb x hx
    simp only [mergeLoop] at hb
    by_cases hm : (mergePass sets.length sets).2 = true
    · simp only [hm, if_true] at hb
      obtain ⟨t, ht, hxt⟩ := ih _ b hb x hx
      exact mergePass_sound _ _ t ht x hxt
    · have hm' : (mergePass sets.length sets).2 = false := by simpa using hm
      simp only [hm'] at hb
      exact mergePass_sound _ _ b hb x hx

/-- **mergeScripts, nothing invented**: every script of every merged bucket is a script of some (non-empty) input key -/
theorem C20_merge_sound (keys : List SSet) (b : SSet) (hb : b ∈ mergeSets keys) (x : Tag) (hx : x ∈ b) :
    ∃ k ∈ keys, x ∈ k := by
  obtain ⟨s, hs, hxs⟩ := mergeLoop_sound _ _ b hb x hx
  exact ⟨s, (mem_filter.mp hs).1, hxs⟩

/-! ### the assertion of the re-assignment loop -/

theorem reassign_ok (sets : List SSet) (kps acc : List (SSet × List Nat))
    (h : ∀ e ∈ kps, (reassignOne sets e.1).isSome = true) : ∃ r, reassign sets acc kps = .ok r := by
  induction kps generalizing acc with
  | nil => exact ⟨acc, rfl⟩
  | cons e r ih =>
    obtain ⟨k, ps⟩ := e
    have h0 := h (k, ps) mem_cons_self
    obtain ⟨b, hb⟩ := Option.isSome_iff_exists.mp h0
    simp only [reassign]
    simp only at hb
    rw [hb]
    exact ih _ (fun e he => h e (mem_cons_of_mem _ he))

theorem reassign_error (sets : List SSet) (kps acc : List (SSet × List Nat))
    (h : ∃ e ∈ kps, reassignOne sets e.1 = none) : reassign sets acc kps = .error .assertion := by
  induction kps generalizing acc with
  | nil => simp at h
  | cons e r ih =>
    obtain ⟨k, ps⟩ := e
    simp only [reassign]
    cases hk : reassignOne sets k with
    | none => rfl
    | some b =>
      simp only
      apply ih
      obtain ⟨e, he, hn⟩ := h
      rcases mem_cons.mp he with rfl | he
      · simp only at hn; rw [hk] at hn; cases hn
      · exact ⟨e, he, hn⟩

theorem sdisjoint_nil (s : SSet) : sdisjoint s [] = true := by simp [sdisjoint]

theorem reassignOne_nil (sets : List SSet) : reassignOne sets [] = none := by
  simp [reassignOne, sdisjoint_nil]

/-- a non-empty key of the input always finds its merged bucket (consequence of `C20_merge_cover`) -/
theorem reassignOne_isSome (keys : List SSet) (k : SSet) (hk : k ∈ keys) (hne : k.isEmpty = false) :
    (reassignOne (mergeSets keys) k).isSome = true := by
  obtain ⟨b, hb, hsub⟩ := C20_merge_cover keys k hk hne
  simp only [reassignOne, find?_isSome]
  refine ⟨b, hb, ?_⟩
  cases k with
  | nil => simp at hne
  | cons x r =>
    have hx : x ∈ b := hsub x mem_cons_self
    simp only [sdisjoint, Bool.not_eq_eq_eq_not, Bool.not_true, all_eq_false]
    exact ⟨x, hx, by simp⟩

/-- **mergeScripts never reaches its `raise AssertionError`** when every bucket key is non-empty (what `splitKerning`
produces): for every such input, of any size, a result is returned. -/
theorem C20_merge_never_asserts (kps : List (SSet × List Nat)) (hne : ∀ e ∈ kps, e.1.isEmpty = false) :
    ∃ r, mergeScripts kps = .ok r := by
  unfold mergeScripts
  apply reassign_ok
  intro e he
  exact reassignOne_isSome _ e.1 (mem_map.mpr ⟨e, he, rfl⟩) (hne e he)

/-- ... and it is reached for every input that has an empty key (the code filters empty keys out of `sets` but still
iterates over them in the re-assignment loop) -/
theorem C20_merge_asserts_of_empty (kps : List (SSet × List Nat)) (h : ∃ e ∈ kps, e.1.isEmpty = true) :
    mergeScripts kps = .error .assertion := by
  unfold mergeScripts
  apply reassign_error
  obtain ⟨e, he, hemp⟩ := h
  refine ⟨e, he, ?_⟩
  have : e.1 = [] := by simpa using hemp
  rw [this]; exact reassignOne_nil _

/-- exact characterisation of the error branch -/
theorem C20_merge_asserts_iff (kps : List (SSet × List Nat)) :
    mergeScripts kps = .error .assertion ↔ ∃ e ∈ kps, e.1.isEmpty = true := by
  constructor
  · intro h
    by_cases hall : ∀ e ∈ kps, e.1.isEmpty = false
    · obtain ⟨r, hr⟩ := C20_merge_never_asserts kps hall
      rw [hr] at h; cases h
    · apply Classical.byContradiction
      intro hno
      apply hall
      intro e he
      cases hemp : e.1.isEmpty with
      | false => rfl
      | true => exact absurd ⟨e, he, hemp⟩ hno
  · exact C20_merge_asserts_of_empty kps

/-- non-vacuity: a three-bucket chain returns; the same input with an empty key raises -/
example : (∃ r, mergeScripts [(["A", "B"], [0]), (["C", "D"], [1]), (["B", "C"], [2])] = .ok r) ∧
    mergeScripts [(["A", "B"], [0]), ([], [1])] = .error .assertion :=
  ⟨C20_merge_never_asserts _ (by decide), C20_merge_asserts_of_empty _ ⟨([], [1]), by decide, rfl⟩⟩

/-! ### the pairs: nothing lost, nothing duplicated -/

theorem absorb_nonempty (c : SSet) (rest : List SSet) (hc : c ≠ []) : (absorb c rest).1 ≠ [] := by
  cases c with
  | nil => exact absurd rfl hc
  | cons x r =>
    intro h
    have := (absorb_cover (x :: r) rest).1 x mem_cons_self
    rw [h] at this; cases this

theorem mergePass_nonempty (n : Nat) (sets : List SSet) (h : ∀ s ∈ sets, s ≠ []) :
    ∀ b ∈ (mergePass n sets).1, b ≠ [] := by
  induction n generalizing sets with
  | zero => simp [mergePass]
  | succ n ih =>
    cases sets with
    | nil => simp [mergePass]
    | cons c rest =>
      intro b hb
      simp only [mergePass] at hb
      rcases mem_cons.mp hb with rfl | hb
      · exact absorb_nonempty c rest (h c mem_cons_self)
      · exact ih _ (fun s hs => h s (mem_cons_of_mem _ ((absorb_sound c rest).2 s hs))) b hb

theorem mergeLoop_nonempty (n : Nat) (sets : List SSet) (h : ∀ s ∈ sets, s ≠ []) :
    ∀ b ∈ mergeLoop n sets, b ≠ [] := by
  induction n generalizing sets with
  | zero => exact h
  | succ n ih =>
    intro b hb
    simp only [mergeLoop] at hb
    by_cases hm : (mergePass sets.length sets).2 = true
    · simp only [hm, if_true] at hb
      exact ih _ (mergePass_nonempty _ _ h) b hb
    · have hm' : (mergePass sets.length sets).2 = false := by simpa using hm
      simp only [hm'] at hb
      exact mergePass_nonempty _ _ h b hb

theorem mergeSets_nonempty (keys : List SSet) : ∀ b ∈ mergeSets keys, b ≠ [] := by
  apply mergeLoop_nonempty
  intro s hs
  have := (mem_filter.mp hs).2
  intro h; rw [h] at this; simp at this

theorem sdisjoint_self_false (a : SSet) (h : a ≠ []) : sdisjoint a a = false := by
  cases a with
  | nil => exact absurd rfl h
  | cons x r => simp [sdisjoint]

/-- the merged bucket keys are distinct (so the result dict of `mergeScripts` has one entry per merged set) -/
theorem mergeSets_nodup (keys : List SSet) : (mergeSets keys).Nodup := by
  have hd := C20_merge_disjoint keys
  have hn := mergeSets_nonempty keys
  refine Pairwise.imp_of_mem ?_ hd
  intro a b ha _ hab heq
  subst heq
  rw [sdisjoint_self_false a (hn a ha)] at hab; cases hab

def pourInto (b : SSet) (ps : List Nat) (acc : List (SSet × List Nat)) : List (SSet × List Nat) :=
  acc.map (fun e => if e.1 == b then (e.1, e.2 ++ ps) else e)

theorem pourInto_keys (b : SSet) (ps : List Nat) (acc : List (SSet × List Nat)) :
    (pourInto b ps acc).map (·.1) = acc.map (·.1) := by
  induction acc with
  | nil => rfl
  | cons e r ih =>
    simp only [pourInto, map_cons] at ih ⊢
    rw [ih]
    by_cases h : (e.1 == b) = true <;> simp [h]

theorem pourInto_absent (b : SSet) (ps : List Nat) (acc : List (SSet × List Nat)) (h : b ∉ acc.map (·.1)) :
    pourInto b ps acc = acc := by
  induction acc with
  | nil => rfl
  | cons e r ih =>
    simp only [map_cons, mem_cons, not_or] at h
    have hne : (e.1 == b) = false := by
      apply beq_false_of_ne; intro heq; exact h.1 heq.symm
    simp only [pourInto, map_cons, hne] at ih ⊢
    rw [ih h.2]; simp

theorem pourInto_perm (b : SSet) (ps : List Nat) (acc : List (SSet × List Nat)) (hnd : (acc.map (·.1)).Nodup)
    (hb : b ∈ acc.map (·.1)) : ((pourInto b ps acc).flatMap (·.2)).Perm (acc.flatMap (·.2) ++ ps) := by
  induction acc with
  | nil => simp at hb
  | cons e r ih =>
    simp only [map_cons, nodup_cons] at hnd
    by_cases he : (e.1 == b) = true
    · have heq : e.1 = b := by simpa using he
      have hr : pourInto b ps r = r := pourInto_absent b ps r (heq ▸ hnd.1)
      have : pourInto b ps (e :: r) = (e.1, e.2 ++ ps) :: r := by
        have hr' := hr
        simp only [pourInto] at hr' ⊢
        simp only [map_cons, he, if_true, hr']
      rw [this]
      simp only [flatMap_cons, append_assoc]
      exact Perm.append_left _ perm_append_comm
    · have he' : (e.1 == b) = false := by simpa using he
      have hbr : b ∈ r.map (·.1) := by
        simp only [map_cons, mem_cons] at hb
        rcases hb with h | h
        · rw [h] at he'; simp at he'
        · exact h
      have : pourInto b ps (e :: r) = e :: pourInto b ps r := by
        simp only [pourInto, map_cons, he']; simp
      rw [this]
      simp only [flatMap_cons, append_assoc]
      exact Perm.append_left _ (ih hnd.2 hbr)

theorem reassign_perm (sets : List SSet) (hnd : sets.Nodup) (kps acc r : List (SSet × List Nat))
    (hk : acc.map (·.1) = sets) (h : reassign sets acc kps = .ok r) :
    r.map (·.1) = sets ∧ (r.flatMap (·.2)).Perm (acc.flatMap (·.2) ++ kps.flatMap (·.2)) := by
  induction kps generalizing acc with
  | nil =>
    simp only [reassign] at h
    cases h; simp [hk]
  | cons e rest ih =>
    obtain ⟨k, ps⟩ := e
    simp only [reassign] at h
    cases hf : reassignOne sets k with
    | none => rw [hf] at h; cases h
    | some b =>
      rw [hf] at h
      have hbm : b ∈ sets := mem_of_find?_eq_some hf
      have h' : reassign sets (pourInto b ps acc) rest = .ok r := h
      obtain ⟨h1, h2⟩ := ih (pourInto b ps acc) ((pourInto_keys b ps acc).trans hk) h'
      refine ⟨h1, h2.trans ?_⟩
      simp only [flatMap_cons, ← append_assoc]
      exact Perm.append_right _ (pourInto_perm b ps acc (hk ▸ hnd) (hk ▸ hbm))

/-- **mergeScripts keeps the pairs**: whenever it returns, the result has one entry per merged set, in the order of the
merged sets, and the pairs of all result buckets are a permutation of the pairs of all input buckets - no pair is lost,
none duplicated, for every input. -/
theorem C20_merge_pairs (kps r : List (SSet × List Nat)) (h : mergeScripts kps = .ok r) :
    r.map (·.1) = mergeSets (kps.map (·.1)) ∧ (r.flatMap (·.2)).Perm (kps.flatMap (·.2)) := by
  unfold mergeScripts at h
  have := reassign_perm _ (mergeSets_nodup _) kps _ r (by simp [Function.comp_def]) h
  refine ⟨this.1, this.2.trans ?_⟩
  have h0 : (map (fun s => ((s, []) : SSet × List Nat)) (mergeSets (map (·.1) kps))).flatMap (·.2) = [] := by
    induction (mergeSets (map (·.1) kps)) with
    | nil => rfl
    | cons a l ih => simp [flatMap_cons]
  rw [h0]; simp

example : (mergeScripts [(["A", "B"], [0]), (["C", "D"], [1, 5]), (["B", "C"], [2])]).toOption = some [(["A", "B", "C", "D"], [0, 1, 5, 2])] := by
  decide

/-! ### a key's pairs land in the merged bucket that contains the key -/

theorem sdisjoint_iff (a b : SSet) : sdisjoint a b = true ↔ ∀ x ∈ a, x ∉ b := by
  simp [sdisjoint]

theorem pourInto_mono (b : SSet) (ps : List Nat) (acc : List (SSet × List Nat)) :
    ∀ e ∈ acc, ∃ e' ∈ pourInto b ps acc, e'.1 = e.1 ∧ ∀ p ∈ e.2, p ∈ e'.2 := by
  intro e he
  refine ⟨if e.1 == b then (e.1, e.2 ++ ps) else e, mem_map.mpr ⟨e, he, rfl⟩, ?_⟩
  by_cases h : (e.1 == b) = true
  · simp only [h, if_true, true_and]
    intro p hp; exact mem_append_left _ hp
  · simp [h]

theorem pourInto_lands (b : SSet) (ps : List Nat) (acc : List (SSet × List Nat)) (hb : b ∈ acc.map (·.1)) :
    ∃ e' ∈ pourInto b ps acc, e'.1 = b ∧ ∀ p ∈ ps, p ∈ e'.2 := by
  obtain ⟨e, he, heq⟩ := mem_map.mp hb
  refine ⟨(e.1, e.2 ++ ps), mem_map.mpr ⟨e, he, ?_⟩, heq, fun p hp => mem_append_right _ hp⟩
  have : (e.1 == b) = true := by simp [heq]
  simp [this]

theorem reassign_mono (sets : List SSet) (kps acc r : List (SSet × List Nat)) (h : reassign sets acc kps = .ok r) :
    ∀ e ∈ acc, ∃ e' ∈ r, e'.1 = e.1 ∧ ∀ p ∈ e.2, p ∈ e'.2 := by
  induction kps generalizing acc with
  | nil =>
    simp only [reassign] at h
    cases h
    intro e he; exact ⟨e, he, rfl, fun _ hp => hp⟩
  | cons e0 rest ih =>
    obtain ⟨k, ps⟩ := e0
    simp only [reassign] at h
    cases hf : reassignOne sets k with
    | none => rw [hf] at h; cases h
    | some b =>
      rw [hf] at h
      have h' : reassign sets (pourInto b ps acc) rest = .ok r := h
      intro e he
      obtain ⟨e1, he1, hk1, hp1⟩ := pourInto_mono b ps acc e he
      obtain ⟨e2, he2, hk2, hp2⟩ := ih _ h' e1 he1
      exact ⟨e2, he2, hk2.trans hk1, fun p hp => hp2 p (hp1 p hp)⟩

theorem reassign_lands (sets : List SSet) (kps acc r : List (SSet × List Nat)) (hk : acc.map (·.1) = sets)
    (h : reassign sets acc kps = .ok r) :
    ∀ e ∈ kps, ∀ b, reassignOne sets e.1 = some b → ∃ e' ∈ r, e'.1 = b ∧ ∀ p ∈ e.2, p ∈ e'.2 := by
  induction kps generalizing acc with
  | nil => intro e he; cases he
  | cons e0 rest ih =>
    obtain ⟨k, ps⟩ := e0
    simp only [reassign] at h
    cases hf : reassignOne sets k with
    | none => rw [hf] at h; cases h
    | some b0 =>
      rw [hf] at h
      have h' : reassign sets (pourInto b0 ps acc) rest = .ok r := h
      intro e he b hb
      rcases mem_cons.mp he with rfl | he
      · simp only at hb
        rw [hf] at hb
        cases hb
        have hbm : b0 ∈ acc.map (·.1) := hk ▸ mem_of_find?_eq_some hf
        obtain ⟨e1, he1, hk1, hp1⟩ := pourInto_lands b0 ps acc hbm
        obtain ⟨e2, he2, hk2, hp2⟩ := reassign_mono _ _ _ _ h' e1 he1
        exact ⟨e2, he2, hk2.trans hk1, fun p hp => hp2 p (hp1 p hp)⟩
      · exact ih _ ((pourInto_keys b0 ps acc).trans hk) h' e he b hb

theorem pairwise_forall_symm {α} {R : α → α → Prop} (hs : ∀ a b, R a b → R b a) (l : List α) (h : l.Pairwise R) :
    ∀ a ∈ l, ∀ b ∈ l, a ≠ b → R a b := by
  induction l with
  | nil => intro a ha; cases ha
  | cons x r ih =>
    obtain ⟨h1, h2⟩ := pairwise_cons.mp h
    intro a ha b hb hab
    rcases mem_cons.mp ha with hax | har <;> rcases mem_cons.mp hb with hbx | hbr
    · exact absurd (hax.trans hbx.symm) hab
    · rw [hax]; exact h1 b hbr
    · rw [hbx]; exact hs _ _ (h1 a har)
    · exact ih h2 a har b hbr hab

/-- among pairwise disjoint buckets, the first one that meets a key `k` is THE bucket containing `k` -/
theorem reassignOne_contains (sets : List SSet) (hd : sets.Pairwise (fun a b => sdisjoint b a = true))
    (k b0 b : SSet) (hb0 : b0 ∈ sets) (hsub : ∀ x ∈ k, x ∈ b0) (hf : reassignOne sets k = some b) : b = b0 := by
  have hbm : b ∈ sets := mem_of_find?_eq_some hf
  have hmeet : sdisjoint b k = false := by simpa using find?_some hf
  have : ∃ x ∈ b, x ∈ k := by
    simp only [sdisjoint, all_eq_false] at hmeet
    obtain ⟨x, hx, hc⟩ := hmeet
    exact ⟨x, hx, by simpa using hc⟩
  obtain ⟨x, hxb, hxk⟩ := this
  have hxb0 := hsub x hxk
  apply Classical.byContradiction
  intro hne
  have hsym : ∀ a c : SSet, sdisjoint c a = true → sdisjoint a c = true := by
    intro a c h
    rw [sdisjoint_iff] at h ⊢
    intro y hy hyc; exact h y hyc hy
  have hall := pairwise_forall_symm (R := fun a c : SSet => sdisjoint c a = true) (fun a c h => hsym a c h) sets hd
  have := hall b0 hb0 b hbm (fun h => hne h.symm)
  exact (sdisjoint_iff b b0).mp this x hxb hxb0

/-- **mergeScripts puts a key's pairs where the key's scripts are**: whenever it returns, every non-empty input key is
contained in the key of ONE result bucket and that bucket holds all of the key's pairs - for every input. -/
theorem C20_merge_lands (kps r : List (SSet × List Nat)) (h : mergeScripts kps = .ok r)
    (e : SSet × List Nat) (he : e ∈ kps) (hne : e.1.isEmpty = false) :
    ∃ b ∈ r, (∀ x ∈ e.1, x ∈ b.1) ∧ ∀ p ∈ e.2, p ∈ b.2 := by
  have hkeys : e.1 ∈ kps.map (·.1) := mem_map.mpr ⟨e, he, rfl⟩
  obtain ⟨b0, hb0, hsub⟩ := C20_merge_cover _ e.1 hkeys hne
  have hsome := reassignOne_isSome _ e.1 hkeys hne
  obtain ⟨b, hb⟩ := Option.isSome_iff_exists.mp hsome
  have hbb0 := reassignOne_contains _ (C20_merge_disjoint _) e.1 b0 b hb0 hsub hb
  unfold mergeScripts at h
  obtain ⟨e', he', hk', hp'⟩ := reassign_lands _ kps _ r (by simp [Function.comp_def]) h e he b hb
  refine ⟨e', he', ?_, hp'⟩
  rw [hk', hbb0]; exact hsub

theorem sdisjoint_symm (a c : SSet) (h : sdisjoint c a = true) : sdisjoint a c = true := by
  rw [sdisjoint_iff] at h ⊢
  intro y hy hyc; exact h y hyc hy

/-- **mergeScripts meets its whole specification** (`holdsMerge`, the predicate the correspondence evaluates on the code's
output): whenever it returns - i.e. whenever no key is empty - the result buckets are pairwise disjoint, hold only scripts
of the input, every input key lies inside one bucket that holds all its pairs, and the pairs are a permutation of the
input's.  For every input, of any size and in any order. -/
theorem C20_merge_holds (kps r : List (SSet × List Nat)) (h : mergeScripts kps = .ok r) : holdsMerge kps r = true := by
  obtain ⟨hkeys, hperm⟩ := C20_merge_pairs kps r h
  have hd := C20_merge_disjoint (kps.map (·.1))
  rw [← hkeys, pairwise_map] at hd
  simp only [holdsMerge, Bool.and_eq_true, decide_eq_true_eq, all_eq_true, any_eq_true, Bool.or_eq_true,
    contains_iff_mem, isPerm_iff]
  refine ⟨⟨⟨?_, ?_⟩, ?_⟩, hperm⟩
  · refine hd.imp ?_
    intro a b hab
    have := sdisjoint_symm _ _ hab
    simpa [sdisjoint] using this
  · intro b hb x hx
    have hbm : b.1 ∈ mergeSets (kps.map (·.1)) := hkeys ▸ mem_map.mpr ⟨b, hb, rfl⟩
    obtain ⟨k, hk, hxk⟩ := C20_merge_sound _ b.1 hbm x hx
    obtain ⟨e, he, rfl⟩ := mem_map.mp hk
    exact ⟨e, he, hxk⟩
  · intro e he
    cases hemp : e.1.isEmpty with
    | true => exact Or.inl rfl
    | false =>
      right
      obtain ⟨b, hb, h1, h2⟩ := C20_merge_lands kps r h e he hemp
      exact ⟨b, hb, h1, h2⟩

/-- non-vacuity of `C20_merge_holds`: the three-bucket chain returns, so the theorem applies to it -/
example : holdsMerge [(["A", "B"], [0]), (["C", "D"], [1]), (["B", "C"], [2])] [(["A", "B", "C", "D"], [0, 1, 2])] = true :=
  C20_merge_holds _ _ (by rfl)

/-! ### the result is a fixed point -/

theorem absorb_of_disjoint (c : SSet) (rest : List SSet) (h : ∀ s ∈ rest, sdisjoint s c = true) :
    absorb c rest = (c, rest, false) := by
  induction rest with
  | nil => rfl
  | cons s r ih =>
    unfold absorb
    simp only [h s mem_cons_self, if_true]
    rw [ih (fun t ht => h t (mem_cons_of_mem _ ht))]

theorem mergePass_of_disjoint (n : Nat) (sets : List SSet) (hn : sets.length ≤ n)
    (h : sets.Pairwise (fun a b => sdisjoint b a = true)) : mergePass n sets = (sets, false) := by
  induction n generalizing sets with
  | zero =>
    have : sets = [] := by simpa using hn
    subst this; rfl
  | succ n ih =>
    cases sets with
    | nil => rfl
    | cons c rest =>
      obtain ⟨h1, h2⟩ := pairwise_cons.mp h
      simp only [length_cons] at hn
      simp only [mergePass, absorb_of_disjoint c rest h1, ih rest (by omega) h2, Bool.or_false]

theorem mergeLoop_of_disjoint (n : Nat) (sets : List SSet) (h : sets.Pairwise (fun a b => sdisjoint b a = true)) :
    mergeLoop n sets = sets := by
  cases n with
  | zero => rfl
  | succ n => simp [mergeLoop, mergePass_of_disjoint _ sets (Nat.le_refl _) h]

/-- **the merged buckets are a fixed point**: merging them again changes nothing - neither the sets nor their order
(so the `while merged` loop stops exactly at a stable state, and no further pass could join two result buckets) -/
theorem C20_merge_idempotent (keys : List SSet) : mergeSets (mergeSets keys) = mergeSets keys := by
  have hne := mergeSets_nonempty keys
  have hf : (mergeSets keys).filter (fun k => !k.isEmpty) = mergeSets keys := by
    apply filter_eq_self.mpr
    intro a ha
    have := hne a ha
    cases a with
    | nil => exact absurd rfl this
    | cons x r => rfl
  show mergeLoop ((mergeSets keys).filter _).length ((mergeSets keys).filter _) = _
  rw [hf]
  exact mergeLoop_of_disjoint _ _ (C20_merge_disjoint keys)

/-- already-disjoint non-empty keys come back unchanged, in their order -/
theorem C20_merge_disjoint_id (keys : List SSet) (hne : ∀ k ∈ keys, k ≠ [])
    (h : keys.Pairwise (fun a b => sdisjoint b a = true)) : mergeSets keys = keys := by
  have hf : keys.filter (fun k => !k.isEmpty) = keys := by
    apply filter_eq_self.mpr
    intro a ha
    have := hne a ha
    cases a with
    | nil => exact absurd rfl this
    | cons x r => rfl
  show mergeLoop (keys.filter _).length (keys.filter _) = _
  rw [hf]
  exact mergeLoop_of_disjoint _ _ h

example : mergeSets [["A"], ["B", "C"], ["D"]] = [["A"], ["B", "C"], ["D"]] := by decide

/-! ### exact contents and order of every result bucket -/

/-- the pairs that the re-assignment loop pours into the bucket `s`: those of the keys whose FIRST meeting bucket is `s`,
in the order of the input dict -/
def poured (sets : List SSet) (kps : List (SSet × List Nat)) (s : SSet) : List Nat :=
  (kps.filter (fun k => reassignOne sets k.1 == some s)).flatMap (·.2)

theorem reassign_exact (sets : List SSet) (kps acc r : List (SSet × List Nat)) (h : reassign sets acc kps = .ok r) :
    r = acc.map (fun e => (e.1, e.2 ++ poured sets kps e.1)) := by
  induction kps generalizing acc with
  | nil =>
    simp only [reassign] at h
    cases h
    simp [poured]
  | cons e0 rest ih =>
    obtain ⟨k, ps⟩ := e0
    simp only [reassign] at h
    cases hf : reassignOne sets k with
    | none => rw [hf] at h; cases h
    | some b =>
      rw [hf] at h
      have h' : reassign sets (pourInto b ps acc) rest = .ok r := h
      rw [ih _ h']
      simp only [pourInto, map_map]
      apply map_congr_left
      intro e _
      simp only [Function.comp]
      by_cases hb : (e.1 == b) = true
      · have hbe : b = e.1 := by simpa using Eq.symm (by simpa using hb : e.1 = b)
        simp only [if_true, poured, filter_cons, hf, hbe, beq_self_eq_true, flatMap_cons, append_assoc]
      · have hne : e.1 ≠ b := by simpa using hb
        have : (some b == some e.1) = false := by
          simp only [beq_eq_false_iff_ne, ne_eq, Option.some.injEq]; exact fun h => hne h.symm
        simp only [hb, poured, filter_cons, hf, this]
        simp

/-- **mergeScripts, exactly**: whenever it returns, the result is the list of merged sets, in their order, each with the
pairs of the input keys whose first meeting bucket it is, concatenated in input order - the whole output (keys, pairs and
both orders) is determined by the input, for every input. -/
theorem C20_merge_exact (kps r : List (SSet × List Nat)) (h : mergeScripts kps = .ok r) :
    r = (mergeSets (kps.map (·.1))).map (fun s => (s, poured (mergeSets (kps.map (·.1))) kps s)) := by
  unfold mergeScripts at h
  rw [reassign_exact _ _ _ _ h]
  simp [map_map, Function.comp_def]

example : (mergeScripts [(["A", "B"], [0]), (["C"], [1, 5]), (["B", "D"], [2])]).toOption
    = some [(["A", "B", "D"], [0, 2]), (["C"], [1, 5])] := by decide

end Ufo2ft.C20
