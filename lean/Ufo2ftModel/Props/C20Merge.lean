import Ufo2ftModel.Props.C20
/-! Property C20, `mergeScripts` continued: the merged buckets contain only scripts of the input keys (nothing invented),
and the `raise AssertionError` of the re-assignment loop ("Shouldn't happen, but just in case") is reached exactly when
some bucket key is empty - never on the keys `splitKerning` produces (they are non-empty). -/
namespace Ufo2ft.C20
open List

/-! ### nothing invented -/

theorem mem_sunion_iff {a b : SSet} {x : Tag} : x ∈ sunion a b ↔ x ∈ a ∨ x ∈ b := by
  by_cases h : x ∈ a <;> simp [sunion, h]

theorem absorb_sound (c : SSet) (rest : List SSet) :
    (∀ x ∈ (absorb c rest).1, x ∈ c ∨ ∃ s ∈ rest, x ∈ s) ∧ ∀ s ∈ (absorb c rest).2.1, s ∈ rest := by
  induction rest generalizing c with
  | nil => simp [absorb]
  | cons s r ih =>
    unfold absorb
    by_cases hd : sdisjoint s c = true
    · simp only [hd, if_true]
      obtain ⟨h1, h2⟩ := ih c
      refine ⟨?_, ?_⟩
      · intro x hx
        rcases h1 x hx with h | ⟨t, ht, hxt⟩
        · exact Or.inl h
        · exact Or.inr ⟨t, mem_cons_of_mem _ ht, hxt⟩
      · intro t ht
        rcases mem_cons.mp ht with rfl | ht
        · exact mem_cons_self
        · exact mem_cons_of_mem _ (h2 t ht)
    · simp only [hd]
      obtain ⟨h1, h2⟩ := ih (sunion c s)
      refine ⟨?_, fun t ht => mem_cons_of_mem _ (h2 t ht)⟩
      intro x hx
      rcases h1 x hx with h | ⟨t, ht, hxt⟩
      · rcases mem_sunion_iff.mp h with h | h
        · exact Or.inl h
        · exact Or.inr ⟨s, mem_cons_self, h⟩
      · exact Or.inr ⟨t, mem_cons_of_mem _ ht, hxt⟩

theorem mergePass_sound (n : Nat) (sets : List SSet) :
    ∀ b ∈ (mergePass n sets).1, ∀ x ∈ b, ∃ s ∈ sets, x ∈ s := by
  induction n generalizing sets with
  | zero => simp [mergePass]
  | succ n ih =>
    cases sets with
    | nil => simp [mergePass]
    | cons c rest =>
      obtain ⟨h1, h2⟩ := absorb_sound c rest
      intro b hb x hx
      simp only [mergePass] at hb
      rcases mem_cons.mp hb with rfl | hb
      · rcases h1 x hx with h | ⟨t, ht, hxt⟩
        · exact ⟨c, mem_cons_self, h⟩
        · exact ⟨t, mem_cons_of_mem _ ht, hxt⟩
      · obtain ⟨t, ht, hxt⟩ := ih _ b hb x hx
        exact ⟨t, mem_cons_of_mem _ (h2 t ht), hxt⟩

theorem mergeLoop_sound (n : Nat) (sets : List SSet) :
    ∀ b ∈ mergeLoop n sets, ∀ x ∈ b, ∃ s ∈ sets, x ∈ s := by
  induction n generalizing sets with
  | zero => intro b hb x hx; exact ⟨b, hb, hx⟩
  | succ n ih =>
    intro b hb x hx
    simp only [mergeLoop] at hb
    by_cases hm : (mergePass sets.length sets).2 = true
    · simp only [hm, if_true] at hb
      obtain ⟨t, ht, hxt⟩ := ih _ b hb x hx
      exact mergePass_sound _ _ t ht x hxt
    · have hm' : (mergePass sets.length sets).2 = false := by simpa using hm
      simp only [hm'] at hb
      exact mergePass_sound _ _ b hb x hx

/-- **mergeScripts, nothing invented**: every script of every merged bucket is a script of some (non-empty) input key -/
theorem C20_merge_sound (keys : List SSet) (b : SSet) (hb : b ∈ mergeSets keys) (x : Tag) (hx : x ∈ b) :
    ∃ k ∈ keys, x ∈ k := by
  obtain ⟨s, hs, hxs⟩ := mergeLoop_sound _ _ b hb x hx
  exact ⟨s, (mem_filter.mp hs).1, hxs⟩

/-! ### the assertion of the re-assignment loop -/

theorem reassign_ok (sets : List SSet) (kps acc : List (SSet × List Nat))
    (h : ∀ e ∈ kps, (reassignOne sets e.1).isSome = true) : ∃ r, reassign sets acc kps = .ok r := by
  induction kps generalizing acc with
  | nil => exact ⟨acc, rfl⟩
  | cons e r ih =>
    obtain ⟨k, ps⟩ := e
    have h0 := h (k, ps) mem_cons_self
    obtain ⟨b, hb⟩ := Option.isSome_iff_exists.mp h0
    simp only [reassign]
    simp only at hb
    rw [hb]
    exact ih _ (fun e he => h e (mem_cons_of_mem _ he))

theorem reassign_error (sets : List SSet) (kps acc : List (SSet × List Nat))
    (h : ∃ e ∈ kps, reassignOne sets e.1 = none) : reassign sets acc kps = .error .assertion := by
  induction kps generalizing acc with
  | nil => simp at h
  | cons e r ih =>
    obtain ⟨k, ps⟩ := e
    simp only [reassign]
    cases hk : reassignOne sets k with
    | none => rfl
    | some b =>
      simp only
      apply ih
      obtain ⟨e, he, hn⟩ := h
      rcases mem_cons.mp he with rfl | he
      · simp only at hn; rw [hk] at hn; cases hn
      · exact ⟨e, he, hn⟩

theorem sdisjoint_nil (s : SSet) : sdisjoint s [] = true := by simp [sdisjoint]

theorem reassignOne_nil (sets : List SSet) : reassignOne sets [] = none := by
  simp [reassignOne, sdisjoint_nil]

/-- a non-empty key of the input always finds its merged bucket (consequence of `C20_merge_cover`) -/
theorem reassignOne_isSome (keys : List SSet) (k : SSet) (hk : k ∈ keys) (hne : k.isEmpty = false) :
    (reassignOne (mergeSets keys) k).isSome = true := by
  obtain ⟨b, hb, hsub⟩ := C20_merge_cover keys k hk hne
  simp only [reassignOne, find?_isSome]
  refine ⟨b, hb, ?_⟩
  cases k with
  | nil => simp at hne
  | cons x r =>
    have hx : x ∈ b := hsub x mem_cons_self
    simp only [sdisjoint, Bool.not_eq_eq_eq_not, Bool.not_true, all_eq_false]
    exact ⟨x, hx, by simp⟩

/-- **mergeScripts never reaches its `raise AssertionError`** when every bucket key is non-empty (what `splitKerning`
produces): for every such input, of any size, a result is returned. -/
theorem C20_merge_never_asserts (kps : List (SSet × List Nat)) (hne : ∀ e ∈ kps, e.1.isEmpty = false) :
    ∃ r, mergeScripts kps = .ok r := by
  unfold mergeScripts
  apply reassign_ok
  intro e he
  exact reassignOne_isSome _ e.1 (mem_map.mpr ⟨e, he, rfl⟩) (hne e he)

/-- ... and it is reached for every input that has an empty key (the code filters empty keys out of `sets` but still
iterates over them in the re-assignment loop) -/
theorem C20_merge_asserts_of_empty (kps : List (SSet × List Nat)) (h : ∃ e ∈ kps, e.1.isEmpty = true) :
    mergeScripts kps = .error .assertion := by
  unfold mergeScripts
  apply reassign_error
  obtain ⟨e, he, hemp⟩ := h
  refine ⟨e, he, ?_⟩
  have : e.1 = [] := by simpa using hemp
  rw [this]; exact reassignOne_nil _

/-- exact characterisation of the error branch -/
theorem C20_merge_asserts_iff (kps : List (SSet × List Nat)) :
    mergeScripts kps = .error .assertion ↔ ∃ e ∈ kps, e.1.isEmpty = true := by
  constructor
  · intro h
    by_cases hall : ∀ e ∈ kps, e.1.isEmpty = false
    · obtain ⟨r, hr⟩ := C20_merge_never_asserts kps hall
      rw [hr] at h; cases h
    · apply Classical.byContradiction
      intro hno
      apply hall
      intro e he
      cases hemp : e.1.isEmpty with
      | false => rfl
      | true => exact absurd ⟨e, he, hemp⟩ hno
  · exact C20_merge_asserts_of_empty kps

/-- non-vacuity: a three-bucket chain returns; the same input with an empty key raises -/
example : (∃ r, mergeScripts [(["A", "B"], [0]), (["C", "D"], [1]), (["B", "C"], [2])] = .ok r) ∧
    mergeScripts [(["A", "B"], [0]), ([], [1])] = .error .assertion :=
  ⟨C20_merge_never_asserts _ (by decide), C20_merge_asserts_of_empty _ ⟨([], [1]), by decide, rfl⟩⟩

end Ufo2ft.C20
