import Ufo2ftModel.Props.GoodCert
import Ufo2ftModel.Props.C15
/-!
TOTALITY, part 1: the fuel of the decomposing pen (`addComp`/`addComps`, `decomposeGlyph`) and of the traversal order
(`depthGlyph`/`depthComps`, `orderedGlyphs`) is always sufficient on a well-formed glyph set.

Well-formed = acyclic (`Ranked gs rank` for SOME rank function, no bound assumed: `normRank` turns any acyclicity witness
into one bounded by the number of glyphs), keys = glyph names (`Named`), distinct keys (`gs.names.Nodup`: a Python dict),
and — where the code raises on a missing base — CLOSED (`Closed gs`, decidable as `closedGS gs`).
-/
namespace Ufo2ft
open List

/-! ### presence, closedness -/

/-- `n` is a key of the glyph set -/
def Present (gs : GlyphSet) (n : String) : Prop := (gs.get? n).isSome = true

theorem present_iff_names (gs : GlyphSet) (n : String) : Present gs n ↔ n ∈ gs.names := by
  constructor
  · intro h
    unfold Present at h
    cases hg : gs.get? n with
    | none => rw [hg] at h; cases h
    | some g => exact get?_mem_names gs n g hg
  · intro h
    obtain ⟨g, hg⟩ := C15.mem_names_get gs n h
    unfold Present; rw [hg]; rfl

theorem present_of_names_eq {a b : GlyphSet} (h : a.names = b.names) (n : String) : Present a n ↔ Present b n := by
  rw [present_iff_names, present_iff_names, h]

/-- every component of every glyph of the set refers to a key of the set -/
def Closed (gs : GlyphSet) : Prop := ∀ n g, gs.get? n = some g → ∀ k ∈ g.comps, Present gs k.base

theorem closedGS_sound (gs : GlyphSet) (h : closedGS gs = true) : Closed gs := by
  intro n g hg k hk
  have hm := alookup_mem hg
  unfold closedGS at h
  have := (List.all_eq_true.mp h) (n, g) hm
  exact (List.all_eq_true.mp this) k hk

theorem closedGS_complete (gs : GlyphSet) (hnd : gs.names.Nodup) (h : Closed gs) : closedGS gs = true := by
  unfold closedGS
  rw [List.all_eq_true]
  intro e he
  rw [List.all_eq_true]
  intro k hk
  exact h e.1 e.2 (C15.get_of_mem_nodup gs hnd e.1 e.2 he) k hk

theorem nodupKeys_sound : ∀ (l : List String), nodupKeys l = true → l.Nodup := by
  intro l
  induction l with
  | nil => intro _; exact List.nodup_nil
  | cons n ns ih =>
    intro h
    simp only [nodupKeys, Bool.and_eq_true, Bool.not_eq_true', List.contains_eq_mem, decide_eq_false_iff_not] at h
    exact List.nodup_cons.mpr ⟨h.1, ih h.2⟩

theorem nodupKeys_complete : ∀ (l : List String), l.Nodup → nodupKeys l = true := by
  intro l
  induction l with
  | nil => intro _; rfl
  | cons n ns ih =>
    intro h
    have := List.nodup_cons.mp h
    simp only [nodupKeys, Bool.and_eq_true, Bool.not_eq_true', List.contains_eq_mem, decide_eq_false_iff_not]
    exact ⟨this.1, ih this.2⟩

/-! ### any acyclicity witness can be normalised to one bounded by the number of glyphs -/

/-- 0 for a name that is not a key; otherwise 1 + the number of keys of strictly smaller rank -/
def normRank (gs : GlyphSet) (rank : String → Nat) (n : String) : Nat :=
  if gs.names.contains n then 1 + (gs.names.filter (fun m => decide (rank m < rank n))).length else 0

theorem filter_length_lt_of_imp {α} (p q : α → Bool) (l : List α) (himp : ∀ x ∈ l, p x = true → q x = true)
    (x : α) (hx : x ∈ l) (hq : q x = true) (hp : p x = false) : (l.filter p).length < (l.filter q).length := by
  induction l with
  | nil => cases hx
  | cons a l ih =>
    have hle : ∀ (l : List α), (∀ y ∈ l, p y = true → q y = true) → (l.filter p).length ≤ (l.filter q).length := by
      intro l
      induction l with
      | nil => intro _; exact Nat.le_refl _
      | cons b l ihl =>
        intro hi
        have := ihl (fun y hy => hi y (mem_cons_of_mem _ hy))
        simp only [List.filter_cons]
        cases hpb : p b with
        | false =>
          cases hqb : q b with
          | false => simpa using this
          | true => simp only [Bool.false_eq_true, if_false, if_true, List.length_cons]; omega
        | true =>
          have hqb := hi b mem_cons_self hpb
          simp only [hqb, if_true, List.length_cons]; omega
    simp only [List.filter_cons]
    rcases mem_cons.mp hx with rfl | hx
    · rw [hp, hq]
      have := hle l (fun y hy => himp y (mem_cons_of_mem _ hy))
      simp only [Bool.false_eq_true, if_false, if_true, List.length_cons]; omega
    · have := ih (fun y hy => himp y (mem_cons_of_mem _ hy)) hx
      cases hpa : p a with
      | false =>
        cases hqa : q a with
        | false => simpa using this
        | true => simp only [Bool.false_eq_true, if_false, if_true, List.length_cons]; omega
      | true =>
        have hqa := himp a mem_cons_self hpa
        simp only [hqa, if_true, List.length_cons]; omega

theorem filter_length_lt_of_mem {α} (p : α → Bool) (l : List α) (x : α) (hx : x ∈ l) (hp : p x = false) :
    (l.filter p).length < l.length := by
  have h := filter_length_lt_of_imp p (fun _ => true) l (fun _ _ _ => rfl) x hx rfl hp
  have e : l.filter (fun _ => true) = l := List.filter_eq_self.mpr (fun _ _ => rfl)
  rw [e] at h
  exact h

/-- **fuel bound**: the normalised rank never exceeds the number of glyphs — whatever the witness `rank` was -/
theorem normRank_le (gs : GlyphSet) (rank : String → Nat) (n : String) : normRank gs rank n ≤ gs.length := by
  unfold normRank
  by_cases hn : gs.names.contains n = true
  · rw [if_pos hn]
    have hmem : n ∈ gs.names := by simpa using hn
    have := filter_length_lt_of_mem (fun m => decide (rank m < rank n)) gs.names n hmem (by simp)
    have hl : gs.names.length = gs.length := by simp [GlyphSet.names]
    omega
  · rw [if_neg hn]; exact Nat.zero_le _

/-- **normalisation**: if `rank` witnesses acyclicity, so does `normRank gs rank` (missing bases get rank 0) -/
theorem normRank_ranked (gs : GlyphSet) (rank : String → Nat) (hr : Ranked gs rank) : Ranked gs (normRank gs rank) := by
  intro n g hg k hk
  have hlt := hr n g hg k hk
  have hn : n ∈ gs.names := get?_mem_names gs n g hg
  have hnc : gs.names.contains n = true := by simpa using hn
  unfold normRank
  rw [if_pos hnc]
  by_cases hkc : gs.names.contains k.base = true
  · rw [if_pos hkc]
    have hkm : k.base ∈ gs.names := by simpa using hkc
    have := filter_length_lt_of_imp (fun m => decide (rank m < rank k.base)) (fun m => decide (rank m < rank n)) gs.names
      (by intro x _ hx; simp only [decide_eq_true_eq] at hx ⊢; omega) k.base hkm (by simpa using hlt) (by simp)
    omega
  · rw [if_neg hkc]; omega

/-- every acyclic glyph set has an acyclicity witness bounded by its length -/
theorem exists_bounded_rank (gs : GlyphSet) (rank : String → Nat) (hr : Ranked gs rank) :
    ∃ rank', Ranked gs rank' ∧ ∀ n, rank' n ≤ gs.length :=
  ⟨normRank gs rank, normRank_ranked gs rank hr, normRank_le gs rank⟩

theorem good_normRank (gs : GlyphSet) (rank : String → Nat) (hg : Good gs rank) : Good gs (normRank gs rank) :=
  ⟨normRank_ranked gs rank hg.ranked, hg.nonsing, hg.invol⟩

/-! ### 1. the decomposing pen never runs out of fuel -/

/-- `addComp` succeeds -/
def OkOne (gs : GlyphSet) (rank : String → Nat) (rf nested : Bool) (fuel : Nat) : Prop :=
  ∀ incl base t, Present gs base → rank base < fuel → ∃ D, addComp fuel gs rf nested incl base t = .ok D
def OkMany (gs : GlyphSet) (rank : String → Nat) (rf nested : Bool) (fuel : Nat) : Prop :=
  ∀ incl t ks, (∀ k ∈ ks, Present gs k.base ∧ rank k.base < fuel) → ∃ D, addComps fuel gs rf nested incl t ks = .ok D

theorem okMany_of_okOne (gs : GlyphSet) (rank : String → Nat) (rf nested : Bool) (fuel : Nat)
    (h1 : OkOne gs rank rf nested fuel) : OkMany gs rank rf nested fuel := by
  intro incl t ks
  induction ks with
  | nil => intro _; exact ⟨⟨[], []⟩, by simp only [addComps]⟩
  | cons k ks ih =>
    intro hks
    obtain ⟨d, hd⟩ := h1 incl k.base (t.compose k.t) (hks k mem_cons_self).1 (hks k mem_cons_self).2
    obtain ⟨d', hd'⟩ := ih (fun k' hk' => hks k' (mem_cons_of_mem _ hk'))
    exact ⟨d.append d', by simp only [addComps, hd, hd']⟩

theorem okOne_succ (gs : GlyphSet) (rank : String → Nat) (hr : Ranked gs rank) (hc : Closed gs) (rf nested : Bool)
    (fuel : Nat) (h2 : OkMany gs rank rf nested fuel) : OkOne gs rank rf nested (fuel + 1) := by
  intro incl base t hp hlt
  unfold addComp
  by_cases hi : isIncluded incl base = true
  · rw [if_pos hi]
    unfold Present at hp
    cases hb : gs.get? base with
    | none => rw [hb] at hp; cases hp
    | some b =>
      dsimp only
      obtain ⟨d, hd⟩ := h2 (inclNested nested incl) t b.comps (fun k hk =>
        ⟨hc base b hb k hk, by have := hr base b hb k hk; omega⟩)
      rw [hd]
      exact ⟨_, rfl⟩
  · rw [if_neg hi]; exact ⟨_, rfl⟩

theorem pen_ok (gs : GlyphSet) (rank : String → Nat) (hr : Ranked gs rank) (hc : Closed gs) (rf nested : Bool) :
    ∀ fuel, OkOne gs rank rf nested fuel ∧ OkMany gs rank rf nested fuel := by
  intro fuel
  induction fuel with
  | zero =>
    have h0 : OkOne gs rank rf nested 0 := by intro incl base t _ h; omega
    exact ⟨h0, okMany_of_okOne gs rank rf nested 0 h0⟩
  | succ n ih =>
    have h1 := okOne_succ gs rank hr hc rf nested n ih.2
    exact ⟨h1, okMany_of_okOne gs rank rf nested (n + 1) h1⟩

/-- **`addComps_ok` (general fuel)**: on an acyclic closed glyph set the pen succeeds on every component list whose bases
    are keys, with ANY fuel above their ranks — for every include set, nested or not, reversing flipped components or not. -/
theorem addComps_ok_fuel (gs : GlyphSet) (rank : String → Nat) (hr : Ranked gs rank) (hc : Closed gs) (rf nested : Bool)
    (incl : Option (List String)) (t : Affine) (ks : List Comp) (fuel : Nat)
    (hks : ∀ k ∈ ks, Present gs k.base ∧ rank k.base < fuel) : ∃ D, addComps fuel gs rf nested incl t ks = .ok D :=
  (pen_ok gs rank hr hc rf nested fuel).2 incl t ks hks

/-- **`addComps_ok`**: with the fuel `decomposeCompositeGlyph`'s model uses (`gs.length + 1`) — no bound on `rank` assumed -/
theorem addComps_ok (gs : GlyphSet) (rank : String → Nat) (hr : Ranked gs rank) (hc : Closed gs) (rf nested : Bool)
    (incl : Option (List String)) (t : Affine) (ks : List Comp) (hks : ∀ k ∈ ks, Present gs k.base) :
    ∃ D, addComps (gs.length + 1) gs rf nested incl t ks = .ok D :=
  addComps_ok_fuel gs (normRank gs rank) (normRank_ranked gs rank hr) hc rf nested incl t ks _
    (fun k hk => ⟨hks k hk, by have := normRank_le gs rank k.base; omega⟩)

/-- **`decomposeGlyph_ok`**: `decomposeCompositeGlyph` succeeds on every glyph (of the set or not) whose components refer
    to keys of an acyclic closed glyph set — for every include set and `decomposeNested` setting. -/
theorem decomposeGlyph_ok (gs : GlyphSet) (rank : String → Nat) (hr : Ranked gs rank) (hc : Closed gs) (nested : Bool)
    (incl : Option (List String)) (g : Glyph) (hg : ∀ k ∈ g.comps, Present gs k.base) :
    ∃ g', decomposeGlyph gs nested incl g = .ok g' := by
  obtain ⟨d, hd⟩ := addComps_ok gs rank hr hc true nested incl Affine.id g.comps hg
  exact ⟨_, by unfold decomposeGlyph; rw [hd]⟩

/-! #### the errors characterised -/

/-- the only errors the pen can produce: out of fuel, or a base that is not a key -/
def PenErr (gs : GlyphSet) (e : GErr) : Prop := e = .recursion ∨ ∃ b, e = .missing b ∧ gs.get? b = none

def ErrOne (gs : GlyphSet) (rf nested : Bool) (fuel : Nat) : Prop :=
  ∀ incl base t e, addComp fuel gs rf nested incl base t = .error e → PenErr gs e
def ErrMany (gs : GlyphSet) (rf nested : Bool) (fuel : Nat) : Prop :=
  ∀ incl t ks e, addComps fuel gs rf nested incl t ks = .error e → PenErr gs e

theorem errMany_of_errOne (gs : GlyphSet) (rf nested : Bool) (fuel : Nat) (h1 : ErrOne gs rf nested fuel) :
    ErrMany gs rf nested fuel := by
  intro incl t ks
  induction ks with
  | nil => intro e h; simp only [addComps] at h; cases h
  | cons k ks ih =>
    intro e h
    simp only [addComps] at h
    cases h0 : addComp fuel gs rf nested incl k.base (t.compose k.t) with
    | error e0 => rw [h0] at h; cases h; exact h1 incl k.base _ e h0
    | ok d =>
      rw [h0] at h
      cases hr : addComps fuel gs rf nested incl t ks with
      | error e1 => rw [hr] at h; cases h; exact ih e hr
      | ok d' => rw [hr] at h; cases h

theorem errOne_succ (gs : GlyphSet) (rf nested : Bool) (fuel : Nat) (h2 : ErrMany gs rf nested fuel) :
    ErrOne gs rf nested (fuel + 1) := by
  intro incl base t e h
  unfold addComp at h
  by_cases hi : isIncluded incl base = true
  · rw [if_pos hi] at h
    cases hb : gs.get? base with
    | none => rw [hb] at h; cases h; exact Or.inr ⟨base, rfl, hb⟩
    | some b =>
      rw [hb] at h
      dsimp only at h
      cases hd : addComps fuel gs rf nested (inclNested nested incl) t b.comps with
      | error e1 => rw [hd] at h; cases h; exact h2 _ t b.comps e hd
      | ok d => rw [hd] at h; cases h
  · rw [if_neg hi] at h; cases h

theorem pen_err (gs : GlyphSet) (rf nested : Bool) : ∀ fuel, ErrOne gs rf nested fuel ∧ ErrMany gs rf nested fuel := by
  intro fuel
  induction fuel with
  | zero =>
    have h0 : ErrOne gs rf nested 0 := by
      intro incl base t e h; simp only [addComp] at h; cases h; exact Or.inl rfl
    exact ⟨h0, errMany_of_errOne gs rf nested 0 h0⟩
  | succ n ih =>
    have h1 := errOne_succ gs rf nested n ih.2
    exact ⟨h1, errMany_of_errOne gs rf nested (n + 1) h1⟩

/-- on an acyclic set (closed or not) the pen never reports `recursion` when the fuel exceeds the ranks -/
def NoRecOne (gs : GlyphSet) (rank : String → Nat) (rf nested : Bool) (fuel : Nat) : Prop :=
  ∀ incl base t, rank base < fuel → addComp fuel gs rf nested incl base t ≠ .error .recursion
def NoRecMany (gs : GlyphSet) (rank : String → Nat) (rf nested : Bool) (fuel : Nat) : Prop :=
  ∀ incl t ks, (∀ k ∈ ks, rank k.base < fuel) → addComps fuel gs rf nested incl t ks ≠ .error .recursion

theorem noRecMany_of_one (gs : GlyphSet) (rank : String → Nat) (rf nested : Bool) (fuel : Nat)
    (h1 : NoRecOne gs rank rf nested fuel) : NoRecMany gs rank rf nested fuel := by
  intro incl t ks
  induction ks with
  | nil => intro _ h; simp only [addComps] at h; cases h
  | cons k ks ih =>
    intro hks h
    simp only [addComps] at h
    cases h0 : addComp fuel gs rf nested incl k.base (t.compose k.t) with
    | error e0 => rw [h0] at h; cases h; exact h1 incl k.base _ (hks k mem_cons_self) h0
    | ok d =>
      rw [h0] at h
      cases hr : addComps fuel gs rf nested incl t ks with
      | error e1 => rw [hr] at h; cases h; exact ih (fun k' hk' => hks k' (mem_cons_of_mem _ hk')) hr
      | ok d' => rw [hr] at h; cases h

theorem noRecOne_succ (gs : GlyphSet) (rank : String → Nat) (hr : Ranked gs rank) (rf nested : Bool) (fuel : Nat)
    (h2 : NoRecMany gs rank rf nested fuel) : NoRecOne gs rank rf nested (fuel + 1) := by
  intro incl base t hlt h
  unfold addComp at h
  by_cases hi : isIncluded incl base = true
  · rw [if_pos hi] at h
    cases hb : gs.get? base with
    | none => rw [hb] at h; cases h
    | some b =>
      rw [hb] at h
      dsimp only at h
      cases hd : addComps fuel gs rf nested (inclNested nested incl) t b.comps with
      | error e1 =>
        rw [hd] at h; cases h
        exact h2 _ t b.comps (fun k hk => by have := hr base b hb k hk; omega) hd
      | ok d => rw [hd] at h; cases h
  · rw [if_neg hi] at h; cases h

theorem pen_noRec (gs : GlyphSet) (rank : String → Nat) (hr : Ranked gs rank) (rf nested : Bool) :
    ∀ fuel, NoRecOne gs rank rf nested fuel ∧ NoRecMany gs rank rf nested fuel := by
  intro fuel
  induction fuel with
  | zero =>
    have h0 : NoRecOne gs rank rf nested 0 := by intro incl base t h; omega
    exact ⟨h0, noRecMany_of_one gs rank rf nested 0 h0⟩
  | succ n ih =>
    have h1 := noRecOne_succ gs rank hr rf nested n ih.2
    exact ⟨h1, noRecMany_of_one gs rank rf nested (n + 1) h1⟩

/-- **errors of `decomposeCompositeGlyph` characterised**: the only possible errors are `recursion` and `missing b` for a
    `b` that is NOT a key (`KeyError`); and `recursion` (Python's RecursionError) occurs only on a CYCLIC glyph set: never
    when any acyclicity witness exists — for any glyph, closed set or not. -/
theorem decomposeGlyph_error (gs : GlyphSet) (nested : Bool) (incl : Option (List String)) (g : Glyph) (e : GErr)
    (h : decomposeGlyph gs nested incl g = .error e) :
    (e = .recursion ∧ ¬ ∃ rank, Ranked gs rank) ∨ ∃ b, e = .missing b ∧ gs.get? b = none := by
  unfold decomposeGlyph at h
  cases hd : addComps (gs.length + 1) gs true nested incl Affine.id g.comps with
  | ok d => rw [hd] at h; cases h
  | error e1 =>
    rw [hd] at h
    cases h
    rcases (pen_err gs true nested (gs.length + 1)).2 incl Affine.id g.comps e hd with rfl | hm
    · left
      refine ⟨rfl, ?_⟩
      rintro ⟨rank, hr⟩
      exact (pen_noRec gs (normRank gs rank) (normRank_ranked gs rank hr) true nested (gs.length + 1)).2 incl Affine.id
        g.comps (fun k _ => by have := normRank_le gs rank k.base; omega) hd
    · exact Or.inr hm

/-- what the pen passes through refers to keys of the set -/
def PresOne (gs : GlyphSet) (rf nested : Bool) (fuel : Nat) : Prop :=
  ∀ incl base t D, addComp fuel gs rf nested incl base t = .ok D → Present gs base → ∀ k ∈ D.comps, Present gs k.base
def PresMany (gs : GlyphSet) (rf nested : Bool) (fuel : Nat) : Prop :=
  ∀ incl t ks D, addComps fuel gs rf nested incl t ks = .ok D → (∀ k ∈ ks, Present gs k.base) →
    ∀ k ∈ D.comps, Present gs k.base

theorem presMany_of_one (gs : GlyphSet) (rf nested : Bool) (fuel : Nat) (h1 : PresOne gs rf nested fuel) :
    PresMany gs rf nested fuel := by
  intro incl t ks
  induction ks with
  | nil => intro D hD _ k hk; simp only [addComps] at hD; cases hD; cases hk
  | cons k0 ks ih =>
    intro D hD hks k hk
    simp only [addComps] at hD
    cases h0 : addComp fuel gs rf nested incl k0.base (t.compose k0.t) with
    | error e => rw [h0] at hD; cases hD
    | ok d =>
      rw [h0] at hD
      cases hr : addComps fuel gs rf nested incl t ks with
      | error e => rw [hr] at hD; cases hD
      | ok d' =>
        rw [hr] at hD
        have hD' := Except.ok.inj hD
        subst hD'
        simp only [Drawn.append, mem_append] at hk
        rcases hk with hk | hk
        · exact h1 incl k0.base _ d h0 (hks k0 mem_cons_self) k hk
        · exact ih d' hr (fun k' hk' => hks k' (mem_cons_of_mem _ hk')) k hk

theorem presOne_succ (gs : GlyphSet) (hc : Closed gs) (rf nested : Bool) (fuel : Nat)
    (h2 : PresMany gs rf nested fuel) : PresOne gs rf nested (fuel + 1) := by
  intro incl base t D hD hp k hk
  unfold addComp at hD
  by_cases hi : isIncluded incl base = true
  · rw [if_pos hi] at hD
    cases hb : gs.get? base with
    | none => rw [hb] at hD; cases hD
    | some b =>
      rw [hb] at hD
      dsimp only at hD
      cases hd : addComps fuel gs rf nested (inclNested nested incl) t b.comps with
      | error e => rw [hd] at hD; cases hD
      | ok d =>
        rw [hd] at hD
        have hD' := Except.ok.inj hD
        subst hD'
        exact h2 _ t b.comps d hd (hc base b hb) k hk
  · rw [if_neg hi] at hD
    have hD' := Except.ok.inj hD
    subst hD'
    simp only [mem_singleton] at hk
    subst hk
    exact hp

theorem pen_pres (gs : GlyphSet) (hc : Closed gs) (rf nested : Bool) :
    ∀ fuel, PresOne gs rf nested fuel ∧ PresMany gs rf nested fuel := by
  intro fuel
  induction fuel with
  | zero =>
    have h0 : PresOne gs rf nested 0 := by intro incl base t D hD; simp only [addComp] at hD; cases hD
    exact ⟨h0, presMany_of_one gs rf nested 0 h0⟩
  | succ n ih =>
    have h1 := presOne_succ gs hc rf nested n ih.2
    exact ⟨h1, presMany_of_one gs rf nested (n + 1) h1⟩

/-- the components left by `decomposeCompositeGlyph` refer to keys -/
theorem decomposeGlyph_present (gs : GlyphSet) (hc : Closed gs) (nested : Bool) (incl : Option (List String))
    (g g' : Glyph) (hg : ∀ k ∈ g.comps, Present gs k.base) (h : decomposeGlyph gs nested incl g = .ok g') :
    ∀ k ∈ g'.comps, Present gs k.base := by
  unfold decomposeGlyph at h
  cases hd : addComps (gs.length + 1) gs true nested incl Affine.id g.comps with
  | error e => rw [hd] at h; cases h
  | ok d =>
    rw [hd] at h
    have h' := Except.ok.inj h
    subst h'
    exact (pen_pres gs hc true nested (gs.length + 1)).2 incl Affine.id g.comps d hd hg

/-! ### 2. the traversal order exists -/

def DepthOne (gs : GlyphSet) (rank : String → Nat) (fuel : Nat) : Prop :=
  ∀ g maxDepth visited stack, (∀ k ∈ g.comps, rank k.base < rank g.name) → rank g.name < fuel →
    (∀ s ∈ stack, rank g.name < rank s) → (g.comps.isEmpty = true ∨ visited.contains g.name = false) →
    ∃ r, depthGlyph fuel gs g maxDepth visited stack = .ok r
def DepthMany (gs : GlyphSet) (rank : String → Nat) (fuel : Nat) : Prop :=
  ∀ ks initial cur visited stack, (∀ k ∈ ks, rank k.base < fuel) → (∀ s ∈ stack, ∀ k ∈ ks, rank k.base < rank s) →
    ∃ r, depthComps fuel gs ks initial cur visited stack = .ok r

theorem depthMany_of_one (gs : GlyphSet) (rank : String → Nat) (hr : Ranked gs rank) (hn : Named gs) (fuel : Nat)
    (h1 : DepthOne gs rank fuel) : DepthMany gs rank fuel := by
  intro ks
  induction ks with
  | nil => intro initial cur visited stack _ _; exact ⟨(cur, visited), by simp only [depthComps]⟩
  | cons k ks ih =>
    intro initial cur visited stack hf hs
    have hf' : ∀ k' ∈ ks, rank k'.base < fuel := fun k' hk' => hf k' (mem_cons_of_mem _ hk')
    have hs' : ∀ s ∈ stack, ∀ k' ∈ ks, rank k'.base < rank s := fun s hs0 k' hk' => hs s hs0 k' (mem_cons_of_mem _ hk')
    unfold depthComps
    cases hb : gs.get? k.base with
    | none => exact ih initial cur visited stack hf' hs'
    | some b =>
      dsimp only
      have hname : b.name = k.base := hn k.base b hb
      by_cases hv : (!visited.contains k.base) = true
      · rw [if_pos hv]
        obtain ⟨r, hr1⟩ := h1 b initial visited stack (by rw [hname]; exact hr k.base b hb)
          (by rw [hname]; exact hf k mem_cons_self) (by rw [hname]; intro s hs0; exact hs s hs0 k mem_cons_self)
          (Or.inr (by rw [hname]; simpa using hv))
        rw [hr1]
        obtain ⟨d, v'⟩ := r
        exact ih initial (max cur d) v' stack hf' hs'
      · rw [if_neg hv]
        have hns : stack.contains k.base = false := by
          cases hc : stack.contains k.base with
          | false => rfl
          | true =>
            have hm : k.base ∈ stack := by simpa using hc
            have := hs k.base hm k mem_cons_self
            omega
        rw [hns]
        simp only [Bool.false_eq_true, if_false]
        exact ih initial cur visited stack hf' hs'

theorem depthOne_succ (gs : GlyphSet) (rank : String → Nat) (fuel : Nat) (h2 : DepthMany gs rank fuel) :
    DepthOne gs rank (fuel + 1) := by
  intro g maxDepth visited stack hg hlt hs hv
  unfold depthGlyph
  by_cases he : g.comps.isEmpty = true
  · rw [if_pos he]; exact ⟨_, rfl⟩
  · rw [if_neg he]
    have hv' : visited.contains g.name = false := by
      rcases hv with h | h
      · exact absurd h he
      · exact h
    rw [hv']
    simp only [Bool.false_eq_true, if_false]
    apply h2
    · intro k hk; have := hg k hk; omega
    · intro s hs0 k hk
      have := hg k hk
      rcases mem_cons.mp hs0 with rfl | hs0
      · exact this
      · have := hs s hs0; omega

theorem depth_ok (gs : GlyphSet) (rank : String → Nat) (hr : Ranked gs rank) (hn : Named gs) :
    ∀ fuel, DepthOne gs rank fuel ∧ DepthMany gs rank fuel := by
  intro fuel
  induction fuel with
  | zero =>
    have h0 : DepthOne gs rank 0 := by intro g _ _ _ _ h; omega
    exact ⟨h0, depthMany_of_one gs rank hr hn 0 h0⟩
  | succ n ih =>
    have h1 := depthOne_succ gs rank n ih.2
    exact ⟨h1, depthMany_of_one gs rank hr hn (n + 1) h1⟩

/-- **`depthGlyph_ok`**: `getMaxComponentDepth` succeeds on every glyph of an acyclic glyph set whose keys are the glyph
    names (closed or not: a missing base is skipped) — neither the assertion, nor the cycle check, nor the fuel fails. -/
theorem depthGlyph_ok (gs : GlyphSet) (rank : String → Nat) (hr : Ranked gs rank) (hn : Named gs)
    (n : String) (g : Glyph) (hg : gs.get? n = some g) : ∃ d, maxComponentDepth gs g = .ok d := by
  have hname := hn n g hg
  have hr' := normRank_ranked gs rank hr
  obtain ⟨r, h⟩ := (depth_ok gs (normRank gs rank) hr' hn (gs.length + 2)).1 g 0 [] []
    (by rw [hname]; exact hr' n g hg) (by have := normRank_le gs rank g.name; omega)
    (fun s hs => by cases hs) (Or.inr rfl)
  exact ⟨r.1, by unfold maxComponentDepth; rw [h]⟩

theorem depthsOf_ok (gs : GlyphSet) (rank : String → Nat) (hr : Ranked gs rank) (hn : Named gs) :
    ∀ (l : List (String × Glyph)), (∀ e ∈ l, gs.get? e.1 = some e.2) → ∃ ds, depthsOf gs l = .ok ds := by
  intro l
  induction l with
  | nil => intro _; exact ⟨[], rfl⟩
  | cons e l ih =>
    intro hl
    obtain ⟨n, g⟩ := e
    obtain ⟨d, hd⟩ := depthGlyph_ok gs rank hr hn n g (hl (n, g) mem_cons_self)
    obtain ⟨ds, hds⟩ := ih (fun e he => hl e (mem_cons_of_mem _ he))
    exact ⟨(n, d) :: ds, by simp only [depthsOf, hd, hds]⟩

/-- **`orderedGlyphs_ok`**: the traversal order of `BaseFilter.__call__` exists for every acyclic glyph set with distinct
    keys equal to the glyph names, and it is a permutation of the keys. -/
theorem orderedGlyphs_ok (gs : GlyphSet) (rank : String → Nat) (hr : Ranked gs rank) (hn : Named gs)
    (hnd : gs.names.Nodup) : ∃ order, orderedGlyphs gs = .ok order ∧ order.Perm gs.names := by
  obtain ⟨ds, hds⟩ := depthsOf_ok gs rank hr hn gs (fun e he => C15.get_of_mem_nodup gs hnd e.1 e.2 he)
  refine ⟨_, by unfold orderedGlyphs; rw [hds], ?_⟩
  have hp : (ds.mergeSort (fun a b => decide (a.2 ≥ b.2))).Perm ds := List.mergeSort_perm _ _
  have := hp.map (·.1)
  rw [depthsOf_names gs gs ds hds] at this
  exact this

/-- whenever the order exists it is a permutation of the keys (no hypothesis) -/
theorem orderedGlyphs_perm (gs : GlyphSet) (order : List String) (h : orderedGlyphs gs = .ok order) :
    order.Perm gs.names := by
  unfold orderedGlyphs at h
  cases hd : depthsOf gs gs with
  | error e => rw [hd] at h; cases h
  | ok ds =>
    rw [hd] at h
    have := Except.ok.inj h; subst this
    have hp : (ds.mergeSort (fun a b => decide (a.2 ≥ b.2))).Perm ds := List.mergeSort_perm _ _
    have := hp.map (·.1)
    rw [depthsOf_names gs gs ds hd] at this
    exact this

end Ufo2ft
