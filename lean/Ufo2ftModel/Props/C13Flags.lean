import Ufo2ftModel.Model.C13Flags
/-! C13, TrueType component flags: `_set_composite_flags` pairs compiled components with the original UFO components by index.
    `C13_flags_effAdv`: when skipping leaves every component in its slot, the advance a rasteriser uses does not change.
    `C13_flags_moved_false`: when the inlined component moves behind the remaining one it does (the accent-alias witness). -/
namespace Ufo2ft.C13

/-- `autoUseMyMetrics` never changes the advance: on components without the flag the effective advance stays the glyph's own -/
theorem autoFlag_effOf (adv : String → Option Int) (own : Int) (cs : List TTComp)
    (h : ∀ c ∈ cs, c.useMy = false) : effOf adv own (autoFlag adv own cs) = some own := by
  induction cs with
  | nil => simp [autoFlag, effOf]
  | cons c cs ih =>
    have hc := h c (by simp)
    have ih' := ih (fun d hd => h d (by simp [hd]))
    unfold autoFlag
    by_cases hcond : (adv c.base == some own && c.plain) = true
    · simp only [hcond, if_true, effOf, List.find?]
      simp only [Bool.and_eq_true, beq_iff_eq] at hcond
      simp [hcond.1]
    · simp only [hcond, Bool.false_eq_true, if_false]
      simp only [effOf, List.find?, hc] at ih' ⊢
      exact ih'

/-- two lists of components "look alike to a rasteriser" -/
def Alike (advF advC : String → Option Int) : List TTComp → List TTComp → Prop
  | [], [] => True
  | c :: cs, d :: ds => c.useMy = d.useMy ∧ (c.useMy = true → advF c.base = advC d.base) ∧ Alike advF advC cs ds
  | _, _ => False

theorem effOf_alike (advF advC : String → Option Int) (own : Int) :
    ∀ (cs ds : List TTComp), Alike advF advC cs ds → effOf advF own cs = effOf advC own ds
  | [], [], _ => rfl
  | c :: cs, d :: ds, h => by
    obtain ⟨h1, h2, h3⟩ := h
    have ih := effOf_alike advF advC own cs ds h3
    cases hu : c.useMy with
    | true =>
      have hd : d.useMy = true := by rw [← h1, hu]
      simp [effOf, List.find?, hu, hd, h2 hu]
    | false =>
      have hd : d.useMy = false := by rw [← h1, hu]
      simp only [effOf, List.find?, hu, hd] at ih ⊢
      exact ih
  | [], _ :: _, h => by simp [Alike] at h
  | _ :: _, [], h => by simp [Alike] at h

/-- the hypothesis on the two builds: same number of components, none flagged yet, and wherever the UFO asks for
    `useMyMetrics` the components at that INDEX have the same advance in their fonts -/
def SameSlots (advF advC : String → Option Int) : List CLib → List TTComp → List TTComp → Prop
  | _, [], [] => True
  | [], c :: cs, d :: ds => c.useMy = false ∧ d.useMy = false ∧ SameSlots advF advC [] cs ds
  | u :: us, c :: cs, d :: ds =>
    c.useMy = false ∧ d.useMy = false ∧ (u = .entry (some true) → advF c.base = advC d.base) ∧ SameSlots advF advC us cs ds
  | _, _, _ => False

theorem libLoop_alike (advF advC : String → Option Int) :
    ∀ (us : List CLib) (t : Bool) (cs ds : List TTComp), SameSlots advF advC us cs ds →
      Alike advF advC (libLoop t us cs) (libLoop t us ds)
  | _, _, [], [], _ => by cases ‹List CLib› <;> simp [libLoop, Alike]
  | [], t, c :: cs, d :: ds, h => by
    obtain ⟨h1, h2, h3⟩ := h
    have ih := libLoop_alike advF advC [] t cs ds h3
    simp only [libLoop] at ih ⊢
    exact ⟨by rw [h1, h2], by simp [h1], ih⟩
  | .untouched :: us, t, c :: cs, d :: ds, h => by
    obtain ⟨h1, h2, _, h4⟩ := h
    simp only [libLoop]
    exact ⟨by rw [h1, h2], by simp [h1], libLoop_alike advF advC us t cs ds h4⟩
  | .entry m :: us, t, c :: cs, d :: ds, h => by
    obtain ⟨_, _, h3, h4⟩ := h
    simp only [libLoop]
    by_cases hm : m.getD false = true
    · have hme : m = some true := by cases m with | none => simp at hm | some b => simp at hm; simp [hm]
      simp only [hm, if_true]
      cases t with
      | true => exact ⟨rfl, by simp, libLoop_alike advF advC us true cs ds h4⟩
      | false => exact ⟨rfl, fun _ => h3 (by rw [hme]), libLoop_alike advF advC us true cs ds h4⟩
    · simp only [hm]
      exact ⟨rfl, by simp, libLoop_alike advF advC us t cs ds h4⟩
  | _, _, [], _ :: _, h => by cases ‹List CLib› <;> simp [SameSlots] at h
  | _, _, _ :: _, [], h => by cases ‹List CLib› <;> simp [SameSlots] at h

theorem sameSlots_length (advF advC : String → Option Int) :
    ∀ (us : List CLib) (cs ds : List TTComp), SameSlots advF advC us cs ds → cs.length = ds.length
  | _, [], [], _ => rfl
  | [], c :: cs, d :: ds, h => by simp [sameSlots_length advF advC [] cs ds h.2.2]
  | u :: us, c :: cs, d :: ds, h => by simp [sameSlots_length advF advC us cs ds h.2.2.2]
  | _, [], _ :: _, h => by cases ‹List CLib› <;> simp [SameSlots] at h
  | _, _ :: _, [], h => by cases ‹List CLib› <;> simp [SameSlots] at h

theorem libLoop_unflagged_of_noKey : ∀ (us : List CLib) (t : Bool) (cs : List TTComp),
    hasKey us = false → (∀ c ∈ cs, c.useMy = false) → ∀ c ∈ libLoop t us cs, c.useMy = false
  | [], _, cs, _, h => by cases cs <;> simpa [libLoop] using h
  | _ :: _, _, [], _, _ => by simp [libLoop]
  | .untouched :: us, t, c :: cs, hk, h => by
    have hk' : hasKey us = false := by simpa [hasKey] using hk
    have ih := libLoop_unflagged_of_noKey us t cs hk' (fun d hd => h d (by simp [hd]))
    intro x hx
    simp only [libLoop, List.mem_cons] at hx
    rcases hx with rfl | hx
    · exact h _ (by simp)
    · exact ih x hx
  | .entry m :: us, t, c :: cs, hk, h => by
    have hm : m = none := by cases m with | none => rfl | some b => simp [hasKey] at hk
    have hk' : hasKey us = false := by subst hm; simpa [hasKey] using hk
    have ih := libLoop_unflagged_of_noKey us t cs hk' (fun d hd => h d (by simp [hd]))
    subst hm
    intro x hx
    simp only [libLoop, Option.getD_none, Bool.false_eq_true, if_false, List.mem_cons] at hx
    rcases hx with rfl | hx
    · rfl
    · exact ih x hx

/-- C13, TrueType flags: if SkipExportGlyphsFilter leaves every component of a remaining composite IN ITS SLOT (a skipped
    alias replaced in place by its one component, so that the component the UFO flags `useMyMetrics` sits at the same index
    with the same advance), the advance a rasteriser uses is the same with and without the skip list.  `own`: the `hmtx`
    advance, the same in both builds. -/
theorem C13_flags_effAdv (advF advC : String → Option Int) (own : Int) (us : List CLib) (cs ds : List TTComp)
    (h : SameSlots advF advC us cs ds) :
    effOf advF own (setCompositeFlags advF own us cs) = effOf advC own (setCompositeFlags advC own us ds) := by
  have hl := sameSlots_length advF advC us cs ds h
  have hcs : ∀ (us : List CLib) (cs ds : List TTComp), SameSlots advF advC us cs ds →
      (∀ c ∈ cs, c.useMy = false) ∧ (∀ d ∈ ds, d.useMy = false) := by
    intro us cs
    induction cs generalizing us with
    | nil => intro ds h; cases ds with
      | nil => simp
      | cons d ds => cases us <;> simp [SameSlots] at h
    | cons c cs ih =>
      intro ds h; cases ds with
      | nil => cases us <;> simp [SameSlots] at h
      | cons d ds =>
        cases us with
        | nil =>
          obtain ⟨h1, h2, h3⟩ := h
          have := ih [] ds h3
          exact ⟨by simpa [h1] using this.1, by simpa [h2] using this.2⟩
        | cons u us =>
          obtain ⟨h1, h2, _, h3⟩ := h
          have := ih us ds h3
          exact ⟨by simpa [h1] using this.1, by simpa [h2] using this.2⟩
  obtain ⟨hc, hd⟩ := hcs us cs ds h
  unfold setCompositeFlags
  rw [← hl]
  by_cases hlen : (cs.length != us.length) = true
  · simp only [hlen, if_true]
    rw [autoFlag_effOf advF own cs hc, autoFlag_effOf advC own ds hd]
  · simp only [hlen]
    by_cases hk : hasKey us = true
    · simp only [hk, if_true]
      exact effOf_alike advF advC own _ _ (libLoop_alike advF advC us false cs ds h)
    · have hk' : hasKey us = false := by simpa using hk
      simp only [hk', Bool.false_eq_true, if_false]
      rw [autoFlag_effOf advF own _ (libLoop_unflagged_of_noKey us false cs hk' hc),
          autoFlag_effOf advC own _ (libLoop_unflagged_of_noKey us false ds hk' hd)]

/-- … in the form the predicate `holdsTT` asks for: consistent hinting data (the rasteriser's advance without the skip list
    is the glyph's own) stays consistent with the skip list -/
theorem C13_flags_effAdv_consistent (advF advC : String → Option Int) (own : Int) (us : List CLib) (cs ds : List TTComp)
    (h : SameSlots advF advC us cs ds) (hc : effOf advF own (setCompositeFlags advF own us cs) = some own) :
    effOf advC own (setCompositeFlags advC own us ds) = some own := by
  rw [← C13_flags_effAdv advF advC own us cs ds h]; exact hc

/-- … and when the number of components changes (a skipped glyph inlined to several components, or to contours), the
    fallback `autoUseMyMetrics` gives the glyph's own advance whatever the UFO asked for -/
theorem C13_flags_count_changed (adv : String → Option Int) (own : Int) (us : List CLib) (ds : List TTComp)
    (hl : ds.length ≠ us.length) (hd : ∀ d ∈ ds, d.useMy = false) :
    effOf adv own (setCompositeFlags adv own us ds) = some own := by
  unfold setCompositeFlags
  have : (ds.length != us.length) = true := by simpa using hl
  simp only [this, if_true]
  exact autoFlag_effOf adv own ds hd

/-! ### witnesses: aacute = [_alias, a] with `useMyMetrics` on the `a` component, `_alias` = [acutecomb] skipped -/

def wAdv (n : String) : Option Int :=
  if n == "a" then some 560 else if n == "acutecomb" then some 0 else if n == "_alias" then some 0 else none

def wLib : List CLib := [.entry (some false), .entry (some true)]

/-- the hypotheses of `C13_flags_effAdv` are met when the alias is inlined in place: [_alias, a] becomes [acutecomb, a] -/
example : SameSlots wAdv wAdv wLib [⟨"_alias", false, false⟩, ⟨"a", true, false⟩] [⟨"acutecomb", false, false⟩, ⟨"a", true, false⟩] := by
  simp [SameSlots, wLib]

example : effOf wAdv 560 (setCompositeFlags wAdv 560 wLib [⟨"acutecomb", false, false⟩, ⟨"a", true, false⟩]) = some 560 := by
  decide +kernel

/-- not an artefact of the hypothesis: with the inlined component BEHIND the remaining one ([a, acutecomb], what a
    decomposition that leaves untouched components in front produces) the flag lands on the accent and the rasteriser's
    advance is 0 instead of 560 -/
theorem C13_flags_moved_false :
    effOf wAdv 560 (setCompositeFlags wAdv 560 wLib [⟨"_alias", false, false⟩, ⟨"a", true, false⟩]) = some 560 ∧
    effOf wAdv 560 (setCompositeFlags wAdv 560 wLib [⟨"a", true, false⟩, ⟨"acutecomb", false, false⟩]) = some 0 := by
  decide +kernel

end Ufo2ft.C13
