import Ufo2ftModel.Props.C06Parse
/-! C06, part 2: facts about _getAnchorLists (model `anchorLists`). -/
namespace Ufo2ft.C06
open List

/-! ### mapE -/
theorem mapE_ok_mem {α β ε} {f : α → Except ε β} {l : List α} {bs : List β} (h : mapE f l = .ok bs) :
    ∀ b ∈ bs, ∃ a ∈ l, f a = .ok b := by
  induction l generalizing bs with
  | nil => simp [mapE] at h; subst h; simp
  | cons a l ih =>
    simp only [mapE] at h
    cases hf : f a with
    | error e => rw [hf] at h; simp at h
    | ok b0 =>
      rw [hf] at h; simp only at h
      cases hm : mapE f l with
      | error e => rw [hm] at h; simp at h
      | ok bs0 =>
        rw [hm] at h; simp only [Except.ok.injEq] at h; subst h
        intro b hb
        rcases mem_cons.mp hb with rfl | hb
        · exact ⟨a, by simp, hf⟩
        · obtain ⟨a', ha', hfa⟩ := ih hm b hb
          exact ⟨a', by simp [ha'], hfa⟩

theorem mapE_ok_of_mem {α β ε} {f : α → Except ε β} {l : List α} {bs : List β} (h : mapE f l = .ok bs) :
    ∀ a ∈ l, ∃ b ∈ bs, f a = .ok b := by
  induction l generalizing bs with
  | nil => simp
  | cons a l ih =>
    simp only [mapE] at h
    cases hf : f a with
    | error e => rw [hf] at h; simp at h
    | ok b0 =>
      rw [hf] at h; simp only at h
      cases hm : mapE f l with
      | error e => rw [hm] at h; simp at h
      | ok bs0 =>
        rw [hm] at h; simp only [Except.ok.injEq] at h; subst h
        intro a' ha'
        rcases mem_cons.mp ha' with rfl | ha'
        · exact ⟨b0, by simp, hf⟩
        · obtain ⟨b, hb, hfa⟩ := ih hm a' ha'
          exact ⟨b, by simp [hb], hfa⟩

theorem mapE_ok_map {α β γ ε} {f : α → Except ε β} {l : List α} {bs : List β} (g : β → γ) (k : α → γ)
    (hgk : ∀ a b, f a = .ok b → g b = k a) (h : mapE f l = .ok bs) : bs.map g = l.map k := by
  induction l generalizing bs with
  | nil => simp [mapE] at h; subst h; simp
  | cons a l ih =>
    simp only [mapE] at h
    cases hf : f a with
    | error e => rw [hf] at h; simp at h
    | ok b0 =>
      rw [hf] at h; simp only at h
      cases hm : mapE f l with
      | error e => rw [hm] at h; simp at h
      | ok bs0 =>
        rw [hm] at h; simp only [Except.ok.injEq] at h; subst h
        simp [hgk a b0 hf, ih hm]

/-! ### the OrderedDict of one glyph -/
theorem odSet_mem {d : List NA} {v v' : NA} (h : v' ∈ odSet d v) : v' ∈ d ∨ v' = v := by
  unfold odSet at h
  split at h
  · obtain ⟨e, he, hv⟩ := mem_map.mp h
    split at hv
    · exact Or.inr hv.symm
    · exact Or.inl (hv ▸ he)
  · rcases mem_append.mp h with h | h
    · exact Or.inl h
    · exact Or.inr (by simpa using h)

theorem odSet_has_name (d : List NA) (v : NA) : ∃ v' ∈ odSet d v, v'.name = v.name := by
  unfold odSet
  split
  · rename_i h
    obtain ⟨e, he, hn⟩ := any_eq_true.mp h
    exact ⟨v, mem_map.mpr ⟨e, he, by simp [hn]⟩, rfl⟩
  · exact ⟨v, by simp, rfl⟩

theorem odSet_keeps_name {d : List NA} (v : NA) {x : NA} (hx : x ∈ d) : ∃ v' ∈ odSet d v, v'.name = x.name := by
  unfold odSet
  split
  · by_cases hn : (x.name == v.name) = true
    · exact ⟨v, mem_map.mpr ⟨x, hx, by simp [hn]⟩, (beq_iff_eq.mp hn).symm⟩
    · exact ⟨x, mem_map.mpr ⟨x, hx, by simp [hn]⟩, rfl⟩
  · exact ⟨x, by simp [hx], rfl⟩

theorem odSet_names (d : List NA) (v : NA) :
    (odSet d v).map (·.name) = if d.any (fun e => e.name == v.name) then d.map (·.name) else d.map (·.name) ++ [v.name] := by
  unfold odSet
  split
  · rw [map_map]
    apply map_congr_left
    intro e _
    simp only [Function.comp]
    split
    · rename_i h; exact (beq_iff_eq.mp h).symm
    · rfl
  · simp

theorem odSet_nodup {d : List NA} (v : NA) (h : (d.map (·.name)).Nodup) : ((odSet d v).map (·.name)).Nodup := by
  rw [odSet_names]
  split
  · exact h
  · rename_i hn
    rw [nodup_append]
    refine ⟨h, by simp, ?_⟩
    intro a ha b hb
    simp only [mem_singleton] at hb; subst hb
    intro e; subst e
    obtain ⟨x, hx, hxn⟩ := mem_map.mp ha
    exact hn (any_eq_true.mpr ⟨x, hx, by simp [hxn]⟩)

theorem foldl_odSet_spec (xs d : List NA) (hd : (d.map (·.name)).Nodup) :
    (∀ v ∈ xs.foldl odSet d, v ∈ d ∨ v ∈ xs) ∧
    (∀ x, x ∈ d ∨ x ∈ xs → ∃ v ∈ xs.foldl odSet d, v.name = x.name) ∧
    ((xs.foldl odSet d).map (·.name)).Nodup := by
  induction xs generalizing d with
  | nil => exact ⟨fun v hv => Or.inl hv, fun x hx => by rcases hx with hx | hx; exact ⟨x, hx, rfl⟩; simp at hx, hd⟩
  | cons x xs ih =>
    simp only [foldl_cons]
    obtain ⟨h1, h2, h3⟩ := ih (odSet d x) (odSet_nodup x hd)
    refine ⟨?_, ?_, h3⟩
    · intro v hv
      rcases h1 v hv with hv | hv
      · rcases odSet_mem hv with hv | rfl
        · exact Or.inl hv
        · exact Or.inr (by simp)
      · exact Or.inr (by simp [hv])
    · intro y hy
      rcases hy with hy | hy
      · obtain ⟨v', hv', hn⟩ := odSet_keeps_name x hy
        obtain ⟨v, hv, hn2⟩ := h2 v' (Or.inl hv')
        exact ⟨v, hv, hn2.trans hn⟩
      · rcases mem_cons.mp hy with rfl | hy
        · obtain ⟨v', hv', hn⟩ := odSet_has_name d y
          obtain ⟨v, hv, hn2⟩ := h2 v' (Or.inl hv')
          exact ⟨v, hv, hn2.trans hn⟩
        · exact h2 y (Or.inr hy)

/-! ### one source anchor -/

/-- how the fields of a NamedAnchor relate to the (effective) name `nm` -/
structure NAShapeOn (nm : List Char) (a : NA) : Prop where
  mark : a.isMark = true → nm = '_' :: a.key.toList ∧ plainKey a.key.toList = true ∧ a.number = none
  base : a.isMark = false → a.number = none → nm = a.key.toList ∧ HeadAlpha a.key.toList
  lig : a.isMark = false → ∀ n, a.number = some n →
    1 ≤ n ∧ isLigName a.key.toList n nm = true ∧ (a.key.toList = [] ∨ HeadAlpha a.key.toList)

/-- … for a non-contextual anchor: its name -/
abbrev NAShape (a : NA) : Prop := NAShapeOn a.name.toList a

theorem namedAnchor_some {q : Q} {s : SrcAnchor} {a : NA} (h : namedAnchor q s = .ok (some a)) :
    a.name = s.name ∧ a.x = quantize q s.x ∧ a.y = quantize q s.y ∧ NAShapeOn (effName a.name.toList) a ∧
    (a.ctx = none → (a.name.toList.head? == some '*') = false) ∧
    (∀ c, a.ctx = some c → (a.name.toList.head? == some '*') = true ∧ s.lib = some c) := by
  unfold namedAnchor at h
  split at h
  · simp at h
  · cases hp : parseAnchor s.name.toList with
    | error e => rw [hp] at h; simp at h
    | ok p =>
      rw [hp] at h; simp only at h
      split at h
      · simp at h
      · rename_i hc
        simp only [Bool.or_eq_true, not_or, Bool.not_eq_true, Bool.and_eq_true, not_and] at hc
        simp only [Except.ok.injEq, Option.some.injEq] at h; subst h
        obtain ⟨s0, s1, s2, s3⟩ := parseAnchor_shapeX hp hc.2
        refine ⟨rfl, rfl, rfl, ⟨?_, ?_, ?_⟩, ?_, ?_⟩ <;> simp only [String.toList_ofList]
        · exact s1
        · exact s2
        · exact s3
        · intro hnone
          cases hpc : p.ctx with
          | false => rw [← s0, hpc]
          | true =>
            rw [hpc] at hnone
            simp only [if_true] at hnone
            have := hc.1 hpc
            rw [hnone] at this; simp at this
        · intro c hsome
          cases hpc : p.ctx with
          | false => rw [hpc] at hsome; simp at hsome
          | true =>
            rw [hpc] at hsome
            simp only [if_true] at hsome
            exact ⟨by rw [← s0, hpc], hsome⟩

theorem namedAnchor_plain_shape {q : Q} {s : SrcAnchor} {a : NA} (h : namedAnchor q s = .ok (some a))
    (hc : a.ctx = none) : NAShape a := by
  obtain ⟨_, _, _, sh, h1, _⟩ := namedAnchor_some h
  have := effName_plain (h1 hc)
  unfold NAShape
  rw [← this]; exact sh

theorem namedAnchor_of_parse {q : Q} {s : SrcAnchor} {p : Parsed} (hne : s.name ≠ "")
    (hp : parseAnchor s.name.toList = .ok p) (hc : p.ctx = false) (hi : keyIgnorable p.key = false) :
    namedAnchor q s = .ok (some ⟨s.name, quantize q s.x, quantize q s.y, p.isMark, String.ofList p.key, p.number, none⟩) := by
  simp [namedAnchor, hne, hp, hc, hi]

theorem namedAnchor_of_parse_gen {q : Q} {s : SrcAnchor} {p : Parsed} (hne : s.name ≠ "")
    (hp : parseAnchor s.name.toList = .ok p) (hc : p.ctx = true → s.lib.isSome = true) (hi : keyIgnorable p.key = false) :
    namedAnchor q s = .ok (some ⟨s.name, quantize q s.x, quantize q s.y, p.isMark, String.ofList p.key, p.number,
      if p.ctx then s.lib else none⟩) := by
  have hcond : (p.ctx && s.lib.isNone || keyIgnorable p.key) = false := by
    cases hpc : p.ctx with
    | false => simp [hi]
    | true =>
      have := hc hpc
      cases hl : s.lib with
      | none => rw [hl] at this; simp at this
      | some _ => simp [hi]
  simp only [namedAnchor, hne, if_false, hp, hcond, Bool.false_eq_true]

/-! ### one glyph -/
theorem glyphAnchors_ok {q : Q} {srcs : List SrcAnchor} {as : List NA} (h : glyphAnchors q srcs = .ok as) :
    (∀ a ∈ as, ∃ s ∈ srcs, namedAnchor q s = .ok (some a)) ∧
    (∀ s ∈ srcs, ∀ a, namedAnchor q s = .ok (some a) → ∃ a' ∈ as, a'.name = a.name) ∧
    (as.map (·.name)).Nodup ∧
    (∀ s ∈ srcs, ∃ o, namedAnchor q s = .ok o) := by
  unfold glyphAnchors at h
  cases hm : mapE (namedAnchor q) srcs with
  | error e => rw [hm] at h; simp at h
  | ok ps =>
    rw [hm] at h; simp only [Except.ok.injEq] at h; subst h
    obtain ⟨h1, h2, h3⟩ := foldl_odSet_spec (ps.filterMap id) [] (by simp)
    refine ⟨?_, ?_, h3, ?_⟩
    · intro a ha
      rcases h1 a ha with ha | ha
      · simp at ha
      · obtain ⟨o, ho, hoa⟩ := mem_filterMap.mp ha
        simp only [id] at hoa; subst hoa
        exact mapE_ok_mem hm _ ho
    · intro s hs a hsa
      obtain ⟨o, ho, hso⟩ := mapE_ok_of_mem hm s hs
      rw [hsa] at hso; simp only [Except.ok.injEq] at hso; subst hso
      exact h2 a (Or.inr (mem_filterMap.mpr ⟨some a, ho, rfl⟩))
    · intro s hs
      obtain ⟨o, _, hso⟩ := mapE_ok_of_mem hm s hs
      exact ⟨o, hso⟩

/-! ### all glyphs -/
theorem anchorLists_ok {i : Input} {al : AList} (h : anchorLists i = .ok al) :
    (∀ e ∈ al, e.2 ≠ [] ∧ ∃ sg ∈ i.glyphs, sg.name = e.1 ∧ included i e.1 = true ∧ glyphAnchors i.quant sg.anchors = .ok e.2) ∧
    (∀ sg ∈ i.glyphs, included i sg.name = true →
        ∃ as, glyphAnchors i.quant sg.anchors = .ok as ∧ (as ≠ [] → (sg.name, as) ∈ al)) ∧
    (al.map (·.1)).Sublist (i.glyphs.map (·.name)) := by
  unfold anchorLists at h
  generalize hf : (fun (g : SrcGlyph) => match glyphAnchors i.quant g.anchors with
      | .error e => (.error e : Except Err (String × List NA))
      | .ok as => .ok (g.name, as)) = f at h
  have hfok : ∀ g b, f g = .ok b → b.1 = g.name ∧ glyphAnchors i.quant g.anchors = .ok b.2 := by
    intro g b hb
    subst hf
    simp only at hb
    cases hg : glyphAnchors i.quant g.anchors with
    | error e => rw [hg] at hb; simp at hb
    | ok as => rw [hg] at hb; simp only [Except.ok.injEq] at hb; subst hb; exact ⟨rfl, rfl⟩
  cases hm : mapE f (i.glyphs.filter (fun g => included i g.name)) with
  | error e => rw [hm] at h; simp at h
  | ok l =>
    rw [hm] at h; simp only [Except.ok.injEq] at h; subst h
    refine ⟨?_, ?_, ?_⟩
    · intro e he
      obtain ⟨hel, hne⟩ := mem_filter.mp he
      obtain ⟨sg, hsg, hfe⟩ := mapE_ok_mem hm e hel
      obtain ⟨hsg1, hsg2⟩ := mem_filter.mp hsg
      obtain ⟨e1, e2⟩ := hfok sg e hfe
      refine ⟨by simpa using hne, sg, hsg1, e1.symm, by rw [e1]; exact hsg2, e2⟩
    · intro sg hsg hinc
      obtain ⟨b, hb, hfb⟩ := mapE_ok_of_mem hm sg (mem_filter.mpr ⟨hsg, hinc⟩)
      obtain ⟨e1, e2⟩ := hfok sg b hfb
      refine ⟨b.2, e2, fun hne => ?_⟩
      have : (sg.name, b.2) = b := by rw [← e1]
      rw [this]
      exact mem_filter.mpr ⟨hb, by simpa using hne⟩
    · have hmap : l.map (·.1) = (i.glyphs.filter (fun g => included i g.name)).map (·.name) :=
        mapE_ok_map (·.1) (·.name) (fun a b hab => (hfok a b hab).1) hm
      have s1 : ((l.filter (fun e => !e.2.isEmpty)).map (·.1)).Sublist (l.map (·.1)) := (filter_sublist).map _
      rw [hmap] at s1
      exact s1.trans ((filter_sublist).map _)

end Ufo2ft.C06
