import Ufo2ftModel.Props.C05ApplyCells
import Ufo2ftModel.Props.C05ApplyLookup
import Ufo2ftModel.Props.C05ApplyMap
/-! C05 end-to-end, layer D1: the rules of a bucket lookup against the cells of its bucket — a rule is a cell that passed the bidi
    filter; where the cells of a lookup come from; a lookup none of whose cells contains the pair leaves it alone. -/
namespace Ufo2ft.C05
open Ufo2ft List

/-- `_makeSplitScriptKernLookups`, one pair: dropped when its glyphs hold an R and an L bidi type; right-to-left value record when
    all the bucket's scripts are right-to-left and no glyph is of bidi type L -/
def ruleOf (c : Ctx) (scripts : List String) (p : KPair) : Option Rule :=
  if p.glyphs.any c.bidiR.contains && p.glyphs.any c.bidiL.contains then none
  else some { side1 := p.side1.glyphs, side2 := p.side2.glyphs, firstIsClass := p.side1.isClass,
              secondIsClass := p.side2.isClass, enumerated := p.side1.isClass != p.side2.isClass, value := p.value,
              rtl := scripts.all (fun s => c.dir s == "RTL") && !p.glyphs.any c.bidiL.contains }

/-- "the rules of one lookup = the bidi-filtered cells of its bucket, in `KerningPair` order" -/
theorem makeRules_eq (c : Ctx) (scripts : List String) (pairs : List KPair) :
    makeRules c scripts pairs = pairs.filterMap (ruleOf c scripts) := rfl

theorem ruleOf_some (c : Ctx) (scripts : List String) (p : KPair) (r : Rule) (h : ruleOf c scripts p = some r) :
    r.side1 = p.side1.glyphs ∧ r.side2 = p.side2.glyphs ∧ r.value = p.value ∧
    r.specific = !(p.side1.isClass && p.side2.isClass) ∧
    r.rtl = (scripts.all (fun s => c.dir s == "RTL") && !p.glyphs.any c.bidiL.contains) ∧
    (p.glyphs.any c.bidiR.contains && p.glyphs.any c.bidiL.contains) = false := by
  unfold ruleOf at h
  split at h
  · cases h
  · rename_i hb
    simp only [Option.some.injEq] at h
    subst h
    refine ⟨rfl, rfl, rfl, ?_, rfl, by simpa using hb⟩
    simp only [Rule.specific]
    cases p.side1.isClass <;> cases p.side2.isClass <;> rfl

theorem ruleOf_hits (c : Ctx) (scripts : List String) (p : KPair) (r : Rule) (h : ruleOf c scripts p = some r) (g1 g2 : String) :
    r.hits g1 g2 = p.hits g1 g2 := by
  obtain ⟨a, b, _⟩ := ruleOf_some c scripts p r h
  simp only [Rule.hits, KPair.hits, a, b]

theorem level_lt_three (p : KPair) : (!(p.side1.isClass && p.side2.isClass)) = true ↔ level p < 3 := by
  simp only [level]
  cases p.side1.isClass <;> cases p.side2.isClass <;> simp

theorem flags_of_level (p p' : KPair) (h : level p = level p') :
    p.side1.isClass = p'.side1.isClass ∧ p.side2.isClass = p'.side2.isClass := by
  simp only [level] at h
  cases h1 : p.side1.isClass <;> cases h2 : p.side2.isClass <;> cases h3 : p'.side1.isClass <;> cases h4 : p'.side2.isClass <;>
    simp [h1, h2, h3, h4] at h ⊢

/-- a rule of a bucket lookup that contains the pair is a cell of the bucket that contains it and passed the bidi filter -/
theorem rule_prov (c : Ctx) (flag : Bool) (sfx : String) (e : List String × List KPair) (r : Rule)
    (hr : r ∈ (bucketLookup c flag sfx e).rules) : ∃ sp ∈ e.2, ruleOf c e.1 sp = some r := by
  simp only [bucketLookup, makeRules_eq, mem_filterMap] at hr
  exact hr

/-- where a cell of a bucket of the pair list of mode `m0` comes from -/
theorem cell_prov (c : Ctx) (pairs : List KPair) (m0 : Mode) (e : List String × List KPair)
    (he : e ∈ splitKerning c (listOf pairs m0).1) (sp : KPair) (hsp : sp ∈ e.2) :
    ∃ p0 ∈ pairs, ∃ p ∈ m0.σ p0, ∃ k, (k, sp) ∈ partitionByScript c p ∧ k ≠ [] ∧
      ∃ t ∈ mergedSets (rawBuckets c (listOf pairs m0).1), e.1 = sortStr t ∧ Sub k t := by
  obtain ⟨p, hp, k, hpart, hne, t, ht, hk, hsub⟩ := splitKerning_prov c _ e he sp hsp
  simp only [listOf, mem_flatMap] at hp
  obtain ⟨p0, hp0, hpp⟩ := hp
  exact ⟨p0, hp0, p, hpp, k, hpart, hne, t, ht, hk, hsub⟩

/-- a cell of any bucket that contains the pair descends from a generated pair that contains it, of the same specificity and
    value, through the mode that admits the pair -/
theorem cell_up (c : Ctx) (pairs : List KPair) (m0 : Mode) (e : List String × List KPair)
    (he : e ∈ splitKerning c (listOf pairs m0).1) (sp : KPair) (hsp : sp ∈ e.2) (g1 g2 : String) (hm : Matches sp g1 g2) :
    m0.cond g1 g2 ∧ ∃ p0 ∈ pairs, Matches p0 g1 g2 ∧ level sp = level p0 ∧ sp.value = p0.value ∧
      ∃ p ∈ m0.σ p0, Matches p g1 g2 ∧ ∃ k, (k, sp) ∈ partitionByScript c p := by
  obtain ⟨p0, hp0, p, hp, k, hpart, _, _⟩ := cell_prov c pairs m0 e he sp hsp
  have hmp := cell_matches c p k sp hpart g1 g2 hm
  obtain ⟨hv, _, _, _, _, hcond⟩ := σ_sound m0 p0 p hp
  obtain ⟨_, _, _, _, _, _, hv3, _⟩ := cell_info c p k sp hpart
  refine ⟨hcond g1 g2 hmp, p0, hp0, σ_matches m0 p0 p hp g1 g2 hmp, ?_, ?_, p, hp, hmp, k, hpart⟩
  · rw [cell_level c p k sp hpart, σ_level m0 p0 p hp]
  · rw [hv3, hv]

/-- Layer D1 (zero): a bucket lookup whose bucket has no cell containing the pair leaves the pair alone -/
theorem bucketLookup_zero (c : Ctx) (flag : Bool) (sfx : String) (e : List String × List KPair) (g1 g2 : String)
    (h : ∀ sp ∈ e.2, ¬ Matches sp g1 g2) : (bucketLookup c flag sfx e).apply g1 g2 = (0, 0) := by
  apply Lookup.apply_zero
  intro r hr
  obtain ⟨sp, hsp, hro⟩ := rule_prov c flag sfx e r hr
  rw [ruleOf_hits c e.1 sp r hro]
  cases hh : sp.hits g1 g2 with
  | false => rfl
  | true => exact absurd ((hits_iff sp g1 g2).mp hh) (h sp hsp)

/-! ### the class rules of one lookup fit one format-2 subtable -/

/-- two cells of buckets of one pair list whose first sides are classes and share a glyph have the same first side -/
theorem cells_coherent1 (c : Ctx) (gs : List String) (groups : List (String × List String)) (kerning : List (String × String × Q))
    (q : Q) (w : WF gs groups kerning) (ok : CtxOK c gs) (m0 : Mode)
    (e e' : List String × List KPair)
    (he : e ∈ splitKerning c (listOf (getKerningPairs gs (getKerningGroups gs groups) q kerning) m0).1)
    (he' : e' ∈ splitKerning c (listOf (getKerningPairs gs (getKerningGroups gs groups) q kerning) m0).1)
    (sp sp' : KPair) (hsp : sp ∈ e.2) (hsp' : sp' ∈ e'.2) (hk : sp.side1.isClass = sp'.side1.isClass)
    (x : String) (hx : x ∈ sp.side1.glyphs) (hx' : x ∈ sp'.side1.glyphs) : sp.side1 = sp'.side1 := by
  obtain ⟨p0, hp0, p, hp, k, hpart, _⟩ := cell_prov c _ m0 e he sp hsp
  obtain ⟨p0', hp0', p', hp', k', hpart', _⟩ := cell_prov c _ m0 e' he' sp' hsp'
  obtain ⟨c1, _, sub1, _⟩ := cell_sides c p k sp hpart
  obtain ⟨c1', _, sub1', _⟩ := cell_sides c p' k' sp' hpart'
  obtain ⟨_, f1, _, psub1, _, _⟩ := σ_sound m0 p0 p hp
  obtain ⟨_, f1', _, psub1', _, _⟩ := σ_sound m0 p0' p' hp'
  have hxp0 : x ∈ p0.side1.glyphs := psub1 x (sub1 x hx)
  have hxp0' : x ∈ p0'.side1.glyphs := psub1' x (sub1' x hx')
  have hs0 : p0.side1 = p0'.side1 :=
    pair_side1_coherent gs groups kerning q w p0 p0' hp0 hp0' (by rw [← f1, ← c1, hk, c1', f1']) x hxp0 hxp0'
  have hs1 : p.side1 = p'.side1 := σ_coherent1 m0 p0 p0' p p' hp hp' hs0 x (sub1 x hx) (sub1' x hx')
  have hxgs : x ∈ gs := (pair_glyphs_in gs groups kerning q w p0 hp0).1 x hxp0
  exact cell_coherent1 c p p' k k' sp sp' hpart hpart' hs1 x (ok.uni x hxgs) hx hx'

theorem cells_coherent2 (c : Ctx) (gs : List String) (groups : List (String × List String)) (kerning : List (String × String × Q))
    (q : Q) (w : WF gs groups kerning) (ok : CtxOK c gs) (m0 : Mode)
    (e e' : List String × List KPair)
    (he : e ∈ splitKerning c (listOf (getKerningPairs gs (getKerningGroups gs groups) q kerning) m0).1)
    (he' : e' ∈ splitKerning c (listOf (getKerningPairs gs (getKerningGroups gs groups) q kerning) m0).1)
    (sp sp' : KPair) (hsp : sp ∈ e.2) (hsp' : sp' ∈ e'.2) (hk : sp.side2.isClass = sp'.side2.isClass)
    (x : String) (hx : x ∈ sp.side2.glyphs) (hx' : x ∈ sp'.side2.glyphs) : sp.side2 = sp'.side2 := by
  obtain ⟨p0, hp0, p, hp, k, hpart, _⟩ := cell_prov c _ m0 e he sp hsp
  obtain ⟨p0', hp0', p', hp', k', hpart', _⟩ := cell_prov c _ m0 e' he' sp' hsp'
  obtain ⟨_, c1, _, sub1⟩ := cell_sides c p k sp hpart
  obtain ⟨_, c1', _, sub1'⟩ := cell_sides c p' k' sp' hpart'
  obtain ⟨_, _, f1, _, psub1, _⟩ := σ_sound m0 p0 p hp
  obtain ⟨_, _, f1', _, psub1', _⟩ := σ_sound m0 p0' p' hp'
  have hxp0 : x ∈ p0.side2.glyphs := psub1 x (sub1 x hx)
  have hxp0' : x ∈ p0'.side2.glyphs := psub1' x (sub1' x hx')
  have hs0 : p0.side2 = p0'.side2 :=
    pair_side2_coherent gs groups kerning q w p0 p0' hp0 hp0' (by rw [← f1, ← c1, hk, c1', f1']) x hxp0 hxp0'
  have hs1 : p.side2 = p'.side2 := σ_coherent2 m0 p0 p0' p p' hp hp' hs0 x (sub1 x hx) (sub1' x hx')
  have hxgs : x ∈ gs := (pair_glyphs_in gs groups kerning q w p0 hp0).2 x hxp0
  exact cell_coherent2 c p p' k k' sp sp' hpart hpart' hs1 x (ok.uni x hxgs) hx hx'

/-- Layer D1 (one subtable): with valid groups and single-direction glyphs the class rules of a bucket lookup have pairwise
    equal-or-disjoint classes on each side — feaLib builds one format-2 subtable for them -/
theorem bucketLookup_compat (c : Ctx) (gs : List String) (groups : List (String × List String)) (kerning : List (String × String × Q))
    (q : Q) (w : WF gs groups kerning) (ok : CtxOK c gs) (m0 : Mode) (e : List String × List KPair)
    (he : e ∈ splitKerning c (listOf (getKerningPairs gs (getKerningGroups gs groups) q kerning) m0).1) :
    Compat ((bucketLookup c m0.flag m0.sfx e).rules.filter (fun r => !r.specific)) := by
  intro r hr r' hr'
  obtain ⟨hr, hns⟩ := mem_filter.mp hr
  obtain ⟨hr', hns'⟩ := mem_filter.mp hr'
  obtain ⟨sp, hsp, hro⟩ := rule_prov c _ _ e r hr
  obtain ⟨sp', hsp', hro'⟩ := rule_prov c _ _ e r' hr'
  obtain ⟨a1, a2, _, a4, _⟩ := ruleOf_some c e.1 sp r hro
  obtain ⟨b1, b2, _, b4, _⟩ := ruleOf_some c e.1 sp' r' hro'
  rw [a4] at hns; rw [b4] at hns'
  have fa : sp.side1.isClass = true ∧ sp.side2.isClass = true := by
    cases h1 : sp.side1.isClass <;> cases h2 : sp.side2.isClass <;> simp [h1, h2] at hns ⊢
  have fb : sp'.side1.isClass = true ∧ sp'.side2.isClass = true := by
    cases h1 : sp'.side1.isClass <;> cases h2 : sp'.side2.isClass <;> simp [h1, h2] at hns' ⊢
  constructor
  · by_cases hx : ∃ x, x ∈ r.side1 ∧ x ∈ r'.side1
    · obtain ⟨x, hx1, hx2⟩ := hx
      left
      rw [a1] at hx1 ⊢; rw [b1] at hx2 ⊢
      rw [cells_coherent1 c gs groups kerning q w ok m0 e e he he sp sp' hsp hsp' (by rw [fa.1, fb.1]) x hx1 hx2]
    · right; intro x h1 h2; exact hx ⟨x, h1, h2⟩
  · by_cases hx : ∃ x, x ∈ r.side2 ∧ x ∈ r'.side2
    · obtain ⟨x, hx1, hx2⟩ := hx
      left
      rw [a2] at hx1 ⊢; rw [b2] at hx2 ⊢
      rw [cells_coherent2 c gs groups kerning q w ok m0 e e he he sp sp' hsp hsp' (by rw [fa.2, fb.2]) x hx1 hx2]
    · right; intro x h1 h2; exact hx ⟨x, h1, h2⟩

end Ufo2ft.C05
