import Ufo2ftModel.Props.C06AttachLig
/-! C06, part 16: completeness — every eligible (glyph, mark, component) is attached. -/
namespace Ufo2ft.C06
open List

theorem markKey_some {name k : List Char} (h : markKey name = some k) : name = '_' :: k ∧ k ≠ [] := by
  unfold markKey at h
  cases name with
  | nil => simp at h
  | cons c r =>
    simp only at h
    split at h
    · rename_i hc; simp only [Option.some.injEq] at h; subst h; exact ⟨by rw [hc.1], hc.2⟩
    · simp at h

theorem markKey_of {k : List Char} (hk : k ≠ []) : markKey ('_' :: k) = some k := by simp [markKey, hk]

theorem ofList_toList_key {k : List Char} : (String.ofList k).toList = k := String.toList_ofList

/-- no anchor carries object-lib data -/
def NoLib (i : Input) : Prop := ∀ g ∈ i.glyphs, ∀ a ∈ g.anchors, a.lib = none

/-- … then no NamedAnchor is contextual -/
theorem noctx {i : Input} {al : AList} (w : ALwf i al) (nl : NoLib i) {e : String × List NA} (he : e ∈ al)
    {a : NA} (ha : a ∈ e.2) : a.ctx = none := by
  cases hc : a.ctx with
  | none => rfl
  | some c =>
    obtain ⟨sg, hsg, _, hsrc⟩ := w.src e he
    obtain ⟨s, hs, _, _, _, hl⟩ := hsrc a ha
    have := hl c hc
    rw [nl sg (findGlyph_some hsg).1 s hs] at this; simp at this

/-- a NamedAnchor is contextual exactly when its name starts with '*' -/
theorem ctx_iff_star {i : Input} {al : AList} (w : ALwf i al) {e : String × List NA} (he : e ∈ al) {a : NA} (ha : a ∈ e.2) :
    a.ctx = none ↔ (a.name.toList.head? == some '*') = false := by
  constructor
  · exact w.nostar e he a ha
  · intro h
    cases hc : a.ctx with
    | none => rfl
    | some c => have := (w.cshape e he a ha c hc).1; rw [h] at this; simp at this

/-- a plain name that answers a plain key also answers it as pairing name -/
theorem pairName_of_plain_match {s : SrcAnchor} {k : List Char} {c : Option Nat} (hk : plainKey k = true)
    (hm : baseNameMatches k c s.name.toList = true) :
    baseNameMatches k c (pairName s) = true ∧ (s.name.toList.head? == some '*') = false := by
  obtain ⟨c0, r0, ek, hc0⟩ := ((plainKey_iff k).mp hk).1
  have hhead : (s.name.toList.head? == some '*') = false := by
    cases c with
    | none =>
      have : s.name.toList = k := by simpa [baseNameMatches] using hm
      rw [this, ek]
      simp only [head?_cons, beq_eq_false_iff_ne, ne_eq, Option.some.injEq]
      exact alpha_ne_star c0 hc0
    | some j =>
      have hl' : isLigName k (j + 1) s.name.toList = true := by simpa [baseNameMatches] using hm
      obtain ⟨ds, ⟨_, _, e⟩, _⟩ := sepDigits_of_isLigName hl'
      rw [e, ek]
      simp only [cons_append, head?_cons, beq_eq_false_iff_ne, ne_eq, Option.some.injEq]
      exact alpha_ne_star c0 hc0
  refine ⟨?_, hhead⟩
  unfold pairName
  split
  · rw [effName_plain hhead]; exact hm
  · exact hm

section
variable {i : Input} {al : AList} (w : ALwf i al) (cv : ALcov i al)
include w cv

omit w in
/-- a source anchor `_k` on an included glyph gives a mark NamedAnchor in the lists -/
theorem na_of_src_mark {sg : SrcGlyph} (hsg : sg ∈ i.glyphs) (hinc : included i sg.name = true) {s : SrcAnchor}
    (hs : s ∈ sg.anchors) {k : List Char} (hn : s.name.toList = '_' :: k) (hk : plainKey k = true) :
    ∃ a, AnchorIn al sg.name a ∧ a.isMark = true ∧ a.key = String.ofList k ∧ a.name = s.name := by
  obtain ⟨a0, h0, h1, h2, h3, _⟩ := src_mark (q := i.quant) hn hk
  obtain ⟨as, has, a, ha, e1, e2, e3, _⟩ := cv.cov sg hsg hinc s hs a0 h0
  exact ⟨a, ⟨as, has, ha⟩, by rw [e2, h2], by rw [e3, h3], by rw [e1, h1]⟩

omit w in
/-- a source anchor that answers key `k` under its pairing name gives a base-side NamedAnchor of that name in the lists -/
theorem na_of_src_side {sg : SrcGlyph} (hsg : sg ∈ i.glyphs) (hinc : included i sg.name = true) {s : SrcAnchor}
    (hs : s ∈ sg.anchors) {k : List Char} (hk : plainKey k = true) (c : Option Nat)
    (hm : baseNameMatches k c (pairName s) = true) :
    ∃ a, AnchorIn al sg.name a ∧ a.isMark = false ∧ a.key = String.ofList k ∧ a.number = c.map (· + 1) ∧ a.name = s.name := by
  obtain ⟨a0, h0, h1, h2, h3, h4, _⟩ := src_side (q := i.quant) c hm hk
  obtain ⟨as, has, a, ha, e1, e2, e3, e4⟩ := cv.cov sg hsg hinc s hs a0 h0
  exact ⟨a, ⟨as, has, ha⟩, by rw [e2, h2], by rw [e3, h3], by rw [e4, h4], by rw [e1, h1]⟩

/-- a source anchor `k` or `k_N` (plain name) on an included glyph gives a plain base-side NamedAnchor in the lists -/
theorem na_of_src_base {sg : SrcGlyph} (hsg : sg ∈ i.glyphs) (hinc : included i sg.name = true) {s : SrcAnchor}
    (hs : s ∈ sg.anchors) {k : List Char} (hk : plainKey k = true) (c : Option Nat)
    (hm : baseNameMatches k c s.name.toList = true) :
    ∃ a, AnchorIn al sg.name a ∧ a.isMark = false ∧ a.key = String.ofList k ∧ a.number = c.map (· + 1) ∧ a.ctx = none := by
  obtain ⟨hm', hhead⟩ := pairName_of_plain_match hk hm
  obtain ⟨a, ⟨as, has, ha⟩, h1, h2, h3, h4⟩ := na_of_src_side cv hsg hinc hs hk c hm'
  exact ⟨a, ⟨as, has, ha⟩, h1, h2, h3, (ctx_iff_star w has ha).mpr (by rw [h4]; exact hhead)⟩

/-- Spec.isMarkGlyph ⇒ the writer's markGlyphNames -/
theorem mg_of_isMarkGlyph {b : String} {gb : SrcGlyph} (hfb : findGlyph i b = some gb) (h : isMarkGlyph i gb = true) :
    b ∈ mgOf i al := by
  obtain ⟨hgb, hname⟩ := findGlyph_some hfb
  subst hname
  simp only [isMarkGlyph, Bool.and_eq_true, any_eq_true] at h
  obtain ⟨⟨hinc, hok⟩, s, hs, hcond⟩ := h
  cases hmk : markKey s.name.toList with
  | none => rw [hmk] at hcond; simp at hcond
  | some k =>
    rw [hmk] at hcond
    simp only [Bool.and_eq_true, any_eq_true] at hcond
    obtain ⟨hpk, hh, hhg, hhinc, hbs⟩ := hcond
    obtain ⟨hn, _⟩ := markKey_some hmk
    obtain ⟨am, ham, hmm, hmkey, hmname⟩ := na_of_src_mark cv hgb hinc hs hn hpk
    -- the base side
    unfold hasBaseSide at hbs
    rw [any_eq_true] at hbs
    obtain ⟨s', hs', hcase⟩ := hbs
    have : ∃ ab, AnchorIn al hh.name ab ∧ ab.isMark = false ∧ ab.key = String.ofList k := by
      rw [Bool.or_eq_true] at hcase
      rcases hcase with hc | hc
      · obtain ⟨a, h1, h2, h3, _⟩ := na_of_src_side cv hhg hhinc hs' hpk none (by simpa [baseNameMatches] using hc)
        exact ⟨a, h1, h2, h3⟩
      · simp only [Bool.and_eq_true, Bool.not_eq_true', all_eq_true] at hc
        obtain ⟨⟨hpre, hne⟩, hdig⟩ := hc
        have hl0 : isLigName k (digitsToNat ((pairName s').drop (k.length + 1))) (pairName s') = true := by
          simp only [isLigName, hpre, hne, Bool.not_false, Bool.true_and, Bool.and_eq_true, all_eq_true, beq_self_eq_true, and_true]
          exact hdig
        obtain ⟨ds, hsd, hnum⟩ := sepDigits_of_isLigName hl0
        have hka := ((plainKey_iff k).mp hpk).1
        have hpos : 1 ≤ digitsToNat ds := by
          unfold pairName at hsd
          split at hsd
          · exact lig_number_pos_eff cv hhg hhinc hs' hka hsd
          · exact lig_number_pos cv hhg hhinc hs' (Or.inl hka) hsd
        rw [hnum] at hpos
        obtain ⟨j, hj⟩ : ∃ j, digitsToNat ((pairName s').drop (k.length + 1)) = j + 1 := ⟨_, (Nat.sub_add_cancel hpos).symm⟩
        rw [hj] at hl0
        obtain ⟨a, h1, h2, h3, _⟩ := na_of_src_side cv hhg hhinc hs' hpk (some j) (by simpa [baseNameMatches] using hl0)
        exact ⟨a, h1, h2, h3⟩
    obtain ⟨ab, hab, hnb, hbkey⟩ := this
    obtain ⟨asm, hasm, hamm⟩ := ham
    have hcm : am.ctx = none := plain_of_us w hasm hamm (by rw [hmname]; exact hn)
    exact pair_mg w ⟨hab, ⟨asm, hasm, hamm⟩, hnb, hmm, hcm, by rw [hmkey, hbkey]⟩ hok

omit cv in
/-- the writer's markGlyphNames ⇒ Spec.isMarkGlyph -/
theorem isMarkGlyph_of_mg {b : String} {gb : SrcGlyph} (hfb : findGlyph i b = some gb) (h : b ∈ mgOf i al) :
    isMarkGlyph i gb = true := by
  obtain ⟨hgb, hname⟩ := findGlyph_some hfb
  obtain ⟨e, he, heb⟩ := mem_map.mp h
  obtain ⟨hok, hne, as, has, hall, _⟩ := mem_meOf w he
  rw [heb] at hok has
  obtain ⟨a, ha⟩ := exists_mem_of_ne_nil _ hne
  obtain ⟨ha1, ha2, ha3⟩ := hall a ha
  obtain ⟨sg, hsg, hinc, hsrc⟩ := w.src _ has
  simp only at hsg hinc
  rw [hfb] at hsg
  simp only [Option.some.injEq] at hsg; subst hsg
  obtain ⟨s, hs, hsn, _, _⟩ := hsrc a ha1
  have hsa := shape_of_mem_markNames w has ha1 ha3
  obtain ⟨hn, hpk, _⟩ := hsa.mark ha2
  have hkne : a.key.toList ≠ [] := by
    obtain ⟨⟨c', r', e', _⟩, _⟩ := (plainKey_iff _).mp hpk
    rw [e']; simp
  -- the paired base-side anchor (plain or contextual)
  obtain ⟨e1, he1, a', ha', hp, hn1⟩ := mem_markNames.mp ha3
  obtain ⟨hnm', _⟩ := paired_iff.mp hp
  have hkey : a'.key = a.key := by
    have h1 : markAnchorName a' = "_" ++ a.key := by rw [hn1]; exact markName_of_key hsa ha2
    exact (String.append_right_inj "_").mp h1
  obtain ⟨sg', hsg', hinc', hsrc'⟩ := w.src _ he1
  obtain ⟨hsg'm, hsg'n⟩ := findGlyph_some hsg'
  obtain ⟨s', hs', hs'n, _, _, hs'lib⟩ := hsrc' a' ha'
  -- its pairing name and the shape of that name
  have hshape : NAShapeOn (pairName s') a' := by
    cases hc : a'.ctx with
    | none =>
      have hstar := w.nostar _ he1 a' ha' hc
      have : pairName s' = a'.name.toList := by
        unfold pairName
        split
        · rw [hs'n, effName_plain hstar]
        · rw [hs'n]
      rw [this]; exact w.shape _ he1 a' ha' hc
    | some c =>
      have : pairName s' = effName a'.name.toList := by
        unfold pairName
        rw [hs'lib c hc, hs'n]; rfl
      rw [this]; exact (w.cshape _ he1 a' ha' c hc).2
  simp only [isMarkGlyph, Bool.and_eq_true, any_eq_true]
  rw [hname]
  refine ⟨⟨hinc, hok⟩, s, hs, ?_⟩
  rw [hsn, hn, markKey_of hkne]
  simp only [Bool.and_eq_true, any_eq_true]
  refine ⟨hpk, sg', hsg'm, by rw [hsg'n]; exact hinc', ?_⟩
  unfold hasBaseSide
  rw [any_eq_true]
  refine ⟨s', hs', ?_⟩
  rw [← hkey]
  cases hnum : a'.number with
  | none =>
    obtain ⟨e2, _⟩ := hshape.base hnm' hnum
    simp [e2]
  | some n =>
    obtain ⟨_, hl, _⟩ := hshape.lig hnm' n hnum
    simp only [isLigName, Bool.and_eq_true, Bool.not_eq_true'] at hl
    obtain ⟨⟨⟨h1, h2⟩, h3⟩, _⟩ := hl
    simp [h1, h2, h3]

end

/-- where the lookups of a glyph/anchor go: the features of `build` that let (glyph b, anchor ab) through -/
theorem route {i : Input} (al : AList) {b : String} (ab : NA) (hcover : b ∈ i.abvm ∨ b ∈ i.notAbvm) :
    ∃ (fB fM : String) (inc : String → Bool) (mf : NA → Bool), inc b = true ∧ mf ab = true ∧
      (∀ L, L ∈ baseLookups fB inc mf (gbOf i al) → L ∈ (build i al).lookups) ∧
      (∀ L, L ∈ ligLookups fB inc mf (glOf i al) → L ∈ (build i al).lookups) ∧
      (∀ L, L ∈ mkmkLookups fM inc mf (maOf i al) → L ∈ (build i al).lookups) := by
  by_cases hn : b ∈ i.notAbvm
  · refine ⟨"mark", "mkmk", isNotAbvmG i, mfAll, by simpa [isNotAbvmG] using hn, rfl, ?_, ?_, ?_⟩
    · intro L hL; rw [build_eq]; simp only [mem_append, markLOf]; exact Or.inl (Or.inr (Or.inl hL))
    · intro L hL; rw [build_eq]; simp only [mem_append, markLOf]; exact Or.inl (Or.inr (Or.inr hL))
    · intro L hL; rw [build_eq]; simp only [mem_append, mkmkLOf]; exact Or.inr hL
  · have ha : b ∈ i.abvm := by rcases hcover with h | h; exact h; exact absurd h hn
    have hne : i.abvm.isEmpty = false := by cases hh : i.abvm with | nil => rw [hh] at ha; simp at ha | cons _ _ => rfl
    by_cases hab : isAbove ab.name = true
    · refine ⟨"abvm", "abvm", isAbvmG i, mfAbove, by simpa [isAbvmG] using ha, hab, ?_, ?_, ?_⟩
      · intro L hL; rw [build_eq]; simp only [mem_append, abvmLOf, hne, Bool.false_eq_true, if_false]
        exact Or.inl (Or.inl (Or.inl (Or.inl (Or.inl hL))))
      · intro L hL; rw [build_eq]; simp only [mem_append, abvmLOf, hne, Bool.false_eq_true, if_false]
        exact Or.inl (Or.inl (Or.inl (Or.inl (Or.inr hL))))
      · intro L hL; rw [build_eq]; simp only [mem_append, abvmLOf, hne, Bool.false_eq_true, if_false]
        exact Or.inl (Or.inl (Or.inl (Or.inr hL)))
    · refine ⟨"blwm", "blwm", isAbvmG i, mfBelow, by simpa [isAbvmG] using ha, by simpa [mfBelow] using hab, ?_, ?_, ?_⟩
      · intro L hL; rw [build_eq]; simp only [mem_append, blwmLOf, hne, Bool.false_eq_true, if_false]
        exact Or.inl (Or.inl (Or.inr (Or.inl (Or.inl hL))))
      · intro L hL; rw [build_eq]; simp only [mem_append, blwmLOf, hne, Bool.false_eq_true, if_false]
        exact Or.inl (Or.inl (Or.inr (Or.inl (Or.inr hL))))
      · intro L hL; rw [build_eq]; simp only [mem_append, blwmLOf, hne, Bool.false_eq_true, if_false]
        exact Or.inl (Or.inl (Or.inr (Or.inr hL)))

end Ufo2ft.C06
