import Ufo2ftModel.Props.Render
import Ufo2ftModel.Props.C01
/-!
TransformationsFilter (`filters/transformations.py`) over a whole glyph set, bases and composites both included:
every included non-empty glyph's resolved outline, anchors and advance are mapped by exactly the requested matrix —
once, never twice — and every other glyph keeps its data.

Structure of the proof
* `TInv`  : the state invariant of the traversal (which glyph has been rewritten, and how its component matrices were
            compensated), proved for the mutual recursion `transformGlyph` / `transformBases` (`TGSpec` / `TBSpec`) and for
            the loop of `BaseFilter.__call__` (`transformLoop_inv`);
* `render_transformed` : under the invariant, a rewritten glyph draws under any outer transform `T` what the original
            drew under `T ∘ m` (the compensation `(m ∘ (t ∘ m⁻¹)) ∘ m = m ∘ t`), untouched glyphs draw what they drew;
* `transform_convex` / `transform_all` : the theorems about `runFilter (transformStep m p) p`.
-/
namespace Ufo2ft
open List

/-- `not (glyph or glyph.components or glyph.anchors)`: the glyphs `TransformationsFilter.filter` skips -/
def emptyG (g : Glyph) : Bool := g.contours.isEmpty && g.comps.isEmpty && g.anchors.isEmpty

/-! ### small facts about `addMod`, `GlyphSet.set` -/

theorem contains_addMod (l : List String) (n x : String) :
    (addMod l n).contains x = true ↔ (l.contains x = true ∨ x = n) := by
  unfold addMod
  by_cases h : l.contains n = true
  · rw [if_pos h]
    constructor
    · intro hx; exact Or.inl hx
    · rintro (hx | rfl)
      · exact hx
      · exact h
  · rw [if_neg h]
    simp

theorem set_names (gs : GlyphSet) (n : String) (g : Glyph) : (gs.set n g).names = gs.names := by
  unfold GlyphSet.set GlyphSet.names
  rw [List.map_map]
  apply List.map_congr_left
  intro e _
  simp only [Function.comp]
  by_cases h : (e.1 == n) = true
  · rw [if_pos h]; exact (by simpa using h : e.1 = n).symm
  · rw [if_neg h]

theorem names_length {a b : GlyphSet} (h : a.names = b.names) : a.length = b.length := by
  have := congrArg List.length h
  simpa [GlyphSet.names] using this

/-! ### the invariant of the traversal -/

/-- a component base the filter leaves alone when it rewrites the composite: not included, or an (included) empty glyph -/
def Untouch (gs0 : GlyphSet) (p : String → Bool) (b : String) : Prop :=
  p b = false ∨ ∃ b0, gs0.get? b = some b0 ∧ emptyG b0 = true

/-- `gs` / `md` (= `context.modified`) is a state the traversal can reach from the original glyph set `gs0`:
    a glyph outside `md` is untouched; a glyph in `md` is included, non-empty and is `transformBody` of its original, where the
    bases that got the compensating `∘ m⁻¹` are (by now) in `md` and the others are never rewritten. -/
structure TInv (m minv : Affine) (p : String → Bool) (gs0 gs : GlyphSet) (md : List String) : Prop where
  hnames : gs.names = gs0.names
  hnone : ∀ n, gs0.get? n = none → gs.get? n = none
  hsome : ∀ n g0, gs0.get? n = some g0 → ∃ g, gs.get? n = some g ∧
    ((md.contains n = false ∧ g = g0) ∨
     (md.contains n = true ∧ p n = true ∧ emptyG g0 = false ∧ ∃ md0 : List String, g = transformBody m minv md0 g0 ∧
        ∀ k ∈ g0.comps, (md0.contains k.base = true → md.contains k.base = true) ∧
                        (md0.contains k.base = false → Untouch gs0 p k.base)))

theorem TInv.init (m minv : Affine) (p : String → Bool) (gs0 : GlyphSet) : TInv m minv p gs0 gs0 [] :=
  ⟨rfl, fun _ h => h, fun _ g0 h => ⟨g0, h, Or.inl ⟨rfl, rfl⟩⟩⟩

/-- a glyph not yet in `modified` is still the original one -/
theorem TInv.get_unmodified {m minv : Affine} {p : String → Bool} {gs0 gs : GlyphSet} {md : List String}
    (inv : TInv m minv p gs0 gs md) {n : String} {g : Glyph} (hget : gs.get? n = some g)
    (hmd : md.contains n = false) : gs0.get? n = some g := by
  cases h0 : gs0.get? n with
  | none => rw [inv.hnone n h0] at hget; cases hget
  | some g0 =>
    obtain ⟨g1, hg1, hcase⟩ := inv.hsome n g0 h0
    rw [hget] at hg1
    have e := Option.some.inj hg1
    rcases hcase with ⟨_, e2⟩ | ⟨hc, _⟩
    · rw [e, e2]
    · rw [hmd] at hc; cases hc

/-- recording the rewritten glyph: the step `glyph := transformBody …; modified.add(name)` re-establishes the invariant -/
theorem TInv.step {m minv : Affine} {p : String → Bool} {gs0 gs : GlyphSet} {md : List String}
    (inv : TInv m minv p gs0 gs md) {name : String} {g0 : Glyph} (h0 : gs0.get? name = some g0)
    (hp : p name = true) (hne : emptyG g0 = false)
    (hk : ∀ k ∈ g0.comps, md.contains k.base = true ∨ Untouch gs0 p k.base) :
    TInv m minv p gs0 (gs.set name (transformBody m minv md g0)) (addMod md name) := by
  obtain ⟨g1, hg1, _⟩ := inv.hsome name g0 h0
  refine ⟨?_, ?_, ?_⟩
  · rw [set_names]; exact inv.hnames
  · intro n hn
    rw [get?_set gs name n g1 _ hg1]
    by_cases e : n = name
    · rw [e, h0] at hn; cases hn
    · rw [if_neg e]; exact inv.hnone n hn
  · intro n g0' hn
    rw [get?_set gs name n g1 _ hg1]
    by_cases e : n = name
    · rw [if_pos e]
      rw [e, h0] at hn
      have := Option.some.inj hn; subst this
      refine ⟨_, rfl, Or.inr ⟨?_, by rw [e]; exact hp, hne, md, rfl, ?_⟩⟩
      · exact (contains_addMod md name n).mpr (Or.inr e)
      · intro k hkm
        refine ⟨fun hc => (contains_addMod md name k.base).mpr (Or.inl hc), fun hc => ?_⟩
        rcases hk k hkm with h | h
        · rw [hc] at h; cases h
        · exact h
    · rw [if_neg e]
      obtain ⟨g, hg, hcase⟩ := inv.hsome n g0' hn
      refine ⟨g, hg, ?_⟩
      rcases hcase with ⟨hc, e2⟩ | ⟨hc, hpn, hnen, md0, e2, hks⟩
      · left
        refine ⟨?_, e2⟩
        cases hx : (addMod md name).contains n with
        | false => rfl
        | true =>
          rcases (contains_addMod md name n).mp hx with h | h
          · rw [hc] at h; cases h
          · exact absurd h e
      · right
        refine ⟨(contains_addMod md name n).mpr (Or.inl hc), hpn, hnen, md0, e2, ?_⟩
        intro k hkm
        exact ⟨fun h => (contains_addMod md name k.base).mpr (Or.inl ((hks k hkm).1 h)), (hks k hkm).2⟩

/-! ### the mutual recursion `TransformationsFilter.filter` -/

/-- what one call `self.filter(glyph)` (before the caller's `modified.add`) guarantees -/
def TGSpec (m minv : Affine) (p : String → Bool) (gs0 : GlyphSet) (rank : String → Nat) (fuel : Nat) : Prop :=
  ∀ st name st' r, transformGlyph fuel m minv p st name = .ok (st', r) →
    TInv m minv p gs0 st.gs st.modified → st.modified.contains name = false → p name = true →
    (∀ x, st.modified.contains x = true → st'.modified.contains x = true) ∧
    (∀ x, st'.modified.contains x = true → st.modified.contains x = true ∨ rank x < rank name) ∧
    (r = false → st' = st ∧ ∀ g0, gs0.get? name = some g0 → emptyG g0 = true) ∧
    (r = true → TInv m minv p gs0 st'.gs (addMod st'.modified name))

/-- what the loop over `glyph.components` guarantees -/
def TBSpec (m minv : Affine) (p : String → Bool) (gs0 : GlyphSet) (rank : String → Nat) (fuel : Nat) : Prop :=
  ∀ ks st st' R, transformBases fuel m minv p st ks = .ok st' →
    TInv m minv p gs0 st.gs st.modified → (∀ k ∈ ks, rank k.base < R) →
    TInv m minv p gs0 st'.gs st'.modified ∧
    (∀ x, st.modified.contains x = true → st'.modified.contains x = true) ∧
    (∀ x, st'.modified.contains x = true → st.modified.contains x = true ∨ rank x < R) ∧
    (∀ k ∈ ks, st'.modified.contains k.base = true ∨ Untouch gs0 p k.base)

theorem tbSpec_of_tgSpec (m minv : Affine) (p : String → Bool) (gs0 : GlyphSet) (rank : String → Nat) (fuel : Nat)
    (h1 : TGSpec m minv p gs0 rank fuel) : TBSpec m minv p gs0 rank fuel := by
  intro ks
  induction ks with
  | nil =>
    intro st st' R h inv _
    simp only [transformBases] at h
    have := Except.ok.inj h; subst this
    exact ⟨inv, fun _ hx => hx, fun _ hx => Or.inl hx, fun k hk => (by cases hk)⟩
  | cons k ks ih =>
    intro st st' R h inv hR
    have hRk : rank k.base < R := hR k mem_cons_self
    have hRks : ∀ k' ∈ ks, rank k'.base < R := fun k' hk' => hR k' (mem_cons_of_mem _ hk')
    unfold transformBases at h
    by_cases hc : st.modified.contains k.base = true
    · rw [if_pos hc] at h
      obtain ⟨i1, i2, i3, i4⟩ := ih st st' R h inv hRks
      refine ⟨i1, i2, i3, ?_⟩
      intro k' hk'
      rcases mem_cons.mp hk' with e | hk'
      · rw [e]; exact Or.inl (i2 _ hc)
      · exact i4 k' hk'
    · rw [if_neg hc] at h
      cases hb : st.gs.get? k.base with
      | none => rw [hb] at h; cases h
      | some b =>
        rw [hb] at h
        dsimp only at h
        by_cases hi : p k.base = true
        · rw [if_pos hi] at h
          cases hg : transformGlyph fuel m minv p st k.base with
          | error e => rw [hg] at h; cases h
          | ok res =>
            obtain ⟨st1, r⟩ := res
            rw [hg] at h
            dsimp only at h
            have hcf : st.modified.contains k.base = false := by simpa using hc
            obtain ⟨t1, t2, t3, t4⟩ := h1 st k.base st1 r hg inv hcf hi
            cases r with
            | true =>
              simp only [if_true] at h
              obtain ⟨i1, i2, i3, i4⟩ := ih _ st' R h (t4 rfl) hRks
              dsimp only at i2 i3
              refine ⟨i1, ?_, ?_, ?_⟩
              · intro x hx
                exact i2 x ((contains_addMod _ _ _).mpr (Or.inl (t1 x hx)))
              · intro x hx
                rcases i3 x hx with h' | h'
                · rcases (contains_addMod _ _ _).mp h' with h'' | h''
                  · rcases t2 x h'' with h3 | h3
                    · exact Or.inl h3
                    · exact Or.inr (by omega)
                  · rw [h'']; exact Or.inr hRk
                · exact Or.inr h'
              · intro k' hk'
                rcases mem_cons.mp hk' with e | hk'
                · rw [e]; exact Or.inl (i2 _ ((contains_addMod _ _ _).mpr (Or.inr rfl)))
                · exact i4 k' hk'
            | false =>
              simp only [Bool.false_eq_true, if_false] at h
              obtain ⟨e1, e2⟩ := t3 rfl
              subst e1
              obtain ⟨i1, i2, i3, i4⟩ := ih _ st' R h inv hRks
              refine ⟨i1, i2, i3, ?_⟩
              intro k' hk'
              rcases mem_cons.mp hk' with e | hk'
              · rw [e]
                right; right
                have h0 := inv.get_unmodified hb hcf
                exact ⟨b, h0, e2 b h0⟩
              · exact i4 k' hk'
        · rw [if_neg hi] at h
          obtain ⟨i1, i2, i3, i4⟩ := ih st st' R h inv hRks
          refine ⟨i1, i2, i3, ?_⟩
          intro k' hk'
          rcases mem_cons.mp hk' with e | hk'
          · rw [e]; right; left; simpa using hi
          · exact i4 k' hk'

theorem tgSpec_succ (m minv : Affine) (p : String → Bool) (gs0 : GlyphSet) (rank : String → Nat)
    (hr : Ranked gs0 rank) (hm : (m == Affine.id) = false) (fuel : Nat)
    (h2 : TBSpec m minv p gs0 rank fuel) : TGSpec m minv p gs0 rank (fuel + 1) := by
  intro st name st' r h inv hmd hp
  unfold transformGlyph at h
  cases hget : st.gs.get? name with
  | none => rw [hget] at h; cases h
  | some g =>
    rw [hget] at h
    dsimp only at h
    have h0 : gs0.get? name = some g := inv.get_unmodified hget hmd
    rw [hm, Bool.false_or] at h
    by_cases he : emptyG g = true
    · have he' := he
      unfold emptyG at he'
      rw [if_pos he'] at h
      have := Except.ok.inj h
      obtain ⟨e1, e2⟩ := Prod.mk.inj this
      subst e1; subst e2
      refine ⟨fun _ hx => hx, fun _ hx => Or.inl hx, fun _ => ⟨rfl, ?_⟩, fun hf => (by cases hf)⟩
      intro g0 hg0
      rw [h0] at hg0
      rw [← Option.some.inj hg0]; exact he
    · have he' := he
      unfold emptyG at he'
      rw [if_neg he'] at h
      cases hb : transformBases fuel m minv p st g.comps with
      | error e => rw [hb] at h; cases h
      | ok st1 =>
        rw [hb] at h
        dsimp only at h
        obtain ⟨i1, i2, i3, i4⟩ := h2 g.comps st st1 (rank name) hb inv (hr name g h0)
        have hmd1 : st1.modified.contains name = false := by
          cases hx : st1.modified.contains name with
          | false => rfl
          | true =>
            rcases i3 name hx with h' | h'
            · rw [hmd] at h'; cases h'
            · omega
        obtain ⟨g1, hg1, hcase⟩ := i1.hsome name g h0
        have hg1e : g1 = g := by
          rcases hcase with ⟨_, e⟩ | ⟨hc, _⟩
          · exact e
          · rw [hmd1] at hc; cases hc
        subst hg1e
        rw [hg1] at h
        dsimp only at h
        have := Except.ok.inj h
        obtain ⟨e1, e2⟩ := Prod.mk.inj this
        subst e1; subst e2
        dsimp only
        refine ⟨i2, i3, fun hf => (by cases hf), fun _ => ?_⟩
        exact i1.step h0 hp (by simpa using he) i4

theorem transform_rec (m minv : Affine) (p : String → Bool) (gs0 : GlyphSet) (rank : String → Nat)
    (hr : Ranked gs0 rank) (hm : (m == Affine.id) = false) :
    ∀ fuel, TGSpec m minv p gs0 rank fuel ∧ TBSpec m minv p gs0 rank fuel := by
  intro fuel
  induction fuel with
  | zero =>
    have h0 : TGSpec m minv p gs0 rank 0 := by
      intro st name st' r h; simp only [transformGlyph] at h; cases h
    exact ⟨h0, tbSpec_of_tgSpec m minv p gs0 rank 0 h0⟩
  | succ n ih =>
    have h1 := tgSpec_succ m minv p gs0 rank hr hm n ih.2
    exact ⟨h1, tbSpec_of_tgSpec m minv p gs0 rank (n + 1) h1⟩

/-! ### the loop of `BaseFilter.__call__` -/

/-- the traversal keeps the invariant, never un-marks a glyph, and every included non-empty glyph it visits ends up marked -/
theorem transformLoop_inv (m : Affine) (p : String → Bool) (gs0 : GlyphSet) (rank : String → Nat)
    (hr : Ranked gs0 rank) (hn : Named gs0) (hm : (m == Affine.id) = false) :
    ∀ (order : List String) (st st' : FState), filterLoop (transformStep m p) p order st = .ok st' →
      TInv m m.inverse p gs0 st.gs st.modified →
      TInv m m.inverse p gs0 st'.gs st'.modified ∧
      (∀ x, st.modified.contains x = true → st'.modified.contains x = true) ∧
      (∀ n ∈ order, ∀ g0, gs0.get? n = some g0 → p n = true → emptyG g0 = false → st'.modified.contains n = true) := by
  intro order
  induction order with
  | nil =>
    intro st st' h inv
    simp only [filterLoop] at h
    have := Except.ok.inj h; subst this
    exact ⟨inv, fun _ hx => hx, fun n hn' => (by cases hn')⟩
  | cons n ns ih =>
    intro st st' h inv
    unfold filterLoop at h
    by_cases hmod : st.modified.contains n = true
    · rw [if_pos hmod] at h
      obtain ⟨i1, i2, i3⟩ := ih st st' h inv
      refine ⟨i1, i2, ?_⟩
      intro n' hn'
      rcases mem_cons.mp hn' with e | hn'
      · intro _ _ _ _; rw [e]; exact i2 n hmod
      · exact i3 n' hn'
    · rw [if_neg hmod] at h
      have hmf : st.modified.contains n = false := by simpa using hmod
      cases hget : st.gs.get? n with
      | none => rw [hget] at h; cases h
      | some g =>
        rw [hget] at h
        dsimp only at h
        have h0 : gs0.get? n = some g := inv.get_unmodified hget hmf
        by_cases hi : p n = true
        · rw [if_pos hi] at h
          cases hs : transformStep m p st g with
          | error e => rw [hs] at h; cases h
          | ok res =>
            obtain ⟨st1, r⟩ := res
            rw [hs] at h
            dsimp only at h
            unfold transformStep at hs
            rw [hn n g h0] at hs
            obtain ⟨t1, t2, t3, t4⟩ := (transform_rec m m.inverse p gs0 rank hr hm _).1 st n st1 r hs inv hmf hi
            cases r with
            | true =>
              simp only [if_true] at h
              obtain ⟨i1, i2, i3⟩ := ih _ st' h (t4 rfl)
              dsimp only at i2
              refine ⟨i1, fun x hx => i2 x ((contains_addMod _ _ _).mpr (Or.inl (t1 x hx))), ?_⟩
              intro n' hn'
              rcases mem_cons.mp hn' with e | hn'
              · intro _ _ _ _; rw [e]; exact i2 n ((contains_addMod _ _ _).mpr (Or.inr rfl))
              · exact i3 n' hn'
            | false =>
              simp only [Bool.false_eq_true, if_false] at h
              obtain ⟨e1, e2⟩ := t3 rfl
              subst e1
              obtain ⟨i1, i2, i3⟩ := ih _ st' h inv
              refine ⟨i1, i2, ?_⟩
              intro n' hn'
              rcases mem_cons.mp hn' with e | hn'
              · intro g0 hg0 _ hne
                rw [e] at hg0
                rw [e2 g0 hg0] at hne; cases hne
              · exact i3 n' hn'
        · rw [if_neg hi] at h
          obtain ⟨i1, i2, i3⟩ := ih st st' h inv
          refine ⟨i1, i2, ?_⟩
          intro n' hn'
          rcases mem_cons.mp hn' with e | hn'
          · intro _ _ hp' _; rw [e] at hp'; exact absurd hp' hi
          · exact i3 n' hn'

/-- with the identity matrix `filter` returns False at once: nothing changes -/
theorem transformLoop_id (p : String → Bool) :
    ∀ (order : List String) (st st' : FState), filterLoop (transformStep Affine.id p) p order st = .ok st' → st' = st := by
  intro order
  induction order with
  | nil => intro st st' h; simp only [filterLoop] at h; exact (Except.ok.inj h).symm
  | cons n ns ih =>
    intro st st' h
    unfold filterLoop at h
    by_cases hmod : st.modified.contains n = true
    · rw [if_pos hmod] at h; exact ih st st' h
    · rw [if_neg hmod] at h
      cases hget : st.gs.get? n with
      | none => rw [hget] at h; cases h
      | some g =>
        rw [hget] at h
        dsimp only at h
        by_cases hi : p n = true
        · rw [if_pos hi] at h
          cases hs : transformStep Affine.id p st g with
          | error e => rw [hs] at h; cases h
          | ok res =>
            obtain ⟨st1, r⟩ := res
            rw [hs] at h
            dsimp only at h
            unfold transformStep transformGlyph at hs
            cases hg : st.gs.get? g.name with
            | none => rw [hg] at hs; cases hs
            | some g2 =>
              rw [hg] at hs
              have hid : (Affine.id == Affine.id) = true := by simp
              simp only [hid, Bool.true_or, if_true] at hs
              have := Except.ok.inj hs
              obtain ⟨e1, e2⟩ := Prod.mk.inj this
              subst e1; subst e2
              simp only [Bool.false_eq_true, if_false] at h
              exact ih st st' h
        · rw [if_neg hi] at h; exact ih st st' h

/-! ### what the rewritten glyph set draws -/

/-- contours already mapped by an orientation-preserving `m` and then drawn under `T` = the original contours drawn under
    `T ∘ m` (same direction decision, same points) -/
theorem drawContours_map_pos (m T : Affine) (hm : 0 < m.det) (cs : List Contour) :
    drawContours true T (cs.map (Contour.map m)) = drawContours true (T.compose m) cs := by
  simp only [drawContours, List.map_map, Bool.true_and]
  apply List.map_congr_left
  intro c _
  simp only [Function.comp]
  have hd : (T.compose m).det < 0 ↔ T.det < 0 := by
    rw [Affine.det_compose, Rat.mul_neg_iff_of_pos_right hm]
  by_cases h : T.det < 0
  · simp only [hd.mpr h, h, decide_true, if_true]
    rw [reverseContour_map, Contour.map_compose]
  · have : ¬ (T.compose m).det < 0 := fun h' => h (hd.mp h')
    simp only [this, h, decide_false, Bool.false_eq_true, if_false]
    rw [Contour.map_compose]

/-- the algebra behind "applied once, not twice": the compensated component matrix followed by the base's own `m` -/
theorem compensate_compose (T m t : Affine) (h : m.det ≠ 0) :
    (T.compose (m.compose (t.compose m.inverse))).compose m = (T.compose m).compose t := by
  rw [Affine.compose_assoc, Affine.compose_assoc, Affine.compose_assoc, Affine.inverse_compose m h,
    Affine.compose_id, Affine.compose_assoc]

/-- a set of names closed under "is a component of", none of them included, containing every non-included component base
    of an included glyph: the certificate form of convexity of the include set -/
structure CleanSet (gs0 : GlyphSet) (p : String → Bool) (C : String → Prop) : Prop where
  notIncl : ∀ c, C c → p c = false
  closed : ∀ c g k, C c → gs0.get? c = some g → k ∈ g.comps → C k.base
  border : ∀ a g k, gs0.get? a = some g → p a = true → k ∈ g.comps → p k.base = false → C k.base

/-- **the rendering invariant**: in a state satisfying `TInv`, a rewritten glyph draws, under ANY outer transform `T`, what
    its original drew under `T ∘ m`; a glyph of the clean set, or an empty glyph, draws what it drew. -/
theorem render_transformed (m : Affine) (p : String → Bool) (gs0 gs : GlyphSet) (md : List String)
    (hm : 0 < m.det) (inv : TInv m m.inverse p gs0 gs md) (C : String → Prop) (hC : CleanSet gs0 p C) :
    ∀ f,
      (∀ n g0 g T, gs0.get? n = some g0 → gs.get? n = some g → md.contains n = true →
        render f gs T g = render f gs0 (T.compose m) g0) ∧
      (∀ n g0 g T, gs0.get? n = some g0 → gs.get? n = some g → (C n ∨ emptyG g0 = true) →
        render f gs T g = render f gs0 T g0) := by
  have hdet : m.det ≠ 0 := by intro h; rw [h] at hm; exact absurd hm (by decide)
  intro f
  induction f with
  | zero => exact ⟨fun _ _ _ _ _ _ _ => by simp [render], fun _ _ _ _ _ _ _ => by simp [render]⟩
  | succ f ih =>
    obtain ⟨ih1, ih2⟩ := ih
    constructor
    · intro n g0 g T h0 hg hmd
      obtain ⟨g1, hg1, hcase⟩ := inv.hsome n g0 h0
      rw [hg] at hg1
      have e := Option.some.inj hg1
      subst e
      rcases hcase with ⟨hc, _⟩ | ⟨_, hp, _, md0, e2, hks⟩
      · rw [hmd] at hc; cases hc
      · subst e2
        rw [render_succ, render_succ]
        congr 1
        · exact drawContours_map_pos m T hm g0.contours
        · simp only [transformBody]
          rw [List.flatMap_map]
          apply flatMap_congr'
          intro k hk
          simp only [renderOne]
          cases hb0 : gs0.get? k.base with
          | none => rw [inv.hnone _ hb0]
          | some b0 =>
            obtain ⟨b, hb, _⟩ := inv.hsome k.base b0 hb0
            rw [hb]
            dsimp only
            by_cases hc : md0.contains k.base = true
            · rw [if_pos hc]
              rw [ih1 k.base b0 b _ hb0 hb ((hks k hk).1 hc), compensate_compose T m k.t hdet]
            · rw [if_neg hc]
              have hu : Untouch gs0 p k.base := (hks k hk).2 (by simpa using hc)
              have hcl : C k.base ∨ emptyG b0 = true := by
                rcases hu with h | ⟨b0', hb0', he⟩
                · exact Or.inl (hC.border n g0 k h0 hp hk h)
                · rw [hb0] at hb0'; rw [Option.some.inj hb0']; exact Or.inr he
              rw [ih2 k.base b0 b _ hb0 hb hcl, Affine.compose_assoc]
    · intro n g0 g T h0 hg hcl
      obtain ⟨g1, hg1, hcase⟩ := inv.hsome n g0 h0
      rw [hg] at hg1
      have e := Option.some.inj hg1
      subst e
      have hgg : g = g0 := by
        rcases hcase with ⟨_, e⟩ | ⟨_, hp, hne, _⟩
        · exact e
        · rcases hcl with h | h
          · rw [hC.notIncl n h] at hp; cases hp
          · rw [h] at hne; cases hne
      subst hgg
      rw [render_succ, render_succ]
      congr 1
      apply flatMap_congr'
      intro k hk
      rcases hcl with h | h
      · have hck : C k.base := hC.closed n g k h h0 hk
        simp only [renderOne]
        cases hb0 : gs0.get? k.base with
        | none => rw [inv.hnone _ hb0]
        | some b0 =>
          obtain ⟨b, hb, _⟩ := inv.hsome k.base b0 hb0
          rw [hb]
          exact ih2 k.base b0 b _ hb0 hb (Or.inl hck)
      · unfold emptyG at h
        simp only [Bool.and_eq_true, List.isEmpty_iff] at h
        rw [h.1.2] at hk; cases hk

/-- an orientation-preserving matrix `m` composed on the OUTSIDE of a resolved outline maps every point by `m` and changes
    nothing else (order, types, direction).  (Also exported as `C15.render_compose_pos`.) -/
theorem render_compose_pos (gs : GlyphSet) (m : Affine) (hm : 0 < m.det) :
    ∀ (f : Nat) (t : Affine) (g : Glyph),
      render f gs (m.compose t) g = (render f gs t g).map (Contour.map m) := by
  intro f
  induction f with
  | zero => intro t g; simp [render]
  | succ f ih =>
    intro t g
    rw [render_succ, render_succ, List.map_append]
    congr 1
    · simp only [drawContours, List.map_map, Bool.true_and]
      apply List.map_congr_left
      intro c _
      have hd : (m.compose t).det < 0 ↔ t.det < 0 := by
        rw [Affine.det_compose, Rat.mul_neg_iff_of_pos_left hm]
      simp only [Function.comp]
      by_cases h : t.det < 0
      · simp only [hd.mpr h, h, decide_true, if_true]; rw [Contour.map_compose]
      · have : ¬ (m.compose t).det < 0 := fun h' => h (hd.mp h')
        simp only [this, h, decide_false, Bool.false_eq_true, if_false]; rw [Contour.map_compose]
    · rw [List.map_flatMap]
      apply flatMap_congr'
      intro k _
      simp only [renderOne]
      cases gs.get? k.base with
      | none => rfl
      | some b => simp only [Affine.compose_assoc]; exact ih _ b

/-! ### convexity of the include set -/

/-- `c` is reachable from `a` along component references (reflexive, transitive) -/
inductive Reaches (gs : GlyphSet) : String → String → Prop
  | refl (a : String) : Reaches gs a a
  | tail {a c : String} {g : Glyph} {k : Comp} :
      Reaches gs a c → gs.get? c = some g → k ∈ g.comps → Reaches gs a k.base

/-- the include set is *convex*: no included glyph reaches an included glyph through a non-included one — i.e. below a
    non-included component of an included glyph nothing is included -/
def IncludeConvex (gs : GlyphSet) (p : String → Bool) : Prop :=
  ∀ a g k c, gs.get? a = some g → p a = true → k ∈ g.comps → p k.base = false → Reaches gs k.base c → p c = false

theorem cleanSet_of_convex (gs : GlyphSet) (p : String → Bool) (h : IncludeConvex gs p) :
    CleanSet gs p (fun c => ∃ a g k, gs.get? a = some g ∧ p a = true ∧ k ∈ g.comps ∧ p k.base = false ∧
      Reaches gs k.base c) :=
  ⟨fun c ⟨a, g, k, h1, h2, h3, h4, h5⟩ => h a g k c h1 h2 h3 h4 h5,
   fun _ _ _ ⟨a, g, k, h1, h2, h3, h4, h5⟩ hg' hk' => ⟨a, g, k, h1, h2, h3, h4, Reaches.tail h5 hg' hk'⟩,
   fun a g k h1 h2 h3 h4 => ⟨a, g, k, h1, h2, h3, h4, Reaches.refl _⟩⟩

/-- convexity can be certified by exhibiting any clean set (this is how concrete instances are checked) -/
theorem convex_of_cleanSet (gs : GlyphSet) (p : String → Bool) (C : String → Prop) (hC : CleanSet gs p C) :
    IncludeConvex gs p := by
  intro a g k c h1 h2 h3 h4 h5
  have : C c := by
    induction h5 with
    | refl => exact hC.border a g k h1 h2 h3 h4
    | tail _ hg hk ih => exact hC.closed _ _ _ ih hg hk
  exact hC.notIncl c this

/-- include = everything is convex -/
theorem includeConvex_all (gs : GlyphSet) : IncludeConvex gs (fun _ => true) := by
  intro a g k c _ _ _ h4; cases h4

/-! ### the theorems about the whole filter -/

/-- `g'` (in `gs'`) is `g` (in `gs`) mapped by exactly `m` -/
structure MappedBy (m : Affine) (gs gs' : GlyphSet) (g g' : Glyph) : Prop where
  /-- composable form: under any outer transform `T` and any fuel, `g'` draws what `g` drew under `T ∘ m` -/
  compose : ∀ f T, render f gs' T g' = render f gs (T.compose m) g
  /-- the resolved outline is the old resolved outline with every point mapped by `m`: same contours, order, types, direction -/
  outline : renderGlyph gs' g' = (renderGlyph gs g).map (Contour.map m)
  anchors : g'.anchors = g.anchors.map (fun a => let p := m.apply (a.x, a.y); { a with x := p.1, y := p.2 })
  advance : (g'.width, g'.height) = m.applyVec (g.width, g.height)

theorem mappedBy_id (gs : GlyphSet) (g : Glyph) : MappedBy Affine.id gs gs g g := by
  refine ⟨?_, ?_, ?_, ?_⟩
  · intro f T; rw [Affine.compose_id]
  · rw [List.map_congr_left (g := fun c => c) (fun c _ => Contour.map_id c)]; simp
  · rw [List.map_congr_left (g := fun a => a) (fun a _ => by simp only [Affine.apply_id])]; simp
  · simp only [Affine.applyVec, Affine.id]; ext <;> simp <;> grind

/-- **Target 2 — TransformationsFilter with a convex include set.**  For every acyclic glyph set whose keys are its glyph
    names, every matrix `m` with positive determinant and every convex include predicate `p`: if the filter run succeeds then
    the key list is unchanged and, for every glyph `n`,
    * if `n` is included and not empty, the new glyph is the old one `MappedBy` exactly `m` (resolved outline with every
      point mapped once — bases and composites both included —, anchors, advance vector);
    * otherwise the glyph record is unchanged. -/
theorem transform_convex (m : Affine) (p : String → Bool) (gs : GlyphSet) (rank : String → Nat)
    (hr : Ranked gs rank) (hn : Named gs) (hm : 0 < m.det) (hc : IncludeConvex gs p) (st : FState)
    (h : runFilter (transformStep m p) p gs = .ok st) :
    st.gs.names = gs.names ∧
    ∀ n g, gs.get? n = some g → ∃ g', st.gs.get? n = some g' ∧
      ((p n = true ∧ emptyG g = false) → MappedBy m gs st.gs g g') ∧
      (¬ (p n = true ∧ emptyG g = false) → g' = g) := by
  unfold runFilter at h
  cases ho : orderedGlyphs gs with
  | error e => rw [ho] at h; cases h
  | ok order =>
    rw [ho] at h
    dsimp only at h
    by_cases hid : m = Affine.id
    · subst hid
      have := transformLoop_id p order _ st h
      subst this
      exact ⟨rfl, fun n g hg => ⟨g, hg, fun _ => mappedBy_id gs g, fun _ => rfl⟩⟩
    · have hid' : (m == Affine.id) = false := by simpa using hid
      obtain ⟨inv, _, hall⟩ := transformLoop_inv m p gs rank hr hn hid' order _ st h (TInv.init m m.inverse p gs)
      refine ⟨inv.hnames, ?_⟩
      intro n g hg
      have hmem : n ∈ order := C01.orderedGlyphs_mem gs order ho n g hg
      obtain ⟨g', hg', hcase⟩ := inv.hsome n g hg
      refine ⟨g', hg', ?_⟩
      rcases hcase with ⟨hc1, e⟩ | ⟨hc1, hp, hne, md0, e, _⟩
      · refine ⟨fun hh => ?_, fun _ => e⟩
        rw [hall n hmem g hg hh.1 hh.2] at hc1; cases hc1
      · refine ⟨fun _ => ?_, fun hh => absurd ⟨hp, hne⟩ hh⟩
        have R := render_transformed m p gs st.gs st.modified hm inv _ (cleanSet_of_convex gs p hc)
        refine ⟨fun f T => (R f).1 n g g' T hg hg' hc1, ?_, by rw [e]; rfl, by rw [e]; rfl⟩
        unfold renderGlyph
        rw [(R _).1 n g g' _ hg hg' hc1, names_length inv.hnames, Affine.id_compose]
        have := render_compose_pos gs m hm (gs.length + 2) Affine.id g
        rw [Affine.compose_id] at this
        exact this

/-- **Target 1 — include = everything** (the default): every non-empty glyph is mapped by exactly `m`, empty glyphs are
    unchanged; no hypothesis on the include set. -/
theorem transform_all (m : Affine) (gs : GlyphSet) (rank : String → Nat)
    (hr : Ranked gs rank) (hn : Named gs) (hm : 0 < m.det) (st : FState)
    (h : runFilter (transformStep m (fun _ => true)) (fun _ => true) gs = .ok st) :
    st.gs.names = gs.names ∧
    ∀ n g, gs.get? n = some g → ∃ g', st.gs.get? n = some g' ∧
      (emptyG g = false → MappedBy m gs st.gs g g') ∧ (emptyG g = true → g' = g) := by
  obtain ⟨h1, h2⟩ := transform_convex m (fun _ => true) gs rank hr hn hm (includeConvex_all gs) st h
  refine ⟨h1, fun n g hg => ?_⟩
  obtain ⟨g', hg', a, b⟩ := h2 n g hg
  exact ⟨g', hg', fun he => a ⟨rfl, he⟩, fun he => b (fun hh => by rw [he] at hh; cases hh.2)⟩

/-! ### non-vacuity, and the counterexample without convexity

`gs3`: A → B → C (C has one contour), matrix = scale by 2.  The model is evaluated by `simp` on these concrete inputs. -/

def sc2 : Affine := ⟨2, 0, 0, 2, 0, 0⟩
def dot : Contour := [⟨1, 0, some .line⟩]
def gA : Glyph := ⟨"A", 500, 0, [], [⟨"B", Affine.id⟩], []⟩
def gB : Glyph := ⟨"B", 500, 0, [], [⟨"C", Affine.id⟩], []⟩
def gC : Glyph := ⟨"C", 500, 0, [dot], [], []⟩
def gs3 : GlyphSet := [("A", gA), ("B", gB), ("C", gC)]
def rank3 (n : String) : Nat := if n = "A" then 2 else if n = "B" then 1 else 0

theorem gs3_cases {P : String → Glyph → Prop} (n : String) (g : Glyph) (h : gs3.get? n = some g)
    (ha : P "A" gA) (hb : P "B" gB) (hc : P "C" gC) : P n g := by
  simp only [gs3, GlyphSet.get?, alookup] at h
  split at h
  · cases h; rename_i e; have : n = "A" := (by simpa using e : _ = n).symm
    subst this; exact ha
  · split at h
    · cases h; rename_i e; have : n = "B" := (by simpa using e : _ = n).symm
      subst this; exact hb
    · split at h
      · cases h; rename_i e; have : n = "C" := (by simpa using e : _ = n).symm
        subst this; exact hc
      · cases h

theorem gs3_ranked : Ranked gs3 rank3 := by
  intro n g h
  refine gs3_cases (P := fun n g => ∀ k ∈ g.comps, rank3 k.base < rank3 n) n g h ?_ ?_ ?_
  · intro k hk; simp only [gA, mem_singleton] at hk; subst hk; decide
  · intro k hk; simp only [gB, mem_singleton] at hk; subst hk; decide
  · intro k hk; cases hk

theorem gs3_named : Named gs3 := by
  intro n g h
  exact gs3_cases (P := fun n g => g.name = n) n g h rfl rfl rfl

theorem sc2_det : 0 < sc2.det := by simp only [sc2, Affine.det]; grind

theorem gs3_order : orderedGlyphs gs3 = .ok ["A", "B", "C"] := by
  simp [orderedGlyphs, depthsOf, maxComponentDepth, depthGlyph, depthComps, gs3, gA, gB, gC, GlyphSet.get?, alookup]
  rw [List.mergeSort_of_pairwise (by simp)]
  rfl

/-- the model run on `gs3`, everything included: A and B get the compensated matrix `m ∘ (id ∘ m⁻¹)`, C's points are scaled -/
theorem gs3_run_all : runFilter (transformStep sc2 (fun _ => true)) (fun _ => true) gs3 =
    .ok ⟨[("A", ⟨"A", 1000, 0, [], [⟨"B", Affine.id⟩], []⟩), ("B", ⟨"B", 1000, 0, [], [⟨"C", Affine.id⟩], []⟩),
          ("C", ⟨"C", 1000, 0, [[⟨2, 0, some .line⟩]], [], []⟩)], ["C", "B", "A"], []⟩ := by
  unfold runFilter
  rw [gs3_order]
  simp [filterLoop, transformStep, transformGlyph, transformBases, gs3, gA, gB, gC, dot, GlyphSet.get?, alookup, sc2,
    Affine.id, addMod, transformBody, GlyphSet.set, Affine.applyVec, Affine.compose, Affine.apply, Affine.inverse,
    Affine.det, Contour.map, Pt.map]
  grind

/-- non-vacuity of `transform_all`: its hypotheses hold of `gs3` with scale 2, and it yields that the composite-of-composite
    `A` (whose base chain B, C was rewritten too) is mapped exactly once -/
example : ∃ st gA', runFilter (transformStep sc2 (fun _ => true)) (fun _ => true) gs3 = .ok st ∧
    st.gs.get? "A" = some gA' ∧ MappedBy sc2 gs3 st.gs gA gA' := by
  refine ⟨_, _, gs3_run_all, rfl, ?_⟩
  obtain ⟨_, h⟩ := transform_all sc2 gs3 rank3 gs3_ranked gs3_named sc2_det _ gs3_run_all
  obtain ⟨g', hg', hmap, _⟩ := h "A" gA rfl
  have e : g' = _ := (Option.some.inj hg').symm
  rw [e] at hmap
  exact hmap rfl

/-- include = {A, B}: C is a non-included base below included composites — a convex include set -/
def pAB (n : String) : Bool := n == "A" || n == "B"

theorem gs3_convex_AB : IncludeConvex gs3 pAB := by
  apply convex_of_cleanSet gs3 pAB (fun c => c = "C")
  refine ⟨?_, ?_, ?_⟩
  · intro c hc; subst hc; decide
  · intro c g k hc hg hk
    subst hc
    have : g = gC := by simpa [gs3, GlyphSet.get?, alookup] using hg.symm
    subst this; cases hk
  · intro a g k hg
    refine gs3_cases (P := fun a g => pAB a = true → k ∈ g.comps → pAB k.base = false → k.base = "C") a g hg ?_ ?_ ?_
    · intro _ hk hp; simp only [gA, mem_singleton] at hk; subst hk; revert hp; decide
    · intro _ hk _; simp only [gB, mem_singleton] at hk; subst hk; rfl
    · intro hp; exact absurd hp (by decide)

theorem gs3_run_AB : runFilter (transformStep sc2 pAB) pAB gs3 =
    .ok ⟨[("A", ⟨"A", 1000, 0, [], [⟨"B", Affine.id⟩], []⟩), ("B", ⟨"B", 1000, 0, [], [⟨"C", sc2⟩], []⟩), ("C", gC)],
          ["B", "A"], []⟩ := by
  unfold runFilter
  rw [gs3_order]
  simp [filterLoop, transformStep, transformGlyph, transformBases, gs3, gA, gB, gC, dot, GlyphSet.get?, alookup, sc2, pAB,
    Affine.id, addMod, transformBody, GlyphSet.set, Affine.applyVec, Affine.compose, Affine.apply, Affine.inverse,
    Affine.det]
  grind

/-- non-vacuity of `transform_convex` with a proper include set -/
example : ∃ st gA', runFilter (transformStep sc2 pAB) pAB gs3 = .ok st ∧
    st.gs.get? "A" = some gA' ∧ MappedBy sc2 gs3 st.gs gA gA' ∧ st.gs.get? "C" = some gC := by
  refine ⟨_, _, gs3_run_AB, rfl, ?_, rfl⟩
  obtain ⟨_, h⟩ := transform_convex sc2 pAB gs3 rank3 gs3_ranked gs3_named sc2_det gs3_convex_AB _ gs3_run_AB
  obtain ⟨g', hg', hmap, _⟩ := h "A" gA rfl
  have e : g' = _ := (Option.some.inj hg').symm
  rw [e] at hmap
  exact hmap ⟨rfl, rfl⟩

/-- include = {A, C}: A reaches the included C through the non-included B — NOT convex -/
def pAC (n : String) : Bool := n == "A" || n == "C"

theorem gs3_not_convex_AC : ¬ IncludeConvex gs3 pAC := by
  intro h
  have := h "A" gA ⟨"B", Affine.id⟩ "C" rfl (by decide) (by simp [gA]) (by decide)
    (Reaches.tail (Reaches.refl "B") (g := gB) (k := ⟨"C", Affine.id⟩) rfl (by simp [gB]))
  revert this; decide

theorem gs3_run_AC : runFilter (transformStep sc2 pAC) pAC gs3 =
    .ok ⟨[("A", ⟨"A", 1000, 0, [], [⟨"B", sc2⟩], []⟩), ("B", gB), ("C", ⟨"C", 1000, 0, [[⟨2, 0, some .line⟩]], [], []⟩)],
          ["A", "C"], []⟩ := by
  unfold runFilter
  rw [gs3_order]
  simp [filterLoop, transformStep, transformGlyph, transformBases, gs3, gA, gB, gC, dot, GlyphSet.get?, alookup, sc2, pAC,
    Affine.id, addMod, transformBody, GlyphSet.set, Affine.applyVec, Affine.compose, Affine.apply, Contour.map, Pt.map]
  grind

/-- **known finding, as a theorem**: without convexity the statement is FALSE.  With include = {A, C} and A → B → C the
    filter scales A's resolved outline by 4 instead of 2 (B is skipped, so A's component is not compensated, yet C below
    B is rewritten): the conclusion of `transform_convex` fails for A although every other hypothesis holds. -/
theorem transform_nonconvex_counterexample :
    ¬ (∀ (m : Affine) (p : String → Bool) (gs : GlyphSet) (rank : String → Nat) (st : FState),
        Ranked gs rank → Named gs → 0 < m.det → runFilter (transformStep m p) p gs = .ok st →
        ∀ n g g', gs.get? n = some g → st.gs.get? n = some g' → p n = true → emptyG g = false →
          renderGlyph st.gs g' = (renderGlyph gs g).map (Contour.map m)) := by
  intro H
  have := H sc2 pAC gs3 rank3 _ gs3_ranked gs3_named sc2_det gs3_run_AC "A" gA _ rfl rfl (by decide) (by decide)
  revert this
  simp [renderGlyph, render, renderComps, gs3, gA, gB, gC, dot, GlyphSet.get?, alookup, sc2, Affine.id,
    Affine.compose, Affine.apply, Contour.map, Pt.map, reverseContour, retype, firstOnCurve]
  grind

end Ufo2ft
