import Ufo2ftModel.Props.C05ApplyParts
import Ufo2ftModel.Props.C05ApplyBuckets
/-! C05 end-to-end, layer C3: the direction cells of a part — what their sides and script key are made of, coherence of classes,
    uniqueness of the cell that contains a glyph pair, and: a cell's script key is written in one direction. -/
namespace Ufo2ft.C05
open Ufo2ft List

/-- Prop form of `ctxOK` -/
structure CtxOK (c : Ctx) (gs : List String) : Prop where
  auto : c.dir COMMON = "Auto"
  notAuto : ∀ g ∈ gs, ∀ s ∈ c.resolved g, s = COMMON ∨ c.dir s ≠ "Auto"
  uni : ∀ g ∈ gs, uniDir c g

theorem ctxOK_of (c : Ctx) (gs : List String) (h : ctxOK c gs = true) : CtxOK c gs := by
  unfold ctxOK at h
  simp only [Bool.and_eq_true, beq_iff_eq, all_eq_true, Bool.or_eq_true, bne_iff_ne, ne_eq] at h
  obtain ⟨h1, h2⟩ := h
  refine ⟨h1, ?_, ?_⟩
  · intro g hg s hs; exact (h2 g hg s hs).1
  · intro g hg s hs s' hs'; exact (h2 g hg s hs).2 s' hs'

/-- what a direction cell is made of -/
theorem cell_info (c : Ctx) (p : KPair) (k : List String) (sp : KPair) (h : (k, sp) ∈ partitionByScript c p) :
    ∃ e1 ∈ sideDirections c p.side1.glyphs, ∃ e2 ∈ sideDirections c p.side2.glyphs,
      sp.side1 = (if p.side1.isClass then Side.cls (sortStr e1.2) else Side.glyph (e1.2.headD "")) ∧
      sp.side2 = (if p.side2.isClass then Side.cls (sortStr e2.2) else Side.glyph (e2.2.headD "")) ∧
      sp.value = p.value ∧ ¬(e1.1 ≠ e2.1 ∧ e1.1 ≠ "Auto" ∧ e2.1 ≠ "Auto") ∧
      (∀ x ∈ sp.side1.glyphs, x ∈ e1.2) ∧ (∀ x ∈ sp.side2.glyphs, x ∈ e2.2) := by
  rw [partitionByScript_eq, mem_filterMap] at h
  obtain ⟨⟨e1, e2⟩, he, hc⟩ := h
  rw [mem_product] at he
  obtain ⟨h1, h2, h3, h4⟩ := cellOf_some c p (e1, e2) k sp hc
  dsimp only at h1 h2 h4
  obtain ⟨n1, _⟩ := (sideDirections_spec c p.side1.glyphs).2 e1 he.1
  obtain ⟨n2, _⟩ := (sideDirections_spec c p.side2.glyphs).2 e2 he.2
  exact ⟨e1, he.1, e2, he.2, h1, h2, h3, h4, fun g hg => local_sub _ e1.2 n1 g (h1 ▸ hg), fun g hg => local_sub _ e2.2 n2 g (h2 ▸ hg)⟩

/-- a cell's sides are of the kind of, and inside, the part's sides; every glyph of a side has a script of the side's direction -/
theorem cell_sides (c : Ctx) (p : KPair) (k : List String) (sp : KPair) (h : (k, sp) ∈ partitionByScript c p) :
    sp.side1.isClass = p.side1.isClass ∧ sp.side2.isClass = p.side2.isClass ∧
    (∀ x ∈ sp.side1.glyphs, x ∈ p.side1.glyphs) ∧ (∀ x ∈ sp.side2.glyphs, x ∈ p.side2.glyphs) := by
  obtain ⟨e1, he1, e2, he2, h1, h2, _, _, m1, m2⟩ := cell_info c p k sp h
  refine ⟨by rw [h1, isClass_local], by rw [h2, isClass_local], ?_, ?_⟩
  · intro x hx; exact (((sideDirections_spec c p.side1.glyphs).2 e1 he1).2 x (m1 x hx)).1
  · intro x hx; exact (((sideDirections_spec c p.side2.glyphs).2 e2 he2).2 x (m2 x hx)).1

theorem cell_level (c : Ctx) (p : KPair) (k : List String) (sp : KPair) (h : (k, sp) ∈ partitionByScript c p) : level sp = level p := by
  obtain ⟨a, b, _, _⟩ := cell_sides c p k sp h
  simp only [level, a, b]

theorem cell_matches (c : Ctx) (p : KPair) (k : List String) (sp : KPair) (h : (k, sp) ∈ partitionByScript c p) (g1 g2 : String)
    (hm : Matches sp g1 g2) : Matches p g1 g2 := by
  obtain ⟨_, _, a, b⟩ := cell_sides c p k sp h
  exact ⟨a g1 hm.1, b g2 hm.2⟩

/-- two cells (of parts with the same first side) whose first sides share a single-direction glyph have the same first side -/
theorem cell_coherent1 (c : Ctx) (p p' : KPair) (k k' : List String) (sp sp' : KPair) (h : (k, sp) ∈ partitionByScript c p)
    (h' : (k', sp') ∈ partitionByScript c p') (hs : p.side1 = p'.side1) (x : String) (hu : uniDir c x)
    (hx : x ∈ sp.side1.glyphs) (hx' : x ∈ sp'.side1.glyphs) : sp.side1 = sp'.side1 := by
  obtain ⟨e1, he1, _, _, h1, _, _, _, m1, _⟩ := cell_info c p k sp h
  obtain ⟨e1', he1', _, _, h1', _, _, _, m1', _⟩ := cell_info c p' k' sp' h'
  rw [← hs] at he1' h1'
  have spec := sideDirections_spec c p.side1.glyphs
  obtain ⟨s, hs1, hd⟩ := ((spec.2 e1 he1).2 x (m1 x hx)).2
  obtain ⟨s', hs1', hd'⟩ := ((spec.2 e1' he1').2 x (m1' x hx')).2
  have hk : e1.1 = e1'.1 := by rw [← hd, ← hd']; exact hu s hs1 s' hs1'
  have : e1 = e1' := map_nodup_inj (·.1) _ spec.1 e1 e1' he1 he1' hk
  rw [h1, h1', this]

theorem cell_coherent2 (c : Ctx) (p p' : KPair) (k k' : List String) (sp sp' : KPair) (h : (k, sp) ∈ partitionByScript c p)
    (h' : (k', sp') ∈ partitionByScript c p') (hs : p.side2 = p'.side2) (x : String) (hu : uniDir c x)
    (hx : x ∈ sp.side2.glyphs) (hx' : x ∈ sp'.side2.glyphs) : sp.side2 = sp'.side2 := by
  obtain ⟨_, _, e2, he2, _, h2, _, _, _, m2⟩ := cell_info c p k sp h
  obtain ⟨_, _, e2', he2', _, h2', _, _, _, m2'⟩ := cell_info c p' k' sp' h'
  rw [← hs] at he2' h2'
  have spec := sideDirections_spec c p.side2.glyphs
  obtain ⟨s, hs1, hd⟩ := ((spec.2 e2 he2).2 x (m2 x hx)).2
  obtain ⟨s', hs1', hd'⟩ := ((spec.2 e2' he2').2 x (m2' x hx')).2
  have hk : e2.1 = e2'.1 := by rw [← hd, ← hd']; exact hu s hs1 s' hs1'
  have : e2 = e2' := map_nodup_inj (·.1) _ spec.1 e2 e2' he2 he2' hk
  rw [h2, h2', this]

theorem pairwise_mem {α : Type} (R : α → α → Prop) : ∀ (l : List α), l.Pairwise R → ∀ a b, a ∈ l → b ∈ l → a = b ∨ R a b ∨ R b a := by
  intro l
  induction l with
  | nil => intro _ a b ha; cases ha
  | cons y ys ih =>
    intro hp a b ha hb
    rw [pairwise_cons] at hp
    rcases mem_cons.mp ha with ha' | ha' <;> rcases mem_cons.mp hb with hb' | hb'
    · left; rw [ha', hb']
    · subst ha'; exact Or.inr (Or.inl (hp.1 b hb'))
    · subst hb'; exact Or.inr (Or.inr (hp.1 a ha'))
    · exact ih hp.2 a b ha' hb'

/-- at most one cell of a part contains a given pair of single-direction glyphs -/
theorem cell_unique (c : Ctx) (p : KPair) (g1 g2 : String) (u1 : uniDir c g1) (u2 : uniDir c g2)
    (x x' : List String × KPair) (hx : x ∈ partitionByScript c p) (hx' : x' ∈ partitionByScript c p)
    (hm : Matches x.2 g1 g2) (hm' : Matches x'.2 g1 g2) : x = x' := by
  rcases pairwise_mem _ _ (partition_disjoint c p g1 g2 u1 u2) x x' hx hx' with h | h | h
  · exact h
  · exact absurd ⟨hm, hm'⟩ h
  · exact absurd ⟨hm', hm⟩ h

/-! ### the script key of a cell -/

/-- every script of a cell's key is a script of a glyph of one of its sides; Common only if it is on both sides -/
theorem key_sub (c : Ctx) (p : KPair) (k : List String) (sp : KPair) (h : (k, sp) ∈ partitionByScript c p) :
    (∀ s ∈ k, (∃ g ∈ sp.side1.glyphs, s ∈ c.resolved g) ∨ (∃ g ∈ sp.side2.glyphs, s ∈ c.resolved g)) ∧
    (COMMON ∈ k → (∃ g ∈ sp.side1.glyphs, COMMON ∈ c.resolved g) ∧ (∃ g ∈ sp.side2.glyphs, COMMON ∈ c.resolved g)) := by
  rw [partitionByScript_eq, mem_filterMap] at h
  obtain ⟨e, _, hc⟩ := h
  unfold cellOf at hc
  dsimp only at hc
  generalize (if p.side1.isClass then Side.cls (sortStr e.1.2) else Side.glyph (e.1.2.headD "")) = L1 at hc
  generalize (if p.side2.isClass then Side.cls (sortStr e.2.2) else Side.glyph (e.2.2.headD "")) = L2 at hc
  by_cases hmix : (e.1.1 != e.2.1 && e.1.1 != "Auto" && e.2.1 != "Auto") = true
  · rw [if_pos hmix] at hc; cases hc
  · rw [if_neg hmix] at hc
    simp only [Option.some.injEq, Prod.mk.injEq] at hc
    obtain ⟨hk, hsp⟩ := hc
    subst hsp
    dsimp only
    have in1 : ∀ s, s ∈ L1.glyphs.foldl (fun acc g => unionStr acc (c.resolved g)) [] → ∃ g ∈ L1.glyphs, s ∈ c.resolved g := by
      intro s hs
      rcases (mem_foldl_union c s _ []).mp hs with h | h
      · cases h
      · exact h
    have in2 : ∀ s, s ∈ L2.glyphs.foldl (fun acc g => unionStr acc (c.resolved g)) [] → ∃ g ∈ L2.glyphs, s ∈ c.resolved g := by
      intro s hs
      rcases (mem_foldl_union c s _ []).mp hs with h | h
      · cases h
      · exact h
    generalize L1.glyphs.foldl (fun acc g => unionStr acc (c.resolved g)) [] = S1 at hk in1
    generalize L2.glyphs.foldl (fun acc g => unionStr acc (c.resolved g)) [] = S2 at hk in2
    subst hk
    constructor
    · intro s hs
      rw [mem_sortStr] at hs
      have hu : s ∈ unionStr S1 S2 := by
        split at hs
        · exact hs
        · exact (mem_filter.mp hs).1
      rcases (mem_unionStr _ _ s).mp hu with h | h
      · exact Or.inl (in1 s h)
      · exact Or.inr (in2 s h)
    · intro hs
      rw [mem_sortStr] at hs
      split at hs
      · rename_i hb
        simp only [Bool.and_eq_true, contains_iff_mem] at hb
        exact ⟨in1 _ hb.1, in2 _ hb.2⟩
      · have := (mem_filter.mp hs).2
        simp at this

/-- with the Unicode context as fontTools supplies it, the script key of a cell (of a part whose glyphs are glyphs of the font)
    is written in one direction -/
theorem key_uni (c : Ctx) (gs : List String) (ok : CtxOK c gs) (p : KPair) (hgs1 : ∀ x ∈ p.side1.glyphs, x ∈ gs)
    (hgs2 : ∀ x ∈ p.side2.glyphs, x ∈ gs) (k : List String) (sp : KPair) (h : (k, sp) ∈ partitionByScript c p) : Uni c k := by
  obtain ⟨e1, he1, e2, he2, _, _, _, hcompat, m1, m2⟩ := cell_info c p k sp h
  obtain ⟨ksub, kcommon⟩ := key_sub c p k sp h
  have spec1 := (sideDirections_spec c p.side1.glyphs).2 e1 he1
  have spec2 := (sideDirections_spec c p.side2.glyphs).2 e2 he2
  -- every script of a glyph of side 1 has direction e1.1; of side 2, e2.1
  have d1 : ∀ g ∈ sp.side1.glyphs, ∀ s ∈ c.resolved g, c.dir s = e1.1 := by
    intro g hg s hs
    obtain ⟨hG, s0, hs0, hd0⟩ := spec1.2 g (m1 g hg)
    rw [← hd0]; exact ok.uni g (hgs1 g hG) s hs s0 hs0
  have d2 : ∀ g ∈ sp.side2.glyphs, ∀ s ∈ c.resolved g, c.dir s = e2.1 := by
    intro g hg s hs
    obtain ⟨hG, s0, hs0, hd0⟩ := spec2.2 g (m2 g hg)
    rw [← hd0]; exact ok.uni g (hgs2 g hG) s hs s0 hs0
  have inGs1 : ∀ g ∈ sp.side1.glyphs, g ∈ gs := fun g hg => hgs1 g (spec1.2 g (m1 g hg)).1
  have inGs2 : ∀ g ∈ sp.side2.glyphs, g ∈ gs := fun g hg => hgs2 g (spec2.2 g (m2 g hg)).1
  by_cases heq : e1.1 = e2.1
  · intro a ha b hb
    have da : c.dir a = e1.1 := by
      rcases ksub a ha with ⟨g, hg, hs⟩ | ⟨g, hg, hs⟩
      · exact d1 g hg a hs
      · rw [heq]; exact d2 g hg a hs
    have db : c.dir b = e1.1 := by
      rcases ksub b hb with ⟨g, hg, hs⟩ | ⟨g, hg, hs⟩
      · exact d1 g hg b hs
      · rw [heq]; exact d2 g hg b hs
    rw [da, db]
  · -- one of the two directions is "Auto": that side contributes only Common, which is then not in the key
    have hauto : e1.1 = "Auto" ∨ e2.1 = "Auto" := by
      by_cases h1 : e1.1 = "Auto"
      · exact Or.inl h1
      · by_cases h2 : e2.1 = "Auto"
        · exact Or.inr h2
        · exact absurd ⟨heq, h1, h2⟩ hcompat
    have noCommon : COMMON ∉ k := by
      intro hc
      obtain ⟨⟨g, hg, hs⟩, ⟨g', hg', hs'⟩⟩ := kcommon hc
      exact heq ((d1 g hg COMMON hs).symm.trans (d2 g' hg' COMMON hs'))
    rcases hauto with ha1 | ha2
    · have from2 : ∀ a ∈ k, c.dir a = e2.1 := by
        intro a ha
        rcases ksub a ha with ⟨g, hg, hs⟩ | ⟨g, hg, hs⟩
        · have hda := d1 g hg a hs
          rcases ok.notAuto g (inGs1 g hg) a hs with hc | hc
          · rw [hc] at ha; exact absurd ha noCommon
          · rw [hda] at hc; exact absurd ha1 hc
        · exact d2 g hg a hs
      intro a ha b hb; rw [from2 a ha, from2 b hb]
    · have from1 : ∀ a ∈ k, c.dir a = e1.1 := by
        intro a ha
        rcases ksub a ha with ⟨g, hg, hs⟩ | ⟨g, hg, hs⟩
        · exact d1 g hg a hs
        · have hda := d2 g hg a hs
          rcases ok.notAuto g (inGs2 g hg) a hs with hc | hc
          · rw [hc] at ha; exact absurd ha noCommon
          · rw [hda] at hc; exact absurd ha2 hc
      intro a ha b hb; rw [from1 a ha, from1 b hb]

end Ufo2ft.C05
