import Ufo2ftModel.Spec.C12
/-!
Property C12: theorems.

Part 1  the dispatcher (PostProcessor.process / process_cff / _subroutinize*, OutlineOTFCompiler's flag)
Part 2  the advance width operand
Part 3  drawings ⟷ commands, the specialiser's topology passes
Part 4  every path through the dispatch table composes drawing-preserving encoders (hypotheses)
Part 5  the property on the model's own output
-/
namespace Ufo2ft.C12
open List

/-! ## Part 1: dispatcher -/

theorem subroutinizeOn_eq (opt : OptArg) : subroutinizeOn opt = wantsSubr opt := by
  cases opt <;> rfl

theorem specializeOn_eq (opt : OptArg) : specializeOn opt = wantsSpecialize opt := by
  cases opt <;> rfl

theorem inDomain_cases {ver : Option Int} {sub : Option String} (h : inDomain ver sub = true) :
    (ver = none ∨ ver = some 1 ∨ ver = some 2) ∧
      (sub = none ∨ sub = some "cffsubr" ∨ sub = some "compreffor") := by
  simpa [inDomain, or_assoc] using h

/-- **C12_dispatch**: for EVERY input table (none / CFF / CFF2), every `optimizeCFF` (any bool or int),
every `cffVersion` and `subroutinizer`: on the arguments the property quantifies over the dispatcher raises
NotImplementedError exactly on the unsupported combinations and no other error, and otherwise produces the
requested table version, subroutinises iff asked, with the backend asked for, and touches nothing when
nothing is asked. -/
theorem C12_dispatch (iv : Option Ver) (opt : OptArg) (ver : Option Int) (sub : Option String) :
    holdsDispatch iv opt ver sub (process iv opt ver sub) = true := by
  cases iv with
  | none => rfl
  | some iv =>
    unfold holdsDispatch process supported
    simp only [subroutinizeOn_eq]
    by_cases hd : inDomain ver sub = true
    · obtain ⟨hv, hs⟩ := inDomain_cases hd
      generalize wantsSubr opt = b
      rcases hv with rfl | rfl | rfl <;> rcases hs with rfl | rfl | rfl <;> cases b <;> cases iv <;> decide
    · simp [hd]

/-- **C12_table18**: the 18 combinations of the property, through `compileOTF`, give exactly the
spelled-out table (closed by kernel evaluation). -/
theorem C12_table18 :
    table18.map (fun c => compileOTF (.int c.1) (some c.2.2) c.2.1) = expected18 := by decide

/-- **C12_unsupported_iff**: starting from the 'CFF ' table the outline compiler writes, the only refused
combination is subroutinising with compreffor into CFF2 - for any optimisation level, not just 0..2. -/
theorem C12_unsupported_iff (opt : OptArg) (ver : Option Int) (sub : Option String)
    (hd : inDomain ver sub = true) :
    process (some .v1) opt ver sub = .error .notImplemented ↔
      (wantsSubr opt = true ∧ sub = some "compreffor" ∧ ver = some 2) := by
  obtain ⟨hv, hs⟩ := inDomain_cases hd
  unfold process
  simp only [subroutinizeOn_eq]
  generalize wantsSubr opt = b
  rcases hv with rfl | rfl | rfl <;> rcases hs with rfl | rfl | rfl <;> cases b <;> decide

/-- in-domain arguments never produce any error other than NotImplementedError -/
theorem C12_only_notImplemented (iv : Ver) (opt : OptArg) (ver : Option Int) (sub : Option String)
    (hd : inDomain ver sub = true) (e : Err) (h : process (some iv) opt ver sub = .error e) :
    e = .notImplemented := by
  have := C12_dispatch (some iv) opt ver sub
  unfold holdsDispatch at this
  rw [h] at this
  simp only [hd, Bool.not_true, Bool.false_or, Bool.and_eq_true, beq_iff_eq] at this
  exact this.1

/-- **C12_reject_version**: a `cffVersion` other than None/1/2 is rejected with ValueError, whatever else
is passed (inputs the code rejects). -/
theorem C12_reject_version (iv : Ver) (opt : OptArg) (n : Int) (sub : Option String)
    (h1 : n ≠ 1) (h2 : n ≠ 2) : process (some iv) opt (some n) sub = .error .valueError := by
  simp [process, processCff, parseVer, h1, h2]

/-- **C12_reject_backend**: an unknown `subroutinizer` is rejected with ValueError when (and only when,
see `C12_backend_ignored`) subroutinisation is on. -/
theorem C12_reject_backend (iv : Ver) (opt : OptArg) (ver : Option Int) (s : String)
    (hv : ver = none ∨ ver = some 1 ∨ ver = some 2) (hb : wantsSubr opt = true)
    (h1 : s ≠ "cffsubr") (h2 : s ≠ "compreffor") :
    process (some iv) opt ver (some s) = .error .valueError := by
  unfold process
  rw [subroutinizeOn_eq, hb]
  rcases hv with rfl | rfl | rfl <;> simp [processCff, parseVer, parseBackend, h1, h2]

/-- without subroutinisation the `subroutinizer` argument is not even looked at -/
theorem C12_backend_ignored (iv : Option Ver) (opt : OptArg) (ver : Option Int) (s s' : Option String)
    (hb : wantsSubr opt = false) : process iv opt ver s = process iv opt ver s' := by
  cases iv with
  | none => rfl
  | some iv =>
    unfold process
    rw [subroutinizeOn_eq, hb]
    unfold processCff
    cases (match ver with | none => Except.ok iv | some n => parseVer n) <;> simp

/-- a TrueType font is left alone whatever is passed -/
theorem C12_ttf (opt : OptArg) (ver : Option Int) (sub : Option String) :
    process none opt ver sub = .ok .leave := rfl

/-- the `OTFCompiler` defaults: specialise, then subroutinise with cffsubr into CFF 1 -/
theorem C12_defaults :
    compileOTF otfCompilerDefaults.1 otfCompilerDefaults.2.1 otfCompilerDefaults.2.2
      = .ok (true, .subr .cffsubr .v1) := by decide

/-- the two thresholds are ordered: whatever is subroutinised has been specialised -/
theorem C12_subr_implies_specialize (opt : OptArg) (h : subroutinizeOn opt = true) :
    specializeOn opt = true := by
  cases opt with
  | bool b => exact h
  | int n =>
    simp only [subroutinizeOn, specializeOn, decide_eq_true_eq] at *
    omega

/-! ## Part 2: the width operand -/

theorem otRound_intCast (k : Int) : otRound (k : Q) = k := by
  unfold otRound
  have h : ((k : Q) + 1 / 2).floor = ((1 / 2 : Q) + (k : Q)).floor := by rw [Rat.add_comm]
  rw [h, Rat.floor_add_intCast]
  have : (1 / 2 : Q).floor = 0 := by decide +kernel
  omega

theorem otRound_sub_intCast (w : Q) (n : Int) : otRound (w - (n : Q)) = otRound w - n := by
  unfold otRound
  have h : w - (n : Q) + 1 / 2 = (w + 1 / 2) + ((-n : Int) : Q) := by
    simp only [Rat.intCast_neg]; grind
  rw [h, Rat.floor_add_intCast]
  omega

/-- **C12_width**: decoding what ufo2ft encodes gives the rounded source advance, for EVERY
default/nominal pair (explicit, fallback or auto-optimised) and every width. -/
theorem C12_width (w : Q) (d n : Int) : decodeWidth d n (encodeWidth w d n) = otRound w := by
  unfold encodeWidth
  split
  · next h => simp only [decodeWidth]; rw [h, otRound_intCast]
  · simp only [decodeWidth]; rw [otRound_intCast, otRound_sub_intCast]; omega

/-- …hence the charstring and hmtx (which stores `otRound w`) agree: the predicate evaluated on observed fonts -/
theorem C12_width_holds (w : Q) (d n : Int) : holdsWidth w d n (encodeWidth w d n) (otRound w) = true := by
  simp [holdsWidth, C12_width]

/-- **C12_width_independent**: the advance a reader sees does not depend on the default/nominal pair chosen. -/
theorem C12_width_independent (w : Q) (d n d' n' : Int) :
    decodeWidth d n (encodeWidth w d n) = decodeWidth d' n' (encodeWidth w d' n') := by
  rw [C12_width, C12_width]

/-- the zero-elision of setupTable_CFF loses nothing -/
theorem C12_dw_roundtrip (v : Int) : readDW (writtenDW v) = v := by
  unfold writtenDW
  split
  · rfl
  · next h => simp only [readDW]; omega

/-- explicit info values win; a missing one falls back to 200 / 0 -/
theorem C12_defNom_explicit (dq nq : Q) (auto : Int × Int) :
    defNom (some dq) (some nq) auto = (otRound dq, otRound nq) ∧
    defNom (some dq) none auto = (otRound dq, 0) ∧
    defNom none (some nq) auto = (200, otRound nq) ∧
    defNom none none auto = auto := by
  refine ⟨rfl, ?_, ?_, rfl⟩
  · simp only [defNom, Option.getD]; rw [show ((0 : Q)) = ((0 : Int) : Q) from rfl, otRound_intCast]
  · simp only [defNom, Option.getD]; rw [show ((200 : Q)) = ((200 : Int) : Q) from rfl, otRound_intCast]

example : encodeWidth 500 500 300 = none := by decide +kernel
example : encodeWidth (1001/2) 501 300 = some 201 := by decide +kernel
example : decodeWidth 501 300 (encodeWidth (1001/2) 501 300) = 501 := by decide +kernel

/-! ## Part 3: drawings, commands, topology passes -/

theorem render_toCmds_aux (l : Drawing) : ∀ c : Int × Int,
    (wfFrom true l = true → renderFrom c true (toCmdsFrom c l) = l) ∧
    (wfFrom false l = true → renderFrom c true (toCmdsFrom c l) = .closePath :: l) ∧
    (wfFrom false l = true → renderFrom c false (toCmdsFrom c l) = l) := by
  induction l with
  | nil => intro c; simp [wfFrom, toCmdsFrom, renderFrom]
  | cons op t ih =>
    intro ⟨cx, cy⟩
    cases op with
    | moveTo x y =>
      obtain ⟨h1, _, _⟩ := ih (x, y)
      have e1 : cx + (x - cx) = x := by omega
      have e2 : cy + (y - cy) = y := by omega
      refine ⟨by simp [wfFrom], ?_, ?_⟩ <;>
      · intro h
        simp only [wfFrom] at h
        simp only [toCmdsFrom, renderFrom, e1, e2, h1 h]
        simp
    | lineTo x y =>
      obtain ⟨h1, _, _⟩ := ih (x, y)
      have e1 : cx + (x - cx) = x := by omega
      have e2 : cy + (y - cy) = y := by omega
      refine ⟨?_, by simp [wfFrom], by simp [wfFrom]⟩
      intro h
      simp only [wfFrom] at h
      simp only [toCmdsFrom, renderFrom, e1, e2, h1 h]
    | curveTo x1 y1 x2 y2 x3 y3 =>
      obtain ⟨h1, _, _⟩ := ih (x3, y3)
      have e1 : cx + (x1 - cx) = x1 := by omega
      have e2 : cy + (y1 - cy) = y1 := by omega
      have e3 : x1 + (x2 - x1) = x2 := by omega
      have e4 : y1 + (y2 - y1) = y2 := by omega
      have e5 : x2 + (x3 - x2) = x3 := by omega
      have e6 : y2 + (y3 - y2) = y3 := by omega
      refine ⟨?_, by simp [wfFrom], by simp [wfFrom]⟩
      intro h
      simp only [wfFrom] at h
      simp only [toCmdsFrom, renderFrom, e1, e2, e3, e4, e5, e6, h1 h]
    | closePath =>
      obtain ⟨_, h2, _⟩ := ih (cx, cy)
      refine ⟨?_, by simp [wfFrom], by simp [wfFrom]⟩
      intro h
      simp only [wfFrom] at h
      simp only [toCmdsFrom, h2 h]

/-- **C12_render_toCmds**: for a drawing as CFF glyphs produce them, re-deriving the relative commands and
rendering them gives the drawing back (so the model's prediction for a specialised glyph really is
"the specialiser's passes applied to what optimizeCFF=0 draws"). -/
theorem C12_render_toCmds (d : Drawing) (h : wfDrawing d = true) : render (toCmds d) = d :=
  (render_toCmds_aux d (0, 0)).2.2 h

/-! ### the topology passes are the identity where there is nothing redundant -/

theorem combineMoves_id (c : List Cmd) (h : topoFree c = true) : combineMoves c = c := by
  induction c with
  | nil => rfl
  | cons a l ih =>
    cases l with
    | nil => cases a <;> rfl
    | cons b t =>
      simp only [topoFree, Bool.and_eq_true] at h
      have ih' := ih h.2
      unfold combineMoves
      rw [ih']
      cases a <;> cases b <;> simp_all [pairOk]

/-- adjacent elements are related (forward) -/
def Adj (R : α → α → Prop) : List α → Prop
  | [] => True
  | [_] => True
  | a :: b :: l => R a b ∧ Adj R (b :: l)

theorem adj_append_two (R : α → α → Prop) (l : List α) (a b : α) :
    Adj R (l ++ [a, b]) ↔ Adj R (l ++ [a]) ∧ R a b := by
  induction l with
  | nil => simp [Adj]
  | cons x t ih =>
    cases t with
    | nil => simp [Adj]
    | cons y t' =>
      simp only [cons_append, Adj] at ih ⊢
      rw [ih]; exact and_assoc.symm

/-- pass 3 leaves this command alone: not demoted, not a zero-length line -/
def keep (s : SCmd) : Prop := demote s = s ∧ ∀ a b, s ≠ .line .z a b

/-- later command `b` does not merge into earlier command `a` -/
def noMerge (a b : SCmd) : Prop := mergeInto b a = none

theorem pass3_id (prevs : List SCmd) : ∀ (cur : SCmd) (acc : List SCmd),
    (∀ s ∈ cur :: prevs, keep s) → Adj noMerge (prevs.reverse ++ [cur]) →
    pass3 cur prevs acc = prevs.reverse ++ cur :: acc := by
  induction prevs with
  | nil =>
    intro cur acc hk _
    have ⟨hd, hz⟩ := hk cur (by simp)
    unfold pass3
    rw [hd]
    cases cur with
    | line c a b => cases c <;> first | rfl | exact absurd rfl (hz a b)
    | _ => rfl
  | cons p ps ih =>
    intro cur acc hk ha
    have ⟨hd, hz⟩ := hk cur (by simp)
    have ha' : Adj noMerge (ps.reverse ++ [p, cur]) := by simpa using ha
    rw [adj_append_two] at ha'
    have hm : mergeInto cur p = none := ha'.2
    have := ih p (cur :: acc) (fun s hs => hk s (by simp at hs ⊢; right; exact hs)) ha'.1
    unfold pass3
    rw [hd]
    cases cur with
    | line c a b =>
      cases c
      · simp only [hm]; rw [this]; simp
      · simp only [hm]; rw [this]; simp
      · simp only [hm]; rw [this]; simp
      · exact absurd rfl (hz a b)
    | move a b => simp only [hm]; rw [this]; simp
    | curve a b c d e f => simp only [hm]; rw [this]; simp

theorem topo3_id (l : List SCmd) (hk : ∀ s ∈ l, keep s) (ha : Adj noMerge l) : topo3 l = l := by
  unfold topo3
  cases hr : l.reverse with
  | nil => simp at hr; simp [hr]
  | cons cur prevs =>
    have hl : l = prevs.reverse ++ [cur] := by
      have := congrArg List.reverse hr; simpa using this
    simp only
    have h1 : ∀ s ∈ cur :: prevs, keep s := by
      intro s hs; apply hk; rw [hl]; simp at hs ⊢; exact hs.symm
    have h2 : Adj noMerge (prevs.reverse ++ [cur]) := by rw [← hl]; exact ha
    rw [pass3_id prevs cur [] h1 h2]
    exact hl.symm

theorem categorize_z (a b : Int) : categorize a b = .z ↔ a = 0 ∧ b = 0 := by
  unfold categorize
  split <;> split <;> simp_all

theorem keep_of_cmdOk (x : Cmd) (h : cmdOk x = true) : keep (specialize2 x) := by
  cases x with
  | rmoveto a b => exact ⟨rfl, by intro a b h; cases h⟩
  | rlineto a b =>
    refine ⟨rfl, ?_⟩
    intro a' b' he
    simp only [specialize2, SCmd.line.injEq] at he
    have := (categorize_z a b).mp he.1
    simp [cmdOk, this] at h
  | rrcurveto a b c d e f =>
    refine ⟨?_, by intro a b h; cases h⟩
    simp only [specialize2, demote, categorize_z]
    split
    · next hc => simp [cmdOk, hc] at h
    · rfl

theorem categorize_h (a b : Int) : categorize a b = .h ↔ a ≠ 0 ∧ b = 0 := by
  unfold categorize
  split <;> split <;> simp_all

theorem categorize_v (a b : Int) : categorize a b = .v ↔ a = 0 ∧ b ≠ 0 := by
  unfold categorize
  split <;> split <;> simp_all

theorem mergeInto_line_none (c c' : Cat) (a b a' b' : Int) (h : ¬(c = .h ∧ c' = .h) ∧ ¬(c = .v ∧ c' = .v)) :
    mergeInto (.line c a b) (.line c' a' b') = none := by
  cases c <;> cases c' <;> simp_all [mergeInto]

theorem noMerge_of_pairOk (x y : Cmd) (h : pairOk x y = true) : noMerge (specialize2 x) (specialize2 y) := by
  cases x with
  | rmoveto a b => cases y <;> (simp only [noMerge, specialize2]; unfold mergeInto; split <;> simp_all)
  | rrcurveto a b c d e f => cases y <;> (simp only [noMerge, specialize2]; unfold mergeInto; split <;> simp_all)
  | rlineto a b =>
    cases y with
    | rmoveto a' b' => simp [noMerge, specialize2, mergeInto]
    | rrcurveto => simp [noMerge, specialize2, mergeInto]
    | rlineto a' b' =>
      simp only [noMerge, specialize2]
      apply mergeInto_line_none
      simp only [categorize_h, categorize_v]
      simp only [pairOk, Bool.not_eq_true', Bool.or_eq_false_iff, Bool.and_eq_false_iff, beq_eq_false_iff_ne] at h
      omega

theorem free_of_topoFree (c : List Cmd) (h : topoFree c = true) :
    (∀ s ∈ c.map specialize2, keep s) ∧ Adj noMerge (c.map specialize2) := by
  induction c with
  | nil => simp [Adj]
  | cons a l ih =>
    cases l with
    | nil =>
      simp only [topoFree] at h
      simp [Adj, keep_of_cmdOk a h]
    | cons b t =>
      simp only [topoFree, Bool.and_eq_true] at h
      obtain ⟨ih1, ih2⟩ := ih h.2
      refine ⟨?_, ?_⟩
      · intro s hs
        simp only [map_cons, mem_cons] at hs ih1
        rcases hs with rfl | hs
        · exact keep_of_cmdOk a h.1.1
        · exact ih1 s (by simpa using hs)
      · simp only [map_cons, Adj]
        exact ⟨noMerge_of_pairOk a b h.1.2, by simpa using ih2⟩

theorem generalize_specialize2 (c : List Cmd) : (c.map specialize2).map generalize = c := by
  induction c with
  | nil => rfl
  | cons a l ih => simp only [map_cons, ih]; cases a <;> rfl

/-- **C12_specTopo_id**: on a command list without redundant operations (no two movetos in a row, no
zero-length line, no two neighbouring horizontal or two neighbouring vertical lines, no curve with both
handles retracted) the specialiser's topology passes change nothing. -/
theorem C12_specTopo_id (c : List Cmd) (h : topoFree c = true) : specTopo c = c := by
  unfold specTopo
  rw [combineMoves_id c h]
  obtain ⟨h1, h2⟩ := free_of_topoFree c h
  rw [topo3_id _ h1 h2, generalize_specialize2]

/-- …so a specialised glyph draws exactly what the unspecialised one draws -/
theorem C12_specDrawing_id (d : Drawing) (hw : wfDrawing d = true) (h : topoFree (toCmds d) = true) :
    specDrawing d = d := by
  unfold specDrawing
  rw [C12_specTopo_id _ h, C12_render_toCmds d hw]


/-! ### in general the topology passes only drop on-curve points -/

abbrev Pt := Int × Int

def visD (p : Pt) : List Pt → List Pt
  | [] => []
  | d :: l => padd p d :: visD (padd p d) l

def endD (p : Pt) : List Pt → Pt
  | [] => p
  | d :: l => endD (padd p d) l

theorem visited_eq (p : Pt) (c : List Cmd) : visited p c = visD p (c.map cdelta) := by
  induction c generalizing p with
  | nil => rfl
  | cons x l ih => simp only [visited, map_cons, visD, ih]

theorem endPoint_eq (p : Pt) (c : List Cmd) : endPoint p c = endD p (c.map cdelta) := by
  induction c generalizing p with
  | nil => rfl
  | cons x l ih => simp only [endPoint, map_cons, endD, ih]

theorem visD_append (p : Pt) (a b : List Pt) : visD p (a ++ b) = visD p a ++ visD (endD p a) b := by
  induction a generalizing p with
  | nil => rfl
  | cons d l ih => simp only [cons_append, visD, endD, ih]

theorem endD_append (p : Pt) (a b : List Pt) : endD p (a ++ b) = endD (endD p a) b := by
  induction a generalizing p with
  | nil => rfl
  | cons d l ih => simp only [cons_append, endD, ih]

/-- `a` visits a sub-sequence of the points `b` visits and ends where `b` ends, from every start -/
def Refines (a b : List Pt) : Prop := ∀ q, (visD q a).Sublist (visD q b) ∧ endD q a = endD q b

theorem Refines.refl (a : List Pt) : Refines a a := fun _ => ⟨Sublist.refl _, rfl⟩

theorem Refines.trans {a b c : List Pt} (h1 : Refines a b) (h2 : Refines b c) : Refines a c :=
  fun q => ⟨(h1 q).1.trans (h2 q).1, (h1 q).2.trans (h2 q).2⟩

theorem Refines.append {a b : List Pt} (h : Refines a b) (l r : List Pt) :
    Refines (l ++ a ++ r) (l ++ b ++ r) := by
  intro q
  refine ⟨?_, ?_⟩
  · simp only [visD_append, endD_append, (h _).2]
    exact Sublist.append (Sublist.append (Sublist.refl _) (h _).1) (Sublist.refl _)
  · simp only [endD_append, (h _).2]

theorem padd_assoc (p a b : Pt) : padd (padd p a) b = padd p (padd a b) := by
  simp only [padd]; ext <;> simp only <;> omega

theorem padd_zero (p : Pt) : padd p (0, 0) = p := by
  simp only [padd]; ext <;> simp

theorem refines_drop_zero : Refines [] [(0, 0)] := by
  intro q; simp [visD, endD, padd_zero]

theorem refines_merge (a b : Pt) : Refines [padd a b] [a, b] := by
  intro q
  refine ⟨?_, ?_⟩
  · simp only [visD, padd_assoc]
    exact Sublist.cons _ (Sublist.refl _)
  · simp only [endD, padd_assoc]

/-! pass 1 -/

theorem combineMoves_refines (c : List Cmd) :
    Refines ((combineMoves c).map cdelta) (c.map cdelta) := by
  induction c with
  | nil => exact Refines.refl _
  | cons x l ih =>
    have hcons : Refines ((x :: combineMoves l).map cdelta) ((x :: l).map cdelta) := by
      have := ih.append [cdelta x] []
      simpa using this
    unfold combineMoves
    split
    · next a b a' b' rest heq =>
      rw [heq] at hcons
      refine Refines.trans ?_ hcons
      have := (refines_merge (a, b) (a', b')).append [] (rest.map cdelta)
      simpa [cdelta, padd] using this
    · exact hcons

/-! pass 3 -/

def sdelta : SCmd → Pt
  | .move a b => (a, b)
  | .line _ a b => (a, b)
  | .curve a b c d e f => (a + c + e, b + d + f)

/-- the category a lineto carries is honest about zero length (true after pass 2; merging only makes h/v) -/
def catOk (s : SCmd) : Prop := ∀ a b, s = .line .z a b → a = 0 ∧ b = 0

theorem sdelta_demote (s : SCmd) : sdelta (demote s) = sdelta s := by
  cases s with
  | curve a b c d e f =>
    simp only [demote, categorize_z]
    split
    · next h => obtain ⟨⟨rfl, rfl⟩, rfl, rfl⟩ := h; simp [sdelta]
    · rfl
  | _ => rfl

theorem catOk_demote (s : SCmd) (h : catOk s) : catOk (demote s) := by
  cases s with
  | curve a b c d e f =>
    simp only [demote]
    split
    · intro a' b' he
      simp only [SCmd.line.injEq] at he
      obtain ⟨h1, rfl, rfl⟩ := he
      exact (categorize_z _ _).mp h1
    · intro a' b' he; cases he
  | _ => exact h

theorem mergeInto_spec (c p m : SCmd) (h : mergeInto c p = some m) :
    sdelta m = padd (sdelta p) (sdelta c) ∧ catOk m := by
  unfold mergeInto at h
  split at h
  · cases h; exact ⟨rfl, by intro a b he; cases he⟩
  · cases h; exact ⟨rfl, by intro a b he; cases he⟩
  · cases h

theorem pass3_refines (prevs : List SCmd) : ∀ (cur : SCmd) (acc : List SCmd),
    (∀ s ∈ cur :: prevs, catOk s) →
    Refines ((pass3 cur prevs acc).map sdelta) ((prevs.reverse ++ cur :: acc).map sdelta) := by
  induction prevs with
  | nil =>
    intro cur acc hk
    have hc := catOk_demote cur (hk cur (by simp))
    have hd := sdelta_demote cur
    unfold pass3
    split
    · next a b heq =>
      obtain ⟨rfl, rfl⟩ := hc a b heq
      rw [heq] at hd
      have hz : sdelta cur = (0, 0) := by rw [← hd]; rfl
      have := refines_drop_zero.append [] (acc.map sdelta)
      simpa [hz] using this
    · simp only [reverse_nil, nil_append, map_cons, hd]; exact Refines.refl _
  | cons p ps ih =>
    intro cur acc hk
    have hc := catOk_demote cur (hk cur (by simp))
    have hd := sdelta_demote cur
    have hps : ∀ s ∈ p :: ps, catOk s := fun s hs => hk s (by simp at hs ⊢; right; exact hs)
    unfold pass3
    split
    · next a b heq =>
      obtain ⟨rfl, rfl⟩ := hc a b heq
      rw [heq] at hd
      have hz : sdelta cur = (0, 0) := by rw [← hd]; rfl
      refine (ih p acc hps).trans ?_
      have := refines_drop_zero.append ((ps.reverse ++ [p]).map sdelta) (acc.map sdelta)
      simpa [hz] using this
    · split
      · next m hm =>
        obtain ⟨hm1, hm2⟩ := mergeInto_spec _ _ _ hm
        refine (ih m acc (by
          intro s hs; simp only [mem_cons] at hs
          rcases hs with rfl | hs
          · exact hm2
          · exact hps s (by simp [hs]))).trans ?_
        have := (refines_merge (sdelta p) (sdelta cur)).append (ps.reverse.map sdelta) (acc.map sdelta)
        simpa [hm1, hd] using this
      · refine (ih p (demote cur :: acc) hps).trans ?_
        simp only [reverse_cons, append_assoc, cons_append, nil_append, map_append, map_cons, hd]
        exact Refines.refl _


theorem catOk_specialize2 (x : Cmd) : catOk (specialize2 x) := by
  intro a b he
  cases x with
  | rlineto a' b' =>
    simp only [specialize2, SCmd.line.injEq] at he
    obtain ⟨h1, rfl, rfl⟩ := he
    exact (categorize_z _ _).mp h1
  | _ => cases he

theorem topo3_refines (l : List SCmd) (hk : ∀ s ∈ l, catOk s) :
    Refines ((topo3 l).map sdelta) (l.map sdelta) := by
  unfold topo3
  cases hr : l.reverse with
  | nil => simp at hr; simp [hr]; exact Refines.refl _
  | cons cur prevs =>
    have hl : l = prevs.reverse ++ [cur] := by
      have := congrArg List.reverse hr; simpa using this
    have h1 : ∀ s ∈ cur :: prevs, catOk s := by
      intro s hs; apply hk; rw [hl]; simp at hs ⊢; exact hs.symm
    have := pass3_refines prevs cur [] h1
    simp only
    rw [hl]
    exact this

theorem specTopo_refines (c : List Cmd) : Refines ((specTopo c).map cdelta) (c.map cdelta) := by
  unfold specTopo
  have e1 : ∀ l : List SCmd, (l.map generalize).map cdelta = l.map sdelta := by
    intro l; simp only [map_map]; congr 1; funext s; cases s <;> rfl
  have e2 : ∀ l : List Cmd, (l.map specialize2).map sdelta = l.map cdelta := by
    intro l; simp only [map_map]; congr 1; funext s; cases s <;> rfl
  rw [e1]
  refine Refines.trans (topo3_refines _ ?_) ?_
  · intro s hs
    obtain ⟨x, _, rfl⟩ := mem_map.mp hs
    exact catOk_specialize2 x
  · rw [e2]; exact combineMoves_refines c

/-- **C12_specTopo_visited**: whatever the glyph, the specialiser's topology passes never move or add an
on-curve point: the pen visits a sub-sequence of the points it visited before… -/
theorem C12_specTopo_visited (p : Int × Int) (c : List Cmd) :
    (visited p (specTopo c)).Sublist (visited p c) := by
  rw [visited_eq, visited_eq]; exact (specTopo_refines c p).1

/-- **C12_specTopo_endPoint**: …and ends where it ended (so later sub-paths are not displaced). -/
theorem C12_specTopo_endPoint (p : Int × Int) (c : List Cmd) :
    endPoint p (specTopo c) = endPoint p c := by
  rw [endPoint_eq, endPoint_eq]; exact (specTopo_refines c p).2

/-! ### tx drops nothing when there is no lone moveto -/

theorem dropLoneMoves_id (d : Drawing) (h : hasLoneMove d = false) : dropLoneMoves d = d := by
  fun_induction dropLoneMoves d with
  | case1 x y l ih => simp [hasLoneMove] at h
  | case2 op l hne ih =>
    have : hasLoneMove l = false := by
      unfold hasLoneMove at h
      split at h
      · cases h
      · next heq => cases heq; exact h
      · cases ‹_ :: _ = []›
    rw [ih this]
  | case3 => rfl


theorem actionDrawing_id (a : Action) (d : Drawing) (h : hasLoneMove d = false) : actionDrawing a d = d := by
  unfold actionDrawing
  split
  · exact dropLoneMoves_id d h
  · rfl

/-! ## Part 4: every path through the dispatch table composes drawing-preserving encoders -/

/-- the hypotheses about the external encoders.  `draw_specialize` says that passes 4–7 of
`specializeCommands` and `commandsToProgram` only re-encode what passes 1–3 (`specTopo`) left;
`draw_subr` says a subroutiniser keeps the drawing except that tx (cffsubr) does not write lone movetos.
They are MEASURED on every generated font by the correspondence run, never proved. -/
structure Encoders.Preserving (E : Encoders P) : Prop where
  draw_encode : ∀ c, E.draw (E.encode c) = render c
  draw_specialize : ∀ c, E.draw (E.specialize c) = render (specTopo c)
  draw_subr : ∀ b v p, E.draw (E.subr b v p) = actionDrawing (.subr b v) (E.draw p)
  draw_convert : ∀ p, E.draw (E.convert p) = E.draw p

/-- **C12_pipeline_draw_partial** (partial: relative to `Encoders.Preserving`, which is measured, not
proved): whatever the combination, if `compileOTF` succeeds the glyph draws the pen's commands, passed
through the specialiser's topology passes iff specialisation is on, minus lone movetos iff cffsubr ran. -/
theorem C12_pipeline_draw_partial (E : Encoders P) (hE : E.Preserving) (cmds : List Cmd) (c : Combo)
    (sp : Bool) (a : Action) (hc : compileOTF c.1 c.2.1 c.2.2 = .ok (sp, a)) :
    ∃ p, pipeline E cmds c = .ok p ∧
      E.draw p = actionDrawing a (render (if sp then specTopo cmds else cmds)) := by
  unfold pipeline
  rw [hc]
  refine ⟨_, rfl, ?_⟩
  have h0 : E.draw (if sp then E.specialize cmds else E.encode cmds)
      = render (if sp then specTopo cmds else cmds) := by
    cases sp
    · exact hE.draw_encode cmds
    · exact hE.draw_specialize cmds
  cases a with
  | leave => simpa [actionDrawing] using h0
  | convert => simp only [hE.draw_convert, h0, actionDrawing]
  | subr b v => simp only [hE.draw_subr, h0]

/-- **C12_render_partial**: on a glyph without redundant operations ALL successful combinations draw the
same thing, namely the pen's commands (again relative to the measured encoder hypotheses). -/
theorem C12_render_partial (E : Encoders P) (hE : E.Preserving) (cmds : List Cmd) (c : Combo) (p : P)
    (hfree : topoFree cmds = true) (hlone : hasLoneMove (render cmds) = false)
    (hp : pipeline E cmds c = .ok p) : E.draw p = render cmds := by
  cases hc : compileOTF c.1 c.2.1 c.2.2 with
  | error e => simp [pipeline, hc] at hp
  | ok r =>
    obtain ⟨sp, a⟩ := r
    obtain ⟨p', hp', hd⟩ := C12_pipeline_draw_partial E hE cmds c sp a hc
    rw [hp] at hp'
    cases hp'
    rw [hd, C12_specTopo_id cmds hfree]
    simp only [ite_self]
    exact actionDrawing_id a _ hlone

/-- the hypotheses are consistent: the "encoder" that stores the drawing itself satisfies them -/
def drawingEncoders : Encoders Drawing where
  encode c := render c
  specialize c := render (specTopo c)
  subr b v p := actionDrawing (.subr b v) p
  convert p := p
  draw p := p

example : drawingEncoders.Preserving := ⟨fun _ => rfl, fun _ => rfl, fun _ _ _ => rfl, fun _ => rfl⟩

/-! ## Part 5: the property on the model's own output -/

theorem allSame_of_const [BEq α] [LawfulBEq α] (l : List α) (v : α) (h : ∀ x ∈ l, x = v) : allSame l = true := by
  cases l with
  | nil => rfl
  | cons a t =>
    simp only [allSame, all_eq_true, beq_iff_eq]
    intro x hx
    rw [h x (by simp [hx]), h a (by simp)]

/-- `allSame` really is "pairwise identical" -/
theorem allSame_pairwise [BEq α] [LawfulBEq α] (l : List α) (h : allSame l = true) :
    ∀ x ∈ l, ∀ y ∈ l, x = y := by
  cases l with
  | nil => intro x hx; cases hx
  | cons a t =>
    simp only [allSame, all_eq_true, beq_iff_eq] at h
    have ha : ∀ x ∈ a :: t, x = a := by
      intro x hx; rcases mem_cons.mp hx with rfl | hx
      · rfl
      · exact h x hx
    intro x hx y hy; rw [ha x hx, ha y hy]

theorem zip_map_all (cs : List α) (f : α → β) (g : α × β → Bool) :
    (cs.zip (cs.map f)).all g = cs.all (fun c => g (c, f c)) := by
  induction cs with
  | nil => rfl
  | cons a t ih => simp only [map_cons, zip_cons_cons, all_cons, ih]

/-- the reference font is one on which no encoder has anything to merge, delete, drop or choke on -/
def plainFont (order : List String) (base : Out) : Prop :=
  (∀ d ∈ base.drawing, plainDrawing d = true) ∧ order ≠ [".notdef"] ∧ order ≠ [".notdef", "space"] ∧
  base.drawing.all (fun d => d.isEmpty) = false

theorem modelFont_plain (order : List String) (base : Out) (c : Combo) (hp : plainFont order base) :
    modelFont order base c =
      match process (some .v1) c.1 c.2.1 c.2.2 with
      | .error e => .error (errName e)
      | .ok a => .ok { tag := outVersion .v1 a, drawing := base.drawing, adv := base.adv, layout := base.layout } := by
  obtain ⟨hd, h1, h2, h3⟩ := hp
  unfold modelFont compileOTF
  cases hpr : process (some .v1) c.1 c.2.1 c.2.2 with
  | error e => rfl
  | ok a =>
    have hq : txQuirk order (base.drawing.all fun d => d.isEmpty) a = none := by
      unfold txQuirk
      split
      · simp [h3]
      · simp [h1, h2]
      · rfl
    simp only [hq]
    have hspec : base.drawing.map specDrawing = base.drawing := by
      rw [← List.map_id base.drawing, map_map]
      apply map_congr_left
      intro d hdm
      have := hd d hdm
      simp only [plainDrawing, Bool.and_eq_true, Bool.not_eq_true'] at this
      exact C12_specDrawing_id d this.1.1 this.1.2
    have hact : base.drawing.map (actionDrawing a) = base.drawing := by
      conv => rhs; rw [← List.map_id base.drawing]
      apply map_congr_left
      intro d hdm
      have := hd d hdm
      simp only [plainDrawing, Bool.and_eq_true, Bool.not_eq_true'] at this
      exact actionDrawing_id a d this.2
    simp only [hspec, ite_self, hact]

/-- **C12_same**: for EVERY reference font without redundant drawing operations (any number of glyphs, any
outlines, any advances, any layout tables) and EVERY list of in-domain option combinations (any
optimisation level, bool or int), the fonts the model produces satisfy the property: unsupported
combinations raise NotImplementedError, supported ones succeed with the requested table version, and all
successful ones carry identical drawings, advances and layout tables. -/
theorem C12_same (order : List String) (base : Out) (cs : List Combo)
    (hdom : ∀ c ∈ cs, inDomain c.2.1 c.2.2 = true) (hp : plainFont order base) :
    holdsSame cs (cs.map (modelFont order base)) = true := by
  unfold holdsSame
  simp only [length_map, beq_self_eq_true, Bool.true_and, Bool.and_eq_true]
  refine ⟨?_, ?_⟩
  · rw [zip_map_all, all_eq_true]
    intro c hc
    have hdisp := C12_dispatch (some .v1) c.1 c.2.1 c.2.2
    simp only [holdsDispatch, hdom c hc, Bool.not_true, Bool.false_or] at hdisp
    rw [modelFont_plain order base c hp]
    cases hpr : process (some .v1) c.1 c.2.1 c.2.2 with
    | error e =>
      rw [hpr] at hdisp
      simp only [Bool.and_eq_true, beq_iff_eq] at hdisp
      simp only [holdsCombo, hdisp.1, errName, beq_self_eq_true, Bool.true_and]
      exact hdisp.2
    | ok a =>
      rw [hpr] at hdisp
      simp only [Bool.and_eq_true, beq_iff_eq] at hdisp
      simp only [holdsCombo, Bool.and_eq_true, beq_iff_eq]
      exact ⟨hdisp.1.1.1.1, hdisp.1.1.1.2⟩
  · apply allSame_of_const _ (base.drawing, base.adv, base.layout)
    intro x hx
    obtain ⟨o, ho, rfl⟩ := mem_map.mp hx
    have : ∀ (l : List Combo), o ∈ oks (l.map (modelFont order base)) → o.content = (base.drawing, base.adv, base.layout) := by
      intro l
      induction l with
      | nil => intro h; cases h
      | cons c t ih =>
        intro h
        simp only [map_cons] at h
        rw [modelFont_plain order base c hp] at h
        cases hpr : process (some .v1) c.1 c.2.1 c.2.2 with
        | error e => rw [hpr] at h; exact ih h
        | ok a =>
          rw [hpr] at h
          simp only [oks, mem_cons] at h
          rcases h with rfl | h
          · rfl
          · exact ih h
    exact this cs ho


/-! ### glyph by glyph: what one glyph shows does not depend on the other glyphs of the font -/

/-- what the option combination (specialise or not, post-processing action) does to ONE glyph's drawing -/
def glyphFn (sp : Bool) (a : Action) (d : Drawing) : Drawing :=
  actionDrawing a (if sp then specDrawing d else d)

theorem glyphFn_plain (sp : Bool) (a : Action) (d : Drawing) (h : plainDrawing d = true) : glyphFn sp a d = d := by
  simp only [plainDrawing, Bool.and_eq_true, Bool.not_eq_true'] at h
  unfold glyphFn
  rw [actionDrawing_id a _ (by cases sp <;> simp [C12_specDrawing_id d h.1.1 h.1.2, h.2])]
  cases sp <;> simp [C12_specDrawing_id d h.1.1 h.1.2]

/-- **C12_glyphwise**: in every font the model produces, for every combination, the drawings are the reference
drawings mapped GLYPH BY GLYPH through one function of the combination alone: no glyph's drawing depends on
another glyph of the font (its outline, its width, its position in the glyph order).  An encoder that shares
anything between glyphs (a memo of specialised programs, subroutines) has to be invisible in the drawings. -/
theorem C12_glyphwise (order : List String) (base : Out) (c : Combo) (o : Out)
    (h : modelFont order base c = .ok o) :
    ∃ sp a, compileOTF c.1 c.2.1 c.2.2 = .ok (sp, a) ∧ o.drawing = base.drawing.map (glyphFn sp a) := by
  unfold modelFont at h
  cases hc : compileOTF c.1 c.2.1 c.2.2 with
  | error e => rw [hc] at h; cases h
  | ok r =>
    obtain ⟨sp, a⟩ := r
    rw [hc] at h
    simp only at h
    cases hq : txQuirk order (base.drawing.all fun d => d.isEmpty) a with
    | some e => rw [hq] at h; cases h
    | none =>
      rw [hq] at h
      simp only [Except.ok.injEq] at h
      refine ⟨sp, a, rfl, ?_⟩
      rw [← h]
      cases sp <;> simp [glyphFn, Function.comp_def]

/-- **C12_plain_glyph**: a glyph without redundant drawing operations is drawn exactly as in the reference font
under every combination that succeeds, WHATEVER the other glyphs of the font are (plain or not, look-alikes
or not): no hypothesis on the rest of the font. -/
theorem C12_plain_glyph (order : List String) (base : Out) (c : Combo) (o : Out) (k : Nat) (d : Drawing)
    (h : modelFont order base c = .ok o) (hk : base.drawing[k]? = some d) (hp : plainDrawing d = true) :
    o.drawing[k]? = some d := by
  obtain ⟨sp, a, _, hd⟩ := C12_glyphwise order base c o h
  rw [hd, getElem?_map, hk, Option.map_some, glyphFn_plain sp a d hp]

/-- two different plain drawings stay different under every combination: look-alike glyphs (same operands,
one operator different) are never confused -/
theorem C12_glyphFn_injective_plain (sp : Bool) (a : Action) (d d' : Drawing)
    (h : plainDrawing d = true) (h' : plainDrawing d' = true) (he : glyphFn sp a d = glyphFn sp a d') : d = d' := by
  rwa [glyphFn_plain sp a d h, glyphFn_plain sp a d' h'] at he

/-! ### non-vacuity, and the finding in one line each -/

/-- the property's 18 combinations as `Combo`s -/
def combos18 : List Combo := table18.map (fun c => (.int c.1, some c.2.2, c.2.1))

/-- a triangle and a curved glyph -/
def plainBase : Out :=
  { tag := .v1
    drawing := [[.moveTo 0 0, .lineTo 100 0, .lineTo 50 80, .closePath],
                [.moveTo 10 10, .curveTo 20 40 60 70 90 20, .lineTo 40 (-5), .closePath], []]
    adv := [500, 600, 250], layout := ["", "ab", ""] }

example : plainFont ["a", "b", "space"] plainBase := by unfold plainFont; decide
example : ∀ c ∈ combos18, inDomain c.2.1 c.2.2 = true := by decide
example : holdsSame combos18 (combos18.map (modelFont ["a", "b", "space"] plainBase)) = true :=
  C12_same _ _ _ (by decide) (by unfold plainFont; decide)
example : topoFree (toCmds [.moveTo 0 0, .lineTo 100 0, .lineTo 50 80, .closePath]) = true := by decide
example : process (some .v1) (.int 2) (some 2) (some "compreffor") = .error .notImplemented := by decide
example : process (some .v2) (.bool true) (some 1) none = .ok (.subr .cffsubr .v1) := by decide
example : process (some .v2) (.int 0) (some 1) none = .error .notImplemented := by decide

/-- THE FINDING: a square with one extra point on its bottom edge.  With optimizeCFF ≥ 1 the specialiser
merges the two horizontal lines, so the strict property is false of the (faithful) model's output. -/
def runBase : Out :=
  { tag := .v1
    drawing := [[.moveTo 0 0, .lineTo 100 0, .lineTo 200 0, .lineTo 200 100, .lineTo 0 100, .closePath]]
    adv := [500], layout := ["", "", ""] }

example : specDrawing [.moveTo 0 0, .lineTo 100 0, .lineTo 200 0, .lineTo 200 100, .lineTo 0 100, .closePath]
    = [.moveTo 0 0, .lineTo 200 0, .lineTo 200 100, .lineTo 0 100, .closePath] := by decide
example : holdsSame combos18 (combos18.map (modelFont ["a"] runBase)) = false := by decide
/-- zero-length line deleted; curve with retracted handles demoted; a lone point merged away -/
example : specDrawing [.moveTo 5 5, .closePath, .moveTo 0 0, .lineTo 0 0, .curveTo 0 0 70 30 70 30, .closePath]
    = [.moveTo 0 0, .lineTo 70 30, .closePath] := by decide
/-- the loop order matters: a deleted zero-length line between two horizontal lines leaves them unmerged -/
example : specTopo [.rmoveto 0 0, .rlineto 10 0, .rlineto 0 0, .rlineto 20 0]
    = [.rmoveto 0 0, .rlineto 10 0, .rlineto 20 0] := by decide
/-- a merged run may sum to zero and still stays a (zero-length) line -/
example : specTopo [.rmoveto 0 0, .rlineto 10 0, .rlineto (-10) 0, .rlineto 0 5]
    = [.rmoveto 0 0, .rlineto 0 0, .rlineto 0 5] := by decide

/-- two bars, and ONE contour through the same eight points: the pen commands carry the same operands and differ
in one operator (rmoveto / rlineto) -/
def barsBase : Out :=
  { tag := .v1
    drawing := [[.moveTo 100 100, .lineTo 400 100, .lineTo 400 200, .lineTo 100 200, .closePath,
                 .moveTo 100 300, .lineTo 400 300, .lineTo 400 400, .lineTo 100 400, .closePath],
                [.moveTo 100 100, .lineTo 400 100, .lineTo 400 200, .lineTo 100 200,
                 .lineTo 100 300, .lineTo 400 300, .lineTo 400 400, .lineTo 100 400, .closePath]]
    adv := [500, 500], layout := ["", "", ""] }

example : plainFont ["equal", "zigzag"] barsBase := by unfold plainFont; decide
example : (barsBase.drawing.map toCmds).map (fun l => l.map cdelta) =
    [[(100, 100), (300, 0), (0, 100), (-300, 0), (0, 100), (300, 0), (0, 100), (-300, 0)],
     [(100, 100), (300, 0), (0, 100), (-300, 0), (0, 100), (300, 0), (0, 100), (-300, 0)]] := by decide
example : holdsSame combos18 (combos18.map (modelFont ["equal", "zigzag"] barsBase)) = true :=
  C12_same _ _ _ (by decide) (by unfold plainFont; decide)
/-- what a program shared between the two look-alikes gives: the second glyph drawn as the first -/
example : holdsSame [(.int 0, some 1, none), (.int 1, some 1, none)]
    [.ok barsBase, .ok { barsBase with drawing := [barsBase.drawing[0]!, barsBase.drawing[0]!] }] = false := by decide

end Ufo2ft.C12
