import Ufo2ftModel.Spec.C09
import Ufo2ftModel.Props.Geom
import Ufo2ftModel.Props.Render
/-! Property C09: theorems. -/
namespace Ufo2ft.C09
open Ufo2ft List

/-! ### reversal acts on point-type sequences -/

theorem retype_shape (l : List Pt) (s : Option Seg) : contourShape (retype l s) = retypeS (contourShape l) s := by
  induction l generalizing s with
  | nil => rfl
  | cons p l ih =>
    simp only [contourShape, retype, List.map_cons, retypeS] at ih ⊢
    cases hp : p.seg with
    | none => simp [ih, hp]
    | some x => simp [ih]

theorem firstOn_shape (l : List Pt) : firstOnCurve l = firstOnS (contourShape l) := by
  induction l with
  | nil => rfl
  | cons p l ih =>
    simp only [contourShape, firstOnCurve, List.map_cons, firstOnS] at ih ⊢
    cases hp : p.seg with
    | none => simp [ih]
    | some x => simp

theorem dropWhile_shape (l : List Pt) :
    contourShape (l.dropWhile (fun p => p.seg.isNone)) = (contourShape l).dropWhile (fun p => p.isNone) := by
  induction l with
  | nil => rfl
  | cons p l ih =>
    simp only [contourShape, List.dropWhile_cons, List.map_cons] at ih ⊢
    by_cases h : p.seg.isNone = true
    · simp only [h, if_true]; exact ih
    · simp only [h]; simp

/-- **the point types of a reversed contour depend only on the point types of the contour** -/
theorem reverseContour_shape (c : Contour) : contourShape (reverseContour c) = reverseShape (contourShape c) := by
  cases c with
  | nil => rfl
  | cons p0 rest =>
    simp only [reverseContour, contourShape, List.map_cons, reverseShape]
    by_cases h : p0.seg = some Seg.move
    · simp only [h, if_true]
      have := retype_shape ((p0 :: rest).reverse.dropWhile (fun p => p.seg.isNone)) (some Seg.move)
      simp only [contourShape] at this
      rw [this]
      have h2 := dropWhile_shape ((p0 :: rest).reverse)
      simp only [contourShape] at h2
      rw [h2]
      simp [List.map_reverse, h]
    · simp only [h, if_false]
      have := retype_shape (p0 :: rest.reverse) (firstOnCurve (rest ++ [p0]))
      simp only [contourShape] at this
      rw [this, firstOn_shape]
      simp [contourShape, List.map_reverse]

theorem map_shape (t : Affine) (c : Contour) : contourShape (Contour.map t c) = contourShape c := by
  simp [contourShape, Contour.map, List.map_map, Function.comp_def]


/-! ### signs -/

theorem sgn_neg_iff (q : Q) : sgn q < 0 ↔ q < 0 := by
  unfold sgn
  by_cases h : q < 0
  · simp [h]
  · by_cases h0 : q = 0 <;> simp [h, h0]

theorem sgn_zero_iff (q : Q) : sgn q = 0 ↔ q = 0 := by
  unfold sgn
  by_cases h : q < 0
  · simp only [h, if_true]; constructor
    · intro h'; omega
    · intro h'; rw [h'] at h; exact absurd h (by decide)
  · by_cases h0 : q = 0 <;> simp [h, h0]

theorem sgn_mul (a b : Q) : sgn (a * b) = sgn a * sgn b := by
  by_cases ha : a = 0
  · subst ha; simp [sgn]
  by_cases hb : b = 0
  · subst hb; simp [sgn]
  have hab : a * b ≠ 0 := by
    intro h; rcases Rat.mul_eq_zero.mp h with h | h
    · exact ha h
    · exact hb h
  have hx := Ufo2ft.mul_neg_iff_xor ha hb
  have ta : a < 0 ∨ 0 < a := by grind
  have tb : b < 0 ∨ 0 < b := by grind
  unfold sgn
  rcases ta with ta | ta <;> rcases tb with tb | tb
  · have h3 : ¬ a * b < 0 := by rw [hx]; grind
    simp [ta, tb, h3, hab]
  · have h3 : a * b < 0 := by rw [hx]; left; exact ⟨ta, tb⟩
    have : ¬ b < 0 := by grind
    simp [ta, h3, this, hb]
  · have h3 : a * b < 0 := by rw [hx]; right; exact ⟨ta, tb⟩
    have : ¬ a < 0 := by grind
    simp [tb, h3, this, ha]
  · have h3 : ¬ a * b < 0 := by rw [hx]; grind
    have h1 : ¬ a < 0 := by grind
    have h2 : ¬ b < 0 := by grind
    simp [h1, h2, h3, ha, hb, hab]

theorem sgn_det_compose (s t : Affine) : sgn (s.compose t).det = sgn s.det * sgn t.det := by
  rw [Affine.det_compose, sgn_mul]

theorem sgn_det_id : sgn Affine.id.det = 1 := by
  have h : Affine.id.det = 1 := by simp only [Affine.id, Affine.det]; grind
  rw [h]
  have h1 : ¬ ((1 : Q) < 0) := by decide
  have h2 : ¬ ((1 : Q) = 0) := by decide
  simp [sgn, h1, h2]

/-! ### decomposition acts on shapes -/

theorem alookup_absSet (n : String) (gs : GlyphSet) : alookup n (absSet gs) = (alookup n gs).map absGlyph := by
  induction gs with
  | nil => rfl
  | cons e gs ih =>
    obtain ⟨k, g⟩ := e
    simp only [absSet, List.map_cons, alookup] at ih ⊢
    by_cases h : (k == n) = true
    · simp [h]
    · simp [h, ih]

theorem length_absSet (gs : GlyphSet) : (absSet gs).length = gs.length := by simp [absSet]

theorem drawContours_shape (rf : Bool) (t : Affine) (cs : List Contour) :
    (drawContours rf t cs).map contourShape = aDrawContours rf (sgn t.det) (cs.map contourShape) := by
  simp only [drawContours, aDrawContours, List.map_map]
  apply List.map_congr_left
  intro c _
  simp only [Function.comp]
  have hd : decide (sgn t.det < 0) = decide (t.det < 0) := by
    simp only [decide_eq_decide]; exact sgn_neg_iff _
  rw [hd, map_shape]
  by_cases h : (rf && decide (t.det < 0)) = true
  · simp only [h, if_true]; exact reverseContour_shape c
  · simp only [h]; rfl

def HomOne (gs : GlyphSet) (fuel : Nat) : Prop :=
  ∀ rf nested incl base t,
    mapExcept absDrawn (addComp fuel gs rf nested incl base t) = aAddComp fuel (absSet gs) rf nested incl base (sgn t.det)

def HomMany (gs : GlyphSet) (fuel : Nat) : Prop :=
  ∀ rf nested incl t ks,
    mapExcept absDrawn (addComps fuel gs rf nested incl t ks)
      = aAddComps fuel (absSet gs) rf nested incl (sgn t.det) (ks.map absComp)

theorem homMany_of_homOne (gs : GlyphSet) (fuel : Nat) (h1 : HomOne gs fuel) : HomMany gs fuel := by
  intro rf nested incl t ks
  induction ks with
  | nil => simp [addComps, aAddComps, mapExcept, absDrawn]
  | cons k ks ih =>
    simp only [addComps, List.map_cons, aAddComps]
    have e1 := h1 rf nested incl k.base (t.compose k.t)
    rw [sgn_det_compose] at e1
    have ek : (absComp k).base = k.base := rfl
    have es : (absComp k).s = sgn k.t.det := rfl
    rw [ek, es, ← e1, ← ih]
    cases addComp fuel gs rf nested incl k.base (t.compose k.t) with
    | error e => simp [mapExcept]
    | ok d =>
      cases addComps fuel gs rf nested incl t ks with
      | error e => simp [mapExcept]
      | ok d' => simp [mapExcept, absDrawn, Drawn.append, ADrawn.append]

theorem homOne_succ (gs : GlyphSet) (fuel : Nat) (h2 : HomMany gs fuel) : HomOne gs (fuel + 1) := by
  intro rf nested incl base t
  unfold addComp aAddComp
  by_cases hi : isIncluded incl base = true
  · rw [if_pos hi, if_pos hi, alookup_absSet]
    have hget : gs.get? base = alookup base gs := rfl
    rw [hget]
    cases hb : alookup base gs with
    | none => simp [mapExcept]
    | some b =>
      simp only [Option.map_some]
      have e := h2 rf nested (inclNested nested incl) t b.comps
      have ec : (absGlyph b).comps = b.comps.map absComp := rfl
      have ect : (absGlyph b).contours = b.contours.map contourShape := rfl
      rw [ec, ect, ← e]
      cases addComps fuel gs rf nested (inclNested nested incl) t b.comps with
      | error e => simp [mapExcept]
      | ok d => simp [mapExcept, absDrawn, drawContours_shape]
  · rw [if_neg hi, if_neg hi]
    simp [mapExcept, absDrawn, absComp]

theorem hom_all (gs : GlyphSet) : ∀ fuel, HomOne gs fuel ∧ HomMany gs fuel := by
  intro fuel
  induction fuel with
  | zero =>
    have h0 : HomOne gs 0 := by
      intro rf nested incl base t; simp [addComp, aAddComp, mapExcept]
    exact ⟨h0, homMany_of_homOne gs 0 h0⟩
  | succ n ih =>
    have h1 := homOne_succ gs n ih.2
    exact ⟨h1, homMany_of_homOne gs (n + 1) h1⟩

/-- **decomposition acts on shapes**: forgetting coordinates commutes with `decomposeCompositeGlyph`
    (any include set, nested or not); of the matrices only the determinant signs are used. -/
theorem decomposeGlyph_shape (gs : GlyphSet) (nested : Bool) (incl : Option (List String)) (g : Glyph) :
    mapExcept absGlyph (decomposeGlyph gs nested incl g) = aDecomposeGlyph (absSet gs) nested incl (absGlyph g) := by
  unfold decomposeGlyph aDecomposeGlyph
  have e := (hom_all gs (gs.length + 1)).2 true nested incl Affine.id g.comps
  rw [sgn_det_id] at e
  have ec : (absGlyph g).comps = g.comps.map absComp := rfl
  rw [length_absSet, ec, ← e]
  cases addComps (gs.length + 1) gs true nested incl Affine.id g.comps with
  | error e => simp [mapExcept]
  | ok d => simp [mapExcept, absGlyph, absDrawn]


/-! ### the per-master loop without an Instantiator -/

/-- what the per-master loop does to ONE glyph set (no Instantiator: bases are resolved in the glyph set itself) -/
def updOne (n : String) (f : GlyphSet → Glyph → Except GErr (Option Glyph × Bool)) (m : GlyphSet) : Except GErr GlyphSet :=
  match m.get? n with
  | none => .ok m
  | some g =>
    match f m g with
    | .error e => .error e
    | .ok (none, _) => .ok m
    | .ok (some g', _) => .ok (m.set n g')

theorem getD_setAt_ne (ms : Masters) (i j : Nat) (m : GlyphSet) (h : i ≠ j) :
    (setAt ms i m).getD j [] = ms.getD j [] := by
  simp only [setAt, List.getD_eq_getElem?_getD, List.getElem?_set_ne h]

theorem getD_setAt_self (ms : Masters) (i : Nat) (m : GlyphSet) (h : i < ms.length) :
    (setAt ms i m).getD i [] = m := by
  simp only [setAt, List.getD_eq_getElem?_getD, List.getElem?_set_self h, Option.getD_some]

theorem getD_nil_of_le (ms : Masters) (i : Nat) (h : ms.length ≤ i) : ms.getD i [] = [] := by
  simp only [List.getD_eq_getElem?_getD, List.getElem?_eq_none h, Option.getD_none]

theorem perMaster_none_spec (n : String) (visit : GlyphSet → Glyph → List String)
    (f : GlyphSet → Glyph → Except GErr (Option Glyph × Bool)) :
    ∀ (idxs : List Nat) (s s' : St) (fl fl' : Bool), perMaster none n visit f idxs s fl = .ok (s', fl') → idxs.Nodup →
      s'.ms.length = s.ms.length ∧
      (∀ j, j ∈ idxs → updOne n f (s.ms.getD j []) = .ok (s'.ms.getD j [])) ∧
      (∀ j, j ∉ idxs → s'.ms.getD j [] = s.ms.getD j []) := by
  intro idxs
  induction idxs with
  | nil =>
    intro s s' fl fl' h _
    simp only [perMaster] at h
    have := Except.ok.inj h
    have hs : s = s' := (Prod.mk.inj this).1
    subst hs
    exact ⟨rfl, fun j hj => absurd hj (by simp), fun _ _ => rfl⟩
  | cons i rest ih =>
    intro s s' fl fl' h hnd
    have hi : i ∉ rest := (List.nodup_cons.mp hnd).1
    have hrest : rest.Nodup := (List.nodup_cons.mp hnd).2
    unfold perMaster at h
    cases hg : (s.ms.getD i []).get? n with
    | none =>
      rw [hg] at h
      dsimp only at h
      obtain ⟨hl, hin, hout⟩ := ih s s' fl fl' h hrest
      refine ⟨hl, ?_, ?_⟩
      · intro j hj
        rcases List.mem_cons.mp hj with rfl | hj
        · rw [hout j hi]; simp only [updOne, hg]
        · exact hin j hj
      · intro j hj
        exact hout j (fun h' => hj (List.mem_cons_of_mem _ h'))
    | some g =>
      rw [hg] at h
      have hlt : i < s.ms.length := by
        by_cases hc : i < s.ms.length
        · exact hc
        · have := getD_nil_of_le s.ms i (by omega)
          rw [this] at hg; cases hg
      dsimp only at h
      have hl0 : layerSet none s i = s.ms.getD i [] := rfl
      rw [hl0] at h
      cases hf : f (s.ms.getD i []) g with
      | error e => rw [hf] at h; cases h
      | ok res =>
        obtain ⟨og, flx⟩ := res
        rw [hf] at h
        dsimp only at h
        have ht : ∀ names, touch none names s = s := fun _ => rfl
        rw [ht] at h
        cases og with
        | none =>
          dsimp only at h
          obtain ⟨hl, hin, hout⟩ := ih s s' (fl || flx) fl' h hrest
          refine ⟨hl, ?_, ?_⟩
          · intro j hj
            rcases List.mem_cons.mp hj with rfl | hj
            · rw [hout j hi]; simp only [updOne, hg, hf]
            · exact hin j hj
          · intro j hj
            exact hout j (fun h' => hj (List.mem_cons_of_mem _ h'))
        | some g' =>
          dsimp only at h
          obtain ⟨hl, hin, hout⟩ := ih _ s' (fl || flx) fl' h hrest
          dsimp only at hl hin hout
          refine ⟨by rw [hl]; simp [setAt], ?_, ?_⟩
          · intro j hj
            rcases List.mem_cons.mp hj with rfl | hj
            · rw [hout j hi, getD_setAt_self _ _ _ hlt]; simp only [updOne, hg, hf]
            · have hne : i ≠ j := fun e => hi (e ▸ hj)
              have := hin j hj
              rw [getD_setAt_ne _ _ _ _ hne] at this
              exact this
          · intro j hj
            have hne : i ≠ j := fun e => hj (e ▸ List.mem_cons_self)
            rw [hout j (fun h' => hj (List.mem_cons_of_mem _ h')), getD_setAt_ne _ _ _ _ hne]

/-- after the loop over all indices every glyph set has been updated by `updOne` -/
theorem perMaster_none_all (n : String) (visit : GlyphSet → Glyph → List String)
    (f : GlyphSet → Glyph → Except GErr (Option Glyph × Bool)) (s s' : St) (fl fl' : Bool)
    (h : perMaster none n visit f (List.range s.ms.length) s fl = .ok (s', fl')) :
    s'.ms.length = s.ms.length ∧ ∀ j (hj : j < s.ms.length) (hj' : j < s'.ms.length), updOne n f s.ms[j] = .ok s'.ms[j] := by
  obtain ⟨hl, hin, _⟩ := perMaster_none_spec n visit f _ s s' fl fl' h List.nodup_range
  refine ⟨hl, ?_⟩
  intro j hj hj'
  have := hin j (List.mem_range.mpr hj)
  simpa [List.getD_eq_getElem?_getD, List.getElem?_eq_getElem hj, List.getElem?_eq_getElem hj'] using this


/-! ### families whose masters have the same shapes and determinant signs -/

/-- every master has the abstract glyph set `A`: same glyph names in the same order, same point types, same
    component base names, same determinant SIGNS (coordinates, offsets, and the 2×2 entries themselves are free) -/
def AllAbs (ms : Masters) (A : AGlyphSet) : Prop := ∀ m ∈ ms, absSet m = A

def aSet (A : AGlyphSet) (n : String) (a : AGlyph) : AGlyphSet := A.map (fun e => if e.1 == n then (n, a) else e)

theorem absSet_set (m : GlyphSet) (n : String) (g : Glyph) : absSet (m.set n g) = aSet (absSet m) n (absGlyph g) := by
  simp only [absSet, GlyphSet.set, aSet, List.map_map]
  apply List.map_congr_left
  intro e _
  simp only [Function.comp]
  by_cases h : (e.1 == n) = true <;> simp [h]

/-- `f` (on glyphs) is represented by `af` on the shape level -/
def Abstracts (f : GlyphSet → Glyph → Except GErr (Option Glyph × Bool))
    (af : AGlyphSet → AGlyph → Except GErr (Option AGlyph)) : Prop :=
  ∀ m g, mapExcept (fun r => r.1.map absGlyph) (f m g) = af (absSet m) (absGlyph g)

def aUpdOne (n : String) (af : AGlyphSet → AGlyph → Except GErr (Option AGlyph)) (A : AGlyphSet) :
    Except GErr AGlyphSet :=
  match alookup n A with
  | none => .ok A
  | some a =>
    match af A a with
    | .error e => .error e
    | .ok none => .ok A
    | .ok (some a') => .ok (aSet A n a')

theorem updOne_abs (n : String) (f : GlyphSet → Glyph → Except GErr (Option Glyph × Bool))
    (af : AGlyphSet → AGlyph → Except GErr (Option AGlyph)) (hf : Abstracts f af) (m : GlyphSet) :
    mapExcept absSet (updOne n f m) = aUpdOne n af (absSet m) := by
  unfold updOne aUpdOne
  rw [alookup_absSet]
  have hget : m.get? n = alookup n m := rfl
  rw [hget]
  cases hb : alookup n m with
  | none => simp [mapExcept]
  | some g =>
    simp only [Option.map_some]
    rw [← hf m g]
    cases hfm : f m g with
    | error e => simp [mapExcept]
    | ok r =>
      obtain ⟨og, fl⟩ := r
      cases og with
      | none => simp [mapExcept]
      | some g' => simp [mapExcept, absSet_set]

theorem perMaster_none_allAbs (n : String) (visit : GlyphSet → Glyph → List String)
    (f : GlyphSet → Glyph → Except GErr (Option Glyph × Bool))
    (af : AGlyphSet → AGlyph → Except GErr (Option AGlyph)) (hf : Abstracts f af)
    (s s' : St) (fl fl' : Bool) (A : AGlyphSet) (hA : AllAbs s.ms A)
    (h : perMaster none n visit f (List.range s.ms.length) s fl = .ok (s', fl')) :
    ∃ A', AllAbs s'.ms A' := by
  obtain ⟨hl, hall⟩ := perMaster_none_all n visit f s s' fl fl' h
  cases hu : aUpdOne n af A with
  | error e =>
    -- then no master can have been updated successfully: the family is empty
    refine ⟨A, ?_⟩
    intro m' hm'
    obtain ⟨j, hj', rfl⟩ := List.mem_iff_getElem.mp hm'
    have hj : j < s.ms.length := by omega
    have h1 := hall j hj hj'
    have h2 := updOne_abs n f af hf s.ms[j]
    rw [h1, hA _ (List.getElem_mem hj), hu] at h2
    simp [mapExcept] at h2
  | ok A' =>
    refine ⟨A', ?_⟩
    intro m' hm'
    obtain ⟨j, hj', rfl⟩ := List.mem_iff_getElem.mp hm'
    have hj : j < s.ms.length := by omega
    have h1 := hall j hj hj'
    have h2 := updOne_abs n f af hf s.ms[j]
    rw [h1, hA _ (List.getElem_mem hj), hu] at h2
    simpa [mapExcept] using h2

/-- the shape-level counterpart of `decomposeOp` -/
def aDecomposeOp (nested : Bool) (incl : Option (List String)) (A : AGlyphSet) (a : AGlyph) :
    Except GErr (Option AGlyph) :=
  match aDecomposeGlyph A nested incl a with
  | .error e => .error e
  | .ok a' => .ok (some a')

theorem decomposeOp_abstracts (nested : Bool) (incl : Option (List String)) :
    Abstracts (decomposeOp nested incl) (aDecomposeOp nested incl) := by
  intro m g
  unfold decomposeOp aDecomposeOp
  rw [← decomposeGlyph_shape]
  cases decomposeGlyph m nested incl g with
  | error e => simp [mapExcept]
  | ok g' => simp [mapExcept]

/-! ### the loop of BaseIFilter.__call__ keeps any invariant its steps keep -/

theorem iLoop_inv (P : St → Prop) (incl : Glyph → Bool) (step : St → String → Except GErr (St × Bool))
    (hstep : ∀ s n s' r, P s → step s n = .ok (s', r) → P s') :
    ∀ (order : List String) (s s' : St) (md md' : List String),
      P s → iLoop incl step order (s, md) = .ok (s', md') → P s' := by
  intro order
  induction order with
  | nil =>
    intro s s' md md' hP h
    simp only [iLoop] at h
    have := Except.ok.inj h
    rw [← (Prod.mk.inj this).1]; exact hP
  | cons n ns ih =>
    intro s s' md md' hP h
    unfold iLoop at h
    by_cases h1 : md.contains n = true
    · rw [if_pos h1] at h; exact ih s s' md md' hP h
    · rw [if_neg h1] at h
      by_cases h2 : (glyphsNamed s.ms n).any incl = true
      · rw [if_pos h2] at h
        cases hs : step s n with
        | error e => rw [hs] at h; cases h
        | ok r =>
          obtain ⟨s1, r1⟩ := r
          rw [hs] at h
          exact ih s1 s' _ md' (hstep s n s1 r1 hP hs) h
      · rw [if_neg h2] at h; exact ih s s' md md' hP h

theorem runI_inv (P : St → Prop) (incl : Glyph → Bool) (step : St → String → Except GErr (St × Bool))
    (hstep : ∀ s n s' r, P s → step s n = .ok (s', r) → P s') (hord : ∀ s o, P s → P { s with orders := o })
    (s s' : St) (md : List String)
    (hP : P s) (h : runI incl step s = .ok (s', md)) : P s' := by
  unfold runI at h
  dsimp only at h
  split at h
  · cases h
  · exact iLoop_inv P incl step hstep _ _ s' [] md (hord s _ hP) h

/-- one `DecomposeComponentsIFilter.filter` / `SkipExportGlyphsIFilter.filter` call keeps the masters alike -/
theorem decomposeIStep_allAbs (s : St) (n : String) (s' : St) (r : Bool)
    (hP : ∃ A, AllAbs s.ms A) (h : decomposeIStep none s n = .ok (s', r)) : ∃ A, AllAbs s'.ms A := by
  obtain ⟨A, hA⟩ := hP
  unfold decomposeIStep at h
  by_cases hc : (!(glyphsNamed s.ms n).any (fun g => !g.comps.isEmpty)) = true
  · rw [if_pos hc] at h
    have := Except.ok.inj h
    rw [← (Prod.mk.inj this).1]; exact ⟨A, hA⟩
  · rw [if_neg hc] at h
    simp only [ensureComposite] at h
    cases hp : perMaster none n (decomposeVisit true none) (decomposeOp true none) (List.range s.ms.length) s true with
    | error e => rw [hp] at h; cases h
    | ok res =>
      obtain ⟨s2, fl⟩ := res
      rw [hp] at h
      have := Except.ok.inj h
      rw [← (Prod.mk.inj this).1]
      exact perMaster_none_allAbs n _ _ _ (decomposeOp_abstracts true none) s s2 true fl A hA hp

theorem skipIStep_allAbs (skip : List String) (s : St) (n : String) (s' : St) (r : Bool)
    (hP : ∃ A, AllAbs s.ms A) (h : skipIStep none skip s n = .ok (s', r)) : ∃ A, AllAbs s'.ms A := by
  obtain ⟨A, hA⟩ := hP
  unfold skipIStep at h
  dsimp only at h
  split at h
  · have := Except.ok.inj h
    rw [← (Prod.mk.inj this).1]; exact ⟨A, hA⟩
  · simp only [ensureComposite] at h
    cases hp : perMaster none n (decomposeVisit false (some skip)) (decomposeOp false (some skip))
        (List.range s.ms.length) s true with
    | error e => rw [hp] at h; cases h
    | ok res =>
      obtain ⟨s2, fl⟩ := res
      rw [hp] at h
      have := Except.ok.inj h
      rw [← (Prod.mk.inj this).1]
      exact perMaster_none_allAbs n _ _ _ (decomposeOp_abstracts false (some skip)) s s2 true fl A hA hp


/-! ### flattening acts on shapes -/

theorem det_translate (t : Affine) (x y : Q) : (t.translate x y).det = t.det := by
  simp only [Affine.translate, Affine.det_compose]
  have : (⟨1, 0, 0, 1, x, y⟩ : Affine).det = 1 := by simp only [Affine.det]; grind
  rw [this]; grind

theorem isSimpleOrMixed_abs (g : Glyph) : aIsSimpleOrMixed (absGlyph g) = isSimpleOrMixed g := by
  simp [aIsSimpleOrMixed, isSimpleOrMixed, absGlyph]

def FlatOne (gs : GlyphSet) (fuel : Nat) : Prop :=
  ∀ k, mapExcept (List.map absComp) (flattenComp fuel gs k) = aFlattenComp fuel (absSet gs) (absComp k)

def FlatMany (gs : GlyphSet) (fuel : Nat) : Prop :=
  ∀ outer ks, mapExcept (List.map absComp) (flattenNested fuel gs outer ks)
    = aFlattenNested fuel (absSet gs) (absComp outer) (ks.map absComp)

theorem flatMany_of_flatOne (gs : GlyphSet) (fuel : Nat) (h1 : FlatOne gs fuel) : FlatMany gs fuel := by
  intro outer ks
  induction ks with
  | nil => simp [flattenNested, aFlattenNested, mapExcept]
  | cons n ns ih =>
    simp only [flattenNested, List.map_cons, aFlattenNested]
    rw [← h1 n, ← ih]
    cases flattenComp fuel gs n with
    | error e => simp [mapExcept]
    | ok fl =>
      cases flattenNested fuel gs outer ns with
      | error e => simp [mapExcept]
      | ok r =>
        simp only [mapExcept, List.map_append, List.map_map]
        congr 2
        apply List.map_congr_left
        intro c _
        simp only [Function.comp, absComp]
        congr 1
        rw [sgn_det_compose, det_translate]
        have : (⟨c.t.xx, c.t.xy, c.t.yx, c.t.yy, 0, 0⟩ : Affine).det = c.t.det := by simp [Affine.det]
        rw [this]

theorem flatOne_succ (gs : GlyphSet) (fuel : Nat) (h2 : FlatMany gs fuel) : FlatOne gs (fuel + 1) := by
  intro k
  unfold flattenComp aFlattenComp
  have hb : (absComp k).base = k.base := rfl
  rw [hb, alookup_absSet]
  have hget : gs.get? k.base = alookup k.base gs := rfl
  rw [hget]
  cases alookup k.base gs with
  | none => simp [mapExcept]
  | some b =>
    simp only [Option.map_some, isSimpleOrMixed_abs]
    by_cases hs : isSimpleOrMixed b = true
    · simp [hs, mapExcept]
    · simp only [hs]
      have := h2 k b.comps
      simpa [absGlyph] using this

theorem flat_all (gs : GlyphSet) : ∀ fuel, FlatOne gs fuel ∧ FlatMany gs fuel := by
  intro fuel
  induction fuel with
  | zero =>
    have h0 : FlatOne gs 0 := by intro k; simp [flattenComp, aFlattenComp, mapExcept]
    exact ⟨h0, flatMany_of_flatOne gs 0 h0⟩
  | succ n ih =>
    have h1 := flatOne_succ gs n ih.2
    exact ⟨h1, flatMany_of_flatOne gs (n + 1) h1⟩

/-- **flattening acts on shapes** (the `flattened` flag is not part of the shape) -/
theorem flattenGlyphComps_shape (gs : GlyphSet) (ks : List Comp) :
    mapExcept (fun r => r.1.map absComp) (flattenGlyphComps gs ks) = aFlattenGlyphComps (absSet gs) (ks.map absComp) := by
  induction ks with
  | nil => simp [flattenGlyphComps, aFlattenGlyphComps, mapExcept]
  | cons k ks ih =>
    simp only [flattenGlyphComps, List.map_cons, aFlattenGlyphComps, length_absSet]
    rw [← (flat_all gs (gs.length + 1)).1 k, ← ih]
    cases flattenComp (gs.length + 1) gs k with
    | error e => simp [mapExcept]
    | ok fl =>
      cases fl with
      | nil => simp [mapExcept]
      | cons h t =>
        simp only [mapExcept, List.map_cons, List.head?_cons]
        cases flattenGlyphComps gs ks with
        | error e => simp [mapExcept]
        | ok r => simp [mapExcept]

def aFlattenOp (A : AGlyphSet) (a : AGlyph) : Except GErr (Option AGlyph) :=
  if a.comps.isEmpty then .ok none
  else match aFlattenGlyphComps A a.comps with
    | .error e => .error e
    | .ok cs => .ok (some { a with comps := cs })

theorem flattenOp_abstracts : Abstracts flattenOp aFlattenOp := by
  intro m g
  unfold flattenOp aFlattenOp
  have hc : (absGlyph g).comps.isEmpty = g.comps.isEmpty := by simp [absGlyph]
  rw [hc]
  by_cases he : g.comps.isEmpty = true
  · simp [he, mapExcept]
  · simp only [he]
    have ec : (absGlyph g).comps = g.comps.map absComp := rfl
    rw [ec, ← flattenGlyphComps_shape]
    cases flattenGlyphComps m g.comps with
    | error e => simp [mapExcept]
    | ok r => obtain ⟨cs, f⟩ := r; simp [mapExcept, absGlyph]

theorem flattenIStep_allAbs (s : St) (n : String) (s' : St) (r : Bool)
    (hP : ∃ A, AllAbs s.ms A) (h : flattenIStep none s n = .ok (s', r)) : ∃ A, AllAbs s'.ms A := by
  obtain ⟨A, hA⟩ := hP
  unfold flattenIStep at h
  dsimp only at h
  split at h
  · have := Except.ok.inj h
    rw [← (Prod.mk.inj this).1]; exact ⟨A, hA⟩
  · split at h
    · have := Except.ok.inj h
      rw [← (Prod.mk.inj this).1]; exact ⟨A, hA⟩
    · exact perMaster_none_allAbs n _ _ _ flattenOp_abstracts s s' false r A hA h


/-! ### from "alike" to the specification's `compatible` -/

def shapeOfAbs (a : AGlyph) : Shape := (a.contours, a.comps.map (fun k => k.base))

theorem shape_eq_abs (g : Glyph) : shape g = shapeOfAbs (absGlyph g) := by
  simp [shape, shapeOfAbs, absGlyph, absComp, List.map_map, Function.comp_def]

theorem allEq_of_const {α} [BEq α] [LawfulBEq α] (l : List α) (c : α) (h : ∀ x ∈ l, x = c) : allEq l = true := by
  cases l with
  | nil => rfl
  | cons a l =>
    simp only [allEq, List.all_eq_true]
    intro b hb
    rw [h b (List.mem_cons_of_mem _ hb), h a List.mem_cons_self]
    exact beq_self_eq_true c

/-- masters that are alike are point-compatible in the sense of the specification -/
theorem compatible_of_allAbs (ms : Masters) (A : AGlyphSet) (hA : AllAbs ms A) : compatible ms = true := by
  simp only [compatible, List.all_eq_true]
  intro n _
  cases hl : alookup n A with
  | none =>
    -- no master has the glyph
    apply allEq_of_const _ (shapeOfAbs ⟨[], []⟩)
    intro x hx
    simp only [shapesOf, glyphsNamed, List.mem_map, List.mem_filter, List.mem_filterMap] at hx
    obtain ⟨g, ⟨⟨m, hm, hg⟩, _⟩, _⟩ := hx
    have := alookup_absSet n m
    rw [hA m hm, hl] at this
    have hg' : alookup n m = some g := hg
    rw [hg'] at this; cases this
  | some a =>
    apply allEq_of_const _ (shapeOfAbs a)
    intro x hx
    simp only [shapesOf, glyphsNamed, List.mem_map, List.mem_filter, List.mem_filterMap] at hx
    obtain ⟨g, ⟨⟨m, hm, hg⟩, _⟩, rfl⟩ := hx
    have := alookup_absSet n m
    rw [hA m hm, hl] at this
    have hg' : alookup n m = some g := hg
    rw [hg'] at this
    simp only [Option.map_some, Option.some.injEq] at this
    rw [shape_eq_abs, ← this]

/-! ### C09_decompose: the filters and the pre-processors keep alike masters alike -/

/-- **C09_decompose** (joint decomposition).  Masters with equal shapes and equal determinant signs are still alike —
    hence point-compatible — after `DecomposeComponentsIFilter` with ANY include predicate (in particular
    `include=needs_decomposition` of the TrueType pre-processor and the unconditional one of the CFF pre-processor). -/
theorem C09_decompose (incl : Glyph → Bool) (s s' : St) (md : List String) (A : AGlyphSet) (hA : AllAbs s.ms A)
    (h : runI incl (decomposeIStep none) s = .ok (s', md)) : (∃ A', AllAbs s'.ms A') ∧ compatible s'.ms = true := by
  have := runI_inv (fun s => ∃ A, AllAbs s.ms A) incl (decomposeIStep none) decomposeIStep_allAbs (fun _ _ h => h) s s' md ⟨A, hA⟩ h
  obtain ⟨A', hA'⟩ := this
  exact ⟨⟨A', hA'⟩, compatible_of_allAbs _ A' hA'⟩

theorem decomposeTransformedIStep_allAbs (s : St) (n : String) (s' : St) (r : Bool)
    (hP : ∃ A, AllAbs s.ms A) (h : decomposeTransformedIStep none s n = .ok (s', r)) : ∃ A, AllAbs s'.ms A := by
  unfold decomposeTransformedIStep at h
  split at h
  · have := Except.ok.inj h
    rw [← (Prod.mk.inj this).1]; exact hP
  · exact decomposeIStep_allAbs s n s' r hP h

theorem updated_ms (s : St) (b : Bool) : (s.updated b).ms = s.ms := by
  unfold St.updated; split <;> rfl

theorem runIU_allAbs (incl : Glyph → Bool) (step : St → String → Except GErr (St × Bool))
    (hstep : ∀ s n s' r, (∃ A, AllAbs s.ms A) → step s n = .ok (s', r) → ∃ A, AllAbs s'.ms A)
    (s s' : St) (hP : ∃ A, AllAbs s.ms A) (h : runIU incl step s = .ok s') : ∃ A, AllAbs s'.ms A := by
  unfold runIU at h
  cases hr : runI incl step s with
  | error e => rw [hr] at h; cases h
  | ok res =>
    obtain ⟨s1, md⟩ := res
    rw [hr] at h
    have := Except.ok.inj h
    rw [← this, updated_ms]
    exact runI_inv (fun s => ∃ A, AllAbs s.ms A) incl step hstep (fun _ _ h => h) s s1 md hP hr

theorem filter_allAbs (ms : Masters) (A : AGlyphSet) (hA : AllAbs ms A) (p : String → Bool) :
    AllAbs (ms.map (fun (m : GlyphSet) => m.filter (fun e => p e.1))) (A.filter (fun e => p e.1)) := by
  intro m' hm'
  obtain ⟨m, hm, rfl⟩ := List.mem_map.mp hm'
  rw [← hA m hm]
  simp only [absSet, List.filter_map]
  rfl

/-- **C09_decompose (skipExportGlyphs)**: pruning non-export glyphs keeps alike masters alike -/
theorem C09_skipExport (skip : List String) (s s' : St) (hP : ∃ A, AllAbs s.ms A)
    (h : skipI none skip s = .ok s') : ∃ A, AllAbs s'.ms A := by
  unfold skipI at h
  split at h
  · have := Except.ok.inj h; rw [← this]; exact hP
  · cases hr : runI (fun _ => true) (skipIStep none skip) s with
    | error e => rw [hr] at h; cases h
    | ok res =>
      obtain ⟨s1, md⟩ := res
      rw [hr] at h
      have := Except.ok.inj h
      rw [← this, updated_ms]
      obtain ⟨A1, hA1⟩ := runI_inv (fun s => ∃ A, AllAbs s.ms A) _ _ (skipIStep_allAbs skip) (fun _ _ h => h) s s1 md hP hr
      exact ⟨_, filter_allAbs s1.ms A1 hA1 (fun n => !skip.contains n)⟩

/-- **C09_decompose (flattenComponents)** -/
theorem C09_flatten (s s' : St) (hP : ∃ A, AllAbs s.ms A) (h : flattenI none s = .ok s') : ∃ A, AllAbs s'.ms A :=
  runIU_allAbs _ _ flattenIStep_allAbs s s' hP h

theorem reverseAll_allAbs (ms : Masters) (A : AGlyphSet) (hA : AllAbs ms A) :
    AllAbs (reverseAll ms) (A.map (fun e => (e.1, (⟨e.2.contours.map reverseShape, e.2.comps⟩ : AGlyph)))) := by
  intro m' hm'
  obtain ⟨m, hm, rfl⟩ := List.mem_map.mp hm'
  rw [← hA m hm]
  simp only [absSet, List.map_map]
  apply List.map_congr_left
  intro e _
  simp only [Function.comp, absGlyph, List.map_map]
  congr 2
  apply List.map_congr_left
  intro c _
  exact reverseContour_shape c

/-- in each phase (pre / post) either every UFO carries a custom filter or none does: then they run as ONE
    interpolatable filter (otherwise ufo2ft applies each to its own glyph set "and hopes for the best") -/
def UniformCustom (cfg : Cfg) : Prop :=
  ∀ pre, (customPhase cfg pre).all Option.isSome = true ∨ ((customPhase cfg pre).filterMap id).isEmpty = true

theorem runCustom_allAbs (cfg : Cfg) (hi : cfg.inst = none) (hu : UniformCustom cfg) (pre : Bool) (s s' : St)
    (hP : ∃ A, AllAbs s.ms A) (h : runCustom cfg pre s = .ok s') : ∃ A, AllAbs s'.ms A := by
  unfold runCustom at h
  dsimp only at h
  split at h
  · have := Except.ok.inj h; rw [← this]; exact hP
  · rename_i hne
    split at h
    · rw [hi] at h
      exact runIU_allAbs _ _ decomposeTransformedIStep_allAbs s s' hP h
    · rename_i hns
      rcases hu pre with hu | hu
      · exact absurd hu hns
      · exact absurd hu hne


/-! ### the pre-processors -/

theorem decomposeNeeded_allAbs (s s' : St) (hP : ∃ A, AllAbs s.ms A) (h : decomposeNeeded none s = .ok s') :
    ∃ A, AllAbs s'.ms A := by
  unfold decomposeNeeded at h
  dsimp only at h
  split at h
  · have := Except.ok.inj h; rw [← this]; exact hP
  · exact runIU_allAbs _ _ decomposeIStep_allAbs s s' hP h

/-- **C09 (CFF pre-processor)**: `OTFInterpolatablePreProcessor` (skipExportGlyphs, uniform custom filters, unconditional
    joint decomposition; no Instantiator) keeps alike masters alike, hence point-compatible. -/
theorem C09_pipeline_otf (cfg : Cfg) (ms : Masters) (o : PreOut) (hi : cfg.inst = none) (hu : UniformCustom cfg)
    (A : AGlyphSet) (hA : AllAbs ms A) (h : preprocessOTF cfg ms = .ok o) :
    (∃ A', AllAbs o.final A') ∧ compatible o.final = true := by
  unfold preprocessOTF at h
  rw [hi] at h
  cases h1 : skipI none cfg.skip ⟨ms, none, [], cfg.orders⟩ with
  | error e => rw [h1] at h; cases h
  | ok s1 =>
    rw [h1] at h; dsimp only at h
    have p1 := C09_skipExport cfg.skip _ s1 ⟨A, hA⟩ h1
    cases h2 : runCustom cfg true s1 with
    | error e => rw [h2] at h; cases h
    | ok s2 =>
      rw [h2] at h; dsimp only at h
      have p2 := runCustom_allAbs cfg hi hu true s1 s2 p1 h2
      cases h3 : runIU (fun _ => true) (decomposeIStep none) s2 with
      | error e => rw [h3] at h; cases h
      | ok s3 =>
        rw [h3] at h; dsimp only at h
        have p3 := runIU_allAbs _ _ decomposeIStep_allAbs s2 s3 p2 h3
        cases h4 : runCustom cfg false s3 with
        | error e => rw [h4] at h; cases h
        | ok s4 =>
          rw [h4] at h; dsimp only at h
          have p4 := runCustom_allAbs cfg hi hu false s3 s4 p3 h4
          have := Except.ok.inj h
          rw [← this]
          obtain ⟨A', hA'⟩ := p4
          exact ⟨⟨A', hA'⟩, compatible_of_allAbs _ A' hA'⟩

/-- **C09_cu2qu_partial** (TrueType pre-processor).  `TTFInterpolatablePreProcessor.process` (skipExportGlyphs, uniform
    custom filters, joint decomposition of `needs_decomposition`, cu2qu or per-UFO reversal, joint flattening; no
    Instantiator) keeps alike masters alike, hence point-compatible — PROVIDED `fonts_to_quadratic`, which is external and
    is called ONCE on all glyph sets, returns alike glyph sets when it is given alike glyph sets (`hcu`; measured on every
    generated family, not proved).  Partial: cu2qu's joint-conversion contract is a hypothesis. -/
theorem C09_cu2qu_partial (cfg : Cfg) (ms : Masters) (o : PreOut) (hi : cfg.inst = none) (hu : UniformCustom cfg)
    (A : AGlyphSet) (hA : AllAbs ms A)
    (hcu : ∀ pre q, o.beforeCu2qu = some pre → cfg.cu2qu = some q → (∃ A, AllAbs pre A) → ∃ A', AllAbs q A')
    (h : preprocessTTF cfg ms = .ok o) :
    (∃ A', AllAbs o.final A') ∧ compatible o.final = true := by
  unfold preprocessTTF at h
  rw [hi] at h
  cases h1 : skipI none cfg.skip ⟨ms, none, [], cfg.orders⟩ with
  | error e => rw [h1] at h; cases h
  | ok s1 =>
    rw [h1] at h; dsimp only at h
    have p1 := C09_skipExport cfg.skip _ s1 ⟨A, hA⟩ h1
    cases h2 : runCustom cfg true s1 with
    | error e => rw [h2] at h; cases h
    | ok s2 =>
      rw [h2] at h; dsimp only at h
      have p2 := runCustom_allAbs cfg hi hu true s1 s2 p1 h2
      cases h3 : decomposeNeeded none s2 with
      | error e => rw [h3] at h; cases h
      | ok s3 =>
        rw [h3] at h; dsimp only at h
        have p3 := decomposeNeeded_allAbs s2 s3 p2 h3
        cases h4 : curvesStep cfg s3 with
        | error e => rw [h4] at h; cases h
        | ok r4 =>
          obtain ⟨before, s4⟩ := r4
          rw [h4] at h; dsimp only at h
          cases h5 : (if cfg.flatten = true then flattenI none s4 else Except.ok s4) with
          | error e => rw [h5] at h; cases h
          | ok s5 =>
            rw [h5] at h; dsimp only at h
            cases h6 : runCustom cfg false s5 with
            | error e => rw [h6] at h; cases h
            | ok s6 =>
              rw [h6] at h; dsimp only at h
              have ho := Except.ok.inj h
              have hb : o.beforeCu2qu = before := by rw [← ho]
              have p4 : ∃ A, AllAbs s4.ms A := by
                unfold curvesStep at h4
                split at h4
                · cases hq : cfg.cu2qu with
                  | none => rw [hq] at h4; cases h4
                  | some q =>
                    rw [hq] at h4; dsimp only at h4
                    have e4 := Prod.mk.inj (Except.ok.inj h4)
                    rw [← e4.2, updated_ms]
                    exact hcu s3.ms q (by rw [hb, ← e4.1]) hq p3
                · split at h4
                  · have e4 := Prod.mk.inj (Except.ok.inj h4)
                    rw [← e4.2, updated_ms]
                    obtain ⟨A3, hA3⟩ := p3
                    exact ⟨_, reverseAll_allAbs s3.ms A3 hA3⟩
                  · have e4 := Prod.mk.inj (Except.ok.inj h4)
                    rw [← e4.2]; exact p3
              have p5 : ∃ A, AllAbs s5.ms A := by
                split at h5
                · exact C09_flatten s4 s5 p4 h5
                · have := Except.ok.inj h5; rw [← this]; exact p4
              have p6 := runCustom_allAbs cfg hi hu false s5 s6 p5 h6
              rw [← ho]
              obtain ⟨A', hA'⟩ := p6
              exact ⟨⟨A', hA'⟩, compatible_of_allAbs _ A' hA'⟩


/-! ### C09_joint: the decision to decompose is taken for a NAME, in all masters or in none -/

theorem mem_dedupAux {α} [BEq α] [LawfulBEq α] (l seen : List α) (a : α) :
    a ∈ dedupAux l seen ↔ a ∈ l ∧ a ∉ seen := by
  induction l generalizing seen with
  | nil => simp [dedupAux]
  | cons b l ih =>
    unfold dedupAux
    by_cases hb : seen.contains b = true
    · rw [if_pos hb, ih]
      have hbs : b ∈ seen := by simpa using hb
      constructor
      · rintro ⟨h1, h2⟩; exact ⟨List.mem_cons_of_mem _ h1, h2⟩
      · rintro ⟨h1, h2⟩
        rcases List.mem_cons.mp h1 with rfl | h1
        · exact absurd hbs h2
        · exact ⟨h1, h2⟩
    · rw [if_neg hb]
      have hbs : b ∉ seen := by simpa using hb
      simp only [List.mem_cons, ih]
      constructor
      · rintro (rfl | ⟨h1, h2⟩)
        · exact ⟨Or.inl rfl, hbs⟩
        · exact ⟨Or.inr h1, fun h => h2 (Or.inr h)⟩
      · rintro ⟨h1, h2⟩
        by_cases hab : a = b
        · exact Or.inl hab
        · rcases h1 with rfl | h1
          · exact absurd rfl hab
          · exact Or.inr ⟨h1, fun h => by rcases h with h | h; exact hab h; exact h2 h⟩

theorem mem_dedupFirst {α} [BEq α] [LawfulBEq α] (l : List α) (a : α) : a ∈ dedupFirst l ↔ a ∈ l := by
  simp [dedupFirst, mem_dedupAux]

/-- **C09_joint (the set)**: `needs_decomposition` is a set of glyph NAMES: a name is in it iff the glyph is mixed
    (contours and components) in ANY master, or `check_for_nonmatching_components` finds its 2×2 parts differing. -/
theorem C09_joint (ms : Masters) (n : String) :
    n ∈ needsDecomposition ms ↔
      (∃ m ∈ ms, ∃ g, (n, g) ∈ m ∧ isMixed g = true) ∨ (n ∈ allNames ms ∧ nonMatching ms n = true) := by
  unfold needsDecomposition
  simp only [List.mem_append, List.mem_filter, Bool.and_eq_true, Bool.not_eq_true']
  have hm : n ∈ mixedNames ms ↔ ∃ m ∈ ms, ∃ g, (n, g) ∈ m ∧ isMixed g = true := by
    simp only [mixedNames, mem_dedupFirst, List.mem_flatMap, List.mem_map, List.mem_filter]
    constructor
    · rintro ⟨m, hm, ⟨e, ⟨he, hx⟩, rfl⟩⟩; exact ⟨m, hm, e.2, he, hx⟩
    · rintro ⟨m, hm, g, hg, hx⟩; exact ⟨m, hm, (n, g), ⟨hg, hx⟩, rfl⟩
  rw [← hm]
  constructor
  · rintro (h | ⟨h1, h2, h3⟩)
    · exact Or.inl h
    · exact Or.inr ⟨h1, h3⟩
  · rintro (h | ⟨h1, h3⟩)
    · exact Or.inl h
    · by_cases hc : n ∈ mixedNames ms
      · exact Or.inl hc
      · exact Or.inr ⟨h1, by simpa using hc, h3⟩

def NoCompsOne (gs : GlyphSet) (fuel : Nat) : Prop :=
  ∀ rf nested base t D, addComp fuel gs rf nested none base t = .ok D → D.comps = []
def NoCompsMany (gs : GlyphSet) (fuel : Nat) : Prop :=
  ∀ rf nested t ks D, addComps fuel gs rf nested none t ks = .ok D → D.comps = []

theorem noCompsMany_of_one (gs : GlyphSet) (fuel : Nat) (h1 : NoCompsOne gs fuel) : NoCompsMany gs fuel := by
  intro rf nested t ks
  induction ks with
  | nil => intro D hD; simp only [addComps] at hD; cases hD; rfl
  | cons k ks ih =>
    intro D hD
    simp only [addComps] at hD
    cases hk : addComp fuel gs rf nested none k.base (t.compose k.t) with
    | error e => rw [hk] at hD; cases hD
    | ok d =>
      rw [hk] at hD
      cases hr : addComps fuel gs rf nested none t ks with
      | error e => rw [hr] at hD; cases hD
      | ok d' =>
        rw [hr] at hD
        have := Except.ok.inj hD
        subst this
        simp [Drawn.append, h1 rf nested k.base _ d hk, ih d' hr]

theorem noCompsOne_succ (gs : GlyphSet) (fuel : Nat) (h2 : NoCompsMany gs fuel) : NoCompsOne gs (fuel + 1) := by
  intro rf nested base t D hD
  unfold addComp at hD
  simp only [isIncluded, if_true] at hD
  cases hb : gs.get? base with
  | none => rw [hb] at hD; cases hD
  | some b =>
    rw [hb] at hD
    dsimp only at hD
    have hin : inclNested nested none = none := rfl
    rw [hin] at hD
    cases hd : addComps fuel gs rf nested none t b.comps with
    | error e => rw [hd] at hD; cases hD
    | ok d =>
      rw [hd] at hD
      have := Except.ok.inj hD
      subst this
      exact h2 rf nested t b.comps d hd

theorem noComps_all (gs : GlyphSet) : ∀ fuel, NoCompsOne gs fuel ∧ NoCompsMany gs fuel := by
  intro fuel
  induction fuel with
  | zero =>
    have h0 : NoCompsOne gs 0 := by intro rf nested base t D hD; simp only [addComp] at hD; cases hD
    exact ⟨h0, noCompsMany_of_one gs 0 h0⟩
  | succ n ih =>
    have h1 := noCompsOne_succ gs n ih.2
    exact ⟨h1, noCompsMany_of_one gs (n + 1) h1⟩

/-- unconditional decomposition leaves no component -/
theorem decomposeGlyph_no_comps (gs : GlyphSet) (nested : Bool) (g g' : Glyph)
    (h : decomposeGlyph gs nested none g = .ok g') : g'.comps = [] := by
  unfold decomposeGlyph at h
  cases hd : addComps (gs.length + 1) gs true nested none Affine.id g.comps with
  | error e => rw [hd] at h; cases h
  | ok d =>
    rw [hd] at h
    have := Except.ok.inj h
    rw [← this]
    exact (noComps_all gs _).2 true nested Affine.id g.comps d hd

/-- **C09_joint (the step)**: one call of `DecomposeComponentsIFilter.filter` for a glyph name either touches NO master
    (`false`, nothing changed) or decomposes the glyph in ALL masters that have it (`true`, no component is left in any). -/
theorem C09_joint_step (s s' : St) (n : String) (r : Bool) (h : decomposeIStep none s n = .ok (s', r)) :
    (r = false ∧ s' = s) ∨
    (r = true ∧ s'.ms.length = s.ms.length ∧
      ∀ m' ∈ s'.ms, ∀ g', m'.get? n = some g' → g'.comps = []) := by
  unfold decomposeIStep at h
  by_cases hc : (!(glyphsNamed s.ms n).any (fun g => !g.comps.isEmpty)) = true
  · rw [if_pos hc] at h
    have := Prod.mk.inj (Except.ok.inj h)
    exact Or.inl ⟨this.2.symm, this.1.symm⟩
  · rw [if_neg hc] at h
    simp only [ensureComposite] at h
    cases hp : perMaster none n (decomposeVisit true none) (decomposeOp true none) (List.range s.ms.length) s true with
    | error e => rw [hp] at h; cases h
    | ok res =>
      obtain ⟨s2, fl⟩ := res
      rw [hp] at h
      have e := Prod.mk.inj (Except.ok.inj h)
      refine Or.inr ⟨e.2.symm, ?_⟩
      rw [← e.1]
      obtain ⟨hl, hall⟩ := perMaster_none_all n _ _ s s2 true fl hp
      refine ⟨hl, ?_⟩
      intro m' hm' g' hg'
      obtain ⟨j, hj', rfl⟩ := List.mem_iff_getElem.mp hm'
      have hj : j < s.ms.length := by omega
      have hu := hall j hj hj'
      unfold updOne at hu
      cases hget : s.ms[j].get? n with
      | none =>
        rw [hget] at hu
        have := Except.ok.inj hu
        rw [← this, hget] at hg'; cases hg'
      | some g =>
        rw [hget] at hu
        dsimp only at hu
        unfold decomposeOp at hu
        cases hd : decomposeGlyph s.ms[j] true none g with
        | error e => rw [hd] at hu; cases hu
        | ok g2 =>
          rw [hd] at hu
          dsimp only at hu
          have := Except.ok.inj hu
          rw [← this, get?_set _ _ _ _ _ hget] at hg'
          simp only [if_true] at hg'
          have : g2 = g' := Option.some.inj hg'
          rw [← this]
          exact decomposeGlyph_no_comps _ _ _ _ hd

/-! ### C09_sparse (partial): what can enter a master's glyph set -/

/-- `n` is tied to location `l` by component references: some master's glyph `n` has an (included) component whose base
    exists at `l`, or is itself tied to `l` -/
inductive Tied (I : Inst) (ms : Masters) (incl : Option (List String)) (l : Q) : String → Prop
  | direct (n : String) (g : Glyph) (k : Comp) : g ∈ glyphsNamed ms n → k ∈ g.comps → isIncluded incl k.base = true →
      l ∈ sourceLocs I ms k.base → Tied I ms incl l n
  | through (n : String) (g : Glyph) (k : Comp) : g ∈ glyphsNamed ms n → k ∈ g.comps → isIncluded incl k.base = true →
      Tied I ms incl l k.base → Tied I ms incl l n

theorem mem_unionQ (a b : List Q) (x : Q) : x ∈ unionQ a b ↔ x ∈ a ∨ x ∈ b := by
  unfold unionQ
  induction b generalizing a with
  | nil => simp
  | cons y b ih =>
    simp only [List.foldl_cons]
    rw [ih]
    by_cases hy : a.contains y = true
    · rw [if_pos hy]
      have : y ∈ a := by simpa using hy
      constructor
      · rintro (h | h); exact Or.inl h; exact Or.inr (List.mem_cons_of_mem _ h)
      · rintro (h | h)
        · exact Or.inl h
        · rcases List.mem_cons.mp h with rfl | h
          · exact Or.inl this
          · exact Or.inr h
    · rw [if_neg hy]
      simp only [List.mem_append, List.mem_cons, List.not_mem_nil, false_or, or_assoc]

theorem mem_foldl_unionQ {α} (f : α → List Q) (l : List α) (init : List Q) (x : Q) :
    x ∈ l.foldl (fun acc g => unionQ acc (f g)) init ↔ x ∈ init ∨ ∃ g ∈ l, x ∈ f g := by
  induction l generalizing init with
  | nil => simp
  | cons a l ih =>
    simp only [List.foldl_cons, ih, mem_unionQ, List.mem_cons]
    constructor
    · rintro ((h | h) | ⟨g, hg, hx⟩)
      · exact Or.inl h
      · exact Or.inr ⟨a, Or.inl rfl, h⟩
      · exact Or.inr ⟨g, Or.inr hg, hx⟩
    · rintro (h | ⟨g, hg | hg, hx⟩)
      · exact Or.inl (Or.inl h)
      · subst hg; exact Or.inl (Or.inr hx)
      · exact Or.inr ⟨g, hg, hx⟩

def LocsSoundOne (I : Inst) (ms : Masters) (incl : Option (List String)) (fuel : Nat) : Prop :=
  ∀ n l, l ∈ locsFromComps fuel I ms incl n → Tied I ms incl l n
def LocsSoundMany (I : Inst) (ms : Masters) (incl : Option (List String)) (fuel : Nat) : Prop :=
  ∀ ks l, l ∈ locsOfComps fuel I ms incl ks →
    ∃ k ∈ ks, isIncluded incl k.base = true ∧ (l ∈ sourceLocs I ms k.base ∨ Tied I ms incl l k.base)

theorem locsSound (I : Inst) (ms : Masters) (incl : Option (List String)) :
    ∀ fuel, LocsSoundOne I ms incl fuel := by
  intro fuel
  induction fuel with
  | zero => intro n l h; simp [locsFromComps] at h
  | succ f ih =>
    have many : LocsSoundMany I ms incl f := by
      intro ks
      induction ks with
      | nil => intro l h; simp [locsOfComps] at h
      | cons k ks ihk =>
        intro l h
        unfold locsOfComps at h
        dsimp only at h
        by_cases hi : isIncluded incl k.base = true
        · rw [if_pos hi] at h
          rcases (mem_unionQ _ _ _).mp h with h | h
          · rcases (mem_unionQ _ _ _).mp h with h | h
            · exact ⟨k, List.mem_cons_self, hi, Or.inl h⟩
            · exact ⟨k, List.mem_cons_self, hi, Or.inr (ih k.base l h)⟩
          · obtain ⟨k', hk', hx⟩ := ihk l h
            exact ⟨k', List.mem_cons_of_mem _ hk', hx⟩
        · rw [if_neg hi] at h
          obtain ⟨k', hk', hx⟩ := ihk l h
          exact ⟨k', List.mem_cons_of_mem _ hk', hx⟩
    intro n l h
    unfold locsFromComps at h
    rcases (mem_foldl_unionQ _ _ _ _).mp h with h | ⟨g, hg, hx⟩
    · cases h
    · obtain ⟨k, hk, hi, hx⟩ := many g.comps l hx
      rcases hx with hx | hx
      · exact Tied.direct n g k hg hk hi hx
      · exact Tied.through n g k hg hk hi hx

/-- the loop of `ensureCompositeDefinedAtComponentLocations` adds the glyph `n` — and nothing else — to exactly those glyph
    sets whose location is in `toAdd` (and that lack it), leaving every other glyph set as it was -/
theorem ensureLoop_spec (I : Inst) (n : String) (toAdd : List Q) :
    ∀ (idx : List (Nat × Q)) (s s' : St), ensureLoop I n toAdd idx s = .ok s' → (idx.map (·.1)).Nodup →
      s'.ms.length = s.ms.length ∧
      ∀ j, (s'.ms.getD j [] = s.ms.getD j []) ∨
           (∃ l g, (j, l) ∈ idx ∧ l ∈ toAdd ∧ (s.ms.getD j []).get? n = none ∧ s'.ms.getD j [] = s.ms.getD j [] ++ [(n, g)]) := by
  intro idx
  induction idx with
  | nil =>
    intro s s' h _
    simp only [ensureLoop] at h
    have := Except.ok.inj h; subst this
    exact ⟨rfl, fun _ => Or.inl rfl⟩
  | cons e rest ih =>
    obtain ⟨i, l⟩ := e
    intro s s' h hnd
    simp only [List.map_cons, List.nodup_cons] at hnd
    unfold ensureLoop at h
    by_cases hc : toAdd.contains l = true
    · rw [if_pos hc] at h
      cases hg : (s.ms.getD i []).get? n with
      | some g => rw [hg] at h; cases h
      | none =>
        rw [hg] at h
        dsimp only at h
        have hms : (touch (some I) [n] s).ms = s.ms := by
          simp only [touch, List.foldl_cons, List.foldl_nil]
          split
          · rfl
          · split <;> rfl
        cases hi : interpGlyph I (touch (some I) [n] s) n l with
        | none => rw [hi] at h; cases h
        | some g =>
          rw [hi] at h
          dsimp only at h
          obtain ⟨hl, hall⟩ := ih _ s' h hnd.2
          dsimp only at hl hall
          rw [hms] at hl hall
          refine ⟨by rw [hl]; simp [setAt], ?_⟩
          intro j
          by_cases hij : i = j
          · subst hij
            rcases hall i with h1 | ⟨l', g', hmem, _, _, _⟩
            · by_cases hlt : i < s.ms.length
              · right
                refine ⟨l, g, List.mem_cons_self, by simpa using hc, hg, ?_⟩
                rw [h1, getD_setAt_self _ _ _ hlt]
              · left
                rw [h1, getD_nil_of_le s.ms i (by omega)]
                exact getD_nil_of_le _ i (by simp only [setAt, List.length_set]; omega)
            · exfalso
              exact hnd.1 (List.mem_map.mpr ⟨(i, l'), hmem, rfl⟩)
          · rcases hall j with h1 | ⟨l', g', hmem, hl', hnone, heq⟩
            · left; rw [h1, getD_setAt_ne _ _ _ _ hij]
            · right
              rw [getD_setAt_ne _ _ _ _ hij] at hnone heq
              exact ⟨l', g', List.mem_cons_of_mem _ hmem, hl', hnone, heq⟩
    · rw [if_neg hc] at h
      obtain ⟨hl, hall⟩ := ih s s' h hnd.2
      refine ⟨hl, ?_⟩
      intro j
      rcases hall j with h1 | ⟨l', g', hmem, hl', hnone, heq⟩
      · exact Or.inl h1
      · exact Or.inr ⟨l', g', List.mem_cons_of_mem _ hmem, hl', hnone, heq⟩


theorem mem_zip_range (locs : List Q) (n j : Nat) (l : Q) (h : (j, l) ∈ (List.range n).zip locs) :
    locs[j]? = some l := by
  obtain ⟨i, hi, he⟩ := List.mem_iff_getElem.mp h
  rw [List.getElem_zip] at he
  have hi2 : i < locs.length := by simp only [List.length_zip, List.length_range] at hi; omega
  have e := Prod.mk.inj he
  rw [List.getElem_range] at e
  rw [← e.1, ← e.2]
  exact List.getElem?_eq_getElem hi2

theorem zip_fst_sublist {α β} : ∀ (l1 : List α) (l2 : List β), ((l1.zip l2).map (·.1)).Sublist l1
  | [], _ => by simp
  | a :: l1, [] => by simp
  | a :: l1, b :: l2 => by
    simp only [List.zip_cons_cons, List.map_cons]
    exact List.Sublist.cons₂ a (zip_fst_sublist l1 l2)

/-- **C09_sparse_partial (composites)**: `ensureCompositeDefinedAtComponentLocations` changes a glyph set only by
    appending the ONE glyph being filtered, only where it was absent, and only if that glyph is tied by component
    references to a glyph that exists at that source's location; every other glyph set is untouched.
    Partial: this is the step; the pipeline-level statement (`holdsSparse`) is evaluated on the real output, not proved. -/
theorem C09_sparse_partial (I : Inst) (s s' : St) (incl : Option (List String)) (n : String)
    (h : ensureComposite (some I) s incl n = .ok s') :
    s'.ms.length = s.ms.length ∧
    ∀ j, s'.ms.getD j [] = s.ms.getD j [] ∨
      ∃ l g, I.locs[j]? = some l ∧ (s.ms.getD j []).get? n = none ∧
        s'.ms.getD j [] = s.ms.getD j [] ++ [(n, g)] ∧ Tied I s.ms incl l n := by
  unfold ensureComposite at h
  dsimp only at h
  split at h
  · have := Except.ok.inj h; subst this
    exact ⟨rfl, fun _ => Or.inl rfl⟩
  · have hnd : (((List.range s.ms.length).zip I.locs).map (·.1)).Nodup := by
      exact List.Nodup.sublist (zip_fst_sublist _ _) List.nodup_range
    obtain ⟨hl, hall⟩ := ensureLoop_spec I n _ _ s s' h hnd
    refine ⟨hl, ?_⟩
    intro j
    rcases hall j with h1 | ⟨l, g, hmem, hl', hnone, heq⟩
    · exact Or.inl h1
    · right
      refine ⟨l, g, mem_zip_range _ _ _ _ hmem, hnone, heq, ?_⟩
      have hneed := (List.mem_filter.mp hl').1
      exact locsSound I s.ms incl _ n l hneed

/-! placeholders and `.notdef` -/

theorem alookup_none_of {ν} (k : String) (l : List (String × ν)) (h : alookup k l = none) : ∀ e ∈ l, e.1 ≠ k := by
  induction l with
  | nil => intro e he; cases he
  | cons a l ih =>
    obtain ⟨k', v⟩ := a
    simp only [alookup] at h
    by_cases hk : (k' == k) = true
    · rw [if_pos hk] at h; cases h
    · rw [if_neg hk] at h
      intro e he
      rcases List.mem_cons.mp he with rfl | he
      · simpa using hk
      · exact ih h e he

theorem alookup_none_iff {ν} (k : String) (l : List (String × ν)) : alookup k l = none ↔ ∀ e ∈ l, e.1 ≠ k := by
  constructor
  · exact alookup_none_of k l
  · intro h
    induction l with
    | nil => rfl
    | cons a l ih =>
      obtain ⟨k', v⟩ := a
      have hk : ¬ (k' == k) = true := by simpa using h (k', v) List.mem_cons_self
      simp only [alookup, hk]
      exact ih (fun e he => h e (List.mem_cons_of_mem _ he))

/-- what `makeMissingRequiredGlyphs` of the TrueType outline compiler may have appended -/
def PlaceholderOk (m : GlyphSet) (e : String × Glyph) : Prop :=
  e ∈ m ∨ (e.2 = emptyGlyph e.1 ∧ referencedIn m e.1 = true ∧ m.get? e.1 = none)

theorem addPlaceholders_inner (m : GlyphSet) (ks : List Comp) (hks : ∀ k ∈ ks, referencedIn m k.base = true) :
    ∀ acc : GlyphSet, (∀ e ∈ m, e ∈ acc) → (∀ e ∈ acc, PlaceholderOk m e) →
      let acc' := ks.foldl (fun acc k =>
        if (acc.get? k.base).isSome then acc else acc ++ [(k.base, emptyGlyph k.base)]) acc
      (∀ e ∈ m, e ∈ acc') ∧ (∀ e ∈ acc', PlaceholderOk m e) := by
  induction ks with
  | nil => intro acc h1 h2; exact ⟨h1, h2⟩
  | cons k ks ih =>
    intro acc h1 h2
    simp only [List.foldl_cons]
    apply ih (fun k' hk' => hks k' (List.mem_cons_of_mem _ hk'))
    · intro e he
      split
      · exact h1 e he
      · exact List.mem_append_left _ (h1 e he)
    · intro e he
      split at he
      · exact h2 e he
      · rename_i hn
        rcases List.mem_append.mp he with he | he
        · exact h2 e he
        · simp only [List.mem_singleton] at he
          subst he
          right
          refine ⟨rfl, hks k List.mem_cons_self, ?_⟩
          have hnone : acc.get? k.base = none := by
            cases hx : acc.get? k.base with
            | none => rfl
            | some v => rw [hx] at hn; simp at hn
          exact (alookup_none_iff _ _).mpr (fun e he => alookup_none_of _ _ hnone e (h1 e he))

/-- **C09_sparse_partial (placeholders)**: the glyphs the TrueType compiler adds to a non-default master are EMPTY
    (advance 0xFFFF), named after a component base that some glyph of the set references and that the set lacks;
    nothing is removed. -/
theorem C09_placeholders (m : GlyphSet) :
    (∀ e ∈ m, e ∈ addPlaceholders m) ∧ ∀ e ∈ addPlaceholders m, PlaceholderOk m e := by
  unfold addPlaceholders
  suffices H : ∀ (l : GlyphSet), (∀ e ∈ l, e ∈ m) → ∀ acc : GlyphSet, (∀ e ∈ m, e ∈ acc) → (∀ e ∈ acc, PlaceholderOk m e) →
      (∀ e ∈ m, e ∈ l.foldl (fun acc e => e.2.comps.foldl (fun acc k =>
        if (acc.get? k.base).isSome then acc else acc ++ [(k.base, emptyGlyph k.base)]) acc) acc) ∧
      (∀ e ∈ l.foldl (fun acc e => e.2.comps.foldl (fun acc k =>
        if (acc.get? k.base).isSome then acc else acc ++ [(k.base, emptyGlyph k.base)]) acc) acc, PlaceholderOk m e) by
    exact H m (fun e he => he) m (fun e he => he) (fun e he => Or.inl he)
  intro l
  induction l with
  | nil => intro _ acc h1 h2; exact ⟨h1, h2⟩
  | cons a l ih =>
    intro hl acc h1 h2
    simp only [List.foldl_cons]
    have ha : a ∈ m := hl a List.mem_cons_self
    have hks : ∀ k ∈ a.2.comps, referencedIn m k.base = true := by
      intro k hk
      simp only [referencedIn, List.any_eq_true]
      exact ⟨a, ha, k, hk, by simp⟩
    obtain ⟨h1', h2'⟩ := addPlaceholders_inner m a.2.comps hks acc h1 h2
    exact ih (fun e he => hl e (List.mem_cons_of_mem _ he)) _ h1' h2'

/-- `.notdef`: `makeMissingRequiredGlyphs` leaves a glyph set that has `.notdef` alone and otherwise appends exactly one
    glyph named `.notdef` (the empty fallback for designspace builds whose default master has one, else the stub) -/
theorem C09_notdef (cfg : Cfg) (i : Nat) (m : GlyphSet) (hi : cfg.inst = none) :
    addRequired cfg i m = m ∨ ∃ g, addRequired cfg i m = m ++ [(".notdef", g)] ∧ m.get? ".notdef" = none := by
  unfold addRequired
  rw [hi]
  simp only [Bool.not_true, Bool.and_false, if_false]
  by_cases h : (m.get? ".notdef").isSome = true
  · left; simp [h]
  · have hn : m.get? ".notdef" = none := by
      cases hx : m.get? ".notdef" with
      | none => rfl
      | some v => rw [hx] at h; simp at h
    simp only [h]
    by_cases hf : cfg.notdefFallback = true
    · right; exact ⟨emptyGlyph ".notdef", by simp [hf], hn⟩
    · simp only [hf]
      cases hs : cfg.stubs.getD i none with
      | none => left; simp
      | some g => right; exact ⟨g, by simp, hn⟩


/-! ### the determinant-sign hypothesis is needed: a witness, and non-vacuity -/

def exA (k : Q) : Glyph :=
  ⟨"A", 500, 0, [[⟨0, 0, some .line⟩, ⟨100 + k, 0, some .line⟩, ⟨100 + k, 100, some .line⟩, ⟨60, 140, none⟩,
     ⟨0, 100, some .qcurve⟩]], [], []⟩
def exB (t : Affine) : Glyph := ⟨"B", 500, 0, [], [⟨"A", t⟩], []⟩
/-- master 0: `B` = `A` untransformed -/
def exM0 : GlyphSet := [("A", exA 0), ("B", exB ⟨1, 0, 0, 1, 0, 0⟩)]
/-- master 1: `B` = `A` MIRRORED (same base, same shapes: the sources are point-compatible) -/
def exM1 : GlyphSet := [("A", exA 8), ("B", exB ⟨-1, 0, 0, 1, 100, 0⟩)]
/-- master 2: `B` = `A` scaled by 1/2 (2×2 differs from master 0, determinant sign does not) -/
def exM2 : GlyphSet := [("A", exA 8), ("B", exB ⟨1/2, 0, 0, 1/2, 10, 0⟩)]

def isOk {ε α} : Except ε α → Bool
  | .ok _ => true
  | .error _ => false

/-- **the sign hypothesis cannot be dropped, and `check_for_nonmatching_components` does not provide it** (witness):
    masters 0 and 1 are point-compatible; the 2×2 of `B`'s component differs, so `B` is put into `needs_decomposition` —
    exactly the repair ufo2ft intends — and is decomposed in both masters; but the mirrored copy is reversed
    (`reverseFlipped`) and reversal moves the curve to another place in the point-type sequence: the two `B`s no longer
    have the same structure. -/
theorem C09_sign_witness :
    compatible [exM0, exM1] = true ∧ needsDecomposition [exM0, exM1] = ["B"] ∧
    mapExcept absGlyph (decomposeGlyph exM0 true none (exB ⟨1, 0, 0, 1, 0, 0⟩))
      = .ok ⟨[[some .line, some .line, some .line, none, some .qcurve]], []⟩ ∧
    mapExcept absGlyph (decomposeGlyph exM1 true none (exB ⟨-1, 0, 0, 1, 100, 0⟩))
      = .ok ⟨[[some .line, some .line, none, some .qcurve, some .line]], []⟩ := by
  refine ⟨by decide +kernel, by decide +kernel, ?_, ?_⟩
  · rw [decomposeGlyph_shape]
    simp [aDecomposeGlyph, absSet, exM0, exA, exB, absGlyph, absComp, aAddComps, aAddComp, isIncluded, alookup, inclNested,
      ADrawn.append, aDrawContours, contourShape, sgn, Affine.det]
    intro h; exfalso; revert h; decide +kernel
  · rw [decomposeGlyph_shape]
    simp [aDecomposeGlyph, absSet, exM1, exA, exB, absGlyph, absComp, aAddComps, aAddComp, isIncluded, alookup, inclNested,
      ADrawn.append, aDrawContours, contourShape, reverseShape, retypeS, firstOnS, sgn, Affine.det]
    decide +kernel

/-- the hypothesis of `C09_decompose` is met by a family whose 2×2 matrices differ (identity vs. scale 1/2) -/
example : AllAbs [exM0, exM2] (absSet exM0) := by
  intro m hm
  simp only [List.mem_cons, List.not_mem_nil, or_false] at hm
  rcases hm with rfl | rfl <;> decide +kernel

/-- … its `B` is in `needs_decomposition` (2×2 differs) … -/
example : needsDecomposition [exM0, exM2] = ["B"] := by decide +kernel

/-- … and the joint decomposition run succeeds on it (so `C09_decompose` and `C09_joint_step` apply) -/
example : isOk (runI (fun g => ["B"].contains g.name) (decomposeIStep none) ⟨[exM0, exM2], none, [], []⟩) = true := by
  simp [runI, orderI, depthsI, compDepth, maxComponentDepth, depthGlyph, depthComps, allNames, dedupFirst, dedupAux,
    GlyphSet.names, iLoop, addMod, decomposeIStep, glyphsNamed, exM0, exM2, exA, exB, GlyphSet.get?, alookup,
    ensureComposite, perMaster, List.range, List.range.loop, layerSet, decomposeOp, decomposeGlyph, addComps, addComp,
    isIncluded, inclNested, touch, setAt, GlyphSet.set, isOk, List.mergeSort, List.merge]

/-- `UniformCustom` is met by a configuration without custom filters -/
example : UniformCustom ⟨true, none, [false, false], [], true, true, true, [none, none], none, false, false, [], []⟩ := by
  intro pre; right; cases pre <;> decide

/-- `Tied` is inhabited: with `B` = component `A` and `A` present in the source at location 1/2, `B` is tied to 1/2 -/
example : Tied ⟨[0, 1/2], 0⟩ [exM0, [("A", exA 4)]] none (1/2) "B" := by
  refine Tied.direct "B" (exB ⟨1, 0, 0, 1, 0, 0⟩) ⟨"A", ⟨1, 0, 0, 1, 0, 0⟩⟩ ?_ ?_ rfl ?_
  · simp [glyphsNamed, exM0, GlyphSet.get?, alookup]
  · simp [exB]
  · simp [sourceLocs, exM0, GlyphSet.get?, alookup]

end Ufo2ft.C09
