import Ufo2ftModel.Props.Render
/-! FlattenComponentsFilter preserves every glyph's drawing and leaves no nested reference. -/
namespace Ufo2ft
open List

def FlatOne (gs : GlyphSet) (rank : String → Nat) (fuel : Nat) : Prop :=
  ∀ k fl, flattenComp fuel gs k = .ok fl → k.t.det ≠ 0 →
    (∀ S f, rank k.base < f → fl.flatMap (renderOne f gs S) = renderOne f gs S k) ∧
    (∀ c ∈ fl, rank c.base ≤ rank k.base ∧ c.t.det ≠ 0) ∧
    (∀ c ∈ fl, ∀ b, gs.get? c.base = some b → isSimpleOrMixed b = true)

def FlatMany (gs : GlyphSet) (rank : String → Nat) (fuel : Nat) : Prop :=
  ∀ outer ks fl, flattenNested fuel gs outer ks = .ok fl → outer.t.det ≠ 0 → (∀ k ∈ ks, k.t.det ≠ 0) →
    (∀ S f, (∀ k ∈ ks, rank k.base < f) →
      fl.flatMap (renderOne f gs S) = ks.flatMap (renderOne f gs (S.compose outer.t))) ∧
    (∀ c ∈ fl, (∃ k ∈ ks, rank c.base ≤ rank k.base) ∧ c.t.det ≠ 0) ∧
    (∀ c ∈ fl, ∀ b, gs.get? c.base = some b → isSimpleOrMixed b = true)

theorem renderOne_mapped (gs : GlyphSet) (outer : Comp) (S : Affine) (f : Nat) (c : Comp) :
    renderOne f gs S ⟨c.base, (outer.t.translate c.t.dx c.t.dy).compose ⟨c.t.xx, c.t.xy, c.t.yx, c.t.yy, 0, 0⟩⟩
      = renderOne f gs (S.compose outer.t) c := by
  simp only [renderOne, Affine.flatten_factor, Affine.compose_assoc]

theorem flatMany_of_flatOne (gs : GlyphSet) (rank : String → Nat) (fuel : Nat)
    (h1 : FlatOne gs rank fuel) : FlatMany gs rank fuel := by
  intro outer ks
  induction ks with
  | nil =>
    intro fl h _ _
    simp only [flattenNested] at h
    have := Except.ok.inj h; subst this
    exact ⟨fun S f _ => rfl, fun c hc => (by cases hc), fun c hc => (by cases hc)⟩
  | cons n ns ih =>
    intro fl h ho hks
    simp only [flattenNested] at h
    cases hn : flattenComp fuel gs n with
    | error e => rw [hn] at h; cases h
    | ok fn =>
      rw [hn] at h
      dsimp only at h
      cases hr : flattenNested fuel gs outer ns with
      | error e => rw [hr] at h; cases h
      | ok r =>
        rw [hr] at h
        have := Except.ok.inj h; subst this
        obtain ⟨p1, q1, s1⟩ := h1 n fn hn (hks n mem_cons_self)
        obtain ⟨p2, q2, s2⟩ := ih r hr ho (fun k hk => hks k (mem_cons_of_mem _ hk))
        refine ⟨?_, ?_, ?_⟩
        · intro S f hf
          rw [List.flatMap_append, List.flatMap_cons, List.flatMap_map]
          rw [p2 S f (fun k hk => hf k (mem_cons_of_mem _ hk))]
          congr 1
          rw [← p1 (S.compose outer.t) f (hf n mem_cons_self)]
          apply flatMap_congr'
          intro c _
          exact renderOne_mapped gs outer S f c
        · intro c hc
          rcases mem_append.mp hc with hc | hc
          · obtain ⟨c0, hc0, rfl⟩ := mem_map.mp hc
            refine ⟨⟨n, mem_cons_self, (q1 c0 hc0).1⟩, ?_⟩
            rw [Affine.flatten_factor]
            exact det_compose_ne ho (q1 c0 hc0).2
          · obtain ⟨⟨k, hk, hle⟩, hd⟩ := q2 c hc
            exact ⟨⟨k, mem_cons_of_mem _ hk, hle⟩, hd⟩
        · intro c hc b hb
          rcases mem_append.mp hc with hc | hc
          · obtain ⟨c0, hc0, rfl⟩ := mem_map.mp hc
            exact s1 c0 hc0 b hb
          · exact s2 c hc b hb

theorem flatOne_succ (gs : GlyphSet) (rank : String → Nat) (hr : Ranked gs rank)
    (hns : ∀ n g, gs.get? n = some g → ∀ k ∈ g.comps, k.t.det ≠ 0) (fuel : Nat)
    (h2 : FlatMany gs rank fuel) : FlatOne gs rank (fuel + 1) := by
  intro k fl h hk
  unfold flattenComp at h
  cases hb : gs.get? k.base with
  | none => rw [hb] at h; cases h
  | some b =>
    rw [hb] at h
    dsimp only at h
    by_cases hs : isSimpleOrMixed b = true
    · rw [if_pos hs] at h
      have := Except.ok.inj h; subst this
      refine ⟨fun S f _ => by simp, ?_, ?_⟩
      · intro c hc; simp only [mem_singleton] at hc; subst hc; exact ⟨Nat.le_refl _, hk⟩
      · intro c hc b' hb'; simp only [mem_singleton] at hc; subst hc
        rw [hb] at hb'; rw [← Option.some.inj hb']; exact hs
    · rw [if_neg hs] at h
      have hbr := hr k.base b hb
      obtain ⟨p, q, s⟩ := h2 k b.comps fl h hk (hns k.base b hb)
      refine ⟨?_, ?_, s⟩
      · intro S f hf
        obtain ⟨f', rfl⟩ : ∃ x, f = x + 1 := ⟨f - 1, by omega⟩
        rw [p S (f' + 1) (fun k' hk' => by have := hbr k' hk'; omega)]
        simp only [renderOne, hb, render_succ]
        have hc : b.contours = [] := by
          simp only [isSimpleOrMixed, Bool.or_eq_true, Bool.not_eq_true', Bool.not_eq_eq_eq_not, Bool.not_true] at hs
          cases hcs : b.contours with
          | nil => rfl
          | cons c cs => rw [hcs] at hs; simp at hs
        rw [hc]
        simp only [drawContours, List.map_nil, List.nil_append]
        apply flatMap_congr'
        intro k' hk'
        simp only [renderOne]
        cases hkb : gs.get? k'.base with
        | none => rfl
        | some b' =>
          exact render_fuel gs rank hr (rank k'.base) b' _ (f' + 1) f' (hr k'.base b' hkb)
            (by have := hbr k' hk'; omega) (by have := hbr k' hk'; omega)
      · intro c hc
        obtain ⟨⟨k', hk', hle⟩, hd⟩ := q c hc
        have := hbr k' hk'
        exact ⟨by omega, hd⟩

theorem flat_all (gs : GlyphSet) (rank : String → Nat) (hr : Ranked gs rank)
    (hns : ∀ n g, gs.get? n = some g → ∀ k ∈ g.comps, k.t.det ≠ 0) :
    ∀ fuel, FlatOne gs rank fuel ∧ FlatMany gs rank fuel := by
  intro fuel
  induction fuel with
  | zero =>
    have h0 : FlatOne gs rank 0 := by
      intro k fl h; simp only [flattenComp] at h; cases h
    exact ⟨h0, flatMany_of_flatOne gs rank 0 h0⟩
  | succ n ih =>
    have h1 := flatOne_succ gs rank hr hns n ih.2
    exact ⟨h1, flatMany_of_flatOne gs rank (n + 1) h1⟩

/-- `_flattenGlyphComponents`: the new component list draws exactly what the old one drew, points strictly below the
    glyph, is non-singular, and references only simple-or-mixed glyphs (nesting depth ≤ 1). -/
theorem flattenGlyphComps_spec (gs : GlyphSet) (rank : String → Nat) (hr : Ranked gs rank)
    (hns : ∀ n g, gs.get? n = some g → ∀ k ∈ g.comps, k.t.det ≠ 0) :
    ∀ (ks cs : List Comp) (flag : Bool), flattenGlyphComps gs ks = .ok (cs, flag) → (∀ k ∈ ks, k.t.det ≠ 0) →
      (∀ S f, (∀ k ∈ ks, rank k.base < f) → cs.flatMap (renderOne f gs S) = ks.flatMap (renderOne f gs S)) ∧
      (∀ c ∈ cs, (∃ k ∈ ks, rank c.base ≤ rank k.base) ∧ c.t.det ≠ 0) ∧
      (∀ c ∈ cs, ∀ b, gs.get? c.base = some b → isSimpleOrMixed b = true) := by
  intro ks
  induction ks with
  | nil =>
    intro cs flag h _
    simp only [flattenGlyphComps] at h
    have := Except.ok.inj h
    obtain ⟨rfl, _⟩ := Prod.mk.inj this
    exact ⟨fun S f _ => rfl, fun c hc => (by cases hc), fun c hc => (by cases hc)⟩
  | cons k ks ih =>
    intro cs flag h hks
    simp only [flattenGlyphComps] at h
    cases hk : flattenComp (gs.length + 1) gs k with
    | error e => rw [hk] at h; cases h
    | ok fl =>
      rw [hk] at h
      dsimp only at h
      cases hh : fl.head? with
      | none => rw [hh] at h; cases h
      | some hd =>
        rw [hh] at h
        dsimp only at h
        cases hr' : flattenGlyphComps gs ks with
        | error e => rw [hr'] at h; cases h
        | ok res =>
          obtain ⟨r, f0⟩ := res
          rw [hr'] at h
          dsimp only at h
          have := Except.ok.inj h
          obtain ⟨rfl, _⟩ := Prod.mk.inj this
          obtain ⟨p1, q1, s1⟩ := (flat_all gs rank hr hns (gs.length + 1)).1 k fl hk (hks k mem_cons_self)
          obtain ⟨p2, q2, s2⟩ := ih r f0 hr' (fun k' hk' => hks k' (mem_cons_of_mem _ hk'))
          refine ⟨?_, ?_, ?_⟩
          · intro S f hf
            rw [List.flatMap_append, List.flatMap_cons, p1 S f (hf k mem_cons_self),
              p2 S f (fun k' hk' => hf k' (mem_cons_of_mem _ hk'))]
          · intro c hc
            rcases mem_append.mp hc with hc | hc
            · exact ⟨⟨k, mem_cons_self, (q1 c hc).1⟩, (q1 c hc).2⟩
            · obtain ⟨⟨k', hk', hle⟩, hd'⟩ := q2 c hc
              exact ⟨⟨k', mem_cons_of_mem _ hk', hle⟩, hd'⟩
          · intro c hc b hb
            rcases mem_append.mp hc with hc | hc
            · exact s1 c hc b hb
            · exact s2 c hc b hb

/-- **flatten_preserves_render**: `FlattenComponentsFilter.filter` is a render-preserving step. -/
theorem flattenStep_ok (rank : String → Nat) : StepOK rank flattenStep := by
  intro st g st' r h hget hg hn
  unfold flattenStep at h
  by_cases he : g.comps.isEmpty = true
  · rw [if_pos he] at h
    have := Except.ok.inj h
    rw [← (Prod.mk.inj this).1]
    exact ⟨hg, hn, SameRender.refl rank _⟩
  · rw [if_neg he] at h
    cases hf : flattenGlyphComps st.gs g.comps with
    | error e => rw [hf] at h; cases h
    | ok res =>
      obtain ⟨cs, flag⟩ := res
      rw [hf] at h
      dsimp only at h
      have := Except.ok.inj h
      rw [← (Prod.mk.inj this).1]
      dsimp only
      obtain ⟨p, q, _⟩ := flattenGlyphComps_spec st.gs rank hg.ranked hg.nonsing g.comps cs flag hf
        (hg.nonsing g.name g hget)
      have hgr := hg.ranked g.name g hget
      have hrk : ∀ c ∈ ({ g with comps := cs } : Glyph).comps, rank c.base < rank g.name := by
        intro c hc
        obtain ⟨⟨k, hk, hle⟩, _⟩ := q c hc
        have := hgr k hk; omega
      have hns' : ∀ c ∈ ({ g with comps := cs } : Glyph).comps, c.t.det ≠ 0 := fun c hc => (q c hc).2
      have heq : ∀ S f, S.det ≠ 0 → rank g.name < f →
          (render f st.gs S { g with comps := cs }).Perm (render f st.gs S g) := by
        intro S f _ hf'
        obtain ⟨f', rfl⟩ : ∃ x, f = x + 1 := ⟨f - 1, by omega⟩
        rw [render_succ, render_succ]
        exact Perm.of_eq (by rw [p S f' (fun k hk => by have := hgr k hk; omega)])
      have B := set_preserves_render st.gs rank hg.ranked hg.nonsing g.name g { g with comps := cs } hget hrk hns' heq
      refine ⟨⟨?_, ?_, ?_⟩, named_set st.gs hn g.name g _ hget rfl, ?_⟩
      · intro n h' hh k hk
        rw [get?_set st.gs g.name n g _ hget] at hh
        by_cases e : n = g.name
        · rw [if_pos e] at hh; have := Option.some.inj hh; subst this; rw [e]; exact hrk k hk
        · rw [if_neg e] at hh; exact hg.ranked n h' hh k hk
      · intro n h' hh k hk
        rw [get?_set st.gs g.name n g _ hget] at hh
        by_cases e : n = g.name
        · rw [if_pos e] at hh; have := Option.some.inj hh; subst this; exact hns' k hk
        · rw [if_neg e] at hh; exact hg.nonsing n h' hh k hk
      · intro n h' hh c hc
        rw [get?_set st.gs g.name n g _ hget] at hh
        by_cases e : n = g.name
        · rw [if_pos e] at hh; have := Option.some.inj hh; subst this; exact hg.invol g.name g hget c hc
        · rw [if_neg e] at hh; exact hg.invol n h' hh c hc
      · intro n
        constructor
        · rw [get?_set st.gs g.name n g _ hget]
          by_cases e : n = g.name
          · rw [if_pos e, e, hget]; rfl
          · rw [if_neg e]
        · intro ga gb ha hb S f hS hf'
          rw [get?_set st.gs g.name n g _ hget] at ha
          obtain ⟨f', rfl⟩ : ∃ x, f = x + 1 := ⟨f - 1, by omega⟩
          by_cases e : n = g.name
          · rw [if_pos e] at ha
            have := Option.some.inj ha; subst this
            have hgb : gb = g := by rw [e, hget] at hb; exact (Option.some.inj hb).symm
            subst hgb
            refine Perm.trans ?_ (heq S (f' + 1) hS (by rw [← e]; exact hf'))
            rw [render_succ, render_succ]
            refine Perm.append_left _ ?_
            exact B (rank gb.name) cs S f' hrk hns' hS (by rw [← e]; omega)
          · rw [if_neg e] at ha
            have hgb : gb = ga := by rw [ha] at hb; exact (Option.some.inj hb).symm
            subst hgb
            rw [render_succ, render_succ]
            refine Perm.append_left _ ?_
            exact B (rank n) gb.comps S f' (hg.ranked n gb ha) (hg.nonsing n gb ha) hS (by omega)

end Ufo2ft
