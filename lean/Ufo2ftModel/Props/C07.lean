import Ufo2ftModel.Spec.C07
/-! Property C07: theorems about the effect model. -/
namespace Ufo2ft.C07
open List

/-- **frame rule of the store**: a sequence of writes (of any length) leaves every cell it does not name unchanged -/
theorem applyAll_frame (ws : List Write) (s : Store) (c : Cell) (h : ∀ w ∈ ws, w.cell ≠ c) :
    applyAll ws s c = s c := by
  induction ws generalizing s with
  | nil => rfl
  | cons w ws ih =>
    simp only [applyAll]
    rw [ih]
    · simp only [Write.apply]
      have : c ≠ w.cell := fun e => h w (by simp) e.symm
      simp [this]
    · intro w' hw'; exact h w' (by simp [hw'])

/-- writes that only target objects made during the call leave every caller-owned cell unchanged -/
theorem applyAll_owned (ws : List Write) (s : Store) (c : Cell) (hc : c.obj.owned = true)
    (h : ∀ w ∈ ws, w.cell.obj.owned = false) : applyAll ws s c = s c := by
  apply applyAll_frame
  intro w hw e
  have := h w hw
  rw [e, hc] at this
  cases this

theorem freshEntries_safe (names : List String) (start : Nat) :
    ∀ en ∈ freshEntries names start, en.obj.owned = false := by
  intro en hen
  simp only [freshEntries, mem_map] at hen
  obtain ⟨⟨n, i⟩, _, rfl⟩ := hen
  rfl

theorem gs_safe_iff (gs : GS) :
    GS.safe gs = true ↔ (∀ en ∈ gs.entries, en.obj.owned = false) ∧ gs.lib.owned = false := by
  simp [GS.safe]

theorem env_safe_iff (e : Env) :
    Env.safe e = true ↔ (∀ gs ∈ e.gss, GS.safe gs = true) ∧ (∀ o, e.docW = some o → o.owned = false)
      ∧ e.instStale = false := by
  unfold Env.safe
  cases h : e.docW <;> simp [and_assoc]

theorem filterWrites_safe (name : String) (fields : List GField) (lk : Option (String × Bool)) (gs : GS)
    (h : GS.safe gs = true) : ∀ w ∈ filterWrites name fields lk gs, w.cell.obj.owned = false := by
  rw [gs_safe_iff] at h
  intro w hw
  simp only [filterWrites, mem_append, mem_flatMap, mem_map] at hw
  rcases hw with ⟨en, hen, fl, _, rfl⟩ | hw
  · exact h.1 en hen
  · cases lk with
    | none => simp at hw
    | some p => simp at hw; subst hw; exact h.2

theorem dropNames_safe (names : List String) (gs : GS) (h : GS.safe gs = true) : GS.safe (dropNames names gs) = true := by
  rw [gs_safe_iff] at h ⊢
  refine ⟨?_, h.2⟩
  intro en hen
  simp only [dropNames, mem_filter] at hen
  exact h.1 en hen.1

/-- **one stage**: through safe handles, a stage that does not reach writes only to objects made during the
    call, and leaves the handles safe -/
theorem exec_safe (inp : Inp) (st : Stage) (e : Env) (he : Env.safe e = true) (hs : st.reaches = false) :
    (∀ w ∈ (exec inp st e).1, w.cell.obj.owned = false) ∧ Env.safe (exec inp st e).2 = true := by
  rw [env_safe_iff] at he
  cases st with
  | fromLayer f layer copy =>
    simp only [Stage.reaches, Bool.not_eq_false'] at hs
    subst hs
    refine ⟨by simp [exec], ?_⟩
    rw [env_safe_iff]
    simp only [exec, fromLayerGS, if_true]
    refine ⟨?_, he.2⟩
    intro gs hgs
    simp only [mem_append, mem_singleton] at hgs
    rcases hgs with hgs | rfl
    · exact he.1 gs hgs
    · rw [gs_safe_iff]; exact ⟨freshEntries_safe _ _, rfl⟩
  | filter srcs name fields lk =>
    refine ⟨?_, by rw [env_safe_iff]; exact he⟩
    intro w hw
    simp only [exec, mem_flatMap] at hw
    obtain ⟨i, _, hw⟩ := hw
    cases hg : e.gss[i]? with
    | none => simp [hg] at hw
    | some gs =>
      simp only [hg] at hw
      exact filterWrites_safe _ _ _ gs (he.1 gs (mem_of_getElem? hg)) w hw
  | explode _ _ => simp [Stage.reaches] at hs
  | dottedCircle _ => simp [Stage.reaches] at hs
  | math _ => simp [Stage.reaches] at hs
  | instantiate stale =>
    simp only [Stage.reaches] at hs
    subst hs
    exact ⟨by simp [exec], by rw [env_safe_iff]; exact ⟨he.1, he.2.1, rfl⟩⟩
  | refresh => exact ⟨by simp [exec], by rw [env_safe_iff]; exact ⟨he.1, he.2.1, rfl⟩⟩
  | propagateI src =>
    refine ⟨?_, by rw [env_safe_iff]; simp only [exec]; split <;> exact he⟩
    intro w hw
    simp only [exec] at hw
    cases hg : e.gss[src]? with
    | none => simp [hg] at hw
    | some gs =>
      simp only [hg, he.2.2, Bool.false_eq_true, if_false, append_nil] at hw
      exact filterWrites_safe _ _ _ gs (he.1 gs (mem_of_getElem? hg)) w hw
  | otf _ => exact ⟨by simp [exec], by rw [env_safe_iff]; exact he⟩
  | dsCopy =>
    refine ⟨by simp [exec], ?_⟩
    rw [env_safe_iff]
    refine ⟨he.1, ?_, he.2.2⟩
    intro o ho
    simp only [exec, Option.some.injEq] at ho
    subst ho; rfl
  | dsAlias => simp [Stage.reaches] at hs
  | dsWrite name slots =>
    refine ⟨?_, ?_⟩
    · intro w hw
      simp only [exec] at hw
      cases hd : e.docW with
      | none => simp [hd] at hw
      | some o =>
        simp only [hd, mem_map] at hw
        obtain ⟨p, _, rfl⟩ := hw
        exact he.2.1 o hd
    · simp only [exec]
      cases hd : e.docW <;> (rw [env_safe_iff]; exact he)
  | drop srcs names =>
    refine ⟨by simp [exec], ?_⟩
    rw [env_safe_iff]
    refine ⟨?_, he.2⟩
    intro gs hgs
    simp only [exec, mem_map] at hgs
    obtain ⟨⟨g0, i⟩, hm, rfl⟩ := hgs
    have h0 := he.1 g0 (fst_mem_of_mem_zipIdx hm)
    simp only []
    split
    · exact dropNames_safe names g0 h0
    · exact h0
  | reset =>
    refine ⟨by simp [exec], ?_⟩
    rw [env_safe_iff]
    simp [exec]

/-- **any number of stages**: induction over the stage list -/
theorem run_safe (inp : Inp) (sts : List Stage) (e : Env) (he : Env.safe e = true)
    (hs : ∀ st ∈ sts, st.reaches = false) :
    (∀ w ∈ (run inp sts e).1, w.cell.obj.owned = false) ∧ Env.safe (run inp sts e).2 = true := by
  induction sts generalizing e with
  | nil => exact ⟨by simp [run], he⟩
  | cons st rest ih =>
    have h1 := exec_safe inp st e he (hs st (by simp))
    have h2 := ih (exec inp st e).2 h1.2 (fun s hs' => hs s (by simp [hs']))
    simp only [run]
    refine ⟨?_, h2.2⟩
    intro w hw
    rcases mem_append.mp hw with hw | hw
    · exact h1.1 w hw
    · exact h2.1 w hw

theorem env0_safe (inp : Inp) : Env.safe (env0 inp) = true := by
  simp [env0, Env.safe]


theorem take_all {α} (p : α → Bool) (l : List α) (k : Nat) (h : l.all p = true) : ∀ x ∈ l.take k, p x = true := by
  intro x hx
  exact (all_eq_true.mp h) x (mem_of_mem_take hx)

/-- **C07_frame**: for every configuration whose pipeline has no reaching stage, after ANY prefix of the pipeline
    (the call returned, or raised after `k` stages) every cell of every caller-owned object holds the value it
    held before the call. -/
theorem C07_frame (inp : Inp) (k : Nat) (h : noReach inp = true) (s : Store) (c : Cell)
    (hc : c.obj.owned = true) : applyAll (trace inp k) s c = s c := by
  apply applyAll_owned _ _ _ hc
  unfold trace
  refine (run_safe inp _ _ (env0_safe inp) ?_).1
  intro st hst
  have := take_all _ _ k h st hst
  simpa using this

/-- the model's predicted leak set is empty for such configurations -/
theorem C07_leaks_nil (inp : Inp) (k : Nat) (h : noReach inp = true) : leaks inp k = [] := by
  unfold leaks
  rw [filter_eq_nil_iff]
  intro w hw
  have : w.cell.obj.owned = false := by
    unfold trace at hw
    refine (run_safe inp _ _ (env0_safe inp) ?_).1 w hw
    intro st hst
    have := take_all _ _ k h st hst
    simpa using this
  simp [this]

/-- hence the property predicate holds of the model's own prediction -/
theorem C07_holds_model (inp : Inp) (k : Nat) (h : noReach inp = true) :
    holds inp ((leaks inp k).map (·.cell)) = true := by
  rw [C07_leaks_nil inp k h]; simp [holds]

/-- **C07_history**: the same after any number `n` of calls, each possibly cut short -/
theorem C07_history (inp : Inp) (n k : Nat) (h : noReach inp = true) (s : Store) (c : Cell)
    (hc : c.obj.owned = true) :
    applyAll (run inp ((history inp n).take k) (env0 inp)).1 s c = s c := by
  apply applyAll_owned _ _ _ hc
  refine (run_safe inp _ _ (env0_safe inp) ?_).1
  intro st hst
  have hst := mem_of_mem_take hst
  simp only [history, mem_flatten, mem_replicate] at hst
  obtain ⟨l, ⟨_, rfl⟩, hst⟩ := hst
  rcases mem_cons.mp hst with rfl | hst
  · rfl
  · have := (all_eq_true.mp h) st hst
    simpa using this


/-! ### the signature table: which configurations have a pipeline without reaching stages -/

/-- no stage of the list reaches -/
def NR (l : List Stage) : Prop := ∀ st ∈ l, st.reaches = false

theorem NR_nil : NR [] := by intro st h; cases h
theorem NR_append {a b : List Stage} (ha : NR a) (hb : NR b) : NR (a ++ b) := by
  intro st h; rcases mem_append.mp h with h | h
  · exact ha st h
  · exact hb st h
theorem NR_single {st : Stage} (h : st.reaches = false) : NR [st] := by
  intro s hs; simp at hs; subst hs; exact h
theorem NR_cons {st : Stage} {l : List Stage} (h : st.reaches = false) (hl : NR l) : NR (st :: l) := by
  intro s hs; rcases mem_cons.mp hs with rfl | hs
  · exact h
  · exact hl s hs
theorem NR_ite {c : Prop} [Decidable c] {a b : List Stage} (ha : NR a) (hb : NR b) : NR (if c then a else b) := by
  split <;> assumption
theorem NR_filter (srcs : List Nat) (n : String) (f : List GField) (k : Option (String × Bool)) :
    NR [Stage.filter srcs n f k] := NR_single rfl
theorem NR_otf (n : String) : NR [Stage.otf n] := NR_single rfl

theorem stageOfSpec_clean (ds : Bool) (i : Nat) (s : FSpec) (h : (s.kind != DC && s.kind != EXPLODE) = true) :
    (stageOfSpec ds i s).reaches = false := by
  simp only [Bool.and_eq_true, bne_iff_ne, ne_eq] at h
  unfold stageOfSpec
  have h1 : (s.kind == DC) = false := by simpa using h.1
  have h2 : (s.kind == EXPLODE) = false := by simpa using h.2
  simp only [h1, h2, Bool.false_eq_true, if_false]
  split <;> rfl

theorem zipLongest_NR (ls : List (List Stage)) (n : Nat) (h : ∀ l ∈ ls, NR l) : NR (zipLongest ls n) := by
  induction n generalizing ls with
  | zero => exact NR_nil
  | succ n ih =>
    unfold zipLongest
    apply NR_append
    · intro st hst
      simp only [mem_filterMap] at hst
      obtain ⟨l, hl, hh⟩ := hst
      exact h l hl st (mem_of_mem_head? hh)
    · apply ih
      intro l hl
      simp only [mem_map] at hl
      obtain ⟨l', hl', rfl⟩ := hl
      intro st hst
      exact h l' hl' st (mem_of_mem_tail hst)

theorem specs_NR (cfg : Cfg) (fd : FontD) (i : Nat) (p : FSpec → Bool)
    (h : (customFilters cfg fd).all (fun s => s.kind != DC && s.kind != EXPLODE) = true) :
    NR (((customFilters cfg fd).filter p).flatMap (stagesOfSpec (isDS cfg.fn) i)) := by
  intro st hst
  simp only [mem_flatMap, mem_filter] at hst
  obtain ⟨s, ⟨hs, _⟩, hst⟩ := hst
  unfold stagesOfSpec at hst
  rcases mem_cons.mp hst with rfl | hst
  · exact stageOfSpec_clean _ i s ((all_eq_true.mp h) s hs)
  · split at hst
    · cases hst
    · simp at hst; subst hst; rfl

theorem cleanFont_parts {cfg : Cfg} {fd : FontD} (h : cleanFont cfg fd = true) :
    fd.lib.mathPrefix = false ∧ colourTrigger fd = false ∧
    (customFilters cfg fd).all (fun s => s.kind != DC && s.kind != EXPLODE) = true := by
  simp only [cleanFont, Bool.and_eq_true, Bool.not_eq_true'] at h
  exact ⟨h.1.1, h.1.2, h.2⟩

theorem compileOne_NR (inp : Inp) (i : Nat) (s : Nat × Option String) (b feat : Bool)
    (h : (inp.font s.1).lib.mathPrefix = false) : NR (compileOne inp i s b feat) := by
  unfold compileOne
  simp only [h, Bool.false_and, Bool.false_eq_true, if_false]
  exact NR_append (NR_append (NR_append (NR_otf _) NR_nil) (NR_ite (NR_otf _) NR_nil)) (NR_otf _)

theorem singlePre_NR (inp : Inp) (ttf : Bool) (f : Nat) (h : cleanFont inp.cfg (inp.font f) = true) :
    NR (singlePre inp ttf f) := by
  obtain ⟨_, h2, h3⟩ := cleanFont_parts h
  unfold singlePre
  simp only []
  refine NR_append (NR_append (NR_append (NR_append (NR_append (NR_append (NR_append ?_ ?_) ?_) ?_) ?_) ?_) ?_) ?_
  · exact NR_ite (NR_cons rfl (NR_single rfl)) NR_nil
  · exact specs_NR _ _ _ _ h3
  · unfold explodeStage; simp [h2]; exact NR_nil
  · exact NR_filter _ _ _ _
  · exact NR_ite (NR_filter _ _ _ _) NR_nil
  · exact NR_ite (NR_filter _ _ _ _) NR_nil
  · exact NR_ite (NR_ite (NR_filter _ _ _ _) (NR_ite (NR_filter _ _ _ _) NR_nil)) NR_nil
  · exact specs_NR _ _ _ _ h3

theorem single_NR (inp : Inp) (ttf : Bool) (h : cleanCfg inp = true) : NR (single inp ttf) := by
  simp only [cleanCfg, Bool.and_eq_true, Bool.not_eq_true', all_eq_true] at h
  unfold single
  cases hs : inp.cfg.sources.head? with
  | none => exact NR_nil
  | some s =>
    have hm : s ∈ inp.cfg.sources := mem_of_mem_head? hs
    have hc := h.2 s hm
    simp only []
    refine NR_append (NR_append (NR_single ?_) (singlePre_NR inp ttf s.1 hc)) (compileOne_NR _ _ _ _ _ (cleanFont_parts hc).1)
    simp [Stage.reaches, h.1]

theorem perSource_NR (inp : Inp) (g : Nat → Nat → List Stage)
    (h : ∀ s ∈ inp.cfg.sources, ∀ i, NR (g i s.1)) : ∀ l ∈ perSource inp g, NR l := by
  intro l hl
  simp only [perSource, mem_map] at hl
  obtain ⟨⟨s, i⟩, hs, rfl⟩ := hl
  exact h s (fst_mem_of_mem_zipIdx hs) i


theorem cleanCfg_parts {inp : Inp} (h : cleanCfg inp = true) :
    inp.cfg.inplace = false ∧ ∀ s ∈ inp.cfg.sources, cleanFont inp.cfg (inp.font s.1) = true := by
  simpa [cleanCfg] using h

theorem fromLayers_NR (inp : Inp) (h : inp.cfg.inplace = false) : NR (fromLayers inp) := by
  intro st hst
  simp only [fromLayers, mem_map] at hst
  obtain ⟨s, _, rfl⟩ := hst
  simp [Stage.reaches, h]

theorem interpPre_NR (inp : Inp) (ttf : Bool) (h : cleanCfg inp = true) : NR (interpPre false inp ttf) := by
  obtain ⟨hi, hf⟩ := cleanCfg_parts h
  have hpre : ∀ l ∈ perSource inp (preStages inp), NR l :=
    perSource_NR inp _ (fun s hs i => specs_NR _ _ _ _ (cleanFont_parts (hf s hs)).2.2)
  have hpost : ∀ l ∈ perSource inp (postStages inp), NR l :=
    perSource_NR inp _ (fun s hs i => specs_NR _ _ _ _ (cleanFont_parts (hf s hs)).2.2)
  have hd : ∀ c, ∀ l ∈ perSource inp (fun i f => explodeStage inp i f c), NR l := fun c =>
    perSource_NR inp _ (fun s hs i => by
      unfold explodeStage; simp [(cleanFont_parts (hf s hs)).2.1]; exact NR_nil)
  unfold interpPre
  simp only []
  refine NR_append (NR_append (NR_append (NR_append (NR_append (NR_append (NR_append (fromLayers_NR inp hi) ?_) ?_) ?_) ?_) ?_) ?_) ?_
  · exact NR_ite (NR_single (by simp [Stage.reaches, hi])) NR_nil
  · exact NR_ite (NR_cons rfl (NR_single rfl)) NR_nil
  · exact zipLongest_NR _ _ hpre
  · exact NR_ite (NR_filter _ _ _ _) NR_nil
  · exact zipLongest_NR _ _ (hd _)
  · refine NR_ite (NR_append ?_ (NR_ite (NR_filter _ _ _ _) NR_nil)) (NR_cons rfl (NR_single rfl))
    exact NR_ite (NR_append (NR_filter _ _ _ _) (NR_ite (NR_single rfl) NR_nil)) (NR_ite (NR_filter _ _ _ _) NR_nil)
  · exact zipLongest_NR _ _ hpost

theorem interpCompile_NR (inp : Inp) (feat : Bool) (assign : Nat → List Stage) (ha : ∀ i, NR (assign i))
    (h : cleanCfg inp = true) : NR (interpCompile inp feat assign) := by
  obtain ⟨_, hf⟩ := cleanCfg_parts h
  intro st hst
  simp only [interpCompile, mem_flatMap] at hst
  obtain ⟨⟨s, i⟩, hs, hst⟩ := hst
  exact NR_append (compileOne_NR inp i s true feat (cleanFont_parts (hf s (fst_mem_of_mem_zipIdx hs))).1) (ha i) st hst

theorem assignFont_NR (l : String) (i : Nat) : NR (assignFont l i) := NR_single rfl

/-- **C07_signatures**: a configuration in which inplace is not requested and no source font activates
    `setupTable_MATH`, `ExplodeColorLayerGlyphsFilter` or `DottedCircleFilter` has a pipeline without reaching
    stages — for all nine entry points, any number of sources, any combination of the remaining options and
    shipped/custom filters. -/
theorem C07_signatures (inp : Inp) (h : cleanCfg inp = true) : noReach inp = true := by
  have hi := (cleanCfg_parts h).1
  have key : NR (pipeline inp) := by
    unfold pipeline pipelineG
    simp only [hi, Bool.false_eq_true, if_false]
    cases inp.cfg.fn with
    | ttf => exact single_NR inp true h
    | otf => exact single_NR inp false h
    | ittfs => exact NR_append (interpPre_NR inp true h) (interpCompile_NR inp _ _ (fun _ => NR_nil) h)
    | ittfsDS =>
      exact NR_append (NR_append (NR_single rfl) (interpPre_NR inp true h))
        (interpCompile_NR inp _ _ (assignFont_NR _) h)
    | iotfsDS =>
      exact NR_append (NR_append (NR_single rfl) (interpPre_NR inp false h))
        (interpCompile_NR inp _ _ (assignFont_NR _) h)
    | vttf =>
      refine NR_append (NR_append (NR_append ?_ (interpPre_NR inp true h))
        (interpCompile_NR inp _ _ (assignFont_NR _) h)) ?_
      · exact NR_cons rfl (NR_single rfl)
      · exact NR_cons rfl (NR_cons rfl (NR_single rfl))
    | vcff2 =>
      refine NR_append (NR_append (NR_append ?_ (interpPre_NR inp false h))
        (interpCompile_NR inp _ _ (assignFont_NR _) h)) ?_
      · exact NR_cons rfl (NR_single rfl)
      · exact NR_cons rfl (NR_cons rfl (NR_single rfl))
  unfold noReach
  rw [all_eq_true]
  intro st hst
  simp [key st hst]

/-- **C07 (main)**: inplace not requested, no MATH data / colour-layer trigger / dotted-circle filter ⇒ after the
    call returned or raised (any prefix), and after any number of repeated calls, every caller-owned cell is
    unchanged. -/
theorem C07_main (inp : Inp) (h : cleanCfg inp = true) (n k : Nat) (s : Store) (c : Cell)
    (hc : c.obj.owned = true) :
    applyAll (trace inp k) s c = s c ∧
    applyAll (run inp ((history inp n).take k) (env0 inp)).1 s c = s c ∧
    leaks inp k = [] :=
  ⟨C07_frame inp k (C07_signatures inp h) s c hc, C07_history inp n k (C07_signatures inp h) s c hc,
   C07_leaks_nil inp k (C07_signatures inp h)⟩


/-! ### attribution: without inplace, the only stages that can leak are the three reaching ones -/

def Stage.aliasing : Stage → Bool
  | .fromLayer _ _ copy => !copy
  | .dsAlias => true
  | .instantiate stale => stale
  | _ => false

/-- invariant: a caller-owned object sits in a glyph set only if ExplodeColorLayerGlyphsFilter put it there -/
def GS.tagged (gs : GS) : Prop :=
  (∀ en ∈ gs.entries, en.obj.owned = true → en.via = EXPLODE) ∧ gs.lib.owned = false
def Env.tagged (e : Env) : Prop :=
  (∀ gs ∈ e.gss, GS.tagged gs) ∧ (∀ o, e.docW = some o → o.owned = false) ∧ e.instStale = false

/-- accumulator invariant of `copyGlyph` / `explodeGS` -/
def AccOK (acc : List Entry × List Write) : Prop :=
  (∀ en ∈ acc.1, en.via = EXPLODE) ∧ (∀ w ∈ acc.2, w.stage = EXPLODE)

theorem foldl_inv {α β} (P : β → Prop) (f : β → α → β) (l : List α) (b : β) (hb : P b)
    (hf : ∀ b a, P b → P (f b a)) : P (l.foldl f b) := by
  induction l generalizing b with
  | nil => exact hb
  | cons a l ih => exact ih _ (hf b a hb)

theorem copyGlyph_ok (fd : FontD) (f : Nat) (L : String) (taken : List String) (m : Bool) (fuel : Nat) (name : String)
    (acc : List Entry × List Write) (h : AccOK acc) : AccOK (copyGlyph fd f L taken m fuel name acc) := by
  induction fuel generalizing name acc with
  | zero => exact h
  | succ fuel ih =>
    unfold copyGlyph
    simp only []
    split
    · exact h
    · split
      · exact h
      · rename_i d _
        have h2 : AccOK (d.comps.foldl (fun a b => copyGlyph fd f L taken m fuel b a) acc) :=
          foldl_inv AccOK _ _ _ h (fun b a hb => ih a b hb)
        refine ⟨?_, ?_⟩
        · intro en hen
          rcases mem_append.mp hen with hen | hen
          · exact h2.1 en hen
          · simp at hen; subst hen; rfl
        · intro w hw
          rcases mem_append.mp hw with hw | hw
          · exact h2.2 w hw
          · rcases mem_append.mp hw with hw | hw
            · split at hw
              · cases hw
              · simp at hw; subst hw; rfl
            · split at hw
              · simp at hw; subst hw; rfl
              · cases hw

theorem explodeGS_ok (fd : FontD) (gs : GS) (c : Bool) : AccOK (explodeGS fd gs c) := by
  unfold explodeGS
  simp only []
  apply foldl_inv AccOK
  · refine ⟨?_, ?_⟩
    · intro en h; cases h
    · intro w h; cases h
  · intro b en hb
    split
    · exact hb
    · split
      · exact hb
      · apply foldl_inv AccOK _ _ _ hb
        intro b' L hb'
        split
        · exact hb'
        · split
          · exact copyGlyph_ok _ _ _ _ _ _ _ _ hb'
          · exact hb'

theorem EXPLODE_ne : (EXPLODE == "") = false := by decide

theorem tagOf_owned (name : String) (en : Entry) (h : en.via = EXPLODE) : tagOf name en.via = EXPLODE := by
  simp [tagOf, h, EXPLODE_ne]

theorem mem_leakStages_MATH : MATH ∈ leakStages := by simp [leakStages]
theorem mem_leakStages_EXPLODE : EXPLODE ∈ leakStages := by simp [leakStages]
theorem mem_leakStages_DC : DC ∈ leakStages := by simp [leakStages]

theorem dcWrites_attr (fd : FontD) (f : Nat) (en : Option Entry) (a : List String) (n : String)
    (hen : ∀ e, en = some e → e.obj.owned = true → e.via = EXPLODE) :
    ∀ w ∈ dcWrites fd f en a n, w.cell.obj.owned = true → w.stage ∈ leakStages := by
  intro w hw ho
  unfold dcWrites at hw
  simp only [] at hw
  split at hw
  · cases hw
  · rcases mem_append.mp hw with hw | hw
    · cases en with
      | none => cases hw
      | some e =>
        simp at hw; subst hw
        simp only [] at ho
        rw [tagOf_owned DC e (hen e rfl ho)]; exact mem_leakStages_EXPLODE
    · split at hw
      · split at hw
        · simp at hw; subst hw; exact mem_leakStages_DC
        · cases hw
      · simp at hw; subst hw; exact mem_leakStages_DC

/-- one stage preserves the invariant, and its writes to caller-owned cells carry one of the three names -/
theorem exec_tagged (inp : Inp) (st : Stage) (e : Env) (he : Env.tagged e) (hs : st.aliasing = false) :
    (∀ w ∈ (exec inp st e).1, w.cell.obj.owned = true → w.stage ∈ leakStages) ∧ Env.tagged (exec inp st e).2 := by
  cases st with
  | fromLayer f layer copy =>
    simp only [Stage.aliasing, Bool.not_eq_false'] at hs
    subst hs
    refine ⟨by simp [exec], ?_, he.2⟩
    intro gs hgs
    simp only [exec, fromLayerGS, if_true, mem_append, mem_singleton] at hgs
    rcases hgs with hgs | rfl
    · exact he.1 gs hgs
    · refine ⟨?_, rfl⟩
      intro en hen ho
      rw [freshEntries_safe _ _ en hen] at ho; cases ho
  | filter srcs name fields lk =>
    refine ⟨?_, he⟩
    intro w hw ho
    simp only [exec, mem_flatMap] at hw
    obtain ⟨i, _, hw⟩ := hw
    cases hg : e.gss[i]? with
    | none => simp [hg] at hw
    | some gs =>
      have hgs := he.1 gs (mem_of_getElem? hg)
      simp only [hg, filterWrites, mem_append, mem_flatMap, mem_map] at hw
      rcases hw with ⟨en, hen, fl, _, rfl⟩ | hw
      · simp only [] at ho ⊢
        rw [tagOf_owned name en (hgs.1 en hen ho)]; exact mem_leakStages_EXPLODE
      · cases lk with
        | none => simp at hw
        | some p =>
          simp at hw; subst hw
          simp only [] at ho
          rw [hgs.2] at ho; cases ho
  | explode src certain =>
    simp only [exec]
    cases hg : e.gss[src]? with
    | none => exact ⟨by simp, he⟩
    | some gs =>
      simp only []
      split
      · exact ⟨by simp, he⟩
      · have hok := explodeGS_ok (inp.font gs.font) gs certain
        have hgs := he.1 gs (mem_of_getElem? hg)
        refine ⟨?_, ?_, he.2⟩
        · intro w hw _
          rcases mem_cons.mp hw with rfl | hw
          · exact mem_leakStages_EXPLODE
          · rw [hok.2 w hw]; exact mem_leakStages_EXPLODE
        · intro gs' hgs'
          rcases mem_or_eq_of_mem_set hgs' with h | rfl
          · exact he.1 gs' h
          · refine ⟨?_, hgs.2⟩
            intro en hen ho
            rcases mem_append.mp hen with hen | hen
            · exact hgs.1 en hen ho
            · exact hok.1 en hen
  | dottedCircle src =>
    simp only [exec]
    cases hg : e.gss[src]? with
    | none => exact ⟨by simp, he⟩
    | some gs =>
      have hgs := he.1 gs (mem_of_getElem? hg)
      refine ⟨?_, he⟩
      simp only [dcExec]
      split
      · split
        · simp
        · rename_i en hfind
          apply dcWrites_attr
          intro e' he' ho
          cases he'
          exact hgs.1 _ (mem_of_find?_eq_some hfind) ho
      · apply dcWrites_attr
        intro e' he'; cases he'
  | math src =>
    simp only [exec]
    cases hg : e.gss[src]? with
    | none => exact ⟨by simp, he⟩
    | some gs =>
      refine ⟨?_, he⟩
      intro w hw _
      simp only [mathExec] at hw
      split at hw
      · simp at hw; subst hw; exact mem_leakStages_MATH
      · cases hw
  | instantiate stale =>
    simp only [Stage.aliasing] at hs
    subst hs
    exact ⟨by simp [exec], he.1, he.2.1, rfl⟩
  | refresh => exact ⟨by simp [exec], he.1, he.2.1, rfl⟩
  | propagateI src =>
    simp only [exec]
    cases hg : e.gss[src]? with
    | none => exact ⟨by simp, he⟩
    | some gs =>
      have hgs := he.1 gs (mem_of_getElem? hg)
      refine ⟨?_, he⟩
      intro w hw ho
      rcases mem_append.mp hw with hw | hw
      · simp only [filterWrites, mem_append, mem_flatMap, mem_map] at hw
        rcases hw with ⟨en, hen, fl, _, rfl⟩ | hw
        · simp only [] at ho ⊢
          rw [tagOf_owned _ en (hgs.1 en hen ho)]; exact mem_leakStages_EXPLODE
        · simp at hw
      · simp [he.2.2] at hw
  | otf _ => exact ⟨by simp [exec], he⟩
  | dsCopy =>
    refine ⟨by simp [exec], he.1, ?_, he.2.2⟩
    intro o ho
    simp only [exec, Option.some.injEq] at ho
    subst ho; rfl
  | dsAlias => simp [Stage.aliasing] at hs
  | dsWrite name slots =>
    simp only [exec]
    cases hd : e.docW with
    | none => exact ⟨by simp, he⟩
    | some o =>
      refine ⟨?_, he⟩
      intro w hw ho
      simp only [mem_map] at hw
      obtain ⟨p, _, rfl⟩ := hw
      simp only [] at ho
      rw [he.2.1 o hd] at ho; cases ho
  | drop srcs names =>
    refine ⟨by simp [exec], ?_, he.2⟩
    intro gs hgs
    simp only [exec, mem_map] at hgs
    obtain ⟨⟨g0, i⟩, hm, rfl⟩ := hgs
    have h0 := he.1 g0 (fst_mem_of_mem_zipIdx hm)
    simp only []
    split
    · refine ⟨?_, h0.2⟩
      intro en hen ho
      simp only [dropNames, mem_filter] at hen
      exact h0.1 en hen.1 ho
    · exact h0
  | reset =>
    refine ⟨by simp [exec], ?_, ?_, rfl⟩
    · intro gs hgs; simp [exec] at hgs
    · intro o ho; simp [exec] at ho

theorem run_tagged (inp : Inp) (sts : List Stage) (e : Env) (he : Env.tagged e)
    (hs : ∀ st ∈ sts, st.aliasing = false) :
    ∀ w ∈ (run inp sts e).1, w.cell.obj.owned = true → w.stage ∈ leakStages := by
  induction sts generalizing e with
  | nil => simp [run]
  | cons st rest ih =>
    have h1 := exec_tagged inp st e he (hs st (by simp))
    have h2 := ih (exec inp st e).2 h1.2 (fun s hs' => hs s (by simp [hs']))
    intro w hw
    simp only [run] at hw
    rcases mem_append.mp hw with hw | hw
    · exact h1.1 w hw
    · exact h2 w hw


def NA (l : List Stage) : Prop := ∀ st ∈ l, st.aliasing = false
theorem NA_nil : NA [] := by intro st h; cases h
theorem NA_append {a b : List Stage} (ha : NA a) (hb : NA b) : NA (a ++ b) := by
  intro st h; rcases mem_append.mp h with h | h
  · exact ha st h
  · exact hb st h
theorem NA_single {st : Stage} (h : st.aliasing = false) : NA [st] := by
  intro s hs; simp at hs; subst hs; exact h
theorem NA_cons {st : Stage} {l : List Stage} (h : st.aliasing = false) (hl : NA l) : NA (st :: l) := by
  intro s hs; rcases mem_cons.mp hs with rfl | hs
  · exact h
  · exact hl s hs
theorem NA_ite {c : Prop} [Decidable c] {a b : List Stage} (ha : NA a) (hb : NA b) : NA (if c then a else b) := by
  split <;> assumption
theorem NA_filter (srcs : List Nat) (n : String) (f : List GField) (k : Option (String × Bool)) :
    NA [Stage.filter srcs n f k] := NA_single rfl

theorem stageOfSpec_NA (ds : Bool) (i : Nat) (s : FSpec) : (stageOfSpec ds i s).aliasing = false := by
  unfold stageOfSpec; split
  · rfl
  · split
    · rfl
    · split <;> rfl

theorem specsNA (l : List FSpec) (ds : Bool) (i : Nat) : NA (l.flatMap (stagesOfSpec ds i)) := by
  intro st hst
  simp only [mem_flatMap] at hst
  obtain ⟨s, _, hst⟩ := hst
  unfold stagesOfSpec at hst
  rcases mem_cons.mp hst with rfl | hst
  · exact stageOfSpec_NA ds i s
  · split at hst
    · cases hst
    · simp at hst; subst hst; rfl

theorem zipLongest_NA (ls : List (List Stage)) (n : Nat) (h : ∀ l ∈ ls, NA l) : NA (zipLongest ls n) := by
  induction n generalizing ls with
  | zero => exact NA_nil
  | succ n ih =>
    unfold zipLongest
    apply NA_append
    · intro st hst
      simp only [mem_filterMap] at hst
      obtain ⟨l, hl, hh⟩ := hst
      exact h l hl st (mem_of_mem_head? hh)
    · apply ih
      intro l hl
      simp only [mem_map] at hl
      obtain ⟨l', hl', rfl⟩ := hl
      intro st hst
      exact h l' hl' st (mem_of_mem_tail hst)

theorem explodeStage_NA (inp : Inp) (i f : Nat) (c : Bool) : NA (explodeStage inp i f c) := by
  unfold explodeStage; exact NA_ite (NA_single rfl) NA_nil

theorem compileOne_NA (inp : Inp) (i : Nat) (s : Nat × Option String) (b feat : Bool) :
    NA (compileOne inp i s b feat) := by
  unfold compileOne
  exact NA_append (NA_append (NA_append (NA_single rfl) (NA_ite (NA_single rfl) NA_nil))
    (NA_ite (NA_single rfl) NA_nil)) (NA_single rfl)

theorem singlePre_NA (inp : Inp) (ttf : Bool) (f : Nat) : NA (singlePre inp ttf f) := by
  unfold singlePre
  simp only []
  refine NA_append (NA_append (NA_append (NA_append (NA_append (NA_append (NA_append ?_ ?_) ?_) ?_) ?_) ?_) ?_) ?_
  · exact NA_ite (NA_cons rfl (NA_single rfl)) NA_nil
  · exact specsNA _ _ _
  · exact explodeStage_NA _ _ _ _
  · exact NA_filter _ _ _ _
  · exact NA_ite (NA_filter _ _ _ _) NA_nil
  · exact NA_ite (NA_filter _ _ _ _) NA_nil
  · exact NA_ite (NA_ite (NA_filter _ _ _ _) (NA_ite (NA_filter _ _ _ _) NA_nil)) NA_nil
  · exact specsNA _ _ _

theorem single_NA (inp : Inp) (ttf : Bool) (h : inp.cfg.inplace = false) : NA (single inp ttf) := by
  unfold single
  cases inp.cfg.sources.head? with
  | none => exact NA_nil
  | some s =>
    refine NA_append (NA_append (NA_single ?_) (singlePre_NA inp ttf s.1)) (compileOne_NA _ _ _ _ _)
    simp [Stage.aliasing, h]

theorem perSource_NA (inp : Inp) (g : Nat → Nat → List Stage) (h : ∀ i f, NA (g i f)) :
    ∀ l ∈ perSource inp g, NA l := by
  intro l hl
  simp only [perSource, mem_map] at hl
  obtain ⟨⟨s, i⟩, _, rfl⟩ := hl
  exact h i s.1

theorem interpPre_NA (inp : Inp) (ttf : Bool) (h : inp.cfg.inplace = false) : NA (interpPre false inp ttf) := by
  unfold interpPre
  simp only []
  refine NA_append (NA_append (NA_append (NA_append (NA_append (NA_append (NA_append ?_ ?_) ?_) ?_) ?_) ?_) ?_) ?_
  · intro st hst
    simp only [fromLayers, mem_map] at hst
    obtain ⟨s, _, rfl⟩ := hst
    simp [Stage.aliasing, h]
  · exact NA_ite (NA_single (by simp [Stage.aliasing, h])) NA_nil
  · exact NA_ite (NA_cons rfl (NA_single rfl)) NA_nil
  · exact zipLongest_NA _ _ (perSource_NA inp _ (fun i f => specsNA _ _ _))
  · exact NA_ite (NA_filter _ _ _ _) NA_nil
  · exact zipLongest_NA _ _ (perSource_NA inp _ (fun i f => explodeStage_NA inp i f _))
  · refine NA_ite (NA_append ?_ (NA_ite (NA_filter _ _ _ _) NA_nil)) (NA_cons rfl (NA_single rfl))
    exact NA_ite (NA_append (NA_filter _ _ _ _) (NA_ite (NA_single rfl) NA_nil)) (NA_ite (NA_filter _ _ _ _) NA_nil)
  · exact zipLongest_NA _ _ (perSource_NA inp _ (fun i f => specsNA _ _ _))

theorem interpCompile_NA (inp : Inp) (feat : Bool) (assign : Nat → List Stage) (ha : ∀ i, NA (assign i)) :
    NA (interpCompile inp feat assign) := by
  intro st hst
  simp only [interpCompile, mem_flatMap] at hst
  obtain ⟨⟨s, i⟩, _, hst⟩ := hst
  exact NA_append (compileOne_NA inp i s true feat) (ha i) st hst

theorem pipeline_NA (inp : Inp) (hi : inp.cfg.inplace = false) : NA (pipeline inp) := by
  have ha : ∀ l i, NA (assignFont l i) := fun l i => NA_single rfl
  unfold pipeline pipelineG
  simp only [hi, Bool.false_eq_true, if_false]
  cases inp.cfg.fn with
  | ttf => exact single_NA inp true hi
  | otf => exact single_NA inp false hi
  | ittfs => exact NA_append (interpPre_NA inp true hi) (interpCompile_NA inp _ _ (fun _ => NA_nil))
  | ittfsDS =>
    exact NA_append (NA_append (NA_single rfl) (interpPre_NA inp true hi)) (interpCompile_NA inp _ _ (ha _))
  | iotfsDS =>
    exact NA_append (NA_append (NA_single rfl) (interpPre_NA inp false hi)) (interpCompile_NA inp _ _ (ha _))
  | vttf =>
    refine NA_append (NA_append (NA_append ?_ (interpPre_NA inp true hi)) (interpCompile_NA inp _ _ (ha _))) ?_
    · exact NA_cons rfl (NA_single rfl)
    · exact NA_cons rfl (NA_cons rfl (NA_single rfl))
  | vcff2 =>
    refine NA_append (NA_append (NA_append ?_ (interpPre_NA inp false hi)) (interpCompile_NA inp _ _ (ha _))) ?_
    · exact NA_cons rfl (NA_single rfl)
    · exact NA_cons rfl (NA_cons rfl (NA_single rfl))

theorem env0_tagged (inp : Inp) : Env.tagged (env0 inp) := by
  refine ⟨?_, ?_, rfl⟩
  · intro gs h; simp [env0] at h
  · intro o h; simp [env0] at h

/-- **C07_attribution**: for EVERY configuration without inplace (whatever fonts, filters and options), each write
    the model predicts into a caller-owned cell is made by — or through an alias created by — one of
    `setupTable_MATH`, `ExplodeColorLayerGlyphsFilter`, `DottedCircleFilter`.  (So the model predicts no other
    leak: anything else observed is a disagreement.) -/
theorem C07_attribution (inp : Inp) (k : Nat) (hi : inp.cfg.inplace = false) :
    ∀ w ∈ leaks inp k, w.stage ∈ leakStages := by
  intro w hw
  simp only [leaks, mem_filter] at hw
  unfold trace at hw
  refine run_tagged inp _ _ (env0_tagged inp) ?_ w hw.1 hw.2
  intro st hst
  exact pipeline_NA inp hi st (mem_of_mem_take hst)

/-! ### the property is false of the three reaching stages: concrete witnesses (the model follows the code) -/

def gA : GlyphD := { name := "a", contours := true, unicodes := true, anchors := ["top"] }
def gMark : GlyphD := { name := "acutecomb", contours := true, anchors := ["_top"] }

/-- TestMathFont-like: MATH constants with MinConnectorOverlap -/
def witnessMath : Inp :=
  { cfg := { fn := .ttf, sources := [(0, none)] },
    fonts := [{ default := "public.default", layers := [⟨"public.default", [gA]⟩],
                lib := { mathPrefix := true, mathConstants := true, mathMCO := true } }] }

/-- ColorTest-like: glyph `b` of layer `color2` has a component `c` and a code point -/
def witnessColor : Inp :=
  { cfg := { fn := .otf, sources := [(0, none)] },
    fonts := [{ default := "public.default",
                layers := [⟨"public.default", [{ name := "b", contours := true }, { name := "c", contours := true }]⟩,
                           ⟨"color2", [{ name := "b", comps := ["c"], unicodes := true }, { name := "c", contours := true }]⟩],
                lib := { palettes := true, colorMap := some ["color2"] } }] }

/-- dotted circle filter with a categories dict and no GDEF table -/
def witnessDC : Inp :=
  { cfg := { fn := .ttf, sources := [(0, none)], filtersArg := some [some { kind := DC, pre := true }] },
    fonts := [{ default := "public.default", layers := [⟨"public.default", [gA, gMark]⟩],
                lib := { categories := true } }] }

theorem witnessMath_leaks :
    (leaksAll witnessMath).map (fun w => (w.cell, w.stage)) = [(⟨.fontLib 0, MCO_SLOT⟩, MATH)] := by decide
theorem witnessMath_fails : holds witnessMath ((leaksAll witnessMath).map (·.cell)) = false := by decide

theorem witnessColor_leaks :
    ((leaksAll witnessColor).filter (·.must)).map (fun w => w.cell) =
      [⟨.fontLib 0, CL_KEY⟩, ⟨.glyph 0 "color2" "b", "components"⟩, ⟨.glyph 0 "color2" "b", "unicodes"⟩] := by decide
theorem witnessColor_fails : holds witnessColor ((leaksAll witnessColor).map (·.cell)) = false := by decide

theorem witnessDC_leaks :
    (leaksAll witnessDC).map (fun w => (w.cell, w.stage)) = [(⟨.fontLib 0, CATS_KEY ++ "/uni25CC"⟩, DC)] := by decide
theorem witnessDC_fails : holds witnessDC ((leaksAll witnessDC).map (·.cell)) = false := by decide

/-- two masters through a designspace entry point, propagateAnchors as lib filter, a mixed glyph `one`
    (contour + component) that is itself used as a component -/
def witnessPropagate : Inp :=
  let fd : FontD := { default := "public.default",
                      layers := [⟨"public.default", [gA, { name := "one", contours := true, comps := ["a"] },
                                                     { name := "period", comps := ["one"] }]⟩],
                      lib := { filters := [{ kind := "PropagateAnchorsFilter", pre := true }] } }
  { cfg := { fn := .iotfsDS, sources := [(0, none), (1, none)], dsNamed := [true, true] }, fonts := [fd, fd] }

/-- **the defect repaired by /repo commit 61a81a2** (OLD pipeline, kept for the record): before that commit the
    Instantiator kept reading the caller's layers until a filter reported a change, and PropagateAnchorsIFilter
    appended the propagated anchors to the caller's mixed glyph `one` in both masters — the property was false -/
theorem witnessPropagate_old_leaks :
    (leaksOld witnessPropagate).map (fun w => (w.cell, w.stage)) =
      [(⟨.glyph 0 "public.default" "one", "anchors"⟩, PROPAGATE), (⟨.glyph 1 "public.default" "one", "anchors"⟩, PROPAGATE)] := by
  decide
theorem witnessPropagate_old_fails : holds witnessPropagate ((leaksOld witnessPropagate).map (·.cell)) = false := by decide

/-- … and the CURRENT pipeline on the same witness (propagateAnchors filter, designspace entry point): clean
    configuration, so every caller-owned cell is unchanged after any prefix and any number of calls, and the
    predicted leak set is empty -/
theorem witnessPropagate_clean : cleanCfg witnessPropagate = true := by decide
theorem witnessPropagate_now (n k : Nat) (s : Store) (c : Cell) (hc : c.obj.owned = true) :
    applyAll (trace witnessPropagate k) s c = s c ∧
    applyAll (run witnessPropagate ((history witnessPropagate n).take k) (env0 witnessPropagate)).1 s c = s c ∧
    leaks witnessPropagate k = [] :=
  C07_main witnessPropagate witnessPropagate_clean n k s c hc
theorem witnessPropagate_holds : holds witnessPropagate ((leaksAll witnessPropagate).map (·.cell)) = true :=
  C07_holds_model _ _ (C07_signatures _ witnessPropagate_clean)
/-- the filter stage is really there (the theorem is not about an empty pipeline) -/
example : (pipeline witnessPropagate).any (fun st => match st with | .propagateI _ => true | _ => false) = true := by decide
/-- with inplace=True the Instantiator legitimately reads (and the filter reaches) the sources -/
example : ((leaksAll { witnessPropagate with cfg := { witnessPropagate.cfg with inplace := true } }).any
    (fun w => w.stage == PROPAGATE)) = true := by decide

/-- the same fonts and filter through the list API (no Instantiator): nothing leaks -/
example : leaksAll { witnessPropagate with cfg := { witnessPropagate.cfg with fn := .ittfs } } = [] := by decide

/-- the glyph set's *content* matters for the colour-layer leak: `period.color2` exists as an ordinary glyph (the
    filter would raise on the name clash and alias nothing), but it is not exported — SkipExportGlyphsFilter
    deletes it from the glyph set first, so the filter does put the caller's `color2/period` into the glyph set and
    the later in-place stages (decompose, …) reach it -/
def witnessClash (skip : List String) : Inp :=
  { cfg := { fn := .otf, sources := [(0, none)], skipArg := some skip },
    fonts := [{ default := "public.default",
                layers := [⟨"public.default", [{ name := "period", contours := true, colorMap := some ["color2"] },
                                               { name := "period.color2", contours := true }]⟩,
                           ⟨"color2", [{ name := "period", contours := true }]⟩],
                lib := { palettes := true } }] }

example : ((leaksAll (witnessClash ["period.color2"])).map (·.cell)).contains ⟨.glyph 0 "color2" "period", "outline"⟩ = true := by
  decide
example : (leaksAll (witnessClash [])).map (·.cell) = [⟨.fontLib 0, CL_KEY⟩] := by decide

/-! ### non-vacuity of the main theorems -/

/-- a two-master variable TTF build with kerning-less plain fonts, custom filters and all the options on -/
def cleanExample : Inp :=
  { cfg := { fn := .vttf, removeOverlaps := true, flattenComponents := true, sources := [(0, none), (1, none), (0, some "support")],
             filtersArg := some [none, some { kind := "ProbeFilter", pre := false }, some { kind := "TransformationsFilter", pre := true }],
             dsSkip := ["c"], dsNamed := [true, false, false] },
    fonts := [{ default := "public.default",
                layers := [⟨"public.default", [gA, gMark, { name := "c", comps := ["a"] }]⟩, ⟨"support", [gA]⟩],
                lib := { filters := [{ kind := "DecomposeTransformedComponentsFilter", pre := true }], skipExport := ["c"] } },
              { default := "foreground", layers := [⟨"foreground", [gA, gMark, { name := "c", comps := ["a"] }]⟩] }] }

example : cleanCfg cleanExample = true := by decide
example : (pipeline cleanExample).length = 32 := by decide
set_option maxRecDepth 4000 in
example : (trace cleanExample 32).length = 108 := by decide
example : leaksAll cleanExample = [] := C07_leaks_nil _ _ (C07_signatures _ (by decide))
example : witnessColor.cfg.inplace = false ∧ (leaksAll witnessColor).length = 7 := by decide

end Ufo2ft.C07

