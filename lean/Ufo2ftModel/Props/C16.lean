import Ufo2ftModel.Spec.C16
/-!
Property C16: theorems about the model of ufo2ft's font-info fallbacks and info-fed table fields.
Everything is proved for all inputs (arbitrary info, arbitrary NFKD function, unbounded strings and lists).
-/
namespace Ufo2ft.C16
open List

/-! ### the fallback graph is acyclic; getAttrWithFallback is total and budget-independent -/

/-- **C16_total (acyclicity)**: every call a special fallback makes goes to an attribute of strictly smaller rank -/

theorem deps_rank (a b : Attr) (h : b ∈ deps a) : rank b < rank a := by
  cases a <;> simp [deps] at h <;> (try rcases h with rfl | rfl | rfl) <;> (try rcases h with rfl | rfl) <;> (try subst h) <;> decide

theorem special_congr (g g' : Attr → R Val) (info : Info) (env : Env) (a : Attr)
    (h : ∀ b ∈ deps a, g b = g' b) : special g info env a = special g' info env a := by
  cases a <;> simp [deps] at h <;> simp [special, h]

theorem get_succ (n : Nat) (info : Info) (env : Env) (a : Attr) :
    get (n + 1) info env a =
      if info a ≠ .none then pure (info a)
      else if isSpecial a then special (get n info env) info env a
      else if isStatic a then pure (static a) else throw .keyError := rfl

/-- the answer does not depend on the recursion budget once it exceeds the rank -/
theorem C16_fuel_irrelevant (info : Info) (env : Env) :
    ∀ (n m : Nat) (a : Attr), rank a < n → rank a < m → get n info env a = get m info env a := by
  intro n
  induction n with
  | zero => intro m a h; omega
  | succ n ih =>
    intro m a hn hm
    cases m with
    | zero => omega
    | succ m =>
      rw [get_succ, get_succ]
      have : special (get n info env) info env a = special (get m info env) info env a := by
        apply special_congr
        intro b hb
        have := deps_rank a b hb
        exact ih m b (by omega) (by omega)
      rw [this]

/-- attributes other than the two that are not plain data look-ups with total fallbacks -/
def plain (a : Attr) : Bool := a != .postscriptBlueScale && a != .openTypeGaspRangeRecords

theorem deps_plain (a b : Attr) (h : b ∈ deps a) : plain b = true := by
  cases a <;> simp [deps] at h <;> (try rcases h with rfl | rfl | rfl) <;> (try rcases h with rfl | rfl) <;> (try subst h) <;> decide

theorem not_plain (a : Attr) (h : plain a = false) (hg : a ≠ .openTypeGaspRangeRecords) :
    a = .postscriptBlueScale := by
  cases a <;> first | rfl | (exact absurd rfl hg) | (simp [plain] at h; done)

theorem plain_of_not_special (a : Attr) (hs : isSpecial a = false) (hg : a ≠ .openTypeGaspRangeRecords) :
    plain a = true := by
  cases a <;> first | rfl | (exact absurd rfl hg) | (simp [isSpecial] at hs; done)

theorem special_ok (g : Attr → R Val) (E : Attr → Val) (info : Info) (env : Env) (a : Attr) (hp : plain a = true)
    (hs : isSpecial a = true) (h : ∀ b ∈ deps a, g b = .ok (E b)) : ∃ v, special g info env a = .ok v := by
  cases a <;> simp [isSpecial] at hs <;> simp [plain] at hp <;> simp [deps] at h <;>
    simp [special, h, bind, Except.bind, pure, Except.pure]
  all_goals (repeat' split) <;> simp

def valOf (r : R Val) : Val := match r with | .ok v => v | .error _ => .none

theorem ok_valOf {r : R Val} (h : ∃ v, r = .ok v) : r = .ok (valOf r) := by
  obtain ⟨v, rfl⟩ := h; rfl

theorem plain_static (a : Attr) (hp : plain a = true) (hs : isSpecial a = false) : isStatic a = true := by
  cases a <;> first | rfl | (simp [plain] at hp; done) | (simp [isSpecial] at hs; done)

/-- **C16_total (1/2)**: getAttrWithFallback returns a value for every info whatever is set or missing
    (no RecursionError, no KeyError), as soon as the budget exceeds the rank of the attribute -/
theorem get_ok (info : Info) (env : Env) :
    ∀ (n : Nat) (a : Attr), rank a < n → plain a = true → ∃ v, get n info env a = .ok v := by
  intro n
  induction n with
  | zero => intro a h; omega
  | succ n ih =>
    intro a hn hp
    rw [get_succ]
    by_cases he : info a ≠ .none
    · rw [if_pos he]; exact ⟨_, rfl⟩
    · rw [if_neg he]
      by_cases hs : isSpecial a = true
      · rw [if_pos hs]
        apply special_ok (get n info env) (fun b => valOf (get n info env b)) info env a hp hs
        intro b hb
        exact ok_valOf (ih b (by have := deps_rank a b hb; omega) (deps_plain a b hb))
      · rw [if_neg hs, if_pos (plain_static a hp (by simpa using hs))]; exact ⟨_, rfl⟩

theorem Val.s_none : (Val.none).s = [] := rfl
theorem lowerA_nil_not_style : (lowerA [] ∈ styleMapNames) = False := by
  simp [lowerA, styleMapNames, S]
theorem truthy_none_false (v : Val) (h : v.truthy = true) : v ≠ .none := by
  intro hv; subst hv; simp [Val.truthy] at h

theorem eq_of_special (E : Attr → Val) (info : Info) (env : Env) (a : Attr) (hs : isSpecial a = true)
    (hp : plain a = true)
    (h : special (fun b => .ok (E b)) info env a = .ok (E a)) : fallbackEq info env E a = true := by
  cases a <;> simp [isSpecial] at hs <;> simp [plain] at hp <;>
    simp [special, bind, Except.bind, pure, Except.pure] at h <;>
    simp [fallbackEq, ← h, c0_8, c0_2, c0_7, c0_5, c1_2, c0_05, cm0_075]
  case styleMapFamilyName =>
    by_cases ht : (info Attr.styleMapStyleName).truthy = true
    · have hn := truthy_none_false _ ht
      simp [ht, hn] at h ⊢
      rw [← h]
    · simp at ht
      simp [ht] at h ⊢
      by_cases hn : E Attr.openTypeNamePreferredSubfamilyName = Val.none
      · simp [hn, Val.s_none, lowerA_nil_not_style] at h ⊢; exact h.symm
      · simp [hn] at h; rw [← h]
  case styleMapStyleName =>
    by_cases hn : E Attr.openTypeNamePreferredSubfamilyName = Val.none
    · simp [hn, Val.s_none] at h ⊢
      rw [← h]
      have : (lowerA (strip []) ∈ styleMapNames) = False := by simp [strip, lstrip, lowerA, styleMapNames, S]
      simp [this]
    · simp [hn] at h; split at h <;> simp_all
  case openTypeHheaCaretSlopeRise => split at h <;> simp_all
  case openTypeHheaCaretSlopeRun => split at h <;> simp_all

theorem zoneLoop_eq (l : List Q) (m : Q) : zoneLoop l m = (zoneHeights l).foldl max m := by
  induction l using pairs.induct generalizing m with
  | case1 x y rest ih => simp [zoneLoop, zoneHeights, pairs, ih]
  | case2 l h =>
    match l, h with
    | [], _ => simp [zoneLoop, zoneHeights, pairs]
    | [x], _ => simp [zoneLoop, zoneHeights, pairs]
    | x :: y :: r, h => exact absurd rfl (h x y r)

theorem zoneHeights_of_falsy (v : Val) (h : v.truthy = false) : zoneHeights v.l = [] := by
  cases v <;> simp_all [Val.truthy, Val.l, zoneHeights, pairs]

theorem eq_of_special_blueScale (E : Attr → Val) (info : Info) (env : Env)
    (h : special (fun b => .ok (E b)) info env .postscriptBlueScale = .ok (E .postscriptBlueScale)) :
    fallbackEq info env E .postscriptBlueScale = true := by
  simp only [special, bind, Except.bind, pure, Except.pure] at h
  split at h
  · simp at h
  · split at h
    · simp at h
    · have e : (if (E .postscriptOtherBlues).truthy = true then
            zoneLoop (E .postscriptOtherBlues).l
              (if (E .postscriptBlueValues).truthy = true then zoneLoop (E .postscriptBlueValues).l 0 else 0)
          else if (E .postscriptBlueValues).truthy = true then zoneLoop (E .postscriptBlueValues).l 0 else 0) =
          (zoneHeights (E .postscriptBlueValues).l ++ zoneHeights (E .postscriptOtherBlues).l).foldl max 0 := by
        rw [List.foldl_append]
        by_cases h1 : (E .postscriptBlueValues).truthy = true <;> by_cases h2 : (E .postscriptOtherBlues).truthy = true
        all_goals simp only [h1, h2, if_true, zoneLoop_eq]
        all_goals simp_all [zoneHeights_of_falsy]
      simp only [e] at h
      simp only [fallbackEq, c0_039625] at h ⊢
      split at h <;> simp_all

theorem blueScale_ok (E : Attr → Val) (info : Info) (env : Env)
    (hb : evenLen (E .postscriptBlueValues) = true) (ho : evenLen (E .postscriptOtherBlues) = true) :
    ∃ v, special (fun b => .ok (E b)) info env .postscriptBlueScale = .ok v := by
  simp only [evenLen, beq_iff_eq] at hb ho
  simp only [special, bind, Except.bind, pure, Except.pure, hb, ho]
  simp
  repeat' split
  all_goals exact ⟨_, rfl⟩

theorem rank_le (a : Attr) : rank a < 4 := by cases a <;> decide

theorem getV_eq (info : Info) (env : Env) (a : Attr) : getV info env a = valOf (get fuel info env a) := by
  unfold getV valOf; rfl

theorem get_getV (info : Info) (env : Env) (n : Nat) (a : Attr) (hn : rank a < n) (hp : plain a = true) :
    get n info env a = .ok (getV info env a) := by
  rw [getV_eq, C16_fuel_irrelevant info env n fuel a hn (by have := rank_le a; simp [fuel]; omega)]
  exact ok_valOf (get_ok info env fuel a (by have := rank_le a; simp [fuel]; omega) hp)

/-- **C16_explicit_attr**: an attribute that is set (not None) is returned as is — whatever else is set or
    missing, including falsy values such as 0, "" and [] -/
theorem C16_explicit_attr (info : Info) (env : Env) (a : Attr) (n : Nat) (h : info a ≠ .none) :
    get (n + 1) info env a = .ok (info a) := by
  rw [get_succ, if_pos h]; rfl

example : get 1 (fun a => if a = .openTypeOS2TypoLineGap then .num 0 else .none) { nfkd := fun c => [c], tan := 0, nowString := [], dates := [] } .openTypeOS2TypoLineGap
    = .ok (.num 0) := by rfl

theorem getV_explicit (info : Info) (env : Env) (a : Attr) (h : info a ≠ .none) : getV info env a = info a := by
  rw [getV_eq]; simp [fuel, get_succ, h, valOf, pure, Except.pure]

theorem fallbackEq_static (info : Info) (env : Env) (E : Attr → Val) (a : Attr) (hs : isSpecial a = false)
    (hg : a ≠ .openTypeGaspRangeRecords) : fallbackEq info env E a = (E a == static a) := by
  cases a <;> simp [isSpecial] at hs <;> simp at hg <;> simp [fallbackEq]

/-- evenness of the effective zone lists follows from evenness of the explicit ones -/
theorem evenLen_getV (info : Info) (env : Env) (a : Attr) (hs : a = .postscriptBlueValues ∨ a = .postscriptOtherBlues)
    (h : evenLen (info a) = true) : evenLen (getV info env a) = true := by
  by_cases he : info a ≠ .none
  · rw [getV_explicit info env a he]; exact h
  · have : getV info env a = .nums [] := by
      rw [getV_eq]
      rcases hs with rfl | rfl <;> simp [fuel, get_succ, he, isSpecial, isStatic, static, valOf, pure, Except.pure]
    rw [this]; rfl

/-- `special` evaluated on the effective values is what `get` returns for an absent special attribute -/
theorem get_special (info : Info) (env : Env) (a : Attr) (he : info a = .none) (hs : isSpecial a = true) :
    get fuel info env a = special (fun b => .ok (getV info env b)) info env a := by
  have : fuel = 7 + 1 := rfl
  rw [this, get_succ]; simp only [he, ne_eq, not_true_eq_false, if_false, hs, if_true]
  apply special_congr
  intro b hb
  exact get_getV info env 7 b (by have := rank_le b; omega) (deps_plain a b hb)

/-- **C16_fallback_system**: for every info whose zone lists have even length, the values returned by
    getAttrWithFallback solve the documented fallback equations: explicit values are returned unchanged, and
    every absent attribute equals its documented default or formula over the other effective values. -/
theorem C16_fallback_system (info : Info) (env : Env)
    (hb : evenLen (info .postscriptBlueValues) = true) (ho : evenLen (info .postscriptOtherBlues) = true) :
    holdsAttrs info env (getV info env) = true := by
  unfold holdsAttrs
  rw [List.all_eq_true]
  intro a _
  by_cases hg : a = .openTypeGaspRangeRecords
  · simp [hg]
  · rw [Bool.or_eq_true]; right
    by_cases he : info a ≠ .none
    · simp [he, getV_explicit info env a he]
    · rw [if_neg he]
      have he' : info a = .none := by simpa using he
      by_cases hs : isSpecial a = true
      · by_cases hp : plain a = true
        · apply eq_of_special _ _ _ _ hs hp
          rw [← get_special info env a he' hs]
          exact get_getV info env fuel a (by have := rank_le a; simp [fuel]; omega) hp
        · have hbs : a = .postscriptBlueScale := not_plain a (by simpa using hp) hg
          subst hbs
          apply eq_of_special_blueScale
          rw [← get_special info env _ he' hs]
          obtain ⟨v, hv⟩ := blueScale_ok (getV info env) info env
            (evenLen_getV info env _ (Or.inl rfl) hb) (evenLen_getV info env _ (Or.inr rfl) ho)
          rw [← get_special info env _ he' hs] at hv
          rw [getV_eq, hv]; rfl
      · have hs' : isSpecial a = false := by simpa using hs
        rw [fallbackEq_static info env _ a hs' hg]
        have : plain a = true := plain_of_not_special a hs' hg
        have hst := plain_static a this hs'
        rw [getV_eq]
        simp [fuel, get_succ, he', hs', hst, valOf, pure, Except.pure]

/-! ### intListToNum -/

/-- the digits written so far, most significant first: the open byte, then the finished bytes newest first -/
def digits (all : List (List Bool)) (bin : List Bool) : List Bool := bin ++ all.reverse.flatten

/-- the membership bits of positions i+k-1, …, i (descending) -/
def descBits (l : List Q) : Nat → Nat → List Bool
  | _, 0 => []
  | i, k + 1 => descBits l (i + 1) k ++ [l.contains (i : Q)]

theorem bitsLoop_digits (l : List Q) : ∀ (k i : Nat) (all : List (List Bool)) (bin : List Bool),
    digits (bitsLoop l i k all bin).1 (bitsLoop l i k all bin).2 = descBits l i k ++ digits all bin := by
  intro k
  induction k with
  | zero => intro i all bin; simp [bitsLoop, descBits]
  | succ k ih =>
    intro i all bin
    simp only [bitsLoop, descBits]
    split
    · rw [ih]; simp [digits]
    · rw [ih]; simp [digits]

theorem binary2num_snoc (xs : List Bool) (b : Bool) :
    binary2num (xs ++ [b]) = 2 * binary2num xs + (if b then 1 else 0) := by
  simp [binary2num, List.foldl_append]

theorem sumBits_low (l : List Q) : ∀ (n s : Nat),
    sumBits l s (n + 1) = (if l.contains (s : Q) then 1 else 0) + 2 * sumBits l (s + 1) n := by
  intro n
  induction n with
  | zero => intro s; simp [sumBits]
  | succ n ih =>
    intro s
    have e : s + 1 + n = s + (n + 1) := by omega
    rw [sumBits, ih s, sumBits, e]
    generalize l.contains ((s : Nat) : Q) = c1
    generalize l.contains ((s + (n + 1) : Nat) : Q) = c2
    cases c1 <;> cases c2 <;> simp [Nat.pow_succ] <;> omega

theorem binary2num_descBits (l : List Q) : ∀ (n s : Nat), binary2num (descBits l s n) = sumBits l s n := by
  intro n
  induction n with
  | zero => intro s; rfl
  | succ n ih =>
    intro s
    rw [descBits, binary2num_snoc, ih, sumBits_low]
    split <;> omega

/-- **C16_intListToNum**: the byte-wise binary string assembled by intListToNum denotes
    Σ_{i < length, start+i ∈ intList} 2^i — for every list, start and length (also when start is not a
    multiple of 8 and the "bytes" are ragged). -/
theorem C16_intListToNum (l : List Q) (start length : Nat) : intListToNum l start length = sumBits l start length := by
  unfold intListToNum
  have h := bitsLoop_digits l length start [] []
  simp only [digits, List.reverse_nil, List.flatten_nil, List.append_nil] at h
  rw [← binary2num_descBits, ← h]
  generalize bitsLoop l start length [] [] = r
  obtain ⟨all, bin⟩ := r
  cases bin <;> simp

/-! ### normalizeStringForPostscript (code after the repair f81aa08) -/

theorem psGood_qmark : psGood '?' = true := by decide

theorem refilter_good (sp : Bool) (d : Str) :
    ∀ x ∈ refilter sp d, psGood x = true ∨ (sp = true ∧ x = ' ') := by
  intro x hx
  simp only [refilter, List.mem_map, List.mem_filter, Bool.and_eq_true, Bool.not_eq_true'] at hx
  obtain ⟨y, ⟨_, hne, _⟩, rfl⟩ := hx
  by_cases h : (psAllowed y || (y == ' ' && sp)) = true
  · rw [if_pos h]
    simp only [Bool.or_eq_true, Bool.and_eq_true, beq_iff_eq] at h
    rcases h with h | h
    · left
      have hne' : y ∉ psExceptions := by simpa using hne
      simp [psGood, h, hne']
    · right; exact ⟨h.2, h.1⟩
  · rw [if_neg h]; left; exact psGood_qmark

/-- per-character lemma, for an arbitrary NFKD function: whatever a character appends is allowed -/
theorem normChar_spec (nfkd : Char → Str) (sp : Bool) (c : Char) :
    ∀ x ∈ normChar nfkd sp c, psGood x = true ∨ (sp = true ∧ x = ' ') := by
  intro x hx
  unfold normChar at hx
  split at hx
  · simp at hx
  · split at hx
    · simp at hx
    · rename_i h2
      split at hx
      · exact refilter_good sp _ x hx
      · rename_i h3; simp at hx h3 h2; subst hx
        left; simp [psGood, h3, h2]

/-- **C16_psname (general form)**: for EVERY string, EVERY NFKD function and either space option, the result of
    normalizeStringForPostscript holds only characters of [33,126] \ "[](){}<>/%", plus the space when spaces
    are allowed. -/
theorem C16_psname_string (nfkd : Char → Str) (sp : Bool) (s : Str) :
    holdsPsString sp (normalizePS nfkd sp s) = true := by
  unfold holdsPsString
  rw [List.all_eq_true]
  induction s with
  | nil => simp [normalizePS]
  | cons c s ih =>
    intro x hx
    simp only [normalizePS, List.mem_append] at hx
    rcases hx with hx | hx
    · rcases normChar_spec nfkd sp c x hx with h | h
      · simp [h]
      · simp [h.1, h.2]
    · exact ih x hx

/-- **C16_psname**: for EVERY string and EVERY NFKD function, normalizeNameForPostscript yields only printable
    ASCII without space and without any of `[](){}<>/%` — no side condition. -/
theorem C16_psname (nfkd : Char → Str) (s : Str) : holdsPsName (normalizeName nfkd s) = true := by
  have h := C16_psname_string nfkd false s
  unfold holdsPsString at h
  unfold holdsPsName normalizeName
  rw [List.all_eq_true] at h ⊢
  intro x hx
  simpa using h x hx

theorem psGood_lt (x : Char) (h : psGood x = true) : x.toNat < 128 := by
  simp only [psGood, psAllowed, Bool.and_eq_true, decide_eq_true_eq] at h; omega

/-- **C16_psname_ascii**: the result is pure ASCII ("reduced to ASCII where the format demands it") -/
theorem C16_psname_ascii (nfkd : Char → Str) (sp : Bool) (s : Str) : ∀ x ∈ normalizePS nfkd sp s, x.toNat < 128 := by
  intro x hx
  have h := C16_psname_string nfkd sp s
  unfold holdsPsString at h
  rw [List.all_eq_true] at h
  have := h x hx
  simp only [Bool.or_eq_true, Bool.and_eq_true, beq_iff_eq] at this
  rcases this with g | g
  · exact psGood_lt x g
  · rw [g.2]; decide

/-! #### history: the function BEFORE the repair f81aa08 (kept only to record why the repair was needed) -/

/-- the old loop body: the NFKD result was not filtered again -/
def normCharOld (nfkd : Char → Str) (allowSpaces : Bool) (c : Char) : Str :=
  if c = ' ' ∧ !allowSpaces then []
  else if psExceptions.contains c then []
  else if !psAllowed c then
    let d := nfkd c
    if !strictSubsetAllowed d then asciiReplace d else d
  else [c]

/-- about the OLD code: with the real NFKD of U+00A0 (a plain space) the "normalised" name contained a space -/
theorem C16_psname_old_false :
    holdsPsName (normCharOld (fun c => if c = Char.ofNat 0xA0 then [' '] else [c]) false (Char.ofNat 0xA0)) = false := by
  decide

/-- about the OLD code: ASCII controls survived `encode("ascii", "replace")` -/
theorem C16_psname_old_false_control : holdsPsName (normCharOld (fun c => [c]) false (Char.ofNat 1)) = false := by decide

/-- the repaired code on the same two inputs -/
example : normChar (fun c => if c = Char.ofNat 0xA0 then [' '] else [c]) false (Char.ofNat 0xA0) = [] := by decide
example : normChar (fun c => [c]) false (Char.ofNat 1) = ['?'] := by decide
example : normChar (fun _ => ['(', 'x', ')']) true (Char.ofNat 0xFF08) = ['x'] := by decide

/-! ### the field table -/

theorem anyBlues_eq (E : Attr → Val) : anyBlues E = zonesPresent E := by
  simp [anyBlues, zonesPresent, roundList, Bool.or_assoc]

/-- **C16_rows**: in the model of the table builders, every row of the field table shows the converted
    effective value of its attribute whenever the row applies — for an arbitrary effective-value function. -/
theorem C16_rows (E : Attr → Val) (info : Info) (env : Env) (ctx : Ctx) :
    ∀ r ∈ rows, condHolds r.cond E ctx r.attr = true →
      fieldVal E info env ctx r.field = applyConv r.conv (E r.attr) := by
  intro r hr hc
  simp only [rows, List.mem_cons, List.mem_nil_iff, or_false] at hr
  rcases hr with rfl | rfl | rfl | rfl | rfl | rfl | rfl | rfl | rfl | rfl | rfl | rfl | rfl | rfl | rfl | rfl | rfl | rfl | rfl | rfl | rfl | rfl | rfl | rfl | rfl | rfl | rfl | rfl | rfl | rfl | rfl | rfl | rfl | rfl | rfl | rfl | rfl | rfl | rfl | rfl | rfl | rfl | rfl | rfl | rfl | rfl | rfl | rfl | rfl | rfl | rfl
  all_goals simp [condHolds] at hc
  all_goals simp [fieldVal, applyConv, roundV, bits, numI, numN, C16_intListToNum, ljust, hc, anyBlues_eq,
    subXSize, subYSize, subXOffset, subYOffset, supXSize, supYSize, supXOffset, supYOffset, strikeSize, strikePos]

/-! ### compile: explicit wins, fallback fills, spec-valid info compiles -/

theorem compile_ok (info : Info) (env : Env) (ctx : Ctx) (o : Out) (h : compile info env ctx = .ok o) :
    o.fields = fieldVal (getV info env) info env ctx ∧ o.names = nameTable (getV info env) env := by
  unfold compile at h
  simp only at h
  repeat' split at h
  all_goals first | (cases h; exact ⟨rfl, rfl⟩) | (simp [throw, throwThe, MonadExceptOf.throw] at h)

def isErrOf (e : Err) : R Out → Bool
  | .error e' => e' == e
  | .ok _ => false

/-- witness for the negative results: only `postscriptFontName = "Ā"` is set -/
def witnessInfo : Info := fun a => if a = .postscriptFontName then .str [Char.ofNat 0x100] else .none
def witnessEnv : Env := { nfkd := fun c => [c], tan := 0, nowString := [], dates := [] }

/-- **C16_compiles_false**: "any spec-valid info compiles and saves" is false of the modelled code: a
    well-formed info whose PostScript name leaves Latin-1 makes the CFF compile raise UnicodeEncodeError. -/
theorem C16_compiles_false :
    wfInfo witnessInfo = true ∧
    isErrOf .unicodeEncode (compile witnessInfo witnessEnv ⟨true, true, false, true⟩) = true := by
  constructor <;> decide

theorem getV_static (info : Info) (env : Env) (a : Attr) (he : info a = .none) (hs : isSpecial a = false)
    (hg : a ≠ .openTypeGaspRangeRecords) : getV info env a = static a := by
  have hp : plain a = true := plain_of_not_special a hs hg
  have hst := plain_static a hp hs
  rw [getV_eq]; simp [fuel, get_succ, he, hs, hst, valOf, pure, Except.pure]

/-- **C16_compiles_partial**: for well-formed info the model of compile+save succeeds whenever the font is
    TrueType-flavoured, or the CFF table is not serialised, or its strings are encodable
    (Latin-1; ASCII for the weight and, on reload, the font name).  The unrestricted statement is false
    (`C16_compiles_false`). -/
theorem C16_compiles_partial (info : Info) (env : Env) (ctx : Ctx) (hw : wfInfo info = true)
    (henc : ctx.otf = true → ctx.cffWritten = true →
      cffEncodable (getV info env) env = true ∧ isAscii (getV info env .postscriptFontName).s = true) :
    ∃ o, compile info env ctx = .ok o := by
  simp only [wfInfo, Bool.and_eq_true, Bool.or_eq_true, decide_eq_true_eq, beq_iff_eq] at hw
  obtain ⟨⟨⟨⟨⟨⟨⟨_, hpan⟩, hfc⟩, hb⟩, ho⟩, _⟩, _⟩, _⟩ := hw
  have h1 : (getV info env .openTypeOS2FamilyClass).l.length = 2 := by
    by_cases he : info .openTypeOS2FamilyClass = .none
    · rw [getV_static info env _ he rfl (by simp)]; rfl
    · rw [getV_explicit info env _ he]; rcases hfc with h | h; exact absurd h he; exact h
  have h2 : ¬ (getV info env .openTypeOS2Panose).l.length < 10 := by
    by_cases he : info .openTypeOS2Panose = .none
    · rw [getV_static info env _ he rfl (by simp)]; simp [static, zeros, Val.l]
    · rw [getV_explicit info env _ he]; rcases hpan with h | h; exact absurd h he; omega
  have h3 : blueScaleAsserts info env = false := by
    unfold blueScaleAsserts
    by_cases he : info .postscriptBlueScale = .none
    · obtain ⟨v, hv⟩ := blueScale_ok (getV info env) info env
        (evenLen_getV info env _ (Or.inl rfl) hb) (evenLen_getV info env _ (Or.inr rfl) ho)
      rw [← get_special info env _ he rfl] at hv
      rw [hv]
    · have : get fuel info env .postscriptBlueScale = .ok (info .postscriptBlueScale) := by
        simp [fuel, get_succ, he, pure, Except.pure]
      rw [this]
  unfold compile
  simp only [h1, ne_eq, not_true_eq_false, if_false, h2, h3, Bool.false_eq_true, and_false]
  by_cases hc : ctx.otf = true ∧ ctx.cffWritten = true
  · obtain ⟨e1, e2⟩ := henc hc.1 hc.2
    simp [e1, e2, pure, Except.pure]
  · have : ¬ (ctx.otf = true ∧ ctx.cffWritten = true ∧ (!cffEncodable (getV info env) env) = true) := by
      intro h; exact hc ⟨h.1, h.2.1⟩
    have h' : ¬ (ctx.otf = true ∧ ctx.cffWritten = true ∧ (!isAscii (getV info env .postscriptFontName).s) = true) := by
      intro h; exact hc ⟨h.1, h.2.1⟩
    simp only [this, h', if_false]
    exact ⟨_, rfl⟩

/-- **C16_explicit**: whenever the font compiles, each applicable row whose attribute is set shows the
    conversion of exactly that value. -/
theorem C16_explicit (info : Info) (env : Env) (ctx : Ctx) (o : Out) (h : compile info env ctx = .ok o) :
    ∀ r ∈ rows, condHolds r.cond (getV info env) ctx r.attr = true → info r.attr ≠ .none →
      o.fields r.field = applyConv r.conv (info r.attr) := by
  intro r hr hc he
  rw [(compile_ok info env ctx o h).1, C16_rows _ info env ctx r hr hc, getV_explicit info env _ he]

/-- **C16_fallback**: … and each applicable row whose attribute is absent shows the conversion of a value
    that satisfies the documented fallback equation of that attribute. -/
theorem C16_fallback (info : Info) (env : Env) (ctx : Ctx) (o : Out) (h : compile info env ctx = .ok o)
    (hb : evenLen (info .postscriptBlueValues) = true) (ho : evenLen (info .postscriptOtherBlues) = true) :
    ∀ r ∈ rows, condHolds r.cond (getV info env) ctx r.attr = true → info r.attr = .none →
      o.fields r.field = applyConv r.conv (getV info env r.attr) ∧
      fallbackEq info env (getV info env) r.attr = true := by
  intro r hr hc he
  refine ⟨by rw [(compile_ok info env ctx o h).1, C16_rows _ info env ctx r hr hc], ?_⟩
  have := C16_fallback_system info env hb ho
  unfold holdsAttrs at this
  rw [List.all_eq_true] at this
  have hm : r.attr ∈ Attr.all := by cases r.attr <;> simp [Attr.all]
  have h2 := this r.attr hm
  simp only [he, ne_eq, not_true_eq_false, if_false, Bool.or_eq_true, beq_iff_eq] at h2
  rcases h2 with h2 | h2
  · rw [h2]; rfl
  · exact h2

/-! ### totality, packaged; uniqueness of the solution of the documented system -/

theorem blueScale_ok_or_assert (g : Attr → R Val) (E : Attr → Val) (info : Info) (env : Env)
    (h : ∀ b ∈ deps .postscriptBlueScale, g b = .ok (E b)) :
    (∃ v, special g info env .postscriptBlueScale = .ok v) ∨
      special g info env .postscriptBlueScale = .error .assertion := by
  simp [deps] at h
  by_cases c1 : (E .postscriptBlueValues).truthy = true ∧ (E .postscriptBlueValues).l.length % 2 ≠ 0
  · right; simp [special, h, bind, Except.bind, c1, throw, throwThe, MonadExceptOf.throw]
  · by_cases c2 : (E .postscriptOtherBlues).truthy = true ∧ (E .postscriptOtherBlues).l.length % 2 ≠ 0
    · right; simp [special, h, bind, Except.bind, c1, c2, throw, throwThe, MonadExceptOf.throw, pure, Except.pure]
    · left; simp only [special, h, bind, Except.bind, c1, c2, pure, Except.pure, if_false]
      repeat' split
      all_goals exact ⟨_, rfl⟩

/-- **C16_total**: for every info (any subset of attributes set, any values), every attribute that
    getAttrWithFallback is ever asked for, and every recursion budget of at least 4, the call returns a value —
    it never runs out of budget (no cycle in the fallback graph) and never hits a KeyError; the single
    exception is postscriptBlueScale, whose fallback may trip its own `assert` on an odd zone list. -/
theorem C16_total (info : Info) (env : Env) (a : Attr) (n : Nat) (hn : 4 ≤ n)
    (hg : a ≠ .openTypeGaspRangeRecords) :
    (∃ v, get n info env a = .ok v) ∨ (a = .postscriptBlueScale ∧ get n info env a = .error .assertion) := by
  by_cases hp : plain a = true
  · left; exact get_ok info env n a (by have := rank_le a; omega) hp
  · have hbs : a = .postscriptBlueScale := not_plain a (by simpa using hp) hg
    subst hbs
    obtain ⟨m, rfl⟩ : ∃ m, n = m + 1 := ⟨n - 1, by omega⟩
    rw [get_succ]
    by_cases he : info .postscriptBlueScale ≠ .none
    · left; rw [if_pos he]; exact ⟨_, rfl⟩
    · rw [if_neg he]; simp only [isSpecial, if_true]
      have := blueScale_ok_or_assert (get m info env) (getV info env) info env (by
        intro b hb
        exact get_getV info env m b (by have := deps_rank _ b hb; have := rank_le b; simp [rank] at *; omega)
          (deps_plain _ b hb))
      rcases this with h | h
      · left; exact h
      · right; exact ⟨trivial, h⟩

/-- the documented equation of an attribute determines its value from the values of the attributes it mentions -/
theorem fallbackEq_determines (info : Info) (env : Env) (E E' : Attr → Val) (a : Attr)
    (hg : a ≠ .openTypeGaspRangeRecords)
    (h : fallbackEq info env E a = true) (h' : fallbackEq info env E' a = true)
    (hd : ∀ b ∈ deps a, E b = E' b) : E a = E' a := by
  cases a <;> simp at hg <;> simp only [deps, List.mem_cons, List.mem_nil_iff, or_false, forall_eq_or_imp, forall_eq,
    List.not_mem_nil, false_imp_iff, implies_true] at hd <;> simp only [fallbackEq, beq_iff_eq] at h h' <;> simp_all

/-- **C16_fallback_unique**: the documented fallback system has exactly one solution — the values
    getAttrWithFallback returns.  (Well-foundedness of the documentation itself: no attribute is defined in
    terms of itself, directly or through others.) -/
theorem C16_fallback_unique (info : Info) (env : Env) (E : Attr → Val)
    (hb : evenLen (info .postscriptBlueValues) = true) (ho : evenLen (info .postscriptOtherBlues) = true)
    (hE : holdsAttrs info env E = true) :
    ∀ a, a ≠ .openTypeGaspRangeRecords → E a = getV info env a := by
  have hV := C16_fallback_system info env hb ho
  unfold holdsAttrs at hE hV
  rw [List.all_eq_true] at hE hV
  have key : ∀ k a, rank a ≤ k → a ≠ .openTypeGaspRangeRecords → E a = getV info env a := by
    intro k
    induction k with
    | zero =>
      intro a hr hg
      have hm : a ∈ Attr.all := by cases a <;> simp [Attr.all]
      have h1 := hE a hm; have h2 := hV a hm
      have hg' : (a == Attr.openTypeGaspRangeRecords) = false := by simpa using hg
      simp only [hg', Bool.false_or] at h1 h2
      by_cases he : info a ≠ .none
      · rw [if_pos he] at h1 h2; simp only [beq_iff_eq] at h1 h2; rw [h1, h2]
      · rw [if_neg he] at h1 h2
        apply fallbackEq_determines info env E (getV info env) a hg h1 h2
        intro b hb'; have := deps_rank a b hb'; omega
    | succ k ih =>
      intro a hr hg
      have hm : a ∈ Attr.all := by cases a <;> simp [Attr.all]
      have h1 := hE a hm; have h2 := hV a hm
      have hg' : (a == Attr.openTypeGaspRangeRecords) = false := by simpa using hg
      simp only [hg', Bool.false_or] at h1 h2
      by_cases he : info a ≠ .none
      · rw [if_pos he] at h1 h2; simp only [beq_iff_eq] at h1 h2; rw [h1, h2]
      · rw [if_neg he] at h1 h2
        apply fallbackEq_determines info env E (getV info env) a hg h1 h2
        intro b hb'
        have := deps_rank a b hb'
        have hpb := deps_plain a b hb'
        exact ih b (by omega) (by intro hh; subst hh; simp [plain] at hpb)
  intro a hg
  exact key (rank a) a (Nat.le_refl _) hg

/-! ### name table (partial) -/

theorem getName_setName_same (k : NameKey) (v : Str) (t : NameTable) : getName k (setName k v t) = some v := by
  induction t with
  | nil => simp [setName, getName]
  | cons e t ih =>
    obtain ⟨k', v'⟩ := e
    by_cases h : k' = k
    · simp [setName, getName, h]
    · simp only [setName, h, if_false]
      simp only [getName, List.find?_cons, h, decide_false] at ih ⊢
      exact ih

theorem getName_setName_other (k k₂ : NameKey) (v : Str) (t : NameTable) (hne : k₂ ≠ k) :
    getName k₂ (setName k v t) = getName k₂ t := by
  induction t with
  | nil => simp [setName, getName, Ne.symm hne]
  | cons e t ih =>
    obtain ⟨k', v'⟩ := e
    by_cases h : k' = k
    · subst h; simp [setName, getName, Ne.symm hne]
    · simp only [setName, h, if_false]
      by_cases h2 : k' = k₂
      · simp [getName, h2]
      · simp only [getName, List.find?_cons, h2, decide_false] at ih ⊢
        exact ih

theorem keys_setName (k : NameKey) (v : Str) (t : NameTable) :
    (setName k v t).map (·.1) = if k ∈ t.map (·.1) then t.map (·.1) else t.map (·.1) ++ [k] := by
  induction t with
  | nil => simp [setName]
  | cons e t ih =>
    obtain ⟨k', v'⟩ := e
    by_cases h : k' = k
    · simp [setName, h]
    · simp only [setName, h, if_false, List.map_cons, ih, List.mem_cons]
      have : ¬ k = k' := fun e => h e.symm
      simp only [this, false_or]
      split <;> simp

/-- setName never creates a second record with the same (nameID, platformID, encodingID, languageID) -/
theorem nodup_setName (k : NameKey) (v : Str) (t : NameTable) (h : (t.map (·.1)).Nodup) :
    ((setName k v t).map (·.1)).Nodup := by
  rw [keys_setName]
  split
  · exact h
  · rename_i hk
    rw [List.nodup_append]
    refine ⟨h, by simp, ?_⟩
    intro a ha b hb
    simp at hb; subst hb
    intro e; subst e; exact hk ha

def recKey (r : NameRec) : NameKey := ⟨r.nameID, r.platformID, r.encodingID, r.languageID⟩

/-- **C16_names_records**: after the second loop of setupTable_name, the record under any key is the string
    of the *last* `openTypeNameRecords` entry with that key, and whatever the table held before otherwise:
    user records override the built-in ones, later ones override earlier ones — for any number of records. -/
theorem C16_names_records (k : NameKey) : ∀ (rs : List NameRec) (t : NameTable),
    getName k (recordsLoop rs t) =
      match rs.reverse.find? (fun r => recKey r = k) with
      | some r => some r.string
      | none => getName k t := by
  intro rs
  induction rs with
  | nil => intro t; simp [recordsLoop]
  | cons r rs ih =>
    intro t
    simp only [recordsLoop, List.reverse_cons, List.find?_append]
    rw [ih]
    cases hfind : rs.reverse.find? (fun r => recKey r = k) with
    | some r' => simp
    | none =>
      simp only [Option.none_or, List.find?_cons, List.find?_nil]
      by_cases hk : recKey r = k
      · simp only [hk, decide_true]
        have := getName_setName_same k r.string t
        rw [← hk] at this ⊢
        exact this
      · simp only [hk, decide_false]
        exact getName_setName_other (recKey r) k r.string t (fun e => hk e.symm)

theorem nodup_recordsLoop : ∀ (rs : List NameRec) (t : NameTable), (t.map (·.1)).Nodup →
    ((recordsLoop rs t).map (·.1)).Nodup := by
  intro rs
  induction rs with
  | nil => intro t h; exact h
  | cons r rs ih => intro t h; exact ih _ (nodup_setName _ _ t h)

theorem nodup_builtinLoop : ∀ (vs : List (Nat × Val)) (t : NameTable), (t.map (·.1)).Nodup →
    ((builtinLoop vs t).map (·.1)).Nodup := by
  intro vs
  induction vs with
  | nil => intro t h; exact h
  | cons e vs ih =>
    intro t h
    obtain ⟨id, v⟩ := e
    simp only [builtinLoop]
    split
    · exact ih t h
    · generalize (if isNonBMP v.s then 10 else 1 : Nat) = enc
      split
      · exact ih t h
      · exact ih _ (nodup_setName _ _ t h)

/-- **C16_names_nodup**: the name table never holds two records with the same key -/
theorem C16_names_nodup (E : Attr → Val) (env : Env) : ((nameTable E env).map (·.1)).Nodup :=
  nodup_recordsLoop _ _ (nodup_builtinLoop _ [] (by simp))

/-- **C16_names_elision**: the typographic names (IDs 16/17) are left out exactly when *both* equal the legacy
    names (IDs 1/2) -/
theorem C16_names_elision (E : Attr → Val) (env : Env) :
    let both := E .styleMapFamilyName = E .openTypeNamePreferredFamilyName ∧
      Val.str (title (E .styleMapStyleName).s) = E .openTypeNamePreferredSubfamilyName
    (both → ∀ e ∈ nameVals E env, e.1 ≠ 16 ∧ e.1 ≠ 17) ∧
    (¬ both → (16, E .openTypeNamePreferredFamilyName) ∈ nameVals E env ∧
               (17, E .openTypeNamePreferredSubfamilyName) ∈ nameVals E env) := by
  intro both
  constructor
  · intro hb e he
    simp only [nameVals, both] at he hb
    simp only [hb, and_self, if_true, List.append_nil] at he
    simp at he
    rcases he with h | h | h | h | h | h | h | h | h | h | h | h | h | h | h | h | h | h | h <;> subst h <;> simp
  · intro hb
    simp only [nameVals, both] at hb ⊢
    simp only [hb, if_false]
    simp

/-! ### name table (full) -/

def bkey (id : Nat) (s : Str) : NameKey := ⟨id, 3, if isNonBMP s then 10 else 1, 0x409⟩

/-- what the first loop contributes under key `k`, read off the `nameVals` list -/
def builtinOf (vals : List (Nat × Val)) (k : NameKey) : Option Str :=
  match vals.find? (fun e => e.1 = k.id) with
  | some e => if e.2.truthy = true ∧ k = bkey e.1 e.2.s then some e.2.s else none
  | none => none

theorem getName_none_of_id (t : NameTable) (k : NameKey) (h : ∀ k' ∈ t.map (·.1), k'.id ≠ k.id) :
    getName k t = none := by
  induction t with
  | nil => rfl
  | cons e t ih =>
    have h1 : e.1 ≠ k := by
      intro hh; exact h e.1 (by simp) (by rw [hh])
    simp only [getName, List.find?_cons, h1, decide_false]
    exact ih (fun k' hk' => h k' (by simp at hk' ⊢; right; exact hk'))

theorem builtinLoop_getName (k : NameKey) : ∀ (vals : List (Nat × Val)) (t : NameTable),
    (vals.map (·.1)).Nodup → (∀ e ∈ vals, ∀ k' ∈ t.map (·.1), k'.id ≠ e.1) →
    getName k (builtinLoop vals t) = (getName k t).or (builtinOf vals k) := by
  intro vals
  induction vals with
  | nil => intro t _ _; simp [builtinLoop, builtinOf]
  | cons e vals ih =>
    intro t hnd hinv
    obtain ⟨id, v⟩ := e
    have hnd' : (vals.map (·.1)).Nodup := (List.nodup_cons.mp hnd).2
    have hid : id ∉ vals.map (·.1) := (List.nodup_cons.mp hnd).1
    have hfind_rest : k.id = id → vals.find? (fun e => e.1 = k.id) = none := by
      intro hk
      rw [List.find?_eq_none]
      intro e he hh
      simp only [decide_eq_true_eq] at hh
      exact hid (by rw [← hk, ← hh]; exact List.mem_map_of_mem he)
    have hinv' : ∀ e ∈ vals, ∀ k' ∈ t.map (·.1), k'.id ≠ e.1 := fun e he => hinv e (by simp [he])
    simp only [builtinLoop]
    by_cases htr : v.truthy = true
    · simp only [htr, Bool.not_true, Bool.false_eq_true, if_false]
      have hk0none : getName (bkey id v.s) t = none :=
        getName_none_of_id t _ (fun k' hk' => hinv (id, v) (by simp) k' hk')
      have e0 : (⟨id, 3, if isNonBMP v.s = true then 10 else 1, 0x409⟩ : NameKey) = bkey id v.s := rfl
      rw [e0, hk0none]
      simp only [Option.isSome_none, Bool.false_eq_true, if_false]
      rw [ih (setName (bkey id v.s) v.s t) hnd' (by
        intro e he k' hk'
        rw [keys_setName] at hk'
        split at hk'
        · exact hinv' e he k' hk'
        · simp only [List.mem_append, List.mem_singleton] at hk'
          rcases hk' with h | h
          · exact hinv' e he k' h
          · subst h; intro hh; exact hid (by simp only [bkey] at hh; rw [hh]; exact List.mem_map_of_mem he))]
      by_cases hk : k = bkey id v.s
      · subst hk
        rw [getName_setName_same, hk0none]
        simp [builtinOf, List.find?_cons, bkey, htr]
      · rw [getName_setName_other _ _ _ _ hk]
        congr 1
        simp only [builtinOf, List.find?_cons]
        by_cases hkid : id = k.id
        · simp only [hkid, decide_true]
          rw [hfind_rest hkid.symm]
          have : ¬ (v.truthy = true ∧ k = bkey k.id v.s) := by
            intro h; apply hk; rw [hkid]; exact h.2
          simp [this]
        · simp [hkid]
    · have htr' : v.truthy = false := by simpa using htr
      simp only [htr', Bool.not_false, if_true]
      rw [ih t hnd' hinv']
      congr 1
      simp only [builtinOf, List.find?_cons]
      by_cases hkid : id = k.id
      · simp only [hkid, decide_true]
        rw [hfind_rest hkid.symm]
        simp [htr']
      · simp [hkid]

/-- the name attributes read as strings -/
def nameStrAttrs : List Attr := [.copyright, .openTypeNameUniqueID, .openTypeNameVersion, .postscriptFontName, .trademark, .openTypeNameManufacturer, .openTypeNameDesigner, .openTypeNameDescription, .openTypeNameManufacturerURL, .openTypeNameDesignerURL, .openTypeNameLicense, .openTypeNameLicenseURL, .openTypeNameCompatibleFullName, .openTypeNameSampleText, .openTypeNameWWSFamilyName, .openTypeNameWWSSubfamilyName]

/-- Python truthiness of a value that is a string or None coincides with "its text is non-empty" -/
def strLike (v : Val) : Bool := v.truthy == !v.s.isEmpty

theorem strLike_str (s : Str) : strLike (.str s) = true := by simp [strLike, Val.truthy, Val.s]
theorem strLike_none : strLike .none = true := rfl

theorem truthy_str (s : Str) : (Val.str s).truthy = !s.isEmpty := rfl
theorem s_str (s : Str) : (Val.str s).s = s := rfl

theorem nameVals_ids_nodup (E : Attr → Val) (env : Env) : ((nameVals E env).map (·.1)).Nodup := by
  simp only [nameVals]
  by_cases h6 : (E .postscriptFontName).truthy = true <;>
  by_cases hc : (E .styleMapFamilyName = E .openTypeNamePreferredFamilyName ∧
      Val.str (title (E .styleMapStyleName).s) = E .openTypeNamePreferredSubfamilyName) <;>
  simp [h6, hc]

theorem nameVals_builtin (E : Attr → Val) (env : Env)
    (hS : ∀ a ∈ nameStrAttrs, strLike (E a) = true)
    (h1 : ∃ s, E .styleMapFamilyName = .str s) (h2 : ∃ s, E .openTypeNamePreferredFamilyName = .str s)
    (h3 : ∃ s, E .openTypeNamePreferredSubfamilyName = .str s) (id : Nat) :
    (match (nameVals E env).find? (fun e => e.1 = id) with
      | some e => if e.2.truthy = true then some e.2.s else none
      | none => none) = builtinName E env id := by
  obtain ⟨s1, e1⟩ := h1; obtain ⟨s2, e2⟩ := h2; obtain ⟨s3, e3⟩ := h3
  have hs0 := hS .copyright (by decide)
  have hs1 := hS .openTypeNameUniqueID (by decide)
  have hs2 := hS .openTypeNameVersion (by decide)
  have hs3 := hS .postscriptFontName (by decide)
  have hs4 := hS .trademark (by decide)
  have hs5 := hS .openTypeNameManufacturer (by decide)
  have hs6 := hS .openTypeNameDesigner (by decide)
  have hs7 := hS .openTypeNameDescription (by decide)
  have hs8 := hS .openTypeNameManufacturerURL (by decide)
  have hs9 := hS .openTypeNameDesignerURL (by decide)
  have hs10 := hS .openTypeNameLicense (by decide)
  have hs11 := hS .openTypeNameLicenseURL (by decide)
  have hs12 := hS .openTypeNameCompatibleFullName (by decide)
  have hs13 := hS .openTypeNameSampleText (by decide)
  have hs14 := hS .openTypeNameWWSFamilyName (by decide)
  have hs15 := hS .openTypeNameWWSSubfamilyName (by decide)
  simp only [strLike, beq_iff_eq] at hs0 hs1 hs2 hs3 hs4 hs5 hs6 hs7 hs8 hs9 hs10 hs11 hs12 hs13 hs14 hs15
  by_cases hc : (s1 = s2 ∧ title (E .styleMapStyleName).s = s3)
  · obtain ⟨hc1, hc2⟩ := hc
    rcases id with _ | (_ | (_ | (_ | (_ | (_ | (_ | (_ | (_ | (_ | (_ | (_ | (_ | (_ | (_ | (_ | (_ | (_ | (_ | (_ | (_ | (_ | (_ | id))))))))))))))))))))))
    all_goals simp [nameVals, builtinName, e1, e2, e3, truthy_str, s_str, hc1, hc2, *]
    all_goals (by_cases hp : (E .postscriptFontName).s = [] <;> simp [hp, truthy_str, s_str, normalizePS, *])
  · rcases id with _ | (_ | (_ | (_ | (_ | (_ | (_ | (_ | (_ | (_ | (_ | (_ | (_ | (_ | (_ | (_ | (_ | (_ | (_ | (_ | (_ | (_ | (_ | id))))))))))))))))))))))
    all_goals simp [nameVals, builtinName, e1, e2, e3, truthy_str, s_str, hc, *]
    all_goals (try (by_cases hp : (E .postscriptFontName).s = [] <;> simp [hp, truthy_str, s_str, normalizePS, *]))

theorem getName_of_mem_nodup : ∀ (t : NameTable) (k : NameKey) (v : Str), (t.map (·.1)).Nodup → (k, v) ∈ t →
    getName k t = some v := by
  intro t
  induction t with
  | nil => intro k v _ h; simp at h
  | cons e t ih =>
    intro k v hnd hm
    obtain ⟨k', v'⟩ := e
    simp only [List.map_cons, List.nodup_cons] at hnd
    rcases List.mem_cons.mp hm with h | h
    · cases h; simp [getName]
    · have hne : k' ≠ k := by
        intro hh; subst hh; exact hnd.1 (List.mem_map_of_mem (f := (·.1)) h)
      simp only [getName, List.find?_cons, hne, decide_false]
      exact ih k v hnd.2 h

theorem mem_keys_of_getName (t : NameTable) (k : NameKey) (h : (getName k t).isSome = true) : k ∈ t.map (·.1) := by
  unfold getName at h
  rw [Option.isSome_map, List.find?_isSome] at h
  obtain ⟨e, he, hk⟩ := h
  simp only [decide_eq_true_eq] at hk
  exact hk ▸ List.mem_map_of_mem he

theorem recKey_eq (r : NameRec) (k : NameKey) :
    (recKey r = k) ↔ (r.nameID = k.id ∧ r.platformID = k.plat ∧ r.encodingID = k.enc ∧ r.languageID = k.lang) := by
  cases k; simp [recKey]

theorem bkey_eq (k : NameKey) (s : Str) :
    (k = bkey k.id s) ↔ ((k.plat = 3 ∧ k.lang = 0x409) ∧ k.enc = (if isNonBMP s then 10 else 1)) := by
  cases k; simp [bkey]; constructor <;> (intro h; simp [h])

/-- the name table read as a finite map is `expectedName` on every key -/
theorem getName_nameTable (E : Attr → Val) (env : Env)
    (hS : ∀ a ∈ nameStrAttrs, strLike (E a) = true)
    (h1 : ∃ s, E .styleMapFamilyName = .str s) (h2 : ∃ s, E .openTypeNamePreferredFamilyName = .str s)
    (h3 : ∃ s, E .openTypeNamePreferredSubfamilyName = .str s) (k : NameKey) :
    getName k (nameTable E env) = expectedName E env k := by
  unfold nameTable expectedName
  rw [C16_names_records]
  have hp : (fun r : NameRec => decide (recKey r = k)) =
      (fun r => decide (r.nameID = k.id ∧ r.platformID = k.plat ∧ r.encodingID = k.enc ∧ r.languageID = k.lang)) := by
    funext r; simp only [recKey_eq]
  rw [hp]
  cases (E .openTypeNameRecords).r.reverse.find?
      (fun r => decide (r.nameID = k.id ∧ r.platformID = k.plat ∧ r.encodingID = k.enc ∧ r.languageID = k.lang)) with
  | some r => rfl
  | none =>
    simp only
    rw [builtinLoop_getName k _ [] (nameVals_ids_nodup E env) (by simp)]
    simp only [getName, List.find?_nil, Option.map_none, Option.none_or]
    have hb := nameVals_builtin E env hS h1 h2 h3 k.id
    unfold builtinOf
    cases hf : (nameVals E env).find? (fun e => decide (e.1 = k.id)) with
    | none =>
      rw [hf] at hb; simp only at hb
      rw [← hb]; simp
    | some e =>
      rw [hf] at hb; simp only at hb
      have hid : e.1 = k.id := by simpa using List.find?_some hf
      by_cases ht : e.2.truthy = true
      · simp only [ht, if_true, true_and] at hb ⊢
        rw [← hb, hid]
        simp only [bkey_eq]
        by_cases hq : k.plat = 3 ∧ k.lang = 0x409
        · simp [hq]
        · simp [hq]
      · simp only [ht, if_false, false_and] at hb ⊢
        rw [← hb]; simp

/-- **C16_names**: for effective values whose name attributes are strings or None, the name table built by
    setupTable_name — as a finite map from (nameID, platformID, encodingID, languageID) to strings — is exactly
    the documented one: the last user record under a key wins, otherwise the built-in Windows/English record
    with its documented content (encoding 10 iff the string leaves the BMP), IDs 16/17 elided when both equal
    1/2, empty strings give no record, nothing else is present and no key occurs twice. -/
theorem C16_names (E : Attr → Val) (env : Env)
    (hS : ∀ a ∈ nameStrAttrs, strLike (E a) = true)
    (h1 : ∃ s, E .styleMapFamilyName = .str s) (h2 : ∃ s, E .openTypeNamePreferredFamilyName = .str s)
    (h3 : ∃ s, E .openTypeNamePreferredSubfamilyName = .str s) :
    holdsNames E env (nameTable E env) = true := by
  have G := getName_nameTable E env hS h1 h2 h3
  have hnd := C16_names_nodup E env
  unfold holdsNames
  simp only [Bool.and_eq_true, decide_eq_true_eq, List.all_eq_true, beq_iff_eq]
  refine ⟨⟨⟨hnd, ?_⟩, ?_⟩, ?_⟩
  · intro e he
    rw [← G e.1]
    exact (getName_of_mem_nodup _ e.1 e.2 hnd he).symm ▸ rfl
  · intro id _
    cases hbn : builtinName E env id with
    | none => trivial
    | some s =>
      simp only [List.contains_eq_mem, decide_eq_true_eq]
      apply mem_keys_of_getName
      rw [G]
      unfold expectedName
      split
      · rfl
      · simp [hbn]
  · intro r hr
    simp only [List.contains_eq_mem, decide_eq_true_eq]
    apply mem_keys_of_getName
    rw [G]
    unfold expectedName
    have : ((E .openTypeNameRecords).r.reverse.find? (fun r' => decide (r'.nameID = r.nameID ∧
        r'.platformID = r.platformID ∧ r'.encodingID = r.encodingID ∧ r'.languageID = r.languageID))).isSome = true := by
      rw [List.find?_isSome]
      exact ⟨r, by simpa using hr, by simp⟩
    revert this
    cases (E .openTypeNameRecords).r.reverse.find? (fun r' => decide (r'.nameID = r.nameID ∧
        r'.platformID = r.platformID ∧ r'.encodingID = r.encodingID ∧ r'.languageID = r.languageID)) with
    | some r' => intro _; rfl
    | none => intro h; simp at h

/-! #### … and the effective values of a well-formed info meet the hypotheses of `C16_names` -/

theorem wf_typed (info : Info) (hw : wfInfo info = true) (a : Attr) : (info a).hasTy a.ty = true := by
  simp only [wfInfo, Bool.and_eq_true, List.all_eq_true] at hw
  exact hw.1.1.1.1.1.1.1 a (by cases a <;> simp [Attr.all])

theorem str_or_none (v : Val) (h : v.hasTy .str = true) : v = .none ∨ ∃ s, v = .str s := by
  cases v <;> simp_all [Val.hasTy]

theorem getV_absent_special (info : Info) (env : Env) (a : Attr) (he : info a = .none) (hs : isSpecial a = true) :
    getV info env a = valOf (special (fun b => .ok (getV info env b)) info env a) := by
  rw [getV_eq, get_special info env a he hs]

theorem isStr_getV_family (info : Info) (env : Env) (hw : wfInfo info = true) :
    ∃ s, getV info env .familyName = .str s := by
  by_cases he : info .familyName = .none
  · exact ⟨_, getV_static info env _ he rfl (by simp)⟩
  · rw [getV_explicit info env _ he]
    rcases str_or_none _ (wf_typed info hw .familyName) with h | h
    · exact absurd h he
    · exact h

theorem isStr_getV_style (info : Info) (env : Env) (hw : wfInfo info = true) :
    ∃ s, getV info env .styleName = .str s := by
  by_cases he : info .styleName = .none
  · exact ⟨_, getV_static info env _ he rfl (by simp)⟩
  · rw [getV_explicit info env _ he]
    rcases str_or_none _ (wf_typed info hw .styleName) with h | h
    · exact absurd h he
    · exact h

theorem isStr_getV_pfam (info : Info) (env : Env) (hw : wfInfo info = true) :
    ∃ s, getV info env .openTypeNamePreferredFamilyName = .str s := by
  by_cases he : info .openTypeNamePreferredFamilyName = .none
  · rw [getV_absent_special info env _ he rfl]
    obtain ⟨s, hs⟩ := isStr_getV_family info env hw
    exact ⟨s, by simp [special, hs, valOf]⟩
  · rw [getV_explicit info env _ he]
    rcases str_or_none _ (wf_typed info hw .openTypeNamePreferredFamilyName) with h | h
    · exact absurd h he
    · exact h

theorem isStr_getV_psub (info : Info) (env : Env) (hw : wfInfo info = true) :
    ∃ s, getV info env .openTypeNamePreferredSubfamilyName = .str s := by
  by_cases he : info .openTypeNamePreferredSubfamilyName = .none
  · rw [getV_absent_special info env _ he rfl]
    obtain ⟨s, hs⟩ := isStr_getV_style info env hw
    exact ⟨s, by simp [special, hs, valOf]⟩
  · rw [getV_explicit info env _ he]
    rcases str_or_none _ (wf_typed info hw .openTypeNamePreferredSubfamilyName) with h | h
    · exact absurd h he
    · exact h

theorem isStr_getV_smfn (info : Info) (env : Env) (hw : wfInfo info = true) :
    ∃ s, getV info env .styleMapFamilyName = .str s := by
  by_cases he : info .styleMapFamilyName = .none
  · rw [getV_absent_special info env _ he rfl]
    simp only [special, bind, Except.bind, pure, Except.pure]
    split <;> exact ⟨_, rfl⟩
  · rw [getV_explicit info env _ he]
    rcases str_or_none _ (wf_typed info hw .styleMapFamilyName) with h | h
    · exact absurd h he
    · exact h

theorem strLike_getV (info : Info) (env : Env) (hw : wfInfo info = true) :
    ∀ a ∈ nameStrAttrs, strLike (getV info env a) = true := by
  intro a ha
  by_cases he : info a = .none
  · by_cases hs : isSpecial a = true
    · rw [getV_absent_special info env a he hs]
      simp only [nameStrAttrs, List.mem_cons, List.mem_nil_iff, or_false] at ha
      rcases ha with rfl | rfl | rfl | rfl | rfl | rfl | rfl | rfl | rfl | rfl | rfl | rfl | rfl | rfl | rfl | rfl
      all_goals first
        | (simp [isSpecial] at hs; done)
        | (simp [special, bind, Except.bind, pure, Except.pure, valOf, strLike_str, strLike_none])
    · have hs' : isSpecial a = false := by simpa using hs
      have hg : a ≠ .openTypeGaspRangeRecords := by
        intro h; subst h; simp [nameStrAttrs] at ha
      rw [getV_static info env a he hs' hg]
      simp only [nameStrAttrs, List.mem_cons, List.mem_nil_iff, or_false] at ha
      rcases ha with rfl | rfl | rfl | rfl | rfl | rfl | rfl | rfl | rfl | rfl | rfl | rfl | rfl | rfl | rfl | rfl
      all_goals first | rfl | (simp [isSpecial] at hs'; done)
  · rw [getV_explicit info env a he]
    have hty : a.ty = .str := by
      simp only [nameStrAttrs, List.mem_cons, List.mem_nil_iff, or_false] at ha
      rcases ha with rfl | rfl | rfl | rfl | rfl | rfl | rfl | rfl | rfl | rfl | rfl | rfl | rfl | rfl | rfl | rfl <;> rfl
    have := wf_typed info hw a
    rw [hty] at this
    rcases str_or_none _ this with h | ⟨s, h⟩
    · rw [h]; rfl
    · rw [h]; exact strLike_str s

/-- **C16_names_compile**: whenever a well-formed info compiles, the name table of the result is the documented
    finite map (`holdsNames`) for the effective values of that info. -/
theorem C16_names_compile (info : Info) (env : Env) (ctx : Ctx) (o : Out) (hw : wfInfo info = true)
    (h : compile info env ctx = .ok o) : holdsNames (getV info env) env o.names = true := by
  rw [(compile_ok info env ctx o h).2]
  exact C16_names _ env (strLike_getV info env hw) (isStr_getV_smfn info env hw) (isStr_getV_pfam info env hw)
    (isStr_getV_psub info env hw)



/-! ### derived fields -/

theorem sumBits_eq_sumPred (l : List Q) (s : Nat) : ∀ n, sumBits l s n = sumPred (fun i => l.contains ((s + i : Nat) : Q)) n := by
  intro n; induction n with
  | zero => rfl
  | succ n ih => simp only [sumBits, sumPred, ih]

theorem sumPred_congr (p q : Nat → Bool) : ∀ n, (∀ i, i < n → p i = q i) → sumPred p n = sumPred q n := by
  intro n; induction n with
  | zero => intro _; rfl
  | succ n ih =>
    intro h
    simp only [sumPred, ih (fun i hi => h i (by omega)), h n (by omega)]

theorem natQ_beq (i n : Nat) : (((i : Nat) : Q) == ((n : Nat) : Q)) = (i == n) := by
  by_cases h : i = n
  · subst h; exact (beq_self_eq_true _).trans (beq_self_eq_true _).symm
  · rw [beq_eq_false_iff_ne.mpr h, beq_eq_false_iff_ne.mpr (fun e => h (Rat.natCast_inj.mp e))]

theorem sne_0_1 : (Val.str (S "regular") == Val.str (S "bold")) = false := by decide
theorem sne_0_2 : (Val.str (S "regular") == Val.str (S "italic")) = false := by decide
theorem sne_0_3 : (Val.str (S "regular") == Val.str (S "bold italic")) = false := by decide
theorem sne_1_0 : (Val.str (S "bold") == Val.str (S "regular")) = false := by decide
theorem sne_1_2 : (Val.str (S "bold") == Val.str (S "italic")) = false := by decide
theorem sne_1_3 : (Val.str (S "bold") == Val.str (S "bold italic")) = false := by decide
theorem sne_2_0 : (Val.str (S "italic") == Val.str (S "regular")) = false := by decide
theorem sne_2_1 : (Val.str (S "italic") == Val.str (S "bold")) = false := by decide
theorem sne_2_3 : (Val.str (S "italic") == Val.str (S "bold italic")) = false := by decide
theorem sne_3_0 : (Val.str (S "bold italic") == Val.str (S "regular")) = false := by decide
theorem sne_3_1 : (Val.str (S "bold italic") == Val.str (S "bold")) = false := by decide
theorem sne_3_2 : (Val.str (S "bold italic") == Val.str (S "italic")) = false := by decide

theorem q0 (i : Nat) : ((i : Q) == 0) = (i == 0) := by
  rw [show (0 : Q) = ((0 : Nat) : Q) from rfl]; exact natQ_beq i 0
theorem q1 (i : Nat) : ((i : Q) == 1) = (i == 1) := by
  rw [show (1 : Q) = ((1 : Nat) : Q) from rfl]; exact natQ_beq i 1
theorem q5 (i : Nat) : ((i : Q) == 5) = (i == 5) := by
  rw [show (5 : Q) = ((5 : Nat) : Q) from rfl]; exact natQ_beq i 5
theorem q6 (i : Nat) : ((i : Q) == 6) = (i == 6) := by
  rw [show (6 : Q) = ((6 : Nat) : Q) from rfl]; exact natQ_beq i 6

theorem contains_snoc (l : List Q) (x y : Q) : (l ++ [y]).contains x = (l.contains x || x == y) := by
  induction l with
  | nil => simp only [List.nil_append, List.contains, List.elem, Bool.false_or]; cases (x == y) <;> rfl
  | cons a l ih => simp only [List.cons_append, List.contains_cons, ih, Bool.or_assoc]

theorem contains_snoc2 (l : List Q) (x y z : Q) : (l ++ [y, z]).contains x = (l.contains x || x == y || x == z) := by
  have : l ++ [y, z] = (l ++ [y]) ++ [z] := by simp
  rw [this, contains_snoc, contains_snoc]

theorem macStyle_spec (E : Attr → Val) :
    intListToNum (macStyleBits (E .styleMapStyleName)) 0 16 = sumPred (macBit E) 16 := by
  rw [C16_intListToNum, sumBits_eq_sumPred]
  apply sumPred_congr
  intro i _
  simp only [macStyleBits, macBit, styleIs, Nat.zero_add]
  by_cases h1 : E .styleMapStyleName = .str (S "bold")
  · have : ([0] : List Q).contains (i : Q) = ((i : Q) == 0) := by
      simp only [List.contains, List.elem]; cases ((i : Q) == 0) <;> rfl
    rw [if_pos h1, this, q0, h1]; simp [sne_0_1, sne_0_2, sne_0_3, sne_1_0, sne_1_2, sne_1_3, sne_2_0, sne_2_1, sne_2_3, sne_3_0, sne_3_1, sne_3_2]
  · have b1 : (E .styleMapStyleName == Val.str (S "bold")) = false := by simpa using h1
    rw [if_neg h1, b1]
    by_cases h2 : E .styleMapStyleName = .str (S "bold italic")
    · have : ([0, 1] : List Q).contains (i : Q) = ((i : Q) == 0 || (i : Q) == 1) := by
        simp only [List.contains, List.elem]; cases ((i : Q) == 0) <;> cases ((i : Q) == 1) <;> rfl
      rw [if_pos h2, this, q0, q1, h2]; simp [sne_0_1, sne_0_2, sne_0_3, sne_1_0, sne_1_2, sne_1_3, sne_2_0, sne_2_1, sne_2_3, sne_3_0, sne_3_1, sne_3_2]
    · have b2 : (E .styleMapStyleName == Val.str (S "bold italic")) = false := by simpa using h2
      rw [if_neg h2, b2]
      by_cases h3 : E .styleMapStyleName = .str (S "italic")
      · have : ([1] : List Q).contains (i : Q) = ((i : Q) == 1) := by
          simp only [List.contains, List.elem]; cases ((i : Q) == 1) <;> rfl
        rw [if_pos h3, this, q1, h3]; simp [sne_0_1, sne_0_2, sne_0_3, sne_1_0, sne_1_2, sne_1_3, sne_2_0, sne_2_1, sne_2_3, sne_3_0, sne_3_1, sne_3_2]
      · have b3 : (E .styleMapStyleName == Val.str (S "italic")) = false := by simpa using h3
        rw [if_neg h3, b3]; simp

theorem selection_spec (E : Attr → Val) :
    intListToNum (selectionBits (E .openTypeOS2Selection) (E .styleMapStyleName)) 0 16 = sumPred (selBit E) 16 := by
  rw [C16_intListToNum, sumBits_eq_sumPred]
  apply sumPred_congr
  intro i _
  simp only [selectionBits, selBit, styleIs, Nat.zero_add]
  by_cases h0 : E .styleMapStyleName = .str (S "regular")
  · rw [if_pos h0, contains_snoc, q6, h0]; simp [sne_0_1, sne_0_2, sne_0_3, sne_1_0, sne_1_2, sne_1_3, sne_2_0, sne_2_1, sne_2_3, sne_3_0, sne_3_1, sne_3_2]
  · have b0 : (E .styleMapStyleName == Val.str (S "regular")) = false := by simpa using h0
    rw [if_neg h0, b0]
    by_cases h1 : E .styleMapStyleName = .str (S "bold")
    · rw [if_pos h1, contains_snoc, q5, h1]; simp [sne_0_1, sne_0_2, sne_0_3, sne_1_0, sne_1_2, sne_1_3, sne_2_0, sne_2_1, sne_2_3, sne_3_0, sne_3_1, sne_3_2]
    · have b1 : (E .styleMapStyleName == Val.str (S "bold")) = false := by simpa using h1
      rw [if_neg h1, b1]
      by_cases h3 : E .styleMapStyleName = .str (S "italic")
      · rw [if_pos h3, contains_snoc, q0, h3]; simp [sne_0_1, sne_0_2, sne_0_3, sne_1_0, sne_1_2, sne_1_3, sne_2_0, sne_2_1, sne_2_3, sne_3_0, sne_3_1, sne_3_2]
      · have b3 : (E .styleMapStyleName == Val.str (S "italic")) = false := by simpa using h3
        rw [if_neg h3, b3]
        by_cases h2 : E .styleMapStyleName = .str (S "bold italic")
        · rw [if_pos h2, contains_snoc2, q0, q5, h2]; simp [sne_0_1, sne_0_2, sne_0_3, sne_1_0, sne_1_2, sne_1_3, sne_2_0, sne_2_1, sne_2_3, sne_3_0, sne_3_1, sne_3_2, Bool.or_assoc]
          rw [Bool.or_comm (i == 0) (i == 5)]
        · have b2 : (E .styleMapStyleName == Val.str (S "bold italic")) = false := by simpa using h2
          rw [if_neg h2, b2]; simp

/-- **C16_derived**: the fields that are not plain conversions of one attribute (head.fontRevision/created/macStyle,
    TrueType head.flags, OS/2 fsSelection, family class, panose, explicit Unicode/code-page ranges, the AFDKO
    sub/superscript and strikeout fallbacks, the vhea presence rule, every CFF top-dict and private-dict entry)
    have their documented values in the model of the table builders. -/
theorem C16_derived (E : Attr → Val) (info : Info) (env : Env) (ctx : Ctx)
    (hp : (E .openTypeOS2Panose).l.length ≤ 10) :
    holdsDerivedCore E info env ctx (fieldVal E info env ctx) = true := by
  have hpan : (E .openTypeOS2Panose).l.take 10 = (E .openTypeOS2Panose).l := List.take_of_length_le hp
  obtain ⟨otf, rel, glyf, cw⟩ := ctx
  unfold holdsDerivedCore
  simp only [fieldVal, macStyle_spec, selection_spec]
  by_cases hu : E .openTypeOS2UnicodeRanges = .none <;> by_cases hcp : E .openTypeOS2CodePageRanges = .none <;>
    by_cases hab : anyBlues E = true <;> cases otf <;>
    simp [C16_intListToNum, bits, numI, numN, roundV, applyConv, hpan, hu, hcp, hab, listField, c0_039625, Classical.em]
  all_goals (cases glyf <;> cases rel <;> simp)

/-! ### gasp -/

def glookup (k : Q) (d : List (Q × Q)) : Option Q := (d.find? (fun e => e.1 = k)).map (·.2)

theorem glookup_insert_same (k v : Q) (d : List (Q × Q)) : glookup k (gaspInsert k v d) = some v := by
  induction d with
  | nil => simp [gaspInsert, glookup]
  | cons e d ih =>
    obtain ⟨k', v'⟩ := e
    by_cases h : k' = k
    · simp [gaspInsert, glookup, h]
    · simp only [gaspInsert, h, if_false]
      simp only [glookup, List.find?_cons, h, decide_false] at ih ⊢
      exact ih

theorem glookup_insert_other (k k₂ v : Q) (d : List (Q × Q)) (hne : k₂ ≠ k) :
    glookup k₂ (gaspInsert k v d) = glookup k₂ d := by
  induction d with
  | nil => simp [gaspInsert, glookup, Ne.symm hne]
  | cons e d ih =>
    obtain ⟨k', v'⟩ := e
    by_cases h : k' = k
    · subst h; simp [gaspInsert, glookup, Ne.symm hne]
    · simp only [gaspInsert, h, if_false]
      by_cases h2 : k' = k₂
      · simp [glookup, h2]
      · simp only [glookup, List.find?_cons, h2, decide_false] at ih ⊢
        exact ih

theorem gkeys_insert (k v : Q) (d : List (Q × Q)) :
    (gaspInsert k v d).map (·.1) = if k ∈ d.map (·.1) then d.map (·.1) else d.map (·.1) ++ [k] := by
  induction d with
  | nil => simp [gaspInsert]
  | cons e d ih =>
    obtain ⟨k', v'⟩ := e
    by_cases h : k' = k
    · simp [gaspInsert, h]
    · simp only [gaspInsert, h, if_false, List.map_cons, ih, List.mem_cons]
      have : ¬ k = k' := fun e => h e.symm
      simp only [this, false_or]
      split <;> simp

theorem gnodup_insert (k v : Q) (d : List (Q × Q)) (h : (d.map (·.1)).Nodup) :
    ((gaspInsert k v d).map (·.1)).Nodup := by
  rw [gkeys_insert]
  split
  · exact h
  · rename_i hk
    rw [List.nodup_append]
    refine ⟨h, by simp, ?_⟩
    intro a ha b hb
    simp at hb; subst hb
    intro e; subst e; exact hk ha

theorem gaspDict_lookup (k : Q) : ∀ (rs : List (Q × List Q)) (d : List (Q × Q)),
    glookup k (gaspDict rs d) =
      match rs.reverse.find? (fun r => r.1 = k) with
      | some r => some ((intListToNum r.2 0 4 : Nat) : Q)
      | none => glookup k d := by
  intro rs
  induction rs with
  | nil => intro d; simp [gaspDict]
  | cons r rs ih =>
    intro d
    obtain ⟨p, b⟩ := r
    simp only [gaspDict, List.reverse_cons, List.find?_append]
    rw [ih]
    cases hfind : rs.reverse.find? (fun r => decide (r.1 = k)) with
    | some r' => simp
    | none =>
      simp only [Option.none_or, List.find?_cons, List.find?_nil]
      by_cases hk : p = k
      · subst hk; simp [glookup_insert_same]
      · simp only [hk, decide_false]
        exact glookup_insert_other p k _ d (fun e => hk e.symm)

theorem gaspDict_nodup : ∀ (rs : List (Q × List Q)) (d : List (Q × Q)), (d.map (·.1)).Nodup →
    ((gaspDict rs d).map (·.1)).Nodup := by
  intro rs
  induction rs with
  | nil => intro d h; exact h
  | cons r rs ih => intro d h; obtain ⟨p, b⟩ := r; exact ih _ (gnodup_insert _ _ d h)

theorem glookup_of_mem_nodup : ∀ (d : List (Q × Q)) (k v : Q), (d.map (·.1)).Nodup → (k, v) ∈ d →
    glookup k d = some v := by
  intro d
  induction d with
  | nil => intro k v _ h; simp at h
  | cons e d ih =>
    intro k v hnd hm
    obtain ⟨k', v'⟩ := e
    simp only [List.map_cons, List.nodup_cons] at hnd
    rcases List.mem_cons.mp hm with h | h
    · cases h; simp [glookup]
    · have hne : k' ≠ k := by
        intro hh; subst hh; exact hnd.1 (List.mem_map_of_mem (f := (·.1)) h)
      simp only [glookup, List.find?_cons, hne, decide_false]
      exact ih k v hnd.2 h

theorem mem_gkeys_of_lookup (d : List (Q × Q)) (k : Q) (h : (glookup k d).isSome = true) : k ∈ d.map (·.1) := by
  unfold glookup at h
  rw [Option.isSome_map, List.find?_isSome] at h
  obtain ⟨e, he, hk⟩ := h
  simp only [decide_eq_true_eq] at hk
  exact hk ▸ List.mem_map_of_mem he

theorem pairs_flatMap (s : List (Q × Q)) : pairs (s.flatMap (fun e => [e.1, e.2])) = s := by
  induction s with
  | nil => rfl
  | cons e s ih => simp [List.flatMap_cons, pairs, ih]

theorem length_flatMap_pair (s : List (Q × Q)) : (s.flatMap (fun e => [e.1, e.2])).length = 2 * s.length := by
  induction s with
  | nil => rfl
  | cons e s ih => simp [List.flatMap_cons, ih]; omega

def gle (a b : Q × Q) : Bool := decide (a.1 ≤ b.1)

/-- **C16_gasp**: the gasp ranges written by setupTable_gasp (dict insertion, then fontTools' sort) are the map
    ppem ↦ behaviour bits of the last record with that ppem, in strictly increasing ppem order. -/
theorem C16_gasp (recs : List (Q × List Q)) : holdsGasp recs (gaspField (.gasp recs)) = true := by
  unfold holdsGasp gaspField
  cases recs with
  | nil => simp [Val.truthy]
  | cons r0 rs =>
    simp only [Val.truthy, List.isEmpty_cons, Bool.not_false, Bool.not_true, Bool.false_eq_true, if_false, Val.g]
    generalize hrecs : r0 :: rs = recs
    have hD := gaspDict_nodup recs [] (by simp)
    have hperm : ((gaspDict recs []).mergeSort (fun a b => decide (a.1 ≤ b.1))).Perm (gaspDict recs []) :=
      List.mergeSort_perm _ _
    have hsorted : ((gaspDict recs []).mergeSort (fun a b => decide (a.1 ≤ b.1))).Pairwise (fun a b => a.1 ≤ b.1) := by
      have := List.pairwise_mergeSort (le := fun (a b : Q × Q) => decide (a.1 ≤ b.1))
        (by intro a b c; simp only [decide_eq_true_eq]; exact Rat.le_trans)
        (by intro a b; simp only [Bool.or_eq_true, decide_eq_true_eq]; exact Rat.le_total) (gaspDict recs [])
      simpa using this
    generalize hS : (gaspDict recs []).mergeSort (fun a b => decide (a.1 ≤ b.1)) = S at hperm hsorted
    have hSnd : (S.map (·.1)).Nodup := (hperm.map (·.1)).nodup_iff.mpr hD
    simp only [pairs_flatMap, length_flatMap_pair, beq_self_eq_true, Bool.true_and, Bool.and_eq_true,
      decide_eq_true_eq, List.all_eq_true]
    refine ⟨⟨?_, ?_⟩, ?_⟩
    · -- strictly increasing
      rw [List.pairwise_map]
      have hne : S.Pairwise (fun a b => a.1 ≠ b.1) := by
        rw [List.Nodup, List.pairwise_map] at hSnd; exact hSnd
      refine (hsorted.and hne).imp ?_
      intro a b h
      exact Rat.lt_of_le_of_ne h.1 h.2
    · intro r hr
      simp only [List.contains_eq_mem, decide_eq_true_eq]
      have : r.1 ∈ (gaspDict recs []).map (·.1) := by
        apply mem_gkeys_of_lookup
        rw [gaspDict_lookup]
        have : (recs.reverse.find? (fun r' => decide (r'.1 = r.1))).isSome = true := by
          rw [List.find?_isSome]; exact ⟨r, by simpa using hr, by simp⟩
        revert this
        cases recs.reverse.find? (fun r' => decide (r'.1 = r.1)) with
        | some _ => intro _; rfl
        | none => intro h; simp at h
      exact (hperm.map (·.1)).mem_iff.mpr this
    · intro kv hkv
      have hm : kv ∈ gaspDict recs [] := hperm.mem_iff.mp hkv
      have hl := glookup_of_mem_nodup _ kv.1 kv.2 hD hm
      rw [gaspDict_lookup] at hl
      revert hl
      cases recs.reverse.find? (fun r => decide (r.1 = kv.1)) with
      | some r => intro hl; simp only [Option.some.injEq] at hl; simp [← hl, C16_intListToNum]
      | none => intro hl; simp [glookup] at hl

/-- … and therefore the gasp field of the model satisfies the specification for TrueType- and CFF-flavoured fonts -/
theorem C16_gasp_field (E : Attr → Val) (info : Info) (env : Env) (ctx : Ctx)
    (ht : (info .openTypeGaspRangeRecords).hasTy .gasp = true) :
    holdsGaspField info ctx (fieldVal E info env ctx) = true := by
  unfold holdsGaspField
  cases hc : ctx.otf
  · simp only [Bool.false_eq_true, if_false, fieldVal, hc]
    cases hv : info .openTypeGaspRangeRecords with
    | gasp l => have := C16_gasp l; simpa [Val.g] using this
    | none => simp [gaspField, Val.truthy, Val.g, holdsGasp]
    | num q => rw [hv] at ht; simp [Val.hasTy] at ht
    | str s => rw [hv] at ht; simp [Val.hasTy] at ht
    | nums l => rw [hv] at ht; simp [Val.hasTy] at ht
    | recs l => rw [hv] at ht; simp [Val.hasTy] at ht
  · simp [fieldVal, hc]



theorem holdsRows_of (E : Attr → Val) (info : Info) (env : Env) (ctx : Ctx) :
    holdsRows E ctx (fieldVal E info env ctx) = true := by
  unfold holdsRows
  rw [List.all_eq_true]
  intro r hr
  by_cases hc : condHolds r.cond E ctx r.attr = true
  · simp [hc, C16_rows E info env ctx r hr hc]
  · simp [hc]

theorem panose_len (info : Info) (env : Env) (hw : wfInfo info = true) :
    (getV info env .openTypeOS2Panose).l.length ≤ 10 := by
  by_cases he : info .openTypeOS2Panose = .none
  · rw [getV_static info env _ he rfl (by simp)]; simp [static, zeros, Val.l]
  · rw [getV_explicit info env _ he]
    simp only [wfInfo, Bool.and_eq_true, Bool.or_eq_true, decide_eq_true_eq, beq_iff_eq] at hw
    rcases hw.1.1.1.1.1.1.2 with h | h
    · exact absurd h he
    · omega

/-- the generated PostScript name is clean for every info -/
theorem psname_generated (info : Info) (env : Env) : holdsGeneratedPsName (getV info env) info = true := by
  unfold holdsGeneratedPsName
  by_cases he : info .postscriptFontName = .none
  · have : getV info env .postscriptFontName = .str (normalizeName env.nfkd
        ((getV info env .openTypeNamePreferredFamilyName).s ++ ['-'] ++
          (getV info env .openTypeNamePreferredSubfamilyName).s)) := by
      rw [getV_absent_special info env _ he rfl]
      simp [special, bind, Except.bind, pure, Except.pure, valOf]
    rw [this]
    simp only [Val.s, Bool.or_eq_true, decide_eq_true_eq]
    right
    exact C16_psname env.nfkd _
  · simp [he]

/-- **C16_font**: whenever a well-formed info compiles (model), the result satisfies everything the
    specification says about a compiled font (`holdsFont`): every row of the field table, every derived field, the
    whole name table, the gasp table, and a clean generated PostScript name. -/
theorem C16_font (info : Info) (env : Env) (ctx : Ctx) (o : Out) (hw : wfInfo info = true)
    (h : compile info env ctx = .ok o) : holdsFont (getV info env) info env ctx o = true := by
  unfold holdsFont holdsDerived
  simp only [Bool.and_eq_true]
  refine ⟨⟨⟨?_, ?_, ?_⟩, C16_names_compile info env ctx o hw h⟩, psname_generated info env⟩
  · rw [(compile_ok info env ctx o h).1]; exact holdsRows_of _ info env ctx
  · rw [(compile_ok info env ctx o h).1]; exact C16_derived _ info env ctx (panose_len info env hw)
  · rw [(compile_ok info env ctx o h).1]
    exact C16_gasp_field _ info env ctx (wf_typed info hw .openTypeGaspRangeRecords)

/-! ### InfoCompiler (code after the repair of `_set_attrs`) -/

theorem merge_cases (base over : Info) (a : Attr) :
    mergeInfo base over a = over a ∧ over a ≠ .none ∨ mergeInfo base over a = base a ∧ over a = .none := by
  unfold mergeInfo
  by_cases h : over a ≠ .none
  · left; simp [h]
  · right; simp at h; simp [h]

/-- the union of two well-formed infos is well-formed -/
theorem wf_merge (base over : Info) (hb : wfInfo base = true) (ho : wfInfo over = true) :
    wfInfo (mergeInfo base over) = true := by
  simp only [wfInfo, Bool.and_eq_true, List.all_eq_true] at hb ho ⊢
  obtain ⟨⟨⟨⟨⟨⟨⟨b1, b2⟩, b3⟩, b4⟩, b5⟩, b6⟩, b7⟩, b8⟩ := hb
  obtain ⟨⟨⟨⟨⟨⟨⟨o1, o2⟩, o3⟩, o4⟩, o5⟩, o6⟩, o7⟩, o8⟩ := ho
  refine ⟨⟨⟨⟨⟨⟨⟨?_, ?_⟩, ?_⟩, ?_⟩, ?_⟩, ?_⟩, ?_⟩, ?_⟩
  · intro a ha
    rcases merge_cases base over a with h | h <;> rw [h.1]
    · exact o1 a ha
    · exact b1 a ha
  all_goals first
    | (rcases merge_cases base over .openTypeOS2Panose with h | h <;> rw [h.1] <;> assumption)
    | (rcases merge_cases base over .openTypeOS2FamilyClass with h | h <;> rw [h.1] <;> assumption)
    | (rcases merge_cases base over .postscriptBlueValues with h | h <;> rw [h.1] <;> assumption)
    | (rcases merge_cases base over .postscriptOtherBlues with h | h <;> rw [h.1] <;> assumption)
    | (rcases merge_cases base over .versionMajor with h | h <;> rw [h.1] <;> assumption)
    | (rcases merge_cases base over .versionMinor with h | h <;> rw [h.1] <;> assumption)
    | (rcases merge_cases base over .styleMapStyleName with h | h <;> rw [h.1] <;> assumption)

def tempCtx (ctx : Ctx) : Ctx := { ctx with otf := false, glyf := false, cffWritten := false }

/-- **C16_infocompiler_total**: applying well-formed overrides to a font compiled from a well-formed info never
    raises — in particular not when the override defines vertical metrics for a font without vhea, nor when it
    empties the gasp records of a font with a gasp table (before the repair: KeyError, see `infoCompileOld`).
    (The hypothesis on the CFF strings concerns the compile of the base font only: known finding
    C16-cff-string-not-encodable.) -/
theorem C16_infocompiler_total (base over : Info) (env envBase : Env) (ctx : Ctx) (bv bg : Bool)
    (hb : wfInfo base = true) (ho : wfInfo over = true)
    (henc : ctx.otf = true → ctx.cffWritten = true →
      cffEncodable (getV base envBase) envBase = true ∧ isAscii (getV base envBase .postscriptFontName).s = true) :
    ∃ o, infoCompile base over env envBase ctx bv bg = .ok o := by
  obtain ⟨o, h1⟩ := C16_compiles_partial base envBase ctx hb henc
  obtain ⟨m, h2⟩ := C16_compiles_partial (mergeInfo base over) env (tempCtx ctx) (wf_merge base over hb ho)
    (by intro h; simp [tempCtx] at h)
  unfold infoCompile
  simp only [tempCtx] at h2
  simp only [h1, h2, bind, Except.bind, pure, Except.pure]
  exact ⟨_, rfl⟩

theorem infoCompile_fields (base over : Info) (env envBase : Env) (ctx : Ctx) (bv bg : Bool) (r : Out)
    (h : infoCompile base over env envBase ctx bv bg = .ok r) :
    ∃ o m, compile base envBase ctx = .ok o ∧ compile (mergeInfo base over) env (tempCtx ctx) = .ok m ∧
      r.names = namesUpdate o.names m.names ∧
      ∀ f, r.fields f =
        (if f = .gasp then
          (if bg = true ∧ ((mergeInfo base over) .openTypeGaspRangeRecords).truthy = true then m.fields f else o.fields f)
        else if isVheaField f = true then
          (if bv = true ∧ isVertical (getV (mergeInfo base over) env) = true then m.fields f else o.fields f)
        else if infoCompilerField f = true then
          (match m.fields f with | .none => o.fields f | .unspecified => o.fields f | v => v)
        else o.fields f) := by
  unfold infoCompile at h
  cases h1 : compile base envBase ctx with
  | error e => simp [h1, bind, Except.bind] at h
  | ok o =>
    cases h2 : compile (mergeInfo base over) env (tempCtx ctx) with
    | error e => simp only [tempCtx] at h2; simp [h1, h2, bind, Except.bind] at h
    | ok m =>
      simp only [tempCtx] at h2
      simp only [h1, h2, bind, Except.bind, pure, Except.pure, Except.ok.injEq] at h
      subst h
      exact ⟨o, m, rfl, rfl, rfl, fun f => rfl⟩

/-- **C16_infocompiler_missing_table**: a table the temporary compile does not build is left exactly as the
    compiled font had it: the vhea fields when the font has no vhea table (whatever the override says), the gasp
    ranges when the font has none or the merged info has no gasp records left. -/
theorem C16_infocompiler_missing_table (base over : Info) (env envBase : Env) (ctx : Ctx) (bv bg : Bool) (r o : Out)
    (h : infoCompile base over env envBase ctx bv bg = .ok r) (ho : compile base envBase ctx = .ok o) :
    (bv = false → ∀ f, isVheaField f = true → r.fields f = o.fields f) ∧
    ((bg = false ∨ ((mergeInfo base over) .openTypeGaspRangeRecords).truthy = false) → r.fields .gasp = o.fields .gasp) := by
  obtain ⟨o', m, h1, _, _, hf⟩ := infoCompile_fields base over env envBase ctx bv bg r h
  rw [ho] at h1; cases h1
  constructor
  · intro hbv f hv
    rw [hf f]
    have : f ≠ .gasp := by intro e; subst e; simp [isVheaField] at hv
    simp [this, hv, hbv]
  · intro hg
    rw [hf .gasp]
    rcases hg with hg | hg <;> simp [hg]

theorem applyConv_isValue (c : Conv) (v : Val) : applyConv c v ≠ .none ∧ applyConv c v ≠ .unspecified := by
  cases c <;> simp [applyConv]

/-- **C16_infocompiler_rows**: after InfoCompiler, every row of the field table that lies in a table
    InfoCompiler handles (head, hhea, OS/2, post) shows the converted effective value of the MERGED info —
    the override wins where it is set, the compiled font's info fills the rest. -/
theorem C16_infocompiler_rows (base over : Info) (env envBase : Env) (ctx : Ctx) (bv bg : Bool) (r : Out)
    (h : infoCompile base over env envBase ctx bv bg = .ok r) :
    ∀ row ∈ rows, infoCompilerField row.field = true → isVheaField row.field = false →
      condHolds row.cond (getV (mergeInfo base over) env) (tempCtx ctx) row.attr = true →
      r.fields row.field = applyConv row.conv (getV (mergeInfo base over) env row.attr) := by
  intro row hrow hic hv hc
  obtain ⟨o, m, _, h2, _, hf⟩ := infoCompile_fields base over env envBase ctx bv bg r h
  have hm := (compile_ok _ env (tempCtx ctx) m h2).1
  have hval := C16_rows (getV (mergeInfo base over) env) (mergeInfo base over) env (tempCtx ctx) row hrow hc
  have hg : row.field ≠ .gasp := by
    intro e
    simp only [rows, List.mem_cons, List.mem_nil_iff, or_false] at hrow
    rcases hrow with rfl | rfl | rfl | rfl | rfl | rfl | rfl | rfl | rfl | rfl | rfl | rfl | rfl | rfl | rfl | rfl | rfl | rfl | rfl | rfl | rfl | rfl | rfl | rfl | rfl | rfl | rfl | rfl | rfl | rfl | rfl | rfl | rfl | rfl | rfl | rfl | rfl | rfl | rfl | rfl | rfl | rfl | rfl | rfl | rfl | rfl | rfl | rfl | rfl | rfl | rfl <;> simp at e
  rw [hf row.field]
  simp only [hg, if_false, hv, Bool.false_eq_true, hic, if_true]
  rw [hm, hval]
  have := applyConv_isValue row.conv (getV (mergeInfo base over) env row.attr)
  generalize applyConv row.conv (getV (mergeInfo base over) env row.attr) = x at this
  cases x <;> simp_all

/-! #### history: `_set_attrs` BEFORE the repair -/

def isKeyError : R Out → Bool
  | .error .keyError => true
  | _ => false
def isOk : R Out → Bool
  | .ok _ => true
  | _ => false

/-- override that defines the three vertical metrics -/
def vheaOverride : Info := fun a =>
  match a with
  | .openTypeVheaVertTypoAscender => .num 500
  | .openTypeVheaVertTypoDescender => .num (-500)
  | .openTypeVheaVertTypoLineGap => .num 0
  | _ => .none

/-- about the OLD code: a well-formed override on a TrueType font without vhea raised KeyError; the repaired
    code returns normally on the same input -/
theorem C16_infocompiler_old_keyerror :
    wfInfo (fun _ => .none) = true ∧ wfInfo vheaOverride = true ∧
    isKeyError (infoCompileOld (fun _ => .none) vheaOverride witnessEnv witnessEnv ⟨false, false, true, false⟩ false false) = true ∧
    isOk (infoCompile (fun _ => .none) vheaOverride witnessEnv witnessEnv ⟨false, false, true, false⟩ false false) = true := by
  refine ⟨by decide, by decide, by decide, by decide⟩

/-! ### non-vacuity: the hypotheses of the main theorems are met by concrete non-trivial inputs -/

/-- an info with explicit and absent attributes, odd-free zone lists, a non-ASCII family name -/
def exampleInfo : Info := fun a =>
  match a with
  | .familyName => .str [Char.ofNat 0xC9, 't', 'e']          -- "Éte"
  | .unitsPerEm => .num 2048
  | .italicAngle => .num (-12)
  | .openTypeOS2TypoLineGap => .num 0
  | .postscriptBlueValues => .nums [-10, 0, 500, 510]
  | .openTypeOS2Panose => .nums [2, 0, 5, 3, 0, 0, 0, 0, 0, 0]
  | _ => .none

def exampleEnv : Env :=
  { nfkd := fun c => if c = Char.ofNat 0xC9 then ['E', Char.ofNat 0x301] else [c], tan := 1/5, nowString := [], dates := [] }

example : wfInfo exampleInfo = true := by decide
example : evenLen (exampleInfo .postscriptBlueValues) = true ∧ evenLen (exampleInfo .postscriptOtherBlues) = true := by decide
-- the generated PostScript name of the example: É → "E?"
example : normalizeName exampleEnv.nfkd [Char.ofNat 0xC9, 't', 'e'] = ['E', '?', 't', 'e'] := by decide
-- rows: every kind of condition is satisfiable
example : condHolds .explicit exampleInfo ⟨false, false, true, false⟩ .openTypeOS2TypoLineGap = true := by decide
example : zonesPresent exampleInfo = true := by decide
-- intListToNum on a ragged window (start not a multiple of 8)
example : intListToNum [5, 7, 11] 5 7 = 1 + 4 + 64 := by decide
example : sumBits [5, 7, 11] 5 7 = 69 := by decide
-- the rank is tight: a chain of three calls exists
example : Attr.openTypeNameUniqueID ∈ Attr.all ∧ rank .openTypeNameUniqueID = 3 ∧
    Attr.postscriptFontName ∈ deps .openTypeNameUniqueID ∧
    Attr.openTypeNamePreferredFamilyName ∈ deps .postscriptFontName ∧
    Attr.familyName ∈ deps .openTypeNamePreferredFamilyName := by decide

end Ufo2ft.C16
