import Ufo2ftModel.Props.C09Inv
/-!
C09: the specification's fuel-bounded `reaches` is exactly "there is a chain of component references into `targets`"
(the fuel `number of glyph names + 1` is enough: a shortest chain visits no glyph name twice).
-/
namespace Ufo2ft.C09
open Ufo2ft List

/-- one component reference in some source master: a glyph called `n` has a component whose base is `b` -/
def Ref (src : Masters) (n b : String) : Prop := ∃ g ∈ glyphsNamed src n, ∃ k ∈ g.comps, k.base = b

/-- chains of component references (transitive closure) -/
inductive Refp (src : Masters) : String → String → Prop
  | one {n b : String} : Ref src n b → Refp src n b
  | step {n m b : String} : Ref src n m → Refp src m b → Refp src n b

theorem Refp.trans {src : Masters} {a b c : String} (h1 : Refp src a b) (h2 : Refp src b c) : Refp src a c := by
  induction h1 with
  | one h => exact Refp.step h h2
  | step h _ ih => exact Refp.step h (ih h2)

theorem Ref.left_mem {src : Masters} {n b : String} (h : Ref src n b) : n ∈ allNames src := by
  obtain ⟨g, hg, _⟩ := h
  unfold glyphsNamed at hg
  obtain ⟨m, hm, hget⟩ := List.mem_filterMap.mp hg
  have hmem : (n, g) ∈ m := get?_mem m n g hget
  unfold allNames
  rw [mem_dedupFirst]
  refine List.mem_flatMap.mpr ⟨m, hm, ?_⟩
  unfold GlyphSet.names
  exact List.mem_map.mpr ⟨(n, g), hmem, rfl⟩

theorem Refp.left_mem {src : Masters} {n b : String} (h : Refp src n b) : n ∈ allNames src := by
  cases h with
  | one h => exact h.left_mem
  | step h _ => exact h.left_mem

theorem reaches_succ (src : Masters) (targets : List String) (f : Nat) (n : String) :
    reaches (f + 1) src targets n =
      (glyphsNamed src n).any (fun g => g.comps.any (fun k => targets.contains k.base || reaches f src targets k.base)) :=
  rfl

/-- one unfolding of `reaches`, in terms of `Ref` -/
theorem reaches_succ_iff (src : Masters) (targets : List String) (f : Nat) (n : String) :
    reaches (f + 1) src targets n = true ↔
      ∃ b, Ref src n b ∧ (b ∈ targets ∨ reaches f src targets b = true) := by
  rw [reaches_succ]
  constructor
  · intro h
    obtain ⟨g, hg, h⟩ := List.any_eq_true.mp h
    obtain ⟨k, hk, h⟩ := List.any_eq_true.mp h
    refine ⟨k.base, ⟨g, hg, k, hk, rfl⟩, ?_⟩
    rcases (Bool.or_eq_true _ _).mp h with h | h
    · exact Or.inl (by simpa using h)
    · exact Or.inr h
  · rintro ⟨b, ⟨g, hg, k, hk, rfl⟩, h⟩
    refine List.any_eq_true.mpr ⟨g, hg, List.any_eq_true.mpr ⟨k, hk, ?_⟩⟩
    apply (Bool.or_eq_true _ _).mpr
    rcases h with h | h
    · exact Or.inl (by simpa using h)
    · exact Or.inr h

theorem reaches_mono (src : Masters) (targets : List String) :
    ∀ (f f' : Nat) (n : String), reaches f src targets n = true → f ≤ f' → reaches f' src targets n = true := by
  intro f
  induction f with
  | zero => intro f' n h; simp [reaches] at h
  | succ f ih =>
    intro f' n h hle
    cases f' with
    | zero => omega
    | succ f' =>
      obtain ⟨b, hr, hb⟩ := (reaches_succ_iff src targets f n).mp h
      refine (reaches_succ_iff src targets f' n).mpr ⟨b, hr, ?_⟩
      rcases hb with hb | hb
      · exact Or.inl hb
      · exact Or.inr (ih f' b hb (by omega))

/-- `v :: rest` is a chain of references whose last element refers to a target -/
def IsPath (src : Masters) (targets : List String) : String → List String → Prop
  | v, [] => ∃ b, Ref src v b ∧ b ∈ targets
  | v, w :: rest => Ref src v w ∧ IsPath src targets w rest

theorem isPath_of_refp (src : Masters) (targets : List String) {n b : String} (h : Refp src n b) (hb : b ∈ targets) :
    ∃ rest, IsPath src targets n rest := by
  induction h with
  | one h => exact ⟨[], _, h, hb⟩
  | step h _ ih =>
    obtain ⟨rest, hp⟩ := ih hb
    exact ⟨_ :: rest, h, hp⟩

theorem IsPath.head_ref {src : Masters} {targets : List String} {v : String} {rest : List String}
    (h : IsPath src targets v rest) : ∃ b, Ref src v b := by
  cases rest with
  | nil => obtain ⟨b, hb, _⟩ := h; exact ⟨b, hb⟩
  | cons w rest => exact ⟨w, h.1⟩

theorem IsPath.mem_allNames {src : Masters} {targets : List String} :
    ∀ {rest : List String} {v : String}, IsPath src targets v rest → ∀ x ∈ v :: rest, x ∈ allNames src := by
  intro rest
  induction rest with
  | nil =>
    intro v h x hx
    simp only [List.mem_singleton] at hx
    subst hx
    obtain ⟨b, hb⟩ := h.head_ref
    exact hb.left_mem
  | cons w rest ih =>
    intro v h x hx
    rcases List.mem_cons.mp hx with rfl | hx
    · exact h.1.left_mem
    · exact ih h.2 x hx

/-- continue with the suffix that starts at an occurrence of `v` -/
theorem IsPath.suffix_at {src : Masters} {targets : List String} (v : String) :
    ∀ {l : List String} {w : String}, IsPath src targets w l → v ∈ w :: l →
      ∃ l', IsPath src targets v l' ∧ (v :: l') <:+ (w :: l) := by
  intro l
  induction l with
  | nil =>
    intro w h hv
    simp only [List.mem_singleton] at hv
    subst hv
    exact ⟨[], h, List.suffix_refl _⟩
  | cons w' l ih =>
    intro w h hv
    by_cases hvw : v = w
    · subst hvw
      exact ⟨w' :: l, h, List.suffix_refl _⟩
    · have hv' : v ∈ w' :: l := by
        rcases List.mem_cons.mp hv with hv | hv
        · exact absurd hv hvw
        · exact hv
      obtain ⟨l', hp, hs⟩ := ih h.2 hv'
      exact ⟨l', hp, List.IsSuffix.trans hs (List.suffix_cons w (w' :: l))⟩

/-- every chain can be shortened to one without repetitions -/
theorem IsPath.shorten {src : Masters} {targets : List String} :
    ∀ {rest : List String} {v : String}, IsPath src targets v rest →
      ∃ rest', IsPath src targets v rest' ∧ (v :: rest').Nodup := by
  intro rest
  induction rest with
  | nil => intro v h; exact ⟨[], h, by simp⟩
  | cons w rest ih =>
    intro v h
    obtain ⟨rest', hp, hnd⟩ := ih h.2
    by_cases hv : v ∈ w :: rest'
    · obtain ⟨l', hp', hs⟩ := IsPath.suffix_at v hp hv
      exact ⟨l', hp', hnd.sublist hs.sublist⟩
    · exact ⟨w :: rest', ⟨h.1, hp⟩, List.nodup_cons.mpr ⟨hv, hnd⟩⟩

theorem IsPath.reaches {src : Masters} {targets : List String} :
    ∀ {rest : List String} {v : String}, IsPath src targets v rest →
      reaches (rest.length + 1) src targets v = true := by
  intro rest
  induction rest with
  | nil =>
    intro v h
    obtain ⟨b, hr, hb⟩ := h
    exact (reaches_succ_iff src targets _ v).mpr ⟨b, hr, Or.inl hb⟩
  | cons w rest ih =>
    intro v h
    exact (reaches_succ_iff src targets _ v).mpr ⟨w, h.1, Or.inr (ih h.2)⟩

/-- the specification's fuel-bounded `reaches` finds every chain: fuel = number of glyph names + 1 is enough
    (pigeonhole: a shortest chain visits no glyph name twice) -/
theorem reaches_of_refp (src : Masters) (targets : List String) (n b : String) (h : Refp src n b) (hb : b ∈ targets) :
    reaches ((allNames src).length + 1) src targets n = true := by
  obtain ⟨rest, hp⟩ := isPath_of_refp src targets h hb
  obtain ⟨rest', hp', hnd⟩ := hp.shorten
  have hlen : (n :: rest').length ≤ (allNames src).length :=
    List.Nodup.length_le_of_subset hnd (fun x hx => hp'.mem_allNames x hx)
  simp only [List.length_cons] at hlen
  exact reaches_mono src targets _ _ n hp'.reaches (by omega)

/-- conversely (soundness of `reaches`, any fuel) -/
theorem refp_of_reaches (src : Masters) (targets : List String) : ∀ (fuel : Nat) (n : String),
    reaches fuel src targets n = true → ∃ b ∈ targets, Refp src n b := by
  intro fuel
  induction fuel with
  | zero => intro n h; simp [reaches] at h
  | succ f ih =>
    intro n h
    obtain ⟨b, hr, hb⟩ := (reaches_succ_iff src targets f n).mp h
    rcases hb with hb | hb
    · exact ⟨b, hb, Refp.one hr⟩
    · obtain ⟨c, hc, hrc⟩ := ih b hb
      exact ⟨c, hc, Refp.step hr hrc⟩

end Ufo2ft.C09
