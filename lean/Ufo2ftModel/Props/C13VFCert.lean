import Ufo2ftModel.Props.C13VF
/-! C13 (variable fonts): a checked certificate implies the hypotheses of `C13_vf_render`. -/
namespace Ufo2ft.C13
open Ufo2ft Ufo2ft.C09 List

theorem get?_mem {m : GlyphSet} {n : String} {g : Glyph} (h : m.get? n = some g) : (n, g) ∈ m := alookup_mem h

theorem alookup_mem_gen {ν} {n : String} {v : ν} : ∀ {l : List (String × ν)}, alookup n l = some v → (n, v) ∈ l := by
  intro l
  induction l with
  | nil => intro h; cases h
  | cons e l ih =>
    intro h
    obtain ⟨k, w⟩ := e
    simp only [alookup] at h
    by_cases hk : (k == n) = true
    · rw [if_pos hk] at h
      have hkn : k = n := by simpa using hk
      rw [hkn, Option.some.inj h]; exact mem_cons_self
    · rw [if_neg hk] at h; exact mem_cons_of_mem _ (ih h)

/-- **certificate soundness**: the decidable check `famCert` implies `WFSkip` with the certificate's ranks -/
theorem famCertBase_sound (I : Inst) (ms : Masters) (cert : List (String × Nat)) (h : famCertBase I ms cert = true) :
    WFSkip I ms (rankOf cert) := by
  unfold famCertBase at h
  simp only [Bool.and_eq_true, beq_iff_eq, decide_eq_true_eq, List.all_eq_true] at h
  obtain ⟨⟨⟨⟨⟨⟨⟨⟨⟨h1, h2⟩, h3⟩, h4⟩, h5⟩, h6⟩, h7⟩, h8⟩, h9⟩, h10⟩ := h
  refine ⟨⟨h1, h2, ⟨h3, h4⟩, ?_, ?_, ?_, ?_, ?_, ?_⟩, h9, ?_⟩
  · intro m hm n hn
    obtain ⟨g, hg⟩ := Option.isSome_iff_exists.mp hn
    exact h5 m hm (n, g) (get?_mem hg)
  · intro m1 hm1 m2 hm2 n g1 g2 hg1 hg2
    have := h6 m1 hm1 m2 hm2 (n, g1) (get?_mem hg1)
    simp only [hg2, beq_iff_eq] at this
    exact this
  · intro m hm n g hg k hk
    have := (h7 m hm (n, g) (get?_mem hg)).1 k hk
    simp only [Bool.and_eq_true, decide_eq_true_eq] at this
    exact this.2
  · intro m hm n g hg k hk
    have := (h7 m hm (n, g) (get?_mem hg)).1 k hk
    simp only [Bool.and_eq_true, bne_iff_ne, ne_eq] at this
    exact this.1
  · intro m hm n g hg c hc p hp
    have := (h7 m hm (n, g) (get?_mem hg)).2 c hc p hp
    simpa using this
  · intro n hn l hl
    obtain ⟨g, hg⟩ := Option.isSome_iff_exists.mp hn
    have := h8 (n, g) (get?_mem hg) l hl
    simp only [Bool.and_eq_true, List.any_eq_true, decide_eq_true_eq] at this
    exact this
  · intro n
    unfold rankOf
    cases hc : alookup n cert with
    | none => exact Nat.zero_le _
    | some r =>
      have hm : (n, r) ∈ cert := alookup_mem_gen hc
      exact h10 (n, r) hm

theorem famCert_sound (I : Inst) (ms : Masters) (cert : List (String × Nat)) (h : famCert I ms cert = true) :
    WFSkip I ms (rankOf cert) := by
  unfold famCert at h
  simp only [Bool.and_eq_true] at h
  exact famCertBase_sound I ms cert h.1

theorem inHull_sound (I : Inst) (t : Q) (h : inHull I t = true) : InHull I t := by
  unfold inHull at h
  simp only [Bool.and_eq_true, List.any_eq_true, decide_eq_true_eq] at h
  exact h

end Ufo2ft.C13
