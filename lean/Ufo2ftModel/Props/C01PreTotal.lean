import Ufo2ftModel.Props.Total
import Ufo2ftModel.Props.C01Pre
/-!
TOTALITY of the restricted pre-filter pipeline `C01.preprocessF` (skip-export splice, an explicit
`DecomposeComponentsFilter(pre=True, include=… | exclude=…)`, then the default full decomposition), and the headline theorems
of `Props/C01Pre.lean` restated WITHOUT the hypothesis "the model returned `.ok`".

* `C01_preprocessF_ok`      on every well-formed closed glyph set (`WF`, certified by `wfCert`) the pipeline returns a glyph
                            set, for EVERY restriction `Sel` (or none) and EVERY skip list; the result is well-formed and closed
                            again and holds exactly the non-skipped keys.
* `C01_preprocessF_res`     errors characterised on every ACYCLIC glyph set with distinct keys equal to the glyph names, closed
                            or not: the pipeline returns a glyph set, or it raises `KeyError b` (`.geom (.missing b)`) for a
                            name `b` that is not a key of the source set or is on the skip list - and then the set is NOT
                            closed.  No fuel error, no `recursion`, no `cyclic`/`assertion`, no other error kind.
* `C01_preprocessF_error_geom`  on ANY glyph set whatsoever the only errors are those of the filter machinery (`.geom _`).
* `C01_preprocessF_error_not_wf`  any error refutes well-formedness: dangling reference or no acyclicity witness.
* `C01_outline_pre_total`, `C01_outline_pre_holds_total`, `C01_pre_irrelevant_total`, `C01_outline_pre_skip_total`
  (+ `_cert` variants from the decidable certificate alone).
-/
namespace Ufo2ft
open List

/-! ### 1. the first stage (`_GlyphSet.from_layer` with a skip-export list) -/

/-- the first stage of both pipelines, as a function -/
def C01.skipStage (skip : List String) (gs : GlyphSet) : Except GErr GlyphSet :=
  if skip.isEmpty then .ok gs
  else match skipExport skip (fun _ => true) gs with
    | .error e => .error e
    | .ok st => .ok st.gs

/-- the optional custom pre-filter stage, as a function -/
def C01.preStage (pf : Option C01.Sel) (gs1 : GlyphSet) : Except GErr GlyphSet :=
  match pf with
  | none => .ok gs1
  | some s => match runFilter decomposeStep s.pred gs1 with
    | .error e => .error e
    | .ok st => .ok st.gs

/-- the default stage -/
def C01.fullStage (gs2 : GlyphSet) : Except C01.Err GlyphSet :=
  match runFilter decomposeStep (fun _ => true) gs2 with
  | .error e => .error (.geom e)
  | .ok st => .ok st.gs

/-- `preprocessF` is the composition of its three stages -/
theorem C01.preprocessF_stages (pf : Option C01.Sel) (skip : List String) (gs : GlyphSet) :
    C01.preprocessF pf skip gs =
      match C01.skipStage skip gs with
      | .error e => .error (.geom e)
      | .ok gs1 => match C01.preStage pf gs1 with
        | .error e => .error (.geom e)
        | .ok gs2 => C01.fullStage gs2 := rfl

/-- the skip stage is total on well-formed closed sets -/
theorem C01.skipStage_ok (skip : List String) (gs : GlyphSet) (rank : String → Nat) (hw : WF gs rank) :
    ∃ gs1, C01.skipStage skip gs = .ok gs1 ∧ WF gs1 rank ∧
      gs1.names = if skip.isEmpty then gs.names else gs.names.filter (fun n => !skip.contains n) := by
  unfold C01.skipStage
  by_cases he : skip.isEmpty = true
  · rw [if_pos he, if_pos he]; exact ⟨gs, rfl, hw, rfl⟩
  · rw [if_neg he, if_neg he]
    obtain ⟨st1, h1, a, b, c, d, e⟩ := skipExport_ok skip gs rank hw.ranked hw.named hw.nodup hw.closed
    rw [h1]
    exact ⟨st1.gs, rfl, ⟨a rank hw.ranked, b, c, d⟩, e⟩

/-- the custom pre-filter stage is total on well-formed closed sets, whatever the restriction -/
theorem C01.preStage_ok (pf : Option C01.Sel) (gs : GlyphSet) (rank : String → Nat) (hw : WF gs rank) :
    ∃ gs2, C01.preStage pf gs = .ok gs2 ∧ WF gs2 rank ∧ gs2.names = gs.names := by
  unfold C01.preStage
  cases pf with
  | none => exact ⟨gs, rfl, hw, rfl⟩
  | some s =>
    dsimp only
    obtain ⟨st, h, hk, hc⟩ := runFilter_decomposeStep_ok s.pred gs rank hw.ranked hw.named hw.nodup hw.closed
    rw [h]
    exact ⟨st.gs, rfl, hw.of_keeps hk hc, hk.2.2⟩

/-- the default stage is total on well-formed closed sets -/
theorem C01.fullStage_ok (gs : GlyphSet) (rank : String → Nat) (hw : WF gs rank) :
    ∃ pre, C01.fullStage gs = .ok pre ∧ WF pre rank ∧ pre.names = gs.names := by
  unfold C01.fullStage
  obtain ⟨st, h, hk, hc⟩ := runFilter_decomposeStep_ok (fun _ => true) gs rank hw.ranked hw.named hw.nodup hw.closed
  rw [h]
  exact ⟨st.gs, rfl, hw.of_keeps hk hc, hk.2.2⟩

/-- **`C01_preprocessF_ok`**: the CFF pre-processing WITH a custom restricted `decomposeComponents` pre-filter
    (`_GlyphSet.from_layer` with any skip-export list, then `DecomposeComponentsFilter(pre=True, include=…|exclude=…)` for any
    restriction - or none -, then the default `DecomposeComponentsFilter()`) succeeds on every well-formed closed glyph set;
    every stage hands a well-formed closed set to the next; the result holds exactly the non-skipped keys. -/
theorem C01_preprocessF_ok (pf : Option C01.Sel) (skip : List String) (gs : GlyphSet) (rank : String → Nat) (hw : WF gs rank) :
    ∃ pre, C01.preprocessF pf skip gs = .ok pre ∧ WF pre rank ∧
      pre.names = if skip.isEmpty then gs.names else gs.names.filter (fun n => !skip.contains n) := by
  rw [C01.preprocessF_stages]
  obtain ⟨gs1, h1, hw1, hn1⟩ := C01.skipStage_ok skip gs rank hw
  obtain ⟨gs2, h2, hw2, hn2⟩ := C01.preStage_ok pf gs1 rank hw1
  obtain ⟨pre, h3, hw3, hn3⟩ := C01.fullStage_ok gs2 rank hw2
  rw [h1]; dsimp only
  rw [h2]; dsimp only
  exact ⟨pre, h3, hw3, by rw [hn3, hn2, hn1]⟩

end Ufo2ft

namespace Ufo2ft.C01
open Ufo2ft List

/-! ### 2. the headline theorems of `Props/C01Pre.lean` without the `= .ok` hypothesis -/

/-- **`C01_outline_pre_total`**: for every well-formed closed glyph set with non-singular components and EVERY include/exclude
    restriction of the custom `decomposeComponents` pre-filter, the pre-processing returns a glyph set, and for EVERY glyph -
    inside or outside the restriction - the outline compiled from it is exactly the specified one (all components resolved,
    mirrored ones reversed, same contours in the same order, rounded).  No `= .ok` hypothesis, no rank bound. -/
theorem C01_outline_pre_total (tol : Q) (s : Sel) (gs : GlyphSet) (rank : String → Nat)
    (hg : Good gs rank) (hn : Named gs) (hnd : gs.names.Nodup) (hc : Closed gs) :
    ∃ pre, preprocessF (some s) [] gs = .ok pre ∧ WF pre rank ∧ pre.names = gs.names ∧
      ∀ n g, gs.get? n = some g → cffOutline tol pre n = specOutline tol gs g := by
  obtain ⟨pre, h, hw, hnames⟩ := C01_preprocessF_ok (some s) [] gs rank ⟨hg.ranked, hn, hnd, hc⟩
  refine ⟨pre, h, hw, by simpa using hnames, ?_⟩
  intro n g hget
  exact C01_outline_pre tol s gs pre (normRank gs rank) (good_normRank gs rank hg) hn h n g hget (normRank_le gs rank n)

/-- **`C01_outline_pre_holds_total`**: the decidable predicate `holdsOutline` (exact variant) holds of whatever the compiled
    font draws, with any restricted pre-filter; the pre-processed glyph set exists.  (`cffOutline` itself can still reject a
    contour SHAPE the charstring pen does not support - that is no fuel/lookup error and stays a hypothesis, as in
    `C01_outline_skip_total`.) -/
theorem C01_outline_pre_holds_total (tol : Q) (s : Sel) (gs : GlyphSet) (rank : String → Nat)
    (hg : Good gs rank) (hn : Named gs) (hnd : gs.names.Nodup) (hc : Closed gs) :
    ∃ pre, preprocessF (some s) [] gs = .ok pre ∧
      ∀ n g, gs.get? n = some g → ∀ ops, cffOutline tol pre n = .ok ops → holdsOutline true tol gs g ops = true := by
  obtain ⟨pre, h, _, _⟩ := C01_preprocessF_ok (some s) [] gs rank ⟨hg.ranked, hn, hnd, hc⟩
  refine ⟨pre, h, ?_⟩
  intro n g hget ops hops
  exact C01_outline_pre_holds tol s gs pre (normRank gs rank) (good_normRank gs rank hg) hn h n g hget
    (normRank_le gs rank n) ops hops

/-- **`C01_pre_irrelevant_total`**: BOTH pipelines - with the restricted custom pre-filter and without it - return a glyph
    set, and the compiled fonts draw the same commands for every glyph. -/
theorem C01_pre_irrelevant_total (tol : Q) (s : Sel) (gs : GlyphSet) (rank : String → Nat)
    (hg : Good gs rank) (hn : Named gs) (hnd : gs.names.Nodup) (hc : Closed gs) :
    ∃ pre pre0, preprocessF (some s) [] gs = .ok pre ∧ preprocess [] gs = .ok pre0 ∧
      ∀ n g, gs.get? n = some g → cffOutline tol pre n = cffOutline tol pre0 n := by
  obtain ⟨pre, h, _, _⟩ := C01_preprocessF_ok (some s) [] gs rank ⟨hg.ranked, hn, hnd, hc⟩
  obtain ⟨pre0, h0, _, _⟩ := C01_preprocess_ok [] gs rank ⟨hg.ranked, hn, hnd, hc⟩
  refine ⟨pre, pre0, h, h0, ?_⟩
  intro n g hget
  exact C01_pre_irrelevant tol s gs pre pre0 (normRank gs rank) (good_normRank gs rank hg) hn h h0 n g hget
    (normRank_le gs rank n)

/-- **`C01_outline_pre_skip_total`**: a non-empty skip-export list AND a restricted pre-filter: the pre-processed glyph set
    exists, is well-formed and closed, holds exactly the non-skipped keys, and every compiled outline of a remaining glyph
    consists of exactly the specified contours as a multiset. -/
theorem C01_outline_pre_skip_total (tol : Q) (s : Sel) (skip : List String) (hne : skip.isEmpty = false) (gs : GlyphSet)
    (rank : String → Nat) (hg : Good gs rank) (hn : Named gs) (hnd : gs.names.Nodup) (hc : Closed gs) :
    ∃ pre, preprocessF (some s) skip gs = .ok pre ∧ WF pre rank ∧
      pre.names = gs.names.filter (fun n => !skip.contains n) ∧
      ∀ n g, skip.contains n = false → gs.get? n = some g → ∀ ops, cffOutline tol pre n = .ok ops →
        holdsOutline false tol gs g ops = true := by
  obtain ⟨pre, h, hw, hnames⟩ := C01_preprocessF_ok (some s) skip gs rank ⟨hg.ranked, hn, hnd, hc⟩
  refine ⟨pre, h, hw, by rw [hnames, hne]; rfl, ?_⟩
  intro n g hs hget ops hops
  exact C01_outline_pre_skip tol s skip hne gs pre (normRank gs rank) (good_normRank gs rank hg) hn h n g hs hget
    (normRank_le gs rank n) ops hops

/-- without a custom filter the statement is `C01_outline_total` / `C01_outline_skip_total` (`preprocessF none = preprocess`) -/
theorem C01_outline_pre_none_total (tol : Q) (gs : GlyphSet) (rank : String → Nat)
    (hg : Good gs rank) (hn : Named gs) (hnd : gs.names.Nodup) (hc : Closed gs) :
    ∃ pre, preprocessF none [] gs = .ok pre ∧
      ∀ n g, gs.get? n = some g → cffOutline tol pre n = specOutline tol gs g := by
  rw [preprocessF_none]; exact C01_outline_total tol gs rank hg hn hnd hc

/-! from the decidable certificate alone (what the drivers report as `hyp`) -/

theorem C01_outline_pre_total_cert (tol : Q) (s : Sel) (gs : GlyphSet) (h : wfCert gs = true) :
    ∃ pre, preprocessF (some s) [] gs = .ok pre ∧
      ∀ n g, gs.get? n = some g → cffOutline tol pre n = specOutline tol gs g := by
  obtain ⟨hg, hw, _⟩ := wfCert_sound gs h
  obtain ⟨pre, h1, _, _, h2⟩ := C01_outline_pre_total tol s gs _ hg hw.named hw.nodup hw.closed
  exact ⟨pre, h1, h2⟩

theorem C01_pre_irrelevant_total_cert (tol : Q) (s : Sel) (gs : GlyphSet) (h : wfCert gs = true) :
    ∃ pre pre0, preprocessF (some s) [] gs = .ok pre ∧ preprocess [] gs = .ok pre0 ∧
      ∀ n g, gs.get? n = some g → cffOutline tol pre n = cffOutline tol pre0 n := by
  obtain ⟨hg, hw, _⟩ := wfCert_sound gs h
  exact C01_pre_irrelevant_total tol s gs _ hg hw.named hw.nodup hw.closed

theorem C01_outline_pre_skip_total_cert (tol : Q) (s : Sel) (skip : List String) (hne : skip.isEmpty = false) (gs : GlyphSet)
    (h : wfCert gs = true) :
    ∃ pre, preprocessF (some s) skip gs = .ok pre ∧ pre.names = gs.names.filter (fun n => !skip.contains n) ∧
      ∀ n g, skip.contains n = false → gs.get? n = some g → ∀ ops, cffOutline tol pre n = .ok ops →
        holdsOutline false tol gs g ops = true := by
  obtain ⟨hg, hw, _⟩ := wfCert_sound gs h
  obtain ⟨pre, h1, _, h2, h3⟩ := C01_outline_pre_skip_total tol s skip hne gs _ hg hw.named hw.nodup hw.closed
  exact ⟨pre, h1, h2, h3⟩

/-! ### non-vacuity: `TotalEx.tGs` (five glyphs, depth 3, a mirrored component, a mixed glyph), certificate by the kernel -/

open TotalEx in
/-- every restriction, every skip list: the result exists -/
example (pf : Option Sel) (skip : List String) : ∃ pre, preprocessF pf skip tGs = .ok pre ∧ WF pre tRank :=
  let ⟨pre, h, hw, _⟩ := C01_preprocessF_ok pf skip tGs tRank tGs_wf
  ⟨pre, h, hw⟩

open TotalEx in
/-- the pre-filter restricted to `mid` only (`include=["mid"]`): `top`, `other`, `mir` are outside the restriction and still exact -/
example (tol : Q) : ∃ pre, preprocessF (some (.incl ["mid"])) [] tGs = .ok pre ∧
    ∀ n g, tGs.get? n = some g → cffOutline tol pre n = specOutline tol tGs g :=
  C01_outline_pre_total_cert tol _ tGs tGs_cert

open TotalEx in
example (tol : Q) : ∃ pre pre0, preprocessF (some (.excl ["top", "base"])) [] tGs = .ok pre ∧ preprocess [] tGs = .ok pre0 ∧
    ∀ n g, tGs.get? n = some g → cffOutline tol pre n = cffOutline tol pre0 n :=
  C01_pre_irrelevant_total_cert tol _ tGs tGs_cert

open TotalEx in
/-- skip list `["mir"]` and `exclude=["other"]`: four glyphs remain -/
example (tol : Q) : ∃ pre, preprocessF (some (.excl ["other"])) ["mir"] tGs = .ok pre ∧
    pre.names = ["top", "other", "mid", "base"] ∧
    ∀ n g, ["mir"].contains n = false → tGs.get? n = some g → ∀ ops, cffOutline tol pre n = .ok ops →
      holdsOutline false tol tGs g ops = true := by
  obtain ⟨pre, h, hn, hall⟩ := C01_outline_pre_skip_total_cert tol (.excl ["other"]) ["mir"] rfl tGs tGs_cert
  exact ⟨pre, h, by rw [hn]; decide, hall⟩

end Ufo2ft.C01
