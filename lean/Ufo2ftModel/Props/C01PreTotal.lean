import Ufo2ftModel.Props.Total
import Ufo2ftModel.Props.C01Pre
/-!
TOTALITY of the restricted pre-filter pipeline `C01.preprocessF` (skip-export splice, an explicit
`DecomposeComponentsFilter(pre=True, include=… | exclude=…)`, then the default full decomposition), and the headline theorems
of `Props/C01Pre.lean` restated WITHOUT the hypothesis "the model returned `.ok`".

* `C01_preprocessF_ok`      on every well-formed closed glyph set (`WF`, certified by `wfCert`) the pipeline returns a glyph
                            set, for EVERY restriction `Sel` (or none) and EVERY skip list; the result is well-formed and closed
                            again and holds exactly the non-skipped keys.
* `C01_preprocessF_res`     errors characterised on every ACYCLIC glyph set with distinct keys equal to the glyph names, closed
                            or not: the pipeline returns a glyph set, or it raises `KeyError b` (`.geom (.missing b)`) for a
                            name `b` that is not a key of the source set or is on the skip list - and then the set is NOT
                            closed.  No fuel error, no `recursion`, no `cyclic`/`assertion`, no other error kind.
* `C01_preprocessF_error_geom`  on ANY glyph set whatsoever the only errors are those of the filter machinery (`.geom _`).
* `C01_preprocessF_error_not_wf`  any error refutes well-formedness: dangling reference or no acyclicity witness.
* `C01_outline_pre_total`, `C01_outline_pre_holds_total`, `C01_pre_irrelevant_total`, `C01_outline_pre_skip_total`
  (+ `_cert` variants from the decidable certificate alone).
* `C01_outline_pre_skip_total_iff` / `_total_spec`, `C01_outline_pre_holds_total_spec`: the last `= .ok` hypothesis (the
  charstring pen accepting the contour shapes) is moved from the model's output to the SPECIFIED outline: the model's outline is
  rejected exactly when the specified one is.
-/
namespace Ufo2ft
open List

/-! ### 1. the first stage (`_GlyphSet.from_layer` with a skip-export list) -/

/-- the first stage of both pipelines, as a function -/
def C01.skipStage (skip : List String) (gs : GlyphSet) : Except GErr GlyphSet :=
  if skip.isEmpty then .ok gs
  else match skipExport skip (fun _ => true) gs with
    | .error e => .error e
    | .ok st => .ok st.gs

/-- the optional custom pre-filter stage, as a function -/
def C01.preStage (pf : Option C01.Sel) (gs1 : GlyphSet) : Except GErr GlyphSet :=
  match pf with
  | none => .ok gs1
  | some s => match runFilter decomposeStep s.pred gs1 with
    | .error e => .error e
    | .ok st => .ok st.gs

/-- the default stage -/
def C01.fullStage (gs2 : GlyphSet) : Except C01.Err GlyphSet :=
  match runFilter decomposeStep (fun _ => true) gs2 with
  | .error e => .error (.geom e)
  | .ok st => .ok st.gs

/-- `preprocessF` is the composition of its three stages -/
theorem C01.preprocessF_stages (pf : Option C01.Sel) (skip : List String) (gs : GlyphSet) :
    C01.preprocessF pf skip gs =
      match C01.skipStage skip gs with
      | .error e => .error (.geom e)
      | .ok gs1 => match C01.preStage pf gs1 with
        | .error e => .error (.geom e)
        | .ok gs2 => C01.fullStage gs2 := rfl

/-- the skip stage is total on well-formed closed sets -/
theorem C01.skipStage_ok (skip : List String) (gs : GlyphSet) (rank : String → Nat) (hw : WF gs rank) :
    ∃ gs1, C01.skipStage skip gs = .ok gs1 ∧ WF gs1 rank ∧
      gs1.names = if skip.isEmpty then gs.names else gs.names.filter (fun n => !skip.contains n) := by
  unfold C01.skipStage
  by_cases he : skip.isEmpty = true
  · rw [if_pos he, if_pos he]; exact ⟨gs, rfl, hw, rfl⟩
  · rw [if_neg he, if_neg he]
    obtain ⟨st1, h1, a, b, c, d, e⟩ := skipExport_ok skip gs rank hw.ranked hw.named hw.nodup hw.closed
    rw [h1]
    exact ⟨st1.gs, rfl, ⟨a rank hw.ranked, b, c, d⟩, e⟩

/-- the custom pre-filter stage is total on well-formed closed sets, whatever the restriction -/
theorem C01.preStage_ok (pf : Option C01.Sel) (gs : GlyphSet) (rank : String → Nat) (hw : WF gs rank) :
    ∃ gs2, C01.preStage pf gs = .ok gs2 ∧ WF gs2 rank ∧ gs2.names = gs.names := by
  unfold C01.preStage
  cases pf with
  | none => exact ⟨gs, rfl, hw, rfl⟩
  | some s =>
    dsimp only
    obtain ⟨st, h, hk, hc⟩ := runFilter_decomposeStep_ok s.pred gs rank hw.ranked hw.named hw.nodup hw.closed
    rw [h]
    exact ⟨st.gs, rfl, hw.of_keeps hk hc, hk.2.2⟩

/-- the default stage is total on well-formed closed sets -/
theorem C01.fullStage_ok (gs : GlyphSet) (rank : String → Nat) (hw : WF gs rank) :
    ∃ pre, C01.fullStage gs = .ok pre ∧ WF pre rank ∧ pre.names = gs.names := by
  unfold C01.fullStage
  obtain ⟨st, h, hk, hc⟩ := runFilter_decomposeStep_ok (fun _ => true) gs rank hw.ranked hw.named hw.nodup hw.closed
  rw [h]
  exact ⟨st.gs, rfl, hw.of_keeps hk hc, hk.2.2⟩

/-- **`C01_preprocessF_ok`**: the CFF pre-processing WITH a custom restricted `decomposeComponents` pre-filter
    (`_GlyphSet.from_layer` with any skip-export list, then `DecomposeComponentsFilter(pre=True, include=…|exclude=…)` for any
    restriction - or none -, then the default `DecomposeComponentsFilter()`) succeeds on every well-formed closed glyph set;
    every stage hands a well-formed closed set to the next; the result holds exactly the non-skipped keys. -/
theorem C01_preprocessF_ok (pf : Option C01.Sel) (skip : List String) (gs : GlyphSet) (rank : String → Nat) (hw : WF gs rank) :
    ∃ pre, C01.preprocessF pf skip gs = .ok pre ∧ WF pre rank ∧
      pre.names = if skip.isEmpty then gs.names else gs.names.filter (fun n => !skip.contains n) := by
  rw [C01.preprocessF_stages]
  obtain ⟨gs1, h1, hw1, hn1⟩ := C01.skipStage_ok skip gs rank hw
  obtain ⟨gs2, h2, hw2, hn2⟩ := C01.preStage_ok pf gs1 rank hw1
  obtain ⟨pre, h3, hw3, hn3⟩ := C01.fullStage_ok gs2 rank hw2
  rw [h1]; dsimp only
  rw [h2]; dsimp only
  exact ⟨pre, h3, hw3, by rw [hn3, hn2, hn1]⟩

/-! ### 3. errors characterised: acyclic glyph sets that need not be closed

`P` is a set of names every reference stays inside (`RefsIn`); an error of the decomposing pen then names a culprit that is not a
key AND lies in `P`.  With `P n := n is not on the skip list` this locates a `KeyError` raised by a later stage of the pipeline
at a name that was never a key of the SOURCE glyph set (and not at a glyph the skip stage removed). -/

/-- every glyph of the set refers only to names satisfying `P` -/
def RefsIn (P : String → Prop) (gs : GlyphSet) : Prop := ∀ n g, gs.get? n = some g → ∀ k ∈ g.comps, P k.base

def PenErrP (P : String → Prop) (gs : GlyphSet) (e : GErr) : Prop :=
  e = .recursion ∨ ∃ b, e = .missing b ∧ gs.get? b = none ∧ P b

def PErrOne (P : String → Prop) (gs : GlyphSet) (rf nested : Bool) (fuel : Nat) : Prop :=
  ∀ incl base t e, addComp fuel gs rf nested incl base t = .error e → P base → PenErrP P gs e
def PErrMany (P : String → Prop) (gs : GlyphSet) (rf nested : Bool) (fuel : Nat) : Prop :=
  ∀ incl t ks e, addComps fuel gs rf nested incl t ks = .error e → (∀ k ∈ ks, P k.base) → PenErrP P gs e

theorem pErrMany_of_one (P : String → Prop) (gs : GlyphSet) (rf nested : Bool) (fuel : Nat)
    (h1 : PErrOne P gs rf nested fuel) : PErrMany P gs rf nested fuel := by
  intro incl t ks
  induction ks with
  | nil => intro e h; simp only [addComps] at h; cases h
  | cons k ks ih =>
    intro e h hks
    simp only [addComps] at h
    cases h0 : addComp fuel gs rf nested incl k.base (t.compose k.t) with
    | error e0 => rw [h0] at h; cases h; exact h1 incl k.base _ e h0 (hks k mem_cons_self)
    | ok d =>
      rw [h0] at h
      cases hr : addComps fuel gs rf nested incl t ks with
      | error e1 => rw [hr] at h; cases h; exact ih e hr (fun k' hk' => hks k' (mem_cons_of_mem _ hk'))
      | ok d' => rw [hr] at h; cases h

theorem pErrOne_succ (P : String → Prop) (gs : GlyphSet) (hrc : RefsIn P gs) (rf nested : Bool) (fuel : Nat)
    (h2 : PErrMany P gs rf nested fuel) : PErrOne P gs rf nested (fuel + 1) := by
  intro incl base t e h hP
  unfold addComp at h
  by_cases hi : isIncluded incl base = true
  · rw [if_pos hi] at h
    cases hb : gs.get? base with
    | none => rw [hb] at h; cases h; exact Or.inr ⟨base, rfl, hb, hP⟩
    | some b =>
      rw [hb] at h
      dsimp only at h
      cases hd : addComps fuel gs rf nested (inclNested nested incl) t b.comps with
      | error e1 => rw [hd] at h; cases h; exact h2 _ t b.comps e hd (hrc base b hb)
      | ok d => rw [hd] at h; cases h
  · rw [if_neg hi] at h; cases h

theorem pen_errP (P : String → Prop) (gs : GlyphSet) (hrc : RefsIn P gs) (rf nested : Bool) :
    ∀ fuel, PErrOne P gs rf nested fuel ∧ PErrMany P gs rf nested fuel := by
  intro fuel
  induction fuel with
  | zero =>
    have h0 : PErrOne P gs rf nested 0 := by
      intro incl base t e h _; simp only [addComp] at h; cases h; exact Or.inl rfl
    exact ⟨h0, pErrMany_of_one P gs rf nested 0 h0⟩
  | succ n ih =>
    have h1 := pErrOne_succ P gs hrc rf nested n ih.2
    exact ⟨h1, pErrMany_of_one P gs rf nested (n + 1) h1⟩

/-- what the pen passes through stays inside `P` -/
def POutOne (P : String → Prop) (gs : GlyphSet) (rf nested : Bool) (fuel : Nat) : Prop :=
  ∀ incl base t D, addComp fuel gs rf nested incl base t = .ok D → P base → ∀ k ∈ D.comps, P k.base
def POutMany (P : String → Prop) (gs : GlyphSet) (rf nested : Bool) (fuel : Nat) : Prop :=
  ∀ incl t ks D, addComps fuel gs rf nested incl t ks = .ok D → (∀ k ∈ ks, P k.base) → ∀ k ∈ D.comps, P k.base

theorem pOutMany_of_one (P : String → Prop) (gs : GlyphSet) (rf nested : Bool) (fuel : Nat)
    (h1 : POutOne P gs rf nested fuel) : POutMany P gs rf nested fuel := by
  intro incl t ks
  induction ks with
  | nil => intro D hD _ k hk; simp only [addComps] at hD; cases hD; cases hk
  | cons k0 ks ih =>
    intro D hD hks k hk
    simp only [addComps] at hD
    cases h0 : addComp fuel gs rf nested incl k0.base (t.compose k0.t) with
    | error e => rw [h0] at hD; cases hD
    | ok d =>
      rw [h0] at hD
      cases hr : addComps fuel gs rf nested incl t ks with
      | error e => rw [hr] at hD; cases hD
      | ok d' =>
        rw [hr] at hD
        have hD' := Except.ok.inj hD
        subst hD'
        simp only [Drawn.append, mem_append] at hk
        rcases hk with hk | hk
        · exact h1 incl k0.base _ d h0 (hks k0 mem_cons_self) k hk
        · exact ih d' hr (fun k' hk' => hks k' (mem_cons_of_mem _ hk')) k hk

theorem pOutOne_succ (P : String → Prop) (gs : GlyphSet) (hrc : RefsIn P gs) (rf nested : Bool) (fuel : Nat)
    (h2 : POutMany P gs rf nested fuel) : POutOne P gs rf nested (fuel + 1) := by
  intro incl base t D hD hp k hk
  unfold addComp at hD
  by_cases hi : isIncluded incl base = true
  · rw [if_pos hi] at hD
    cases hb : gs.get? base with
    | none => rw [hb] at hD; cases hD
    | some b =>
      rw [hb] at hD
      dsimp only at hD
      cases hd : addComps fuel gs rf nested (inclNested nested incl) t b.comps with
      | error e => rw [hd] at hD; cases hD
      | ok d =>
        rw [hd] at hD
        have hD' := Except.ok.inj hD
        subst hD'
        exact h2 _ t b.comps d hd (hrc base b hb) k hk
  · rw [if_neg hi] at hD
    have hD' := Except.ok.inj hD
    subst hD'
    simp only [mem_singleton] at hk
    subst hk
    exact hp

theorem pen_outP (P : String → Prop) (gs : GlyphSet) (hrc : RefsIn P gs) (rf nested : Bool) :
    ∀ fuel, POutOne P gs rf nested fuel ∧ POutMany P gs rf nested fuel := by
  intro fuel
  induction fuel with
  | zero =>
    have h0 : POutOne P gs rf nested 0 := by intro incl base t D hD; simp only [addComp] at hD; cases hD
    exact ⟨h0, pOutMany_of_one P gs rf nested 0 h0⟩
  | succ n ih =>
    have h1 := pOutOne_succ P gs hrc rf nested n ih.2
    exact ⟨h1, pOutMany_of_one P gs rf nested (n + 1) h1⟩

/-- **the error of `decomposeCompositeGlyph` on an ACYCLIC set, located**: it is `KeyError b` for a `b` that is no key and
    belongs to every reference-closed name set `P` containing the glyph's own references. -/
theorem decomposeGlyph_errorP (P : String → Prop) (gs : GlyphSet) (rank : String → Nat) (hr : Ranked gs rank)
    (hrc : RefsIn P gs) (nested : Bool) (incl : Option (List String)) (g : Glyph) (e : GErr)
    (hg : ∀ k ∈ g.comps, P k.base) (h : decomposeGlyph gs nested incl g = .error e) :
    ∃ b, e = .missing b ∧ gs.get? b = none ∧ P b := by
  have h' := h
  unfold decomposeGlyph at h
  cases hd : addComps (gs.length + 1) gs true nested incl Affine.id g.comps with
  | ok d => rw [hd] at h; cases h
  | error e1 =>
    rw [hd] at h
    cases h
    rcases (pen_errP P gs hrc true nested (gs.length + 1)).2 incl Affine.id g.comps e hd hg with rfl | hm
    · rcases decomposeGlyph_error gs nested incl g _ h' with ⟨_, hno⟩ | ⟨b, hb, _⟩
      · exact absurd ⟨rank, hr⟩ hno
      · cases hb
    · exact hm

/-- the components left by `decomposeCompositeGlyph` stay inside `P` -/
theorem decomposeGlyph_refsP (P : String → Prop) (gs : GlyphSet) (hrc : RefsIn P gs) (nested : Bool)
    (incl : Option (List String)) (g g' : Glyph) (hg : ∀ k ∈ g.comps, P k.base)
    (h : decomposeGlyph gs nested incl g = .ok g') : ∀ k ∈ g'.comps, P k.base := by
  unfold decomposeGlyph at h
  cases hd : addComps (gs.length + 1) gs true nested incl Affine.id g.comps with
  | error e => rw [hd] at h; cases h
  | ok d =>
    rw [hd] at h
    have h' := Except.ok.inj h
    subst h'
    exact (pen_outP P gs hrc true nested (gs.length + 1)).2 incl Affine.id g.comps d hd hg

theorem refsIn_set (P : String → Prop) (gs : GlyphSet) (hrc : RefsIn P gs) (n : String) (g g' : Glyph)
    (hget : gs.get? n = some g) (hp : ∀ k ∈ g'.comps, P k.base) : RefsIn P (gs.set n g') := by
  intro m h' hm k hk
  rw [get?_set gs n m g g' hget] at hm
  by_cases e : m = n
  · rw [if_pos e] at hm; have := Option.some.inj hm; subst this; exact hp k hk
  · rw [if_neg e] at hm; exact hrc m h' hm k hk

theorem get?_none_of_names {a b : GlyphSet} (h : a.names = b.names) (n : String) (ha : a.get? n = none) :
    b.get? n = none := by
  have := present_of_names_eq h n
  unfold Present at this
  rw [ha] at this
  cases hb : b.get? n with
  | none => rfl
  | some g => rw [hb] at this; simp at this

/-- a step that fails only if `decomposeCompositeGlyph` fails, with that error -/
def DecompFails (step : FState → Glyph → Except GErr (FState × Bool)) : Prop :=
  ∀ st g e, step st g = .error e → ∃ nested incl, decomposeGlyph st.gs nested incl g = .error e

theorem decomposeStep_fails : DecompFails decomposeStep := by
  intro st g e h
  unfold decomposeStep at h
  by_cases he : g.comps.isEmpty = true
  · rw [if_pos he] at h; cases h
  · rw [if_neg he] at h
    cases hd : decomposeGlyph st.gs true none g with
    | error e1 => rw [hd] at h; cases h; exact ⟨true, none, hd⟩
    | ok g' => rw [hd] at h; cases h

theorem skipExportStep_fails (skip : List String) : DecompFails (skipExportStep skip) := by
  intro st g e h
  unfold skipExportStep at h
  by_cases he : (g.comps.isEmpty || !(g.comps.any (fun k => skip.contains k.base))) = true
  · rw [if_pos he] at h; cases h
  · rw [if_neg he] at h
    cases hd : decomposeGlyph st.gs false (some skip) g with
    | error e1 => rw [hd] at h; cases h; exact ⟨false, some skip, hd⟩
    | ok g' => rw [hd] at h; cases h

/-- **a decomposing filter run on an ACYCLIC set with distinct keys (closed or not)**: it returns a result (same keys, same
    acyclicity witnesses, references still inside `P`), or it raises `KeyError b` for a `b ∈ P` that is not a key.  Never a
    fuel error, never `recursion` / `cyclic` / `assertion`. -/
theorem runFilter_decomp_res (P : String → Prop) (step : FState → Glyph → Except GErr (FState × Bool))
    (hd : IsDecompStep step) (hf : DecompFails step) (incl : String → Bool) (gs : GlyphSet) (rank : String → Nat)
    (hr : Ranked gs rank) (hn : Named gs) (hnd : gs.names.Nodup) (hrc : RefsIn P gs) :
    (∃ st, runFilter step incl gs = .ok st ∧ Keeps gs st.gs ∧ RefsIn P st.gs) ∨
    (∃ b, runFilter step incl gs = .error (.missing b) ∧ gs.get? b = none ∧ P b) := by
  have := runFilter_res step incl (fun gs' => Keeps gs gs' ∧ RefsIn P gs')
    (fun e => ∃ b, e = .missing b ∧ gs.get? b = none ∧ P b) gs rank hr hn hnd
    (fun gs' h => h.1.2.1) (fun gs' h => h.1.2.2)
    (by
      intro st g hi hget _
      cases hs : step st g with
      | ok res =>
        obtain ⟨st', r⟩ := res
        left
        refine ⟨st', r, rfl, ?_⟩
        rcases hd st g st' r hs with e | ⟨nested, incl', g', hdec, e⟩
        · rw [e]; exact hi
        · rw [e]
          exact ⟨hi.1.set g.name g g' hget (decomposeGlyph_name st.gs nested incl' g g' hdec)
              (fun r hr' => decomposeGlyph_rank st.gs r hr' nested incl' g g' (r g.name) (hr' g.name g hget) hdec),
            refsIn_set P st.gs hi.2 g.name g g' hget
              (decomposeGlyph_refsP P st.gs hi.2 nested incl' g g' (hi.2 g.name g hget) hdec)⟩
      | error e =>
        right
        obtain ⟨nested, incl', hdec⟩ := hf st g e hs
        obtain ⟨b, rfl, hb, hP⟩ := decomposeGlyph_errorP P st.gs rank (hi.1.1 rank hr) hi.2 nested incl' g e
          (hi.2 g.name g hget) hdec
        exact ⟨_, rfl, b, rfl, get?_none_of_names hi.1.2.2 b hb, hP⟩)
    ⟨Keeps.refl hn, hrc⟩
  rcases this with h | ⟨e, he, b, rfl, hb, hP⟩
  · exact Or.inl h
  · exact Or.inr ⟨b, he, hb, hP⟩

/-- the skip stage on an acyclic set: a reduced set whose references avoid the skip list, or `KeyError` at a non-key -/
theorem C01.skipStage_res (skip : List String) (gs : GlyphSet) (rank : String → Nat)
    (hr : Ranked gs rank) (hn : Named gs) (hnd : gs.names.Nodup) :
    (∃ gs1, C01.skipStage skip gs = .ok gs1 ∧ (∀ r, Ranked gs r → Ranked gs1 r) ∧ Named gs1 ∧ gs1.names.Nodup ∧
      RefsIn (fun n => skip.contains n = false) gs1 ∧
      gs1.names = if skip.isEmpty then gs.names else gs.names.filter (fun n => !skip.contains n)) ∨
    (∃ b, C01.skipStage skip gs = .error (.missing b) ∧ gs.get? b = none) := by
  by_cases he : skip.isEmpty = true
  · left
    have e0 : skip = [] := List.isEmpty_iff.mp he
    refine ⟨gs, by unfold C01.skipStage; rw [if_pos he], fun _ h => h, hn, hnd, ?_, by rw [if_pos he]⟩
    intro n g _ k _
    rw [e0]; rfl
  · have hs : C01.skipStage skip gs = (match skipExport skip (fun _ => true) gs with
        | .error e => .error e | .ok st => .ok st.gs) := by unfold C01.skipStage; rw [if_neg he]
    rw [hs, if_neg he]
    rcases runFilter_decomp_res (fun _ => True) (skipExportStep skip) (skipExportStep_isDecomp skip)
      (skipExportStep_fails skip) (fun _ => true) gs rank hr hn hnd (fun _ _ _ _ _ => trivial) with
      ⟨st0, h0, hk, _⟩ | ⟨b, h0, hb, _⟩
    · left
      have hall : ∀ n, C13.NoSkipAt skip st0.gs n := by
        have h0' := h0
        unfold runFilter at h0'
        cases ho : orderedGlyphs gs with
        | error e => rw [ho] at h0'; cases h0'
        | ok order =>
          rw [ho] at h0'
          obtain ⟨_, _, hvis, _, _, hsome⟩ := C13.skipLoop skip order ⟨gs, [], []⟩ st0 h0' hn (fun x hx => (by cases hx))
          intro n g0 hg0
          cases hgn : gs.get? n with
          | none => have := hsome n; rw [hg0] at this; simp only [hgn] at this; cases this
          | some g => exact hvis n (C01.orderedGlyphs_mem gs order ho n g hgn) g0 hg0
      have key : ∀ n g, GlyphSet.get? (st0.gs.filter (fun e => !skip.contains e.1)) n = some g →
          st0.gs.get? n = some g ∧ skip.contains n = false := by
        intro n g h
        unfold GlyphSet.get? at h ⊢
        by_cases hs : skip.contains n = true
        · rw [C01.alookup_filter_skipped skip n hs] at h; cases h
        · rw [C13.alookup_filter skip n (by simpa using hs)] at h; exact ⟨h, by simpa using hs⟩
      have hnames : GlyphSet.names (st0.gs.filter (fun e => !skip.contains e.1)) =
          gs.names.filter (fun n => !skip.contains n) := by rw [C13.names_filter, hk.2.2]
      refine ⟨st0.gs.filter (fun e => !skip.contains e.1), by unfold skipExport; rw [h0],
        fun r hr' => ranked_filter skip st0.gs r (hk.1 r hr'), ?_, ?_, ?_, hnames⟩
      · intro n g h; exact hk.2.1 n g (key n g h).1
      · rw [hnames]; exact hnd.filter _
      · intro n g h k hkm; exact hall n g (key n g h).1 k hkm
    · right
      exact ⟨b, by unfold skipExport; rw [h0], hb⟩

theorem C01.preStage_res (P : String → Prop) (pf : Option C01.Sel) (gs : GlyphSet) (rank : String → Nat)
    (hr : Ranked gs rank) (hn : Named gs) (hnd : gs.names.Nodup) (hrc : RefsIn P gs) :
    (∃ gs2, C01.preStage pf gs = .ok gs2 ∧ Keeps gs gs2 ∧ RefsIn P gs2) ∨
    (∃ b, C01.preStage pf gs = .error (.missing b) ∧ gs.get? b = none ∧ P b) := by
  unfold C01.preStage
  cases pf with
  | none => exact Or.inl ⟨gs, rfl, Keeps.refl hn, hrc⟩
  | some s =>
    dsimp only
    rcases runFilter_decomp_res P decomposeStep decomposeStep_isDecomp decomposeStep_fails s.pred gs rank hr hn hnd hrc with
      ⟨st, h, hk, hc⟩ | ⟨b, h, hb, hP⟩
    · rw [h]; exact Or.inl ⟨st.gs, rfl, hk, hc⟩
    · rw [h]; exact Or.inr ⟨b, rfl, hb, hP⟩

theorem C01.fullStage_res (P : String → Prop) (gs : GlyphSet) (rank : String → Nat)
    (hr : Ranked gs rank) (hn : Named gs) (hnd : gs.names.Nodup) (hrc : RefsIn P gs) :
    (∃ pre, C01.fullStage gs = .ok pre ∧ Keeps gs pre ∧ RefsIn P pre) ∨
    (∃ b, C01.fullStage gs = .error (.geom (.missing b)) ∧ gs.get? b = none ∧ P b) := by
  unfold C01.fullStage
  rcases runFilter_decomp_res P decomposeStep decomposeStep_isDecomp decomposeStep_fails (fun _ => true) gs rank hr hn hnd hrc with
    ⟨st, h, hk, hc⟩ | ⟨b, h, hb, hP⟩
  · rw [h]; exact Or.inl ⟨st.gs, rfl, hk, hc⟩
  · rw [h]; exact Or.inr ⟨b, rfl, hb, hP⟩

/-- **`C01_preprocessF_res`** (errors characterised): on every ACYCLIC glyph set with distinct keys equal to the glyph names -
    closed or not -, for every restriction (or none) and every skip list, `preprocessF` either returns a glyph set (same
    acyclicity witnesses, named, distinct keys, exactly the non-skipped keys) or raises `KeyError b` (`.geom (.missing b)`)
    where `b` is NOT A KEY OF THE SOURCE glyph set - a dangling component reference - and the set is not closed.  There is no
    fuel error, no `recursion`, `cyclic`, `assertion`, and no error of any other kind. -/
theorem C01_preprocessF_res (pf : Option C01.Sel) (skip : List String) (gs : GlyphSet) (rank : String → Nat)
    (hr : Ranked gs rank) (hn : Named gs) (hnd : gs.names.Nodup) :
    (∃ pre, C01.preprocessF pf skip gs = .ok pre ∧ (∀ r, Ranked gs r → Ranked pre r) ∧ Named pre ∧ pre.names.Nodup ∧
      pre.names = if skip.isEmpty then gs.names else gs.names.filter (fun n => !skip.contains n)) ∨
    (∃ b, C01.preprocessF pf skip gs = .error (.geom (.missing b)) ∧ gs.get? b = none ∧ ¬ Closed gs) := by
  have hnc : ∀ e, C01.preprocessF pf skip gs = .error e → ¬ Closed gs := by
    intro e herr hc
    obtain ⟨pre, hok, _⟩ := C01_preprocessF_ok pf skip gs rank ⟨hr, hn, hnd, hc⟩
    rw [hok] at herr; cases herr
  have hmain : (∃ pre, C01.preprocessF pf skip gs = .ok pre ∧ (∀ r, Ranked gs r → Ranked pre r) ∧ Named pre ∧ pre.names.Nodup ∧
      pre.names = if skip.isEmpty then gs.names else gs.names.filter (fun n => !skip.contains n)) ∨
      (∃ b, C01.preprocessF pf skip gs = .error (.geom (.missing b)) ∧ gs.get? b = none) := by
    rw [C01.preprocessF_stages]
    rcases C01.skipStage_res skip gs rank hr hn hnd with ⟨gs1, h1, hr1, hn1, hnd1, hrc1, hnames1⟩ | ⟨b, h1, hb⟩
    · rw [h1]; dsimp only
      -- a non-key of the reduced set that is not on the skip list is a non-key of the source set
      have conv : ∀ b, gs1.get? b = none → skip.contains b = false → gs.get? b = none := by
        intro b hb hs
        cases hg : gs.get? b with
        | none => rfl
        | some g =>
          exfalso
          have hm : b ∈ gs.names := (present_iff_names gs b).mp (by unfold Present; rw [hg]; rfl)
          have hm1 : b ∈ gs1.names := by
            rw [hnames1]; split
            · exact hm
            · exact mem_filter.mpr ⟨hm, by rw [hs]; rfl⟩
          have := (present_iff_names gs1 b).mpr hm1
          unfold Present at this; rw [hb] at this; cases this
      rcases C01.preStage_res _ pf gs1 rank (hr1 rank hr) hn1 hnd1 hrc1 with ⟨gs2, h2, hk2, hrc2⟩ | ⟨b, h2, hb, hP⟩
      · rw [h2]; dsimp only
        rcases C01.fullStage_res _ gs2 rank (hk2.1 rank (hr1 rank hr)) hk2.2.1 (hk2.nodup hnd1) hrc2 with
          ⟨pre, h3, hk3, _⟩ | ⟨b, h3, hb, hP⟩
        · left
          exact ⟨pre, h3, fun r hr' => hk3.1 r (hk2.1 r (hr1 r hr')), hk3.2.1, hk3.nodup (hk2.nodup hnd1),
            by rw [hk3.2.2, hk2.2.2, hnames1]⟩
        · right
          exact ⟨b, h3, conv b (get?_none_of_names hk2.2.2 b hb) hP⟩
      · right
        rw [h2]
        exact ⟨b, rfl, conv b hb hP⟩
    · right
      rw [h1]
      exact ⟨b, rfl, hb⟩
  rcases hmain with h | ⟨b, h, hb⟩
  · exact Or.inl h
  · exact Or.inr ⟨b, h, hb, hnc _ h⟩

/-- on ANY glyph set whatsoever (cyclic, duplicated keys, …) the pipeline's only errors are those of the filter machinery:
    never `unsupported` / `valueError` -/
theorem C01_preprocessF_error_geom (pf : Option C01.Sel) (skip : List String) (gs : GlyphSet) (e : C01.Err)
    (h : C01.preprocessF pf skip gs = .error e) : ∃ ge, e = .geom ge := by
  rw [C01.preprocessF_stages] at h
  cases h1 : C01.skipStage skip gs with
  | error e1 => rw [h1] at h; cases h; exact ⟨_, rfl⟩
  | ok gs1 =>
    rw [h1] at h; dsimp only at h
    cases h2 : C01.preStage pf gs1 with
    | error e2 => rw [h2] at h; cases h; exact ⟨_, rfl⟩
    | ok gs2 =>
      rw [h2] at h; dsimp only at h
      unfold C01.fullStage at h
      cases h3 : runFilter decomposeStep (fun _ => true) gs2 with
      | error e3 => rw [h3] at h; cases h; exact ⟨_, rfl⟩
      | ok st => rw [h3] at h; cases h

/-- any error refutes well-formedness: with distinct keys equal to the glyph names, the set has a dangling reference or no
    acyclicity witness at all -/
theorem C01_preprocessF_error_not_wf (pf : Option C01.Sel) (skip : List String) (gs : GlyphSet) (e : C01.Err)
    (hn : Named gs) (hnd : gs.names.Nodup) (h : C01.preprocessF pf skip gs = .error e) :
    ¬ Closed gs ∨ ¬ ∃ rank, Ranked gs rank := by
  by_cases hc : Closed gs
  · right
    rintro ⟨rank, hr⟩
    obtain ⟨pre, hok, _⟩ := C01_preprocessF_ok pf skip gs rank ⟨hr, hn, hnd, hc⟩
    rw [hok] at h; cases h
  · exact Or.inl hc

end Ufo2ft

namespace Ufo2ft.C01
open Ufo2ft List

/-! ### 2. the headline theorems of `Props/C01Pre.lean` without the `= .ok` hypothesis -/

/-- **`C01_outline_pre_total`**: for every well-formed closed glyph set with non-singular components and EVERY include/exclude
    restriction of the custom `decomposeComponents` pre-filter, the pre-processing returns a glyph set, and for EVERY glyph -
    inside or outside the restriction - the outline compiled from it is exactly the specified one (all components resolved,
    mirrored ones reversed, same contours in the same order, rounded).  No `= .ok` hypothesis, no rank bound. -/
theorem C01_outline_pre_total (tol : Q) (s : Sel) (gs : GlyphSet) (rank : String → Nat)
    (hg : Good gs rank) (hn : Named gs) (hnd : gs.names.Nodup) (hc : Closed gs) :
    ∃ pre, preprocessF (some s) [] gs = .ok pre ∧ WF pre rank ∧ pre.names = gs.names ∧
      ∀ n g, gs.get? n = some g → cffOutline tol pre n = specOutline tol gs g := by
  obtain ⟨pre, h, hw, hnames⟩ := C01_preprocessF_ok (some s) [] gs rank ⟨hg.ranked, hn, hnd, hc⟩
  refine ⟨pre, h, hw, by simpa using hnames, ?_⟩
  intro n g hget
  exact C01_outline_pre tol s gs pre (normRank gs rank) (good_normRank gs rank hg) hn h n g hget (normRank_le gs rank n)

/-- **`C01_outline_pre_holds_total`**: the decidable predicate `holdsOutline` (exact variant) holds of whatever the compiled
    font draws, with any restricted pre-filter; the pre-processed glyph set exists.  (`cffOutline` itself can still reject a
    contour SHAPE the charstring pen does not support - that is no fuel/lookup error and stays a hypothesis, as in
    `C01_outline_skip_total`.) -/
theorem C01_outline_pre_holds_total (tol : Q) (s : Sel) (gs : GlyphSet) (rank : String → Nat)
    (hg : Good gs rank) (hn : Named gs) (hnd : gs.names.Nodup) (hc : Closed gs) :
    ∃ pre, preprocessF (some s) [] gs = .ok pre ∧
      ∀ n g, gs.get? n = some g → ∀ ops, cffOutline tol pre n = .ok ops → holdsOutline true tol gs g ops = true := by
  obtain ⟨pre, h, _, _⟩ := C01_preprocessF_ok (some s) [] gs rank ⟨hg.ranked, hn, hnd, hc⟩
  refine ⟨pre, h, ?_⟩
  intro n g hget ops hops
  exact C01_outline_pre_holds tol s gs pre (normRank gs rank) (good_normRank gs rank hg) hn h n g hget
    (normRank_le gs rank n) ops hops

/-- **`C01_pre_irrelevant_total`**: BOTH pipelines - with the restricted custom pre-filter and without it - return a glyph
    set, and the compiled fonts draw the same commands for every glyph. -/
theorem C01_pre_irrelevant_total (tol : Q) (s : Sel) (gs : GlyphSet) (rank : String → Nat)
    (hg : Good gs rank) (hn : Named gs) (hnd : gs.names.Nodup) (hc : Closed gs) :
    ∃ pre pre0, preprocessF (some s) [] gs = .ok pre ∧ preprocess [] gs = .ok pre0 ∧
      ∀ n g, gs.get? n = some g → cffOutline tol pre n = cffOutline tol pre0 n := by
  obtain ⟨pre, h, _, _⟩ := C01_preprocessF_ok (some s) [] gs rank ⟨hg.ranked, hn, hnd, hc⟩
  obtain ⟨pre0, h0, _, _⟩ := C01_preprocess_ok [] gs rank ⟨hg.ranked, hn, hnd, hc⟩
  refine ⟨pre, pre0, h, h0, ?_⟩
  intro n g hget
  exact C01_pre_irrelevant tol s gs pre pre0 (normRank gs rank) (good_normRank gs rank hg) hn h h0 n g hget
    (normRank_le gs rank n)

/-- **`C01_outline_pre_skip_total`**: a non-empty skip-export list AND a restricted pre-filter: the pre-processed glyph set
    exists, is well-formed and closed, holds exactly the non-skipped keys, and every compiled outline of a remaining glyph
    consists of exactly the specified contours as a multiset. -/
theorem C01_outline_pre_skip_total (tol : Q) (s : Sel) (skip : List String) (hne : skip.isEmpty = false) (gs : GlyphSet)
    (rank : String → Nat) (hg : Good gs rank) (hn : Named gs) (hnd : gs.names.Nodup) (hc : Closed gs) :
    ∃ pre, preprocessF (some s) skip gs = .ok pre ∧ WF pre rank ∧
      pre.names = gs.names.filter (fun n => !skip.contains n) ∧
      ∀ n g, skip.contains n = false → gs.get? n = some g → ∀ ops, cffOutline tol pre n = .ok ops →
        holdsOutline false tol gs g ops = true := by
  obtain ⟨pre, h, hw, hnames⟩ := C01_preprocessF_ok (some s) skip gs rank ⟨hg.ranked, hn, hnd, hc⟩
  refine ⟨pre, h, hw, by rw [hnames, hne]; rfl, ?_⟩
  intro n g hs hget ops hops
  exact C01_outline_pre_skip tol s skip hne gs pre (normRank gs rank) (good_normRank gs rank hg) hn h n g hs hget
    (normRank_le gs rank n) ops hops

/-- without a custom filter the statement is `C01_outline_total` / `C01_outline_skip_total` (`preprocessF none = preprocess`) -/
theorem C01_outline_pre_none_total (tol : Q) (gs : GlyphSet) (rank : String → Nat)
    (hg : Good gs rank) (hn : Named gs) (hnd : gs.names.Nodup) (hc : Closed gs) :
    ∃ pre, preprocessF none [] gs = .ok pre ∧
      ∀ n g, gs.get? n = some g → cffOutline tol pre n = specOutline tol gs g := by
  rw [preprocessF_none]; exact C01_outline_total tol gs rank hg hn hnd hc

/-! from the decidable certificate alone (what the drivers report as `hyp`) -/

theorem C01_outline_pre_total_cert (tol : Q) (s : Sel) (gs : GlyphSet) (h : wfCert gs = true) :
    ∃ pre, preprocessF (some s) [] gs = .ok pre ∧
      ∀ n g, gs.get? n = some g → cffOutline tol pre n = specOutline tol gs g := by
  obtain ⟨hg, hw, _⟩ := wfCert_sound gs h
  obtain ⟨pre, h1, _, _, h2⟩ := C01_outline_pre_total tol s gs _ hg hw.named hw.nodup hw.closed
  exact ⟨pre, h1, h2⟩

theorem C01_pre_irrelevant_total_cert (tol : Q) (s : Sel) (gs : GlyphSet) (h : wfCert gs = true) :
    ∃ pre pre0, preprocessF (some s) [] gs = .ok pre ∧ preprocess [] gs = .ok pre0 ∧
      ∀ n g, gs.get? n = some g → cffOutline tol pre n = cffOutline tol pre0 n := by
  obtain ⟨hg, hw, _⟩ := wfCert_sound gs h
  exact C01_pre_irrelevant_total tol s gs _ hg hw.named hw.nodup hw.closed

theorem C01_outline_pre_skip_total_cert (tol : Q) (s : Sel) (skip : List String) (hne : skip.isEmpty = false) (gs : GlyphSet)
    (h : wfCert gs = true) :
    ∃ pre, preprocessF (some s) skip gs = .ok pre ∧ pre.names = gs.names.filter (fun n => !skip.contains n) ∧
      ∀ n g, skip.contains n = false → gs.get? n = some g → ∀ ops, cffOutline tol pre n = .ok ops →
        holdsOutline false tol gs g ops = true := by
  obtain ⟨hg, hw, _⟩ := wfCert_sound gs h
  obtain ⟨pre, h1, _, h2, h3⟩ := C01_outline_pre_skip_total tol s skip hne gs _ hg hw.named hw.nodup hw.closed
  exact ⟨pre, h1, h2, h3⟩

/-! ### non-vacuity: `TotalEx.tGs` (five glyphs, depth 3, a mirrored component, a mixed glyph), certificate by the kernel -/

open TotalEx in
/-- every restriction, every skip list: the result exists -/
example (pf : Option Sel) (skip : List String) : ∃ pre, preprocessF pf skip tGs = .ok pre ∧ WF pre tRank :=
  let ⟨pre, h, hw, _⟩ := C01_preprocessF_ok pf skip tGs tRank tGs_wf
  ⟨pre, h, hw⟩

open TotalEx in
/-- the pre-filter restricted to `mid` only (`include=["mid"]`): `top`, `other`, `mir` are outside the restriction and still exact -/
example (tol : Q) : ∃ pre, preprocessF (some (.incl ["mid"])) [] tGs = .ok pre ∧
    ∀ n g, tGs.get? n = some g → cffOutline tol pre n = specOutline tol tGs g :=
  C01_outline_pre_total_cert tol _ tGs tGs_cert

open TotalEx in
example (tol : Q) : ∃ pre pre0, preprocessF (some (.excl ["top", "base"])) [] tGs = .ok pre ∧ preprocess [] tGs = .ok pre0 ∧
    ∀ n g, tGs.get? n = some g → cffOutline tol pre n = cffOutline tol pre0 n :=
  C01_pre_irrelevant_total_cert tol _ tGs tGs_cert

open TotalEx in
/-- skip list `["mir"]` and `exclude=["other"]`: four glyphs remain -/
example (tol : Q) : ∃ pre, preprocessF (some (.excl ["other"])) ["mir"] tGs = .ok pre ∧
    pre.names = ["top", "other", "mid", "base"] ∧
    ∀ n g, ["mir"].contains n = false → tGs.get? n = some g → ∀ ops, cffOutline tol pre n = .ok ops →
      holdsOutline false tol tGs g ops = true := by
  obtain ⟨pre, h, hn, hall⟩ := C01_outline_pre_skip_total_cert tol (.excl ["other"]) ["mir"] rfl tGs tGs_cert
  exact ⟨pre, h, by rw [hn]; decide, hall⟩

/-! ### 4. the remaining hypothesis `cffOutline … = .ok ops`, moved from the MODEL to the SPECIFICATION

`cffOutline` can fail although the pre-processing succeeded: the charstring pen rejects some contour shapes (`toSegments`).
With a skip list the compiled contours are a permutation of the specified ones, so the model's outline is rejected exactly
when the specified outline is: the `= .ok` hypothesis of `C01_outline_pre_skip` is a condition on the input, not on the model. -/

/-- the contours of a remaining glyph after `preprocessF` with a non-empty skip list: a permutation of the specified ones -/
theorem C01_pre_skip_contours (s : Sel) (skip : List String) (hne : skip.isEmpty = false) (gs pre : GlyphSet)
    (rank : String → Nat) (hg : Good gs rank) (hn : Named gs) (h : preprocessF (some s) skip gs = .ok pre)
    (n : String) (g : Glyph) (hs : skip.contains n = false) (hget : gs.get? n = some g) (hb : rank n ≤ gs.length) :
    ∃ g', pre.get? n = some g' ∧ g'.comps = [] ∧ (g'.contours).Perm (renderGlyph gs g) := by
  unfold preprocessF at h
  rw [hne] at h
  simp only [Bool.false_eq_true, if_false] at h
  cases h1 : skipExport skip (fun _ => true) gs with
  | error e => rw [h1] at h; cases h
  | ok st1 =>
    rw [h1] at h
    dsimp only at h
    cases hP : runFilter decomposeStep s.pred st1.gs with
    | error e => rw [hP] at h; cases h
    | ok stP =>
    rw [hP] at h
    dsimp only at h
    cases h2 : runFilter decomposeStep (fun _ => true) stP.gs with
    | error e => rw [h2] at h; cases h
    | ok st2 =>
      rw [h2] at h
      have := Except.ok.inj h; subst this
      obtain ⟨_, hrender⟩ := C13.C13_render skip gs st1 rank hg hn h1
      obtain ⟨g1, hg1, _, _, _, _, hperm⟩ := hrender n g hs hget
      have hgood1 : Good st1.gs rank ∧ Named st1.gs := by
        unfold skipExport at h1
        cases hr : runFilter (skipExportStep skip) (fun _ => true) gs with
        | error e => rw [hr] at h1; cases h1
        | ok st0 =>
          rw [hr] at h1
          have := Except.ok.inj h1; subst this
          have hs0 := runFilter_sameRender (skipExportStep skip) rank
            (stepOK_of_isDecomp rank _ (skipExportStep_isDecomp skip)) (fun _ => true) gs st0 hr hg hn
          exact good_filter skip st0.gs rank hs0.1 hs0.2.1
      obtain ⟨hgP, hnP, hsP⟩ := runFilter_partial rank s.pred st1.gs stP hP hgood1.1 hgood1.2
      obtain ⟨hsomeP, heqP⟩ := hsP n
      cases hpP : stP.gs.get? n with
      | none => rw [hpP, hg1] at hsomeP; cases hsomeP
      | some gP =>
      unfold runFilter at h2
      cases ho : orderedGlyphs stP.gs with
      | error e => rw [ho] at h2; cases h2
      | ok order =>
        rw [ho] at h2
        obtain ⟨_, _, hsame, _, hflat, _⟩ := fullLoop rank order ⟨stP.gs, [], []⟩ st2 h2 hgP hnP
          (fun x hx => (by cases hx))
        obtain ⟨hsome, heq⟩ := hsame n
        have hmem := orderedGlyphs_mem stP.gs order ho n gP hpP
        cases hp : st2.gs.get? n with
        | none => rw [hp, hpP] at hsome; cases hsome
        | some g' =>
          have hc : g'.comps = [] := hflat n hmem g' hp
          have hid : Affine.id.det ≠ 0 := by simp only [Affine.id, Affine.det]; grind
          have e := heq g' gP hp hpP Affine.id (gs.length + 2) hid (by omega)
          have eP := heqP gP g1 hpP hg1 Affine.id (gs.length + 2) hid (by omega)
          have p := hperm Affine.id (gs.length + 2) hid (by omega)
          have hcont : g'.contours = render (gs.length + 2) st2.gs Affine.id g' := by
            rw [render_succ, hc, drawContours_id]; simp
          exact ⟨g', rfl, hc, by rw [hcont, e, eP]; exact p⟩

/-- **`C01_outline_pre_skip_total_iff`**: skip list AND restricted pre-filter, on every well-formed closed glyph set: the
    pre-processed set exists; every remaining glyph is in it, flat, with a permutation of the specified contours; the
    charstring pen accepts its outline EXACTLY WHEN it accepts the specified outline; and then `holdsOutline` holds.
    No hypothesis about any output of the model is left. -/
theorem C01_outline_pre_skip_total_iff (tol : Q) (s : Sel) (skip : List String) (hne : skip.isEmpty = false) (gs : GlyphSet)
    (rank : String → Nat) (hg : Good gs rank) (hn : Named gs) (hnd : gs.names.Nodup) (hc : Closed gs) :
    ∃ pre, preprocessF (some s) skip gs = .ok pre ∧
      ∀ n g, skip.contains n = false → gs.get? n = some g →
        (∃ g', pre.get? n = some g' ∧ g'.comps = [] ∧ (g'.contours).Perm (renderGlyph gs g)) ∧
        ((∃ ops, cffOutline tol pre n = .ok ops) ↔ ∃ sops, specOutline tol gs g = .ok sops) ∧
        ∀ ops, cffOutline tol pre n = .ok ops → holdsOutline false tol gs g ops = true := by
  obtain ⟨pre, h, _, _, hall⟩ := C01_outline_pre_skip_total tol s skip hne gs rank hg hn hnd hc
  refine ⟨pre, h, ?_⟩
  intro n g hs hget
  obtain ⟨g', hp, hc', hperm⟩ := C01_pre_skip_contours s skip hne gs pre (normRank gs rank) (good_normRank gs rank hg) hn h
    n g hs hget (normRank_le gs rank n)
  refine ⟨⟨g', hp, hc', hperm⟩, ?_, hall n g hs hget⟩
  have hcff : cffOutline tol pre n = contoursOps tol g'.contours := by unfold cffOutline; rw [hp]
  rw [hcff]
  unfold specOutline
  rw [contoursOps_ok_iff, contoursOps_ok_iff]
  exact ⟨fun h c hc => h c (hperm.mem_iff.mpr hc), fun h c hc => h c (hperm.mem_iff.mp hc)⟩

/-- the same from the specification side: whenever the SPECIFIED outline of a remaining glyph is drawable, the model's
    outline exists and `holdsOutline` holds of it -/
theorem C01_outline_pre_skip_total_spec (tol : Q) (s : Sel) (skip : List String) (hne : skip.isEmpty = false) (gs : GlyphSet)
    (rank : String → Nat) (hg : Good gs rank) (hn : Named gs) (hnd : gs.names.Nodup) (hc : Closed gs) :
    ∃ pre, preprocessF (some s) skip gs = .ok pre ∧
      ∀ n g sops, skip.contains n = false → gs.get? n = some g → specOutline tol gs g = .ok sops →
        ∃ ops, cffOutline tol pre n = .ok ops ∧ holdsOutline false tol gs g ops = true := by
  obtain ⟨pre, h, hall⟩ := C01_outline_pre_skip_total_iff tol s skip hne gs rank hg hn hnd hc
  refine ⟨pre, h, ?_⟩
  intro n g sops hs hget hspec
  obtain ⟨_, hiff, hh⟩ := hall n g hs hget
  obtain ⟨ops, hops⟩ := hiff.mpr ⟨sops, hspec⟩
  exact ⟨ops, hops, hh ops hops⟩

/-- exact variant (no skip list): whenever the specified outline is drawable, the model's outline IS it and `holdsOutline`
    (ordered) holds -/
theorem C01_outline_pre_holds_total_spec (tol : Q) (s : Sel) (gs : GlyphSet) (rank : String → Nat)
    (hg : Good gs rank) (hn : Named gs) (hnd : gs.names.Nodup) (hc : Closed gs) :
    ∃ pre, preprocessF (some s) [] gs = .ok pre ∧
      ∀ n g sops, gs.get? n = some g → specOutline tol gs g = .ok sops →
        cffOutline tol pre n = .ok sops ∧ holdsOutline true tol gs g sops = true := by
  obtain ⟨pre, h, _, _, hall⟩ := C01_outline_pre_total tol s gs rank hg hn hnd hc
  obtain ⟨pre', h', hh⟩ := C01_outline_pre_holds_total tol s gs rank hg hn hnd hc
  rw [h] at h'
  have e := Except.ok.inj h'
  subst e
  refine ⟨pre, h, ?_⟩
  intro n g sops hget hspec
  have hc1 : cffOutline tol pre n = .ok sops := by rw [hall n g hget]; exact hspec
  exact ⟨hc1, hh n g hget sops hc1⟩

/-! non-vacuity: on `TotalEx.tGs` with skip list `["mir"]` and `exclude=["other"]` the specified outline of `base` (a triangle)
IS drawable - the pen's verdict is evaluated by the kernel -, so the model's outline of `base` exists and satisfies the predicate -/

theorem tri_ok : (toSegments TotalEx.tri).isOk = true := by decide +kernel

open TotalEx in
theorem tBase_spec (tol : Q) : ∃ sops, specOutline tol tGs tBase = .ok sops := by
  unfold specOutline
  rw [contoursOps_ok_iff]
  have hr : renderGlyph tGs tBase = [tri] := by
    unfold renderGlyph
    rw [render_succ, drawContours_id]
    simp [tBase]
  rw [hr]
  intro c hc
  simp only [mem_singleton] at hc
  subst hc
  cases h : toSegments tri with
  | ok ops => exact ⟨ops, rfl⟩
  | error e => have := tri_ok; rw [h] at this; cases this

open TotalEx in
example (tol : Q) : ∃ pre ops, preprocessF (some (.excl ["other"])) ["mir"] tGs = .ok pre ∧
    cffOutline tol pre "base" = .ok ops ∧ holdsOutline false tol tGs tBase ops = true := by
  obtain ⟨pre, h, hall⟩ := C01_outline_pre_skip_total_spec tol (.excl ["other"]) ["mir"] rfl tGs tRank tGs_good
    tGs_wf.named tGs_wf.nodup tGs_wf.closed
  obtain ⟨sops, hspec⟩ := tBase_spec tol
  obtain ⟨ops, h1, h2⟩ := hall "base" tBase sops (by decide) rfl hspec
  exact ⟨pre, ops, h, h1, h2⟩

open TotalEx in
example (tol : Q) : ∃ pre sops, preprocessF (some (.incl ["mid"])) [] tGs = .ok pre ∧
    cffOutline tol pre "base" = .ok sops ∧ holdsOutline true tol tGs tBase sops = true := by
  obtain ⟨pre, h, hall⟩ := C01_outline_pre_holds_total_spec tol (.incl ["mid"]) tGs tRank tGs_good
    tGs_wf.named tGs_wf.nodup tGs_wf.closed
  obtain ⟨sops, hspec⟩ := tBase_spec tol
  obtain ⟨h1, h2⟩ := hall "base" tBase sops rfl hspec
  exact ⟨pre, sops, h, h1, h2⟩

/-! ### non-vacuity of the error characterisation -/

/-- a non-closed acyclic set: `a` refers to `nope`, which is no key -/
def dGs : GlyphSet := [("a", ⟨"a", 500, 0, [], [⟨"nope", Affine.id⟩], []⟩), ("b", ⟨"b", 500, 0, [TotalEx.tri], [], []⟩)]

theorem dGs_get (n : String) (g : Glyph) (h : dGs.get? n = some g) :
    (n = "a" ∧ g = ⟨"a", 500, 0, [], [⟨"nope", Affine.id⟩], []⟩) ∨ (n = "b" ∧ g = ⟨"b", 500, 0, [TotalEx.tri], [], []⟩) := by
  simp only [dGs, GlyphSet.get?, alookup] at h
  by_cases h1 : ("a" == n) = true
  · rw [if_pos h1] at h; left; exact ⟨(by simpa using h1 : "a" = n).symm, (Option.some.inj h).symm⟩
  · rw [if_neg h1] at h
    by_cases h2 : ("b" == n) = true
    · rw [if_pos h2] at h; right; exact ⟨(by simpa using h2 : "b" = n).symm, (Option.some.inj h).symm⟩
    · rw [if_neg h2] at h; cases h

theorem dGs_hyps : Ranked dGs (fun n => if n = "a" then 1 else 0) ∧ Named dGs ∧ dGs.names.Nodup ∧ ¬ Closed dGs := by
  refine ⟨?_, ?_, by decide, ?_⟩
  · intro n g h k hk
    rcases dGs_get n g h with ⟨rfl, rfl⟩ | ⟨rfl, rfl⟩
    · simp only [mem_singleton] at hk; subst hk; decide
    · cases hk
  · intro n g h
    rcases dGs_get n g h with ⟨rfl, rfl⟩ | ⟨rfl, rfl⟩ <;> rfl
  · intro hc
    have := hc "a" _ rfl ⟨"nope", Affine.id⟩ mem_cons_self
    simp [Present, dGs, GlyphSet.get?, alookup] at this

example (pf : Option Sel) (skip : List String) :
    (∃ pre, preprocessF pf skip dGs = .ok pre) ∨
    (∃ b, preprocessF pf skip dGs = .error (.geom (.missing b)) ∧ dGs.get? b = none) := by
  rcases C01_preprocessF_res pf skip dGs _ dGs_hyps.1 dGs_hyps.2.1 dGs_hyps.2.2.1 with ⟨pre, h, _⟩ | ⟨b, h, hb, _⟩
  · exact Or.inl ⟨pre, h⟩
  · exact Or.inr ⟨b, h, hb⟩

theorem dGs_order : orderedGlyphs dGs = .ok ["a", "b"] := by
  have hs : ([("a", 1), ("b", 0)] : List (String × Nat)).mergeSort (fun a b => decide (b.2 ≤ a.2)) = [("a", 1), ("b", 0)] :=
    List.mergeSort_of_pairwise (by simp)
  simp [orderedGlyphs, depthsOf, maxComponentDepth, depthGlyph, depthComps, dGs, GlyphSet.get?, alookup]
  rw [hs]; rfl

/-- the error does occur, at the first stage that visits `a` (here: the default filter - `include=[]` visits nothing), and
    it is the one `C01_preprocessF_res` allows: `KeyError` at a name that is no key -/
theorem dGs_error : preprocessF (some (.incl [])) [] dGs = .error (.geom (.missing "nope")) ∧ dGs.get? "nope" = none := by
  have h1 : runFilter decomposeStep (Sel.incl []).pred dGs = .ok ⟨dGs, [], []⟩ := by
    unfold runFilter; rw [dGs_order]; simp [filterLoop, dGs, GlyphSet.get?, alookup, Sel.pred]
  have h2 : runFilter decomposeStep (fun _ => true) dGs = .error (.missing "nope") := by
    unfold runFilter; rw [dGs_order]
    simp [filterLoop, dGs, GlyphSet.get?, alookup, decomposeStep, decomposeGlyph, addComps, addComp, isIncluded]
  refine ⟨?_, by decide⟩
  unfold preprocessF
  simp only [List.isEmpty_nil, if_true]
  rw [h1]; dsimp only; rw [h2]

example : ∃ ge, Err.geom (.missing "nope") = .geom ge := C01_preprocessF_error_geom _ _ dGs _ dGs_error.1
example : ¬ Closed dGs ∨ ¬ ∃ rank, Ranked dGs rank :=
  C01_preprocessF_error_not_wf _ _ dGs _ dGs_hyps.2.1 dGs_hyps.2.2.1 dGs_error.1

end Ufo2ft.C01
