import Ufo2ftModel.Props.C13
import Ufo2ftModel.Props.C13VFPen
/-!
C13 (variable fonts), part 4: the *static* heart, order-free.  In ONE glyph set `G` (think: the family instantiated at a
location), replace every non-skipped glyph by its decomposition with include = skip list (all references to skipped
glyphs, at any depth through skipped glyphs, inlined) and drop the skipped glyphs: every remaining glyph draws what it drew.
-/
namespace Ufo2ft.C13
open Ufo2ft List

/-- the glyph `g` with what the pen emitted for its components -/
def withDrawn (g : Glyph) (d : Drawn) : Glyph := { g with contours := g.contours ++ d.contours, comps := d.comps }

/-- `G'` is `G` with every skipped glyph removed and every other glyph decomposed against the skip list -/
structure SkippedSet (skip : List String) (G G' : GlyphSet) : Prop where
  gone : ∀ n, skip.contains n = true → G'.get? n = none
  none : ∀ n, G.get? n = none → G'.get? n = none
  dec : ∀ n g, skip.contains n = false → G.get? n = some g →
    ∃ fuel d, addComps fuel G true false (some skip) Affine.id g.comps = .ok d ∧ G'.get? n = some (withDrawn g d)

theorem renderOne_none (f : Nat) (gs : GlyphSet) (S : Affine) (k : Comp) (h : gs.get? k.base = none) :
    renderOne f gs S k = [] := by
  simp only [renderOne, h]

theorem render_skippedSet (skip : List String) (G G' : GlyphSet) (rank : String → Nat) (hG : Good G rank)
    (hrel : SkippedSet skip G G') :
    ∀ (r : Nat) (n : String) (g g' : Glyph), rank n = r → skip.contains n = false → G.get? n = some g →
      G'.get? n = some g' → ∀ S f, S.det ≠ 0 → rank n < f → (render f G' S g').Perm (render f G S g) := by
  intro r
  induction r using Nat.strongRecOn with
  | _ r ih =>
    intro n g g' hr hsk hg hg' S f hS hf
    obtain ⟨fuel, d, hd, hget'⟩ := hrel.dec n g hsk hg
    rw [hg'] at hget'
    have := Option.some.inj hget'; subst this
    obtain ⟨f', rfl⟩ : ∃ x, f = x + 1 := ⟨f - 1, by omega⟩
    have hid : Affine.id.det ≠ 0 := by simp only [Affine.id, Affine.det]; grind
    have hrk : ∀ k ∈ g.comps, rank k.base < f' := by
      intro k hk; have := hG.ranked n g hg k hk; omega
    -- Theorem A: the decomposed glyph draws, in `G`, what the glyph drew
    have pA := (pen_render G rank hG false fuel).2 (some skip) Affine.id g.comps d hd hid (hG.nonsing n g hg) S f' hS hrk
    have hA : (render (f' + 1) G S (withDrawn g d)).Perm (render (f' + 1) G S g) := by
      simp only [render_succ, withDrawn, drawContours_append, List.append_assoc]
      refine Perm.append_left _ (pA.trans (Perm.of_eq ?_))
      apply flatMap_congr'
      intro k _
      simp [renderOne, Affine.id_compose]
    refine Perm.trans ?_ hA
    -- and its remaining components draw in `G'` what they draw in `G`
    rw [render_succ, render_succ]
    refine Perm.append_left _ (perm_flatMap_left ?_)
    intro k hk
    have hk' : k ∈ d.comps := hk
    have hnsk : skip.contains k.base = false := (pen_pass G skip fuel).2 Affine.id g.comps d hd k hk'
    obtain ⟨k0, hk0, hle⟩ := (pen_rank G rank hG.ranked false fuel).2 (some skip) Affine.id g.comps d hd k hk'
    have hlt : rank k.base < rank n := by have := hG.ranked n g hg k0 hk0; omega
    cases hb : G.get? k.base with
    | none => rw [renderOne_none _ _ _ _ hb, renderOne_none _ _ _ _ (hrel.none _ hb)]
    | some b =>
      obtain ⟨fb, db, _, hb'⟩ := hrel.dec k.base b hnsk hb
      simp only [renderOne, hb, hb']
      have hkdet : k.t.det ≠ 0 :=
        ((pen_keep G rank hG false fuel).2 (some skip) Affine.id g.comps d hd hid (hG.nonsing n g hg)).1 k hk'
      exact ih (rank k.base) (by omega) k.base b _ rfl hnsk hb hb' (S.compose k.t) f' (det_compose_ne hS hkdet) (by omega)

/-! ### the default fuel suffices: counting instead of ranking -/

/-- acyclicity counted on the components whose base exists -/
def RankedP (gs : GlyphSet) (rank : String → Nat) : Prop :=
  ∀ n g, gs.get? n = some g → ∀ k ∈ g.comps, (gs.get? k.base).isSome = true → rank k.base < rank n

theorem render_fuelP (gs : GlyphSet) (rank : String → Nat) (hr : RankedP gs rank) :
    ∀ (r : Nat) (g : Glyph) (t : Affine) (f1 f2 : Nat),
      (∀ k ∈ g.comps, (gs.get? k.base).isSome = true → rank k.base < r) → r < f1 → r < f2 →
      render f1 gs t g = render f2 gs t g := by
  intro r
  induction r using Nat.strongRecOn with
  | _ r ih =>
    intro g t f1 f2 hb h1 h2
    obtain ⟨f1', rfl⟩ : ∃ x, f1 = x + 1 := ⟨f1 - 1, by omega⟩
    obtain ⟨f2', rfl⟩ : ∃ x, f2 = x + 1 := ⟨f2 - 1, by omega⟩
    rw [render_succ, render_succ]
    congr 1
    apply flatMap_congr'
    intro k hk
    unfold renderOne
    cases hbase : gs.get? k.base with
    | none => rfl
    | some b =>
      have hlt := hb k hk (by rw [hbase]; rfl)
      exact ih (rank k.base) hlt b _ f1' f2' (hr k.base b hbase) (by omega) (by omega)

theorem length_filter_lt {α} (p q : α → Bool) (hpq : ∀ x, p x = true → q x = true) :
    ∀ (l : List α) (a : α), a ∈ l → q a = true → p a = false → (l.filter p).length < (l.filter q).length := by
  intro l
  induction l with
  | nil => intro a ha; cases ha
  | cons x l ih =>
    intro a ha hqa hpa
    have hle : (l.filter p).length ≤ (l.filter q).length := by
      clear ih ha
      induction l with
      | nil => exact Nat.le_refl _
      | cons y l ih2 =>
        simp only [filter_cons]
        by_cases hpy : p y = true
        · rw [if_pos hpy, if_pos (hpq y hpy)]; simp only [length_cons]; omega
        · rw [if_neg hpy]
          split
          · simp only [length_cons]; omega
          · exact ih2
    simp only [filter_cons]
    rcases mem_cons.mp ha with rfl | ha
    · rw [if_pos hqa, if_neg (by rw [hpa]; simp)]
      simp only [length_cons]; omega
    · have := ih a ha hqa hpa
      by_cases hpx : p x = true
      · rw [if_pos hpx, if_pos (hpq x hpx)]; simp only [length_cons]; omega
      · rw [if_neg hpx]
        split
        · simp only [length_cons]; omega
        · exact this

/-- number of glyphs of the set ranked below `n`: an acyclicity witness bounded by the size of the set -/
def countRank (gs : GlyphSet) (rank : String → Nat) (n : String) : Nat :=
  (gs.filter (fun e => decide (rank e.1 < rank n))).length

theorem countRank_le (gs : GlyphSet) (rank : String → Nat) (n : String) : countRank gs rank n ≤ gs.length :=
  List.length_filter_le _ _

theorem rankedP_count (gs : GlyphSet) (rank : String → Nat) (hr : RankedP gs rank) : RankedP gs (countRank gs rank) := by
  intro n g hg k hk hs
  obtain ⟨b, hb⟩ := Option.isSome_iff_exists.mp hs
  have hlt := hr n g hg k hk hs
  unfold countRank
  apply length_filter_lt _ _ _ gs (k.base, b) (alookup_mem hb)
  · simp only [decide_eq_true_eq]; exact hlt
  · simp only [decide_eq_false_iff_not]; omega
  · intro x hx
    simp only [decide_eq_true_eq] at hx ⊢
    omega

/-- the default fuel `|gs| + 2` is as good as any larger one -/
theorem render_fuel_len (gs : GlyphSet) (rank : String → Nat) (hr : RankedP gs rank) (n : String) (g : Glyph)
    (hg : gs.get? n = some g) (t : Affine) (f1 f2 : Nat) (h1 : gs.length < f1) (h2 : gs.length < f2) :
    render f1 gs t g = render f2 gs t g := by
  have hc := rankedP_count gs rank hr
  have hb := countRank_le gs rank n
  exact render_fuelP gs _ hc (countRank gs rank n) g t f1 f2 (hc n g hg) (by omega) (by omega)


end Ufo2ft.C13
