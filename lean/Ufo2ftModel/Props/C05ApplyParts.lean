import Ufo2ftModel.Spec.C05Apply
import Ufo2ftModel.Props.C05Ufo
import Ufo2ftModel.Props.C05Split
import Ufo2ftModel.Props.C05Part
/-! C05 end-to-end, layer C2: from a generated pair to its parts (base/mark splitting) to its direction cells — soundness,
    cover, uniqueness ("at most one part / one cell of a pair contains a given glyph pair") and coherence ("two sides that share
    a glyph and descend from the same kerning group are the same class") of each step. -/
namespace Ufo2ft.C05
open Ufo2ft List

/-! ### Bool / Prop forms of "contains the glyph pair" -/

theorem hits_iff (p : KPair) (g1 g2 : String) : p.hits g1 g2 = true ↔ Matches p g1 g2 := by
  simp [KPair.hits, Matches]

theorem hits_eq_decide (p : KPair) (g1 g2 : String) : p.hits g1 g2 = decide (Matches p g1 g2) := by
  by_cases h : Matches p g1 g2
  · simp [h, (hits_iff p g1 g2).mpr h]
  · have : p.hits g1 g2 = false := by
      cases hh : p.hits g1 g2 with
      | false => rfl
      | true => exact absurd ((hits_iff p g1 g2).mp hh) h
    simp [h, this]

theorem detPair_eq (gs : List String) (groups : List (String × List String)) (kerning : List (String × String × Q)) (q : Q)
    (g1 g2 : String) : detPair gs groups kerning q g1 g2 = kernApplied gs groups kerning q g1 g2 := by
  unfold detPair kernApplied firstMatch
  congr 1
  funext p
  exact hits_eq_decide p g1 g2

/-! ### the generated pairs: where their sides come from -/

/-- a side of a generated pair is a glyph of the font or the kept members of one kerning group of that side -/
theorem pair_sides (gs : List String) (groups : List (String × List String)) (kerning : List (String × String × Q)) (q : Q)
    (w : WF gs groups kerning) (p : KPair) (hp : p ∈ getKerningPairs gs (getKerningGroups gs groups) q kerning) :
    ((∃ s, p.side1 = .glyph s ∧ s ∈ gs) ∨ (∃ e ∈ groups, is1 e.1 = true ∧ p.side1 = .cls (sortStr (kept gs e)))) ∧
    ((∃ s, p.side2 = .glyph s ∧ s ∈ gs) ∨ (∃ e ∈ groups, is2 e.1 = true ∧ p.side2 = .cls (sortStr (kept gs e)))) := by
  rw [getKerningPairs_eq, mem_filterMap] at hp
  obtain ⟨⟨s1, s2, v⟩, _, hpo⟩ := hp
  unfold pairOf at hpo
  dsimp only at hpo
  split at hpo
  · cases hpo
  · rename_i h1
    split at hpo
    · cases hpo
    · rename_i h2
      split at hpo
      · cases hpo
      · simp only [Option.some.injEq] at hpo
        subst hpo
        dsimp only
        constructor
        · cases hc : alookup s1 (getKerningGroups gs groups).side1 with
          | none =>
            left
            rw [hc] at h1
            simp only [Option.isNone_none, Bool.true_and, Bool.not_eq_true', Bool.not_eq_false] at h1
            exact ⟨s1, rfl, by simpa using h1⟩
          | some c1 =>
            right
            obtain ⟨e, he, _, hi, rfl⟩ := side1_some gs groups kerning w s1 c1 hc
            exact ⟨e, he, by rw [‹e.1 = s1›]; exact hi, rfl⟩
        · cases hc : alookup s2 (getKerningGroups gs groups).side2 with
          | none =>
            left
            rw [hc] at h2
            simp only [Option.isNone_none, Bool.true_and, Bool.not_eq_true', Bool.not_eq_false] at h2
            exact ⟨s2, rfl, by simpa using h2⟩
          | some c2 =>
            right
            obtain ⟨e, he, _, hi, rfl⟩ := side2_some gs groups kerning w s2 c2 hc
            exact ⟨e, he, by rw [‹e.1 = s2›]; exact hi, rfl⟩

/-- all glyphs of a generated pair are glyphs of the font -/
theorem pair_glyphs_in (gs : List String) (groups : List (String × List String)) (kerning : List (String × String × Q)) (q : Q)
    (w : WF gs groups kerning) (p : KPair) (hp : p ∈ getKerningPairs gs (getKerningGroups gs groups) q kerning) :
    (∀ x ∈ p.side1.glyphs, x ∈ gs) ∧ (∀ x ∈ p.side2.glyphs, x ∈ gs) := by
  obtain ⟨h1, h2⟩ := pair_sides gs groups kerning q w p hp
  constructor
  · intro x hx
    rcases h1 with ⟨s, hs, hg⟩ | ⟨e, _, _, hs⟩
    · rw [hs] at hx; simp only [Side.glyphs, mem_singleton] at hx; rw [hx]; exact hg
    · rw [hs] at hx; simp only [Side.glyphs, mem_sortStr, mem_kept] at hx; exact hx.2
  · intro x hx
    rcases h2 with ⟨s, hs, hg⟩ | ⟨e, _, _, hs⟩
    · rw [hs] at hx; simp only [Side.glyphs, mem_singleton] at hx; rw [hx]; exact hg
    · rw [hs] at hx; simp only [Side.glyphs, mem_sortStr, mem_kept] at hx; exact hx.2

/-- valid groups: two generated pairs whose first sides are of the same kind and share a glyph have the same first side -/
theorem pair_side1_coherent (gs : List String) (groups : List (String × List String)) (kerning : List (String × String × Q)) (q : Q)
    (w : WF gs groups kerning) (p p' : KPair) (hp : p ∈ getKerningPairs gs (getKerningGroups gs groups) q kerning)
    (hp' : p' ∈ getKerningPairs gs (getKerningGroups gs groups) q kerning) (hk : p.side1.isClass = p'.side1.isClass)
    (x : String) (hx : x ∈ p.side1.glyphs) (hx' : x ∈ p'.side1.glyphs) : p.side1 = p'.side1 := by
  obtain ⟨h1, _⟩ := pair_sides gs groups kerning q w p hp
  obtain ⟨h1', _⟩ := pair_sides gs groups kerning q w p' hp'
  rcases h1 with ⟨s, hs, _⟩ | ⟨e, he, hi, hs⟩ <;> rcases h1' with ⟨s', hs', _⟩ | ⟨e', he', hi', hs'⟩
  · rw [hs] at hx; rw [hs'] at hx'
    simp only [Side.glyphs, mem_singleton] at hx hx'
    rw [hs, hs', ← hx, ← hx']
  · rw [hs, hs'] at hk; cases hk
  · rw [hs, hs'] at hk; cases hk
  · rw [hs] at hx; rw [hs'] at hx'
    simp only [Side.glyphs, mem_sortStr, mem_kept] at hx hx'
    have : e = e' := flatMap_nodup_unique (·.2) _ w.d1 e e' x (mem_filter.mpr ⟨he, hi⟩) (mem_filter.mpr ⟨he', hi'⟩) hx.1 hx'.1
    rw [hs, hs', this]

theorem pair_side2_coherent (gs : List String) (groups : List (String × List String)) (kerning : List (String × String × Q)) (q : Q)
    (w : WF gs groups kerning) (p p' : KPair) (hp : p ∈ getKerningPairs gs (getKerningGroups gs groups) q kerning)
    (hp' : p' ∈ getKerningPairs gs (getKerningGroups gs groups) q kerning) (hk : p.side2.isClass = p'.side2.isClass)
    (x : String) (hx : x ∈ p.side2.glyphs) (hx' : x ∈ p'.side2.glyphs) : p.side2 = p'.side2 := by
  obtain ⟨_, h1⟩ := pair_sides gs groups kerning q w p hp
  obtain ⟨_, h1'⟩ := pair_sides gs groups kerning q w p' hp'
  rcases h1 with ⟨s, hs, _⟩ | ⟨e, he, hi, hs⟩ <;> rcases h1' with ⟨s', hs', _⟩ | ⟨e', he', hi', hs'⟩
  · rw [hs] at hx; rw [hs'] at hx'
    simp only [Side.glyphs, mem_singleton] at hx hx'
    rw [hs, hs', ← hx, ← hx']
  · rw [hs, hs'] at hk; cases hk
  · rw [hs, hs'] at hk; cases hk
  · rw [hs] at hx; rw [hs'] at hx'
    simp only [Side.glyphs, mem_sortStr, mem_kept] at hx hx'
    have : e = e' := flatMap_nodup_unique (·.2) _ w.d2 e e' x (mem_filter.mpr ⟨he, hi⟩) (mem_filter.mpr ⟨he', hi'⟩) hx.1 hx'.1
    rw [hs, hs', this]

/-- well-formed kerning: at most one generated pair of each specificity contains a given glyph pair -/
theorem pair_unique (gs : List String) (groups : List (String × List String)) (kerning : List (String × String × Q)) (q : Q)
    (w : WF gs groups kerning) (p p' : KPair) (hp : p ∈ getKerningPairs gs (getKerningGroups gs groups) q kerning)
    (hp' : p' ∈ getKerningPairs gs (getKerningGroups gs groups) q kerning) (g1 g2 : String)
    (hm : Matches p g1 g2) (hm' : Matches p' g1 g2)
    (hk1 : p.side1.isClass = p'.side1.isClass) (hk2 : p.side2.isClass = p'.side2.isClass) : p = p' := by
  have s1 := pair_side1_coherent gs groups kerning q w p p' hp hp' hk1 g1 hm.1 hm'.1
  have s2 := pair_side2_coherent gs groups kerning q w p p' hp hp' hk2 g2 hm.2 hm'.2
  obtain ⟨v, hv, hpv, _⟩ := pair_sound gs groups kerning q w g1 g2 p hp hm
  obtain ⟨v', hv', hpv', _⟩ := pair_sound gs groups kerning q w g1 g2 p' hp' hm'
  rw [hk1, hk2, hv'] at hv
  simp only [Option.some.injEq] at hv
  have hval : p.value = p'.value := by rw [hpv, hpv', hv]
  cases p; cases p'
  simp only at s1 s2 hval
  rw [s1, s2, hval]

/-! ### base / mark splitting as one of three ways to cut a pair into parts -/

inductive Mode
  | whole (flag : Bool)
  | base (ms : List String)
  | mark (ms : List String)

def Mode.σ : Mode → KPair → List KPair
  | .whole _ => fun p => [p]
  | .base ms => basePart ms
  | .mark ms => markPart ms

def Mode.flag : Mode → Bool
  | .whole f => f
  | .base _ => true
  | .mark _ => false

def Mode.sfx : Mode → String
  | .mark _ => "_marks"
  | _ => ""

/-- which glyph pairs the parts of this mode can contain -/
def Mode.cond : Mode → String → String → Prop
  | .whole _ => fun _ _ => True
  | .base ms => fun g1 g2 => g1 ∉ ms ∧ g2 ∉ ms
  | .mark ms => fun g1 g2 => g1 ∈ ms ∨ g2 ∈ ms

def modes (marks : Option (List String)) (im : Bool) : List Mode :=
  if im then
    match marks with
    | some ms => if ms.isEmpty then [.whole true] else [.base ms, .mark ms]
    | none => [.whole true]
  else [.whole false]

def listOf (pairs : List KPair) (m : Mode) : List KPair × Bool × String := (pairs.flatMap m.σ, m.flag, m.sfx)

theorem flatMap_single (l : List KPair) : l.flatMap (fun p => [p]) = l := by
  induction l with
  | nil => rfl
  | cons a l ih => simp only [flatMap_cons, ih]; rfl

theorem pairLists_sub (pairs : List KPair) (marks : Option (List String)) (im : Bool) (l : List KPair × Bool × String)
    (hl : l ∈ pairLists pairs marks im) : ∃ m ∈ modes marks im, l = listOf pairs m := by
  unfold pairLists at hl
  unfold modes
  cases im with
  | false =>
    simp only [Bool.false_eq_true, if_false, mem_singleton] at hl ⊢
    exact ⟨.whole false, rfl, by rw [hl]; simp [listOf, Mode.σ, Mode.flag, Mode.sfx, flatMap_single]⟩
  | true =>
    simp only [if_true] at hl ⊢
    cases marks with
    | none =>
      have e : splitBaseAndMarkPairs pairs none = (pairs, []) := rfl
      rw [e] at hl
      simp only [isEmpty_nil, if_true, append_nil] at hl
      by_cases hp : pairs.isEmpty = true
      · rw [if_pos hp] at hl; cases hl
      · rw [if_neg hp] at hl
        simp only [mem_singleton] at hl
        exact ⟨.whole true, by simp, by rw [hl]; simp [listOf, Mode.σ, Mode.flag, Mode.sfx, flatMap_single]⟩
    | some ms =>
      by_cases hne : ms.isEmpty = true
      · have e : splitBaseAndMarkPairs pairs (some ms) = (pairs, []) := by simp [splitBaseAndMarkPairs, hne]
        rw [e] at hl
        simp only [isEmpty_nil, if_true, append_nil] at hl
        simp only [hne, if_true]
        by_cases hp : pairs.isEmpty = true
        · rw [if_pos hp] at hl; cases hl
        · rw [if_neg hp] at hl
          simp only [mem_singleton] at hl
          exact ⟨.whole true, by simp, by rw [hl]; simp [listOf, Mode.σ, Mode.flag, Mode.sfx, flatMap_single]⟩
      · have hne' : ms.isEmpty = false := by simpa using hne
        rw [split_eq pairs ms hne'] at hl
        simp only [hne, if_false]
        rcases mem_append.mp hl with h | h
        · by_cases hp : (pairs.flatMap (basePart ms)).isEmpty = true
          · rw [if_pos hp] at h; cases h
          · rw [if_neg hp] at h
            simp only [mem_singleton] at h
            exact ⟨.base ms, by simp, by rw [h]; rfl⟩
        · by_cases hp : (pairs.flatMap (markPart ms)).isEmpty = true
          · rw [if_pos hp] at h; cases h
          · rw [if_neg hp] at h
            simp only [mem_singleton] at h
            exact ⟨.mark ms, by simp, by rw [h]; rfl⟩

theorem pairLists_sup (pairs : List KPair) (marks : Option (List String)) (im : Bool) (m : Mode) (hm : m ∈ modes marks im)
    (hne : (listOf pairs m).1 ≠ []) : listOf pairs m ∈ pairLists pairs marks im := by
  unfold pairLists
  unfold modes at hm
  cases im with
  | false =>
    simp only [Bool.false_eq_true, if_false, mem_singleton] at hm ⊢
    rw [hm]; simp [listOf, Mode.σ, Mode.flag, Mode.sfx, flatMap_single]
  | true =>
    simp only [if_true] at hm ⊢
    have hwhole : ∀ (pr : List KPair × List KPair), pr = (pairs, []) → m = .whole true →
        listOf pairs m ∈ (if pr.1.isEmpty then [] else [(pr.1, true, "")]) ++ (if pr.2.isEmpty then [] else [(pr.2, false, "_marks")]) := by
      intro pr hpr hmw
      subst hpr hmw
      have e : listOf pairs (.whole true) = (pairs, true, "") := by simp [listOf, Mode.σ, Mode.flag, Mode.sfx, flatMap_single]
      rw [e] at hne ⊢
      dsimp only at hne
      have : pairs.isEmpty = false := by
        cases pairs with
        | nil => exact absurd rfl hne
        | cons _ _ => rfl
      simp [this]
    cases marks with
    | none =>
      simp only [mem_singleton] at hm
      exact hwhole _ rfl hm
    | some ms =>
      by_cases he : ms.isEmpty = true
      · simp only [he, if_true, mem_singleton] at hm
        exact hwhole _ (by simp [splitBaseAndMarkPairs, he]) hm
      · have he' : ms.isEmpty = false := by simpa using he
        simp only [he, Bool.false_eq_true, if_false, mem_cons, mem_nil_iff, or_false] at hm
        rw [split_eq pairs ms he']
        dsimp only
        rcases hm with rfl | rfl
        · apply mem_append_left
          have : (pairs.flatMap (basePart ms)).isEmpty = false := by
            cases hh : pairs.flatMap (basePart ms) with
            | nil => exact absurd hh hne
            | cons _ _ => rfl
          rw [this]; simp [listOf, Mode.σ, Mode.flag, Mode.sfx]
        · apply mem_append_right
          have : (pairs.flatMap (markPart ms)).isEmpty = false := by
            cases hh : pairs.flatMap (markPart ms) with
            | nil => exact absurd hh hne
            | cons _ _ => rfl
          rw [this]; simp [listOf, Mode.σ, Mode.flag, Mode.sfx]

theorem modes_exhaustive (marks : Option (List String)) (im : Bool) (g1 g2 : String) : ∃ m ∈ modes marks im, m.cond g1 g2 := by
  unfold modes
  cases im with
  | false => exact ⟨.whole false, by simp, trivial⟩
  | true =>
    simp only [if_true]
    cases marks with
    | none => exact ⟨.whole true, by simp, trivial⟩
    | some ms =>
      by_cases he : ms.isEmpty = true
      · simp only [he, if_true]; exact ⟨.whole true, by simp, trivial⟩
      · simp only [he, if_false]
        by_cases h : g1 ∈ ms ∨ g2 ∈ ms
        · exact ⟨.mark ms, by simp, h⟩
        · exact ⟨.base ms, by simp, ⟨fun h1 => h (Or.inl h1), fun h2 => h (Or.inr h2)⟩⟩

theorem modes_exclusive (marks : Option (List String)) (im : Bool) (g1 g2 : String) (m m' : Mode) (hm : m ∈ modes marks im)
    (hm' : m' ∈ modes marks im) (hc : m.cond g1 g2) (hc' : m'.cond g1 g2) : m = m' := by
  unfold modes at hm hm'
  cases im with
  | false =>
    simp only [Bool.false_eq_true, if_false, mem_singleton] at hm hm'
    rw [hm, hm']
  | true =>
    simp only [if_true] at hm hm'
    cases marks with
    | none => simp only [mem_singleton] at hm hm'; rw [hm, hm']
    | some ms =>
      by_cases he : ms.isEmpty = true
      · simp only [he, if_true, mem_singleton] at hm hm'; rw [hm, hm']
      · simp only [he, Bool.false_eq_true, if_false, mem_cons, mem_nil_iff, or_false] at hm hm'
        rcases hm with rfl | rfl <;> rcases hm' with rfl | rfl
        · rfl
        · simp only [Mode.cond] at hc hc'
          rcases hc' with h | h
          · exact absurd h hc.1
          · exact absurd h hc.2
        · simp only [Mode.cond] at hc hc'
          rcases hc with h | h
          · exact absurd h hc'.1
          · exact absurd h hc'.2
        · rfl

/-! ### one side of a part -/

/-- `x'` is the base half or the mark half of side `sd` -/
def SideOf (ms : List String) (sd x' : Side) : Prop := (splitSide ms sd).1 = some x' ∨ (splitSide ms sd).2 = some x'

theorem sideOf_mem (ms : List String) (sd x' : Side) (h : SideOf ms sd x') (g : String) (hg : g ∈ x'.glyphs) : g ∈ sd.glyphs := by
  rcases h with h | h
  · have := hit_base ms sd g
    rw [h] at this
    simp only [hit, hg, decide_true] at this
    have := this.symm
    simp only [Bool.and_eq_true, decide_eq_true_eq] at this
    exact this.1
  · have := hit_mark ms sd g
    rw [h] at this
    simp only [hit, hg, decide_true] at this
    have := this.symm
    simp only [Bool.and_eq_true, decide_eq_true_eq] at this
    exact this.1

theorem sideOf_coherent (ms : List String) (sd a b : Side) (ha : SideOf ms sd a) (hb : SideOf ms sd b) (g : String)
    (hga : g ∈ a.glyphs) (hgb : g ∈ b.glyphs) : a = b := by
  have base_not : ∀ x', (splitSide ms sd).1 = some x' → g ∈ x'.glyphs → ms.contains g = false := by
    intro x' h hg
    have := hit_base ms sd g
    rw [h] at this
    simp only [hit, hg, decide_true] at this
    have := this.symm
    simp only [Bool.and_eq_true, Bool.not_eq_true'] at this
    exact this.2
  have mark_is : ∀ x', (splitSide ms sd).2 = some x' → g ∈ x'.glyphs → ms.contains g = true := by
    intro x' h hg
    have := hit_mark ms sd g
    rw [h] at this
    simp only [hit, hg, decide_true] at this
    have := this.symm
    simp only [Bool.and_eq_true] at this
    exact this.2
  rcases ha with ha | ha <;> rcases hb with hb | hb
  · rw [ha] at hb; exact Option.some.inj hb
  · have := base_not a ha hga; rw [mark_is b hb hgb] at this; cases this
  · have := base_not b hb hgb; rw [mark_is a ha hga] at this; cases this
  · rw [ha] at hb; exact Option.some.inj hb

theorem sideOf_isClass (ms : List String) (sd x' : Side) (h : SideOf ms sd x') : x'.isClass = sd.isClass := by
  rcases h with h | h
  · exact isClass_base ms sd x' h
  · exact isClass_mark ms sd x' h

theorem part_sides (ms : List String) (p0 p : KPair) (h : p ∈ basePart ms p0 ∨ p ∈ markPart ms p0) :
    SideOf ms p0.side1 p.side1 ∧ SideOf ms p0.side2 p.side2 := by
  rcases h with h | h
  · obtain ⟨a, b, _⟩ := mem_mkPair _ _ _ _ h
    exact ⟨Or.inl a, Or.inl b⟩
  · simp only [markPart, mem_append] at h
    rcases h with (h | h) | h
    · obtain ⟨a, b, _⟩ := mem_mkPair _ _ _ _ h; exact ⟨Or.inl a, Or.inr b⟩
    · obtain ⟨a, b, _⟩ := mem_mkPair _ _ _ _ h; exact ⟨Or.inr a, Or.inl b⟩
    · obtain ⟨a, b, _⟩ := mem_mkPair _ _ _ _ h; exact ⟨Or.inr a, Or.inr b⟩

theorem count_unique {α : Type} (f : α → Bool) : ∀ (l : List α), l.countP f ≤ 1 → ∀ a b, a ∈ l → b ∈ l → f a = true → f b = true → a = b := by
  intro l
  induction l with
  | nil => intro _ a b ha; cases ha
  | cons y ys ih =>
    intro hc a b ha hb hfa hfb
    rw [countP_cons] at hc
    rcases mem_cons.mp ha with ha' | ha' <;> rcases mem_cons.mp hb with hb' | hb'
    · rw [ha', hb']
    · subst ha'
      have : 0 < ys.countP f := countP_pos_iff.mpr ⟨b, hb', hfb⟩
      simp only [hfa, if_true] at hc; omega
    · subst hb'
      have : 0 < ys.countP f := countP_pos_iff.mpr ⟨a, ha', hfa⟩
      simp only [hfb, if_true] at hc; omega
    · exact ih (by omega) a b ha' hb' hfa hfb

/-! ### the parts of a pair in each mode -/

/-- a part keeps value and specificity, each side is the source side or one half of it, and it contains only glyph pairs the
    source pair contains and that the mode admits -/
theorem σ_sound (m : Mode) (p0 p : KPair) (h : p ∈ m.σ p0) :
    p.value = p0.value ∧ p.side1.isClass = p0.side1.isClass ∧ p.side2.isClass = p0.side2.isClass ∧
    (∀ x ∈ p.side1.glyphs, x ∈ p0.side1.glyphs) ∧ (∀ x ∈ p.side2.glyphs, x ∈ p0.side2.glyphs) ∧
    ∀ g1 g2, Matches p g1 g2 → m.cond g1 g2 := by
  cases m with
  | whole f =>
    simp only [Mode.σ, mem_singleton] at h
    subst h
    exact ⟨rfl, rfl, rfl, fun _ h => h, fun _ h => h, fun _ _ _ => trivial⟩
  | base ms =>
    simp only [Mode.σ] at h
    obtain ⟨hv, h1, h2, _⟩ := split_one_sound ms p0 p (mem_append_left _ h)
    obtain ⟨s1, s2⟩ := part_sides ms p0 p (Or.inl h)
    refine ⟨hv, h1, h2, sideOf_mem ms _ _ s1, sideOf_mem ms _ _ s2, ?_⟩
    intro g1 g2 hm
    have hpos : 0 < (basePart ms p0).countP (matchB g1 g2) := countP_pos_iff.mpr ⟨p, h, by simpa [matchB] using hm⟩
    rw [(split_one_count ms p0 g1 g2).1] at hpos
    split at hpos
    · rename_i hh
      simp only [Bool.and_eq_true, Bool.not_eq_true', decide_eq_true_eq] at hh
      simp only [Mode.cond]
      refine ⟨fun h1 => ?_, fun h2 => ?_⟩
      · have := hh.1.2; rw [contains_iff_mem.mpr h1] at this; cases this
      · have := hh.2; rw [contains_iff_mem.mpr h2] at this; cases this
    · cases hpos
  | mark ms =>
    simp only [Mode.σ] at h
    obtain ⟨hv, h1, h2, _⟩ := split_one_sound ms p0 p (mem_append_right _ h)
    obtain ⟨s1, s2⟩ := part_sides ms p0 p (Or.inr h)
    refine ⟨hv, h1, h2, sideOf_mem ms _ _ s1, sideOf_mem ms _ _ s2, ?_⟩
    intro g1 g2 hm
    have hpos : 0 < (markPart ms p0).countP (matchB g1 g2) := countP_pos_iff.mpr ⟨p, h, by simpa [matchB] using hm⟩
    rw [(split_one_count ms p0 g1 g2).2] at hpos
    split at hpos
    · rename_i hh
      simp only [Bool.and_eq_true, Bool.or_eq_true, decide_eq_true_eq, contains_iff_mem] at hh
      exact hh.2
    · cases hpos

theorem σ_matches (m : Mode) (p0 p : KPair) (h : p ∈ m.σ p0) (g1 g2 : String) (hm : Matches p g1 g2) : Matches p0 g1 g2 := by
  obtain ⟨_, _, _, a, b, _⟩ := σ_sound m p0 p h
  exact ⟨a g1 hm.1, b g2 hm.2⟩

theorem σ_level (m : Mode) (p0 p : KPair) (h : p ∈ m.σ p0) : level p = level p0 := by
  obtain ⟨_, a, b, _⟩ := σ_sound m p0 p h
  simp only [level, a, b]

/-- the mode that admits the glyph pair has a part containing it -/
theorem σ_cover (m : Mode) (p0 : KPair) (g1 g2 : String) (hm : Matches p0 g1 g2) (hc : m.cond g1 g2) :
    ∃ p ∈ m.σ p0, Matches p g1 g2 := by
  cases m with
  | whole f => exact ⟨p0, by simp [Mode.σ], hm⟩
  | base ms =>
    simp only [Mode.cond] at hc
    have : (basePart ms p0).countP (matchB g1 g2) = 1 := by
      rw [(split_one_count ms p0 g1 g2).1]
      simp [hm, hc.1, hc.2]
    obtain ⟨p, hp, hpm⟩ := countP_pos_iff.mp (by omega : 0 < (basePart ms p0).countP (matchB g1 g2))
    exact ⟨p, hp, by simpa [matchB] using hpm⟩
  | mark ms =>
    simp only [Mode.cond] at hc
    have : (markPart ms p0).countP (matchB g1 g2) = 1 := by
      rw [(split_one_count ms p0 g1 g2).2]
      have : (ms.contains g1 || ms.contains g2) = true := by
        rcases hc with h | h <;> simp [h]
      rw [this]
      simp [hm]
    obtain ⟨p, hp, hpm⟩ := countP_pos_iff.mp (by omega : 0 < (markPart ms p0).countP (matchB g1 g2))
    exact ⟨p, hp, by simpa [matchB] using hpm⟩

/-- at most one part of a pair contains a given glyph pair -/
theorem σ_unique (m : Mode) (p0 p p' : KPair) (h : p ∈ m.σ p0) (h' : p' ∈ m.σ p0) (g1 g2 : String)
    (hm : Matches p g1 g2) (hm' : Matches p' g1 g2) : p = p' := by
  cases m with
  | whole f =>
    simp only [Mode.σ, mem_singleton] at h h'
    rw [h, h']
  | base ms =>
    simp only [Mode.σ] at h h'
    apply count_unique (matchB g1 g2) (basePart ms p0) _ p p' h h' (by simpa [matchB] using hm) (by simpa [matchB] using hm')
    rw [(split_one_count ms p0 g1 g2).1]
    split <;> omega
  | mark ms =>
    simp only [Mode.σ] at h h'
    apply count_unique (matchB g1 g2) (markPart ms p0) _ p p' h h' (by simpa [matchB] using hm) (by simpa [matchB] using hm')
    rw [(split_one_count ms p0 g1 g2).2]
    split <;> omega

/-- two parts (of pairs with the same first side) whose first sides share a glyph have the same first side -/
theorem σ_coherent1 (m : Mode) (p0 p0' p p' : KPair) (h : p ∈ m.σ p0) (h' : p' ∈ m.σ p0') (hs : p0.side1 = p0'.side1)
    (x : String) (hx : x ∈ p.side1.glyphs) (hx' : x ∈ p'.side1.glyphs) : p.side1 = p'.side1 := by
  cases m with
  | whole f =>
    simp only [Mode.σ, mem_singleton] at h h'
    rw [h, h', hs]
  | base ms =>
    simp only [Mode.σ] at h h'
    have a := (part_sides ms p0 p (Or.inl h)).1
    have b := (part_sides ms p0' p' (Or.inl h')).1
    rw [← hs] at b
    exact sideOf_coherent ms _ _ _ a b x hx hx'
  | mark ms =>
    simp only [Mode.σ] at h h'
    have a := (part_sides ms p0 p (Or.inr h)).1
    have b := (part_sides ms p0' p' (Or.inr h')).1
    rw [← hs] at b
    exact sideOf_coherent ms _ _ _ a b x hx hx'

theorem σ_coherent2 (m : Mode) (p0 p0' p p' : KPair) (h : p ∈ m.σ p0) (h' : p' ∈ m.σ p0') (hs : p0.side2 = p0'.side2)
    (x : String) (hx : x ∈ p.side2.glyphs) (hx' : x ∈ p'.side2.glyphs) : p.side2 = p'.side2 := by
  cases m with
  | whole f =>
    simp only [Mode.σ, mem_singleton] at h h'
    rw [h, h', hs]
  | base ms =>
    simp only [Mode.σ] at h h'
    have a := (part_sides ms p0 p (Or.inl h)).2
    have b := (part_sides ms p0' p' (Or.inl h')).2
    rw [← hs] at b
    exact sideOf_coherent ms _ _ _ a b x hx hx'
  | mark ms =>
    simp only [Mode.σ] at h h'
    have a := (part_sides ms p0 p (Or.inr h)).2
    have b := (part_sides ms p0' p' (Or.inr h')).2
    rw [← hs] at b
    exact sideOf_coherent ms _ _ _ a b x hx hx'

end Ufo2ft.C05
