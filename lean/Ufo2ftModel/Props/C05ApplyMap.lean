import Ufo2ftModel.Spec.C05Apply
import Ufo2ftModel.Props.C05Groups
import Ufo2ftModel.Props.C05Ufo
/-! C05 end-to-end, layer B1: the lookup dictionary `lookups[script][name]` (`LookupMap`) that `_makeKerningLookups` builds —
    which lookups it holds under which script after filing every bucket of every pair list and pruning the empty ones. -/
namespace Ufo2ft.C05
open Ufo2ft List

/-- the lookup the writer makes from one `splitKerning` bucket -/
def bucketLookup (c : Ctx) (flag : Bool) (sfx : String) (e : List String × List KPair) : Lookup :=
  ⟨lookupName e.1 sfx, flag, makeRules c e.1 e.2⟩

/-- (scripts it is filed under, lookup) for every bucket of one pair list -/
def bucketItems (c : Ctx) (l : List KPair × Bool × String) : List (List String × Lookup) :=
  (splitKerning c l.1).map (fun e => (e.1, bucketLookup c l.2.1 l.2.2 e))

/-- `lookups.setdefault(script, {})[name] = lookup` for every script of every item -/
def fileAll (m : LookupMap) (items : List (List String × Lookup)) : LookupMap :=
  items.foldl (fun m it => it.1.foldl (fun m s => lmSet m s it.2) m) m

def keepLookup (c : Ctx) (l : String × Lookup) : Bool := !l.2.rules.isEmpty || (l.2.ignoreMarks && c.spacing)

/-- "clean out empty lookups" -/
def prune (c : Ctx) (m : LookupMap) : LookupMap :=
  (m.map (fun e => (e.1, e.2.filter (keepLookup c)))).filter (fun e => !e.2.isEmpty)

theorem makeSplit_eq (c : Ctx) (m : LookupMap) (pairs : List KPair) (flag : Bool) (sfx : String) :
    makeSplitScriptKernLookups c m pairs flag sfx = prune c (fileAll m (bucketItems c (pairs, flag, sfx))) := by
  unfold makeSplitScriptKernLookups prune fileAll bucketItems
  rw [foldl_map]
  rfl

theorem makeKerningLookups_eq (c : Ctx) (pairs : List KPair) (marks : Option (List String)) (im : Bool) :
    makeKerningLookups c pairs marks im =
      (pairLists pairs marks im).foldl (fun m l => prune c (fileAll m (bucketItems c l))) [] := by
  unfold makeKerningLookups pairLists
  cases im with
  | false => simp only [Bool.false_eq_true, if_false, foldl_cons, foldl_nil, makeSplit_eq]
  | true =>
    simp only [if_true]
    cases h1 : (splitBaseAndMarkPairs pairs marks).1.isEmpty <;> cases h2 : (splitBaseAndMarkPairs pairs marks).2.isEmpty <;>
      simp [makeSplit_eq]

/-! ### presence and provenance of entries -/

/-- lookup `l` is filed under `script` (under its own name) -/
def Has (m : LookupMap) (script : String) (l : Lookup) : Prop := ∃ e ∈ m, e.1 = script ∧ (l.name, l) ∈ e.2

/-- dict keys are distinct; every stored entry is keyed by the lookup's name and is one of `BL` -/
structure MapInv (BL : List Lookup) (m : LookupMap) : Prop where
  keys : (m.map (·.1)).Nodup
  vals : ∀ e ∈ m, ∀ x ∈ e.2, x.1 = x.2.name ∧ x.2 ∈ BL

def upd (lk : Lookup) (l : List (String × Lookup)) : List (String × Lookup) :=
  if l.any (fun e => e.1 == lk.name) then l.map (fun e => if e.1 == lk.name then (e.1, lk) else e) else l ++ [(lk.name, lk)]

theorem lmSet_eq (m : LookupMap) (script : String) (lk : Lookup) :
    lmSet m script lk =
      if m.any (fun e => e.1 == script) then m.map (fun e => if e.1 == script then (e.1, upd lk e.2) else e)
      else m ++ [(script, upd lk [])] := rfl

theorem upd_mem (lk : Lookup) (l : List (String × Lookup)) (x : String × Lookup) (hx : x ∈ upd lk l) :
    x ∈ l ∨ x = (lk.name, lk) := by
  unfold upd at hx
  split at hx
  · obtain ⟨e, he, rfl⟩ := mem_map.mp hx
    split
    · rename_i hk; right; simp only [beq_iff_eq] at hk; rw [hk]
    · left; exact he
  · rcases mem_append.mp hx with h | h
    · exact Or.inl h
    · right; simpa using h

theorem upd_new (lk : Lookup) (l : List (String × Lookup)) : (lk.name, lk) ∈ upd lk l := by
  unfold upd
  split
  · rename_i h
    simp only [any_eq_true, beq_iff_eq] at h
    obtain ⟨e, he, hk⟩ := h
    refine mem_map.mpr ⟨e, he, ?_⟩
    simp [hk]
  · simp

theorem upd_old (lk : Lookup) (l : List (String × Lookup)) (x : Lookup) (hx : (x.name, x) ∈ l) (hinj : x.name = lk.name → x = lk) :
    (x.name, x) ∈ upd lk l := by
  unfold upd
  split
  · refine mem_map.mpr ⟨(x.name, x), hx, ?_⟩
    by_cases hk : x.name = lk.name
    · have := hinj hk
      subst this; simp
    · have : (x.name == lk.name) = false := by simpa using hk
      simp [this]
  · exact mem_append_left _ hx

theorem lmSet_keys (m : LookupMap) (script : String) (lk : Lookup) (h : (m.map (·.1)).Nodup) :
    ((lmSet m script lk).map (·.1)).Nodup := by
  rw [lmSet_eq]
  split
  · rw [map_map]
    have : ((fun x : String × List (String × Lookup) => x.1) ∘ fun e => if e.1 == script then (e.1, upd lk e.2) else e) = (·.1) := by
      funext e; simp only [Function.comp]; split <;> rfl
    rw [this]; exact h
  · rename_i hn
    rw [map_append, nodup_append]
    refine ⟨h, by simp, ?_⟩
    intro a ha b hb
    simp only [map_cons, map_nil, mem_singleton] at hb
    subst hb
    intro hab; subst hab
    apply hn
    obtain ⟨e, he, hk⟩ := mem_map.mp ha
    simp only [any_eq_true, beq_iff_eq]
    exact ⟨e, he, hk⟩

theorem lmSet_inv (BL : List Lookup) (m : LookupMap) (script : String) (lk : Lookup) (hlk : lk ∈ BL) (h : MapInv BL m) :
    MapInv BL (lmSet m script lk) := by
  refine ⟨lmSet_keys m script lk h.keys, ?_⟩
  intro e he x hx
  rw [lmSet_eq] at he
  have hnew : ∀ l0 : List (String × Lookup), (∀ y ∈ l0, y.1 = y.2.name ∧ y.2 ∈ BL) → x ∈ upd lk l0 → x.1 = x.2.name ∧ x.2 ∈ BL := by
    intro l0 h0 hx
    rcases upd_mem lk l0 x hx with h1 | h1
    · exact h0 x h1
    · rw [h1]; exact ⟨rfl, hlk⟩
  split at he
  · obtain ⟨e0, he0, rfl⟩ := mem_map.mp he
    split at hx
    · exact hnew e0.2 (h.vals e0 he0) hx
    · exact h.vals e0 he0 x hx
  · rcases mem_append.mp he with he | he
    · exact h.vals e he x hx
    · simp only [mem_singleton] at he
      subst he
      exact hnew [] (by intro y hy; cases hy) hx

theorem lmSet_has_new (m : LookupMap) (script : String) (lk : Lookup) : Has (lmSet m script lk) script lk := by
  rw [lmSet_eq]
  split
  · rename_i h
    simp only [any_eq_true, beq_iff_eq] at h
    obtain ⟨e, he, hk⟩ := h
    refine ⟨_, mem_map_of_mem he, ?_⟩
    simp only [hk, beq_self_eq_true, if_true, true_and]
    exact upd_new lk e.2
  · exact ⟨(script, upd lk []), by simp, rfl, upd_new lk []⟩

theorem lmSet_has_old (m : LookupMap) (script : String) (lk : Lookup) (s : String) (x : Lookup) (hx : Has m s x)
    (hinj : x.name = lk.name → x = lk) : Has (lmSet m script lk) s x := by
  obtain ⟨e, he, hk, hin⟩ := hx
  rw [lmSet_eq]
  split
  · refine ⟨_, mem_map_of_mem he, ?_⟩
    split
    · exact ⟨hk, upd_old lk e.2 x hin hinj⟩
    · exact ⟨hk, hin⟩
  · exact ⟨e, mem_append_left _ he, hk, hin⟩

/-- names are injective on `BL` -/
def NameInj (BL : List Lookup) : Prop := ∀ a ∈ BL, ∀ b ∈ BL, a.name = b.name → a = b

theorem has_in (BL : List Lookup) (m : LookupMap) (h : MapInv BL m) (s : String) (x : Lookup) (hx : Has m s x) : x ∈ BL := by
  obtain ⟨e, he, _, hin⟩ := hx
  exact (h.vals e he _ hin).2

theorem fileOne (BL : List Lookup) (hinj : NameInj BL) (lk : Lookup) (hlk : lk ∈ BL) : ∀ (scripts : List String) (m : LookupMap),
    MapInv BL m →
    MapInv BL (scripts.foldl (fun m s => lmSet m s lk) m) ∧
    (∀ s x, Has m s x → Has (scripts.foldl (fun m s => lmSet m s lk) m) s x) ∧
    (∀ s ∈ scripts, Has (scripts.foldl (fun m s => lmSet m s lk) m) s lk) := by
  intro scripts
  induction scripts with
  | nil => intro m h; exact ⟨h, fun _ _ h => h, fun s hs => by cases hs⟩
  | cons s0 scripts ih =>
    intro m h
    rw [foldl_cons]
    have h' := lmSet_inv BL m s0 lk hlk h
    obtain ⟨a, b, c⟩ := ih (lmSet m s0 lk) h'
    refine ⟨a, ?_, ?_⟩
    · intro s x hx
      exact b s x (lmSet_has_old m s0 lk s x hx (fun hn => hinj x (has_in BL m h s x hx) lk hlk hn))
    · intro s hs
      rcases mem_cons.mp hs with rfl | hs
      · exact b _ _ (lmSet_has_new m s lk)
      · exact c s hs

theorem fileAll_spec (BL : List Lookup) (hinj : NameInj BL) : ∀ (items : List (List String × Lookup)) (m : LookupMap),
    (∀ it ∈ items, it.2 ∈ BL) → MapInv BL m →
    MapInv BL (fileAll m items) ∧
    (∀ s x, Has m s x → Has (fileAll m items) s x) ∧
    (∀ it ∈ items, ∀ s ∈ it.1, Has (fileAll m items) s it.2) := by
  intro items
  induction items with
  | nil => intro m _ h; exact ⟨h, fun _ _ h => h, fun it hit => by cases hit⟩
  | cons it items ih =>
    intro m hall h
    unfold fileAll
    rw [foldl_cons]
    obtain ⟨a1, b1, c1⟩ := fileOne BL hinj it.2 (hall it mem_cons_self) it.1 m h
    obtain ⟨a, b, c⟩ := ih (it.1.foldl (fun m s => lmSet m s it.2) m) (fun x hx => hall x (mem_cons_of_mem _ hx)) a1
    unfold fileAll at a b c
    refine ⟨a, fun s x hx => b s x (b1 s x hx), ?_⟩
    intro it' hit' s hs
    rcases mem_cons.mp hit' with rfl | hit'
    · exact b s _ (c1 s hs)
    · exact c it' hit' s hs

theorem prune_spec (BL : List Lookup) (c : Ctx) (m : LookupMap) (h : MapInv BL m) :
    MapInv BL (prune c m) ∧ (∀ s x, Has m s x → keepLookup c (x.name, x) = true → Has (prune c m) s x) ∧
    (∀ e ∈ prune c m, ∀ x ∈ e.2, keepLookup c x = true) := by
  refine ⟨⟨?_, ?_⟩, ?_, ?_⟩
  · unfold prune
    refine (filter_sublist.map _).nodup ?_
    rw [map_map]
    exact h.keys
  · intro e he x hx
    unfold prune at he
    obtain ⟨he, _⟩ := mem_filter.mp he
    obtain ⟨e0, he0, rfl⟩ := mem_map.mp he
    exact h.vals e0 he0 x (mem_filter.mp hx).1
  · rintro s x ⟨e, he, hk, hin⟩ hkeep
    refine ⟨(e.1, e.2.filter (keepLookup c)), ?_, hk, mem_filter.mpr ⟨hin, hkeep⟩⟩
    unfold prune
    refine mem_filter.mpr ⟨mem_map.mpr ⟨e, he, rfl⟩, ?_⟩
    have : (x.name, x) ∈ e.2.filter (keepLookup c) := mem_filter.mpr ⟨hin, hkeep⟩
    cases hh : e.2.filter (keepLookup c) with
    | nil => rw [hh] at this; cases this
    | cons _ _ => rfl
  · intro e he x hx
    unfold prune at he
    obtain ⟨he, _⟩ := mem_filter.mp he
    obtain ⟨e0, _, rfl⟩ := mem_map.mp he
    exact (mem_filter.mp hx).2

/-- all (scripts, lookup) items of all pair lists -/
def allItems (c : Ctx) (pairs : List KPair) (marks : Option (List String)) (im : Bool) : List (List String × Lookup) :=
  (pairLists pairs marks im).flatMap (bucketItems c)

theorem lists_fold (BL : List Lookup) (hinj : NameInj BL) (c : Ctx) : ∀ (ls : List (List KPair × Bool × String)) (m : LookupMap),
    (∀ l ∈ ls, ∀ it ∈ bucketItems c l, it.2 ∈ BL) → MapInv BL m →
    MapInv BL (ls.foldl (fun m l => prune c (fileAll m (bucketItems c l))) m) ∧
    (∀ s x, Has m s x → keepLookup c (x.name, x) = true → Has (ls.foldl (fun m l => prune c (fileAll m (bucketItems c l))) m) s x) ∧
    (∀ l ∈ ls, ∀ it ∈ bucketItems c l, ∀ s ∈ it.1, keepLookup c (it.2.name, it.2) = true →
      Has (ls.foldl (fun m l => prune c (fileAll m (bucketItems c l))) m) s it.2) := by
  intro ls
  induction ls with
  | nil => intro m _ h; exact ⟨h, fun _ _ h _ => h, fun l hl => by cases hl⟩
  | cons l ls ih =>
    intro m hall h
    rw [foldl_cons]
    obtain ⟨a1, b1, c1⟩ := fileAll_spec BL hinj (bucketItems c l) m (hall l mem_cons_self) h
    obtain ⟨a2, b2, _⟩ := prune_spec BL c _ a1
    obtain ⟨a, b, cc⟩ := ih (prune c (fileAll m (bucketItems c l))) (fun l' hl' => hall l' (mem_cons_of_mem _ hl')) a2
    refine ⟨a, ?_, ?_⟩
    · intro s x hx hk
      exact b s x (b2 s x (b1 s x hx) hk) hk
    · intro l' hl' it hit s hs hk
      rcases mem_cons.mp hl' with rfl | hl'
      · exact b s _ (b2 s _ (c1 it hit s hs) hk) hk
      · exact cc l' hl' it hit s hs hk

/-- Layer B1: the final dictionary holds only bucket lookups, under distinct script keys, keyed by their names; and every
    bucket lookup that has a rule is filed under each script of its bucket -/
theorem makeKerningLookups_spec (c : Ctx) (pairs : List KPair) (marks : Option (List String)) (im : Bool)
    (hinj : NameInj ((allItems c pairs marks im).map (·.2))) :
    MapInv ((allItems c pairs marks im).map (·.2)) (makeKerningLookups c pairs marks im) ∧
    (∀ it ∈ allItems c pairs marks im, ∀ s ∈ it.1, it.2.rules ≠ [] → Has (makeKerningLookups c pairs marks im) s it.2) := by
  rw [makeKerningLookups_eq]
  have hall : ∀ l ∈ pairLists pairs marks im, ∀ it ∈ bucketItems c l, it.2 ∈ (allItems c pairs marks im).map (·.2) := by
    intro l hl it hit
    exact mem_map.mpr ⟨it, mem_flatMap.mpr ⟨l, hl, hit⟩, rfl⟩
  obtain ⟨a, _, cc⟩ := lists_fold _ hinj c (pairLists pairs marks im) [] hall ⟨by simp, by intro e he; cases he⟩
  refine ⟨a, ?_⟩
  intro it hit s hs hne
  obtain ⟨l, hl, hit'⟩ := mem_flatMap.mp hit
  apply cc l hl it hit' s hs
  unfold keepLookup
  cases hr : it.2.rules with
  | nil => exact absurd hr hne
  | cons _ _ => rfl

/-- `namesOK` is injectivity of names on the bucket lookups -/
theorem nameInj_of_namesOK (c : Ctx) (pairs : List KPair) (marks : Option (List String)) (im : Bool)
    (h : namesOK c pairs marks im = true) : NameInj ((allItems c pairs marks im).map (·.2)) := by
  unfold namesOK at h
  simp only [decide_eq_true_eq] at h
  have e : (pairLists pairs marks im).flatMap (fun l => (splitKerning c l.1).map (fun e => lookupName e.1 l.2.2)) =
      ((allItems c pairs marks im).map (·.2)).map (·.name) := by
    unfold allItems bucketItems
    rw [map_flatMap, map_flatMap]
    congr 1
    funext l
    rw [map_map, map_map]
    rfl
  rw [e] at h
  intro a ha b hb hab
  exact map_nodup_inj (·.name) _ h a b ha hb hab

end Ufo2ft.C05
