import Ufo2ftModel.Spec.C05
/-! C05, part 3a: what `getKerningGroups` keeps when the UFO kerning groups are valid, and the association-list facts behind it. -/
namespace Ufo2ft.C05
open Ufo2ft List

/-! ### association lists -/

theorem alookup_append {ν : Type} (k : String) (a b : List (String × ν)) :
    alookup k (a ++ b) = match alookup k a with | some v => some v | none => alookup k b := by
  induction a with
  | nil => rfl
  | cons x xs ih =>
    obtain ⟨k', v⟩ := x
    simp only [cons_append, alookup]
    split
    · rfl
    · exact ih

theorem alookup_eq_none_iff {ν : Type} (k : String) (l : List (String × ν)) :
    alookup k l = none ↔ ∀ e ∈ l, e.1 ≠ k := by
  induction l with
  | nil => simp [alookup]
  | cons x xs ih =>
    obtain ⟨k', v⟩ := x
    simp only [alookup, mem_cons, forall_eq_or_imp]
    by_cases h : k' = k
    · subst h; simp
    · have : (k' == k) = false := by simpa using h
      simp only [this, Bool.false_eq_true, if_false, ih, ne_eq, h, not_false_eq_true, true_and]

theorem mem_of_alookup {ν : Type} (k : String) (v : ν) (l : List (String × ν)) (h : alookup k l = some v) : (k, v) ∈ l := by
  induction l with
  | nil => simp [alookup] at h
  | cons x xs ih =>
    obtain ⟨k', v'⟩ := x
    simp only [alookup] at h
    by_cases hk : k' = k
    · subst hk; simp only [beq_self_eq_true, if_true, Option.some.injEq] at h; subst h; exact mem_cons_self
    · have : (k' == k) = false := by simpa using hk
      simp only [this, Bool.false_eq_true, if_false] at h
      exact mem_cons_of_mem _ (ih h)

theorem alookup_of_mem {ν : Type} (k : String) (v : ν) (l : List (String × ν)) (hn : (l.map (·.1)).Nodup) (h : (k, v) ∈ l) :
    alookup k l = some v := by
  induction l with
  | nil => cases h
  | cons x xs ih =>
    obtain ⟨k', v'⟩ := x
    simp only [map_cons, nodup_cons, mem_map, not_exists, not_and] at hn
    simp only [alookup]
    rcases mem_cons.mp h with h | h
    · cases h; simp
    · have hk : k' ≠ k := fun e => hn.1 (k, v) h e.symm
      have : (k' == k) = false := by simpa using hk
      simp only [this, Bool.false_eq_true, if_false]
      exact ih hn.2 h

/-- in a concatenation without repeated elements, an element determines the part it comes from -/
theorem flatMap_nodup_unique {α β : Type} (f : α → List β) : ∀ (l : List α), (l.flatMap f).Nodup →
    ∀ a b x, a ∈ l → b ∈ l → x ∈ f a → x ∈ f b → a = b := by
  intro l
  induction l with
  | nil => intro _ a b x ha; cases ha
  | cons y ys ih =>
    intro hn a b x ha hb hxa hxb
    simp only [flatMap_cons, nodup_append, mem_flatMap] at hn
    obtain ⟨_, h2, h3⟩ := hn
    rcases mem_cons.mp ha with ha' | ha' <;> rcases mem_cons.mp hb with hb' | hb'
    · rw [ha', hb']
    · subst ha'; exact absurd rfl (h3 x hxa x ⟨b, hb', hxb⟩)
    · subst hb'; exact absurd rfl (h3 x hxb x ⟨a, ha', hxa⟩)
    · exact ih h2 a b x ha' hb' hxa hxb

/-! ### the two prefixes exclude each other -/

-- `is1`, `is2` (the two kerning-group prefixes) are defined in Spec/C05.lean

theorem is1_not_is2 (n : String) (h1 : is1 n = true) : is2 n = false := by
  cases h2 : is2 n with
  | false => rfl
  | true =>
    unfold is1 SIDE1_PREFIX at h1
    unfold is2 SIDE2_PREFIX at h2
    rw [String.startsWith_string_iff] at h1 h2
    obtain ⟨t1, h1⟩ := h1
    obtain ⟨t2, h2⟩ := h2
    have := h1.trans h2.symm
    simp at this

/-! ### getKerningGroups on valid groups -/

/-- the members of a group that the writer keeps -/
def kept (gs : List String) (e : String × List String) : List String := (e.2.filter gs.contains).eraseDups

theorem mem_kept (gs : List String) (e : String × List String) (x : String) : x ∈ kept gs e ↔ x ∈ e.2 ∧ x ∈ gs := by
  simp [kept, mem_eraseDups, mem_filter]

def expect1 (gs : List String) (groups : List (String × List String)) : List (String × List String) :=
  (groups.filter (fun e => !(kept gs e).isEmpty && is1 e.1)).map (fun e => (e.1, sortStr (kept gs e)))
def expect2 (gs : List String) (groups : List (String × List String)) : List (String × List String) :=
  (groups.filter (fun e => !(kept gs e).isEmpty && is2 e.1)).map (fun e => (e.1, sortStr (kept gs e)))

def groupStep (glyphSet : List String) (acc : Groups) (e : String × List String) : Groups :=
    let members := (e.2.filter glyphSet.contains).eraseDups
    if members.isEmpty then acc
    else if e.1.startsWith SIDE1_PREFIX then
      let r := addGroup SIDE1_PREFIX.length acc.side1 acc.member1 e.1 members
      { acc with side1 := r.1, member1 := r.2 }
    else if e.1.startsWith SIDE2_PREFIX then
      let r := addGroup SIDE2_PREFIX.length acc.side2 acc.member2 e.1 members
      { acc with side2 := r.1, member2 := r.2 }
    else acc

theorem getKerningGroups_eq_foldl (gs : List String) (groups : List (String × List String)) :
    getKerningGroups gs groups = groups.foldl (groupStep gs) ⟨[], [], [], []⟩ := rfl

theorem addGroup_fresh (n : Nat) (groups : List (String × List String)) (membership : List (String × String))
    (name : String) (members : List String)
    (h1 : ∀ m ∈ members, alookup m membership = none) (h2 : alookup name groups = none) :
    addGroup n groups membership name members =
      (groups ++ [(name, sortStr members)], membership ++ members.map (fun m => (m, (name.drop n).toString))) := by
  unfold addGroup
  have : members.any (fun m => (alookup m membership).isSome) = false := by
    rw [any_eq_false]; intro m hm; rw [h1 m hm]; simp
  simp only [this, Bool.false_eq_true, if_false, h2]

theorem alookup_map_keys (k : String) (ms : List String) (t : String) :
    alookup k (ms.map (fun m => (m, t))) = none ↔ k ∉ ms := by
  rw [alookup_eq_none_iff]
  simp only [mem_map, ne_eq, forall_exists_index, and_imp]
  constructor
  · intro h hk; exact h (k, t) k hk rfl rfl
  · intro h e m hm he; subst he; intro e; exact h (e ▸ hm)

/-- the fold of `getKerningGroups` over groups that are pairwise disjoint per side and have distinct names adds every group
    that keeps a member, in order, and skips none -/
theorem groups_fold (gs : List String) : ∀ (rest : List (String × List String)) (acc : Groups),
    (rest.map (·.1)).Nodup →
    ((rest.filter (fun e => is1 e.1)).flatMap (·.2)).Nodup →
    ((rest.filter (fun e => is2 e.1)).flatMap (·.2)).Nodup →
    (∀ e ∈ rest, alookup e.1 acc.side1 = none ∧ alookup e.1 acc.side2 = none) →
    (∀ e ∈ rest, is1 e.1 = true → ∀ m ∈ e.2, alookup m acc.member1 = none) →
    (∀ e ∈ rest, is2 e.1 = true → ∀ m ∈ e.2, alookup m acc.member2 = none) →
    (rest.foldl (groupStep gs) acc).side1 = acc.side1 ++ expect1 gs rest ∧
    (rest.foldl (groupStep gs) acc).side2 = acc.side2 ++ expect2 gs rest := by
  intro rest
  induction rest with
  | nil => intro acc _ _ _ _ _ _; simp [expect1, expect2]
  | cons e rest ih =>
    intro acc hn hd1 hd2 hs hm1 hm2
    simp only [foldl_cons]
    rw [map_cons, nodup_cons] at hn
    have hn' := hn.2
    have hne : ∀ e' ∈ rest, e'.1 ≠ e.1 := by
      intro e' he' heq
      exact hn.1 (by rw [← heq]; exact mem_map_of_mem (f := (·.1)) he')
    have hd1' : ((rest.filter (fun e => is1 e.1)).flatMap (·.2)).Nodup := by
      by_cases h : is1 e.1 = true
      · rw [filter_cons_of_pos (by simpa using h), flatMap_cons, nodup_append] at hd1; exact hd1.2.1
      · rw [filter_cons_of_neg (by simpa using h)] at hd1; exact hd1
    have hd2' : ((rest.filter (fun e => is2 e.1)).flatMap (·.2)).Nodup := by
      by_cases h : is2 e.1 = true
      · rw [filter_cons_of_pos (by simpa using h), flatMap_cons, nodup_append] at hd2; exact hd2.2.1
      · rw [filter_cons_of_neg (by simpa using h)] at hd2; exact hd2
    have hs' : ∀ e' ∈ rest, alookup e'.1 acc.side1 = none ∧ alookup e'.1 acc.side2 = none :=
      fun e' he' => hs e' (mem_cons_of_mem _ he')
    have hm1' : ∀ e' ∈ rest, is1 e'.1 = true → ∀ m ∈ e'.2, alookup m acc.member1 = none :=
      fun e' he' => hm1 e' (mem_cons_of_mem _ he')
    have hm2' : ∀ e' ∈ rest, is2 e'.1 = true → ∀ m ∈ e'.2, alookup m acc.member2 = none :=
      fun e' he' => hm2 e' (mem_cons_of_mem _ he')
    by_cases hem : (kept gs e).isEmpty = true
    · -- nothing kept: skipped
      have hstep : groupStep gs acc e = acc := by
        unfold groupStep; dsimp only; unfold kept at hem; rw [if_pos hem]
      rw [hstep]
      obtain ⟨r1, r2⟩ := ih acc hn' hd1' hd2' hs' hm1' hm2'
      refine ⟨?_, ?_⟩
      · rw [r1]; simp [expect1, hem]
      · rw [r2]; simp [expect2, hem]
    · by_cases h1 : is1 e.1 = true
      · have h2 := is1_not_is2 e.1 h1
        have hfresh := addGroup_fresh SIDE1_PREFIX.length acc.side1 acc.member1 e.1 (kept gs e)
          (fun m hm => hm1 e mem_cons_self h1 m ((mem_kept gs e m).mp hm).1) (hs e mem_cons_self).1
        have hstep : groupStep gs acc e = ⟨acc.side1 ++ [(e.1, sortStr (kept gs e))], acc.side2,
            acc.member1 ++ (kept gs e).map (fun m => (m, (e.1.drop SIDE1_PREFIX.length).toString)), acc.member2⟩ := by
          unfold groupStep; dsimp only; unfold kept at hem hfresh ⊢
          rw [if_neg hem]
          unfold is1 at h1
          rw [if_pos h1, hfresh]
        rw [hstep]
        have := ih ⟨acc.side1 ++ [(e.1, sortStr (kept gs e))], acc.side2,
            acc.member1 ++ (kept gs e).map (fun m => (m, (e.1.drop SIDE1_PREFIX.length).toString)), acc.member2⟩ hn' hd1' hd2'
          (by
            intro e' he'
            refine ⟨?_, (hs' e' he').2⟩
            dsimp only
            rw [alookup_append, (hs' e' he').1]
            have := hne e' he'
            simp [alookup, this.symm])
          (by
            intro e' he' h1' m hm
            dsimp only
            rw [alookup_append, hm1' e' he' h1' m hm]
            dsimp only
            rw [alookup_map_keys]
            intro hk
            have hme : m ∈ e.2 := ((mem_kept gs e m).mp hk).1
            rw [filter_cons_of_pos (by simpa using h1), flatMap_cons, nodup_append] at hd1
            exact hd1.2.2 m hme m (mem_flatMap.mpr ⟨e', mem_filter.mpr ⟨he', by simpa using h1'⟩, hm⟩) rfl)
          (by intro e' he'; exact hm2' e' he')
        obtain ⟨r1, r2⟩ := this
        dsimp only at r1 r2
        refine ⟨?_, ?_⟩
        · rw [r1]; simp [expect1, hem, h1]
        · rw [r2]; simp [expect2, hem, h2]
      · by_cases h2 : is2 e.1 = true
        · have hfresh := addGroup_fresh SIDE2_PREFIX.length acc.side2 acc.member2 e.1 (kept gs e)
            (fun m hm => hm2 e mem_cons_self h2 m ((mem_kept gs e m).mp hm).1) (hs e mem_cons_self).2
          have hstep : groupStep gs acc e = ⟨acc.side1, acc.side2 ++ [(e.1, sortStr (kept gs e))], acc.member1,
              acc.member2 ++ (kept gs e).map (fun m => (m, (e.1.drop SIDE2_PREFIX.length).toString))⟩ := by
            unfold groupStep; dsimp only; unfold kept at hem hfresh ⊢
            rw [if_neg hem]
            unfold is1 at h1
            unfold is2 at h2
            rw [if_neg h1, if_pos h2, hfresh]
          rw [hstep]
          have := ih ⟨acc.side1, acc.side2 ++ [(e.1, sortStr (kept gs e))], acc.member1,
              acc.member2 ++ (kept gs e).map (fun m => (m, (e.1.drop SIDE2_PREFIX.length).toString))⟩ hn' hd1' hd2'
            (by
              intro e' he'
              refine ⟨(hs' e' he').1, ?_⟩
              dsimp only
              rw [alookup_append, (hs' e' he').2]
              have := hne e' he'
              simp [alookup, this.symm])
            (by intro e' he'; exact hm1' e' he')
            (by
              intro e' he' h2' m hm
              dsimp only
              rw [alookup_append, hm2' e' he' h2' m hm]
              dsimp only
              rw [alookup_map_keys]
              intro hk
              have hme : m ∈ e.2 := ((mem_kept gs e m).mp hk).1
              rw [filter_cons_of_pos (by simpa using h2), flatMap_cons, nodup_append] at hd2
              exact hd2.2.2 m hme m (mem_flatMap.mpr ⟨e', mem_filter.mpr ⟨he', by simpa using h2'⟩, hm⟩) rfl)
          obtain ⟨r1, r2⟩ := this
          dsimp only at r1 r2
          refine ⟨?_, ?_⟩
          · rw [r1]; simp [expect1, hem, h1]
          · rw [r2]; simp [expect2, hem, h2]
        · have hstep : groupStep gs acc e = acc := by
            unfold groupStep; dsimp only; unfold kept at hem
            rw [if_neg hem]
            unfold is1 at h1
            unfold is2 at h2
            rw [if_neg h1, if_neg h2]
          rw [hstep]
          obtain ⟨r1, r2⟩ := ih acc hn' hd1' hd2' hs' hm1' hm2'
          refine ⟨?_, ?_⟩
          · rw [r1]; simp [expect1, h1]
          · rw [r2]; simp [expect2, h2]

end Ufo2ft.C05
