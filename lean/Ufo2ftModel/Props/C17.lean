import Ufo2ftModel.Spec.C17
/-! Property C17: theorems about the model. -/
namespace Ufo2ft.C17
open List

/-! ## list surgery at a known position -/

theorem insertAt_length (l : List α) (i : Nat) (x : α) : (insertAt l i x).length = l.length + 1 := by
  simp [insertAt]; omega

theorem decomp {l : List α} {p : Nat} {b : α} (h : l[p]? = some b) :
    ∃ pre post, l = pre ++ b :: post ∧ pre.length = p := by
  induction l generalizing p with
  | nil => simp at h
  | cons a l ih =>
    cases p with
    | zero => simp at h; exact ⟨[], l, by simp [h], rfl⟩
    | succ p =>
      simp at h
      obtain ⟨pre, post, e, hl⟩ := ih h
      exact ⟨a :: pre, post, by simp [e], by simp [hl]⟩

theorem set_mid (pre post : List α) (b x : α) : (pre ++ b :: post).set pre.length x = pre ++ x :: post := by
  induction pre with
  | nil => rfl
  | cons a pre ih => simp [ih]

theorem eraseIdx_mid (pre post : List α) (b : α) : (pre ++ b :: post).eraseIdx pre.length = pre ++ post := by
  induction pre with
  | nil => rfl
  | cons a pre ih => simp [ih]

theorem insertAt_mid (pre post : List α) (x : α) : insertAt (pre ++ post) pre.length x = pre ++ x :: post := by
  simp [insertAt]

theorem insertAt_mid1 (pre post : List α) (b x : α) :
    insertAt (pre ++ b :: post) (pre.length + 1) x = pre ++ b :: x :: post := by
  have := insertAt_mid (pre ++ [b]) post x
  simpa using this

theorem insertAt_flatMap (f : α → List β) (l : List α) (i : Nat) (x : α) :
    (insertAt l i x).flatMap f = (l.take i).flatMap f ++ f x ++ (l.drop i).flatMap f := by
  simp [insertAt]

theorem insertAt_flatMap_nil (f : α → List β) (l : List α) (i : Nat) (x : α) (h : f x = []) :
    (insertAt l i x).flatMap f = l.flatMap f := by
  rw [insertAt_flatMap, h, append_nil, ← flatMap_append, take_append_drop]

theorem splice_flatMap_nil (f : α → List β) (l x : List α) (m : Nat) (h : x.flatMap f = []) :
    (l.take m ++ x ++ l.drop m).flatMap f = l.flatMap f := by
  rw [flatMap_append, flatMap_append, h, append_nil, ← flatMap_append, take_append_drop]

theorem findIdx_decomp {q : α → Bool} {l : List α} {i : Nat} (h : l.findIdx? q = some i) :
    ∃ pre x post, l = pre ++ x :: post ∧ pre.length = i ∧ q x = true ∧ ∀ y ∈ pre, q y = false := by
  induction l generalizing i with
  | nil => simp at h
  | cons a l ih =>
    rw [findIdx?_cons] at h
    by_cases ha : q a = true
    · simp [ha] at h; subst h
      exact ⟨[], a, l, rfl, rfl, ha, by simp⟩
    · simp [ha] at h
      obtain ⟨j, hj, rfl⟩ := h
      obtain ⟨pre, x, post, e, hl, hx, hp⟩ := ih hj
      refine ⟨a :: pre, x, post, by simp [e], by simp [hl], hx, ?_⟩
      intro y hy
      simp at hy
      rcases hy with rfl | hy
      · simpa using ha
      · exact hp y hy

theorem getElem?_mid (pre post : List α) (b : α) : (pre ++ b :: post)[pre.length]? = some b := by
  simp

/-- the features `walkBack` inserts, in the order they end up in the file -/
def walkDeps : List Feat → List Nat → List Feat
  | [], _ => []
  | f :: rest, ins => if ins.contains f.gid then [] else walkDeps rest (f.gid :: ins) ++ [f]

theorem walkBack_spec (index : Nat) (rev : List Feat) (st : St) (A B : File)
    (hs : st.stmts = A ++ B) (hA : A.length = index) :
    (walkBack index rev st).stmts = A ++ (walkDeps rev st.inserted).map genFeat ++ B ∧
    (walkBack index rev st).inserted = (walkDeps rev st.inserted).map (·.gid) ++ st.inserted := by
  induction rev generalizing st B with
  | nil => simp [walkBack, walkDeps, hs]
  | cons f rest ih =>
    unfold walkBack walkDeps
    by_cases hf : f.gid ∈ st.inserted
    · simp [hf, hs]
    · have hc : st.inserted.contains f.gid = false := by simpa using hf
      simp only [hc, Bool.false_eq_true, if_false]
      have := ih { stmts := insertAt st.stmts index (genFeat f), indices := index :: st.indices.map (· + 1),
                   inserted := f.gid :: st.inserted } (genFeat f :: B)
        (by simp only [hs, ← hA]; exact insertAt_mid A B _)
      simp only [this]
      simp

/-- explicit result of `splice` -/
theorem splice_eq (pre post : File) (o : Origin) (k : BKind) (tag : String) (ext : Bool) (bpre bpost : List Item) (cm : Item) :
    splice (pre ++ .block o k tag ext (bpre ++ cm :: bpost) :: post) pre.length o k tag ext (bpre ++ cm :: bpost) bpre.length =
      if bpre.all Item.isComment && (cm :: bpost).all Item.isComment then (pre ++ post, pre.length)
      else if bpre.all Item.isComment then (pre ++ .block o k tag ext (bpre ++ bpost) :: post, pre.length)
      else if (cm :: bpost).all Item.isComment then (pre ++ .block o k tag ext (bpre ++ bpost) :: post, pre.length + 1)
      else (pre ++ .block o k tag ext bpre :: .block .split .feature tag false bpost :: post, pre.length + 1) := by
  unfold splice
  have e1 : (bpre ++ cm :: bpost).take bpre.length = bpre := by simp
  have e2 : (bpre ++ cm :: bpost).drop bpre.length = cm :: bpost := by simp
  have e3 : (bpre ++ cm :: bpost).eraseIdx bpre.length = bpre ++ bpost := eraseIdx_mid _ _ _
  have e4 : (bpre ++ bpost).take bpre.length = bpre := by simp
  have e5 : (bpre ++ bpost).drop bpre.length = bpost := by simp
  simp only [e1, e2, e3, e4, e5, set_mid, eraseIdx_mid, insertAt_mid1]

/-- what `_insert` makes of the block `block o .feature tag ext (bpre ++ marker :: bpost)` and the statements `G` that go
to the marker -/
def placed (o : Origin) (tag : String) (ext : Bool) (bpre bpost : List Item) (cm : Item) (G : File) : File :=
  if bpre.all Item.isComment && (cm :: bpost).all Item.isComment then G
  else if bpre.all Item.isComment then G ++ [.block o .feature tag ext (bpre ++ bpost)]
  else if (cm :: bpost).all Item.isComment then .block o .feature tag ext (bpre ++ bpost) :: G
  else .block o .feature tag ext bpre :: G ++ [.block .split .feature tag false bpost]

theorem holdsComment_block {c : Nat} {x : Stmt} (h : holdsComment c x = true) :
    ∃ o tag ext body, x = .block o .feature tag ext body ∧ body.any (isCommentUid c) = true := by
  cases x with
  | block o k tag ext body =>
    cases k <;> simp [holdsComment] at h
    exact ⟨o, tag, ext, body, rfl, by simpa using h⟩
  | _ => simp [holdsComment] at h

theorem isCommentUid_eq {c : Nat} {y : Item} (h : isCommentUid c y = true) : ∃ txt, y = .comment c txt := by
  cases y with
  | comment u t => simp [isCommentUid] at h; exact ⟨t, by rw [h]⟩
  | _ => simp [isCommentUid] at h

theorem placeMarked_spec {st st' : St} {rev : List Feat} {f : Feat} {c : Nat}
    (h : placeMarked st rev f c = .ok st') :
    ∃ pre post o tag ext bpre txt bpost,
      st.stmts = pre ++ .block o .feature tag ext (bpre ++ .comment c txt :: bpost) :: post ∧
      (∀ s ∈ pre, holdsComment c s = false) ∧ (∀ it ∈ bpre, isCommentUid c it = false) ∧
      st'.stmts = pre ++ placed o tag ext bpre bpost (.comment c txt)
          ((walkDeps rev (f.gid :: st.inserted)).map genFeat ++ [genFeat f]) ++ post ∧
      st'.inserted = (walkDeps rev (f.gid :: st.inserted)).map (·.gid) ++ f.gid :: st.inserted := by
  unfold placeMarked at h
  split at h
  · cases h
  · rename_i p hp
    obtain ⟨pre, x, post, e, hl, hx, hpre⟩ := findIdx_decomp hp
    obtain ⟨o, tag, ext, body, rfl, hb⟩ := holdsComment_block hx
    subst hl
    simp only [e, getElem?_mid] at h
    split at h
    · cases h
    · rename_i mi hmi
      obtain ⟨bpre, y, bpost, eb, hbl, hy, hbpre⟩ := findIdx_decomp hmi
      obtain ⟨txt, rfl⟩ := isCommentUid_eq hy
      subst hbl
      subst eb
      refine ⟨pre, post, o, tag, ext, bpre, txt, bpost, e, hpre, hbpre, ?_⟩
      rw [splice_eq] at h
      injection h with h
      subst h
      unfold placed
      split
      · have := walkBack_spec pre.length rev
          { stmts := insertAt (pre ++ post) pre.length (genFeat f), indices := st.indices ++ [pre.length], inserted := f.gid :: st.inserted }
          pre (genFeat f :: post) (by simp [insertAt_mid]) rfl
        simp_all
      · split
        · have := walkBack_spec pre.length rev
            { stmts := insertAt (pre ++ .block o .feature tag ext (bpre ++ bpost) :: post) pre.length (genFeat f),
              indices := st.indices ++ [pre.length], inserted := f.gid :: st.inserted }
            pre (genFeat f :: .block o .feature tag ext (bpre ++ bpost) :: post) (by simp [insertAt_mid]) rfl
          simp_all
        · split
          · have := walkBack_spec (pre.length + 1) rev
              { stmts := insertAt (pre ++ .block o .feature tag ext (bpre ++ bpost) :: post) (pre.length + 1) (genFeat f),
                indices := st.indices ++ [pre.length + 1], inserted := f.gid :: st.inserted }
              (pre ++ [.block o .feature tag ext (bpre ++ bpost)]) (genFeat f :: post) (by simp [insertAt_mid1]) (by simp)
            simp_all
          · have := walkBack_spec (pre.length + 1) rev
              { stmts := insertAt (pre ++ .block o .feature tag ext bpre :: .block .split .feature tag false bpost :: post) (pre.length + 1) (genFeat f),
                indices := st.indices ++ [pre.length + 1], inserted := f.gid :: st.inserted }
              (pre ++ [.block o .feature tag ext bpre]) (genFeat f :: .block .split .feature tag false bpost :: post)
              (by simp [insertAt_mid1]) (by simp)
            simp_all


/-! ## the skeleton is invariant -/

theorem bodyToks_append (g : Bool) (pl : List Place) (tag : String) (a b : List Item) :
    bodyToks g pl tag (a ++ b) = bodyToks g pl tag a ++ bodyToks g pl tag b := by
  induction a with
  | nil => rfl
  | cons x a ih => cases x <;> simp [bodyToks, ih]

theorem bodyToks_comments (g : Bool) (tag : String) (l : List Item) (h : l.all Item.isComment = true) :
    bodyToks g [] tag l = [] := by
  induction l with
  | nil => rfl
  | cons x l ih =>
    simp only [all_cons, Bool.and_eq_true] at h
    obtain ⟨h1, h2⟩ := h
    cases x <;> simp [Item.isComment] at h1
    simp [bodyToks, subst, ih h2]

abbrev S := stmtToks true false []

theorem S_gen (g : Gen) : S (.gen g) = [] := by cases g <;> rfl

theorem all_mid (bpre bpost : List Item) (u : Nat) (t : String) :
    (bpre ++ Item.comment u t :: bpost).all Item.isComment = (bpre ++ bpost).all Item.isComment := by
  simp [Item.isComment]

theorem S_block (o : Origin) (tag : String) (ext : Bool) (body : List Item) :
    S (.block o .feature tag ext body) =
      (match o with
       | .user u => if body.all Item.isComment then [] else [Tok.fopen u tag ext]
       | .split => []) ++ bodyToks false [] tag body := by
  cases o with
  | user u =>
    by_cases h : body.all Item.isComment = true
    · simp [S, stmtToks, h]
    · simp [S, stmtToks, h]
  | split => simp [S, stmtToks]

theorem skel_placed (o : Origin) (tag : String) (ext : Bool) (bpre bpost : List Item) (c : Nat) (txt : String) (G : File)
    (hG : G.flatMap S = []) :
    (placed o tag ext bpre bpost (.comment c txt) G).flatMap S =
      S (.block o .feature tag ext (bpre ++ .comment c txt :: bpost)) := by
  have hc : bodyToks false [] tag (bpre ++ Item.comment c txt :: bpost) = bodyToks false [] tag (bpre ++ bpost) := by
    simp [bodyToks_append, bodyToks, subst]
  unfold placed
  split
  · rename_i h
    simp only [Bool.and_eq_true] at h
    have hall : (bpre ++ Item.comment c txt :: bpost).all Item.isComment = true := by
      rw [all_append]; simp [h.1, h.2]
    rw [hG, S_block, bodyToks_comments _ _ _ hall]
    cases o <;> simp [hall]
  · split
    · rw [flatMap_append, hG]
      simp only [flatMap_cons, flatMap_nil, append_nil, nil_append]
      rw [S_block, S_block, all_mid, hc]
    · split
      · rw [flatMap_cons, hG, append_nil, S_block, S_block, all_mid, hc]
      · rename_i h1 h2 h3
        have hb : bpre.all Item.isComment = false := by simpa using h2
        have hall : (bpre ++ Item.comment c txt :: bpost).all Item.isComment = false := by
          rw [all_append, hb]; rfl
        simp only [flatMap_cons, flatMap_append, flatMap_nil, hG, append_nil]
        rw [S_block, S_block, S_block, hall, hb, hc, bodyToks_append]
        cases o <;> simp

theorem S_genFeats (l : List Feat) : (l.map genFeat).flatMap S = [] := by
  induction l with
  | nil => rfl
  | cons f l ih => simp [flatMap_cons, genFeat, S_gen, ih]

theorem skel_placeMarked {st st' : St} {rev : List Feat} {f : Feat} {c : Nat}
    (h : placeMarked st rev f c = .ok st') : skel st'.stmts = skel st.stmts := by
  obtain ⟨pre, post, o, tag, ext, bpre, txt, bpost, e, _, _, e', _⟩ := placeMarked_spec h
  unfold skel
  rw [e, e']
  simp only [flatMap_append, flatMap_cons]
  have hG : flatMap S (map genFeat (walkDeps rev (f.gid :: st.inserted)) ++ [genFeat f]) = [] := by
    rw [flatMap_append, S_genFeats]; simp [genFeat, S_gen]
  rw [skel_placed _ _ _ _ _ _ _ _ hG]
  simp [S]

theorem skel_loop1 (ic : List Marker) (fs rev : List Feat) (st st' : St)
    (h : loop1 ic fs rev st = .ok st') : skel st'.stmts = skel st.stmts := by
  induction fs generalizing rev st with
  | nil => simp [loop1] at h; rw [h]
  | cons f fs ih =>
    unfold loop1 at h
    split at h
    · split at h
      · rename_i st1 h1
        rw [ih _ _ h, skel_placeMarked h1]
      · cases h
    · exact ih _ _ h

theorem skel_loop2 (fs : List Feat) (st : St) : skel (loop2 fs st).stmts = skel st.stmts := by
  induction fs generalizing st with
  | nil => rfl
  | cons f fs ih =>
    unfold loop2
    split
    · exact ih st
    · rw [ih]
      exact insertAt_flatMap_nil _ _ _ _ (S_gen _)

theorem S_defGroup (l : List Nat) : (defGroup l).flatMap S = [] := by
  unfold defGroup
  split
  · rfl
  · simp [S_gen]

theorem skel_insert {f o : File} {ic : Option (List Marker)} {w : Writer} {feats : List Feat}
    (h : insert f ic w feats = .ok o) : skel o = skel f := by
  unfold insert at h
  cases h1 : loop1 (ic.getD []) feats [] { stmts := f, indices := [], inserted := [] } with
  | error e => simp [h1] at h
  | ok st1 =>
    simp only [h1] at h
    have e1 := skel_loop1 _ _ _ _ _ h1
    cases hm : (loop2 feats st1).indices.min? with
    | none => simp [hm] at h
    | some m =>
      simp only [hm] at h
      injection h with h
      subst h
      have e2 := skel_loop2 feats st1
      simp only at e1
      unfold skel at *
      simp only [flatMap_append, S_defGroup, nil_append]
      rw [← e1, ← e2]
      split
      · rfl
      · have : (w.lookups.map (fun g => Stmt.gen (.lookup g))).flatMap S = [] := by
          induction w.lookups with
          | nil => rfl
          | cons a l ih => simp [flatMap_cons, S_gen, ih]
        exact splice_flatMap_nil S _ _ m this

/-- one writer leaves the user's statements as they are -/
theorem skel_write {w : Writer} {f o : File} (h : write w f = .ok o) : skel o = skel f := by
  unfold write at h
  simp only at h
  split at h
  · injection h with h; rw [h]
  · split at h
    · injection h with h; rw [h]
    · exact skel_insert h

theorem S_gdef (o : Origin) (ext : Bool) (body : List Item) (items : List Nat) :
    S (.block o .table "GDEF" ext (body ++ items.map Item.gen)) = S (.block o .table "GDEF" ext body) := by
  have : (items.map Item.gen).filter notGen = [] := by
    induction items with
    | nil => rfl
    | cons a l ih => simp [notGen, ih]
  cases o <;> simp [S, stmtToks, filter_append, this]

theorem skel_gdefWrite (a : Bool) (items : List Nat) (g : Nat) (f : File) : skel (gdefWrite a items g f) = skel f := by
  unfold gdefWrite
  split
  · rfl
  · split
    · rename_i p hp
      obtain ⟨pre, x, post, e, hl, hx, _⟩ := findIdx_decomp hp
      subst hl
      rw [e, getElem?_mid]
      cases x with
      | block o k tag ext body =>
        simp only [set_mid]
        simp only [isGdefTable, Bool.and_eq_true, beq_iff_eq] at hx
        obtain ⟨rfl, rfl⟩ := hx
        unfold skel
        simp only [flatMap_append, flatMap_cons, S_gdef]
      | _ => rfl
    · unfold skel; simp [flatMap_append, S_gen]

theorem skel_step {s : Step} {f o : File} (h : step s f = .ok o) : skel o = skel f := by
  cases s with
  | writer w => exact skel_write h
  | gdef i => simp [step] at h; rw [← h]; exact skel_gdefWrite _ _ _ f

/-- **C17_subsequence**: for any feature file and any sequence of writers, after every writer the file - with generated
statements, comments inside feature blocks (the markers are such) and the boundaries of split-made blocks erased - reads
exactly as the user's file read the same way: same statements, same ids, same order, same enclosing blocks. -/
theorem C17_subsequence (steps : List Step) (f : File) (outs : List File) (h : runAll steps f = .ok outs) :
    ∀ o ∈ outs, skel o = skel f := by
  induction steps generalizing f outs with
  | nil => simp [runAll] at h; subst h; simp
  | cons s ss ih =>
    unfold runAll at h
    split at h
    · cases h
    · rename_i f' hs
      split at h
      · cases h
      · rename_i l hl
        injection h with h
        subst h
        intro o ho
        simp at ho
        rcases ho with rfl | ho
        · exact skel_step hs
        · rw [ih f' l hl o ho, skel_step hs]


/-! ## which markers are used, which features are generated -/

def markerUid : Item → Option Nat
  | .comment u t => if isMarker t then some u else none
  | _ => none

@[simp] theorem markerUid_leaf (u : Nat) : markerUid (.leaf u) = none := rfl
@[simp] theorem markerUid_sub (u : Nat) (cs : List String) : markerUid (.sub u cs) = none := rfl
@[simp] theorem markerUid_gen (g : Nat) : markerUid (.gen g) = none := rfl
@[simp] theorem markerUid_comment (u : Nat) (t : String) : markerUid (.comment u t) = if isMarker t then some u else none := rfl

theorem firstMarkerIn_eq (body : List Item) : firstMarkerIn body = (body.filterMap markerUid).head? := by
  induction body with
  | nil => rfl
  | cons x l ih =>
    cases x with
    | comment u t =>
      by_cases h : isMarker t = true
      · simp [firstMarkerIn, h]
      · simp [firstMarkerIn, h, ih]
    | _ => simp [firstMarkerIn, ih, filterMap_cons]

theorem itemMatches_d1 (isF : Bool) (tag : String) (ou : Option Nat) (body : List Item) :
    (itemMatches isMarker (isF, tag, ou) body).filterMap depth1 =
      if isF then (body.filterMap markerUid).map (fun c => (⟨tag, c⟩ : Marker)) else [] := by
  induction body with
  | nil => simp [itemMatches]
  | cons x l ih =>
    cases x with
    | comment u t =>
      by_cases h : isMarker t = true <;> cases isF <;> simp_all [itemMatches, depth1]
    | sub u cs =>
      simp only [itemMatches, filterMap_append, ih]
      have : (map (fun _ => ({ blocks := [(isF, tag, ou), (false, "", some u)], comment := none } : Match)) (filter isMarker cs)).filterMap depth1 = [] := by
        induction (filter isMarker cs) with
        | nil => rfl
        | cons a l ih => simp [depth1, ih]
      simp [this, filterMap_cons]
    | _ => simp [itemMatches, ih, filterMap_cons]

theorem find_map_tag (tag t : String) (l : List Nat) (rest : List Marker) :
    (l.map (fun c => (⟨tag, c⟩ : Marker)) ++ rest).find? (·.tag == t) =
      if tag == t then (match l.head? with | some c => some ⟨tag, c⟩ | none => rest.find? (·.tag == t))
      else rest.find? (·.tag == t) := by
  cases l with
  | nil => simp
  | cons a l =>
    by_cases h : (tag == t) = true
    · simp [h]
    · simp only [h]
      simp only [Bool.not_eq_true] at h
      induction (a :: l) with
      | nil => simp
      | cons b l ih => simp [h, ih]

/-- **C17_collect (1/2)**: the depth-1 matches of `findCommentPattern`, looked up by tag, are `firstMarker` -/
theorem fcp_find (f : File) (t : String) :
    ((findCommentPattern isMarker f).filterMap depth1).find? (·.tag == t) = (firstMarker f t).map (fun c => ⟨t, c⟩) := by
  induction f with
  | nil => rfl
  | cons s l ih =>
    cases s with
    | leaf u => simpa [findCommentPattern, firstMarker] using ih
    | gen g => simpa [findCommentPattern, firstMarker] using ih
    | comment u txt =>
      by_cases h : isMarker txt = true <;> simpa [findCommentPattern, firstMarker, h, depth1] using ih
    | block o k tag ext body =>
      simp only [findCommentPattern, filterMap_append, itemMatches_d1]
      cases k with
      | feature =>
        simp only [beq_self_eq_true, if_true, find_map_tag, firstMarker, firstMarkerIn_eq]
        by_cases ht : (tag == t) = true
        · simp only [ht, if_true]
          have : tag = t := by simpa using ht
          subst this
          cases (body.filterMap markerUid).head? with
          | none => simpa using ih
          | some c => simp
        · simp only [ht]; simpa using ih
      | _ => simpa [firstMarker] using ih

theorem collectLoop_find (feats : List String) (ms : List Match) (acc : List Marker) (t : String) :
    (collectLoop feats ms acc).find? (·.tag == t) =
      match acc.find? (·.tag == t) with
      | some m => some m
      | none => if feats.contains t then (ms.filterMap depth1).find? (·.tag == t) else none := by
  induction ms generalizing acc with
  | nil => simp only [collectLoop, filterMap_nil, find?_nil, ite_self]; cases acc.find? (·.tag == t) <;> rfl
  | cons m ms ih =>
    unfold collectLoop
    cases hm : depth1 m with
    | none => simp only [hm, filterMap_cons]; exact ih acc
    | some mk =>
      simp only [filterMap_cons, hm, find?_cons]
      split
      · rename_i hc
        rw [ih]
        simp only [Bool.and_eq_true, Bool.not_eq_true'] at hc
        rw [find?_append]
        cases ha : acc.find? (·.tag == t) with
        | some x => simp
        | none =>
          simp only [Option.none_or, find?_cons, find?_nil]
          by_cases hk : (mk.tag == t) = true
          · have : mk.tag = t := by simpa using hk
            have h1 : mk.tag ∈ feats := by simpa using hc.1
            simp [← this, h1]
          · simp [hk]
      · rename_i hc
        rw [ih]
        cases ha : acc.find? (·.tag == t) with
        | some x => rfl
        | none =>
          simp only
          by_cases hk : (mk.tag == t) = true
          · have e : mk.tag = t := by simpa using hk
            simp only [hk]
            -- the candidate was refused: its tag is not wanted (it is in `acc` is impossible, `acc` has no `t`)
            have hnot : t ∉ feats := by
              intro hin
              have h1 : feats.contains mk.tag = true := by rw [e]; simpa using hin
              have h2 : (acc.any fun x => x.tag == mk.tag) = false := by
                rw [e]
                cases hany : acc.any fun x => x.tag == t with
                | false => rfl
                | true =>
                  obtain ⟨x, hx, hxt⟩ := any_eq_true.mp hany
                  exact absurd hxt (find?_eq_none.mp ha x hx)
              exact hc (by rw [h1, h2]; rfl)
            simp [hnot]
          · simp [hk]

/-- **C17_collect**: `collectInsertMarkers` returns, for each wanted tag, the first comment matching the pattern that
stands directly inside a top-level feature block with that tag - and nothing for other tags. -/
theorem C17_collect (f : File) (feats : List String) (t : String) :
    (collectInsertMarkers f feats).find? (·.tag == t) =
      if feats.contains t then (firstMarker f t).map (fun c => ⟨t, c⟩) else none := by
  unfold collectInsertMarkers
  rw [collectLoop_find, fcp_find]
  rfl

theorem findFeatureTags_contains (f : File) (t : String) : (findFeatureTags f).contains t = hasFeatureBlock f t := by
  induction f with
  | nil => rfl
  | cons s l ih =>
    unfold hasFeatureBlock at ih ⊢
    rw [any_cons, ← ih]
    have hcomm : ∀ tag : String, (tag == t) = decide (t = tag) := fun tag => by
      by_cases h : t = tag
      · subst h; simp
      · simp [h, Ne.symm h]
    cases s with
    | block o k tag ext body => cases k <;> simp [findFeatureTags, hcomm]
    | gen g => cases g <;> simp [findFeatureTags, hcomm]
    | _ => simp [findFeatureTags]

/-- the marker `setContext` records for tag `t` is the one the specification names -/
theorem setContext_marker (w : Writer) (f : File) (t : String) :
    ((setContext w f).insertComments.getD []).find? (·.tag == t) = (markerOf f w t).map (fun c => ⟨t, c⟩) := by
  unfold setContext markerOf
  cases hs : w.skip <;> cases hp : w.pattern <;> simp [C17_collect]
  split <;> simp_all

theorem any_tag_eq_find (l : List Marker) (t : String) : l.any (·.tag == t) = (l.find? (·.tag == t)).isSome := by
  induction l with
  | nil => rfl
  | cons a l ih => by_cases h : (a.tag == t) = true <;> simp [h, ih]

/-- **C17_skip**: in skip mode a feature is to be generated iff the file has no feature block with that tag, or has one
holding a marker; in append mode every feature is. -/
theorem C17_skip (w : Writer) (f : File) : (setContext w f).todo = w.features.filter (specTodo f w) := by
  unfold setContext
  cases hs : w.skip with
  | false =>
    simp only [Bool.false_eq_true, if_false]
    symm; apply filter_eq_self.mpr
    intro t ht; simp [specTodo, hs, ht]
  | true =>
    simp only [if_true]
    apply filter_congr
    intro t ht
    have hc : w.features.contains t = true := by simpa using ht
    show (!(match (if w.pattern then some (collectInsertMarkers f w.features) else none) with
            | some l => (findFeatureTags f).filter (fun t => !(l.any (·.tag == t)))
            | none => findFeatureTags f).contains t) = specTodo f w t
    cases hp : w.pattern with
    | false =>
      simp only [Bool.false_eq_true, if_false]
      rw [findFeatureTags_contains]
      simp only [specTodo, markerOf, hs, hp, hc]
      cases hasFeatureBlock f t <;> simp
    | true =>
      simp only [if_true]
      have : ((findFeatureTags f).filter (fun t => !(collectInsertMarkers f w.features).any (·.tag == t))).contains t
          = (hasFeatureBlock f t && !(firstMarker f t).isSome) := by
        rw [← findFeatureTags_contains]
        have e : (collectInsertMarkers f w.features).any (·.tag == t) = (firstMarker f t).isSome := by
          rw [any_tag_eq_find, C17_collect, hc]; cases firstMarker f t <;> rfl
        rw [← e]
        rw [Bool.eq_iff_iff]
        simp only [contains_eq_mem, mem_filter, decide_eq_true_eq, Bool.and_eq_true, Bool.not_eq_true']
      rw [this]
      simp only [specTodo, markerOf, hs, hp, hc]
      cases hfm : firstMarker f t <;> cases hasFeatureBlock f t <;> simp


/-! ## the marker pattern -/

theorem dropWhile_ws (ws rest : List Char) (h : ws.all isPyWs = true) :
    (ws ++ markerLit ++ rest).dropWhile isPyWs = markerLit ++ rest := by
  induction ws with
  | nil => rfl
  | cons a ws ih =>
    simp only [all_cons, Bool.and_eq_true] at h
    simp only [cons_append, dropWhile_cons, h.1, if_true]
    exact ih h.2

/-- **C17_case**: a comment is an insertion marker iff its text is white space followed by exactly `# Automatic Code`
(this case, this spacing) followed by anything. -/
theorem C17_case (t : String) :
    isMarker t = true ↔ ∃ ws rest, t.toList = ws ++ markerLit ++ rest ∧ ws.all isPyWs = true := by
  unfold isMarker
  constructor
  · intro h
    obtain ⟨rest, hr⟩ := isPrefixOf_iff_prefix.mp h
    refine ⟨t.toList.takeWhile isPyWs, rest, ?_, ?_⟩
    · rw [append_assoc, hr, takeWhile_append_dropWhile]
    · simp
  · rintro ⟨ws, rest, e, hws⟩
    rw [e, dropWhile_ws ws rest hws]
    exact isPrefixOf_iff_prefix.mpr ⟨rest, rfl⟩

example : isMarker "# Automatic Code" = true := by decide
example : isMarker " \t# Automatic Code Start" = true := by decide
example : isMarker "# automatic code" = false := by decide
example : isMarker "# Automatic code" = false := by decide
example : isMarker "#Automatic Code" = false := by decide
example : isMarker "x # Automatic Code" = false := by decide

/-! ## the writer list -/

def isGsub (w : Nat × String) : Bool := w.2 == "GSUB"

theorem partLoop_eq (l g o : List (Nat × String)) :
    partLoop l g o = (g ++ l.filter isGsub) ++ (o ++ l.filter (fun w => !isGsub w)) := by
  induction l generalizing g o with
  | nil => simp [partLoop]
  | cons w l ih =>
    unfold partLoop
    by_cases h : (w.2 == "GSUB") = true
    · simp [h, ih, isGsub]
    · simp [h, ih, isGsub]

def expand1 (sub : List (Nat × String)) : WArg → List (Nat × String)
  | .ellipsis => sub
  | .writer i t => [(i, t)]

def nEll (l : List WArg) : Nat := (l.filter (· == .ellipsis)).length

theorem loadLoop_eq (sub : List (Nat × String)) (l : List WArg) (seen : Bool) (acc : List (Nat × String)) :
    loadLoop sub l seen acc =
      if nEll l + (if seen then 1 else 0) ≥ 2 then .error .ellipsisTwice else .ok (acc ++ l.flatMap (expand1 sub)) := by
  induction l generalizing seen acc with
  | nil => cases seen <;> simp [loadLoop, nEll]
  | cons a l ih =>
    cases a with
    | ellipsis =>
      unfold loadLoop
      cases seen with
      | true => simp [nEll]
      | false =>
        simp only [Bool.false_eq_true, if_false, ih]
        simp [nEll, expand1, flatMap_cons, append_assoc]
    | writer i t =>
      unfold loadLoop
      rw [ih]
      simp [nEll, expand1, flatMap_cons, append_assoc]

/-- **C17_gsub_first / C17_ellipsis**: the writers are the argument list with the ellipsis replaced by the lib's (or the
default) writers, GSUB writers first, each group in the given order; two ellipses are an error. -/
theorem C17_gsub_first (arg : Option (List WArg)) (lib : Option (List (Nat × String))) (dflt : List (Nat × String)) :
    holdsWriters arg lib dflt (initFeatureWriters arg lib dflt) = true := by
  unfold initFeatureWriters loadCustom holdsWriters
  rw [loadLoop_eq]
  have e1 : nEll (arg.getD [.ellipsis]) = ellipses arg := rfl
  have e2 : (arg.getD [.ellipsis]).flatMap (expand1 (lib.getD dflt)) = expand arg (lib.getD dflt) := by
    unfold expand; congr 1
  simp only [Bool.false_eq_true, if_false, Nat.add_zero, e1]
  by_cases h : ellipses arg ≥ 2
  · simp [h]
  · simp only [h, if_false, nil_append, partLoop_eq, e2]
    have : ellipses arg ≤ 1 := by omega
    simp [this]
    rfl

theorem C17_ellipsis (arg : Option (List WArg)) (lib : Option (List (Nat × String))) (dflt : List (Nat × String)) :
    initFeatureWriters arg lib dflt = .error .ellipsisTwice ↔ ellipses arg ≥ 2 := by
  unfold initFeatureWriters loadCustom
  rw [loadLoop_eq]
  have e1 : nEll (arg.getD [.ellipsis]) = ellipses arg := rfl
  simp only [Bool.false_eq_true, if_false, Nat.add_zero, e1]
  by_cases h : ellipses arg ≥ 2 <;> simp [h]

/-- **C17_gsub_inv** (the part that is a fact about the code): no shipped writer declares `tableTag = "GSUB"`, so the
GSUB-first partition never reorders the default list, and every generated statement comes from a GPOS or GDEF writer.
That feaLib then builds the same GSUB is measured by the harness on every end-to-end case, not proved. -/
theorem C17_gsub_inv_partial : shippedWriters.all (fun w => w.2 != "GSUB") = true := by decide

example : initFeatureWriters (some [.writer 1 "GPOS", .ellipsis, .writer 2 "GSUB"]) none [(3, "GPOS"), (4, "GSUB")]
    = .ok [(4, "GSUB"), (2, "GSUB"), (1, "GPOS"), (3, "GPOS")] := by rfl
example : initFeatureWriters (some [.ellipsis, .ellipsis]) none [] = .error .ellipsisTwice := by rfl


/-! ## placement -/

abbrev P (pl : List Place) := stmtToks false true pl

theorem P_genFeat (pl : List Place) (f : Feat) : P pl (genFeat f) = [featTok f] := rfl

theorem P_genFeats (pl : List Place) (l : List Feat) : (l.map genFeat).flatMap (P pl) = l.map featTok := by
  induction l with
  | nil => rfl
  | cons f l ih => simp only [map_cons, flatMap_cons, ih, P_genFeat]; rfl

theorem P_block (pl : List Place) (o : Origin) (tag : String) (ext : Bool) (body : List Item) :
    P pl (.block o .feature tag ext body) = bodyToks true pl tag body := by
  cases o <;> simp [P, stmtToks]

@[simp] theorem itemUid_leaf (u : Nat) : itemUid (.leaf u) = none := rfl
@[simp] theorem itemUid_sub (u : Nat) (cs : List String) : itemUid (.sub u cs) = none := rfl
@[simp] theorem itemUid_gen (g : Nat) : itemUid (.gen g) = none := rfl
@[simp] theorem itemUid_comment (u : Nat) (t : String) : itemUid (.comment u t) = some u := rfl

/-- an entry for a comment that does not occur changes nothing -/
theorem bodyToks_skip (g : Bool) (e : Place) (pl : List Place) (tag : String) (l : List Item) (h : e.comment ∉ itemUids l) :
    bodyToks g (e :: pl) tag l = bodyToks g pl tag l := by
  induction l with
  | nil => rfl
  | cons x l ih =>
    cases x with
    | comment u t =>
      simp only [itemUids, filterMap_cons, itemUid_comment, mem_cons, not_or] at h
      have hne : (e.comment == u) = false := by simpa using h.1
      simp only [bodyToks, subst, find?_cons, hne, Bool.and_false]
      rw [show bodyToks g (e :: pl) tag l = bodyToks g pl tag l from ih (by simpa [itemUids] using h.2)]
    | leaf u => simp only [bodyToks]; rw [ih (by simpa [itemUids, filterMap_cons] using h)]
    | sub u cs => simp only [bodyToks]; rw [ih (by simpa [itemUids, filterMap_cons] using h)]
    | gen u => simp only [bodyToks]; rw [ih (by simpa [itemUids, filterMap_cons] using h)]

/-- entries for other tags change nothing -/
theorem bodyToks_noTag (g : Bool) (pl : List Place) (tag : String) (l : List Item) (h : ∀ e ∈ pl, e.tag ≠ tag) :
    bodyToks g pl tag l = bodyToks g [] tag l := by
  have hs : ∀ u, subst pl tag u = [] := by
    intro u
    unfold subst
    have : pl.find? (fun e => e.tag == tag && e.comment == u) = none := by
      apply find?_eq_none.mpr
      intro e he
      have := h e he
      simp [this]
    rw [this]
  induction l with
  | nil => rfl
  | cons x l ih => cases x <;> simp [bodyToks, hs, ih] <;> rfl

theorem P_skip (e : Place) (pl : List Place) (s : Stmt) (h : e.comment ∉ blockCommentUids s) :
    P (e :: pl) s = P pl s := by
  cases s with
  | block o k tag ext body =>
    cases k with
    | feature =>
      rw [P_block, P_block]
      exact bodyToks_skip _ _ _ _ _ (by simpa [blockCommentUids] using h)
    | _ => cases o <;> rfl
  | gen g => cases g <;> rfl
  | _ => rfl

theorem ftoksP_skip (e : Place) (pl : List Place) (l : File) (h : e.comment ∉ l.flatMap blockCommentUids) :
    ftoksP (e :: pl) l = ftoksP pl l := by
  induction l with
  | nil => rfl
  | cons s l ih =>
    simp only [flatMap_cons, mem_append, not_or] at h
    simp only [ftoksP, flatMap_cons] at ih ⊢
    have := P_skip e pl s h.1
    simp only [P] at this
    rw [this, ih h.2]

theorem placed_toks (pl : List Place) (o : Origin) (tag : String) (ext : Bool) (bpre bpost : List Item) (c : Nat) (txt : String)
    (fs : List Feat) (hpl : ∀ e ∈ pl, e.tag ≠ tag) (h1 : c ∉ itemUids bpre) (h2 : c ∉ itemUids bpost) :
    (placed o tag ext bpre bpost (.comment c txt) (fs.map genFeat)).flatMap (P pl) =
      P (⟨tag, c, fs⟩ :: pl) (.block o .feature tag ext (bpre ++ .comment c txt :: bpost)) := by
  have r : P (⟨tag, c, fs⟩ :: pl) (.block o .feature tag ext (bpre ++ .comment c txt :: bpost)) =
      bodyToks true [] tag bpre ++ fs.map featTok ++ bodyToks true [] tag bpost := by
    rw [P_block, bodyToks_append]
    simp only [bodyToks]
    rw [bodyToks_skip _ _ _ _ _ h1, bodyToks_skip _ _ _ _ _ h2, bodyToks_noTag _ _ _ _ hpl, bodyToks_noTag _ _ _ _ hpl]
    simp [subst, append_assoc]
  rw [r]
  have nb : ∀ l, P pl (.block o .feature tag ext l) = bodyToks true [] tag l := fun l => by
    rw [P_block, bodyToks_noTag _ _ _ _ hpl]
  have ns : ∀ l, P pl (.block .split .feature tag false l) = bodyToks true [] tag l := fun l => by
    rw [P_block, bodyToks_noTag _ _ _ _ hpl]
  unfold placed
  split
  · rename_i h
    simp only [Bool.and_eq_true, all_cons] at h
    rw [P_genFeats, bodyToks_comments _ _ _ h.1, bodyToks_comments _ _ _ h.2.2]
    simp
  · split
    · rename_i h
      rw [flatMap_append, P_genFeats]
      simp only [flatMap_cons, flatMap_nil, append_nil, nb, bodyToks_append, bodyToks_comments _ _ _ h]
      simp
    · split
      · rename_i h
        simp only [all_cons, Bool.and_eq_true] at h
        rw [flatMap_cons, P_genFeats, nb, bodyToks_append, bodyToks_comments _ _ bpost h.2]
        simp
      · simp only [flatMap_cons, flatMap_append, flatMap_nil, P_genFeats, nb, ns]
        simp


def stmtTag : Stmt → String | .block _ _ tag _ _ => tag | _ => ""

def uidsOf (l : File) : List Nat := l.flatMap blockCommentUids

theorem uidsOf_append (a b : File) : uidsOf (a ++ b) = uidsOf a ++ uidsOf b := by simp [uidsOf]

theorem uidsOf_genFeats (l : List Feat) : uidsOf (l.map genFeat) = [] := by
  induction l with
  | nil => rfl
  | cons f l ih => simp only [map_cons, uidsOf, flatMap_cons] at ih ⊢; rw [ih]; rfl

theorem itemUids_append (a b : List Item) : itemUids (a ++ b) = itemUids a ++ itemUids b := by simp [itemUids]

theorem nodup_mid {A B : List Nat} {c : Nat} (h : (A ++ c :: B).Nodup) : c ∉ A ∧ c ∉ B := by
  induction A with
  | nil => simpa using (nodup_cons.mp h).1
  | cons a A ih =>
    rw [cons_append, nodup_cons] at h
    obtain ⟨h1, h2⟩ := ih h.2
    refine ⟨?_, h2⟩
    simp only [mem_cons, not_or]
    refine ⟨?_, h1⟩
    intro hca; subst hca; exact h.1 (by simp)

theorem holdsComment_iff (c : Nat) (o : Origin) (tag : String) (ext : Bool) (body : List Item) :
    holdsComment c (.block o .feature tag ext body) = true ↔ c ∈ itemUids body := by
  simp only [holdsComment, any_eq_true, itemUids, mem_filterMap]
  constructor
  · rintro ⟨x, hx, hc⟩
    obtain ⟨t, rfl⟩ := isCommentUid_eq hc
    exact ⟨_, hx, rfl⟩
  · rintro ⟨x, hx, hc⟩
    refine ⟨x, hx, ?_⟩
    cases x <;> simp [itemUid] at hc
    simp [isCommentUid, hc]

theorem holdsComment_gen (c : Nat) (f : Feat) : holdsComment c (genFeat f) = false := rfl

theorem uids_placed (o : Origin) (tag : String) (ext : Bool) (bpre bpost : List Item) (cm : Item) (fs : List Feat) :
    (uidsOf (placed o tag ext bpre bpost cm (fs.map genFeat))).Sublist (itemUids bpre ++ itemUids bpost) := by
  unfold placed
  split
  · rw [uidsOf_genFeats]; exact nil_sublist _
  · split
    · rw [uidsOf_append, uidsOf_genFeats]
      simp [uidsOf, blockCommentUids, itemUids_append]
    · split
      · have : uidsOf (Stmt.block o .feature tag ext (bpre ++ bpost) :: fs.map genFeat) =
            itemUids (bpre ++ bpost) ++ uidsOf (fs.map genFeat) := rfl
        rw [this, uidsOf_genFeats, itemUids_append]; simp
      · have : uidsOf (Stmt.block o .feature tag ext bpre :: fs.map genFeat ++ [Stmt.block .split .feature tag false bpost]) =
            itemUids bpre ++ (uidsOf (fs.map genFeat) ++ itemUids bpost) := by
          simp [uidsOf, blockCommentUids, flatMap_append]
        rw [this, uidsOf_genFeats]; simp

theorem placed_holds (o : Origin) (tag : String) (ext : Bool) (bpre bpost : List Item) (cm : Item) (fs : List Feat)
    (c' : Nat) (s' : Stmt) (hs : s' ∈ placed o tag ext bpre bpost cm (fs.map genFeat)) (hc : holdsComment c' s' = true) :
    stmtTag s' = tag ∧ (c' ∈ itemUids bpre ∨ c' ∈ itemUids bpost) := by
  have hg : ∀ s ∈ fs.map genFeat, holdsComment c' s = false := by
    intro s hs; obtain ⟨f, _, rfl⟩ := mem_map.mp hs; rfl
  unfold placed at hs
  split at hs
  · rw [hg _ hs] at hc; cases hc
  · split at hs
    · rcases mem_append.mp hs with h | h
      · rw [hg _ h] at hc; cases hc
      · simp at h; subst h
        exact ⟨rfl, by simpa [itemUids_append] using (holdsComment_iff _ _ _ _ _).mp hc⟩
    · split at hs
      · rcases mem_cons.mp hs with h | h
        · subst h
          exact ⟨rfl, by simpa [itemUids_append] using (holdsComment_iff _ _ _ _ _).mp hc⟩
        · rw [hg _ h] at hc; cases hc
      · rcases mem_append.mp hs with h | h
        · rcases mem_cons.mp h with h | h
          · subst h; exact ⟨rfl, Or.inl ((holdsComment_iff _ _ _ _ _).mp hc)⟩
          · rw [hg _ h] at hc; cases hc
        · simp at h; subst h; exact ⟨rfl, Or.inr ((holdsComment_iff _ _ _ _ _).mp hc)⟩

theorem place_step {st st' : St} {rev : List Feat} {f : Feat} {c : Nat}
    (h : placeMarked st rev f c = .ok st') (hn : (uidsOf st.stmts).Nodup) :
    ∃ tag, (∃ s ∈ st.stmts, holdsComment c s = true ∧ stmtTag s = tag) ∧
      (∀ pl, (∀ e ∈ pl, e.tag ≠ tag) →
        ftoksP pl st'.stmts = ftoksP (⟨tag, c, walkDeps rev (f.gid :: st.inserted) ++ [f]⟩ :: pl) st.stmts) ∧
      (uidsOf st'.stmts).Sublist (uidsOf st.stmts) ∧
      (∀ c' s', s' ∈ st'.stmts → holdsComment c' s' = true →
        ∃ s ∈ st.stmts, holdsComment c' s = true ∧ stmtTag s = stmtTag s') ∧
      st'.inserted = (walkDeps rev (f.gid :: st.inserted)).map (·.gid) ++ f.gid :: st.inserted := by
  obtain ⟨pre, post, o, tag, ext, bpre, txt, bpost, e, _, _, e', hins⟩ := placeMarked_spec h
  have hG : map genFeat (walkDeps rev (f.gid :: st.inserted)) ++ [genFeat f] =
      (walkDeps rev (f.gid :: st.inserted) ++ [f]).map genFeat := by simp
  rw [hG] at e'
  have hu : uidsOf st.stmts = (uidsOf pre ++ itemUids bpre) ++ c :: (itemUids bpost ++ uidsOf post) := by
    rw [e]; simp [uidsOf, blockCommentUids, itemUids]
  rw [hu] at hn
  obtain ⟨hA, hB⟩ := nodup_mid hn
  simp only [mem_append, not_or] at hA hB
  have hb : Stmt.block o .feature tag ext (bpre ++ .comment c txt :: bpost) ∈ st.stmts := by rw [e]; simp
  refine ⟨tag, ⟨_, hb, ?_, rfl⟩, ?_, ?_, ?_, hins⟩
  · rw [holdsComment_iff]; simp [itemUids]
  · intro pl hpl
    rw [e, e']
    simp only [ftoksP, flatMap_append, flatMap_cons]
    rw [placed_toks pl o tag ext bpre bpost c txt _ hpl hA.2 hB.1]
    have h1 := ftoksP_skip ⟨tag, c, walkDeps rev (f.gid :: st.inserted) ++ [f]⟩ pl pre hA.1
    have h2 := ftoksP_skip ⟨tag, c, walkDeps rev (f.gid :: st.inserted) ++ [f]⟩ pl post hB.2
    simp only [ftoksP] at h1 h2
    rw [h1, h2]
    simp [P]
  · rw [hu, e', uidsOf_append, uidsOf_append]
    have := uids_placed o tag ext bpre bpost (.comment c txt) (walkDeps rev (f.gid :: st.inserted) ++ [f])
    have h3 : (itemUids bpre ++ itemUids bpost).Sublist (itemUids bpre ++ c :: (itemUids bpost)) :=
      (Sublist.refl _).append (sublist_cons_self _ _)
    have := this.trans h3
    simp only [append_assoc]
    exact (Sublist.refl _).append (by simpa using this.append (Sublist.refl (uidsOf post)))
  · intro c' s' hs' hc'
    rw [e'] at hs'
    rcases mem_append.mp hs' with hs' | hs'
    · rcases mem_append.mp hs' with hs' | hs'
      · exact ⟨s', by rw [e]; simp [hs'], hc', rfl⟩
      · obtain ⟨ht, hcc⟩ := placed_holds _ _ _ _ _ _ _ _ _ hs' hc'
        refine ⟨_, hb, ?_, ht.symm⟩
        rw [holdsComment_iff]
        simp only [itemUids_append, mem_append]
        rcases hcc with hcc | hcc
        · exact Or.inl hcc
        · right; simp [itemUids] at hcc ⊢; right; exact hcc
    · exact ⟨s', by rw [e]; simp [hs'], hc', rfl⟩


def mkOf (ic : List Marker) (t : String) : Option Nat := (ic.find? (·.tag == t)).map (·.comment)

theorem walkDeps_pend (rp rev0 : List Feat) (ins : List Nat)
    (h1 : ∀ p ∈ rp, p.gid ∉ ins) (h2 : (rp.map (·.gid)).Nodup)
    (h3 : rev0 = [] ∨ ∃ h t, rev0 = h :: t ∧ h.gid ∈ ins) :
    walkDeps (rp ++ rev0) ins = rp.reverse := by
  induction rp generalizing ins with
  | nil =>
    rcases h3 with rfl | ⟨h, t, rfl, hin⟩
    · rfl
    · simp [walkDeps, hin]
  | cons p rp ih =>
    have hp : p.gid ∉ ins := h1 p (by simp)
    simp only [map_cons, nodup_cons] at h2
    simp only [cons_append, walkDeps]
    have hc : ins.contains p.gid = false := by simpa using hp
    simp only [hc, Bool.false_eq_true, if_false, reverse_cons]
    rw [ih (p.gid :: ins)]
    · intro p' hp' hin
      rcases mem_cons.mp hin with h | h
      · exact h2.1 (by rw [← h]; exact mem_map_of_mem hp')
      · exact h1 p' (by simp [hp']) h
    · exact h2.2
    · rcases h3 with h3 | ⟨h, t, e, hin⟩
      · exact Or.inl h3
      · exact Or.inr ⟨h, t, e, by simp [hin]⟩

theorem plan_tags (mk : String → Option Nat) (fs pend : List Feat) :
    ∀ e ∈ (plan mk fs pend).1, e.tag ∈ fs.map (·.tag) := by
  induction fs generalizing pend with
  | nil => simp [plan]
  | cons f fs ih =>
    unfold plan
    cases h : mk f.tag with
    | none => intro e he; simp only at he; simpa using Or.inr (ih _ e he)
    | some c =>
      intro e he
      simp only [mem_cons] at he
      rcases he with rfl | he
      · simp
      · simpa using Or.inr (ih _ e he)

theorem plan_feats (mk : String → Option Nat) (fs pend : List Feat) :
    (plan mk fs pend).1.flatMap (·.feats) ++ (plan mk fs pend).2 = pend ++ fs := by
  induction fs generalizing pend with
  | nil => simp [plan]
  | cons f fs ih =>
    unfold plan
    cases h : mk f.tag with
    | none => simp only; rw [ih]; simp
    | some c =>
      simp only [flatMap_cons]
      have := ih []
      simp only [nil_append] at this
      rw [append_assoc, this]; simp

theorem plan_cons_some {mk : String → Option Nat} {f : Feat} {c : Nat} (h : mk f.tag = some c) (fs pend : List Feat) :
    plan mk (f :: fs) pend = (⟨f.tag, c, pend ++ [f]⟩ :: (plan mk fs []).1, (plan mk fs []).2) := by
  rw [plan]; simp only [h]

theorem plan_cons_none {mk : String → Option Nat} {f : Feat} (h : mk f.tag = none) (fs pend : List Feat) :
    plan mk (f :: fs) pend = plan mk fs (pend ++ [f]) := by
  rw [plan]; simp only [h]

theorem loop1_toks (ic : List Marker) (fs : List Feat) : ∀ (rev pend : List Feat) (st st' : St) (q : List Place),
    loop1 ic fs rev st = .ok st' →
    (uidsOf st.stmts).Nodup →
    (∀ f ∈ fs, ∀ m, ic.find? (·.tag == f.tag) = some m → ∀ s ∈ st.stmts, holdsComment m.comment s = true → stmtTag s = f.tag) →
    (fs.map (·.tag)).Nodup →
    (∀ e ∈ q, ∀ f ∈ fs, e.tag ≠ f.tag) →
    (∃ rev0, rev = pend.reverse ++ rev0 ∧ (rev0 = [] ∨ ∃ h t, rev0 = h :: t ∧ h.gid ∈ st.inserted)) →
    (∀ p ∈ pend ++ fs, p.gid ∉ st.inserted) →
    ((pend ++ fs).map (·.gid)).Nodup →
    ftoksP q st'.stmts = ftoksP ((plan (mkOf ic) fs pend).1 ++ q) st.stmts ∧
    (∀ g, g ∈ st'.inserted ↔ g ∈ st.inserted ∨ g ∈ ((plan (mkOf ic) fs pend).1.flatMap (·.feats)).map (·.gid)) := by
  induction fs with
  | nil =>
    intro rev pend st st' q h _ _ _ _ _ _ _
    simp only [loop1, Except.ok.injEq] at h
    subst h
    simp [plan]
  | cons f fs ih =>
    intro rev pend st st' q h hn hT htags hq hrev hins hgids
    unfold loop1 at h
    cases hm : ic.find? (·.tag == f.tag) with
    | none =>
      simp only [hm] at h
      have hmk : mkOf ic f.tag = none := by simp [mkOf, hm]
      rw [plan_cons_none hmk]
      obtain ⟨rev0, hr, hr0⟩ := hrev
      refine ih (f :: rev) (pend ++ [f]) st st' q h hn ?_ (by simpa using (nodup_cons.mp htags).2) ?_ ?_ ?_ ?_
      · intro f' hf'; exact hT f' (by simp [hf'])
      · intro e he f' hf'; exact hq e he f' (by simp [hf'])
      · exact ⟨rev0, by simp [hr], hr0⟩
      · intro p hp; exact hins p (by simpa using hp)
      · simpa using hgids
    | some m =>
      simp only [hm] at h
      have hmk : mkOf ic f.tag = some m.comment := by simp [mkOf, hm]
      rw [plan_cons_some hmk]
      cases h1 : placeMarked st rev f m.comment with
      | error e => simp [h1] at h
      | ok st1 =>
        simp only [h1] at h
        obtain ⟨tag, ⟨s, hs, hc, htag⟩, htoks, hsub, hpres, hins1⟩ := place_step h1 hn
        have htf : tag = f.tag := by rw [← htag]; exact hT f (by simp) m hm s hs hc
        subst htf
        obtain ⟨rev0, hr, hr0⟩ := hrev
        -- the features waiting for a marker are exactly what the backwards walk inserts
        have hg := hgids
        simp only [map_append, map_cons] at hg
        have hfp : f.gid ∉ pend.map (·.gid) := by
          have := (nodup_append.mp hg).2.2
          intro hin; exact this _ hin _ (by simp) rfl
        have hfs : f.gid ∉ fs.map (·.gid) := by
          have := (nodup_append.mp hg).2.1
          exact (nodup_cons.mp this).1
        have hwd : walkDeps rev (f.gid :: st.inserted) = pend := by
          rw [hr]
          have := walkDeps_pend pend.reverse rev0 (f.gid :: st.inserted) ?_ ?_ ?_
          · simpa using this
          · intro p hp hin
            have hp' : p ∈ pend := by simpa using hp
            rcases mem_cons.mp hin with h | h
            · exact hfp (by rw [← h]; exact mem_map_of_mem hp')
            · exact hins p (by simp [hp']) h
          · have := (nodup_append.mp hg).1
            rw [map_reverse]; exact (reverse_perm _).nodup_iff.mpr this
          · rcases hr0 with h | ⟨h, t, e, hin⟩
            · exact Or.inl h
            · exact Or.inr ⟨h, t, e, by simp [hin]⟩
        rw [hwd] at htoks hins1
        have hfs_nd : (fs.map (·.gid)).Nodup := (nodup_cons.mp (nodup_append.mp hg).2.1).2
        have hpf : ∀ p ∈ fs, p.gid ∉ pend.map (·.gid) := by
          intro p hp hin
          exact (nodup_append.mp hg).2.2 _ hin _ (by simp [mem_map_of_mem hp]) rfl
        have ihh := ih (f :: rev) [] st1 st' q h (hsub.nodup hn) ?_ (nodup_cons.mp htags).2 ?_ ?_ ?_ ?_
        · obtain ⟨ihT, ihI⟩ := ihh
          constructor
          · rw [ihT]
            have := htoks ((plan (mkOf ic) fs []).1 ++ q) ?_
            · simpa using this
            · intro e he
              rcases mem_append.mp he with he | he
              · intro heq
                have := plan_tags (mkOf ic) fs [] e he
                rw [heq] at this
                exact (nodup_cons.mp htags).1 this
              · exact hq e he f (by simp)
          · intro g
            rw [ihI, hins1]
            simp only [flatMap_cons, map_append, mem_append, mem_cons, map_cons, map_nil, not_mem_nil, or_false]
            grind
        · intro f' hf' m' hm' s' hs' hc'
          obtain ⟨s0, hs0, hc0, ht0⟩ := hpres _ _ hs' hc'
          rw [← ht0]; exact hT f' (by simp [hf']) m' hm' s0 hs0 hc0
        · intro e he f' hf'; exact hq e he f' (by simp [hf'])
        · exact ⟨f :: rev, by simp, Or.inr ⟨f, rev, rfl, by rw [hins1]; simp⟩⟩
        · intro p hp
          have hp' : p ∈ fs := by simpa using hp
          rw [hins1]
          simp only [mem_append, mem_cons, not_or]
          refine ⟨hpf p hp', ?_, hins p (by simp [hp'])⟩
          intro heq; exact hfs (by rw [← heq]; exact mem_map_of_mem hp')
        · simpa using hfs_nd


theorem insertAt_end (l : List α) (x : α) : insertAt l l.length x = l ++ [x] := by simp [insertAt]

theorem loop2_toks (fs : List Feat) (st : St) :
    ftoksP [] (loop2 fs st).stmts =
      ftoksP [] st.stmts ++ (fs.filter (fun f => !st.inserted.contains f.gid)).map featTok := by
  induction fs generalizing st with
  | nil => simp [loop2]
  | cons f fs ih =>
    unfold loop2
    have hg : stmtToks false true [] (genFeat f) = [featTok f] := rfl
    by_cases h : f.gid ∈ st.inserted
    · have hc : st.inserted.contains f.gid = true := by simpa using h
      simp only [hc, if_true]; rw [ih]; simp [h]
    · have hc : st.inserted.contains f.gid = false := by simpa using h
      simp only [hc, Bool.false_eq_true, if_false]
      rw [ih]
      simp only [insertAt_end, ftoksP, flatMap_append, flatMap_cons, flatMap_nil, append_nil, hg]
      simp [h]

theorem filter_rest (A R : List Feat) (ins : List Nat) (hn : ((A ++ R).map (·.gid)).Nodup)
    (hi : ∀ g, g ∈ ins ↔ g ∈ A.map (·.gid)) :
    (A ++ R).filter (fun f => !ins.contains f.gid) = R := by
  rw [filter_append]
  have h1 : A.filter (fun f => !ins.contains f.gid) = [] := by
    apply filter_eq_nil_iff.mpr
    intro a ha
    have : a.gid ∈ ins := (hi _).mpr (mem_map_of_mem ha)
    simp [this]
  have h2 : R.filter (fun f => !ins.contains f.gid) = R := by
    apply filter_eq_self.mpr
    intro a ha
    have : a.gid ∉ ins := by
      intro hin
      have hA := (hi _).mp hin
      rw [map_append] at hn
      exact (nodup_append.mp hn).2.2 _ hA _ (mem_map_of_mem ha) rfl
    simp [this]
  rw [h1, h2]; rfl

theorem firstMarkerIn_mem {body : List Item} {c : Nat} (h : firstMarkerIn body = some c) : c ∈ itemUids body := by
  induction body with
  | nil => simp [firstMarkerIn] at h
  | cons x l ih =>
    cases x with
    | comment u t =>
      simp only [firstMarkerIn] at h
      by_cases hm : isMarker t = true
      · simp [hm] at h; subst h; simp [itemUids]
      · simp [hm] at h
        have := ih h
        simp only [itemUids, filterMap_cons, itemUid_comment, mem_cons] at this ⊢
        exact Or.inr this
    | leaf u => simp only [firstMarkerIn] at h; simpa [itemUids, filterMap_cons] using ih h
    | sub u cs => simp only [firstMarkerIn] at h; simpa [itemUids, filterMap_cons] using ih h
    | gen u => simp only [firstMarkerIn] at h; simpa [itemUids, filterMap_cons] using ih h

theorem firstMarker_block {f : File} {t : String} {c : Nat} (h : firstMarker f t = some c) :
    ∃ s ∈ f, holdsComment c s = true ∧ stmtTag s = t := by
  induction f with
  | nil => simp [firstMarker] at h
  | cons s l ih =>
    have step : (∃ s' ∈ l, holdsComment c s' = true ∧ stmtTag s' = t) → ∃ s' ∈ s :: l, holdsComment c s' = true ∧ stmtTag s' = t := by
      rintro ⟨s', hs', h'⟩; exact ⟨s', by simp [hs'], h'⟩
    cases s with
    | block o k tag ext body =>
      cases k with
      | feature =>
        simp only [firstMarker] at h
        by_cases ht : (tag == t) = true
        · simp only [ht, if_true] at h
          cases hb : firstMarkerIn body with
          | some u =>
            simp only [hb, Option.some.injEq] at h
            subst h
            refine ⟨Stmt.block o .feature tag ext body, by simp, ?_, by simpa [stmtTag] using ht⟩
            rw [holdsComment_iff]; exact firstMarkerIn_mem hb
          | none => simp only [hb] at h; exact step (ih h)
        · simp only [ht] at h; exact step (ih h)
      | _ => simp only [firstMarker] at h; exact step (ih h)
    | _ => simp only [firstMarker] at h; exact step (ih h)

theorem holds_mem_uids {c : Nat} {s : Stmt} (h : holdsComment c s = true) : c ∈ blockCommentUids s := by
  obtain ⟨o, tag, ext, body, rfl, _⟩ := holdsComment_block h
  exact (holdsComment_iff _ _ _ _ _).mp h

theorem unique_holder {f : File} (hn : (uidsOf f).Nodup) {c : Nat} {s1 s2 : Stmt} (h1 : s1 ∈ f) (h2 : s2 ∈ f)
    (c1 : holdsComment c s1 = true) (c2 : holdsComment c s2 = true) : s1 = s2 := by
  induction f with
  | nil => cases h1
  | cons a l ih =>
    have hu : uidsOf (a :: l) = blockCommentUids a ++ uidsOf l := rfl
    rw [hu] at hn
    have hd := (nodup_append.mp hn).2.2
    have inl : ∀ {s}, s ∈ l → holdsComment c s = true → c ∈ uidsOf l := by
      intro s hs hc
      exact mem_flatMap.mpr ⟨s, hs, holds_mem_uids hc⟩
    rcases mem_cons.mp h1 with e1 | m1
    · rcases mem_cons.mp h2 with e2 | m2
      · rw [e1, e2]
      · subst e1; exact absurd rfl (hd _ (holds_mem_uids c1) _ (inl m2 c2))
    · rcases mem_cons.mp h2 with e2 | m2
      · subst e2; exact absurd rfl (hd _ (holds_mem_uids c2) _ (inl m1 c1))
      · exact ih (nodup_append.mp hn).2.1 m1 m2


theorem uids_loop1 (ic : List Marker) (fs rev : List Feat) (st st' : St) (hn : (uidsOf st.stmts).Nodup)
    (h : loop1 ic fs rev st = .ok st') : (uidsOf st'.stmts).Sublist (uidsOf st.stmts) := by
  induction fs generalizing rev st with
  | nil => simp only [loop1, Except.ok.injEq] at h; rw [h]; exact Sublist.refl _
  | cons f fs ih =>
    unfold loop1 at h
    split at h
    · split at h
      · rename_i m _ st1 h1
        obtain ⟨_, _, _, hsub, _, _⟩ := place_step h1 hn
        exact (ih _ _ (hsub.nodup hn) h).trans hsub
      · cases h
    · exact ih _ _ hn h

theorem uids_loop2 (fs : List Feat) (st : St) : uidsOf (loop2 fs st).stmts = uidsOf st.stmts := by
  induction fs generalizing st with
  | nil => rfl
  | cons f fs ih =>
    unfold loop2
    split
    · exact ih st
    · rw [ih]; exact insertAt_flatMap_nil _ _ _ _ rfl

theorem uids_nogen (l : File) (h : ∀ s ∈ l, ∃ g, s = .gen g) : uidsOf l = [] := by
  induction l with
  | nil => rfl
  | cons a l ih =>
    obtain ⟨g, rfl⟩ := h a (by simp)
    have := ih (fun s hs => h s (by simp [hs]))
    simp only [uidsOf, flatMap_cons] at this ⊢
    rw [this]; rfl

theorem uids_defGroup (l : List Nat) : uidsOf (defGroup l) = [] := by
  apply uids_nogen
  intro s hs
  unfold defGroup at hs
  split at hs
  · cases hs
  · rcases mem_append.mp hs with h | h
    · obtain ⟨g, _, rfl⟩ := mem_map.mp h; exact ⟨_, rfl⟩
    · simp at h; subst h; exact ⟨_, rfl⟩

theorem uids_insert_eq {f o : File} {ic : Option (List Marker)} {w : Writer} {feats : List Feat}
    (h : insert f ic w feats = .ok o) :
    ∃ st1, loop1 (ic.getD []) feats [] { stmts := f, indices := [], inserted := [] } = .ok st1 ∧
      uidsOf o = uidsOf st1.stmts := by
  unfold insert at h
  cases h1 : loop1 (ic.getD []) feats [] { stmts := f, indices := [], inserted := [] } with
  | error e => simp [h1] at h
  | ok st1 =>
    simp only [h1] at h
    cases hm : (loop2 feats st1).indices.min? with
    | none => simp [hm] at h
    | some m =>
      simp only [hm] at h
      injection h with h
      subst h
      refine ⟨st1, rfl, ?_⟩
      have e2 := uids_loop2 feats st1
      simp only [uidsOf_append, uids_defGroup, nil_append]
      have : uidsOf (if w.lookups.isEmpty = true then (loop2 feats st1).stmts
          else take m (loop2 feats st1).stmts ++ map (fun g => Stmt.gen (Gen.lookup g)) w.lookups ++ drop m (loop2 feats st1).stmts)
          = uidsOf (loop2 feats st1).stmts := by
        split
        · rfl
        · apply splice_flatMap_nil
          exact uids_nogen _ (fun s hs => by obtain ⟨g, _, rfl⟩ := mem_map.mp hs; exact ⟨_, rfl⟩)
      rw [this, e2]

theorem uids_insert {f o : File} {ic : Option (List Marker)} {w : Writer} {feats : List Feat} (hn : (uidsOf f).Nodup)
    (h : insert f ic w feats = .ok o) : (uidsOf o).Sublist (uidsOf f) := by
  obtain ⟨st1, h1, e⟩ := uids_insert_eq h
  rw [e]; exact uids_loop1 _ _ _ _ _ hn h1

theorem uids_write {w : Writer} {f o : File} (hn : (uidsOf f).Nodup) (h : write w f = .ok o) :
    (uidsOf o).Sublist (uidsOf f) := by
  unfold write at h
  simp only at h
  split at h
  · injection h with h; rw [h]; exact Sublist.refl _
  · split at h
    · injection h with h; rw [h]; exact Sublist.refl _
    · exact uids_insert hn h

theorem place_step_gone {st st' : St} {rev : List Feat} {f : Feat} {c : Nat}
    (h : placeMarked st rev f c = .ok st') (hn : (uidsOf st.stmts).Nodup) : c ∉ uidsOf st'.stmts := by
  obtain ⟨pre, post, o, tag, ext, bpre, txt, bpost, e, _, _, e', _⟩ := placeMarked_spec h
  have hG : map genFeat (walkDeps rev (f.gid :: st.inserted)) ++ [genFeat f] =
      (walkDeps rev (f.gid :: st.inserted) ++ [f]).map genFeat := by simp
  rw [hG] at e'
  have hu : uidsOf st.stmts = (uidsOf pre ++ itemUids bpre) ++ c :: (itemUids bpost ++ uidsOf post) := by
    rw [e]; simp [uidsOf, blockCommentUids, itemUids]
  rw [hu] at hn
  obtain ⟨hA, hB⟩ := nodup_mid hn
  simp only [mem_append, not_or] at hA hB
  rw [e', uidsOf_append, uidsOf_append]
  simp only [mem_append, not_or]
  refine ⟨⟨hA.1, ?_⟩, hB.2⟩
  intro hin
  have := (uids_placed o tag ext bpre bpost (.comment c txt) (walkDeps rev (f.gid :: st.inserted) ++ [f])).subset hin
  rcases mem_append.mp this with h1 | h1
  · exact hA.2 h1
  · exact hB.1 h1

theorem loop1_gone (ic : List Marker) (fs : List Feat) : ∀ (rev pend : List Feat) (st st' : St),
    loop1 ic fs rev st = .ok st' → (uidsOf st.stmts).Nodup →
    ∀ e ∈ (plan (mkOf ic) fs pend).1, e.comment ∉ uidsOf st'.stmts := by
  induction fs with
  | nil => intro rev pend st st' _ _ e he; simp [plan] at he
  | cons f fs ih =>
    intro rev pend st st' h hn
    unfold loop1 at h
    cases hm : ic.find? (·.tag == f.tag) with
    | none =>
      simp only [hm] at h
      have hmk : mkOf ic f.tag = none := by simp [mkOf, hm]
      rw [plan_cons_none hmk]
      exact ih _ _ _ _ h hn
    | some m =>
      simp only [hm] at h
      have hmk : mkOf ic f.tag = some m.comment := by simp [mkOf, hm]
      rw [plan_cons_some hmk]
      cases h1 : placeMarked st rev f m.comment with
      | error e => simp [h1] at h
      | ok st1 =>
        simp only [h1] at h
        obtain ⟨_, _, _, hsub, _, _⟩ := place_step h1 hn
        have hn1 := hsub.nodup hn
        intro e he
        rcases mem_cons.mp he with rfl | he
        · intro hin
          exact place_step_gone h1 hn ((uids_loop1 _ _ _ _ _ hn1 h).subset hin)
        · exact ih _ _ _ _ h hn1 e he

theorem P_nogen (pl : List Place) (l : File) (h : ∀ s ∈ l, ∃ g, s = .gen g ∧ ∀ t i, g ≠ .feature t i) :
    l.flatMap (P pl) = [] := by
  induction l with
  | nil => rfl
  | cons a l ih =>
    obtain ⟨g, rfl, hg⟩ := h a (by simp)
    rw [flatMap_cons, ih (fun s hs => h s (by simp [hs]))]
    cases g <;> first | rfl | exact absurd rfl (hg _ _)

theorem P_defGroup (l : List Nat) : (defGroup l).flatMap (P []) = [] := by
  apply P_nogen
  intro s hs
  unfold defGroup at hs
  split at hs
  · cases hs
  · rcases mem_append.mp hs with h | h
    · obtain ⟨g, _, rfl⟩ := mem_map.mp h; exact ⟨_, rfl, by intro t i h; cases h⟩
    · simp at h; subst h; exact ⟨_, rfl, by intro t i h; cases h⟩

theorem todo_contains (w : Writer) (f : File) (t : String) : (setContext w f).todo.contains t = specTodo f w t := by
  rw [C17_skip, Bool.eq_iff_iff]
  simp only [contains_eq_mem, mem_filter, decide_eq_true_eq]
  constructor
  · exact fun h => h.2
  · intro h
    refine ⟨?_, h⟩
    simp only [specTodo, Bool.and_eq_true] at h
    simpa using h.1

theorem mkOf_setContext (w : Writer) (f : File) : mkOf ((setContext w f).insertComments.getD []) = markerOf f w := by
  funext t
  unfold mkOf
  rw [setContext_marker]
  cases markerOf f w t <;> rfl

/-- **C17_place**: where the generated feature blocks stand. Reading the result top to bottom (comments and block
boundaries ignored, generated lookups and definitions ignored) gives the user's file read the same way, with every
used marker replaced by the features planned for it (the feature itself, preceded by the unmarked features the writer
listed before it), and the remaining features at the very end. -/
theorem insert_toks {f o : File} {w : Writer} {feats : List Feat}
    (hf : (uidsOf f).Nodup) (hg : (feats.map (·.gid)).Nodup) (ht : (feats.map (·.tag)).Nodup)
    (h : insert f (setContext w f).insertComments w feats = .ok o) :
    ftoks o = expectedToks f w feats := by
  unfold insert at h
  cases h1 : loop1 ((setContext w f).insertComments.getD []) feats [] { stmts := f, indices := [], inserted := [] } with
  | error e => simp [h1] at h
  | ok st1 =>
    simp only [h1] at h
    have hl := loop1_toks _ feats [] [] _ st1 [] h1 hf ?_ ht (by simp) ⟨[], by simp⟩ (by simp) (by simpa using hg)
    · obtain ⟨hT, hI⟩ := hl
      cases hm : (loop2 feats st1).indices.min? with
      | none => simp [hm] at h
      | some m =>
        simp only [hm] at h
        injection h with h
        subst h
        have e2 := loop2_toks feats st1
        rw [mkOf_setContext] at hT hI
        simp only [append_nil] at hT
        have hrest : feats.filter (fun f => !st1.inserted.contains f.gid) = (plan (markerOf f w) feats []).2 := by
          have hp := plan_feats (markerOf f w) feats []
          simp only [nil_append] at hp
          have := filter_rest _ _ st1.inserted (by rw [hp]; exact hg) (fun g => by rw [hI]; simp)
          rw [hp] at this
          exact this
        rw [hrest, hT] at e2
        unfold expectedToks
        simp only
        rw [← e2]
        unfold ftoks ftoksP
        simp only [flatMap_append, P_defGroup, nil_append]
        split
        · rfl
        · have : (w.lookups.map (fun g => Stmt.gen (.lookup g))).flatMap (P []) = [] := by
            apply P_nogen
            intro s hs
            obtain ⟨g, _, rfl⟩ := mem_map.mp hs
            exact ⟨_, rfl, by intro t i h; cases h⟩
          exact splice_flatMap_nil (P []) _ _ m this
    · intro f' hf' mk hmk s hs hc
      rw [setContext_marker] at hmk
      cases hmo : markerOf f w f'.tag with
      | none => simp [hmo] at hmk
      | some c =>
        simp only [hmo, Option.map_some, Option.some.injEq] at hmk
        subst hmk
        have hfm : firstMarker f f'.tag = some c := by
          unfold markerOf at hmo
          split at hmo
          · exact hmo
          · cases hmo
        obtain ⟨s0, hs0, hc0, ht0⟩ := firstMarker_block hfm
        rw [unique_holder hf hs hs0 hc hc0]; exact ht0

/-- a marker that was used is no longer in the file (so it cannot be used a second time) -/
theorem insert_gone {f o : File} {w : Writer} {feats : List Feat} (hf : (uidsOf f).Nodup)
    (h : insert f (setContext w f).insertComments w feats = .ok o) :
    ∀ c ∈ usedMarkers f w feats, c ∉ uidsOf o := by
  obtain ⟨st1, h1, e⟩ := uids_insert_eq h
  intro c hc
  obtain ⟨pe, hpe, rfl⟩ := mem_map.mp hc
  rw [e]
  have := loop1_gone _ feats [] [] _ st1 h1 hf
  rw [mkOf_setContext] at this
  exact this pe hpe

theorem specFeats_eq (w : Writer) (f : File) :
    w.produce.filter (fun p => (setContext w f).todo.contains p.tag) = specFeats f w := by
  unfold specFeats
  apply filter_congr
  intro p _
  exact todo_contains w f p.tag

theorem C17_place (w : Writer) (f o : File) (hw : wfWriter w = true) (hf : wfFile f = true) (h : write w f = .ok o) :
    if (specFeats f w).isEmpty then o = f
    else ftoks o = expectedToks f w (specFeats f w) ∧ ∀ c ∈ usedMarkers f w (specFeats f w), c ∉ uidsOf o := by
  unfold write at h
  simp only [specFeats_eq] at h
  by_cases hs : (specFeats f w).isEmpty = true
  · simp only [hs, if_true] at h ⊢
    split at h <;> (injection h with h; exact h.symm)
  · simp only [hs, Bool.false_eq_true, if_false] at h ⊢
    split at h
    · -- no feature to do: then nothing is produced either
      rename_i ht
      exfalso; apply hs
      have : (setContext w f).todo = [] := by simpa using ht
      rw [← specFeats_eq, this]
      simp
    · simp only [wfWriter, Bool.and_eq_true, decide_eq_true_eq] at hw
      have hsub : (specFeats f w).Sublist w.produce := filter_sublist
      exact ⟨insert_toks (of_decide_eq_true hf) ((hsub.map _).nodup hw.1) ((hsub.map _).nodup hw.2) h,
             insert_gone (of_decide_eq_true hf) h⟩

/-- **C17_write**: one writer, with everything the property says about it: the user's statements are untouched, the
features that are generated are those the specification names, and they stand where the plan says. -/
theorem C17_write (w : Writer) (f o : File) (hw : wfWriter w = true) (hf : wfFile f = true) (h : write w f = .ok o) :
    holdsWrite f w o = true := by
  unfold holdsWrite
  have h1 := skel_write h
  have h2 := C17_place w f o hw hf h
  simp only [h1, beq_self_eq_true, Bool.true_and]
  split
  · rename_i he; simp only [he, if_true] at h2; simp [h2]
  · rename_i he
    simp only [he, Bool.false_eq_true, if_false] at h2
    simp only [h2.1, beq_self_eq_true, Bool.true_and, all_eq_true, Bool.not_eq_true', contains_eq_mem,
      decide_eq_false_iff_not]
    exact h2.2

/-! ## sequences of writers -/

abbrev PP := stmtToks false true []

theorem gdef_same (T : Stmt → List Tok) (U : Stmt → List Nat)
    (hT : ∀ (o : Origin) (ext : Bool) (body : List Item) (items : List Nat), T (.block o .table "GDEF" ext (body ++ items.map Item.gen)) = T (.block o .table "GDEF" ext body))
    (hU : ∀ (o : Origin) (ext : Bool) (body : List Item) (items : List Nat), U (.block o .table "GDEF" ext (body ++ items.map Item.gen)) = U (.block o .table "GDEF" ext body))
    (hg : ∀ g, T (.gen (.other g)) = []) (hgu : ∀ g, U (.gen (.other g)) = [])
    (a : Bool) (items : List Nat) (g : Nat) (f : File) :
    (gdefWrite a items g f).flatMap T = f.flatMap T ∧ (gdefWrite a items g f).flatMap U = f.flatMap U := by
  unfold gdefWrite
  split
  · exact ⟨rfl, rfl⟩
  · split
    · rename_i p hp
      obtain ⟨pre, x, post, e, hl, hx, _⟩ := findIdx_decomp hp
      subst hl
      rw [e, getElem?_mid]
      cases x with
      | block o k tag ext body =>
        simp only [set_mid]
        simp only [isGdefTable, Bool.and_eq_true, beq_iff_eq] at hx
        obtain ⟨rfl, rfl⟩ := hx
        simp only [flatMap_append, flatMap_cons, hT, hU, and_self]
      | _ => exact ⟨rfl, rfl⟩
    · simp [flatMap_append, hg, hgu]

theorem filter_notGen_gens (body : List Item) (items : List Nat) :
    (body ++ items.map Item.gen).filter notGen = body.filter notGen := by
  have : (items.map Item.gen).filter notGen = [] := by
    induction items with
    | nil => rfl
    | cons a l ih => simp [notGen, ih]
  rw [filter_append, this, append_nil]

theorem C17_gdef (a : Bool) (items : List Nat) (g : Nat) (f : File) :
    holdsGdef f (gdefWrite a items g f) = true ∧ uidsOf (gdefWrite a items g f) = uidsOf f := by
  have h := gdef_same PP blockCommentUids
    (by intro o ext body items; cases o <;> simp only [PP, stmtToks, filter_notGen_gens])
    (by intro o ext body items; rfl) (fun _ => rfl) (fun _ => rfl) a items g f
  refine ⟨?_, h.2⟩
  unfold holdsGdef
  rw [skel_gdefWrite]
  have : ftoks (gdefWrite a items g f) = ftoks f := h.1
  simp [this]

/-! ## the GDEF writer -/

/-- the scan of the user's table, without its early exit: a feature stays to do iff no statement of its kind is there -/
theorem gdefScan_eq (ks : List GKind) (t : GTodo) :
    gdefScan ks t = ⟨t.classDefs && !ks.contains .glyphClassDef, t.carets && !ks.any isCaretKind⟩ := by
  induction ks generalizing t with
  | nil => simp [gdefScan]
  | cons k l ih =>
    obtain ⟨a, b⟩ := t
    cases k <;> simp only [gdefScan] <;> split <;> simp_all [isCaretKind]

theorem gdefWrite_nil (items : List Nat) (g : Nat) : gdefWrite true items g [] = [.gen (.other g)] := by
  simp [gdefWrite]

theorem gdefWrite_cons_table (items : List Nat) (g : Nat) (o : Origin) (ext : Bool) (body : List Item) (l : File) :
    gdefWrite true items g (.block o .table "GDEF" ext body :: l) =
      .block o .table "GDEF" ext (body ++ items.map Item.gen) :: l := by
  simp [gdefWrite, findIdx?_cons, isGdefTable]

theorem gdefWrite_cons_other (items : List Nat) (g : Nat) (s : Stmt) (l : File) (h : isGdefTable s = false) :
    gdefWrite true items g (s :: l) = s :: gdefWrite true items g l := by
  simp only [gdefWrite, Bool.not_true, Bool.false_eq_true, ↓reduceIte, findIdx?_cons, h]
  cases hl : findIdx? isGdefTable l with
  | none => simp
  | some p =>
    simp only [Option.map_some, getElem?_cons_succ]
    cases hp : l[p]? with
    | none => simp
    | some x => cases x <;> simp

theorem isGdefTable_iff (s : Stmt) :
    isGdefTable s = true ↔ ∃ o ext body, s = .block o .table "GDEF" ext body := by
  cases s with
  | block o k tag ext body =>
    simp only [isGdefTable, Bool.and_eq_true, beq_iff_eq]
    constructor
    · rintro ⟨rfl, rfl⟩; exact ⟨o, ext, body, rfl⟩
    · rintro ⟨o', ext', body', h⟩; injection h with _ h2 h3; exact ⟨h2, h3⟩
  | _ => simp [isGdefTable]

/-- the model's `findTable` is the spec's "first `table GDEF` of the file" -/
theorem findGdefTable_eq (f : File) : findGdefTable f = firstGdef f := by
  induction f with
  | nil => rfl
  | cons s l ih =>
    by_cases h : isGdefTable s = true
    · obtain ⟨o, ext, body, rfl⟩ := (isGdefTable_iff s).1 h
      simp [findGdefTable, firstGdef, isGdefTable]
    · have h' : isGdefTable s = false := by simpa using h
      have e1 : findGdefTable (s :: l) = findGdefTable l := by simp [findGdefTable, h']
      rw [e1, ih]
      unfold firstGdef
      rw [findSome?_cons]
      cases s with
      | block o k tag ext body =>
        cases k <;> simp_all [isGdefTable]
      | _ => rfl

theorem firstGdef_cons_other (s : Stmt) (l : File) (h : isGdefTable s = false) : firstGdef (s :: l) = firstGdef l := by
  rw [← findGdefTable_eq, ← findGdefTable_eq]; simp [findGdefTable, h]

/-- the model's list of the statements of all `table GDEF` blocks is the spec's -/
theorem gdefStatements_eq (f : File) : gdefStatements f = userGdef f := by
  induction f with
  | nil => rfl
  | cons s l ih =>
    have e : userGdef (s :: l) = userGdef [s] ++ userGdef l := by simp [userGdef]
    rw [gdefStatements, ih, e]
    congr 1
    by_cases h : isGdefTable s = true
    · obtain ⟨o, ext, body, rfl⟩ := (isGdefTable_iff s).1 h
      simp [gdefBody, isGdefTable, userGdef]
    · have h' : isGdefTable s = false := by simpa using h
      cases s with
      | block o k tag ext body => cases k <;> simp_all [gdefBody, isGdefTable, userGdef]
      | _ => simp [gdefBody, isGdefTable, userGdef]

/-- a file without a `table GDEF` has no GDEF statements -/
theorem userGdef_of_no_table (f : File) (h : findGdefTable f = none) : userGdef f = [] := by
  induction f with
  | nil => rfl
  | cons s l ih =>
    by_cases hs : isGdefTable s = true
    · obtain ⟨o, ext, body, rfl⟩ := (isGdefTable_iff s).1 hs
      simp [findGdefTable, isGdefTable] at h
    · have h' : isGdefTable s = false := by simpa using hs
      have e1 : findGdefTable (s :: l) = findGdefTable l := by simp [findGdefTable, h']
      have e : userGdef (s :: l) = userGdef [s] ++ userGdef l := by simp [userGdef]
      rw [e, ih (e1 ▸ h), append_nil]
      cases s with
      | block o k tag ext body => cases k <;> simp_all [isGdefTable, userGdef]
      | _ => simp [userGdef]

theorem gdefTodo_eq (i : GdefIn) (f : File) :
    gdefTodo i f =
      let user := (userGdef f).map (itemKind i.kinds)
      ⟨!user.contains .glyphClassDef && i.hasCats, !user.any isCaretKind && i.carets != 0⟩ := by
  unfold gdefTodo
  cases h : findGdefTable f with
  | none => simp [userGdef_of_no_table f h]
  | some body => simp [gdefScan_eq, gdefStatements_eq]

theorem count_replicate_ne {a b : GKind} (n : Nat) (h : a ≠ b) : (List.replicate n a).count b = 0 := by
  simp [List.count_replicate, h]

/-- **C17_gdef_gen**: what the GDEF writer generates is what the property allows: a GlyphClassDef exactly when the
user's `table GDEF` (if any) has none and the font has categories, one LigatureCaretByPos per glyph with caret anchors
exactly when the user's table has no ligature caret statement of either form, nothing else. -/
theorem C17_gdef_gen (i : GdefIn) (f : File) : holdsGdefGen i f (gdefGenOf i f) = true := by
  unfold holdsGdefGen gdefGenOf gdefGen
  rw [gdefTodo_eq]
  simp only
  generalize (userGdef f).map (itemKind i.kinds) = user
  by_cases h1 : GKind.glyphClassDef ∈ user <;> by_cases h2 : user.any isCaretKind = true <;>
    by_cases h3 : i.hasCats = true <;> by_cases h4 : i.carets = 0 <;>
    simp [h1, h2, h3, h4, List.count_replicate]

/-- the number of generated statements is the number the property asks for -/
theorem gdefGen_length (i : GdefIn) (f : File) : (gdefGenOf i f).length = specGdefCount i f := by
  unfold specGdefCount gdefGenOf gdefGen
  rw [gdefTodo_eq]
  simp only
  generalize (userGdef f).map (itemKind i.kinds) = user
  by_cases h1 : GKind.glyphClassDef ∈ user <;> by_cases h2 : user.any isCaretKind = true <;>
    by_cases h3 : i.hasCats = true <;> by_cases h4 : i.carets = 0 <;> simp [h1, h2, h3, h4] <;> omega

theorem all_gen_items (items : List Nat) : (items.map Item.gen).all (fun it => !notGen it) = true := by
  induction items with
  | nil => rfl
  | cons a l ih => simp [notGen]

/-- **C17_gdef_place**: the generated statements stand at the end of the user's `table GDEF` - whose own statements
keep their places - or, if the user wrote no such table, in one new statement at the end of the file. -/
theorem C17_gdef_place (items : List Nat) (g : Nat) (f : File) (n : Nat) (hn : items.length = n) :
    holdsGdefPlace f n (gdefWrite (n != 0) items g f) = true := by
  unfold holdsGdefPlace
  by_cases h0 : n = 0
  · subst h0; simp [gdefWrite]
  · have hb : (n != 0) = true := by simpa using h0
    have hne : (n == 0) = false := by simpa using h0
    rw [hb, hne]
    simp only [Bool.false_eq_true, ↓reduceIte]
    induction f with
    | nil => simp [firstGdef, gdefWrite_nil]
    | cons s l ih =>
      by_cases h : isGdefTable s = true
      · obtain ⟨o, ext, body, rfl⟩ := (isGdefTable_iff s).1 h
        rw [gdefWrite_cons_table]
        simp [firstGdef, hn, notGen]
      · have h' : isGdefTable s = false := by simpa using h
        rw [gdefWrite_cons_other _ _ _ _ h', firstGdef_cons_other _ _ h']
        cases hu : firstGdef l with
        | some body =>
          rw [hu] at ih
          simp only [firstGdef_cons_other _ _ h', length_cons] at ih ⊢
          simpa using ih
        | none =>
          rw [hu] at ih
          simp only [Bool.and_eq_true, beq_iff_eq] at ih ⊢
          obtain ⟨⟨h1, h2⟩, h3⟩ := ih
          refine ⟨⟨by simp [h1], by simp [h2]⟩, ?_⟩
          cases hg : gdefWrite true items g l with
          | nil => rw [hg] at h1; simp at h1
          | cons a t => rw [hg] at h3; simpa [getLast?_cons_cons] using h3

/-- hand-written ligature carets - by position or by contour point index, in whichever `table GDEF` block of the file -
are not generated a second time -/
theorem C17_gdef_keeps_carets (i : GdefIn) (f : File)
    (h : ((userGdef f).map (itemKind i.kinds)).any isCaretKind = true) :
    GKind.caretByPos ∉ gdefGenOf i f := by
  have hg := C17_gdef_gen i f
  unfold holdsGdefGen at hg
  simp only [h, ↓reduceIte, Bool.and_eq_true, beq_iff_eq] at hg
  exact count_eq_zero.1 hg.1.2

/-- hand-written glyph classes - in whichever `table GDEF` block of the file - are not generated a second time -/
theorem C17_gdef_keeps_classes (i : GdefIn) (f : File)
    (h : GKind.glyphClassDef ∈ (userGdef f).map (itemKind i.kinds)) :
    GKind.glyphClassDef ∉ gdefGenOf i f := by
  have hg := C17_gdef_gen i f
  unfold holdsGdefGen at hg
  have hc : ((userGdef f).map (itemKind i.kinds)).contains GKind.glyphClassDef = true := by simpa using h
  simp only [hc, Bool.not_true, Bool.false_and, Bool.false_eq_true, ↓reduceIte, Bool.and_eq_true, beq_iff_eq] at hg
  exact count_eq_zero.1 hg.1.1

/-- **C17_gdef_step**: the GDEF writer leaves the user's statements and all feature blocks as they are, and adds
exactly the number of statements the property asks for, at the end of the user's table or in a new one. -/
theorem C17_gdef_step (i : GdefIn) (f : File) :
    holdsStep (.gdef i) f (gdefStep i f) = true ∧ uidsOf (gdefStep i f) = uidsOf f := by
  unfold gdefStep
  have h := C17_gdef (!(gdefGenOf i f).isEmpty) ((List.range (gdefGenOf i f).length).map (fun k => i.base + 1 + k)) (i.base + 1) f
  refine ⟨?_, h.2⟩
  simp only [holdsStep, h.1, Bool.true_and]
  have hp := C17_gdef_place ((List.range (gdefGenOf i f).length).map (fun k => i.base + 1 + k)) (i.base + 1) f
    (specGdefCount i f) (by simp [gdefGen_length])
  have he : (!(gdefGenOf i f).isEmpty) = (specGdefCount i f != 0) := by
    rw [← gdefGen_length]; cases gdefGenOf i f <;> simp
  rw [he]; exact hp

/-- **C17_run**: for a well-formed user file and any sequence of (well-formed) writers, every step satisfies the
per-writer property (`holdsWrite` / `holdsGdef` + `holdsGdefPlace`, evaluated between the file before and after that writer), and the user's
statements after every step are those of the original file. -/
theorem C17_run (steps : List Step) (f : File) (outs : List File)
    (hw : ∀ s ∈ steps, match s with | .writer w => wfWriter w = true | .gdef .. => True)
    (hf : wfFile f = true) (h : runAll steps f = .ok outs) :
    holdsRun steps f outs = true ∧ holdsFinal f outs = true := by
  refine ⟨?_, ?_⟩
  · induction steps generalizing f outs with
    | nil => simp [runAll] at h; subst h; rfl
    | cons s ss ih =>
      unfold runAll at h
      cases hs : step s f with
      | error e => simp [hs] at h
      | ok f' =>
        simp only [hs] at h
        cases hl : runAll ss f' with
        | error e => simp [hl] at h
        | ok l =>
          simp only [hl] at h
          injection h with h
          subst h
          have hn : (uidsOf f).Nodup := of_decide_eq_true hf
          have hstep : holdsStep s f f' = true ∧ wfFile f' = true := by
            cases s with
            | writer w =>
              have hww : wfWriter w = true := hw (.writer w) (by simp)
              exact ⟨C17_write w f f' hww hf hs, decide_eq_true ((uids_write hn hs).nodup hn)⟩
            | gdef i =>
              simp only [step, Except.ok.injEq] at hs
              subst hs
              have := C17_gdef_step i f
              exact ⟨this.1, decide_eq_true (by have h2 := this.2; unfold uidsOf at h2; rw [h2]; exact hn)⟩
          simp only [holdsRun, hstep.1, Bool.true_and]
          exact ih f' l (fun s hs => hw s (by simp [hs])) hstep.2 hl
  · unfold holdsFinal
    rw [all_eq_true]
    intro o ho
    simp [C17_subsequence steps f outs h o ho]


/-! ## non-vacuity: the hypotheses are met by concrete, non-trivial inputs, and the predicates can fail -/

/-- `languagesystem…; feature kern { pos…; # Automatic Code; pos…; } kern; @class…;` -/
def exF : File :=
  [.leaf 1, .block (.user 2) .feature "kern" false [.leaf 3, .comment 4 "# Automatic Code", .leaf 5], .leaf 6]

def exW : Writer :=
  { features := ["kern", "dist"], skip := true, pattern := true, produce := [⟨"kern", 10⟩, ⟨"dist", 11⟩],
    lookups := [20], classDefs := [30], anchorDefs := [], markClassDefs := [] }

def exO : File :=
  [.gen (.defn 30), .gen .blank, .leaf 1, .block (.user 2) .feature "kern" false [.leaf 3], .gen (.lookup 20),
   .gen (.feature "kern" 10), .block .split .feature "kern" false [.leaf 5], .leaf 6, .gen (.feature "dist" 11)]

example : wfFile exF = true ∧ wfWriter exW = true := by decide
example : write exW exF = .ok exO := by rfl
example : holdsWrite exF exW exO = true := by decide
/-- a neighbour of the marker deleted instead of (or with) the marker: refused -/
example : holdsWrite exF exW
    [.leaf 1, .block (.user 2) .feature "kern" false [.leaf 3], .gen (.feature "kern" 10), .leaf 6, .gen (.feature "dist" 11)] = false := by
  decide
/-- generated feature after the block instead of in between: refused -/
example : holdsWrite exF exW
    [.leaf 1, .block (.user 2) .feature "kern" false [.leaf 3, .leaf 5], .gen (.feature "kern" 10), .leaf 6, .gen (.feature "dist" 11)] = false := by
  decide
/-- a user feature without marker is not generated again in skip mode; in append mode it is, at the end -/
example : write { exW with produce := [⟨"kern", 10⟩] } [.block (.user 2) .feature "kern" false [.leaf 3]]
    = .ok [.block (.user 2) .feature "kern" false [.leaf 3]] := by rfl
example : write { exW with produce := [⟨"kern", 10⟩], skip := false, lookups := [], classDefs := [] }
    [.block (.user 2) .feature "kern" false [.leaf 3]]
    = .ok [.block (.user 2) .feature "kern" false [.leaf 3], .gen (.feature "kern" 10)] := by rfl
/-- dependent feature: `kern` has no marker, `dist` has one: `kern` goes right before `dist`, at the marker -/
example : write exW [.leaf 1, .block (.user 2) .feature "dist" false [.comment 4 "# Automatic Code", .leaf 5], .leaf 6]
    = .ok [.gen (.defn 30), .gen .blank, .leaf 1, .gen (.lookup 20), .gen (.feature "kern" 10), .gen (.feature "dist" 11),
           .block (.user 2) .feature "dist" false [.leaf 5], .leaf 6] := by rfl
/-- the same tag handed to `_insert` twice: the second `block.statements.index(comment)` raises -/
example : write { exW with produce := [⟨"kern", 10⟩, ⟨"kern", 12⟩] } exF = .error .valueError := by rfl
example : holdsRun [.writer exW, .gdef ⟨[], true, 1, 40⟩] exF [exO, exO ++ [.gen (.other 41)]] = true := by decide

/-- `table GDEF { GlyphClassDef …; LigatureCaretByIndex f_i 2; } GDEF;` on a font with categories and one glyph with a
caret anchor: nothing is left to generate -/
def exG : File := [.leaf 1, .block (.user 2) .table "GDEF" false [.leaf 3, .leaf 4]]
def exGi : GdefIn := ⟨[(3, .glyphClassDef), (4, .caretByIndex)], true, 1, 40⟩
example : gdefStep exGi exG = exG := by decide
example : holdsGdefGen exGi exG [] = true := by decide
/-- a caret by position added to a table whose carets are given by point index: refused, at both levels -/
example : holdsGdefGen exGi exG [.caretByPos] = false := by decide
example : holdsStep (.gdef exGi) exG [.leaf 1, .block (.user 2) .table "GDEF" false [.leaf 3, .leaf 4, .gen 41]] = false := by decide
/-- only the glyph classes are hand-written: the caret is generated, inside the user's table -/
example : gdefStep { exGi with kinds := [(3, .glyphClassDef)] } exG
    = [.leaf 1, .block (.user 2) .table "GDEF" false [.leaf 3, .leaf 4, .gen 41]] := by decide
/-- the GDEF table written in two blocks, the statements in the second: nothing is generated -/
def exG2 : File := [.block (.user 5) .table "GDEF" false [], .leaf 1, .block (.user 2) .table "GDEF" false [.leaf 3, .leaf 4]]
example : gdefStep exGi exG2 = exG2 ∧ gdefGenOf exGi exG2 = [] := by decide
/-- COUNTEREXAMPLE to the old rule (scan of the first block only, ufo2ft before the repair): on the same file it
writes a second GlyphClassDef and a second caret for the glyph into the first block - the property's predicates refuse -/
example : gdefGenOfFirstBlock exGi exG2 = [.glyphClassDef, .caretByPos] ∧
    gdefStepFirstBlock exGi exG2 = [.block (.user 5) .table "GDEF" false [.gen 41, .gen 42], .leaf 1,
                                    .block (.user 2) .table "GDEF" false [.leaf 3, .leaf 4]] ∧
    holdsGdefGen exGi exG2 (gdefGenOfFirstBlock exGi exG2) = false ∧
    holdsStep (.gdef exGi) exG2 (gdefStepFirstBlock exGi exG2) = false := by decide
/-- no table: both are generated in a new one at the end -/
example : gdefStep exGi [.leaf 1] = [.leaf 1, .gen (.other 41)] ∧ gdefGenOf exGi [.leaf 1] = [.glyphClassDef, .caretByPos] := by decide


end Ufo2ft.C17
