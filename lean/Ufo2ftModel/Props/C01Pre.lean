import Ufo2ftModel.Props.C01Skip
/-!
C01 with custom filters and with the two sources of the skip-export list.

* an explicit `DecomposeComponentsFilter(pre=True, include=… | exclude=…)` in the UFO lib / `filters=` argument runs BEFORE the
  default filters; the default `DecomposeComponentsFilter()` still runs afterwards over every glyph, so every glyph - inside or
  outside the restriction - ends up fully resolved with mirrored components reversed (`C01_outline_pre`, exact, same order).
* the skip-export list is the argument when one is passed (also an empty one), the lib key otherwise (`C01_exported*`).
-/
namespace Ufo2ft.C01
open Ufo2ft List

/-- **a restricted `DecomposeComponentsFilter` (any include predicate, any visiting order), exact**: the glyph set stays
    well-formed and every glyph - visited or not - renders exactly the contour list it rendered before. -/
theorem partialLoop (rank : String → Nat) (incl : String → Bool) :
    ∀ (order : List String) (st st' : FState), filterLoop decomposeStep incl order st = .ok st' →
      Good st.gs rank → Named st.gs →
      Good st'.gs rank ∧ Named st'.gs ∧ SameRenderEq rank st'.gs st.gs := by
  intro order
  induction order with
  | nil =>
    intro st st' h hg hn
    simp only [filterLoop] at h
    have := Except.ok.inj h; subst this
    exact ⟨hg, hn, SameRenderEq.refl rank _⟩
  | cons n ns ih =>
    intro st st' h hg hn
    unfold filterLoop at h
    by_cases hmod : st.modified.contains n = true
    · rw [if_pos hmod] at h
      exact ih st st' h hg hn
    · rw [if_neg hmod] at h
      cases hget : st.gs.get? n with
      | none => rw [hget] at h; cases h
      | some g =>
        rw [hget] at h
        dsimp only at h
        by_cases hi : incl n = true
        · rw [if_pos hi] at h
          have hname : g.name = n := hn n g hget
          unfold decomposeStep at h
          by_cases he : g.comps.isEmpty = true
          · rw [if_pos he] at h
            dsimp only at h
            rw [if_neg (by simp)] at h
            exact ih st st' h hg hn
          · rw [if_neg he] at h
            cases hd : decomposeGlyph st.gs true none g with
            | error err => rw [hd] at h; cases h
            | ok g' =>
              rw [hd] at h
              dsimp only at h
              rw [if_pos rfl] at h
              rw [hname] at h
              have hg1 := decompose_set_good st.gs rank hg true none n g g' hget hd
              have hn1 := named_set st.gs hn n g g' hget (by rw [decomposeGlyph_name st.gs true none g g' hd, hname])
              have hs1 := decomposeFull_set_sameRenderEq st.gs rank hg n g g' hget hd
              obtain ⟨a, b, c⟩ := ih _ st' h hg1 hn1
              exact ⟨a, b, c.trans hs1⟩
        · rw [if_neg hi] at h
          exact ih st st' h hg hn

/-- the whole restricted filter -/
theorem runFilter_partial (rank : String → Nat) (incl : String → Bool) (gs : GlyphSet) (st : FState)
    (h : runFilter decomposeStep incl gs = .ok st) (hg : Good gs rank) (hn : Named gs) :
    Good st.gs rank ∧ Named st.gs ∧ SameRenderEq rank st.gs gs := by
  unfold runFilter at h
  cases ho : orderedGlyphs gs with
  | error e => rw [ho] at h; cases h
  | ok order =>
    rw [ho] at h
    exact partialLoop rank incl order ⟨gs, [], []⟩ st h hg hn

/-- without a custom filter the extended pipeline is the plain one -/
theorem preprocessF_none (skip : List String) (gs : GlyphSet) : preprocessF none skip gs = preprocess skip gs := by
  unfold preprocessF preprocess
  cases h : (if skip.isEmpty = true then (Except.ok gs : Except GErr GlyphSet)
    else match skipExport skip (fun _ => true) gs with | .error e => .error e | .ok st => .ok st.gs) <;> rfl

/-- **C01_outline_pre** (an explicit restricted `decomposeComponents` pre-filter, no skip list): for every acyclic glyph set
    with non-singular components, whatever the include/exclude restriction of the custom pre-filter, the commands the compiled
    CFF font draws for EVERY glyph - inside or outside the restriction - are exactly the specification: all components
    resolved, mirrored ones reversed, same contours in the same order. -/
theorem C01_outline_pre (tol : Q) (s : Sel) (gs pre : GlyphSet) (rank : String → Nat) (hg : Good gs rank) (hn : Named gs)
    (h : preprocessF (some s) [] gs = .ok pre)
    (n : String) (g : Glyph) (hget : gs.get? n = some g) (hb : rank n ≤ gs.length) :
    cffOutline tol pre n = specOutline tol gs g := by
  unfold preprocessF at h
  simp only [List.isEmpty_nil, if_true] at h
  cases h1 : runFilter decomposeStep s.pred gs with
  | error e => rw [h1] at h; cases h
  | ok st1 =>
    rw [h1] at h
    dsimp only at h
    obtain ⟨hg1, hn1, hs1⟩ := runFilter_partial rank s.pred gs st1 h1 hg hn
    cases hr : runFilter decomposeStep (fun _ => true) st1.gs with
    | error e => rw [hr] at h; cases h
    | ok st =>
      rw [hr] at h
      have := Except.ok.inj h; subst this
      unfold runFilter at hr
      cases ho : orderedGlyphs st1.gs with
      | error e => rw [ho] at hr; cases hr
      | ok order =>
        rw [ho] at hr
        obtain ⟨_, _, hs, _, hflat, _⟩ := fullLoop rank order ⟨st1.gs, [], []⟩ st hr hg1 hn1 (fun x hx => (by cases hx))
        obtain ⟨hsome1, heq1⟩ := hs1 n
        cases hp1 : st1.gs.get? n with
        | none => rw [hp1, hget] at hsome1; cases hsome1
        | some g1 =>
          obtain ⟨hsome, heq⟩ := hs n
          have hmem := orderedGlyphs_mem st1.gs order ho n g1 hp1
          cases hp : st.gs.get? n with
          | none => rw [hp, hp1] at hsome; cases hsome
          | some g' =>
            have hc : g'.comps = [] := hflat n hmem g' hp
            have hid : Affine.id.det ≠ 0 := by simp only [Affine.id, Affine.det]; grind
            have e := heq g' g1 hp hp1 Affine.id (gs.length + 2) hid (by omega)
            have e1 := heq1 g1 g hp1 hget Affine.id (gs.length + 2) hid (by omega)
            unfold cffOutline specOutline renderGlyph
            rw [hp]
            dsimp only
            rw [← e1, ← e, render_succ, hc, drawContours_id]
            simp

/-- the decidable predicate holds of the model's output, with any restricted pre-filter -/
theorem C01_outline_pre_holds (tol : Q) (s : Sel) (gs pre : GlyphSet) (rank : String → Nat) (hg : Good gs rank) (hn : Named gs)
    (h : preprocessF (some s) [] gs = .ok pre)
    (n : String) (g : Glyph) (hget : gs.get? n = some g) (hb : rank n ≤ gs.length)
    (ops : List Op) (hops : cffOutline tol pre n = .ok ops) :
    holdsOutline true tol gs g ops = true := by
  rw [C01_outline_pre tol s gs pre rank hg hn h n g hget hb] at hops
  have hns := nonsingularFrom_of_good gs rank hg (gs.length + 1) g (hg.nonsing n g hget)
  simp [holdsOutline, hops, hns]

/-- the custom pre-filter changes nothing in the compiled outlines: with and without it the model draws the same commands -/
theorem C01_pre_irrelevant (tol : Q) (s : Sel) (gs pre pre0 : GlyphSet) (rank : String → Nat) (hg : Good gs rank) (hn : Named gs)
    (h : preprocessF (some s) [] gs = .ok pre) (h0 : preprocess [] gs = .ok pre0)
    (n : String) (g : Glyph) (hget : gs.get? n = some g) (hb : rank n ≤ gs.length) :
    cffOutline tol pre n = cffOutline tol pre0 n := by
  rw [C01_outline_pre tol s gs pre rank hg hn h n g hget hb, C01_outline tol gs pre0 rank hg hn h0 n g hget hb]

/-- **C01_outline_pre_skip** (a skip-export list AND a restricted `decomposeComponents` pre-filter): every exported glyph's compiled
    outline consists of exactly the specified contours, as a multiset (the skip-export splice may reorder contours). -/
theorem C01_outline_pre_skip (tol : Q) (s : Sel) (skip : List String) (hne : skip.isEmpty = false) (gs pre : GlyphSet)
    (rank : String → Nat) (hg : Good gs rank) (hn : Named gs) (h : preprocessF (some s) skip gs = .ok pre)
    (n : String) (g : Glyph) (hs : skip.contains n = false) (hget : gs.get? n = some g) (hb : rank n ≤ gs.length)
    (ops : List Op) (hops : cffOutline tol pre n = .ok ops) :
    holdsOutline false tol gs g ops = true := by
  unfold preprocessF at h
  rw [hne] at h
  simp only [Bool.false_eq_true, if_false] at h
  cases h1 : skipExport skip (fun _ => true) gs with
  | error e => rw [h1] at h; cases h
  | ok st1 =>
    rw [h1] at h
    dsimp only at h
    cases hP : runFilter decomposeStep s.pred st1.gs with
    | error e => rw [hP] at h; cases h
    | ok stP =>
    rw [hP] at h
    dsimp only at h
    cases h2 : runFilter decomposeStep (fun _ => true) stP.gs with
    | error e => rw [h2] at h; cases h
    | ok st2 =>
      rw [h2] at h
      have := Except.ok.inj h; subst this
      -- phase 1: skip-export
      obtain ⟨_, hrender⟩ := C13.C13_render skip gs st1 rank hg hn h1
      obtain ⟨g1, hg1, _, _, _, _, hperm⟩ := hrender n g hs hget
      have hgood1 : Good st1.gs rank ∧ Named st1.gs := by
        unfold skipExport at h1
        cases hr : runFilter (skipExportStep skip) (fun _ => true) gs with
        | error e => rw [hr] at h1; cases h1
        | ok st0 =>
          rw [hr] at h1
          have := Except.ok.inj h1; subst this
          have hs0 := runFilter_sameRender (skipExportStep skip) rank
            (stepOK_of_isDecomp rank _ (skipExportStep_isDecomp skip)) (fun _ => true) gs st0 hr hg hn
          exact good_filter skip st0.gs rank hs0.1 hs0.2.1
      -- phase 1b: the restricted custom pre-filter
      obtain ⟨hgP, hnP, hsP⟩ := runFilter_partial rank s.pred st1.gs stP hP hgood1.1 hgood1.2
      obtain ⟨hsomeP, heqP⟩ := hsP n
      cases hpP : stP.gs.get? n with
      | none => rw [hpP, hg1] at hsomeP; cases hsomeP
      | some gP =>
      -- phase 2: full decomposition
      unfold runFilter at h2
      cases ho : orderedGlyphs stP.gs with
      | error e => rw [ho] at h2; cases h2
      | ok order =>
        rw [ho] at h2
        obtain ⟨_, _, hsame, _, hflat, _⟩ := fullLoop rank order ⟨stP.gs, [], []⟩ st2 h2 hgP hnP
          (fun x hx => (by cases hx))
        obtain ⟨hsome, heq⟩ := hsame n
        have hmem := orderedGlyphs_mem stP.gs order ho n gP hpP
        cases hp : st2.gs.get? n with
        | none => rw [hp, hpP] at hsome; cases hsome
        | some g' =>
          have hc : g'.comps = [] := hflat n hmem g' hp
          have hid : Affine.id.det ≠ 0 := by simp only [Affine.id, Affine.det]; grind
          have e := heq g' gP hp hpP Affine.id (gs.length + 2) hid (by omega)
          have eP := heqP gP g1 hpP hg1 Affine.id (gs.length + 2) hid (by omega)
          have p := hperm Affine.id (gs.length + 2) hid (by omega)
          have hcont : g'.contours = render (gs.length + 2) st2.gs Affine.id g' := by
            rw [render_succ, hc, drawContours_id]; simp
          unfold cffOutline at hops
          rw [hp] at hops
          dsimp only at hops
          have hpermc : (g'.contours).Perm (renderGlyph gs g) := by
            rw [hcont, e, eP]; exact p
          obtain ⟨sops, hsops⟩ := (contoursOps_ok_iff tol (renderGlyph gs g)).mpr (by
            intro c hc'
            exact ((contoursOps_ok_iff tol g'.contours).mp ⟨ops, hops⟩) c (hpermc.mem_iff.mpr hc'))
          have hns := nonsingularFrom_of_good gs rank hg (gs.length + 1) g (hg.nonsing n g hget)
          unfold holdsOutline specOutline
          rw [hsops]
          simp only [hns, Bool.not_true, Bool.false_eq_true, if_false]
          exact isPerm_iff.mpr (contoursOps_perm tol _ _ hpermc ops sops hops hsops)

/-! ### which glyphs are exported -/

/-- **C01_exported**: the model's skip list (argument if passed, else lib key) removes exactly the non-exported glyphs -/
theorem C01_exported (arg : Option (List String)) (lib : List String) (n : String) :
    (effectiveSkip arg lib).contains n = !isExported arg lib n := by
  cases arg <;> simp [effectiveSkip, isExported]

/-- an explicit EMPTY `skipExportGlyphs=` argument exports every glyph, whatever the UFO's lib key says -/
theorem C01_exported_explicit_empty (lib : List String) (n : String) :
    isExported (some []) lib n = true ∧ effectiveSkip (some []) lib = [] := by
  simp [isExported, effectiveSkip]

/-- an explicit argument overrides the lib key altogether -/
theorem C01_exported_explicit (a lib lib' : List String) :
    effectiveSkip (some a) lib = effectiveSkip (some a) lib' := rfl

/-- the glyph names the model keeps (source names minus the effective skip list) satisfy the export predicate -/
theorem C01_holdsExported (arg : Option (List String)) (lib : List String) (src : List String) :
    holdsExported arg lib src (src.filter (fun n => !(effectiveSkip arg lib).contains n)) = true := by
  unfold holdsExported
  simp only [Bool.and_eq_true, all_eq_true, beq_iff_eq, Bool.or_eq_true]
  constructor
  · intro n hn
    rw [← Bool.not_not (b := isExported arg lib n), ← C01_exported]
    cases hc : (effectiveSkip arg lib).contains n <;> simp [hn] <;> simpa using hc
  · intro n hn
    left
    have := (mem_filter.mp hn).1
    simpa using this

example : isExported (some []) ["_bar"] "_bar" = true ∧ isExported none ["_bar"] "_bar" = false ∧
    isExported (some ["x"]) ["_bar"] "_bar" = true := by decide

end Ufo2ft.C01
