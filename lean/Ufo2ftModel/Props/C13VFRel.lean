import Ufo2ftModel.Props.C13VFFam
/-!
C13 (variable fonts), part 6: what `SkipExportGlyphsIFilter` must leave behind (`SkipRel`, a relation between the sources
before and after), and the theorem for every family pair in that relation.
-/
namespace Ufo2ft.C13
open Ufo2ft Ufo2ft.C09 List

/-- some source's glyph `n` references a skipped glyph directly -/
def Affected (ms : Masters) (skip : List String) (n : String) : Prop :=
  ∃ g ∈ glyphsNamed ms n, ∃ k ∈ g.comps, skip.contains k.base = true

/-- the locations where glyph `n` must be defined after the filter: where it is defined already, and wherever a skipped
    glyph it reaches — directly or through other skipped glyphs — has a source (`C09.Tied`) -/
def NewLoc (I : Inst) (ms : Masters) (skip : List String) (n : String) (l : Q) : Prop :=
  l ∈ sourceLocs I ms n ∨ Tied I ms (some skip) l n

/-- `g'` is glyph `n` at location `l` with every reference to a skipped glyph replaced by that glyph's content at `l` -/
def DecAt (I : Inst) (ms : Masters) (skip : List String) (n : String) (l : Q) (g' : Glyph) : Prop :=
  ∃ g layer fuel d, glyphAt I ms n l = some g ∧ (∀ b, skip.contains b = true → layer.get? b = glyphAt I ms b l) ∧
    addComps fuel layer true false (some skip) Affine.id g.comps = .ok d ∧ g' = withDrawn g d

/-- the sources `ms'` are what the interpolatable skip-export filter must make of `ms` -/
structure SkipRel (I : Inst) (ms : Masters) (skip : List String) (ms' : Masters) : Prop where
  len : ms'.length = ms.length
  gone : ∀ m' ∈ ms', ∀ n, skip.contains n = true → m'.get? n = none
  same : ∀ n, skip.contains n = false → ¬ Affected ms skip n →
    ∀ (i : Nat) m m', ms[i]? = some m → ms'[i]? = some m' → m'.get? n = m.get? n
  dec : ∀ n, skip.contains n = false → Affected ms skip n →
    ∀ (i : Nat) m' l, ms'[i]? = some m' → I.locs[i]? = some l →
      (NewLoc I ms skip n l → ∃ g', m'.get? n = some g' ∧ DecAt I ms skip n l g') ∧
      (¬ NewLoc I ms skip n l → m'.get? n = none)

theorem mem_glyphsNamed (ms : Masters) (n : String) (g : Glyph) :
    g ∈ glyphsNamed ms n ↔ ∃ m ∈ ms, m.get? n = some g := by
  simp only [glyphsNamed, List.mem_filterMap]

theorem isIncluded_some (skip : List String) (b : String) : isIncluded (some skip) b = skip.contains b := rfl

/-! ### decomposition commutes with interpolation, on the level of the family -/

theorem withDrawn_mix (s : Q) (ga gb : Glyph) (da db : Drawn) (h : sh ga = sh gb) :
    withDrawn (mixGlyph s ga gb) (mixDrawn s da db) = mixGlyph s (withDrawn ga da) (withDrawn gb db) := by
  simp only [withDrawn, mixGlyph, mixDrawn]
  rw [List.zipWith_append (length_eq_of_map_eq (sh_contours h))]

theorem sh_withDrawn (ga gb : Glyph) (da db : Drawn) (h : sh ga = sh gb) (hd : AlikeD da db) :
    sh (withDrawn ga da) = sh (withDrawn gb db) := by
  have h1 := sh_name h
  have h2 := sh_contours h
  have h4 := sh_anchors h
  simp only [sh, withDrawn, map_append, h1, h2, hd.1, hd.2, h4]

/-- if on the names the pen can reach (`V`) the family at `t` is the `s`-mix of the family at `a` and at `b`, then the
    decomposed glyph at `t` is the `s`-mix of the decomposed glyphs at `a` and `b` -/
theorem dec_mix (I : Inst) (ms : Masters) (skip : List String) (n : String) (s a b t : Q) (V : String → Prop)
    (ga gb : Glyph) (hga : glyphAt I ms n a = some ga) (hgb : glyphAt I ms n b = some gb) (hsh : sh ga = sh gb)
    (hgt : glyphAt I ms n t = some (mixGlyph s ga gb)) (hVn : ∀ k ∈ ga.comps, V k.base)
    (hV : ∀ x, V x → skip.contains x = true → ∀ xa xb, glyphAt I ms x a = some xa → glyphAt I ms x b = some xb →
      sh xa = sh xb ∧ glyphAt I ms x t = some (mixGlyph s xa xb) ∧ ∀ k ∈ xa.comps, V k.base)
    (ga' gb' : Glyph) (hda : DecAt I ms skip n a ga') (hdb : DecAt I ms skip n b gb') :
    sh ga' = sh gb' ∧ DecAt I ms skip n t (mixGlyph s ga' gb') := by
  obtain ⟨ga0, La, fa, da, hga0, hLa, hca, rfl⟩ := hda
  obtain ⟨gb0, Lb, fb, db, hgb0, hLb, hcb, rfl⟩ := hdb
  rw [hga] at hga0
  have := Option.some.inj hga0; subst this
  rw [hgb] at hgb0
  have := Option.some.inj hgb0; subst this
  have hsets : MixSets s La Lb (instanceAt I ms t) (some skip) V := by
    intro x hVx hix x0 x1 hx0 hx1
    rw [isIncluded_some] at hix
    rw [hLa x hix] at hx0
    rw [hLb x hix] at hx1
    obtain ⟨h1, h2, h3⟩ := hV x hVx hix x0 x1 hx0 hx1
    exact ⟨h1, by rw [instanceAt_get]; exact h2, h3⟩
  have hca' := (addComp_mono La true false fa).2 _ _ _ _ hca (max fa fb) (Nat.le_max_left _ _)
  have hcb' := (addComp_mono Lb true false fb).2 _ _ _ _ hcb (max fa fb) (Nat.le_max_right _ _)
  obtain ⟨hm, hal⟩ := (mix_all s La Lb (instanceAt I ms t) (some skip) V hsets (max fa fb)).2
    Affine.id Affine.id ga.comps gb.comps da db hVn rfl (sh_comps hsh) hca' hcb'
  rw [lerpAffine_id] at hm
  refine ⟨sh_withDrawn ga gb da db hsh hal, ?_⟩
  refine ⟨mixGlyph s ga gb, instanceAt I ms t, max fa fb, mixDrawn s da db, hgt, ?_, hm, ?_⟩
  · intro x _
    exact instanceAt_get I ms t x
  · exact (withDrawn_mix s ga gb da db hsh).symm


/-! ### the names the pen reaches from `n` through skipped glyphs -/

inductive Vis (ms : Masters) (skip : List String) (n : String) : String → Prop
  | direct (g : Glyph) (k : Comp) : g ∈ glyphsNamed ms n → k ∈ g.comps → Vis ms skip n k.base
  | through (y : String) (g : Glyph) (k : Comp) : Vis ms skip n y → skip.contains y = true →
      g ∈ glyphsNamed ms y → k ∈ g.comps → Vis ms skip n k.base

theorem tied_of_vis_tied (I : Inst) (ms : Masters) (skip : List String) (n : String) (l : Q) :
    ∀ y, Vis ms skip n y → skip.contains y = true → Tied I ms (some skip) l y → Tied I ms (some skip) l n := by
  intro y hv
  induction hv with
  | direct g k hg hk => intro hs ht; exact Tied.through n g k hg hk hs ht
  | through z g k _ hz hg hk ih => intro hs ht; exact ih hz (Tied.through z g k hg hk hs ht)

theorem tied_of_vis (I : Inst) (ms : Masters) (skip : List String) (n : String) (l : Q) (x : String)
    (hv : Vis ms skip n x) (hs : skip.contains x = true) (hl : l ∈ sourceLocs I ms x) : Tied I ms (some skip) l n := by
  cases hv with
  | direct g k hg hk => exact Tied.direct n g k hg hk hs hl
  | through y g k hy hys hg hk =>
    exact tied_of_vis_tied I ms skip n l y hy hys (Tied.direct y g k hg hk hs hl)

theorem sourceLocs_sub (I : Inst) (ms : Masters) (n : String) (l : Q) (h : l ∈ sourceLocs I ms n) : l ∈ I.locs := by
  obtain ⟨m, hm, _⟩ := (mem_sourceLocs _ _ _ _).mp h
  exact mem_of_mem_zip_right hm

theorem tied_mem_locs (I : Inst) (ms : Masters) (incl : Option (List String)) (l : Q) (n : String)
    (h : Tied I ms incl l n) : l ∈ I.locs := by
  induction h with
  | direct n g k _ _ _ hl => exact sourceLocs_sub I ms _ l hl
  | through n g k _ _ _ _ ih => exact ih

theorem newLoc_mem_locs {I : Inst} {ms : Masters} {skip : List String} {n : String} {l : Q}
    (h : NewLoc I ms skip n l) : l ∈ I.locs := by
  rcases h with h | h
  · exact sourceLocs_sub I ms n l h
  · exact tied_mem_locs I ms _ l n h

theorem inHull_of_mem {I : Inst} {l : Q} (h : l ∈ I.locs) : InHull I l :=
  ⟨⟨l, h, Rat.le_refl⟩, ⟨l, h, Rat.le_refl⟩⟩

/-! ### the masters of an affected glyph after the filter -/

section
variable {I : Inst} {ms ms' : Masters} {rank : String → Nat} {skip : List String}

theorem pts'_mem (rel : SkipRel I ms skip ms') (n : String) (hsk : skip.contains n = false) (haf : Affected ms skip n)
    (l : Q) (g' : Glyph) (h : (l, g') ∈ ptsOf I ms' n) : NewLoc I ms skip n l ∧ DecAt I ms skip n l g' := by
  obtain ⟨m', hm', hg'⟩ := (mem_ptsOf _ _ _ _ _).mp h
  obtain ⟨i, hi1, hi2⟩ := (mem_zip_iff _ _ _ _).mp hm'
  obtain ⟨d1, d2⟩ := rel.dec n hsk haf i m' l hi1 hi2
  by_cases hnl : NewLoc I ms skip n l
  · obtain ⟨g'', hg'', hd⟩ := d1 hnl
    rw [hg'] at hg''
    rw [Option.some.inj hg'']
    exact ⟨hnl, hd⟩
  · rw [d2 hnl] at hg'; cases hg'

theorem pts'_of_newLoc (hlen : I.locs.length = ms.length) (rel : SkipRel I ms skip ms') (n : String)
    (hsk : skip.contains n = false) (haf : Affected ms skip n) (l : Q) (hnl : NewLoc I ms skip n l) :
    ∃ g', (l, g') ∈ ptsOf I ms' n ∧ DecAt I ms skip n l g' := by
  obtain ⟨i, hi⟩ := List.mem_iff_getElem?.mp (newLoc_mem_locs hnl)
  have hlt : i < I.locs.length := (List.getElem?_eq_some_iff.mp hi).1
  have hlt' : i < ms'.length := by rw [rel.len, ← hlen]; exact hlt
  obtain ⟨g', hg', hd⟩ := (rel.dec n hsk haf i ms'[i] l (List.getElem?_eq_getElem hlt') hi).1 hnl
  exact ⟨g', (mem_ptsOf _ _ _ _ _).mpr ⟨ms'[i], (mem_zip_iff _ _ _ _).mpr ⟨i, List.getElem?_eq_getElem hlt', hi⟩, hg'⟩, hd⟩


/-- two instances of one glyph (inside the hull) are alike -/
theorem glyphAt_alike (h : WF I ms rank) (x : String) (a b : Q) (ha : InHull I a) (hb : InHull I b) (xa xb : Glyph)
    (hxa : glyphAt I ms x a = some xa) (hxb : glyphAt I ms x b = some xb) : sh xa = sh xb := by
  obtain ⟨m1, hm1, g1, hg1, hs1⟩ := instance_like_master h a ha x xa hxa
  obtain ⟨m2, hm2, g2, hg2, hs2⟩ := instance_like_master h b hb x xb hxb
  rw [hs1, hs2]
  exact h.alike m1 hm1 m2 hm2 x g1 g2 hg1 hg2

/-- on an interval between two source locations that holds no master of `x`, glyph `x` is linear -/
theorem between_fam (h : WF I ms rank) (x : String) (dx : Glyph) (hdx : (dflt I ms).get? x = some dx)
    (a t b : Q) (ha : a ∈ I.locs) (hb : b ∈ I.locs) (hat : a ≤ t) (htb : t ≤ b) (hab : a < b)
    (hfree : ∀ e ∈ ptsOf I ms x, e.1 ≤ a ∨ b ≤ e.1) :
    ∃ xa xb, glyphAt I ms x a = some xa ∧ glyphAt I ms x b = some xb ∧
      glyphAt I ms x t = some (mixGlyph ((t - a) / (b - a)) xa xb) := by
  have hsome : ((dflt I ms).get? x).isSome = true := by rw [hdx]; rfl
  obtain ⟨hlow, _⟩ := span_pts h x hsome a (inHull_of_mem ha)
  obtain ⟨_, hhigh⟩ := span_pts h x hsome b (inHull_of_mem hb)
  obtain ⟨xa, xb, h1, h2, _, _, h3⟩ := interpAt_between (ptsOf I ms x) (alikePts_ptsOf h x) (locInj_ptsOf h.locsNodup x)
    ⟨(0, dx), default_ptsOf h x dx hdx, rfl⟩ a t b hat htb hab hfree hlow hhigh
  refine ⟨xa, xb, ?_, ?_, ?_⟩ <;> rw [glyphAt_eq h x dx hdx] <;> assumption

theorem dflt_mem' (h : WF I ms rank) (rel : SkipRel I ms skip ms') : (dflt I ms', (0 : Q)) ∈ ms'.zip I.locs := by
  apply (mem_zip_iff _ _ _ _).mpr
  refine ⟨I.defaultIdx, ?_, h.default.2⟩
  unfold dflt
  have : I.defaultIdx < ms'.length := by rw [rel.len]; exact h.default.1
  rw [List.getD_eq_getElem?_getD, List.getElem?_eq_getElem this]
  rfl

theorem comp_vis_direct (h : WF I ms rank) (n : String) (a : Q) (ha : InHull I a) (ga : Glyph)
    (hga : glyphAt I ms n a = some ga) : ∀ k ∈ ga.comps, Vis ms skip n k.base := by
  intro k hk
  obtain ⟨m, hm, g0, hg0, hsh⟩ := instance_like_master h a ha n ga hga
  obtain ⟨k0, hk0, he⟩ := mem_comps_of_sh hsh hk
  rw [← ksh_base he]
  exact Vis.direct g0 k0 ((mem_glyphsNamed _ _ _).mpr ⟨m, hm, hg0⟩) hk0

theorem comp_vis_through (h : WF I ms rank) (n x : String) (hv : Vis ms skip n x) (hs : skip.contains x = true)
    (a : Q) (ha : InHull I a) (xa : Glyph) (hxa : glyphAt I ms x a = some xa) :
    ∀ k ∈ xa.comps, Vis ms skip n k.base := by
  intro k hk
  obtain ⟨m, hm, g0, hg0, hsh⟩ := instance_like_master h a ha x xa hxa
  obtain ⟨k0, hk0, he⟩ := mem_comps_of_sh hsh hk
  rw [← ksh_base he]
  exact Vis.through x g0 k0 hv hs ((mem_glyphsNamed _ _ _).mpr ⟨m, hm, hg0⟩) hk0

/-- the masters of an affected glyph after the filter are alike -/
theorem alikePts' (h : WF I ms rank) (rel : SkipRel I ms skip ms') (n : String) (hsk : skip.contains n = false)
    (haf : Affected ms skip n) : AlikePts (ptsOf I ms' n) := by
  intro e1 h1 e2 h2
  obtain ⟨l1, g1'⟩ := e1
  obtain ⟨l2, g2'⟩ := e2
  obtain ⟨nl1, d1⟩ := pts'_mem rel n hsk haf l1 g1' h1
  obtain ⟨nl2, d2⟩ := pts'_mem rel n hsk haf l2 g2' h2
  have hu1 := inHull_of_mem (newLoc_mem_locs nl1)
  have hu2 := inHull_of_mem (newLoc_mem_locs nl2)
  obtain ⟨ga, _, _, _, hga, _⟩ := id d1
  obtain ⟨gb, _, _, _, hgb, _⟩ := id d2
  have hsh := glyphAt_alike h n l1 l2 hu1 hu2 ga gb hga hgb
  refine (dec_mix I ms skip n 0 l1 l2 l1 (fun _ => True) ga gb hga hgb hsh (by rw [mix_zero _ _ hsh]; exact hga)
    (fun _ _ => trivial) ?_ g1' g2' d1 d2).1
  intro x _ _ xa xb hxa hxb
  have hx := glyphAt_alike h x l1 l2 hu1 hu2 xa xb hxa hxb
  exact ⟨hx, by rw [mix_zero _ _ hx]; exact hxa, fun _ _ => trivial⟩

/-- **interpolating the filtered sources = filtering the interpolated family** (affected glyphs) -/
theorem glyphAt_affected (h : WF I ms rank) (rel : SkipRel I ms skip ms') (n : String) (hsk : skip.contains n = false)
    (haf : Affected ms skip n) (d : Glyph) (hd : (dflt I ms).get? n = some d) (t : Q) (ht : InHull I t) :
    ∃ g', glyphAt I ms' n t = some g' ∧ DecAt I ms skip n t g' := by
  have hal' := alikePts' h rel n hsk haf
  have hinj' : LocInj (ptsOf I ms' n) := locInj_ptsOf h.locsNodup n
  have h0 : (0 : Q) ∈ sourceLocs I ms n := (mem_sourceLocs _ _ _ _).mpr ⟨dflt I ms, h.dflt_mem, by rw [hd]; rfl⟩
  obtain ⟨d', hd'm, _⟩ := pts'_of_newLoc h.len rel n hsk haf 0 (Or.inl h0)
  have hd' : (dflt I ms').get? n = some d' := by
    obtain ⟨m', hm', hg'⟩ := (mem_ptsOf _ _ _ _ _).mp hd'm
    have := zip_right_inj _ _ h.locsNodup m' (dflt I ms') 0 hm' (dflt_mem' h rel)
    rw [← this]; exact hg'
  unfold glyphAt
  rw [collectMasters_eq n d' hd' hal' hd'm]
  dsimp only
  -- every master location of `n` is still one
  have hkeep : ∀ e ∈ ptsOf I ms n, ∃ g', (e.1, g') ∈ ptsOf I ms' n := by
    intro e he
    obtain ⟨g', hg', _⟩ := pts'_of_newLoc h.len rel n hsk haf e.1
      (Or.inl ((mem_sourceLocs_iff_pts _ _ _ _).mpr ⟨e.2, he⟩))
    exact ⟨g', hg'⟩
  by_cases hmaster : ∃ e ∈ ptsOf I ms' n, e.1 = t
  · obtain ⟨e, he, het⟩ := hmaster
    obtain ⟨e', he', hloc, hv⟩ := interpAt_master _ t e he het
    refine ⟨e'.2, hv, ?_⟩
    have := (pts'_mem rel n hsk haf e'.1 e'.2 he').2
    rw [hloc] at this
    exact this
  · have hnot : ∀ e ∈ ptsOf I ms' n, e.1 ≠ t := fun e he het => hmaster ⟨e, he, het⟩
    obtain ⟨⟨a, ha, hat⟩, ⟨b, hb, htb⟩⟩ := span_pts h n (by rw [hd]; rfl) t ht
    obtain ⟨ga', hga'⟩ := hkeep a ha
    obtain ⟨gb', hgb'⟩ := hkeep b hb
    have hull : (0 < t ∧ ∃ e ∈ ptsOf I ms' n, t ≤ e.1) ∨ (t < 0 ∧ ∃ e ∈ ptsOf I ms' n, e.1 ≤ t) := by
      have := hnot (0, d') hd'm
      simp only at this
      by_cases h0 : 0 < t
      · exact Or.inl ⟨h0, (b.1, gb'), hgb', htb⟩
      · exact Or.inr ⟨by grind, (a.1, ga'), hga', hat⟩
    obtain ⟨lo, lom, hi, him, hlt, hth, hadj, hv⟩ := interpAt_off _ t hal' ⟨(0, d'), hd'm, rfl⟩ hnot hull
    refine ⟨_, hv, ?_⟩
    obtain ⟨nlo, dlo⟩ := pts'_mem rel n hsk haf lo.1 lo.2 lom
    obtain ⟨nhi, dhi⟩ := pts'_mem rel n hsk haf hi.1 hi.2 him
    have hlo_loc := newLoc_mem_locs nlo
    have hhi_loc := newLoc_mem_locs nhi
    have hlh : lo.1 < hi.1 := by grind
    -- no master of a reached glyph strictly inside the cell
    have free_of : ∀ x, (∀ l, l ∈ sourceLocs I ms x → NewLoc I ms skip n l) →
        ∀ e ∈ ptsOf I ms x, e.1 ≤ lo.1 ∨ hi.1 ≤ e.1 := by
      intro x hx e he
      obtain ⟨g', hg', _⟩ := pts'_of_newLoc h.len rel n hsk haf e.1
        (hx e.1 ((mem_sourceLocs_iff_pts _ _ _ _).mpr ⟨e.2, he⟩))
      exact hadj (e.1, g') hg'
    obtain ⟨na, nb, hna, hnb, hnt⟩ := between_fam h n d hd lo.1 t hi.1 hlo_loc hhi_loc (by grind) (by grind) hlh
      (free_of n (fun l hl => Or.inl hl))
    have hsh := glyphAt_alike h n lo.1 hi.1 (inHull_of_mem hlo_loc) (inHull_of_mem hhi_loc) na nb hna hnb
    refine (dec_mix I ms skip n ((t - lo.1) / (hi.1 - lo.1)) lo.1 hi.1 t (Vis ms skip n) na nb hna hnb hsh hnt
      (comp_vis_direct h n lo.1 (inHull_of_mem hlo_loc) na hna) ?_ lo.2 hi.2 dlo dhi).2
    intro x hvx hsx xa xb hxa hxb
    have hx := glyphAt_alike h x lo.1 hi.1 (inHull_of_mem hlo_loc) (inHull_of_mem hhi_loc) xa xb hxa hxb
    refine ⟨hx, ?_, comp_vis_through h n x hvx hsx lo.1 (inHull_of_mem hlo_loc) xa hxa⟩
    cases hdx : (dflt I ms).get? x with
    | none => rw [glyphAt_none x hdx] at hxa; cases hxa
    | some dx =>
      obtain ⟨xa', xb', hxa', hxb', hxt⟩ := between_fam h x dx hdx lo.1 t hi.1 hlo_loc hhi_loc (by grind) (by grind) hlh
        (free_of x (fun l hl => Or.inr (tied_of_vis I ms skip n l x hvx hsx hl)))
      rw [hxa] at hxa'
      rw [hxb] at hxb'
      rw [Option.some.inj hxa', Option.some.inj hxb']
      exact hxt

end

/-! ### glyphs the filter leaves alone -/

theorem ptsOf_congr (n : String) : ∀ (ms ms' : Masters) (locs : List Q), ms'.length = ms.length →
    (∀ (i : Nat) m m', ms[i]? = some m → ms'[i]? = some m' → m'.get? n = m.get? n) →
    (ms'.zip locs).filterMap (fun (m, l) => (m.get? n).map (fun g => (l, g))) =
      (ms.zip locs).filterMap (fun (m, l) => (m.get? n).map (fun g => (l, g)))
  | [], [], _, _, _ => rfl
  | [], _ :: _, _, h, _ => by simp at h
  | _ :: _, [], _, h, _ => by simp at h
  | _ :: _, _ :: _, [], _, _ => by simp
  | m :: ms, m' :: ms', l :: locs, hl, h => by
    have h0 := h 0 m m' rfl rfl
    have ih := ptsOf_congr n ms ms' locs (by simpa using hl) (fun i a b ha hb => h (i + 1) a b (by simpa using ha) (by simpa using hb))
    simp only [zip_cons_cons, filterMap_cons, h0, ih]

theorem glyphAt_same {I : Inst} {ms ms' : Masters} {skip : List String} (rel : SkipRel I ms skip ms') (n : String)
    (hsk : skip.contains n = false) (hna : ¬ Affected ms skip n) (t : Q) : glyphAt I ms' n t = glyphAt I ms n t := by
  have hp := ptsOf_congr n ms ms' I.locs rel.len (rel.same n hsk hna)
  have hd : (ms'.getD I.defaultIdx []).get? n = (ms.getD I.defaultIdx []).get? n := by
    by_cases hi : I.defaultIdx < ms.length
    · have hi' : I.defaultIdx < ms'.length := by rw [rel.len]; exact hi
      rw [List.getD_eq_getElem?_getD, List.getD_eq_getElem?_getD, List.getElem?_eq_getElem hi, List.getElem?_eq_getElem hi']
      exact rel.same n hsk hna I.defaultIdx _ _ (List.getElem?_eq_getElem hi) (List.getElem?_eq_getElem hi')
    · have hi' : ¬ I.defaultIdx < ms'.length := by rw [rel.len]; exact hi
      rw [List.getD_eq_getElem?_getD, List.getD_eq_getElem?_getD, List.getElem?_eq_none (by omega), List.getElem?_eq_none (by omega)]
  unfold glyphAt collectMasters
  rw [hd]
  simp only [hp]

section
variable {I : Inst} {ms ms' : Masters} {rank : String → Nat} {skip : List String}

theorem withDrawn_pass (g : Glyph) : withDrawn g ⟨[], g.comps.map (fun k => ⟨k.base, Affine.id.compose k.t⟩)⟩ = g := by
  obtain ⟨nm, w, ht, cs, ks, an⟩ := g
  simp only [withDrawn, append_nil, Glyph.mk.injEq, true_and]
  rw [List.map_congr_left (g := fun k => k) (fun k _ => by rw [Affine.id_compose])]
  simp

theorem decAt_unaffected (h : WF I ms rank) (n : String) (hna : ¬ Affected ms skip n) (t : Q) (ht : InHull I t)
    (g : Glyph) (hg : glyphAt I ms n t = some g) : DecAt I ms skip n t g := by
  refine ⟨g, instanceAt I ms t, 1, ⟨[], g.comps.map (fun k => ⟨k.base, Affine.id.compose k.t⟩)⟩, hg,
    fun b _ => instanceAt_get I ms t b, ?_, (withDrawn_pass g).symm⟩
  apply addComps_pass
  intro k hk
  obtain ⟨m, hm, g0, hg0, hsh⟩ := instance_like_master h t ht n g hg
  obtain ⟨k0, hk0, he⟩ := mem_comps_of_sh hsh hk
  rw [isIncluded_some, ← ksh_base he]
  cases hc : skip.contains k0.base with
  | false => rfl
  | true => exact absurd ⟨g0, (mem_glyphsNamed _ _ _).mpr ⟨m, hm, hg0⟩, k0, hk0, hc⟩ hna

theorem not_affected_of_absent (h : WF I ms rank) (n : String) (hd : (dflt I ms).get? n = none) :
    ¬ Affected ms skip n := by
  rintro ⟨g, hg, _⟩
  obtain ⟨m, hm, hgm⟩ := (mem_glyphsNamed _ _ _).mp hg
  have := h.defaultFull m hm n (by rw [hgm]; rfl)
  rw [hd] at this
  cases this

/-- every non-skipped glyph of the family, at every location of the hull: after the filter it is the glyph with its
    references to skipped glyphs replaced by their content *at that location* -/
theorem glyphAt_skipRel (h : WF I ms rank) (rel : SkipRel I ms skip ms') (n : String) (hsk : skip.contains n = false)
    (t : Q) (ht : InHull I t) (g : Glyph) (hg : glyphAt I ms n t = some g) :
    ∃ g', glyphAt I ms' n t = some g' ∧ DecAt I ms skip n t g' := by
  by_cases haf : Affected ms skip n
  · cases hd : (dflt I ms).get? n with
    | none => exact absurd haf (not_affected_of_absent h n hd)
    | some d => exact glyphAt_affected h rel n hsk haf d hd t ht
  · exact ⟨g, by rw [glyphAt_same rel n hsk haf]; exact hg, decAt_unaffected h n haf t ht g hg⟩

theorem glyphAt_absent (h : WF I ms rank) (rel : SkipRel I ms skip ms') (n : String) (t : Q) (ht : InHull I t)
    (hg : glyphAt I ms n t = none) : glyphAt I ms' n t = none := by
  cases hsk : skip.contains n with
  | true =>
    apply glyphAt_none
    unfold dflt
    by_cases hi : I.defaultIdx < ms'.length
    · rw [List.getD_eq_getElem?_getD, List.getElem?_eq_getElem hi]
      exact rel.gone _ (List.getElem_mem hi) n hsk
    · rw [List.getD_eq_getElem?_getD, List.getElem?_eq_none (by omega)]
      rfl
  | false =>
    cases hd : (dflt I ms).get? n with
    | none => rw [glyphAt_same rel n hsk (not_affected_of_absent h n hd)]; exact hg
    | some d =>
      obtain ⟨g, hg', _⟩ := glyphAt_sh h n d hd t ht
      rw [hg] at hg'; cases hg'

/-- at every location of the hull the instance of the filtered family is the instance of the family with the skipped
    glyphs decomposed into their users and removed -/
theorem skippedSet_instance (h : WF I ms rank) (rel : SkipRel I ms skip ms') (t : Q) (ht : InHull I t) :
    SkippedSet skip (instanceAt I ms t) (instanceAt I ms' t) := by
  constructor
  · intro n hsk
    rw [instanceAt_get]
    apply glyphAt_none
    unfold dflt
    by_cases hi : I.defaultIdx < ms'.length
    · rw [List.getD_eq_getElem?_getD, List.getElem?_eq_getElem hi]
      exact rel.gone _ (List.getElem_mem hi) n hsk
    · rw [List.getD_eq_getElem?_getD, List.getElem?_eq_none (by omega)]
      rfl
  · intro n hn
    rw [instanceAt_get] at hn ⊢
    exact glyphAt_absent h rel n t ht hn
  · intro n g hsk hg
    rw [instanceAt_get] at hg
    obtain ⟨g', hg', g0, layer, fuel, d, hg0, hlayer, hc, rfl⟩ := glyphAt_skipRel h rel n hsk t ht g hg
    rw [hg] at hg0
    have := Option.some.inj hg0; subst this
    refine ⟨fuel, d, ?_, by rw [instanceAt_get]; exact hg'⟩
    rw [← (addComp_congr layer (instanceAt I ms t) true (some skip)
      (fun b hb => by rw [instanceAt_get]; exact hlayer b hb) fuel).2]
    exact hc

/-- the instance of the filtered family is acyclic (with the ranks of the family) -/
theorem ranked_instance' (h : WF I ms rank) (rel : SkipRel I ms skip ms') (t : Q) (ht : InHull I t) :
    Ranked (instanceAt I ms' t) rank := by
  intro n g' hg' k hk
  rw [instanceAt_get] at hg'
  have hsk : skip.contains n = false := by
    cases hc : skip.contains n with
    | false => rfl
    | true =>
      have := (skippedSet_instance h rel t ht).gone n hc
      rw [instanceAt_get, hg'] at this; cases this
  cases hg : glyphAt I ms n t with
  | none => rw [glyphAt_absent h rel n t ht hg] at hg'; cases hg'
  | some g =>
    obtain ⟨fuel, d, hd, h2⟩ := (skippedSet_instance h rel t ht).dec n g hsk (by rw [instanceAt_get]; exact hg)
    rw [instanceAt_get, hg'] at h2
    have := Option.some.inj h2; subst this
    have hgood := good_instance h t ht
    obtain ⟨k0, hk0, hle⟩ := (pen_rank _ rank hgood.ranked false fuel).2 (some skip) Affine.id g.comps d hd k hk
    have := hgood.ranked n g (by rw [instanceAt_get]; exact hg) k0 hk0
    omega

/-- **the variable-font clause for every pair of families in the relation `SkipRel`** -/
theorem vf_render_rel (h : WF I ms rank) (rel : SkipRel I ms skip ms') (n : String) (hsk : skip.contains n = false)
    (t : Q) (ht : InHull I t) (f1 f2 : Nat) (hf1 : rank n < f1) (hf2 : rank n < f2) :
    (renderAtF f2 I ms' t n).Perm (renderAtF f1 I ms t n) ∧ advanceAt I ms' t n = advanceAt I ms t n := by
  unfold renderAtF advanceAt
  cases hg : glyphAt I ms n t with
  | none => rw [glyphAt_absent h rel n t ht hg]; exact ⟨Perm.refl _, rfl⟩
  | some g =>
    obtain ⟨g', hg', hdec⟩ := glyphAt_skipRel h rel n hsk t ht g hg
    rw [hg']
    dsimp only
    have hgood := good_instance h t ht
    have hset := skippedSet_instance h rel t ht
    have hid : Affine.id.det ≠ 0 := by simp only [Affine.id, Affine.det]; grind
    have p := render_skippedSet skip _ _ rank hgood hset (rank n) n g g' rfl hsk (by rw [instanceAt_get]; exact hg)
      (by rw [instanceAt_get]; exact hg') Affine.id f2 hid hf2
    refine ⟨?_, ?_⟩
    · refine p.trans (Perm.of_eq ?_)
      exact render_fuel _ rank hgood.ranked (rank n) g Affine.id f2 f1
        (hgood.ranked n g (by rw [instanceAt_get]; exact hg)) hf2 hf1
    · obtain ⟨g0, _, _, d, hg0, _, _, rfl⟩ := hdec
      rw [hg] at hg0
      rw [← Option.some.inj hg0]
      rfl

end

end Ufo2ft.C13
