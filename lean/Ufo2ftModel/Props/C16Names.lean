import Ufo2ftModel.Props.C16
/-! C16 — the name-table merge of InfoCompiler (`InfoCompiler.setupTable_name`).

Part 1, for ALL record lists (no well-formedness, duplicates allowed on both sides): the merge `namesMerge` — the three
dict statements of the code — satisfies `holdsNamesMerge` (keys unique; every record of the temporary compile present with
the value of its last occurrence; every other original record kept; nothing else; dict order), read as a finite map it is
"temp wins, else orig", and it coincides with the `namesUpdate` that `infoCompile` applies whenever the original records
have distinct keys.

Part 2: the predicate the harness evaluates on observed fonts (`holdsNamesOverride`) is a theorem of the model: for
well-formed base info and overrides the name table of `infoCompile` shows, key by key, the documented string of the
merged info where the merged info defines the key and the documented string of the base info elsewhere; every key
either info defines is present; no key occurs twice. -/
namespace Ufo2ft.C16

/-! ### finite-map lemmas -/

theorem getName_append (k : NameKey) (a b : NameTable) :
    getName k (a ++ b) = (getName k a).or (getName k b) := by
  unfold getName
  rw [List.find?_append]
  cases a.find? (fun e => decide (e.1 = k)) <;> simp

theorem getName_eq_none_iff (k : NameKey) (t : NameTable) : getName k t = none ↔ k ∉ t.map (·.1) := by
  unfold getName
  simp only [Option.map_eq_none_iff, List.find?_eq_none, decide_eq_true_eq, List.mem_map, not_exists, not_and]

theorem mem_of_getName (k : NameKey) (v : Str) (t : NameTable) (h : getName k t = some v) : (k, v) ∈ t := by
  unfold getName at h
  cases hf : t.find? (fun e => decide (e.1 = k)) with
  | none => rw [hf] at h; simp at h
  | some e =>
    rw [hf] at h
    have hk : e.1 = k := by simpa using List.find?_some hf
    have hv : e.2 = v := by simpa using h
    have := List.mem_of_find?_eq_some hf
    rw [← hk, ← hv]; exact this

theorem getName_reverse_of_nodup (k : NameKey) (t : NameTable) (h : (t.map (·.1)).Nodup) :
    getName k t.reverse = getName k t := by
  cases hg : getName k t with
  | none =>
    rw [getName_eq_none_iff] at hg ⊢
    simpa using hg
  | some v =>
    have hm := mem_of_getName k v t hg
    apply getName_of_mem_nodup
    · rw [List.map_reverse]; exact List.pairwise_reverse.mpr (List.Pairwise.imp (fun hne => Ne.symm hne) h)
    · exact List.mem_reverse.mpr hm

theorem lastName_isSome_of_mem (e : NameKey × Str) (t : NameTable) (h : e ∈ t) : (lastName e.1 t).isSome = true := by
  unfold lastName
  cases hg : getName e.1 t.reverse with
  | some v => rfl
  | none =>
    rw [getName_eq_none_iff] at hg
    exact absurd (List.mem_map_of_mem (f := (·.1)) (List.mem_reverse.mpr h)) hg

theorem lastName_eq_none_iff (k : NameKey) (t : NameTable) : lastName k t = none ↔ k ∉ t.map (·.1) := by
  unfold lastName
  rw [getName_eq_none_iff]; simp

theorem lastName_append (k : NameKey) (a b : NameTable) :
    lastName k (a ++ b) = (lastName k b).or (lastName k a) := by
  unfold lastName
  rw [List.reverse_append, getName_append]

/-! ### first occurrences -/

theorem mem_firstKeys (x : NameKey) : ∀ l : List NameKey, x ∈ firstKeys l ↔ x ∈ l
  | [] => by simp [firstKeys]
  | k :: ks => by
    simp only [firstKeys, List.mem_cons, List.mem_filter, mem_firstKeys x ks, decide_eq_true_eq]
    by_cases h : x = k <;> simp [h]

theorem nodup_firstKeys : ∀ l : List NameKey, (firstKeys l).Nodup
  | [] => by simp [firstKeys]
  | k :: ks => by
    simp only [firstKeys, List.nodup_cons, List.mem_filter, decide_eq_true_eq]
    refine ⟨fun h => h.2 rfl, ?_⟩
    exact List.Nodup.sublist List.filter_sublist (nodup_firstKeys ks)

theorem firstKeys_filter (p : NameKey → Bool) : ∀ l : List NameKey, (firstKeys l).filter p = firstKeys (l.filter p)
  | [] => rfl
  | k :: ks => by
    by_cases hp : p k = true
    · simp only [firstKeys, List.filter_cons, hp, if_true]
      rw [← firstKeys_filter p ks, List.filter_filter, List.filter_filter]
      congr 1
      apply List.filter_congr
      intro x _; exact Bool.and_comm _ _
    · simp only [firstKeys, List.filter_cons, hp, Bool.false_eq_true, if_false]
      rw [← firstKeys_filter p ks, List.filter_filter]
      apply List.filter_congr
      intro x _
      by_cases hx : x = k
      · subst hx; simp [hp]
      · simp [hx]

theorem firstKeys_of_nodup : ∀ l : List NameKey, l.Nodup → firstKeys l = l
  | [], _ => rfl
  | k :: ks, h => by
    simp only [List.nodup_cons] at h
    simp only [firstKeys, firstKeys_of_nodup ks h.2]
    congr 1
    rw [List.filter_eq_self]
    intro x hx
    simp only [decide_eq_true_eq]
    intro e; subst e; exact h.1 hx

theorem firstKeys_append : ∀ a b : List NameKey,
    firstKeys (a ++ b) = firstKeys a ++ firstKeys (b.filter (fun x => decide (x ∉ a)))
  | [], b => by
    have : b.filter (fun x => decide (x ∉ ([] : List NameKey))) = b := List.filter_eq_self.mpr (by intros; simp)
    rw [this]; simp [firstKeys]
  | k :: a, b => by
    simp only [List.cons_append, firstKeys, firstKeys_append a b, List.filter_append]
    congr 2
    rw [firstKeys_filter, List.filter_filter]
    congr 1
    apply List.filter_congr
    intro x _
    simp only [List.mem_cons, not_or]
    by_cases hx : x = k <;> simp [hx]

/-! ### `namesUpdate` (= `dict.update` fed record by record), for arbitrary lists -/

/-- as a finite map: the last record of `t` under the key wins, else what `o` had -/
theorem getName_namesUpdate (k : NameKey) : ∀ (t o : NameTable),
    getName k (namesUpdate o t) = (lastName k t).or (getName k o)
  | [], o => by simp [namesUpdate, lastName, getName]
  | (k', v) :: t, o => by
    have ih := getName_namesUpdate k t (setName k' v o)
    simp only [namesUpdate]
    rw [ih]
    have hl : lastName k ((k', v) :: t) = (lastName k t).or (if k' = k then some v else none) := by
      have : (k', v) :: t = [(k', v)] ++ t := rfl
      rw [this, lastName_append]
      congr 1
      by_cases h : k' = k <;> simp [lastName, getName, h]
    rw [hl]
    by_cases h : k' = k
    · subst h
      rw [getName_setName_same]
      cases lastName k' t <;> simp
    · rw [getName_setName_other k' k v o (fun e => h e.symm)]
      cases lastName k t <;> simp [h]

/-- order: the keys of `o` stay where they are, the new keys follow in the order of their first occurrence in `t` -/
theorem keys_namesUpdate : ∀ (t o : NameTable),
    (namesUpdate o t).map (·.1) = o.map (·.1) ++ firstKeys ((t.map (·.1)).filter (fun x => decide (x ∉ o.map (·.1))))
  | [], o => by simp [namesUpdate, firstKeys]
  | (k, v) :: t, o => by
    simp only [namesUpdate]
    rw [keys_namesUpdate t (setName k v o), keys_setName]
    by_cases hk : k ∈ o.map (·.1)
    · simp only [hk, if_true, List.map_cons, List.filter_cons, not_true_eq_false, decide_false]
      simp
    · simp only [hk, if_false, List.map_cons, List.filter_cons, not_false_eq_true, decide_true, if_true, firstKeys,
        List.append_assoc, List.singleton_append]
      congr 2
      rw [firstKeys_filter, List.filter_filter]
      congr 1
      apply List.filter_congr
      intro x _
      simp only [List.mem_append, List.mem_singleton, not_or]
      by_cases hx : x = k <;> simp [hx]

theorem nodup_namesUpdate : ∀ (t o : NameTable), (o.map (·.1)).Nodup → ((namesUpdate o t).map (·.1)).Nodup
  | [], _, h => h
  | (k, v) :: t, o, h => nodup_namesUpdate t (setName k v o) (nodup_setName k v o h)

theorem mem_keys_namesUpdate (k : NameKey) (t o : NameTable) :
    k ∈ (namesUpdate o t).map (·.1) ↔ k ∈ o.map (·.1) ∨ k ∈ t.map (·.1) := by
  rw [keys_namesUpdate, List.mem_append, mem_firstKeys, List.mem_filter]
  simp only [decide_eq_true_eq]
  by_cases h : k ∈ o.map (·.1) <;> simp [h]

/-! ### the dict comprehension -/

theorem keys_namesDict (t : NameTable) : (namesDict t).map (·.1) = firstKeys (t.map (·.1)) := by
  unfold namesDict
  rw [keys_namesUpdate]
  have : (t.map (·.1)).filter (fun x => decide (x ∉ ([] : NameTable).map (·.1))) = t.map (·.1) :=
    List.filter_eq_self.mpr (by intros; simp)
  rw [this]; simp

theorem nodup_namesDict (t : NameTable) : ((namesDict t).map (·.1)).Nodup := by
  rw [keys_namesDict]; exact nodup_firstKeys _

theorem getName_namesDict (k : NameKey) (t : NameTable) : getName k (namesDict t) = lastName k t := by
  unfold namesDict
  rw [getName_namesUpdate]
  cases lastName k t <;> simp [getName]

theorem lastName_namesDict (k : NameKey) (t : NameTable) : lastName k (namesDict t) = lastName k t := by
  rw [← getName_namesDict k t]
  exact getName_reverse_of_nodup k _ (nodup_namesDict t)

/-- two record lists with distinct keys, the same key sequence and the same string under every key are equal -/
theorem names_ext : ∀ (a b : NameTable), a.map (·.1) = b.map (·.1) → (a.map (·.1)).Nodup →
    (∀ k, getName k a = getName k b) → a = b
  | [], [], _, _, _ => rfl
  | [], _ :: _, h, _, _ => by simp at h
  | _ :: _, [], h, _, _ => by simp at h
  | (k, v) :: a, (k', v') :: b, hk, hnd, hg => by
    simp only [List.map_cons, List.cons.injEq] at hk
    obtain ⟨hk1, hk2⟩ := hk
    subst hk1
    simp only [List.map_cons, List.nodup_cons] at hnd
    have hv : v = v' := by
      have := hg k
      simpa [getName] using this
    subst hv
    congr 1
    apply names_ext a b hk2 hnd.2
    intro k₂
    by_cases h : k = k₂
    · subst h
      have h1 : getName k a = none := (getName_eq_none_iff k a).mpr hnd.1
      have h2 : getName k b = none := (getName_eq_none_iff k b).mpr (hk2 ▸ hnd.1)
      rw [h1, h2]
    · have := hg k₂
      simpa [getName, List.find?_cons, h] using this

/-- a record list with distinct keys is its own dict -/
theorem namesDict_of_nodup (t : NameTable) (h : (t.map (·.1)).Nodup) : namesDict t = t := by
  apply names_ext
  · rw [keys_namesDict, firstKeys_of_nodup _ h]
  · exact nodup_namesDict t
  · intro k
    rw [getName_namesDict]
    exact getName_reverse_of_nodup k t h

/-! ### the merge, for all record lists -/

/-- **C16_names_merge_lookup**: read as a finite map, the merged table holds under every key the string of the last
    temporary record with that key, and where the temporary compile has none the string of the last original record. -/
theorem C16_names_merge_lookup (orig temp : NameTable) (k : NameKey) :
    getName k (namesMerge orig temp) = (lastName k temp).or (lastName k orig) := by
  unfold namesMerge
  rw [getName_namesUpdate, lastName_namesDict, getName_namesDict]

/-- **C16_names_merge_order**: the keys of the merged table are the distinct keys of the original records followed by
    the temporary ones, each at its first occurrence: an overridden record keeps its place, new records are appended
    in the order in which the temporary compile made them. -/
theorem C16_names_merge_order (orig temp : NameTable) :
    (namesMerge orig temp).map (·.1) = firstKeys (orig.map (·.1) ++ temp.map (·.1)) := by
  unfold namesMerge
  rw [keys_namesUpdate, keys_namesDict, keys_namesDict, firstKeys_append, firstKeys_filter,
    firstKeys_of_nodup _ (nodup_firstKeys _)]
  congr 2
  apply List.filter_congr
  intro x _
  simp only [mem_firstKeys]

/-- **C16_names_merge**: for ALL record lists `orig`, `temp` (duplicate keys allowed on either side, no hypothesis) the
    merge of `InfoCompiler.setupTable_name` satisfies the declarative predicate: keys unique, every temporary record
    present with the value of its last occurrence, every other original record kept, nothing else, dict order. -/
theorem C16_names_merge (orig temp : NameTable) : holdsNamesMerge orig temp (namesMerge orig temp) = true := by
  have hord := C16_names_merge_order orig temp
  have hnd : ((namesMerge orig temp).map (·.1)).Nodup := by rw [hord]; exact nodup_firstKeys _
  have hget := C16_names_merge_lookup orig temp
  unfold holdsNamesMerge
  simp only [Bool.and_eq_true, decide_eq_true_eq, List.all_eq_true, Bool.or_eq_true, List.contains_eq_mem, beq_iff_eq]
  refine ⟨⟨⟨⟨hnd, ?_⟩, ?_⟩, ?_⟩, hord⟩
  · intro e he
    have hs := lastName_isSome_of_mem e temp he
    cases hl : lastName e.1 temp with
    | none => rw [hl] at hs; simp at hs
    | some v =>
      simp only [decide_eq_true_eq]
      apply mem_of_getName
      rw [hget, hl]; rfl
  · intro e he
    by_cases hk : e.1 ∈ temp.map (·.1)
    · exact Or.inl hk
    · right
      have hs := lastName_isSome_of_mem e orig he
      cases hl : lastName e.1 orig with
      | none => rw [hl] at hs; simp at hs
      | some v =>
        simp only [decide_eq_true_eq]
        apply mem_of_getName
        rw [hget, (lastName_eq_none_iff e.1 temp).mpr hk, hl]; rfl
  · intro e he
    have : e.1 ∈ (namesMerge orig temp).map (·.1) := List.mem_map_of_mem (f := (·.1)) he
    rw [hord, mem_firstKeys, List.mem_append] at this
    exact this

/-- non-vacuity: a duplicate key in the original list, a duplicate key in the temporary list, an overridden, a kept
    and a new record — the merged list is the one Python's dicts produce -/
example : namesMerge [(⟨1, 3, 1, 1033⟩, ['a']), (⟨2, 3, 1, 1033⟩, ['b']), (⟨1, 3, 1, 1033⟩, ['c'])]
                     [(⟨4, 3, 1, 1033⟩, ['x']), (⟨1, 3, 1, 1033⟩, ['y']), (⟨4, 3, 1, 1033⟩, ['z'])]
    = [(⟨1, 3, 1, 1033⟩, ['y']), (⟨2, 3, 1, 1033⟩, ['b']), (⟨4, 3, 1, 1033⟩, ['z'])] := by decide

/-- the predicate is not trivially true: dropping the kept record, keeping the old string, or swapping the order fails -/
example : holdsNamesMerge [(⟨1, 3, 1, 1033⟩, ['a']), (⟨2, 3, 1, 1033⟩, ['b'])] [(⟨1, 3, 1, 1033⟩, ['y'])]
            [(⟨1, 3, 1, 1033⟩, ['y'])] = false ∧
          holdsNamesMerge [(⟨1, 3, 1, 1033⟩, ['a']), (⟨2, 3, 1, 1033⟩, ['b'])] [(⟨1, 3, 1, 1033⟩, ['y'])]
            [(⟨1, 3, 1, 1033⟩, ['a']), (⟨2, 3, 1, 1033⟩, ['b'])] = false ∧
          holdsNamesMerge [(⟨1, 3, 1, 1033⟩, ['a']), (⟨2, 3, 1, 1033⟩, ['b'])] [(⟨1, 3, 1, 1033⟩, ['y'])]
            [(⟨2, 3, 1, 1033⟩, ['b']), (⟨1, 3, 1, 1033⟩, ['y'])] = false := by decide

/-- **C16_names_merge_update**: when the original records have distinct keys (every compiled font: `C16_names_nodup`)
    the three dict statements give exactly the list `infoCompile` computes with `namesUpdate` — for every temporary list,
    duplicates included. -/
theorem C16_names_merge_update (orig temp : NameTable) (h : (orig.map (·.1)).Nodup) :
    namesMerge orig temp = namesUpdate orig temp := by
  apply names_ext
  · rw [C16_names_merge_order, keys_namesUpdate, firstKeys_append, firstKeys_of_nodup _ h]
  · rw [C16_names_merge_order]; exact nodup_firstKeys _
  · intro k
    rw [C16_names_merge_lookup, getName_namesUpdate]
    unfold lastName
    rw [getName_reverse_of_nodup k orig h]

example : (([(⟨1, 3, 1, 1033⟩, ['a']), (⟨2, 3, 1, 1033⟩, ['b'])] : NameTable).map (·.1)).Nodup := by decide

/-- the hypothesis of `C16_names_merge_update` cannot be dropped: with a duplicate key in `orig` the direct update
    keeps both records, the dict does not (no compiled font has such a table) -/
example : namesMerge [(⟨1, 3, 1, 1033⟩, ['a']), (⟨1, 3, 1, 1033⟩, ['c'])] [] ≠
          namesUpdate [(⟨1, 3, 1, 1033⟩, ['a']), (⟨1, 3, 1, 1033⟩, ['c'])] [] := by decide

/-- **C16_names_update**: the list `infoCompile` computes satisfies the merge predicate whenever the original records
    have distinct keys -/
theorem C16_names_update (orig temp : NameTable) (h : (orig.map (·.1)).Nodup) :
    holdsNamesMerge orig temp (namesUpdate orig temp) = true := by
  rw [← C16_names_merge_update orig temp h]; exact C16_names_merge orig temp

/-! ### the predicate the harness evaluates on observed fonts -/

theorem namesPresent_of_holdsNames (E : Attr → Val) (env : Env) (t : NameTable) (h : holdsNames E env t = true) :
    namesPresent E env (t.map (·.1)) = true := by
  unfold holdsNames at h
  unfold namesPresent
  simp only [Bool.and_eq_true] at h ⊢
  exact ⟨h.1.2, h.2⟩

theorem namesPresent_mono (E : Attr → Val) (env : Env) (ks ks' : List NameKey) (hsub : ∀ k ∈ ks, k ∈ ks')
    (h : namesPresent E env ks = true) : namesPresent E env ks' = true := by
  unfold namesPresent at h ⊢
  simp only [Bool.and_eq_true, List.all_eq_true, List.contains_eq_mem, decide_eq_true_eq] at h ⊢
  refine ⟨?_, fun r hr => hsub _ (h.2 r hr)⟩
  intro id hid
  have := h.1 id hid
  revert this
  cases builtinName E env id with
  | none => intro _; trivial
  | some s => simp only [decide_eq_true_eq]; exact hsub _

/-- **C16_names_override**: for effective values `Em` (merged info) and `Eb` (base info) whose name attributes are
    strings or None, the merge of the two compiled name tables satisfies the predicate the harness evaluates on
    observed fonts: no key twice; a key the merged info defines shows the merged string; any other key shows the
    base string; every key either info defines is present. -/
theorem C16_names_override (Em Eb : Attr → Val) (envM envB : Env)
    (hSm : ∀ a ∈ nameStrAttrs, strLike (Em a) = true)
    (h1m : ∃ s, Em .styleMapFamilyName = .str s) (h2m : ∃ s, Em .openTypeNamePreferredFamilyName = .str s)
    (h3m : ∃ s, Em .openTypeNamePreferredSubfamilyName = .str s)
    (hSb : ∀ a ∈ nameStrAttrs, strLike (Eb a) = true)
    (h1b : ∃ s, Eb .styleMapFamilyName = .str s) (h2b : ∃ s, Eb .openTypeNamePreferredFamilyName = .str s)
    (h3b : ∃ s, Eb .openTypeNamePreferredSubfamilyName = .str s) :
    holdsNamesOverride Em Eb envM envB (namesUpdate (nameTable Eb envB) (nameTable Em envM)) = true := by
  have Gm := getName_nameTable Em envM hSm h1m h2m h3m
  have Gb := getName_nameTable Eb envB hSb h1b h2b h3b
  have hndB := C16_names_nodup Eb envB
  have hndM := C16_names_nodup Em envM
  have hnd := nodup_namesUpdate (nameTable Em envM) (nameTable Eb envB) hndB
  have hget : ∀ k, getName k (namesUpdate (nameTable Eb envB) (nameTable Em envM)) =
      (expectedName Em envM k).or (expectedName Eb envB k) := by
    intro k
    rw [getName_namesUpdate, ← Gm, ← Gb]
    unfold lastName
    rw [getName_reverse_of_nodup k _ hndM]
  have hpm := namesPresent_of_holdsNames Em envM _ (C16_names Em envM hSm h1m h2m h3m)
  have hpb := namesPresent_of_holdsNames Eb envB _ (C16_names Eb envB hSb h1b h2b h3b)
  unfold holdsNamesOverride
  simp only [Bool.and_eq_true, decide_eq_true_eq, List.all_eq_true]
  refine ⟨⟨⟨hnd, ?_⟩, ?_⟩, ?_⟩
  · intro e he
    have h1 := getName_of_mem_nodup _ e.1 e.2 hnd he
    rw [hget] at h1
    cases hm : expectedName Em envM e.1 with
    | some s =>
      rw [hm] at h1
      simp only [Option.some_or, Option.some.injEq] at h1
      simp [h1]
    | none =>
      rw [hm] at h1
      simp only [Option.none_or] at h1
      simp [h1]
  · exact namesPresent_mono Em envM _ _ (fun k hk => (mem_keys_namesUpdate k _ _).mpr (Or.inr hk)) hpm
  · exact namesPresent_mono Eb envB _ _ (fun k hk => (mem_keys_namesUpdate k _ _).mpr (Or.inl hk)) hpb

/-- **C16_infocompiler_names**: whenever InfoCompiler applies well-formed overrides to a font compiled from a
    well-formed info, the name table of the result satisfies exactly the predicate the driver evaluates on the
    observed font (`holdsNamesOverride` for the effective values of the merged and of the base info). -/
theorem C16_infocompiler_names (base over : Info) (env envBase : Env) (ctx : Ctx) (bv bg : Bool) (r : Out)
    (hb : wfInfo base = true) (ho : wfInfo over = true)
    (h : infoCompile base over env envBase ctx bv bg = .ok r) :
    holdsNamesOverride (getV (mergeInfo base over) env) (getV base envBase) env envBase r.names = true := by
  have hwm := wf_merge base over hb ho
  obtain ⟨o, m, h1, h2, hn, _⟩ := infoCompile_fields base over env envBase ctx bv bg r h
  rw [hn, (compile_ok base envBase ctx o h1).2, (compile_ok _ env _ m h2).2]
  exact C16_names_override _ _ env envBase
    (strLike_getV _ env hwm) (isStr_getV_smfn _ env hwm) (isStr_getV_pfam _ env hwm) (isStr_getV_psub _ env hwm)
    (strLike_getV base envBase hb) (isStr_getV_smfn base envBase hb) (isStr_getV_pfam base envBase hb)
    (isStr_getV_psub base envBase hb)

/-- … and the same table, read as record lists, satisfies the merge predicate for the two compiled tables: the
    records of the temporary compile replace / add to those of the font, the others stay, in dict order. -/
theorem C16_infocompiler_names_merge (base over : Info) (env envBase : Env) (ctx : Ctx) (bv bg : Bool) (r : Out)
    (h : infoCompile base over env envBase ctx bv bg = .ok r) :
    ∃ o m, compile base envBase ctx = .ok o ∧ compile (mergeInfo base over) env (tempCtx ctx) = .ok m ∧
      r.names = namesMerge o.names m.names ∧ holdsNamesMerge o.names m.names r.names = true := by
  obtain ⟨o, m, h1, h2, hn, _⟩ := infoCompile_fields base over env envBase ctx bv bg r h
  have hnd : (o.names.map (·.1)).Nodup := by
    rw [(compile_ok base envBase ctx o h1).2]; exact C16_names_nodup _ _
  refine ⟨o, m, h1, h2, ?_, ?_⟩
  · rw [hn, C16_names_merge_update _ _ hnd]
  · rw [hn]; exact C16_names_update _ _ hnd

/-- non-vacuity of the InfoCompiler theorems: a well-formed base info with a name record, a well-formed override
    set that changes the family name and adds a record — InfoCompiler returns a font -/
def nmBase : Info := fun a =>
  if a = .familyName then .str ['F'] else if a = .styleName then .str ['R']
  else if a = .openTypeNameRecords then .recs [⟨1, 1, 0, 0, ['M', 'a', 'c']⟩] else .none
def nmOver : Info := fun a =>
  if a = .familyName then .str ['G']
  else if a = .openTypeNameRecords then .recs [⟨1, 1, 0, 0, ['N']⟩, ⟨25, 3, 1, 1033, ['V']⟩] else .none

example : wfInfo nmBase = true ∧ wfInfo nmOver = true := by decide
-- … so InfoCompiler returns a font (TrueType flavour: no CFF side condition) and both theorems apply to it
example : ∃ r, infoCompile nmBase nmOver exampleEnv exampleEnv ⟨false, false, true, false⟩ false false = .ok r :=
  C16_infocompiler_total nmBase nmOver exampleEnv exampleEnv ⟨false, false, true, false⟩ false false
    (by decide) (by decide) (by intro h; simp at h)

end Ufo2ft.C16
