import Ufo2ftModel.Spec.C09Sign
import Ufo2ftModel.Props.C09
namespace Ufo2ft.C09
open Ufo2ft

theorem det_lerpAffine (s : Q) (a b : Affine) :
    (lerpAffine s a b).det = (1 - s) * (1 - s) * a.det + s * s * b.det + s * (1 - s) * mixDet a b := by
  simp only [lerpAffine, lerp, Affine.det, mixDet]; grind

theorem sq_nonneg' (x : Q) : 0 ≤ x * x := by
  by_cases h : 0 ≤ x
  · exact Rat.mul_nonneg h h
  · have h' : 0 ≤ -x := by grind
    have := Rat.mul_nonneg h' h'
    have e : x * x = (-x) * (-x) := by grind
    rw [e]; exact this

theorem sq_pos' (x : Q) (h : x ≠ 0) : 0 < x * x := by
  by_cases h0 : 0 < x
  · exact Rat.mul_pos h0 h0
  · have h' : 0 < -x := by grind
    have := Rat.mul_pos h' h'
    have e : x * x = (-x) * (-x) := by grind
    rw [e]; exact this

/-- the quadratic in abstract form -/
def quad (A B M s : Q) : Q := (1 - s) * (1 - s) * A + s * s * B + s * (1 - s) * M

theorem quad_neg (A B M s : Q) : quad (-A) (-B) (-M) s = - quad A B M s := by
  unfold quad; grind

theorem quad_pos (A B M s : Q) (hA : 0 < A) (hB : 0 < B) (hM : 0 ≤ M ∨ M * M < 4 * A * B)
    (h0 : 0 ≤ s) (h1 : s ≤ 1) : 0 < quad A B M s := by
  unfold quad
  by_cases hs : s = 0
  · subst hs; grind
  have hss : 0 < s * s := sq_pos' s hs
  rcases hM with hM | hM
  · have h1s : 0 ≤ 1 - s := by grind
    have t1 : 0 ≤ (1 - s) * (1 - s) * A := Rat.mul_nonneg (sq_nonneg' _) (by grind)
    have t2 : 0 < s * s * B := Rat.mul_pos hss hB
    have t3 : 0 ≤ s * (1 - s) * M := Rat.mul_nonneg (Rat.mul_nonneg h0 h1s) hM
    grind
  · have hd : 0 < 4 * A * B - M * M := by grind
    have t1 : 0 < (4 * A * B - M * M) * (s * s) := Rat.mul_pos hd hss
    have t2 := sq_nonneg' (2 * A * (1 - s) + M * s)
    have e : 4 * A * ((1 - s) * (1 - s) * A + s * s * B + s * (1 - s) * M)
        = (2 * A * (1 - s) + M * s) * (2 * A * (1 - s) + M * s) + (4 * A * B - M * M) * (s * s) := by grind
    have t3 : 0 < 4 * A * ((1 - s) * (1 - s) * A + s * s * B + s * (1 - s) * M) := by rw [e]; grind
    apply Decidable.byContradiction
    intro hq
    have hq' : 0 ≤ -((1 - s) * (1 - s) * A + s * s * B + s * (1 - s) * M) := by grind
    have h4 : 0 ≤ 4 * A := by grind
    have := Rat.mul_nonneg h4 hq'
    grind

theorem signStable2_cases (a b : Affine) (h : signStable2 a b = true) :
    (0 < a.det ∧ 0 < b.det ∧ (0 ≤ mixDet a b ∨ mixDet a b * mixDet a b < 4 * a.det * b.det)) ∨
    (a.det < 0 ∧ b.det < 0 ∧ (mixDet a b ≤ 0 ∨ mixDet a b * mixDet a b < 4 * a.det * b.det)) := by
  simpa [signStable2, and_assoc] using h

theorem sgn_pos {q : Q} (h : 0 < q) : sgn q = 1 := by
  have h1 : ¬ q < 0 := by grind
  have h2 : ¬ q = 0 := by grind
  simp [sgn, h1, h2]

theorem sgn_neg {q : Q} (h : q < 0) : sgn q = -1 := by
  simp [sgn, h]

/-- SOUNDNESS: on the whole segment the determinant keeps its (non-zero) sign -/
theorem signStable2_sound (a b : Affine) (h : signStable2 a b = true) (s : Q) (h0 : 0 ≤ s) (h1 : s ≤ 1) :
    sgn (lerpAffine s a b).det = sgn a.det ∧ sgn a.det ≠ 0 := by
  rw [det_lerpAffine]
  rcases signStable2_cases a b h with ⟨hA, hB, hM⟩ | ⟨hA, hB, hM⟩
  · have := quad_pos _ _ _ s hA hB hM h0 h1
    unfold quad at this
    rw [sgn_pos this, sgn_pos hA]; decide
  · have hM' : 0 ≤ -mixDet a b ∨ (-mixDet a b) * (-mixDet a b) < 4 * (-a.det) * (-b.det) := by
      rcases hM with hM | hM
      · left; grind
      · right; grind
    have := quad_pos (-a.det) (-b.det) (-mixDet a b) s (by grind) (by grind) hM' h0 h1
    rw [quad_neg] at this
    unfold quad at this
    have hq : (1 - s) * (1 - s) * a.det + s * s * b.det + s * (1 - s) * mixDet a b < 0 := by grind
    rw [sgn_neg hq, sgn_neg hA]; decide

theorem signStable2_ends (a b : Affine) (h : signStable2 a b = true) : sgn a.det = sgn b.det ∧ sgn a.det ≠ 0 := by
  rcases signStable2_cases a b h with ⟨hA, hB, _⟩ | ⟨hA, hB, _⟩
  · rw [sgn_pos hA, sgn_pos hB]; decide
  · rw [sgn_neg hA, sgn_neg hB]; decide

theorem mixDet_symm (a b : Affine) : mixDet b a = mixDet a b := by
  unfold mixDet; grind

theorem signStable2_symm (a b : Affine) : signStable2 b a = signStable2 a b := by
  have e : 4 * b.det * a.det = 4 * a.det * b.det := by grind
  unfold signStable2
  rw [mixDet_symm b a, e]
  cases decide (0 < a.det) <;> cases decide (0 < b.det) <;> cases decide (a.det < 0) <;> cases decide (b.det < 0) <;> rfl

theorem signStable2_witness :
    sgn (Affine.id).det = 1 ∧ sgn (⟨-1, 0, 0, -1, 0, 0⟩ : Affine).det = 1 ∧
    signStable2 Affine.id ⟨-1, 0, 0, -1, 0, 0⟩ = false ∧
    sgn (lerpAffine (1/2) Affine.id ⟨-1, 0, 0, -1, 0, 0⟩).det = 0 := by
  decide +kernel

theorem signStable2_witness_flip : ∃ (a b : Affine) (s : Q), 0 < s ∧ s < 1 ∧ sgn a.det = 1 ∧ sgn b.det = 1 ∧ sgn (lerpAffine s a b).det = -1 :=
  ⟨⟨1, 0, 0, 2, 0, 0⟩, ⟨-4, 0, 0, -1, 0, 0⟩, 1/2, by decide +kernel⟩

theorem quad_nonpos_witness (A B M : Q) (_hA : 0 < A) (hB : 0 < B) (hM : M < 0) (hD : 4 * A * B ≤ M * M) :
    ∃ s : Q, 0 < s ∧ s < 1 ∧ quad A B M s ≤ 0 := by
  have hDp : 0 < 2 * B - M := by grind
  have hDne : 2 * B - M ≠ 0 := by grind
  refine ⟨-M / (2 * B - M), ?_, ?_, ?_⟩
  · rw [Rat.lt_div_iff hDp]; grind
  · rw [Rat.div_lt_iff hDp]; grind
  · have hs : (-M / (2 * B - M)) * (2 * B - M) = -M := by
      rw [Rat.div_def, Rat.mul_assoc, Rat.inv_mul_cancel _ hDne, Rat.mul_one]
    generalize -M / (2 * B - M) = s at hs
    have e : (2 * B - M) * (2 * B - M) * quad A B M s = B * (4 * A * B - M * M) := by
      have e1 : (2 * B - M) * (2 * B - M) * quad A B M s
          = ((2 * B - M) - s * (2 * B - M)) * ((2 * B - M) - s * (2 * B - M)) * A
            + (s * (2 * B - M)) * (s * (2 * B - M)) * B
            + (s * (2 * B - M)) * ((2 * B - M) - s * (2 * B - M)) * M := by unfold quad; grind
      rw [e1, hs]; grind
    have hDD : 0 < (2 * B - M) * (2 * B - M) := Rat.mul_pos hDp hDp
    apply Decidable.byContradiction
    intro hq
    have hq' : 0 < quad A B M s := by grind
    have t1 := Rat.mul_pos hDD hq'
    have t2 : 0 ≤ B * (M * M - 4 * A * B) := Rat.mul_nonneg (by grind) (by grind)
    grind

theorem signStable2_false_pos (a b : Affine) (hA : 0 < a.det) (hB : 0 < b.det) (h : signStable2 a b = false) :
    mixDet a b < 0 ∧ 4 * a.det * b.det ≤ mixDet a b * mixDet a b := by
  have hA' : ¬ a.det < 0 := by grind
  simp [signStable2, hA, hB, hA'] at h
  grind

theorem signStable2_false_neg (a b : Affine) (hA : a.det < 0) (hB : b.det < 0) (h : signStable2 a b = false) :
    0 < mixDet a b ∧ 4 * a.det * b.det ≤ mixDet a b * mixDet a b := by
  have hA' : ¬ 0 < a.det := by grind
  simp [signStable2, hA, hB, hA'] at h
  grind

/-- COMPLETENESS: equal non-zero end signs but `signStable2 = false` ⇒ some rational s in (0,1) has a different sign -/
theorem signStable2_complete (a b : Affine) (hs : sgn a.det = sgn b.det) (hn : sgn a.det ≠ 0) (h : signStable2 a b = false) :
    ∃ s : Q, 0 < s ∧ s < 1 ∧ sgn (lerpAffine s a b).det ≠ sgn a.det := by
  have hA0 : a.det ≠ 0 := fun e => hn ((sgn_zero_iff _).mpr e)
  by_cases hA : 0 < a.det
  · have hB : 0 < b.det := by
      apply Decidable.byContradiction; intro hB
      rw [sgn_pos hA] at hs
      by_cases hB0 : b.det = 0
      · rw [(sgn_zero_iff _).mpr hB0] at hs; omega
      · have : b.det < 0 := by grind
        rw [sgn_neg this] at hs; omega
    obtain ⟨hM, hD⟩ := signStable2_false_pos a b hA hB h
    obtain ⟨s, h0, h1, hq⟩ := quad_nonpos_witness _ _ _ hA hB hM hD
    refine ⟨s, h0, h1, ?_⟩
    rw [det_lerpAffine, sgn_pos hA]
    unfold quad at hq
    intro hc
    by_cases hz : (1 - s) * (1 - s) * a.det + s * s * b.det + s * (1 - s) * mixDet a b = 0
    · rw [(sgn_zero_iff _).mpr hz] at hc; omega
    · have : (1 - s) * (1 - s) * a.det + s * s * b.det + s * (1 - s) * mixDet a b < 0 := by grind
      rw [sgn_neg this] at hc; omega
  · have hA : a.det < 0 := by grind
    have hB : b.det < 0 := by
      apply Decidable.byContradiction; intro hB
      rw [sgn_neg hA] at hs
      by_cases hB0 : b.det = 0
      · rw [(sgn_zero_iff _).mpr hB0] at hs; omega
      · have : 0 < b.det := by grind
        rw [sgn_pos this] at hs; omega
    obtain ⟨hM, hD⟩ := signStable2_false_neg a b hA hB h
    obtain ⟨s, h0, h1, hq⟩ := quad_nonpos_witness (-a.det) (-b.det) (-mixDet a b) (by grind) (by grind) (by grind) (by grind)
    refine ⟨s, h0, h1, ?_⟩
    rw [det_lerpAffine, sgn_neg hA]
    rw [quad_neg] at hq
    unfold quad at hq
    intro hc
    by_cases hz : (1 - s) * (1 - s) * a.det + s * s * b.det + s * (1 - s) * mixDet a b = 0
    · rw [(sgn_zero_iff _).mpr hz] at hc; omega
    · have : 0 < (1 - s) * (1 - s) * a.det + s * s * b.det + s * (1 - s) * mixDet a b := by grind
      rw [sgn_pos this] at hc; omega

end Ufo2ft.C09
