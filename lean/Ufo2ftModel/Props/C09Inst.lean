import Ufo2ftModel.Spec.C09Hyp
import Ufo2ftModel.Props.C09Rel
import Ufo2ftModel.Props.C09Sign
import Ufo2ftModel.Props.C09Two
set_option linter.unusedSectionVars false
/-!
C09, pipeline level, part 5: the Instantiator path.  Interpolating two glyphs that look alike (point types, component
names, determinant signs) gives a glyph that looks like them PROVIDED every pair of component matrices is sign-stable
(`signStable2`: the determinant keeps its non-zero sign on the whole segment).  With that, an interpolatable filter run
that works on the PRISTINE source layers (the first run that modifies anything) keeps a family alike: every master —
sparse or not — sees, for every base glyph, its own glyph or an interpolation of the sources', and these all look alike.
-/
namespace Ufo2ft.C09
open Ufo2ft List

/-! ### interpolation of glyphs that look alike -/

theorem zipWithM?_map {α β γ δ : Type} (f : α → β → Option γ) (φ : γ → δ) (ψ : α → δ)
    (hf : ∀ a b c, f a b = some c → φ c = ψ a) :
    ∀ (as : List α) (bs : List β) (cs : List γ), zipWithM? f as bs = some cs → cs.map φ = as.map ψ := by
  intro as
  induction as with
  | nil => intro bs cs h; simp only [zipWithM?, Option.some.injEq] at h; rw [← h]; rfl
  | cons a as ih =>
    intro bs cs h
    cases bs with
    | nil => simp [zipWithM?] at h
    | cons b bs =>
      simp only [zipWithM?] at h
      cases h1 : f a b with
      | none => rw [h1] at h; simp at h
      | some c =>
        cases h2 : zipWithM? f as bs with
        | none => rw [h1, h2] at h; simp at h
        | some cs' =>
          rw [h1, h2] at h
          simp only [Option.some.injEq] at h
          rw [← h]
          simp only [List.map_cons, hf a b c h1, ih bs cs' h2]

theorem lerpGlyph_contours (s : Q) (a b g : Glyph) (h : lerpGlyph s a b = some g) :
    g.contours.map contourShape = a.contours.map contourShape := by
  unfold lerpGlyph at h
  split at h
  · rename_i cs an hcs _
    simp only [Option.some.injEq] at h
    rw [← h]
    dsimp only
    apply zipWithM?_map (zipWithM? (lerpPt s)) contourShape contourShape _ _ _ _ hcs
    intro ca cb cc hcc
    exact zipWithM?_map (lerpPt s) (fun (p : Pt) => p.seg) (fun (p : Pt) => p.seg)
      (by intro p q r hr; simp only [lerpPt, Option.some.injEq] at hr; rw [← hr]) ca cb cc hcc
  · cases h

theorem pairComps_zip : ∀ (as bs : List Comp), as.map (·.base) = bs.map (·.base) → pairComps as bs = as.zip bs := by
  intro as
  induction as with
  | nil => intro bs _; simp [pairComps]
  | cons c cs ih =>
    intro bs h
    cases bs with
    | nil => simp at h
    | cons d ds =>
      simp only [List.map_cons, List.cons.injEq] at h
      unfold pairComps
      have hr : removeFirst (fun x => x.base == c.base) (d :: ds) = some (d, ds) := by
        simp only [removeFirst]
        rw [if_pos (by simp [h.1])]
      rw [hr]
      dsimp only
      rw [ih ds h.2, List.zip_cons_cons]

/-- **interpolating alike glyphs**: if `a` and `b` look alike and each pair of component matrices is sign-stable, then
    `a·(1-s) + b·s` for `0 < s < 1` looks like `a` -/
theorem lerpGlyph_alike (s : Q) (a b g : Glyph) (h0 : 0 < s) (h1 : s < 1) (hab : abG absS a = abG absS b)
    (hst : signStableG a b = true) (h : lerpGlyph s a b = some g) : abG absS g = abG absS a := by
  have hab' := hab
  simp only [abG, Prod.mk.injEq] at hab'
  have hbase : a.comps.map (·.base) = b.comps.map (·.base) := by
    have := congrArg (List.map (·.1)) hab'.2
    simpa [abK, List.map_map, Function.comp_def] using this
  simp only [abG, Prod.mk.injEq]
  refine ⟨lerpGlyph_contours s a b g h, ?_⟩
  rw [lerpGlyph_comps s a b g h, pairComps_zip _ _ hbase]
  simp only [signStableG, List.all_eq_true] at hst
  -- component by component
  have : ∀ (as bs : List Comp), (∀ p ∈ as.zip bs, signStable2 p.1.t p.2.t = true) → as.map (·.base) = bs.map (·.base) →
      ((as.zip bs).map (fun p => lerpComp s p.1 p.2)).map (abK absS) = as.map (abK absS) := by
    intro as
    induction as with
    | nil => intro bs _ _; simp
    | cons c cs ih =>
      intro bs hp hb
      cases bs with
      | nil => simp at hb
      | cons d ds =>
        simp only [List.map_cons, List.cons.injEq] at hb
        simp only [List.zip_cons_cons, List.map_cons, List.cons.injEq]
        refine ⟨?_, ih ds (fun p hp' => hp p (by rw [List.zip_cons_cons]; exact List.mem_cons_of_mem _ hp')) hb.2⟩
        have hs2 := hp (c, d) (by rw [List.zip_cons_cons]; exact List.mem_cons_self)
        have := (signStable2_sound c.t d.t hs2 s (by grind) (by grind)).1
        simp only [abK, absS, lerpComp, this]
  exact this a.comps b.comps hst hbase

/-! ### what the Instantiator hands out when its source layers are the pristine sources `P` -/

section pristine
variable (I : Inst) (P : Masters)

/-- the state still interpolates between the pristine sources: cached Variators are what `collect_glyph_masters` gives -/
def PGood (s : St) : Prop := s.pristine = some P ∧ ∀ e ∈ s.cache, collectMasters I P e.1 = some e.2

/-- `g` looks like one of the sources' glyphs called `n` -/
def ViewG (n : String) (g : Glyph) : Prop := ∃ m ∈ P, ∃ g0, m.get? n = some g0 ∧ abG absS g = abG absS g0

def ViewOK (layer : GlyphSet) : Prop := ∀ e ∈ layer, ViewG P e.1 e.2

/-- the hypotheses on the sources -/
structure SrcOK : Prop where
  keys : ∀ m ∈ P, m.names.Nodup
  alike : AlikeB (abG absS) P
  stable : ∀ m1 ∈ P, ∀ m2 ∈ P, ∀ n g1 g2, m1.get? n = some g1 → m2.get? n = some g2 → signStableG g1 g2 = true

theorem PGood_layers (s : St) (h : PGood I P s) : s.layers = P := by
  unfold St.layers; rw [h.1]

theorem collectMasters_src (n : String) (pts : List (Q × Glyph)) (hc : collectMasters I P n = some pts) :
    ∀ x ∈ pts, ∃ m ∈ P, m.get? n = some x.2 := by
  unfold collectMasters at hc
  cases hd : (P.getD I.defaultIdx []).get? n with
  | none => rw [hd] at hc; cases hc
  | some d =>
    rw [hd] at hc; dsimp only at hc
    have hall : ∀ x ∈ (P.zip I.locs).filterMap (fun (m, l) => (m.get? n).map (fun g => (l, g))), ∃ m ∈ P, m.get? n = some x.2 := by
      intro x hx
      obtain ⟨⟨m, l⟩, hml, hx⟩ := List.mem_filterMap.mp hx
      dsimp only at hx
      cases hg : m.get? n with
      | none => rw [hg] at hx; cases hx
      | some g =>
        rw [hg] at hx; simp only [Option.map_some, Option.some.injEq] at hx
        rw [← hx]
        exact ⟨m, (List.of_mem_zip hml).1, hg⟩
    split at hc
    · simp only [Option.some.injEq] at hc
      intro x hx; rw [← hc] at hx
      exact hall x (List.mem_filter.mp hx).1
    · simp only [Option.some.injEq] at hc
      intro x hx; rw [← hc] at hx; exact hall x hx

variable (hP : SrcOK P)
include hP

theorem interpAt_view (n : String) (pts : List (Q × Glyph)) (hpts : ∀ x ∈ pts, ∃ m ∈ P, m.get? n = some x.2)
    (t : Q) (g : Glyph) (h : interpAt pts t = some g) : ViewG P n g := by
  rcases interpAt_cases pts t g h with ⟨e, he, rfl⟩ | ⟨a, ha, b, hb, s, h0, h1, hl⟩
  · obtain ⟨m, hm, hg⟩ := hpts e he
    exact ⟨m, hm, e.2, hg, rfl⟩
  · obtain ⟨ma, hma, hga⟩ := hpts a ha
    obtain ⟨mb, hmb, hgb⟩ := hpts b hb
    exact ⟨ma, hma, a.2, hga, lerpGlyph_alike s a.2 b.2 g h0 h1 (hP.alike ma hma mb hmb n a.2 b.2 hga hgb)
      (hP.stable ma hma mb hmb n a.2 b.2 hga hgb) hl⟩

theorem interpGlyph_view (s : St) (hs : PGood I P s) (n : String) (t : Q) (g : Glyph)
    (h : interpGlyph I s n t = some g) : ViewG P n g := by
  unfold interpGlyph at h
  cases hm : mastersFor I s n with
  | none => rw [hm] at h; cases h
  | some pts =>
    rw [hm] at h
    apply interpAt_view P hP n pts _ t g h
    unfold mastersFor at hm
    cases hc : alookup n s.cache with
    | some p =>
      rw [hc] at hm; simp only [Option.some.injEq] at hm
      rw [← hm]
      exact collectMasters_src I P n p (hs.2 (n, p) (alookup_mem n s.cache p hc))
    | none =>
      rw [hc, PGood_layers I P s hs] at hm
      exact collectMasters_src I P n pts hm

/-- every glyph a master's `InterpolatedLayer` hands out looks like the sources' glyphs of that name -/
theorem layerSet_view (s : St) (hs : PGood I P s) (i : Nat) : ViewOK P (layerSet (some I) s i) := by
  intro e he
  simp only [layerSet, List.mem_append, List.mem_filterMap] at he
  rw [PGood_layers I P s hs] at he
  rcases he with ⟨e0, he0, hx⟩ | ⟨n, _, hx⟩
  · split at hx
    · simp only [Option.some.injEq] at hx; rw [← hx]
      have hm := mem_getD_mem P i e0 he0
      exact ⟨_, hm, e0.2, get?_of_mem_nodup _ e0.1 e0.2 (hP.keys _ hm) he0, rfl⟩
    · cases hg : interpGlyph I s e0.1 (I.locs.getD i 0) with
      | none => rw [hg] at hx; cases hx
      | some g =>
        rw [hg] at hx; simp only [Option.map_some, Option.some.injEq] at hx
        rw [← hx]; exact interpGlyph_view I P hP s hs e0.1 _ g hg
  · split at hx
    · cases hx
    · cases hg : interpGlyph I s n (I.locs.getD i 0) with
      | none => rw [hg] at hx; cases hx
      | some g =>
        rw [hg] at hx; simp only [Option.map_some, Option.some.injEq] at hx
        rw [← hx]; exact interpGlyph_view I P hP s hs n _ g hg

/-- two such layers agree -/
theorem views_agree (l1 l2 : GlyphSet) (h1 : ViewOK P l1) (h2 : ViewOK P l2) : AgreeB (abG absS) l1 l2 := by
  intro n g1 g2 e1 e2
  obtain ⟨m1, hm1, x1, hx1, a1⟩ := h1 _ (get?_mem l1 n g1 e1)
  obtain ⟨m2, hm2, x2, hx2, a2⟩ := h2 _ (get?_mem l2 n g2 e2)
  rw [a1, a2]
  exact hP.alike m1 hm1 m2 hm2 n x1 x2 hx1 hx2

omit hP in
theorem touch_good (names : List String) (s : St) (hs : PGood I P s) : PGood I P (touch (some I) names s) := by
  simp only [touch]
  induction names generalizing s with
  | nil => exact hs
  | cons n ns ih =>
    simp only [List.foldl_cons]
    apply ih
    split
    · exact hs
    · cases hc : collectMasters I s.layers n with
      | none => exact hs
      | some p =>
        refine ⟨hs.1, ?_⟩
        intro e he
        rcases List.mem_append.mp he with he | he
        · exact hs.2 e he
        · simp only [List.mem_singleton] at he
          subst he
          rw [PGood_layers I P s hs] at hc
          exact hc

omit hP in
theorem setms_good (s : St) (ms' : Masters) (hs : PGood I P s) : PGood I P { s with ms := ms' } := hs

/-! ### the per-master loop with an Instantiator -/

/-- what the loop does to ONE glyph set, given the layer its bases are resolved in -/
def updOneL (n : String) (f : GlyphSet → Glyph → Except GErr (Option Glyph × Bool)) (layer m : GlyphSet) :
    Except GErr GlyphSet :=
  match m.get? n with
  | none => .ok m
  | some g =>
    match f layer g with
    | .error e => .error e
    | .ok (none, _) => .ok m
    | .ok (some g', _) => .ok (m.set n g')

theorem perMaster_some_spec (n : String) (visit : GlyphSet → Glyph → List String)
    (f : GlyphSet → Glyph → Except GErr (Option Glyph × Bool)) :
    ∀ (idxs : List Nat) (s s' : St) (fl fl' : Bool), PGood I P s →
      perMaster (some I) n visit f idxs s fl = .ok (s', fl') → idxs.Nodup →
      PGood I P s' ∧ s'.ms.length = s.ms.length ∧
      (∀ j, j ∈ idxs → ∃ layer, ViewOK P layer ∧ updOneL n f layer (s.ms.getD j []) = .ok (s'.ms.getD j [])) ∧
      (∀ j, j ∉ idxs → s'.ms.getD j [] = s.ms.getD j []) := by
  intro idxs
  induction idxs with
  | nil =>
    intro s s' fl fl' hs h _
    simp only [perMaster, Except.ok.injEq, Prod.mk.injEq] at h
    rw [← h.1]
    exact ⟨hs, rfl, fun j hj => absurd hj (by simp), fun _ _ => rfl⟩
  | cons i rest ih =>
    intro s s' fl fl' hs h hnd
    have hi : i ∉ rest := (List.nodup_cons.mp hnd).1
    have hrest : rest.Nodup := (List.nodup_cons.mp hnd).2
    unfold perMaster at h
    cases hg : (s.ms.getD i []).get? n with
    | none =>
      rw [hg] at h; dsimp only at h
      obtain ⟨hgood, hl, hin, hout⟩ := ih s s' fl fl' hs h hrest
      refine ⟨hgood, hl, ?_, ?_⟩
      · intro j hj
        rcases List.mem_cons.mp hj with rfl | hj
        · exact ⟨[], (fun e he => by cases he), by rw [hout j hi]; simp only [updOneL, hg]⟩
        · exact hin j hj
      · intro j hj
        exact hout j (fun h' => hj (List.mem_cons_of_mem _ h'))
    | some g =>
      rw [hg] at h; dsimp only at h
      have hlt : i < s.ms.length := by
        by_cases hc : i < s.ms.length
        · exact hc
        · have := getD_nil_of_le s.ms i (by omega)
          rw [this] at hg; cases hg
      have hview := layerSet_view I P hP s hs i
      cases hf : f (layerSet (some I) s i) g with
      | error e => rw [hf] at h; cases h
      | ok res =>
        obtain ⟨og, flx⟩ := res
        rw [hf] at h; dsimp only at h
        have hs1 := touch_good I P (requested (some I) s i (visit (layerSet (some I) s i) g)) s hs
        have hms1 : (touch (some I) (requested (some I) s i (visit (layerSet (some I) s i) g)) s).ms = s.ms := touch_ms _ _ _
        cases og with
        | none =>
          dsimp only at h
          obtain ⟨hgood, hl, hin, hout⟩ := ih _ s' _ fl' hs1 h hrest
          rw [hms1] at hl hin hout
          refine ⟨hgood, hl, ?_, ?_⟩
          · intro j hj
            rcases List.mem_cons.mp hj with rfl | hj
            · exact ⟨_, hview, by rw [hout j hi]; simp only [updOneL, hg, hf]⟩
            · exact hin j hj
          · intro j hj
            exact hout j (fun h' => hj (List.mem_cons_of_mem _ h'))
        | some g' =>
          dsimp only at h
          obtain ⟨hgood, hl, hin, hout⟩ := ih _ s' _ fl' (setms_good I P _ _ hs1) h hrest
          dsimp only at hl hin hout
          rw [hms1] at hl hin hout
          refine ⟨hgood, by rw [hl]; simp [setAt], ?_, ?_⟩
          · intro j hj
            rcases List.mem_cons.mp hj with rfl | hj
            · refine ⟨_, hview, ?_⟩
              rw [hout j hi, getD_setAt_self _ _ _ hlt]; simp only [updOneL, hg, hf]
            · have hne : i ≠ j := fun e => hi (e ▸ hj)
              obtain ⟨layer, hlv, hu⟩ := hin j hj
              rw [getD_setAt_ne _ _ _ _ hne] at hu
              exact ⟨layer, hlv, hu⟩
          · intro j hj
            have hne : i ≠ j := fun e => hj (e ▸ List.mem_cons_self)
            rw [hout j (fun h' => hj (List.mem_cons_of_mem _ h')), getD_setAt_ne _ _ _ _ hne]

/-- glyphs called `x` look alike in all glyph sets -/
def AlikeAt (ms : Masters) (x : String) : Prop :=
  ∀ m1 ∈ ms, ∀ m2 ∈ ms, ∀ g1 g2, m1.get? x = some g1 → m2.get? x = some g2 → abG absS g1 = abG absS g2

omit hP in
theorem updOneL_other (n : String) (f : GlyphSet → Glyph → Except GErr (Option Glyph × Bool)) (layer m m' : GlyphSet)
    (h : updOneL n f layer m = .ok m') (x : String) (hx : x ≠ n) : m'.get? x = m.get? x := by
  unfold updOneL at h
  cases hg : m.get? n with
  | none => rw [hg] at h; simp only [Except.ok.injEq] at h; rw [← h]
  | some g =>
    rw [hg] at h; dsimp only at h
    cases hf : f layer g with
    | error e => rw [hf] at h; cases h
    | ok r =>
      obtain ⟨og, fl⟩ := r
      rw [hf] at h
      cases og with
      | none => simp only [Except.ok.injEq] at h; rw [← h]
      | some g' =>
        simp only [Except.ok.injEq] at h
        rw [← h, get?_set m n x g g' hg, if_neg hx]

omit hP in
/-- two glyph sets updated in layers that agree: the results' glyphs `n` look alike if the inputs' did -/
theorem updOneL_alike (n : String) (f : GlyphSet → Glyph → Except GErr (Option Glyph × Bool)) (hf : OpRelB (abG absS) f)
    (l1 l2 m1 m2 m1' m2' : GlyphSet) (hl : AgreeB (abG absS) l1 l2)
    (hin : ∀ g1 g2, m1.get? n = some g1 → m2.get? n = some g2 → abG absS g1 = abG absS g2)
    (e1 : updOneL n f l1 m1 = .ok m1') (e2 : updOneL n f l2 m2 = .ok m2') :
    ∀ g1 g2, m1'.get? n = some g1 → m2'.get? n = some g2 → abG absS g1 = abG absS g2 := by
  intro g1' g2' hx1 hx2
  unfold updOneL at e1 e2
  cases hg1 : m1.get? n with
  | none =>
    rw [hg1] at e1; simp only [Except.ok.injEq] at e1; subst e1
    rw [hg1] at hx1; cases hx1
  | some g1 =>
    rw [hg1] at e1; dsimp only at e1
    cases hg2 : m2.get? n with
    | none =>
      rw [hg2] at e2; simp only [Except.ok.injEq] at e2; subst e2
      rw [hg2] at hx2; cases hx2
    | some g2 =>
      rw [hg2] at e2; dsimp only at e2
      cases hf1 : f l1 g1 with
      | error e => rw [hf1] at e1; cases e1
      | ok r1 =>
        cases hf2 : f l2 g2 with
        | error e => rw [hf2] at e2; cases e2
        | ok r2 =>
          obtain ⟨og1, fl1⟩ := r1
          obtain ⟨og2, fl2⟩ := r2
          rw [hf1] at e1; rw [hf2] at e2
          have hrel := hf l1 l2 g1 g2 _ _ hl (hin g1 g2 hg1 hg2) hf1 hf2
          dsimp only at hrel
          cases og1 with
          | none =>
            cases og2 with
            | some _ => simp at hrel
            | none =>
              simp only [Except.ok.injEq] at e1 e2; subst e1; subst e2
              rw [hg1] at hx1; rw [hg2] at hx2
              simp only [Option.some.injEq] at hx1 hx2
              rw [← hx1, ← hx2]; exact hin g1 g2 hg1 hg2
          | some g1n =>
            cases og2 with
            | none => simp at hrel
            | some g2n =>
              simp only [Except.ok.injEq] at e1 e2; subst e1; subst e2
              simp only [Option.map_some, Option.some.injEq] at hrel
              rw [get?_set m1 n n g1 g1n hg1, if_pos rfl] at hx1
              rw [get?_set m2 n n g2 g2n hg2, if_pos rfl] at hx2
              simp only [Option.some.injEq] at hx1 hx2
              rw [← hx1, ← hx2]; exact hrel

/-- **the per-master loop with an Instantiator on pristine layers**: afterwards the glyphs `n` look alike (if they did),
    every other key is untouched -/
theorem perMaster_some_alike (n : String) (visit : GlyphSet → Glyph → List String)
    (f : GlyphSet → Glyph → Except GErr (Option Glyph × Bool)) (hf : OpRelB (abG absS) f)
    (s s' : St) (fl fl' : Bool) (hs : PGood I P s) (hn : AlikeAt s.ms n)
    (h : perMaster (some I) n visit f (List.range s.ms.length) s fl = .ok (s', fl')) :
    PGood I P s' ∧ s'.ms.length = s.ms.length ∧ AlikeAt s'.ms n ∧
    ∀ j x, x ≠ n → (s'.ms.getD j []).get? x = (s.ms.getD j []).get? x := by
  obtain ⟨hgood, hl, hin, hout⟩ := perMaster_some_spec I P hP n visit f _ s s' fl fl' hs h List.nodup_range
  refine ⟨hgood, hl, ?_, ?_⟩
  · intro m1 hm1 m2 hm2 g1 g2 h1 h2
    obtain ⟨j1, hj1, hjm1⟩ := mem_getD_of_mem s'.ms m1 hm1
    obtain ⟨j2, hj2, hjm2⟩ := mem_getD_of_mem s'.ms m2 hm2
    have hj1' : j1 < s.ms.length := by omega
    have hj2' : j2 < s.ms.length := by omega
    obtain ⟨l1, hv1, hu1⟩ := hin j1 (List.mem_range.mpr hj1')
    obtain ⟨l2, hv2, hu2⟩ := hin j2 (List.mem_range.mpr hj2')
    rw [hjm1] at hu1; rw [hjm2] at hu2
    have hm1s : s.ms.getD j1 [] ∈ s.ms := by rw [getD_eq_getElem_of_lt _ j1 hj1']; exact List.getElem_mem hj1'
    have hm2s : s.ms.getD j2 [] ∈ s.ms := by rw [getD_eq_getElem_of_lt _ j2 hj2']; exact List.getElem_mem hj2'
    exact updOneL_alike n f hf l1 l2 _ _ m1 m2 (views_agree P hP l1 l2 hv1 hv2)
      (fun a b ha hb => hn _ hm1s _ hm2s a b ha hb) hu1 hu2 g1 g2 h1 h2
  · intro j x hx
    by_cases hj : j < s.ms.length
    · obtain ⟨l, _, hu⟩ := hin j (List.mem_range.mpr hj)
      exact updOneL_other n f l _ _ hu x hx
    · rw [hout j (by simpa using hj)]


/-! ### `ensureCompositeDefinedAtComponentLocations` on pristine layers -/

theorem ensureLoop_good (n : String) (toAdd : List Q) :
    ∀ (idx : List (Nat × Q)) (s s' : St), PGood I P s → ensureLoop I n toAdd idx s = .ok s' → (idx.map (·.1)).Nodup →
      PGood I P s' ∧ s'.ms.length = s.ms.length ∧
      ∀ j, (s'.ms.getD j [] = s.ms.getD j []) ∨
        (∃ g, (s.ms.getD j []).get? n = none ∧ s'.ms.getD j [] = s.ms.getD j [] ++ [(n, g)] ∧ ViewG P n g) := by
  intro idx
  induction idx with
  | nil =>
    intro s s' hs h _
    simp only [ensureLoop, Except.ok.injEq] at h
    rw [← h]
    exact ⟨hs, rfl, fun _ => Or.inl rfl⟩
  | cons e rest ih =>
    obtain ⟨i, l⟩ := e
    intro s s' hs h hnd
    simp only [List.map_cons, List.nodup_cons] at hnd
    unfold ensureLoop at h
    by_cases hc : toAdd.contains l = true
    · rw [if_pos hc] at h
      cases hg : (s.ms.getD i []).get? n with
      | some g => rw [hg] at h; cases h
      | none =>
        rw [hg] at h; dsimp only at h
        have hs1 := touch_good I P [n] s hs
        have hms : (touch (some I) [n] s).ms = s.ms := touch_ms _ _ _
        cases hi : interpGlyph I (touch (some I) [n] s) n l with
        | none => rw [hi] at h; cases h
        | some g =>
          rw [hi] at h; dsimp only at h
          have hview := interpGlyph_view I P hP _ hs1 n l g hi
          obtain ⟨hgood, hl, hall⟩ := ih _ s' (setms_good I P _ _ hs1) h hnd.2
          dsimp only at hl hall
          rw [hms] at hl hall
          refine ⟨hgood, by rw [hl]; simp [setAt], ?_⟩
          intro j
          by_cases hij : i = j
          · subst hij
            rcases hall i with h1 | ⟨g', _, _, _⟩
            · by_cases hlt : i < s.ms.length
              · right
                exact ⟨g, hg, by rw [h1, getD_setAt_self _ _ _ hlt], hview⟩
              · left
                rw [h1, getD_nil_of_le s.ms i (by omega)]
                exact getD_nil_of_le _ i (by simp only [setAt, List.length_set]; omega)
            · -- the index occurs once
              rcases hall i with h1 | ⟨g', hnone, _, _⟩
              · by_cases hlt : i < s.ms.length
                · right; exact ⟨g, hg, by rw [h1, getD_setAt_self _ _ _ hlt], hview⟩
                · left
                  rw [h1, getD_nil_of_le s.ms i (by omega)]
                  exact getD_nil_of_le _ i (by simp only [setAt, List.length_set]; omega)
              · exfalso
                by_cases hlt : i < s.ms.length
                · rw [getD_setAt_self _ _ _ hlt] at hnone
                  simp only [GlyphSet.get?] at hnone hg
                  rw [alookup_append, hg] at hnone
                  simp [alookup] at hnone
                · -- out of range: nothing can have been appended
                  rename_i happ _
                  have : (setAt s.ms i (s.ms.getD i [] ++ [(n, g)])).getD i [] = [] :=
                    getD_nil_of_le _ i (by simp only [setAt, List.length_set]; omega)
                  rw [this] at happ
                  have hlen := congrArg List.length happ
                  rw [getD_nil_of_le s'.ms i (by rw [hl]; simp only [setAt, List.length_set]; omega)] at hlen
                  simp at hlen
          · rcases hall j with h1 | ⟨g', hnone, heq, hv⟩
            · left; rw [h1, getD_setAt_ne _ _ _ _ hij]
            · right
              rw [getD_setAt_ne _ _ _ _ hij] at hnone heq
              exact ⟨g', hnone, heq, hv⟩
    · rw [if_neg hc] at h
      exact ih s s' hs h hnd.2

theorem ensureComposite_good (s s' : St) (incl : Option (List String)) (n : String) (hs : PGood I P s)
    (h : ensureComposite (some I) s incl n = .ok s') :
    PGood I P s' ∧ s'.ms.length = s.ms.length ∧
    ∀ j, (s'.ms.getD j [] = s.ms.getD j []) ∨
      (∃ g, (s.ms.getD j []).get? n = none ∧ s'.ms.getD j [] = s.ms.getD j [] ++ [(n, g)] ∧ ViewG P n g) := by
  unfold ensureComposite at h
  dsimp only at h
  split at h
  · simp only [Except.ok.injEq] at h; rw [← h]
    exact ⟨hs, rfl, fun _ => Or.inl rfl⟩
  · exact ensureLoop_good I P hP n _ _ s s' hs h (List.Nodup.sublist (zip_fst_sublist _ _) List.nodup_range)

/-! ### one run on pristine layers -/

/-- the loop invariant: the Instantiator still holds the pristine sources; same-named glyphs look alike; what has not
    been reported modified is still the source's own glyph -/
structure RInv (s : St) (md : List String) : Prop where
  good : PGood I P s
  len : s.ms.length = P.length
  alike : ∀ x, AlikeAt s.ms x
  same : ∀ x, x ∉ md → ∀ j, (s.ms.getD j []).get? x = (P.getD j []).get? x

omit hP in
theorem mem_addMod_self (l : List String) (n : String) : n ∈ addMod l n := by
  unfold addMod
  split
  · rename_i h; simpa using h
  · exact List.mem_append_right _ List.mem_cons_self

omit hP in
theorem alikeAt_transfer (ms ms' : Masters) (x : String) (hl : ms'.length = ms.length)
    (hk : ∀ j, (ms'.getD j []).get? x = (ms.getD j []).get? x) (h : AlikeAt ms x) : AlikeAt ms' x := by
  intro m1 hm1 m2 hm2 g1 g2 h1 h2
  obtain ⟨j1, hj1, hjm1⟩ := mem_getD_of_mem ms' m1 hm1
  obtain ⟨j2, hj2, hjm2⟩ := mem_getD_of_mem ms' m2 hm2
  have e1 := hk j1; rw [hjm1, h1] at e1
  have e2 := hk j2; rw [hjm2, h2] at e2
  have hj1' : j1 < ms.length := by omega
  have hj2' : j2 < ms.length := by omega
  exact h (ms.getD j1 []) (by rw [getD_eq_getElem_of_lt _ j1 hj1']; exact List.getElem_mem hj1')
    (ms.getD j2 []) (by rw [getD_eq_getElem_of_lt _ j2 hj2']; exact List.getElem_mem hj2') g1 g2 e1.symm e2.symm

theorem decomposeIStep_pristine (s : St) (n : String) (s' : St) (r : Bool) (md : List String) (hn : n ∉ md)
    (hI : RInv I P s md) (h : decomposeIStep (some I) s n = .ok (s', r)) :
    RInv I P s' (if r = true then addMod md n else md) := by
  unfold decomposeIStep at h
  split at h
  · simp only [Except.ok.injEq, Prod.mk.injEq] at h
    rw [← h.1, ← h.2]; exact hI
  · cases he : ensureComposite (some I) s none n with
    | error e => rw [he] at h; cases h
    | ok s1 =>
      rw [he] at h; dsimp only at h
      obtain ⟨hg1, hl1, hall1⟩ := ensureComposite_good I P hP s s1 none n hI.good he
      -- every glyph called `n` now looks like the sources'
      have hviewn : ∀ j g, (s1.ms.getD j []).get? n = some g → ViewG P n g := by
        intro j g hg
        rcases hall1 j with h1 | ⟨g', hnone, happ, hv⟩
        · rw [h1, hI.same n hn j] at hg
          by_cases hj : j < P.length
          · exact ⟨P.getD j [], by rw [getD_eq_getElem_of_lt _ j hj]; exact List.getElem_mem hj, g, hg, rfl⟩
          · rw [getD_nil_of_le P j (by omega)] at hg; cases hg
        · rw [happ] at hg
          simp only [GlyphSet.get?] at hg hnone
          rw [alookup_append, hnone] at hg
          simp only [alookup, beq_self_eq_true, if_true, Option.some.injEq] at hg
          rw [← hg]; exact hv
      have hother1 : ∀ x, x ≠ n → ∀ j, (s1.ms.getD j []).get? x = (s.ms.getD j []).get? x := by
        intro x hx j
        rcases hall1 j with h1 | ⟨g', _, happ, _⟩
        · rw [h1]
        · rw [happ]
          simp only [GlyphSet.get?]
          rw [alookup_append]
          cases hq : alookup x (s.ms.getD j []) with
          | some v => rfl
          | none =>
            simp only [alookup]
            rw [if_neg (by simpa using fun e : n = x => hx e.symm)]
      have halike1 : AlikeAt s1.ms n := by
        intro m1 hm1 m2 hm2 g1 g2 h1 h2
        obtain ⟨j1, _, hjm1⟩ := mem_getD_of_mem s1.ms m1 hm1
        obtain ⟨j2, _, hjm2⟩ := mem_getD_of_mem s1.ms m2 hm2
        obtain ⟨a1, ha1, x1, hx1, e1⟩ := hviewn j1 g1 (by rw [hjm1]; exact h1)
        obtain ⟨a2, ha2, x2, hx2, e2⟩ := hviewn j2 g2 (by rw [hjm2]; exact h2)
        rw [e1, e2]; exact hP.alike a1 ha1 a2 ha2 n x1 x2 hx1 hx2
      cases hp : perMaster (some I) n (decomposeVisit true none) (decomposeOp true none) (List.range s1.ms.length) s1 true with
      | error e => rw [hp] at h; cases h
      | ok res =>
        obtain ⟨s2, fl⟩ := res
        rw [hp] at h
        simp only [Except.ok.injEq, Prod.mk.injEq] at h
        rw [← h.1, ← h.2]
        obtain ⟨hg2, hl2, halike2, hother2⟩ := perMaster_some_alike I P hP n _ _ (decomposeOp_rel absS true none) s1 s2 true fl hg1 halike1 hp
        simp only [if_true]
        refine ⟨hg2, by rw [hl2, hl1]; exact hI.len, ?_, ?_⟩
        · intro x
          by_cases hx : x = n
          · rw [hx]; exact halike2
          · apply alikeAt_transfer s.ms s2.ms x (by rw [hl2, hl1]) _ (hI.alike x)
            intro j
            rw [hother2 j x hx, hother1 x hx j]
        · intro x hx j
          have hxn : x ≠ n := fun e => hx (e ▸ mem_addMod_self md n)
          have hxmd : x ∉ md := fun e => hx (mem_addMod_of_mem md n x e)
          rw [hother2 j x hxn, hother1 x hxn j]; exact hI.same x hxmd j

theorem iLoop_pristine (incl : Glyph → Bool) : ∀ (order : List String) (s s' : St) (md md' : List String),
    RInv I P s md → iLoop incl (decomposeIStep (some I)) order (s, md) = .ok (s', md') → RInv I P s' md' := by
  intro order
  induction order with
  | nil =>
    intro s s' md md' hI h
    simp only [iLoop, Except.ok.injEq, Prod.mk.injEq] at h
    rw [← h.1, ← h.2]; exact hI
  | cons n ns ih =>
    intro s s' md md' hI h
    unfold iLoop at h
    by_cases h1 : md.contains n = true
    · rw [if_pos h1] at h; exact ih s s' md md' hI h
    · rw [if_neg h1] at h
      split at h
      · cases hst : decomposeIStep (some I) s n with
        | error e => rw [hst] at h; cases h
        | ok rr =>
          obtain ⟨s1, r1⟩ := rr
          rw [hst] at h
          exact ih s1 s' _ md' (decomposeIStep_pristine I P hP s n s1 r1 md (by simpa using h1) hI hst) h
      · exact ih s s' md md' hI h

/-- **a decomposing run on the pristine sources** (any include predicate, any iteration order): the family comes out alike -/
theorem runI_pristine (incl : Glyph → Bool) (ords : List (List String)) (s' : St) (md : List String)
    (h : runI incl (decomposeIStep (some I)) ⟨P, some P, [], ords⟩ = .ok (s', md)) :
    AlikeB (abG absS) s'.ms := by
  unfold runI at h
  dsimp only at h
  split at h
  · cases h
  · have h0 : RInv I P ⟨P, some P, [], ords.drop 1⟩ [] :=
      ⟨⟨rfl, fun e he => by cases he⟩, rfl, fun x => fun m1 hm1 m2 hm2 g1 g2 h1 h2 => hP.alike m1 hm1 m2 hm2 x g1 g2 h1 h2,
        fun _ _ _ => rfl⟩
    have := iLoop_pristine I P hP incl _ _ s' [] md h0 h
    intro m1 hm1 m2 hm2 n g1 g2 h1 h2
    exact this.alike n m1 hm1 m2 hm2 g1 g2 h1 h2

end pristine

end Ufo2ft.C09
