import Ufo2ftModel.Spec.C09Hyp
import Ufo2ftModel.Props.C09Rel
import Ufo2ftModel.Props.C09Sign
import Ufo2ftModel.Props.C09Two
set_option linter.unusedSectionVars false
/-!
C09, pipeline level, part 5: the Instantiator path.  Interpolating two glyphs that look alike (point types, component
names, determinant signs) gives a glyph that looks like them PROVIDED every pair of component matrices is sign-stable
(`signStable2`: the determinant keeps its non-zero sign on the whole segment).  With that, the FIRST interpolatable
decomposing run keeps a family alike provided its iteration order is topological (no glyph is visited after one of its
bases): every master — sparse or not — then sees, for every base glyph it looks up, its own still-original glyph or an
interpolation of the sources' glyphs (from a cached or a fresh Variator), and these all look alike.
-/
namespace Ufo2ft.C09
open Ufo2ft List

/-! ### interpolation of glyphs that look alike -/

theorem zipWithM?_map {α β γ δ : Type} (f : α → β → Option γ) (φ : γ → δ) (ψ : α → δ)
    (hf : ∀ a b c, f a b = some c → φ c = ψ a) :
    ∀ (as : List α) (bs : List β) (cs : List γ), zipWithM? f as bs = some cs → cs.map φ = as.map ψ := by
  intro as
  induction as with
  | nil => intro bs cs h; simp only [zipWithM?, Option.some.injEq] at h; rw [← h]; rfl
  | cons a as ih =>
    intro bs cs h
    cases bs with
    | nil => simp [zipWithM?] at h
    | cons b bs =>
      simp only [zipWithM?] at h
      cases h1 : f a b with
      | none => rw [h1] at h; simp at h
      | some c =>
        cases h2 : zipWithM? f as bs with
        | none => rw [h1, h2] at h; simp at h
        | some cs' =>
          rw [h1, h2] at h
          simp only [Option.some.injEq] at h
          rw [← h]
          simp only [List.map_cons, hf a b c h1, ih bs cs' h2]

theorem lerpGlyph_contours (s : Q) (a b g : Glyph) (h : lerpGlyph s a b = some g) :
    g.contours.map contourShape = a.contours.map contourShape := by
  unfold lerpGlyph at h
  split at h
  · rename_i cs an hcs _
    simp only [Option.some.injEq] at h
    rw [← h]
    dsimp only
    apply zipWithM?_map (zipWithM? (lerpPt s)) contourShape contourShape _ _ _ _ hcs
    intro ca cb cc hcc
    exact zipWithM?_map (lerpPt s) (fun (p : Pt) => p.seg) (fun (p : Pt) => p.seg)
      (by intro p q r hr; simp only [lerpPt, Option.some.injEq] at hr; rw [← hr]) ca cb cc hcc
  · cases h

theorem pairComps_zip : ∀ (as bs : List Comp), as.map (·.base) = bs.map (·.base) → pairComps as bs = as.zip bs := by
  intro as
  induction as with
  | nil => intro bs _; simp [pairComps]
  | cons c cs ih =>
    intro bs h
    cases bs with
    | nil => simp at h
    | cons d ds =>
      simp only [List.map_cons, List.cons.injEq] at h
      unfold pairComps
      have hr : removeFirst (fun x => x.base == c.base) (d :: ds) = some (d, ds) := by
        simp only [removeFirst]
        rw [if_pos (by simp [h.1])]
      rw [hr]
      dsimp only
      rw [ih ds h.2, List.zip_cons_cons]

/-- **interpolating alike glyphs**: if `a` and `b` look alike and each pair of component matrices is sign-stable, then
    `a·(1-s) + b·s` for `0 < s < 1` looks like `a` -/
theorem lerpGlyph_alike (s : Q) (a b g : Glyph) (h0 : 0 < s) (h1 : s < 1) (hab : abG absS a = abG absS b)
    (hst : signStableG a b = true) (h : lerpGlyph s a b = some g) : abG absS g = abG absS a := by
  have hab' := hab
  simp only [abG, Prod.mk.injEq] at hab'
  have hbase : a.comps.map (·.base) = b.comps.map (·.base) := by
    have := congrArg (List.map (·.1)) hab'.2
    simpa [abK, List.map_map, Function.comp_def] using this
  simp only [abG, Prod.mk.injEq]
  refine ⟨lerpGlyph_contours s a b g h, ?_⟩
  rw [lerpGlyph_comps s a b g h, pairComps_zip _ _ hbase]
  simp only [signStableG, List.all_eq_true] at hst
  -- component by component
  have : ∀ (as bs : List Comp), (∀ p ∈ as.zip bs, signStable2 p.1.t p.2.t = true) → as.map (·.base) = bs.map (·.base) →
      ((as.zip bs).map (fun p => lerpComp s p.1 p.2)).map (abK absS) = as.map (abK absS) := by
    intro as
    induction as with
    | nil => intro bs _ _; simp
    | cons c cs ih =>
      intro bs hp hb
      cases bs with
      | nil => simp at hb
      | cons d ds =>
        simp only [List.map_cons, List.cons.injEq] at hb
        simp only [List.zip_cons_cons, List.map_cons, List.cons.injEq]
        refine ⟨?_, ih ds (fun p hp' => hp p (by rw [List.zip_cons_cons]; exact List.mem_cons_of_mem _ hp')) hb.2⟩
        have hs2 := hp (c, d) (by rw [List.zip_cons_cons]; exact List.mem_cons_self)
        have := (signStable2_sound c.t d.t hs2 s (by grind) (by grind)).1
        simp only [abK, absS, lerpComp, this]
  exact this a.comps b.comps hst hbase

/-! ### what the Instantiator hands out for glyphs that are still the sources' -/

section live
variable (I : Inst) (P : Masters)

/-- `g` looks like one of the sources' glyphs called `n` -/
def ViewG (n : String) (g : Glyph) : Prop := ∃ m ∈ P, ∃ g0, m.get? n = some g0 ∧ abG absS g = abG absS g0

/-- the entries of a layer whose name satisfies `U` look like the sources' -/
def ViewOn (U : String → Prop) (layer : GlyphSet) : Prop := ∀ e ∈ layer, U e.1 → ViewG P e.1 e.2

/-- the hypotheses on the sources -/
structure SrcOK : Prop where
  keys : ∀ m ∈ P, m.names.Nodup
  alike : AlikeB (abG absS) P
  stable : ∀ m1 ∈ P, ∀ m2 ∈ P, ∀ n g1 g2, m1.get? n = some g1 → m2.get? n = some g2 → signStableG g1 g2 = true

/-- the state reads the live glyph sets; for the names in `Um` the glyph sets still hold the sources' own glyphs, and the
    cached Variators of the names in `Uc` were built from the sources' glyphs -/
structure LGood (Um Uc : String → Prop) (s : St) : Prop where
  live : s.pristine = none
  len : s.ms.length = P.length
  keys : ∀ m ∈ s.ms, m.names.Nodup
  same : ∀ x, Um x → ∀ j, (s.ms.getD j []).get? x = (P.getD j []).get? x
  cache : ∀ e ∈ s.cache, Uc e.1 → ∀ x ∈ e.2, ∃ m ∈ P, m.get? e.1 = some x.2

theorem collectMasters_src (ms : Masters) (n : String) (pts : List (Q × Glyph)) (hc : collectMasters I ms n = some pts) :
    ∀ x ∈ pts, ∃ m ∈ ms, m.get? n = some x.2 := by
  unfold collectMasters at hc
  cases hd : (ms.getD I.defaultIdx []).get? n with
  | none => rw [hd] at hc; cases hc
  | some d =>
    rw [hd] at hc; dsimp only at hc
    have hall : ∀ x ∈ (ms.zip I.locs).filterMap (fun (m, l) => (m.get? n).map (fun g => (l, g))), ∃ m ∈ ms, m.get? n = some x.2 := by
      intro x hx
      obtain ⟨⟨m, l⟩, hml, hx⟩ := List.mem_filterMap.mp hx
      dsimp only at hx
      cases hg : m.get? n with
      | none => rw [hg] at hx; cases hx
      | some g =>
        rw [hg] at hx; simp only [Option.map_some, Option.some.injEq] at hx
        rw [← hx]
        exact ⟨m, (List.of_mem_zip hml).1, hg⟩
    split at hc
    · simp only [Option.some.injEq] at hc
      intro x hx; rw [← hc] at hx
      exact hall x (List.mem_filter.mp hx).1
    · simp only [Option.some.injEq] at hc
      intro x hx; rw [← hc] at hx; exact hall x hx

/-- `collect_glyph_masters` for `x` only reads the glyphs called `x` -/
theorem collectMasters_congr (ms : Masters) (x : String) (hl : ms.length = P.length)
    (h : ∀ j, (ms.getD j []).get? x = (P.getD j []).get? x) : collectMasters I ms x = collectMasters I P x := by
  have hmap : ms.map (fun m => m.get? x) = P.map (fun m => m.get? x) := by
    apply List.ext_getElem
    · simp only [List.length_map]; exact hl
    · intro j h1 h2
      simp only [List.length_map] at h1 h2
      simp only [List.getElem_map]
      have := h j
      rw [getD_eq_getElem_of_lt ms j h1, getD_eq_getElem_of_lt P j h2] at this
      exact this
  have hzip : ∀ (l : Masters), (l.zip I.locs).filterMap (fun (m, l) => (m.get? x).map (fun g => (l, g))) =
      ((l.map (fun m => m.get? x)).zip I.locs).filterMap (fun (o, l) => o.map (fun g => (l, g))) := by
    intro l
    generalize I.locs = locs
    induction l generalizing locs with
    | nil => simp
    | cons a l ih =>
      cases locs with
      | nil => simp
      | cons b locs => simp only [List.zip_cons_cons, List.map_cons, List.filterMap_cons]; rw [ih locs]
  unfold collectMasters
  rw [h I.defaultIdx, hzip ms, hzip P, hmap]

variable (hP : SrcOK P)
include hP

theorem interpAt_view (n : String) (pts : List (Q × Glyph)) (hpts : ∀ x ∈ pts, ∃ m ∈ P, m.get? n = some x.2)
    (t : Q) (g : Glyph) (h : interpAt pts t = some g) : ViewG P n g := by
  rcases interpAt_cases pts t g h with ⟨e, he, rfl⟩ | ⟨a, ha, b, hb, s, h0, h1, hl⟩
  · obtain ⟨m, hm, hg⟩ := hpts e he
    exact ⟨m, hm, e.2, hg, rfl⟩
  · obtain ⟨ma, hma, hga⟩ := hpts a ha
    obtain ⟨mb, hmb, hgb⟩ := hpts b hb
    exact ⟨ma, hma, a.2, hga, lerpGlyph_alike s a.2 b.2 g h0 h1 (hP.alike ma hma mb hmb n a.2 b.2 hga hgb)
      (hP.stable ma hma mb hmb n a.2 b.2 hga hgb) hl⟩

omit hP in
/-- the masters a Variator for `x` is (or was) built from are the sources' glyphs -/
theorem mastersFor_src (Um Uc : String → Prop) (s : St) (hs : LGood P Um Uc s) (x : String) (hc : Uc x)
    (hm : Um x ∨ (alookup x s.cache).isSome = true) (pts : List (Q × Glyph)) (h : mastersFor I s x = some pts) :
    ∀ e ∈ pts, ∃ m ∈ P, m.get? x = some e.2 := by
  unfold mastersFor at h
  cases hca : alookup x s.cache with
  | some p =>
    rw [hca] at h; simp only [Option.some.injEq] at h
    rw [← h]
    exact hs.cache (x, p) (alookup_mem x s.cache p hca) hc
  | none =>
    rw [hca] at h
    have hu : Um x := by
      rcases hm with h1 | h1
      · exact h1
      · rw [hca] at h1; cases h1
    have hl : s.layers = s.ms := by unfold St.layers; rw [hs.live]
    rw [hl, collectMasters_congr I P s.ms x hs.len (hs.same x hu)] at h
    exact collectMasters_src I P x pts h

theorem interpGlyph_viewL (Um Uc : String → Prop) (s : St) (hs : LGood P Um Uc s) (x : String) (hc : Uc x)
    (hm : Um x ∨ (alookup x s.cache).isSome = true) (t : Q) (g : Glyph)
    (h : interpGlyph I s x t = some g) : ViewG P x g := by
  unfold interpGlyph at h
  cases hmf : mastersFor I s x with
  | none => rw [hmf] at h; cases h
  | some pts =>
    rw [hmf] at h
    exact interpAt_view P hP x pts (mastersFor_src I P Um Uc s hs x hc hm pts hmf) t g h

/-- every glyph a master's `InterpolatedLayer` hands out under a still-original name looks like the sources' glyphs -/
theorem layerSet_viewL (U : String → Prop) (s : St) (hs : LGood P U U s) (i : Nat) :
    ViewOn P U (layerSet (some I) s i) := by
  intro e he hU
  have hl : s.layers = s.ms := by unfold St.layers; rw [hs.live]
  simp only [layerSet, List.mem_append, List.mem_filterMap] at he
  rw [hl] at he
  rcases he with ⟨e0, he0, hx⟩ | ⟨n, _, hx⟩
  · split at hx
    · simp only [Option.some.injEq] at hx; rw [← hx] at hU ⊢
      have hm := mem_getD_mem s.ms i e0 he0
      have hg : (s.ms.getD i []).get? e0.1 = some e0.2 := get?_of_mem_nodup _ e0.1 e0.2 (hs.keys _ hm) he0
      rw [hs.same e0.1 hU i] at hg
      have hi : i < P.length := by
        by_cases hc : i < P.length
        · exact hc
        · rw [getD_nil_of_le P i (by omega)] at hg; cases hg
      exact ⟨P.getD i [], by rw [getD_eq_getElem_of_lt _ i hi]; exact List.getElem_mem hi, e0.2, hg, rfl⟩
    · cases hg : interpGlyph I s e0.1 (I.locs.getD i 0) with
      | none => rw [hg] at hx; cases hx
      | some g =>
        rw [hg] at hx; simp only [Option.map_some, Option.some.injEq] at hx
        rw [← hx] at hU ⊢; exact interpGlyph_viewL I P hP U U s hs e0.1 hU (Or.inl hU) _ g hg
  · split at hx
    · cases hx
    · cases hg : interpGlyph I s n (I.locs.getD i 0) with
      | none => rw [hg] at hx; cases hx
      | some g =>
        rw [hg] at hx; simp only [Option.map_some, Option.some.injEq] at hx
        rw [← hx] at hU ⊢; exact interpGlyph_viewL I P hP U U s hs n hU (Or.inl hU) _ g hg

/-- two such layers agree on every set of names inside `U` -/
theorem views_agreeOn (U S : String → Prop) (hSU : ∀ x, S x → U x) (l1 l2 : GlyphSet) (h1 : ViewOn P U l1) (h2 : ViewOn P U l2) :
    AgreeOn absS S l1 l2 := by
  intro n g1 g2 hS e1 e2
  obtain ⟨m1, hm1, x1, hx1, a1⟩ := h1 _ (get?_mem l1 n g1 e1) (hSU n hS)
  obtain ⟨m2, hm2, x2, hx2, a2⟩ := h2 _ (get?_mem l2 n g2 e2) (hSU n hS)
  rw [a1, a2]
  exact hP.alike m1 hm1 m2 hm2 n x1 x2 hx1 hx2

omit hP in
theorem touch_goodL (U : String → Prop) (names : List String) (s : St) (hs : LGood P U U s) :
    LGood P U U (touch (some I) names s) := by
  simp only [touch]
  induction names generalizing s with
  | nil => exact hs
  | cons n ns ih =>
    simp only [List.foldl_cons]
    apply ih
    split
    · exact hs
    · cases hc : collectMasters I s.layers n with
      | none => exact hs
      | some p =>
        refine ⟨hs.live, hs.len, hs.keys, hs.same, ?_⟩
        intro e he hU
        rcases List.mem_append.mp he with he | he
        · exact hs.cache e he hU
        · simp only [List.mem_singleton] at he
          subst he
          have hl : s.layers = s.ms := by unfold St.layers; rw [hs.live]
          rw [hl, collectMasters_congr I P s.ms n hs.len (hs.same n hU)] at hc
          exact collectMasters_src I P n p hc

omit hP in
/-- replacing the glyph `n` (not in `Um`) of one glyph set keeps the state good -/
theorem setn_goodL (Um Uc : String → Prop) (s : St) (hs : LGood P Um Uc s) (n : String) (hn : ¬ Um n) (i : Nat) (g g' : Glyph)
    (hg : (s.ms.getD i []).get? n = some g) :
    LGood P Um Uc { s with ms := setAt s.ms i ((s.ms.getD i []).set n g') } := by
  have hi : i < s.ms.length := by
    by_cases hc : i < s.ms.length
    · exact hc
    · rw [getD_nil_of_le s.ms i (by omega)] at hg; cases hg
  refine ⟨hs.live, by simp only [setAt, List.length_set]; exact hs.len, ?_, ?_, hs.cache⟩
  · intro m hm
    rcases mem_setAt s.ms i _ m hm with rfl | hm
    · rw [names_set]; exact hs.keys _ (mem_getD_mem s.ms i (n, g) (get?_mem _ n g hg))
    · exact hs.keys m hm
  · intro x hx j
    by_cases hij : i = j
    · subst hij
      dsimp only
      rw [getD_setAt_self _ _ _ hi, get?_set _ n x g g' hg, if_neg (fun (e : x = n) => hn (e ▸ hx))]
      exact hs.same x hx i
    · dsimp only
      rw [getD_setAt_ne _ _ _ _ hij]; exact hs.same x hx j


omit hP in
theorem LGood.mono {Um Uc Um' Uc' : String → Prop} {s : St} (h : LGood P Um Uc s) (h1 : ∀ x, Um' x → Um x)
    (h2 : ∀ x, Uc' x → Uc x) : LGood P Um' Uc' s :=
  ⟨h.live, h.len, h.keys, fun x hx => h.same x (h1 x hx), fun e he hU => h.cache e he (h2 _ hU)⟩

omit hP in
theorem touch_goodL2 (Um Uc : String → Prop) (hU : ∀ x, Uc x → Um x) (names : List String) (s : St) (hs : LGood P Um Uc s) :
    LGood P Um Uc (touch (some I) names s) := by
  simp only [touch]
  induction names generalizing s with
  | nil => exact hs
  | cons n ns ih =>
    simp only [List.foldl_cons]
    apply ih
    split
    · exact hs
    · cases hc : collectMasters I s.layers n with
      | none => exact hs
      | some p =>
        refine ⟨hs.live, hs.len, hs.keys, hs.same, ?_⟩
        intro e he hUe
        rcases List.mem_append.mp he with he | he
        · exact hs.cache e he hUe
        · simp only [List.mem_singleton] at he
          subst he
          have hl : s.layers = s.ms := by unfold St.layers; rw [hs.live]
          rw [hl, collectMasters_congr I P s.ms n hs.len (hs.same n (hU n hUe))] at hc
          exact collectMasters_src I P n p hc

/-! ### the per-master loop with an Instantiator -/

/-- what the loop does to ONE glyph set, given the layer its bases are resolved in -/
def updOneL (n : String) (f : GlyphSet → Glyph → Except GErr (Option Glyph × Bool)) (layer m : GlyphSet) :
    Except GErr GlyphSet :=
  match m.get? n with
  | none => .ok m
  | some g =>
    match f layer g with
    | .error e => .error e
    | .ok (none, _) => .ok m
    | .ok (some g', _) => .ok (m.set n g')

theorem perMaster_live_spec {G : String → Glyph → Prop} (hQ : GInv G) (U : String → Prop) (n : String) (hn : ¬ U n)
    (visit : GlyphSet → Glyph → List String)
    (f : GlyphSet → Glyph → Except GErr (Option Glyph × Bool)) (hf : OpG G f) :
    ∀ (idxs : List Nat) (s s' : St) (fl fl' : Bool), LGood P U U s → StQ G s →
      perMaster (some I) n visit f idxs s fl = .ok (s', fl') → idxs.Nodup →
      LGood P U U s' ∧ StQ G s' ∧
      (∀ j, j ∈ idxs → ∃ layer, ViewOn P U layer ∧ SetQ G layer ∧ updOneL n f layer (s.ms.getD j []) = .ok (s'.ms.getD j [])) ∧
      (∀ j, j ∉ idxs → s'.ms.getD j [] = s.ms.getD j []) := by
  intro idxs
  induction idxs with
  | nil =>
    intro s s' fl fl' hs hq h _
    simp only [perMaster, Except.ok.injEq, Prod.mk.injEq] at h
    rw [← h.1]
    exact ⟨hs, hq, fun j hj => absurd hj (by simp), fun _ _ => rfl⟩
  | cons i rest ih =>
    intro s s' fl fl' hs hq h hnd
    have hi : i ∉ rest := (List.nodup_cons.mp hnd).1
    have hrest : rest.Nodup := (List.nodup_cons.mp hnd).2
    unfold perMaster at h
    cases hg : (s.ms.getD i []).get? n with
    | none =>
      rw [hg] at h; dsimp only at h
      obtain ⟨hgood, hq', hin, hout⟩ := ih s s' fl fl' hs hq h hrest
      refine ⟨hgood, hq', ?_, ?_⟩
      · intro j hj
        rcases List.mem_cons.mp hj with rfl | hj
        · exact ⟨[], (fun e he => by cases he), (fun e he => by cases he), by rw [hout j hi]; simp only [updOneL, hg]⟩
        · exact hin j hj
      · intro j hj
        exact hout j (fun h' => hj (List.mem_cons_of_mem _ h'))
    | some g =>
      rw [hg] at h; dsimp only at h
      have hlt : i < s.ms.length := by
        by_cases hc : i < s.ms.length
        · exact hc
        · have := getD_nil_of_le s.ms i (by omega)
          rw [this] at hg; cases hg
      have hview := layerSet_viewL I P hP U s hs i
      have hlq := layerSet_Q hQ (some I) s hq i
      have hGg : G n g := getD_setQ hq.ms i _ (get?_mem _ n g hg)
      cases hfr : f (layerSet (some I) s i) g with
      | error e => rw [hfr] at h; cases h
      | ok res =>
        obtain ⟨og, flx⟩ := res
        rw [hfr] at h; dsimp only at h
        have hs1 := touch_goodL I P U (requested (some I) s i (visit (layerSet (some I) s i) g)) s hs
        have hq1 := touch_Q hQ (some I) (requested (some I) s i (visit (layerSet (some I) s i) g)) s hq
        have hms1 : (touch (some I) (requested (some I) s i (visit (layerSet (some I) s i) g)) s).ms = s.ms := touch_ms _ _ _
        cases og with
        | none =>
          dsimp only at h
          obtain ⟨hgood, hq', hin, hout⟩ := ih _ s' _ fl' hs1 hq1 h hrest
          rw [hms1] at hin hout
          refine ⟨hgood, hq', ?_, ?_⟩
          · intro j hj
            rcases List.mem_cons.mp hj with rfl | hj
            · exact ⟨_, hview, hlq, by rw [hout j hi]; simp only [updOneL, hg, hfr]⟩
            · exact hin j hj
          · intro j hj
            exact hout j (fun h' => hj (List.mem_cons_of_mem _ h'))
        | some g' =>
          dsimp only at h
          have hg1 : ((touch (some I) (requested (some I) s i (visit (layerSet (some I) s i) g)) s).ms.getD i []).get? n = some g := by
            rw [hms1]; exact hg
          have hs2 := setn_goodL P U U _ hs1 n hn i g g' hg1
          have hq2 : StQ G { (touch (some I) (requested (some I) s i (visit (layerSet (some I) s i) g)) s) with
              ms := setAt (touch (some I) (requested (some I) s i (visit (layerSet (some I) s i) g)) s).ms i
                (((touch (some I) (requested (some I) s i (visit (layerSet (some I) s i) g)) s).ms.getD i []).set n g') } := by
            apply StQ_setms _ hq1
            apply mastersQ_setAt _ hq1.ms
            apply setQ_set _ (getD_setQ hq1.ms i)
            exact hf _ n g g' flx hlq hGg hfr
          obtain ⟨hgood, hq', hin, hout⟩ := ih _ s' _ fl' hs2 hq2 h hrest
          dsimp only at hin hout
          rw [hms1] at hin hout
          refine ⟨hgood, hq', ?_, ?_⟩
          · intro j hj
            rcases List.mem_cons.mp hj with rfl | hj
            · refine ⟨_, hview, hlq, ?_⟩
              rw [hout j hi, getD_setAt_self _ _ _ hlt]; simp only [updOneL, hg, hfr]
            · have hne : i ≠ j := fun e => hi (e ▸ hj)
              obtain ⟨layer, hlv, hlq', hu⟩ := hin j hj
              rw [getD_setAt_ne _ _ _ _ hne] at hu
              exact ⟨layer, hlv, hlq', hu⟩
          · intro j hj
            have hne : i ≠ j := fun e => hj (e ▸ List.mem_cons_self)
            rw [hout j (fun h' => hj (List.mem_cons_of_mem _ h')), getD_setAt_ne _ _ _ _ hne]

/-- glyphs called `x` look alike in all glyph sets -/
def AlikeAt (ms : Masters) (x : String) : Prop :=
  ∀ m1 ∈ ms, ∀ m2 ∈ ms, ∀ g1 g2, m1.get? x = some g1 → m2.get? x = some g2 → abG absS g1 = abG absS g2

omit hP in
theorem updOneL_other (n : String) (f : GlyphSet → Glyph → Except GErr (Option Glyph × Bool)) (layer m m' : GlyphSet)
    (h : updOneL n f layer m = .ok m') (x : String) (hx : x ≠ n) : m'.get? x = m.get? x := by
  unfold updOneL at h
  cases hg : m.get? n with
  | none => rw [hg] at h; simp only [Except.ok.injEq] at h; rw [← h]
  | some g =>
    rw [hg] at h; dsimp only at h
    cases hf : f layer g with
    | error e => rw [hf] at h; cases h
    | ok r =>
      obtain ⟨og, fl⟩ := r
      rw [hf] at h
      cases og with
      | none => simp only [Except.ok.injEq] at h; rw [← h]
      | some g' =>
        simp only [Except.ok.injEq] at h
        rw [← h, get?_set m n x g g' hg, if_neg hx]

omit hP in
/-- two glyph sets updated in layers in which `f` respects the look of the glyph `n`: the results' glyphs `n` look alike -/
theorem updOneL_alike (n : String) (f : GlyphSet → Glyph → Except GErr (Option Glyph × Bool))
    (l1 l2 m1 m2 m1' m2' : GlyphSet)
    (hrel : ∀ g1 g2 r1 r2, m1.get? n = some g1 → m2.get? n = some g2 → f l1 g1 = .ok r1 → f l2 g2 = .ok r2 →
      r1.1.map (abG absS) = r2.1.map (abG absS))
    (hin : ∀ g1 g2, m1.get? n = some g1 → m2.get? n = some g2 → abG absS g1 = abG absS g2)
    (e1 : updOneL n f l1 m1 = .ok m1') (e2 : updOneL n f l2 m2 = .ok m2') :
    ∀ g1 g2, m1'.get? n = some g1 → m2'.get? n = some g2 → abG absS g1 = abG absS g2 := by
  intro g1' g2' hx1 hx2
  unfold updOneL at e1 e2
  cases hg1 : m1.get? n with
  | none =>
    rw [hg1] at e1; simp only [Except.ok.injEq] at e1; subst e1
    rw [hg1] at hx1; cases hx1
  | some g1 =>
    rw [hg1] at e1; dsimp only at e1
    cases hg2 : m2.get? n with
    | none =>
      rw [hg2] at e2; simp only [Except.ok.injEq] at e2; subst e2
      rw [hg2] at hx2; cases hx2
    | some g2 =>
      rw [hg2] at e2; dsimp only at e2
      cases hf1 : f l1 g1 with
      | error e => rw [hf1] at e1; cases e1
      | ok r1 =>
        cases hf2 : f l2 g2 with
        | error e => rw [hf2] at e2; cases e2
        | ok r2 =>
          obtain ⟨og1, fl1⟩ := r1
          obtain ⟨og2, fl2⟩ := r2
          rw [hf1] at e1; rw [hf2] at e2
          have hrel' := hrel g1 g2 _ _ hg1 hg2 hf1 hf2
          dsimp only at hrel'
          cases og1 with
          | none =>
            cases og2 with
            | some _ => simp at hrel'
            | none =>
              simp only [Except.ok.injEq] at e1 e2; subst e1; subst e2
              rw [hg1] at hx1; rw [hg2] at hx2
              simp only [Option.some.injEq] at hx1 hx2
              rw [← hx1, ← hx2]; exact hin g1 g2 hg1 hg2
          | some g1n =>
            cases og2 with
            | none => simp at hrel'
            | some g2n =>
              simp only [Except.ok.injEq] at e1 e2; subst e1; subst e2
              simp only [Option.map_some, Option.some.injEq] at hrel'
              rw [get?_set m1 n n g1 g1n hg1, if_pos rfl] at hx1
              rw [get?_set m2 n n g2 g2n hg2, if_pos rfl] at hx2
              simp only [Option.some.injEq] at hx1 hx2
              rw [← hx1, ← hx2]; exact hrel'


omit hP in
theorem mem_addMod_self (l : List String) (n : String) : n ∈ addMod l n := by
  unfold addMod
  split
  · rename_i h; simpa using h
  · exact List.mem_append_right _ List.mem_cons_self

omit hP in
theorem alikeAt_transfer (ms ms' : Masters) (x : String) (hl : ms'.length = ms.length)
    (hk : ∀ j, (ms'.getD j []).get? x = (ms.getD j []).get? x) (h : AlikeAt ms x) : AlikeAt ms' x := by
  intro m1 hm1 m2 hm2 g1 g2 h1 h2
  obtain ⟨j1, hj1, hjm1⟩ := mem_getD_of_mem ms' m1 hm1
  obtain ⟨j2, hj2, hjm2⟩ := mem_getD_of_mem ms' m2 hm2
  have e1 := hk j1; rw [hjm1, h1] at e1
  have e2 := hk j2; rw [hjm2, h2] at e2
  have hj1' : j1 < ms.length := by omega
  have hj2' : j2 < ms.length := by omega
  exact h (ms.getD j1 []) (by rw [getD_eq_getElem_of_lt _ j1 hj1']; exact List.getElem_mem hj1')
    (ms.getD j2 []) (by rw [getD_eq_getElem_of_lt _ j2 hj2']; exact List.getElem_mem hj2') g1 g2 e1.symm e2.symm

section refs
variable (R : String → String → Prop) (htrans : ∀ a b c, R a b → R b c → R a c)

include htrans in
/-- **the per-master decomposition with an Instantiator**: if every name reachable from `n` (relation `R`, which the
    components of all glyphs in the state follow) is still original (`U`), the glyphs `n` come out alike (if they were),
    and every other key is untouched -/
theorem perMaster_live_alike (U : String → Prop) (n : String) (hn : ¬ U n) (hreach : ∀ x, R n x → U x)
    (nested : Bool) (incl : Option (List String)) (visit : GlyphSet → Glyph → List String)
    (s s' : St) (fl fl' : Bool) (hs : LGood P U U s) (hq : StQ (RefOk R) s) (hal : AlikeAt s.ms n)
    (h : perMaster (some I) n visit (decomposeOp nested incl) (List.range s.ms.length) s fl = .ok (s', fl')) :
    LGood P U U s' ∧ StQ (RefOk R) s' ∧ AlikeAt s'.ms n ∧
    ∀ j x, x ≠ n → (s'.ms.getD j []).get? x = (s.ms.getD j []).get? x := by
  obtain ⟨hgood, hq', hin, hout⟩ := perMaster_live_spec I P hP (refOk_GInv R htrans) U n hn visit _
    (decomposeOp_G (refOk_GInv R htrans) nested incl) _ s s' fl fl' hs hq h List.nodup_range
  have hl : s'.ms.length = s.ms.length := by rw [hgood.len, hs.len]
  refine ⟨hgood, hq', ?_, ?_⟩
  · intro m1 hm1 m2 hm2 g1 g2 h1 h2
    obtain ⟨j1, hj1, hjm1⟩ := mem_getD_of_mem s'.ms m1 hm1
    obtain ⟨j2, hj2, hjm2⟩ := mem_getD_of_mem s'.ms m2 hm2
    have hj1' : j1 < s.ms.length := by omega
    have hj2' : j2 < s.ms.length := by omega
    obtain ⟨l1, hv1, hq1, hu1⟩ := hin j1 (List.mem_range.mpr hj1')
    obtain ⟨l2, hv2, _, hu2⟩ := hin j2 (List.mem_range.mpr hj2')
    rw [hjm1] at hu1; rw [hjm2] at hu2
    have hm1s : s.ms.getD j1 [] ∈ s.ms := by rw [getD_eq_getElem_of_lt _ j1 hj1']; exact List.getElem_mem hj1'
    have hm2s : s.ms.getD j2 [] ∈ s.ms := by rw [getD_eq_getElem_of_lt _ j2 hj2']; exact List.getElem_mem hj2'
    apply updOneL_alike n (decomposeOp nested incl) l1 l2 _ _ m1 m2 _ (fun a b ha hb => hal _ hm1s _ hm2s a b ha hb) hu1 hu2 g1 g2 h1 h2
    intro a b r1 r2 ha hb e1 e2
    -- the two decompositions run in layers that agree on everything reachable from `n`
    have hagree := views_agreeOn P hP U (fun x => R n x) hreach l1 l2 hv1 hv2
    have hclosed : ClosedIn (fun x => R n x) l1 := by
      intro b g hb' hg k hk
      exact htrans _ _ _ hb' ((hq1 _ (get?_mem l1 b g hg)).2 k hk)
    have hcomps : ∀ k ∈ a.comps, R n k.base := (hq.ms _ hm1s _ (get?_mem _ n a ha)).2
    unfold decomposeOp at e1 e2
    cases hd1 : decomposeGlyph l1 nested incl a with
    | error e => rw [hd1] at e1; cases e1
    | ok a' =>
      rw [hd1] at e1
      cases hd2 : decomposeGlyph l2 nested incl b with
      | error e => rw [hd2] at e2; cases e2
      | ok b' =>
        rw [hd2] at e2
        simp only [Except.ok.injEq] at e1 e2
        rw [← e1, ← e2]
        simp only [Option.map_some, Option.some.injEq]
        exact decomposeGlyph_relOn absS (fun x => R n x) l1 l2 hagree hclosed nested incl a b a' b'
          (hal _ hm1s _ hm2s a b ha hb) hcomps hd1 hd2
  · intro j x hx
    by_cases hj : j < s.ms.length
    · obtain ⟨l, _, _, hu⟩ := hin j (List.mem_range.mpr hj)
      exact updOneL_other n _ l _ _ hu x hx
    · rw [hout j (by simpa using hj)]

end refs

/-! ### `ensureCompositeDefinedAtComponentLocations` while `n` is still original -/

omit hP in
theorem touch_one (n : String) (s : St) :
    (touch (some I) [n] s = s ∧ ((alookup n s.cache).isSome = true ∨ collectMasters I s.layers n = none)) ∨
    (∃ p, (alookup n s.cache).isSome = false ∧ collectMasters I s.layers n = some p ∧
      touch (some I) [n] s = { s with cache := s.cache ++ [(n, p)] }) := by
  simp only [touch, List.foldl_cons, List.foldl_nil]
  by_cases hc : (alookup n s.cache).isSome = true
  · left; rw [if_pos hc]; exact ⟨rfl, Or.inl hc⟩
  · rw [if_neg hc]
    cases hcm : collectMasters I s.layers n with
    | none => left; exact ⟨rfl, Or.inr rfl⟩
    | some p => right; exact ⟨p, by simpa using hc, rfl, rfl⟩

omit hP in
theorem get?_append_ne (m : GlyphSet) (n x : String) (g : Glyph) (hx : x ≠ n) :
    GlyphSet.get? (m ++ [(n, g)]) x = m.get? x := by
  simp only [GlyphSet.get?]
  rw [alookup_append]
  cases hq : alookup x m with
  | some v => rfl
  | none =>
    simp only [alookup]
    rw [if_neg (by simpa using fun e : n = x => hx e.symm)]

theorem ensureLoop_live (md : List String) (n : String) (hnmd : n ∉ md) (toAdd : List Q) :
    ∀ (idx : List (Nat × Q)) (s s' : St),
      LGood P (fun x => x ∉ md ∧ x ≠ n) (fun x => x ∉ md) s →
      ((∀ j, (s.ms.getD j []).get? n = (P.getD j []).get? n) ∨ (alookup n s.cache).isSome = true) →
      ensureLoop I n toAdd idx s = .ok s' → (idx.map (·.1)).Nodup →
      LGood P (fun x => x ∉ md ∧ x ≠ n) (fun x => x ∉ md) s' ∧
      ∀ j, (s'.ms.getD j [] = s.ms.getD j []) ∨
        (∃ g, (s.ms.getD j []).get? n = none ∧ s'.ms.getD j [] = s.ms.getD j [] ++ [(n, g)] ∧ ViewG P n g) := by
  intro idx
  induction idx with
  | nil =>
    intro s s' hs _ h _
    simp only [ensureLoop, Except.ok.injEq] at h
    rw [← h]
    exact ⟨hs, fun _ => Or.inl rfl⟩
  | cons e rest ih =>
    obtain ⟨i, l⟩ := e
    intro s s' hs hnk h hnd
    simp only [List.map_cons, List.nodup_cons] at hnd
    unfold ensureLoop at h
    by_cases hc : toAdd.contains l = true
    · rw [if_pos hc] at h
      cases hg : (s.ms.getD i []).get? n with
      | some g => rw [hg] at h; cases h
      | none =>
        rw [hg] at h; dsimp only at h
        have hms : (touch (some I) [n] s).ms = s.ms := touch_ms _ _ _
        cases hi : interpGlyph I (touch (some I) [n] s) n l with
        | none => rw [hi] at h; cases h
        | some g =>
          rw [hi] at h; dsimp only at h
          -- the touched state is good, `n` is cached in it, and `g` looks like the sources' `n`
          have hkey : LGood P (fun x => x ∉ md ∧ x ≠ n) (fun x => x ∉ md) (touch (some I) [n] s) ∧
              (alookup n (touch (some I) [n] s).cache).isSome = true ∧ ViewG P n g := by
            rcases touch_one I n s with ⟨heq, hor⟩ | ⟨p, hnc, hcm, heq⟩
            · rw [heq] at hi ⊢
              rcases hor with hcached | hnone
              · exact ⟨hs, hcached, interpGlyph_viewL I P hP _ _ s hs n hnmd (Or.inr hcached) l g hi⟩
              · by_cases hca : (alookup n s.cache).isSome = true
                · exact ⟨hs, hca, interpGlyph_viewL I P hP _ _ s hs n hnmd (Or.inr hca) l g hi⟩
                · -- neither cached nor collectable: the interpolation cannot have succeeded
                  exfalso
                  unfold interpGlyph mastersFor at hi
                  cases hcb : alookup n s.cache with
                  | some p => rw [hcb] at hca; simp at hca
                  | none => rw [hcb, hnone] at hi; cases hi
            · -- first request: the Variator is built from the live glyph sets, which still hold the sources' `n`
              have hk : ∀ j, (s.ms.getD j []).get? n = (P.getD j []).get? n := by
                rcases hnk with hk | hk
                · exact hk
                · rw [hnc] at hk; cases hk
              have hs' : LGood P (fun x => (x ∉ md ∧ x ≠ n) ∨ x = n) (fun x => x ∉ md) s :=
                ⟨hs.live, hs.len, hs.keys, fun x hx j => by
                  rcases hx with hx | hx
                  · exact hs.same x hx j
                  · rw [hx]; exact hk j, hs.cache⟩
              have hs1' := touch_goodL2 I P _ _ (fun x hx => by
                by_cases hxn : x = n
                · exact Or.inr hxn
                · exact Or.inl ⟨hx, hxn⟩) [n] s hs'
              refine ⟨hs1'.mono P (fun x hx => Or.inl hx) (fun x hx => hx), ?_,
                interpGlyph_viewL I P hP _ _ _ hs1' n hnmd (Or.inl (Or.inr rfl)) l g hi⟩
              rw [heq]
              simp only [GlyphSet.get?] at *
              rw [alookup_append]
              cases hq : alookup n s.cache with
              | some v => rfl
              | none => simp [alookup]
          obtain ⟨hs1, hcached1, hview⟩ := hkey
          -- the state after appending
          have hs2 : LGood P (fun x => x ∉ md ∧ x ≠ n) (fun x => x ∉ md)
              { (touch (some I) [n] s) with ms := setAt (touch (some I) [n] s).ms i ((touch (some I) [n] s).ms.getD i [] ++ [(n, g)]) } := by
            rw [hms]
            refine ⟨hs1.live, by simp only [setAt, List.length_set]; rw [← hms]; exact hs1.len, ?_, ?_, hs1.cache⟩
            · intro m hm
              rcases mem_setAt s.ms i _ m hm with rfl | hm
              · by_cases hlt : i < s.ms.length
                · have hmm : s.ms.getD i [] ∈ s.ms := by rw [getD_eq_getElem_of_lt _ i hlt]; exact List.getElem_mem hlt
                  simp only [GlyphSet.names, List.map_append, List.map_cons, List.map_nil]
                  rw [List.nodup_append]
                  refine ⟨hs.keys _ hmm, by simp, ?_⟩
                  intro a ha b hb
                  simp only [List.mem_singleton] at hb
                  rw [hb]
                  intro hab
                  have := (get?_isSome_iff_names (s.ms.getD i []) n).mpr (by rw [← hab]; exact ha)
                  rw [hg] at this; cases this
                · rw [getD_nil_of_le s.ms i (by omega)]; simp [GlyphSet.names]
              · exact hs.keys m hm
            · intro x hx j
              by_cases hij : i = j
              · subst hij
                by_cases hlt : i < s.ms.length
                · dsimp only
                  rw [getD_setAt_self _ _ _ hlt, get?_append_ne _ n x g hx.2]; exact hs.same x hx i
                · dsimp only
                  rw [getD_nil_of_le _ i (by simp only [setAt, List.length_set]; omega)]
                  rw [← hs.same x hx i, getD_nil_of_le s.ms i (by omega)]
              · dsimp only
                rw [getD_setAt_ne _ _ _ _ hij]; exact hs.same x hx j
          obtain ⟨hgood, hall⟩ := ih _ s' hs2 (Or.inr hcached1) h hnd.2
          dsimp only at hall
          rw [hms] at hall
          refine ⟨hgood, ?_⟩
          intro j
          by_cases hij : i = j
          · subst hij
            have hrest : s'.ms.getD i [] = (setAt s.ms i (s.ms.getD i [] ++ [(n, g)])).getD i [] := by
              rcases hall i with h1 | ⟨g', hnone, _, _⟩
              · exact h1
              · exfalso
                by_cases hlt : i < s.ms.length
                · rw [getD_setAt_self _ _ _ hlt] at hnone
                  simp only [GlyphSet.get?] at hnone hg
                  rw [alookup_append, hg] at hnone
                  simp [alookup] at hnone
                · rename_i happ _
                  have e0 : (setAt s.ms i (s.ms.getD i [] ++ [(n, g)])).getD i [] = [] :=
                    getD_nil_of_le _ i (by simp only [setAt, List.length_set]; omega)
                  rw [e0] at happ
                  have hlen := congrArg List.length happ
                  rw [getD_nil_of_le s'.ms i (by rw [hgood.len, ← hs.len]; omega)] at hlen
                  simp at hlen
            by_cases hlt : i < s.ms.length
            · right
              exact ⟨g, hg, by rw [hrest, getD_setAt_self _ _ _ hlt], hview⟩
            · left
              rw [hrest, getD_nil_of_le s.ms i (by omega)]
              exact getD_nil_of_le _ i (by simp only [setAt, List.length_set]; omega)
          · rcases hall j with h1 | ⟨g', hnone, heq, hv⟩
            · left; rw [h1, getD_setAt_ne _ _ _ _ hij]
            · right
              rw [getD_setAt_ne _ _ _ _ hij] at hnone heq
              exact ⟨g', hnone, heq, hv⟩
    · rw [if_neg hc] at h
      exact ih s s' hs hnk h hnd.2


/-! ### one decomposing run while the Instantiator reads the live glyph sets -/

section run
variable (R : String → String → Prop) (htrans : ∀ a b c, R a b → R b c → R a c)

/-- the loop invariant: what has not been reported modified is still the source's own glyph (in the glyph sets and in
    the cached Variators); same-named glyphs look alike; component references follow `R` -/
structure RInvL (s : St) (md : List String) : Prop where
  good : LGood P (fun x => x ∉ md) (fun x => x ∉ md) s
  alike : ∀ x, AlikeAt s.ms x
  refs : StQ (RefOk R) s

include htrans in
theorem decomposeIStep_live (s : St) (n : String) (s' : St) (r : Bool) (md : List String) (hn : n ∉ md)
    (hreach : ∀ x, R n x → x ∉ md ∧ x ≠ n)
    (hI : RInvL P R s md) (h : decomposeIStep (some I) s n = .ok (s', r)) :
    RInvL P R s' (if r = true then addMod md n else md) := by
  have hq' := decomposeIStep_Q (refOk_GInv R htrans) (some I) s n s' r hI.refs h
  unfold decomposeIStep at h
  split at h
  · simp only [Except.ok.injEq, Prod.mk.injEq] at h
    rw [← h.1, ← h.2]; exact hI
  · cases he : ensureComposite (some I) s none n with
    | error e => rw [he] at h; cases h
    | ok s1 =>
      rw [he] at h; dsimp only at h
      have hq1 := ensureComposite_Q (refOk_GInv R htrans) (some I) s s1 none n hI.refs he
      have hens : LGood P (fun x => x ∉ md ∧ x ≠ n) (fun x => x ∉ md) s1 ∧
          ∀ j, (s1.ms.getD j [] = s.ms.getD j []) ∨
            (∃ g, (s.ms.getD j []).get? n = none ∧ s1.ms.getD j [] = s.ms.getD j [] ++ [(n, g)] ∧ ViewG P n g) := by
        unfold ensureComposite at he
        dsimp only at he
        split at he
        · simp only [Except.ok.injEq] at he; rw [← he]
          exact ⟨hI.good.mono P (fun x hx => hx.1) (fun x hx => hx), fun _ => Or.inl rfl⟩
        · exact ensureLoop_live I P hP md n hn _ _ s s1 (hI.good.mono P (fun x hx => hx.1) (fun x hx => hx))
            (Or.inl (hI.good.same n hn)) he (List.Nodup.sublist (zip_fst_sublist _ _) List.nodup_range)
      obtain ⟨hg1, hall1⟩ := hens
      have hl1 : s1.ms.length = s.ms.length := by rw [hg1.len, hI.good.len]
      have hviewn : ∀ j g, (s1.ms.getD j []).get? n = some g → ViewG P n g := by
        intro j g hg
        rcases hall1 j with h1 | ⟨g', hnone, happ, hv⟩
        · rw [h1, hI.good.same n hn j] at hg
          by_cases hj : j < P.length
          · exact ⟨P.getD j [], by rw [getD_eq_getElem_of_lt _ j hj]; exact List.getElem_mem hj, g, hg, rfl⟩
          · rw [getD_nil_of_le P j (by omega)] at hg; cases hg
        · rw [happ] at hg
          simp only [GlyphSet.get?] at hg hnone
          rw [alookup_append, hnone] at hg
          simp only [alookup, beq_self_eq_true, if_true, Option.some.injEq] at hg
          rw [← hg]; exact hv
      have hother1 : ∀ x, x ≠ n → ∀ j, (s1.ms.getD j []).get? x = (s.ms.getD j []).get? x := by
        intro x hx j
        rcases hall1 j with h1 | ⟨g', _, happ, _⟩
        · rw [h1]
        · rw [happ]; exact get?_append_ne _ n x g' hx
      have halike1 : AlikeAt s1.ms n := by
        intro m1 hm1 m2 hm2 g1 g2 h1 h2
        obtain ⟨j1, _, hjm1⟩ := mem_getD_of_mem s1.ms m1 hm1
        obtain ⟨j2, _, hjm2⟩ := mem_getD_of_mem s1.ms m2 hm2
        obtain ⟨a1, ha1, x1, hx1, e1⟩ := hviewn j1 g1 (by rw [hjm1]; exact h1)
        obtain ⟨a2, ha2, x2, hx2, e2⟩ := hviewn j2 g2 (by rw [hjm2]; exact h2)
        rw [e1, e2]; exact hP.alike a1 ha1 a2 ha2 n x1 x2 hx1 hx2
      cases hp : perMaster (some I) n (decomposeVisit true none) (decomposeOp true none) (List.range s1.ms.length) s1 true with
      | error e => rw [hp] at h; cases h
      | ok res =>
        obtain ⟨s2, fl⟩ := res
        rw [hp] at h
        simp only [Except.ok.injEq, Prod.mk.injEq] at h
        rw [← h.1, ← h.2]
        rw [← h.1] at hq'
        obtain ⟨hg2, _, halike2, hother2⟩ := perMaster_live_alike I P hP R htrans (fun x => x ∉ md ∧ x ≠ n) n
          (fun hx => hx.2 rfl) hreach true none _ s1 s2 true fl (hg1.mono P (fun x hx => hx) (fun x hx => hx.1)) hq1 halike1 hp
        have hl2 : s2.ms.length = s1.ms.length := by rw [hg2.len, hg1.len]
        simp only [if_true]
        refine ⟨hg2.mono P ?_ ?_, ?_, hq'⟩
        · intro x hx
          exact ⟨fun e => hx (mem_addMod_of_mem md n x e), fun e => hx (e ▸ mem_addMod_self md n)⟩
        · intro x hx
          exact ⟨fun e => hx (mem_addMod_of_mem md n x e), fun e => hx (e ▸ mem_addMod_self md n)⟩
        · intro x
          by_cases hx : x = n
          · rw [hx]; exact halike2
          · apply alikeAt_transfer s.ms s2.ms x (by rw [hl2, hl1]) _ (hI.alike x)
            intro j
            rw [hother2 j x hx, hother1 x hx j]

/-- the order is topological w.r.t. `R` -/
def TopoFrom : List String → List String → Prop
  | _, [] => True
  | seen, n :: ns => (∀ x, R n x → x ∉ seen ∧ x ≠ n) ∧ TopoFrom (n :: seen) ns

include htrans in
theorem iLoop_live (incl : Glyph → Bool) : ∀ (order seen : List String) (s s' : St) (md md' : List String),
    (∀ x ∈ md, x ∈ seen) → TopoFrom R seen order → RInvL P R s md →
    iLoop incl (decomposeIStep (some I)) order (s, md) = .ok (s', md') → RInvL P R s' md' := by
  intro order
  induction order with
  | nil =>
    intro seen s s' md md' _ _ hI h
    simp only [iLoop, Except.ok.injEq, Prod.mk.injEq] at h
    rw [← h.1, ← h.2]; exact hI
  | cons n ns ih =>
    intro seen s s' md md' hsub htopo hI h
    obtain ⟨hreach, hrest⟩ := htopo
    have hsub' : ∀ x ∈ md, x ∈ n :: seen := fun x hx => List.mem_cons_of_mem _ (hsub x hx)
    unfold iLoop at h
    by_cases h1 : md.contains n = true
    · rw [if_pos h1] at h; exact ih (n :: seen) s s' md md' hsub' hrest hI h
    · rw [if_neg h1] at h
      split at h
      · cases hst : decomposeIStep (some I) s n with
        | error e => rw [hst] at h; cases h
        | ok rr =>
          obtain ⟨s1, r1⟩ := rr
          rw [hst] at h
          have hI1 := decomposeIStep_live I P hP R htrans s n s1 r1 md (by simpa using h1)
            (fun x hx => ⟨fun hm => (hreach x hx).1 (hsub x hm), (hreach x hx).2⟩) hI hst
          refine ih (n :: seen) s1 s' _ md' ?_ hrest hI1 h
          intro x hx
          split at hx
          · rcases mem_addMod md n x hx with hx | hx
            · exact hsub' x hx
            · rw [hx]; exact List.mem_cons_self
          · exact hsub' x hx
      · exact ih (n :: seen) s s' md md' hsub' hrest hI h

include htrans in
/-- **the first decomposing run with an Instantiator** (any include predicate): if its iteration order is topological,
    the family comes out alike -/
theorem runI_live (hrefs : MastersQ (RefOk R) P) (incl : Glyph → Bool) (ords : List (List String)) (s' : St) (md : List String)
    (htopo : ∀ order, orderI P (runNames ⟨P, none, [], ords⟩) = .ok order → TopoFrom R [] order)
    (h : runI incl (decomposeIStep (some I)) ⟨P, none, [], ords⟩ = .ok (s', md)) :
    AlikeB (abG absS) s'.ms := by
  have hrun : runI incl (decomposeIStep (some I)) ⟨P, none, [], ords⟩ =
      (match orderI P (runNames ⟨P, none, [], ords⟩) with
       | .error e => .error e
       | .ok order => iLoop incl (decomposeIStep (some I)) order (⟨P, none, [], ords.drop 1⟩, [])) := rfl
  rw [hrun] at h
  cases ho : orderI P (runNames ⟨P, none, [], ords⟩) with
  | error e => rw [ho] at h; cases h
  | ok order =>
    rw [ho] at h; dsimp only at h
    have h0 : RInvL P R ⟨P, none, [], ords.drop 1⟩ [] :=
      ⟨⟨rfl, rfl, hP.keys, fun _ _ _ => rfl, fun e he => by cases he⟩,
        fun x => fun m1 hm1 m2 hm2 g1 g2 h1 h2 => hP.alike m1 hm1 m2 hm2 x g1 g2 h1 h2,
        ⟨hrefs, hrefs, fun e he => by cases he⟩⟩
    have := iLoop_live I P hP R htrans incl order [] _ s' [] md (fun x hx => by cases hx) (htopo order ho) h0 h
    intro m1 hm1 m2 hm2 n g1 g2 h1 h2
    exact this.alike n m1 hm1 m2 hm2 g1 g2 h1 h2

end run

end live

end Ufo2ft.C09
